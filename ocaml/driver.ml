(* Line-protocol driver around the extracted model (part of the trusted base).
   One request per line on stdin, one answer per line on stdout.
     contains <clist> <int>          -> OK true|false | ERR <err>
     den <clist> <int>               -> OK true|false
     wf <clist>                      -> OK true|false
     validate <clist>                -> OK true | ERR <err>
     sort <clist>                    -> OK <clist> | ERR <err>
     invert <clist>                  -> NONE | OK <clist> | ERR <err>
     normalize <clist> <ilist>       -> OK <clist> | ERR <err>
     from_versions <ilist>           -> OK <clist> | ERR <err>
   <clist> = "-" (empty) or comma separated items  "*"  or  OP:int   (OP in GE LE NE LT GT EQ)
   <ilist> = "-" or comma separated ints *)
open Model

let rec pos_of_int n = if n = 1 then XH else if n land 1 = 0 then XO (pos_of_int (n lsr 1)) else XI (pos_of_int (n lsr 1))
let z_of_int n = if n = 0 then Z0 else if n > 0 then Zpos (pos_of_int n) else Zneg (pos_of_int (- n))
let rec int_of_pos = function XH -> 1 | XO p -> 2 * int_of_pos p | XI p -> 2 * int_of_pos p + 1
let int_of_z = function Z0 -> 0 | Zpos p -> int_of_pos p | Zneg p -> - (int_of_pos p)

let cop_of_string = function
  | "GE" -> GE | "LE" -> LE | "NE" -> NE | "LT" -> LT | "GT" -> GT | "EQ" -> EQ
  | s -> failwith ("bad cop " ^ s)
let string_of_cop = function GE -> "GE" | LE -> "LE" | NE -> "NE" | LT -> "LT" | GT -> "GT" | EQ -> "EQ"

let split_list s = if s = "-" then [] else Stdlib.String.split_on_char ',' s
let constr_of_string s =
  if s = "*" then Star
  else match Stdlib.String.split_on_char ':' s with
    | [o; n] -> C (cop_of_string o, z_of_int (int_of_string n))
    | _ -> failwith ("bad constraint " ^ s)
let clist s = List.map constr_of_string (split_list s)
let ilist s = List.map (fun x -> z_of_int (int_of_string x)) (split_list s)
let string_of_constr = function Star -> "*" | C (o, v) -> string_of_cop o ^ ":" ^ string_of_int (int_of_z v)
let string_of_clist l = if l = [] then "-" else Stdlib.String.concat "," (List.map string_of_constr l)

let string_of_err = function
  | EInvalidVersion -> "EInvalidVersion" | EValue -> "EValue" | EInvalidRange -> "EInvalidRange"
  | EInvalidConstraints -> "EInvalidConstraints" | EType -> "EType" | EIndex -> "EIndex"
  | EKey -> "EKey" | EAttr -> "EAttr" | EUnbound -> "EUnbound" | EAssert -> "EAssert"
  | ERecursion -> "ERecursion" | EOther -> "EOther"

let res_bool = function Ok b -> "OK " ^ string_of_bool b | Err e -> "ERR " ^ string_of_err e
let n_of_int n = if n = 0 then N0 else Npos (pos_of_int n)
(* native alternatives: "E:5" or "I:lo;hi;excl" with lo/hi = "-" | "<int>i" | "<int>x", excl = "-" | ints separated by "."; alternatives separated by "|" *)
let bound_of_string s =
  if s = "-" then None
  else let n = Stdlib.String.length s in
    Some (z_of_int (int_of_string (Stdlib.String.sub s 0 (n - 1))), (Stdlib.String.get s (n - 1) = 'i'))
let alt_of_string s =
  match Stdlib.String.split_on_char ':' s with
  | ["E"; v] -> AExact (z_of_int (int_of_string v))
  | ["I"; rest] ->
    (match Stdlib.String.split_on_char ';' rest with
     | [l; h; x] ->
       let ex = if x = "-" then [] else List.map (fun t -> z_of_int (int_of_string t)) (Stdlib.String.split_on_char '.' x) in
       AIval { lo = bound_of_string l; hi = bound_of_string h; excl = ex }
     | _ -> failwith ("bad interval " ^ s))
  | _ -> failwith ("bad alternative " ^ s)
let alts s = if s = "-" then [] else List.map alt_of_string (Stdlib.String.split_on_char '|' s)

let res_clist = function Ok l -> "OK " ^ string_of_clist l | Err e -> "ERR " ^ string_of_err e

(* Coq strings (extracted as an inductive type, no ExtrOcamlString) *)
let ascii_of_char c =
  let n = Char.code c in
  let b i = (n lsr i) land 1 = 1 in
  Ascii (b 0, b 1, b 2, b 3, b 4, b 5, b 6, b 7)
let char_of_ascii = function
  | Ascii (b0, b1, b2, b3, b4, b5, b6, b7) ->
    let v b i = if b then 1 lsl i else 0 in
    Char.chr (v b0 0 + v b1 1 + v b2 2 + v b3 3 + v b4 4 + v b5 5 + v b6 6 + v b7 7)
let coq_string (s : Stdlib.String.t) =
  let rec go i = if i >= Stdlib.String.length s then EmptyString else String (ascii_of_char s.[i], go (i + 1)) in
  go 0
let rec ocaml_string = function
  | EmptyString -> ""
  | String (a, r) -> Stdlib.String.make 1 (char_of_ascii a) ^ ocaml_string r

let pyop_of_string = function
  | "eq" -> OpEq | "ne" -> OpNe | "lt" -> OpLt | "le" -> OpLe | "gt" -> OpGt | "ge" -> OpGe
  | s -> failwith ("bad pyop " ^ s)
let string_of_outcome = function
  | OVal -> "OVal" | OFalse -> "OFalse" | OTrue -> "OTrue" | OTypeError -> "OTypeError" | ORaise -> "ORaise"
let string_of_gres = function
  | GPass -> "GPass" | GTypeError -> "GTypeError" | GValueError -> "GValueError" | GOther -> "GOther"
let vclass s = match find_vclass (coq_string s) with Some c -> c | None -> failwith ("unknown vclass " ^ s)
let rclass s = match find_rclass (coq_string s) with Some c -> c | None -> failwith ("unknown rclass " ^ s)

(* text layer: strings travel hex-encoded; str = ascii list *)
let unhex (h : Stdlib.String.t) : ascii list =
  if h = "-" then [] else
  let n = Stdlib.String.length h / 2 in
  List.init n (fun i -> ascii_of_char (Char.chr (int_of_string ("0x" ^ Stdlib.String.sub h (2 * i) 2))))
let hex (l : ascii list) : Stdlib.String.t =
  if l = [] then "-" else Stdlib.String.concat "" (List.map (fun a -> Printf.sprintf "%02x" (Char.code (char_of_ascii a))) l)
let string_of_gconstr = function Star -> "*" | C (o, v) -> string_of_cop o ^ ":" ^ hex v
let string_of_gclist l = if l = [] then "-" else Stdlib.String.concat "," (List.map string_of_gconstr l)
let gconstr_of_string s =
  if s = "*" then Star
  else match Stdlib.String.split_on_char ':' s with
    | [o; h] -> C (cop_of_string o, unhex h)
    | _ -> failwith ("bad gconstraint " ^ s)
let gclist s = List.map gconstr_of_string (split_list s)
let res_gclist = function Ok l -> "OK " ^ string_of_gclist l | Err e -> "ERR " ^ string_of_err e
let string_of_cop7 = function Op o -> string_of_cop o | STAR -> "STAR"
let b s = (s = "1" || s = "true")

let handle line =
  match Stdlib.String.split_on_char ' ' (Stdlib.String.trim line) with
  | ["contains"; cs; v] -> res_bool (z_contains (clist cs) (z_of_int (int_of_string v)))
  | ["den"; cs; v] -> "OK " ^ string_of_bool (z_den (clist cs) (z_of_int (int_of_string v)))
  | ["mem"; cs; v] -> "OK " ^ string_of_bool (z_mem (clist cs) (z_of_int (int_of_string v)))
  | ["nonvacuous"; cs] -> "OK " ^ string_of_bool (z_nonvacuous (clist cs))
  | ["wf"; cs] -> "OK " ^ string_of_bool (z_wf_sorted (clist cs))
  | ["validate"; cs] -> res_bool (z_validate (clist cs))
  | ["simplify"; cs] -> res_clist (z_simplify (clist cs))
  | ["sort"; cs] -> res_clist (z_sort (clist cs))
  | ["invert"; cs] -> (match z_invert (clist cs) with None -> "NONE" | Some r -> res_clist r)
  | ["normalize"; cs; known] -> res_clist (z_normalize (clist cs) (ilist known))
  | ["from_versions"; l] -> res_clist (z_from_versions (ilist l))
  | ["richcmp"; op; a; b] -> string_of_outcome (x_richcmp (pyop_of_string op) (vclass a) (vclass b))
  | ["unrelated"; a; b] -> string_of_bool (x_unrelated (vclass a) (vclass b))
  | ["guard"; r; b] -> string_of_gres (x_guard_range (rclass r) (vclass b)) ^ " " ^ string_of_gres (x_guard_constraint (rclass r) (vclass b))
  | ["range_vclass"; r] -> (match x_range_vclass (rclass r) with Some c -> ocaml_string (x_vclass_name c) | None -> "NONE")
  | ["hashable"; a] -> string_of_bool (x_hashable (vclass a))
  | ["frozen"; a] -> string_of_bool (x_frozen (vclass a))
  | ["vclasses"] -> Stdlib.String.concat "," (List.map (fun c -> ocaml_string (x_vclass_name c)) x_all_vclasses)
  | ["rclasses"] -> Stdlib.String.concat "," (List.map (fun c -> ocaml_string (x_rclass_name c)) x_all_rclasses)
  | ["split_constraint"; h] -> let (c, v) = x_split_constraint (unhex h) in string_of_cop7 c ^ " " ^ hex v
  | ["gconstraint"; h] -> (match g_constraint_from_string (unhex h) with Ok c -> "OK " ^ string_of_gconstr c | Err e -> "ERR " ^ string_of_err e)
  | ["gparse"; h; fs; fv] -> res_gclist (g_constraints_from_string (unhex h) (b fs) (b fv))
  | ["gprint"; cs] -> (match g_constraints_to_string (gclist cs) with Ok t -> "OK " ^ hex t | Err e -> "ERR " ^ string_of_err e)
  | ["fromstring"; h; fs; fv] -> (match g_from_string (unhex h) (b fs) (b fv) with
                                   | Ok (rc, cs) -> "OK " ^ ocaml_string (x_rclass_name rc) ^ " " ^ string_of_gclist cs
                                   | Err e -> "ERR " ^ string_of_err e)
  | ["py_is_ascii"; h] -> string_of_bool (x_py_is_ascii (unhex h))
  | ["remove_spaces"; h] -> hex (x_remove_spaces (unhex h))
  | ["lower"; h] -> hex (x_lower (unhex h))
  | ["split"; c; h] -> Stdlib.String.concat "," (List.map hex (x_split_c (List.hd (unhex c)) (unhex h)))
  | ["strip"; cs; h] -> hex (x_strip_set (unhex cs) (unhex h))
  | ["lstrip"; cs; h] -> hex (x_lstrip_set (unhex cs) (unhex h))
  | ["partition"; c; h] -> let ((a, f), r) = x_partition_c (List.hd (unhex c)) (unhex h) in hex a ^ " " ^ string_of_bool f ^ " " ^ hex r
  | ["svnext"; k; h] -> (match x_sv_next (let rec n i = if i = 0 then O else S (n (i - 1)) in n (int_of_string k)) (unhex h) with Ok t -> "OK " ^ hex t | Err e -> "ERR " ^ string_of_err e)
  | ["svstable"; h] -> res_bool (x_sv_stable (unhex h))
  | ["adv_github"; items] -> res_gclist (g_github (List.map unhex (split_list items)))
  | ["adv_snyk"; items] -> res_gclist (g_snyk (List.map unhex (split_list items)))
  | ["adv_gitlab"; tname; sep; h] ->
      (match List.find_opt (fun (n, _) -> ocaml_string n = tname) x_native_tables with
       | None -> "NOTABLE"
       | Some (_, t) -> res_gclist (g_gitlab t (List.hd (unhex sep)) (unhex h)))
  | ["split_req"; tname; dflt; strip; h] ->
      let t = (match tname with
               | "github" -> x_github_table | "snyk" -> x_snyk_table
               | _ -> (match List.find_opt (fun (n, _) -> ocaml_string n = tname) x_native_tables with Some (_, t) -> t | None -> failwith "notable")) in
      let d = if dflt = "-" then None else Some (cop_of_string dflt) in
      (match x_split_req t d (unhex strip) (unhex h) with
       | Ok (c, v) -> "OK " ^ (match c with Some o -> string_of_cop o | None -> "None") ^ " " ^ hex v
       | Err e -> "ERR " ^ string_of_err e)
  | ["schemes"] -> Stdlib.String.concat "," (List.map ocaml_string xs_names)
  | ["vvalid"; sc; h] -> (match xs_find (coq_string sc) with None -> "NOSCHEME" | Some s -> res_bool (xs_valid s (unhex h)))
  | ["vctor"; sc; h] -> (match xs_find (coq_string sc) with None -> "NOSCHEME" | Some s ->
                          (match xs_ctor s (unhex h) with Ok (t, sh) -> "OK " ^ hex t ^ (if sh then "" else " OUT-OF-THEOREM-DOMAIN") | Err e -> "ERR " ^ string_of_err e))
  | ["vpair"; sc; a; b] -> (match xs_find (coq_string sc) with None -> "NOSCHEME" | Some s ->
                          (match xs_pair s (unhex a) (unhex b) with
                           | Ok ((o, h), c) ->
                             let f x = if x then "1" else "0" in
                             "OK " ^ f o.o_eq ^ f o.o_ne ^ f o.o_lt ^ f o.o_le ^ f o.o_gt ^ f o.o_ge ^ " " ^ f h ^ " " ^ (match c with Lt -> "lt" | Eq -> "eq" | Gt -> "gt")
                           | Err e -> "ERR " ^ string_of_err e))
  | ["nmatch"; e; v] -> "OK " ^ string_of_bool (z_nmatch (alts e) (z_of_int (int_of_string v)))
  | ["nconstraints"; e] -> "OK " ^ string_of_clist (z_to_constraints (alts e))
  | ["shorthand"; kind; a; b; c; x; y; z] ->
      let n s = n_of_int (int_of_string s) in
      let f = (match kind with
               | "caret" -> x_native_caret | "tilde" -> x_native_same_minor | "majorx" -> x_native_same_major
               | "nginxplus" -> x_native_nginx_plus | _ -> failwith "bad shorthand") in
      "OK " ^ string_of_bool (f (n a) (n b) (n c) (n x) (n y) (n z))
  | ["gemhelpers"; h] -> (match x_gem_helpers (unhex h) with
                          | Ok ((b, r), c) -> "OK " ^ hex b ^ " " ^ hex r ^ " " ^ hex c
                          | Err e -> "ERR " ^ string_of_err e)
  | ["mavennative"; which; h] -> res_gclist (x_maven_native (which = "nuget") (unhex h))
  | ["relations"; which; items] -> res_gclist (x_relations (which = "rpm") (List.map unhex (Stdlib.String.split_on_char ',' items)))
  | ["nginxnative"; h] -> res_gclist (x_nginx_native (unhex h))
  | ["opensslnative"; h] -> res_gclist (x_openssl_native (unhex h))
  | ["refcmp"; cls; a; b] -> (match x_refcmp (coq_string cls) (unhex a) (unhex b) with
                             | None -> "NOREF"
                             | Some None -> "OUTSIDE"
                             | Some (Some c) -> (match c with Lt -> "lt" | Eq -> "eq" | Gt -> "gt"))
  | _ -> "BAD " ^ line

let () =
  try
    while true do
      let line = input_line stdin in
      print_string (try handle line with Failure m -> "BAD " ^ m | Not_found -> "BAD notfound");
      print_char '\n'
    done
  with End_of_file -> ()
