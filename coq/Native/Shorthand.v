(* C06, the shorthands over a fully specified release version, on the semver model: the pair of constraints that the
   converters emit for npm caret, npm tilde / x-ranges and the nginx "version+" form denotes exactly the release
   versions the ecosystem's rule accepts.
     caret  (node-semver): "allows changes that do not modify the left-most non-zero element of [major, minor, patch]"
     tilde  (node-semver): "allows patch-level changes if a minor version is specified"
     M.m.x / M.x:            any patch of that minor / any minor and patch of that major
     nginx  M.m.p+:          this or any later version of the branch; a stable branch (even minor) ends before the next
                             minor, the mainline (odd minor) has no end *)
From Coq Require Import List Bool Arith Ascii NArith Lia ZifyBool ZifyN.
From UV.Base Require Import Order Cop Res.
From UV.Gen Require Import Tables.
From UV.Py Require Import PyStr.
From UV.Vers Require Import Model Spec.
From UV.Schemes Require Import Common Generic Semver SemverProofs.
From UV.Native Require Import Intervals.
Import ListNotations.

Notation sden := (den semver semver_cmp).

(* release versions compare as their three numbers *)
Definition lex3 (x y z a b c : N) : comparison :=
  match N.compare x a with Eq => match N.compare y b with Eq => N.compare z c | o => o end | o => o end.
Lemma cmp_mk x y z a b c : semver_cmp (mk x y z) (mk a b c) = lex3 x y z a b c.
Proof.
  unfold semver_cmp, mk, lex3. cbn [sv_major sv_minor sv_patch sv_pre sv_build].
  destruct (N.compare x a); try reflexivity. destruct (N.compare y b); try reflexivity. destruct (N.compare z c); reflexivity.
Qed.

(* [>= lower, < upper] on release versions *)
Definition half_open (a b c u v w x y z : N) : bool :=
  (match lex3 x y z a b c with Lt => false | _ => true end) && (match lex3 x y z u v w with Lt => true | _ => false end).
Lemma den_half_open a b c u v w x y z :
  sden [C GE (mk a b c); C LT (mk u v w)] (mk x y z) = half_open a b c u v w x y z.
Proof.
  pose proof (den_alt semver semver_cmp
                (AIval semver {| lo := Some (mk a b c, true); hi := Some (mk u v w, false); excl := [] |}) (mk x y z) eq_refl) as D.
  cbn [acs lo hi excl opt_list map app] in D. unfold lo_c, hi_c in D. cbn [fst snd] in D. rewrite D.
  cbn [amatch lo hi excl opt_all existsb negb]. unfold above, below. cbn [fst snd]. rewrite !cmp_mk, andb_true_r. unfold half_open.
  destruct (lex3 x y z a b c), (lex3 x y z u v w); reflexivity.
Qed.

Definition ge3 (x y z a b c : N) : bool := N.ltb a x || (N.eqb a x && (N.ltb b y || (N.eqb b y && N.leb c z))).
Definition lt3 (x y z a b c : N) : bool := N.ltb x a || (N.eqb x a && (N.ltb y b || (N.eqb y b && N.ltb z c))).
Lemma lex3_ge x y z a b c : (match lex3 x y z a b c with Lt => false | _ => true end) = ge3 x y z a b c.
Proof.
  unfold lex3, ge3. destruct (N.compare_spec x a), (N.compare_spec y b), (N.compare_spec z c); lia.
Qed.
Lemma lex3_lt x y z a b c : (match lex3 x y z a b c with Lt => true | _ => false end) = lt3 x y z a b c.
Proof.
  unfold lex3, lt3. destruct (N.compare_spec x a), (N.compare_spec y b), (N.compare_spec z c); lia.
Qed.

(* ---- npm caret ------------------------------------------------------------------------------------------------ *)
(* NpmVersionRange.from_native: next_major if the major is not zero, else next_minor if the minor is not zero, else next_patch *)
Definition caret_upper (v : semver) : semver :=
  let base := mk (sv_major v) (sv_minor v) (sv_patch v) in
  if negb (N.eqb (sv_major v) 0) then next_major base
  else if negb (N.eqb (sv_minor v) 0) then next_minor base
  else next_patch base.
(* node-semver: at least the version, and the left-most non-zero element unchanged *)
Definition native_caret (a b c x y z : N) : bool :=
  ge3 x y z a b c &&
  (if negb (N.eqb a 0) then N.eqb x a
   else if negb (N.eqb b 0) then N.eqb x 0 && N.eqb y b
   else N.eqb x 0 && N.eqb y 0 && N.eqb z c).

Theorem caret_exact a b c x y z :
  sden [C GE (mk a b c); C LT (caret_upper (mk a b c))] (mk x y z) = native_caret a b c x y z.
Proof.
  unfold caret_upper, native_caret, next_major, next_minor, next_patch, has_pre. cbn [mk sv_major sv_minor sv_patch sv_pre andb].
  destruct (N.eqb a 0) eqn:A; cbn [negb].
  - destruct (N.eqb b 0) eqn:B; cbn [negb].
    + change {| sv_major := a; sv_minor := b; sv_patch := c + 1; sv_pre := []; sv_build := [] |} with (mk a b (c + 1)).
      change {| sv_major := a; sv_minor := b; sv_patch := c; sv_pre := []; sv_build := [] |} with (mk a b c).
      rewrite den_half_open. unfold half_open. rewrite lex3_ge, lex3_lt. unfold ge3, lt3. lia.
    + change {| sv_major := a; sv_minor := b + 1; sv_patch := 0; sv_pre := []; sv_build := [] |} with (mk a (b + 1) 0).
      change {| sv_major := a; sv_minor := b; sv_patch := c; sv_pre := []; sv_build := [] |} with (mk a b c).
      rewrite den_half_open. unfold half_open. rewrite lex3_ge, lex3_lt. unfold ge3, lt3. lia.
  - change {| sv_major := a + 1; sv_minor := 0; sv_patch := 0; sv_pre := []; sv_build := [] |} with (mk (a + 1) 0 0).
    change {| sv_major := a; sv_minor := b; sv_patch := c; sv_pre := []; sv_build := [] |} with (mk a b c).
    rewrite den_half_open. unfold half_open. rewrite lex3_ge, lex3_lt. unfold ge3, lt3. lia.
Qed.

(* ---- npm tilde, x-ranges, nginx branches ----------------------------------------------------------------------- *)
Definition native_same_minor (a b c x y z : N) : bool := ge3 x y z a b c && N.eqb x a && N.eqb y b.
Definition native_same_major (a b c x y z : N) : bool := ge3 x y z a b c && N.eqb x a.

(* ~M.m.p and M.m.x (p = 0): [>= M.m.p, < M.(m+1).0] *)
Theorem tilde_exact a b c x y z :
  sden [C GE (mk a b c); C LT (next_minor (mk a b c))] (mk x y z) = native_same_minor a b c x y z.
Proof.
  unfold next_minor, has_pre, native_same_minor. cbn [mk sv_major sv_minor sv_patch sv_pre andb].
  change {| sv_major := a; sv_minor := b + 1; sv_patch := 0; sv_pre := []; sv_build := [] |} with (mk a (b + 1) 0).
  change {| sv_major := a; sv_minor := b; sv_patch := c; sv_pre := []; sv_build := [] |} with (mk a b c).
  rewrite den_half_open. unfold half_open. rewrite lex3_ge, lex3_lt. unfold ge3, lt3. lia.
Qed.
(* M.x: [>= M.0.0, < (M+1).0.0] *)
Theorem major_x_exact a b c x y z :
  sden [C GE (mk a b c); C LT (next_major (mk a b c))] (mk x y z) = native_same_major a b c x y z.
Proof.
  unfold next_major, has_pre, native_same_major. cbn [mk sv_major sv_minor sv_patch sv_pre andb].
  change {| sv_major := a + 1; sv_minor := 0; sv_patch := 0; sv_pre := []; sv_build := [] |} with (mk (a + 1) 0 0).
  change {| sv_major := a; sv_minor := b; sv_patch := c; sv_pre := []; sv_build := [] |} with (mk a b c).
  rewrite den_half_open. unfold half_open. rewrite lex3_ge, lex3_lt. unfold ge3, lt3. lia.
Qed.

(* nginx "M.m.p+": NginxVersionRange.from_native asks is_stable (even minor) *)
Definition nginx_plus (v : semver) : list (constr semver) :=
  if is_stable v then [C GE v; C LT (next_minor v)] else [C GE v].
Definition native_nginx_plus (a b c x y z : N) : bool :=
  ge3 x y z a b c && (if N.eqb (N.modulo b 2) 0 then N.eqb x a && N.eqb y b else true).
Theorem nginx_plus_exact a b c x y z :
  sden (nginx_plus (mk a b c)) (mk x y z) = native_nginx_plus a b c x y z.
Proof.
  unfold nginx_plus, native_nginx_plus, is_stable. cbn [mk sv_minor].
  destruct (N.eqb (N.modulo b 2) 0).
  - rewrite tilde_exact. unfold native_same_minor. destruct (ge3 x y z a b c), (N.eqb x a), (N.eqb y b); reflexivity.
  - pose proof (den_alt semver semver_cmp
                  (AIval semver {| lo := Some (mk a b c, true); hi := None; excl := [] |}) (mk x y z) eq_refl) as D.
    cbn [acs lo hi excl opt_list map app] in D. unfold lo_c in D. cbn [fst snd] in D. rewrite D.
    cbn [amatch lo hi excl opt_all existsb negb]. unfold above. cbn [fst snd]. rewrite cmp_mk, !andb_true_r.
    rewrite <- lex3_ge. destruct (lex3 x y z a b c); reflexivity.
Qed.

(* hyphen range "A - B" over fully specified versions: [>= A, <= B] *)
Theorem hyphen_exact a b c u v w x y z :
  sden [C GE (mk a b c); C LE (mk u v w)] (mk x y z) = ge3 x y z a b c && ge3 u v w x y z.
Proof.
  pose proof (den_alt semver semver_cmp
                (AIval semver {| lo := Some (mk a b c, true); hi := Some (mk u v w, true); excl := [] |}) (mk x y z) eq_refl) as D.
  cbn [acs lo hi excl opt_list map app] in D. unfold lo_c, hi_c in D. cbn [fst snd] in D. rewrite D.
  cbn [amatch lo hi excl opt_all existsb negb]. unfold above, below. cbn [fst snd]. rewrite !cmp_mk, andb_true_r.
  rewrite <- lex3_ge. unfold lex3, ge3.
  destruct (N.compare_spec x a), (N.compare_spec y b), (N.compare_spec z c), (N.compare_spec x u), (N.compare_spec y v), (N.compare_spec z w); lia.
Qed.
