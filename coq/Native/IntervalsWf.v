(* C06, well-formedness: the constraints emitted for a flat native expression whose alternatives are ascending and
   disjoint, each with its own versions in ascending order, form a well-formed vers range (C07's sentence for a list
   read in version order): every version once, no '*', no '=' followed by an upper bound once exclusions are ignored,
   lower and upper bounds alternating. *)
From Coq Require Import List Bool Arith Lia.
From UV.Base Require Import Order Cop Res ListAux.
From UV.Gen Require Import Tables.
From UV.Vers Require Import Model Spec.
From UV.Native Require Import Intervals.
Import ListNotations.

Section Wf.
Variable V : Type.
Variable cmp : V -> V -> comparison.
Notation constr := (constr V).
Notation acs := (acs V).
Notation tc := (to_constraints V).
Notation increasing := (increasing V cmp).
Notation alternate := (alternate V).
Notation bounds := (bounds V).

(* properties of all adjacent pairs *)
Definition adj (R : constr * constr -> bool) (l : list constr) : bool := forallb R (pairwise l).
Lemma adj_app R l1 l2 :
  adj R (l1 ++ l2) = adj R l1 && (match last_opt l1, l2 with Some a, b :: _ => R (a, b) | _, _ => true end) && adj R l2.
Proof.
  unfold adj. rewrite pairwise_app, !forallb_app. destruct (last_opt l1), l2; cbn; rewrite ?andb_true_r, ?andb_assoc; reflexivity.
Qed.

Definition r_inc (p : constr * constr) : bool := ver_lt V cmp (fst p) (snd p).
Definition r_alt (p : constr * constr) : bool := negb (Bool.eqb (c_lower V (fst p)) (c_lower V (snd p))).
Definition r_eq (p : constr * constr) : bool := negb (c_eq V (fst p) && c_upper V (snd p)).

Lemma increasing_adj l : increasing l = adj r_inc l.
Proof.
  induction l as [|a r IH]; [reflexivity|]. destruct r as [|b r']; [reflexivity|].
  change (increasing (a :: b :: r')) with (ver_lt V cmp a b && increasing (b :: r')). rewrite IH. reflexivity.
Qed.
Lemma alternate_adj l : alternate l = adj r_alt l.
Proof.
  induction l as [|a r IH]; [reflexivity|]. destruct r as [|b r']; [reflexivity|].
  change (alternate (a :: b :: r')) with (negb (Bool.eqb (c_lower V a) (c_lower V b)) && alternate (b :: r')). rewrite IH. reflexivity.
Qed.
Definition nonne (l : list constr) : list constr := filter (fun c => negb (c_ne V c)) l.
Lemma eq_rule_adj l : eq_rule V l = adj r_eq (nonne l).
Proof.
  unfold eq_rule, adj, nonne. induction (pairwise (filter (fun c => negb (c_ne V c)) l)) as [|p r IH]; [reflexivity|].
  cbn [existsb forallb]. rewrite negb_orb, IH. reflexivity.
Qed.

(* each alternative lists its versions in ascending order *)
Definition alt_inc (a : alt V) : bool := increasing (acs a).

(* ---- the shapes of the filtered lists of one alternative ---- *)
Lemma nonne_app l1 l2 : nonne (l1 ++ l2) = nonne l1 ++ nonne l2.
Proof. apply filter_app. Qed.
Lemma nonne_ne l : nonne (map (C NE) l) = [].
Proof. induction l as [|x r IH]; cbn; [reflexivity|exact IH]. Qed.

Lemma nonne_acs a : nonne (acs a) = match a with AExact _ v => [C EQ v] | AIval _ i => opt_list (lo_c V) (lo V i) ++ opt_list (hi_c V) (hi V i) end.
Proof.
  destruct a as [v|[l h x]]; [reflexivity|]. cbn [Intervals.acs lo hi excl]. rewrite !nonne_app, nonne_ne. cbn [app].
  destruct l as [[? []]|], h as [[? []]|]; reflexivity.
Qed.
Lemma bounds_acs a : bounds (acs a) = match a with AExact _ _ => [] | AIval _ i => opt_list (lo_c V) (lo V i) ++ opt_list (hi_c V) (hi V i) end.
Proof.
  destruct a as [v|[l h x]]; [reflexivity|]. cbn [Intervals.acs lo hi excl]. rewrite !bounds_app, bounds_ne. cbn [app].
  destruct l as [[? []]|], h as [[? []]|]; reflexivity.
Qed.

Lemma adj_alt_acs a : adj r_alt (bounds (acs a)) = true.
Proof. rewrite bounds_acs. destruct a as [v|[l h x]]; [reflexivity|]. cbn [lo hi]. destruct l as [[? []]|], h as [[? []]|]; reflexivity. Qed.
Lemma adj_eq_acs a : adj r_eq (nonne (acs a)) = true.
Proof. rewrite nonne_acs. destruct a as [v|[l h x]]; [reflexivity|]. cbn [lo hi]. destruct l as [[? []]|], h as [[? []]|]; reflexivity. Qed.

(* the first filtered constraint of what follows an alternative is a lower bound or an '=' *)
Lemma tc_cons a r : tc (a :: r) = acs a ++ tc r.
Proof. reflexivity. Qed.

Lemma head_bounds_lower e : Forall (fun b => has_lo V b = true) e ->
  forall b, hd_error (bounds (tc e)) = Some b -> c_lower V b = true.
Proof.
  induction 1 as [|a r Ha Hr IH]; intros b; [cbn; discriminate|]. rewrite tc_cons, bounds_app, bounds_acs.
  destruct a as [v|[l h x]]; [exact (IH b)|]. cbn in Ha. destruct l as [[y i]|]; [|discriminate]. cbn [lo hi opt_list app].
  intros E. inversion E. destruct i; reflexivity.
Qed.
Lemma head_nonne_not_upper e : Forall (fun b => has_lo V b = true) e ->
  forall b, hd_error (nonne (tc e)) = Some b -> c_upper V b = false.
Proof.
  induction 1 as [|a r Ha Hr IH]; intros b; [cbn; discriminate|]. rewrite tc_cons, nonne_app, nonne_acs.
  destruct a as [v|[l h x]].
  - cbn. intros E. inversion E. reflexivity.
  - cbn in Ha. destruct l as [[y i]|]; [|discriminate]. cbn [lo hi opt_list app]. intros E. inversion E. destruct i; reflexivity.
Qed.
Lemma last_bounds_acs_upper a : has_hi V a = true -> forall b, last_opt (bounds (acs a)) = Some b -> c_lower V b = false.
Proof.
  rewrite bounds_acs. destruct a as [v|[l h x]]; [cbn; discriminate|]. cbn [has_hi hi lo]. destruct h as [[y i]|]; [|discriminate].
  intros _ b. destruct l as [[? ?]|]; cbn; intros E; inversion E; destruct i; reflexivity.
Qed.

Lemma hd_of_cons {A} (x : A) l b : match x :: l with b' :: _ => b' = b | [] => False end -> hd_error (x :: l) = Some b.
Proof. cbn. intros E. subst. reflexivity. Qed.

Lemma last_opt_in' {A} (b : A) : forall l, last_opt l = Some b -> In b l.
Proof.
  induction l as [|x r IH]; cbn; [discriminate|]. destruct r; [intros E; inversion E; left; reflexivity|].
  intros E. right. apply IH. exact E.
Qed.

(* C06: the converted range is well-formed *)
Theorem native_conversion_wf : forall e,
  separated V cmp e -> Forall (fun a => alt_inc a = true) e -> e <> [] -> wf_sorted V cmp (tc e) = true.
Proof.
  intros e S I N.
  assert (NS : no_star V (tc e) = true) by (unfold no_star; rewrite (no_star_tc V e); reflexivity).
  assert (K : increasing (tc e) = true /\ adj r_eq (nonne (tc e)) = true /\ adj r_alt (bounds (tc e)) = true).
  { clear N NS. induction e as [|a r IH]; [repeat split; reflexivity|].
    cbn [separated] in S. destruct S as [P [B [Hh [Hl S]]]]. inversion I as [|? ? Ia Ir]; subst.
    destruct (IH S Ir) as [I1 [I2 I3]]. rewrite tc_cons. repeat split.
    - rewrite increasing_adj, adj_app, <- !increasing_adj. fold (alt_inc a). rewrite Ia, I1, andb_true_r. cbn [andb].
      destruct (last_opt (acs a)) as [x|] eqn:L; [|reflexivity]. destruct (tc r) as [|y t] eqn:Tr; [reflexivity|].
      assert (Bx : c_before V cmp x y) by (apply B; [apply (last_opt_in' x _ L)|left; reflexivity]).
      unfold r_inc. cbn [fst snd]. destruct x as [|o1 v1], y as [|o2 v2]; cbn in Bx; try contradiction.
      cbn. unfold Model.ltb. rewrite Bx. reflexivity.
    - rewrite nonne_app, adj_app, adj_eq_acs, I2, andb_true_r. cbn [andb].
      destruct (last_opt (nonne (acs a))) as [x|]; [|reflexivity]. destruct (nonne (tc r)) as [|y t] eqn:Tr; [reflexivity|].
      assert (U : c_upper V y = false) by (apply (head_nonne_not_upper r Hl); rewrite Tr; reflexivity).
      unfold r_eq. cbn [fst snd]. rewrite U, andb_false_r. reflexivity.
    - rewrite bounds_app, adj_app, adj_alt_acs, I3, andb_true_r. cbn [andb].
      destruct (last_opt (bounds (acs a))) as [x|] eqn:L; [|reflexivity]. destruct (bounds (tc r)) as [|y t] eqn:Tr; [reflexivity|].
      assert (Rn : r <> []) by (intro E; subst r; cbn in Tr; discriminate).
      assert (Lx : c_lower V x = false) by (apply (last_bounds_acs_upper a (Hh Rn)); exact L).
      assert (Ly : c_lower V y = true) by (apply (head_bounds_lower r Hl); rewrite Tr; reflexivity).
      unfold r_alt. cbn [fst snd]. rewrite Lx, Ly. reflexivity. }
  destruct K as [K1 [K2 K3]].
  unfold wf_sorted. rewrite NS, K1, eq_rule_adj, K2, alternate_adj, K3.
  destruct (tc e) as [|c t]; [reflexivity|]. destruct c as [|o x]; [cbn in NS; discriminate|]. destruct t; reflexivity.
Qed.

End Wf.
