(* C10, the remaining clauses: the range that normalize() builds from the known versions validates, and contains a
   known version exactly when the original range did.  The runs of contiguous members of the sorted known list are
   the alternatives of a flat native expression (one exact version or one closed interval each), so the theorems of
   Intervals / IntervalsWf apply once the runs are shown to be ascending and separated by a non-member. *)
From Coq Require Import List Bool Arith Lia Sorting.Sorted Permutation.
From UV.Base Require Import Order Cop Res ListAux.
From UV.Gen Require Import Tables.
From UV.Vers Require Import Model Spec ContainsProofs SortProofs ValidateProofs NormalizeProofs InvertProofs.
From UV.Native Require Import Intervals IntervalsWf.
Import ListNotations.

Section NormalizeFull.
Variable V : Type.
Variable cmp : V -> V -> comparison.
Hypothesis T : TPO cmp.
Notation constr := (constr V).
Notation le := (fun x y : V => cmp x y <> Gt).

Variable mem : V -> bool.
Hypothesis mem_eq : forall x y, cmp x y = Eq -> mem x = mem y.

Fixpoint tw (l : list V) : list V := match l with x :: r => if mem x then x :: tw r else [] | [] => [] end.
Fixpoint dw (l : list V) : list V := match l with x :: r => if mem x then dw r else l | [] => [] end.
Lemma tw_dw l : l = tw l ++ dw l.
Proof. induction l as [|x r IH]; [reflexivity|]. cbn. destruct (mem x); [cbn; f_equal; exact IH|reflexivity]. Qed.
Lemma tw_all l : Forall (fun x => mem x = true) (tw l).
Proof. induction l as [|x r IH]; [constructor|]. cbn. destruct (mem x) eqn:E; [constructor; assumption|constructor]. Qed.
Lemma dw_head l z r : dw l = z :: r -> mem z = false.
Proof. induction l as [|x t IH]; cbn; [discriminate|]. destruct (mem x) eqn:E; [exact IH|]. intros H. inversion H; subst. exact E. Qed.

Definition wrap (s : list V) : list (list V) := match s with [] => [] | _ => [s] end.

(* the loop of normalize(), read as: a block of members, one non-member, and again *)
Lemma runs_eq : forall l cur,
  runs V mem l cur = match dw l with
                     | [] => wrap (rev cur ++ tw l)
                     | z :: l' => wrap (rev cur ++ tw l) ++ runs V mem l' []
                     end.
Proof.
  induction l as [|x r IH]; intros cur.
  - cbn [runs tw dw]. rewrite app_nil_r. destruct cur as [|c t]; [reflexivity|].
    cbn [rev]. destruct (rev t ++ [c]) eqn:E; [destruct (rev t); discriminate|reflexivity].
  - cbn [runs tw dw]. destruct (mem x) eqn:E.
    + rewrite (IH (x :: cur)). cbn [rev]. rewrite <- !app_assoc. reflexivity.
    + rewrite app_nil_r. destruct cur as [|c t]; [reflexivity|].
      cbn [rev wrap]. destruct (rev t ++ [c]) eqn:E2; [destruct (rev t); discriminate|reflexivity].
Qed.

Inductive Groups : list V -> list (list V) -> Prop :=
| G_end ms : Forall (fun x => mem x = true) ms -> Groups ms (wrap ms)
| G_step ms z l' R : Forall (fun x => mem x = true) ms -> mem z = false -> Groups l' R -> Groups (ms ++ z :: l') (wrap ms ++ R).

Lemma runs_groups : forall n l, List.length l <= n -> Groups l (runs V mem l []).
Proof.
  induction n as [|n IH]; intros l L.
  - destruct l; [|cbn in L; lia]. cbn. apply (G_end []). constructor.
  - rewrite runs_eq. cbn [rev app]. destruct (dw l) as [|z l'] eqn:D.
    + pose proof (tw_dw l) as E. rewrite D, app_nil_r in E. rewrite <- E. apply G_end. rewrite E. apply tw_all.
    + pose proof (tw_dw l) as E. rewrite D in E. rewrite E at 1. apply G_step; [apply tw_all|apply (dw_head l z l' D)|].
      apply IH. apply (f_equal (@List.length V)) in E. rewrite app_length in E. cbn in E. lia.
Qed.

(* ---- sorting the known versions ---------------------------------------------------------------------------- *)
Lemma insert_v_in x s y : In y (insert_v V cmp x s) <-> y = x \/ In y s.
Proof. induction s as [|w s' IH]; cbn; [intuition|]. destruct (Model.ltb V cmp w x); cbn; rewrite ?IH; intuition. Qed.
Lemma insert_sorted x : forall s, StronglySorted le s -> StronglySorted le (insert_v V cmp x s).
Proof.
  induction s as [|y r IH]; intros S; cbn [insert_v]; [repeat constructor|].
  inversion S as [|? ? Sr Fy]; subst. destruct (Model.ltb V cmp y x) eqn:L.
  - constructor; [apply IH; exact Sr|]. apply Forall_forall. intros w Hw. apply insert_v_in in Hw. destruct Hw as [->|Hw].
    + unfold Model.ltb in L. destruct (cmp y x); congruence.
    + rewrite Forall_forall in Fy. apply Fy. exact Hw.
  - assert (Lxy : cmp x y <> Gt).
    { unfold Model.ltb in L. intro G. apply (tpo_gt_lt _ T) in G. rewrite G in L. discriminate. }
    constructor; [exact S|]. constructor; [exact Lxy|]. apply Forall_forall. intros w Hw. rewrite Forall_forall in Fy.
    apply (tpo_le_trans _ T x y w Lxy (Fy w Hw)).
Qed.
Lemma sort_v_sorted l : StronglySorted le (sort_v V cmp l).
Proof. unfold Model.sort_v. induction l as [|x r IH]; cbn; [constructor|apply insert_sorted; exact IH]. Qed.


(* ---- what the groups of a sorted list look like ------------------------------------------------------------- *)
Lemma sorted_app_inv (l1 l2 : list V) : StronglySorted le (l1 ++ l2) ->
  StronglySorted le l1 /\ StronglySorted le l2 /\ (forall x y, In x l1 -> In y l2 -> cmp x y <> Gt).
Proof.
  induction l1 as [|a r IH]; cbn [app]; intros S.
  - split; [constructor|]. split; [exact S|]. intros x y [].
  - inversion S as [|? ? Sr Fa]; subst. destruct (IH Sr) as [S1 [S2 B]]. rewrite Forall_forall in Fa.
    split; [constructor; [exact S1|apply Forall_forall; intros w Hw; apply Fa, in_or_app; left; exact Hw]|].
    split; [exact S2|]. intros x y [->|Hx] Hy; [apply Fa, in_or_app; right; exact Hy|apply B; assumption].
Qed.

Lemma wrap_in ms seg : In seg (wrap ms) -> seg = ms /\ ms <> [].
Proof. destruct ms; cbn; [tauto|]. intros [<-|[]]. split; [reflexivity|discriminate]. Qed.

Lemma groups_members l R : Groups l R -> forall seg x, In seg R -> In x seg -> In x l /\ mem x = true.
Proof.
  induction 1 as [ms M|ms z l' R M Z G IH]; intros seg x Hs Hx.
  - apply wrap_in in Hs. destruct Hs as [-> _]. split; [exact Hx|]. rewrite Forall_forall in M. apply M. exact Hx.
  - apply in_app_or in Hs. destruct Hs as [Hs|Hs].
    + apply wrap_in in Hs. destruct Hs as [-> _]. split; [apply in_or_app; left; exact Hx|]. rewrite Forall_forall in M. apply M. exact Hx.
    + destruct (IH seg x Hs Hx) as [I Mx]. split; [apply in_or_app; right; right; exact I|exact Mx].
Qed.
Lemma groups_nonempty l R : Groups l R -> Forall (fun seg => seg <> []) R.
Proof.
  induction 1 as [ms M|ms z l' R M Z G IH].
  - destruct ms; cbn; repeat constructor. discriminate.
  - apply Forall_app. split; [destruct ms; cbn; repeat constructor; discriminate|exact IH].
Qed.
Lemma groups_sorted l R : Groups l R -> StronglySorted le l -> Forall (StronglySorted le) R.
Proof.
  induction 1 as [ms M|ms z l' R M Z G IH]; intros S.
  - destruct ms; cbn; [constructor|constructor; [exact S|constructor]].
  - destruct (sorted_app_inv ms (z :: l') S) as [S1 [S2 _]]. inversion S2; subst.
    apply Forall_app. split; [destruct ms; cbn; [constructor|constructor; [exact S1|constructor]]|apply IH; assumption].
Qed.

(* a version strictly after every member of the block before the non-member z: equal would make z a member *)
Lemma strictly_after x z y : mem x = true -> mem z = false -> cmp x z <> Gt -> cmp z y <> Gt -> cmp x y = Lt.
Proof.
  intros Mx Mz Lxz Lzy. pose proof (tpo_le_trans _ T x z y Lxz Lzy) as Lxy.
  destruct (cmp x y) eqn:E; [|reflexivity|congruence]. exfalso.
  (* x = y in the order: then z <= y = x and x <= z, so z = x, and z would be a member *)
  assert (Lzx : cmp z x <> Gt).
  { intro G. apply Lzy. rewrite <- (tpo_eq_r _ T z x y E). exact G. }
  assert (Ezx : cmp x z = Eq).
  { destruct (cmp x z) eqn:C; [reflexivity| |congruence]. exfalso. apply Lzx. apply (tpo_gt_lt _ T). exact C. }
  rewrite (mem_eq x z Ezx) in Mx. congruence.
Qed.

(* every version of a group is strictly before every version of the later groups *)
Fixpoint Sep (R : list (list V)) : Prop :=
  match R with
  | [] => True
  | A :: rest => (forall x y, In x A -> In y (concat rest) -> cmp x y = Lt) /\ Sep rest
  end.
Lemma concat_in (R : list (list V)) y : In y (concat R) <-> exists seg, In seg R /\ In y seg.
Proof.
  induction R as [|A r IH]; cbn; [split; [tauto|intros [s [[] _]]]|]. rewrite in_app_iff, IH. split.
  - intros [H|[s [Hs Hy]]]; [exists A; auto|exists s; auto].
  - intros [s [[<-|Hs] Hy]]; [left; exact Hy|right; exists s; auto].
Qed.
Lemma groups_sep l R : Groups l R -> StronglySorted le l -> Sep R.
Proof.
  induction 1 as [ms M|ms z l' R M Z G IH]; intros S.
  - destruct ms; cbn; [exact I|]. split; [intros x y _ []|exact I].
  - destruct (sorted_app_inv ms (z :: l') S) as [S1 [S2 B]]. inversion S2 as [|? ? S3 Fz]; subst.
    specialize (IH S3). destruct ms as [|m ms']; [exact IH|]. cbn [wrap app Sep]. split; [|exact IH].
    intros x y Hx Hy. apply concat_in in Hy. destruct Hy as [seg [Hs Hy]].
    destruct (groups_members l' R G seg y Hs Hy) as [Iy _].
    rewrite Forall_forall in M, Fz.
    apply (strictly_after x z y (M x Hx) Z); [apply B; [exact Hx|left; reflexivity]|apply Fz; exact Iy].
Qed.

(* a known member lies in a group; a known non-member lies in the span of no group *)
Lemma groups_cover l R : Groups l R -> forall v, In v l -> mem v = true -> exists seg, In seg R /\ In v seg.
Proof.
  induction 1 as [ms M|ms z l' R M Z G IH]; intros v Hv Mv.
  - exists ms. split; [destruct ms; [destruct Hv|left; reflexivity]|exact Hv].
  - apply in_app_or in Hv. destruct Hv as [Hv|[<-|Hv]].
    + exists ms. split; [apply in_or_app; left; destruct ms; [destruct Hv|left; reflexivity]|exact Hv].
    + congruence.
    + destruct (IH v Hv Mv) as [seg [Hs Hx]]. exists seg. split; [apply in_or_app; right; exact Hs|exact Hx].
Qed.

Lemma le_antisym_mem x y : cmp x y <> Gt -> cmp y x <> Gt -> mem x = mem y.
Proof.
  intros L1 L2. apply mem_eq. destruct (cmp x y) eqn:E; [reflexivity| |congruence].
  exfalso. apply L2. apply (tpo_gt_lt _ T). exact E.
Qed.

Lemma groups_outside l R : Groups l R -> StronglySorted le l ->
  forall v, In v l -> mem v = false -> forall seg a b, In seg R -> In a seg -> In b seg -> ~ (cmp a v <> Gt /\ cmp v b <> Gt).
Proof.
  induction 1 as [ms M|ms z l' R M Z G IH]; intros S v Hv Mv seg a b Hs Ha Hb [L1 L2].
  - apply wrap_in in Hs. destruct Hs as [-> _]. rewrite Forall_forall in M. rewrite (M v Hv) in Mv. discriminate.
  - destruct (sorted_app_inv ms (z :: l') S) as [S1 [S2 B]]. inversion S2 as [|? ? S3 Fz]; subst.
    rewrite Forall_forall in M, Fz.
    apply in_app_or in Hs. destruct Hs as [Hs|Hs].
    + (* the first block: v is the non-member or after it, so v >= z >= b; with v <= b, v = b is a member *)
      apply wrap_in in Hs. destruct Hs as [-> _].
      apply in_app_or in Hv. destruct Hv as [Hv|Hv]; [rewrite (M v Hv) in Mv; discriminate|].
      assert (Lbv : cmp b v <> Gt) by (apply B; assumption).
      rewrite (le_antisym_mem v b L2 Lbv), (M b Hb) in Mv. discriminate.
    + destruct (groups_members l' R G seg a Hs Ha) as [Ia Ma].
      apply in_app_or in Hv. destruct Hv as [Hv|[<-|Hv]].
      * rewrite (M v Hv) in Mv. discriminate.
      * (* v is the non-member z itself: z <= a, and a <= z *)
        assert (Lza : cmp z a <> Gt) by (apply Fz; exact Ia).
        rewrite (le_antisym_mem z a Lza L1), Ma in Mv. discriminate.
      * apply (IH S3 v Hv Mv seg a b Hs Ha Hb). split; assumption.
Qed.


(* ---- the groups as alternatives of a native expression ------------------------------------------------------ *)
Notation eqb := (Model.eqb V cmp).
Definition alt_of (seg : list V) : alt V :=
  match seg with
  | [] => AIval V {| lo := None; hi := None; excl := [] |}
  | l0 :: _ => let h := last seg l0 in
               if eqb l0 h then AExact V l0 else AIval V {| lo := Some (l0, true); hi := Some (h, true); excl := [] |}
  end.
Lemma seg_constraints_acs seg : seg_constraints V cmp seg = acs V (alt_of seg).
Proof. destruct seg as [|l0 r]; [reflexivity|]. cbn [seg_constraints alt_of]. destruct (eqb l0 (last (l0 :: r) l0)); reflexivity. Qed.
Lemma flat_map_tc R : flat_map (seg_constraints V cmp) R = to_constraints V (map alt_of R).
Proof. induction R as [|A r IH]; [reflexivity|]. cbn [flat_map map]. rewrite seg_constraints_acs, IH. reflexivity. Qed.

Lemma last_in (l : list V) d : l <> [] -> In (last l d) l.
Proof.
  induction l as [|x l' IH]; [congruence|]. intros _. destruct l' as [|y l'']; [left; reflexivity|]. right. apply IH. discriminate.
Qed.
Lemma last_default (l : list V) d d' : l <> [] -> last l d = last l d'.
Proof.
  induction l as [|x l' IH]; [congruence|]. intros _. destruct l' as [|y l'']; [reflexivity|]. apply IH. discriminate.
Qed.
Lemma acs_versions seg c : In c (acs V (alt_of seg)) -> exists o x, c = C o x /\ In x seg.
Proof.
  destruct seg as [|l0 r]; [cbn; tauto|]. cbn [alt_of].
  assert (Hl : In (last (l0 :: r) l0) (l0 :: r)) by (apply last_in; discriminate).
  destruct (eqb l0 (last (l0 :: r) l0)); cbn.
  - intros [<-|[]]. exists EQ, l0. split; [reflexivity|left; reflexivity].
  - intros [<-|[<-|[]]]; [exists GE, l0; split; [reflexivity|left; reflexivity]|exists LE, (last (l0 :: r) l0); split; [reflexivity|exact Hl]].
Qed.
Lemma tc_versions R c : In c (to_constraints V (map alt_of R)) -> exists o x, c = C o x /\ In x (concat R).
Proof.
  induction R as [|A r IH]; [cbn; tauto|]. cbn [map to_constraints concat]. intros H. apply in_app_or in H. destruct H as [H|H].
  - destruct (acs_versions A c H) as [o [x [E I]]]. exists o, x. split; [exact E|apply in_or_app; left; exact I].
  - destruct (IH H) as [o [x [E I]]]. exists o, x. split; [exact E|apply in_or_app; right; exact I].
Qed.

(* in a sorted group every element lies between the first and the last *)
Lemma sorted_first (l0 : V) r v : StronglySorted le (l0 :: r) -> In v (l0 :: r) -> cmp l0 v <> Gt.
Proof.
  intros S Hv. inversion S as [|? ? _ F]; subst. destruct Hv as [<-|Hv]; [rewrite (tpo_refl _ T); discriminate|].
  rewrite Forall_forall in F. apply F. exact Hv.
Qed.
Lemma sorted_last : forall (l : list V) d v, StronglySorted le l -> In v l -> cmp v (last l d) <> Gt.
Proof.
  induction l as [|x r IH]; intros d v S Hv; [destruct Hv|].
  inversion S as [|? ? Sr F]; subst. destruct r as [|y r'].
  - destruct Hv as [<-|[]]. cbn. rewrite (tpo_refl _ T). discriminate.
  - change (last (x :: y :: r') d) with (last (y :: r') d). destruct Hv as [<-|Hv].
    + rewrite Forall_forall in F. apply F. apply last_in. discriminate.
    + apply IH; assumption.
Qed.


(* ---- the side conditions of the conversion theorems hold for the groups ---------------------------------- *)
Lemma alt_of_proper seg : seg <> [] -> proper V (alt_of seg) = true /\ has_lo V (alt_of seg) = true /\ has_hi V (alt_of seg) = true.
Proof. destruct seg as [|l0 r]; [congruence|]. intros _. cbn [alt_of]. destruct (eqb l0 (last (l0 :: r) l0)); repeat split; reflexivity. Qed.

Lemma groups_separated : forall R,
  Forall (fun seg => seg <> []) R -> Sep R -> separated V cmp (map alt_of R).
Proof.
  induction R as [|A rest IH]; intros N S; [exact I|].
  inversion N as [|? ? NA Nr]; subst. cbn [Sep] in S. destruct S as [SA Sr].
  destruct (alt_of_proper A NA) as [P [_ Hh]]. cbn [map separated]. split; [exact P|]. split; [|split; [intros _; exact Hh|split; [|apply IH; assumption]]].
  - intros a b Ha Hb. destruct (acs_versions A a Ha) as [o1 [x [-> Ix]]]. destruct (tc_versions rest b Hb) as [o2 [y [-> Iy]]].
    cbn. apply SA; assumption.
  - apply Forall_forall. intros b Hb. apply in_map_iff in Hb. destruct Hb as [seg [<- Hs]].
    rewrite Forall_forall in Nr. destruct (alt_of_proper seg (Nr seg Hs)) as [_ [Hl _]]. exact Hl.
Qed.

Lemma groups_alt_inc R : Forall (fun seg => seg <> []) R -> Forall (StronglySorted le) R ->
  Forall (fun a => alt_inc V cmp a = true) (map alt_of R).
Proof.
  intros N S. apply Forall_forall. intros a Ha. apply in_map_iff in Ha. destruct Ha as [seg [<- Hs]].
  rewrite Forall_forall in N, S. specialize (N seg Hs). specialize (S seg Hs).
  destruct seg as [|l0 r]; [congruence|]. unfold alt_inc. cbn [alt_of].
  pose proof (sorted_last (l0 :: r) l0 l0 S (or_introl eq_refl)) as L.
  remember (last (l0 :: r) l0) as h eqn:Eh. clear Eh.
  destruct (eqb l0 h) eqn:E; [reflexivity|].
  cbn. unfold Model.ltb. rewrite andb_true_r. unfold Model.eqb in E.
  destruct (cmp l0 h); [discriminate|reflexivity|congruence].
Qed.

(* what the expression of the groups matches *)
Lemma amatch_alt_of seg v : seg <> [] -> StronglySorted le seg ->
  amatch V cmp v (alt_of seg) = true <-> (exists a b, In a seg /\ In b seg /\ cmp a v <> Gt /\ cmp v b <> Gt).
Proof.
  intros N S. destruct seg as [|l0 r]; [congruence|]. cbn [alt_of].
  set (h := last (l0 :: r) l0).
  assert (Ih : In h (l0 :: r)) by (apply last_in; discriminate).
  assert (Lh : cmp l0 h <> Gt) by (apply (sorted_last (l0 :: r) l0 l0 S); left; reflexivity).
  assert (Span : forall a b, In a (l0 :: r) -> In b (l0 :: r) -> cmp a v <> Gt -> cmp v b <> Gt -> cmp l0 v <> Gt /\ cmp v h <> Gt).
  { intros a b Ia Ib La Lb. split.
    - apply (tpo_le_trans _ T l0 a v); [apply (sorted_first l0 r a S Ia)|exact La].
    - apply (tpo_le_trans _ T v b h); [exact Lb|apply (sorted_last (l0 :: r) l0 b S Ib)]. }
  destruct (eqb l0 h) eqn:E.
  - (* one exact version: the group spans a single equivalence class *)
    cbn [amatch]. unfold Model.eqb in *. split.
    + intros H. exists l0, l0. repeat split; try (left; reflexivity).
      * destruct (cmp v l0) eqn:C; try discriminate. rewrite (tpo_sym _ T), C. discriminate.
      * destruct (cmp v l0); discriminate.
    + intros [a [b [Ia [Ib [La Lb]]]]]. destruct (Span a b Ia Ib La Lb) as [L1 L2].
      destruct (cmp l0 h) eqn:C; try discriminate.
      (* v <= h = l0 and l0 <= v *)
      assert (L3 : cmp v l0 <> Gt) by (rewrite (tpo_eq_r _ T v l0 h C); exact L2).
      destruct (cmp v l0) eqn:D; [reflexivity| |congruence]. exfalso. apply L1. apply (tpo_gt_lt _ T). exact D.
  - cbn [amatch lo hi excl opt_all existsb negb]. unfold above, below. cbn [fst snd]. rewrite andb_true_r. split.
    + intros H. apply andb_true_iff in H. destruct H as [H1 H2]. exists l0, h. repeat split; [left; reflexivity|exact Ih| |].
      * rewrite (tpo_sym _ T). destruct (cmp v l0); cbn; congruence.
      * destruct (cmp v h); congruence.
    + intros [a [b [Ia [Ib [La Lb]]]]]. destruct (Span a b Ia Ib La Lb) as [L1 L2].
      apply andb_true_iff. split.
      * rewrite (tpo_sym _ T) in L1. destruct (cmp v l0); cbn in *; congruence.
      * destruct (cmp v h); congruence.
Qed.

Theorem groups_match l R : Groups l R -> StronglySorted le l -> forall v, In v l -> nmatch V cmp (map alt_of R) v = mem v.
Proof.
  intros G S v Hv. pose proof (groups_nonempty l R G) as N. pose proof (groups_sorted l R G S) as SS.
  rewrite Forall_forall in N, SS. unfold nmatch. destruct (mem v) eqn:M.
  - destruct (groups_cover l R G v Hv M) as [seg [Hs Hx]]. apply existsb_exists. exists (alt_of seg). split; [apply in_map; exact Hs|].
    apply (amatch_alt_of seg v (N seg Hs) (SS seg Hs)). exists v, v. repeat split; try assumption; rewrite (tpo_refl _ T); discriminate.
  - destruct (existsb (amatch V cmp v) (map alt_of R)) eqn:E; [|reflexivity]. exfalso.
    apply existsb_exists in E. destruct E as [a [Ha Hm]]. apply in_map_iff in Ha. destruct Ha as [seg [<- Hs]].
    apply (amatch_alt_of seg v (N seg Hs) (SS seg Hs)) in Hm. destruct Hm as [a [b [Ia [Ib [La Lb]]]]].
    apply (groups_outside l R G S v Hv M seg a b Hs Ia Ib). split; assumption.
Qed.

End NormalizeFull.

(* ---- the groups in terms of the SET of known versions (no order, no multiplicity) ---------------------------- *)
Section SetLevel.
Variable V : Type.
Variable cmp : V -> V -> comparison.
Hypothesis T : TPO cmp.
Variable mem : V -> bool.
Hypothesis mem_eq : forall x y, cmp x y = Eq -> mem x = mem y.
Notation le := (fun x y : V => cmp x y <> Gt).

Lemma groups_between l R : Groups V mem l R -> StronglySorted le l ->
  forall sa sb a b, In sa R -> In sb R -> In a sa -> In b sb -> cmp a b <> Gt ->
  sa = sb \/ exists z, In z l /\ mem z = false /\ cmp a z <> Gt /\ cmp z b <> Gt.
Proof.
  induction 1 as [ms M|ms z l' R M Z G IH]; intros S sa sb a b Ha Hb Ia Ib L.
  - apply wrap_in in Ha, Hb. destruct Ha as [-> _], Hb as [-> _]. left. reflexivity.
  - destruct (sorted_app_inv V cmp ms (z :: l') S) as [S1 [S2 B]]. inversion S2 as [|? ? S3 Fz]; subst.
    rewrite Forall_forall in M, Fz.
    apply in_app_or in Ha. apply in_app_or in Hb. destruct Ha as [Ha|Ha], Hb as [Hb|Hb].
    + apply wrap_in in Ha, Hb. destruct Ha as [-> _], Hb as [-> _]. left. reflexivity.
    + apply wrap_in in Ha. destruct Ha as [-> _]. destruct (groups_members V mem l' R G sb b Hb Ib) as [Ib' _].
      right. exists z. split; [apply in_or_app; right; left; reflexivity|]. split; [exact Z|].
      split; [apply B; [exact Ia|left; reflexivity]|apply Fz; exact Ib'].
    + (* a after the non-member, b before it, and a <= b: then z would be a member *)
      apply wrap_in in Hb. destruct Hb as [-> _]. destruct (groups_members V mem l' R G sa a Ha Ia) as [Ia' Ma]. exfalso.
      assert (Lbz : cmp b z <> Gt) by (apply B; [exact Ib|left; reflexivity]).
      assert (Lza : cmp z a <> Gt) by (apply Fz; exact Ia').
      assert (Laz : cmp a z <> Gt) by (apply (tpo_le_trans _ T a b z L Lbz)).
      rewrite (le_antisym_mem V cmp T mem mem_eq z a Lza Laz), Ma in Z. discriminate.
    + destruct (IH S3 sa sb a b Ha Hb Ia Ib L) as [E|[w [Iw [Mw [L1 L2]]]]]; [left; exact E|].
      right. exists w. split; [apply in_or_app; right; right; exact Iw|]. auto.
Qed.

(* what the expression of the groups matches, said with the set of known versions only *)
Definition set_match (known : list V) (v : V) : Prop :=
  exists a b, In a known /\ In b known /\ mem a = true /\ mem b = true /\ cmp a v <> Gt /\ cmp v b <> Gt /\
              (forall z, In z known -> mem z = false -> ~ (cmp a z <> Gt /\ cmp z b <> Gt)).

Theorem groups_match_set l R : Groups V mem l R -> StronglySorted le l ->
  forall v, nmatch V cmp (map (alt_of V cmp) R) v = true <-> set_match l v.
Proof.
  intros G S v. pose proof (groups_nonempty V mem l R G) as N. pose proof (groups_sorted V cmp mem l R G S) as SS.
  rewrite Forall_forall in N, SS. unfold nmatch. split.
  - intros E. apply existsb_exists in E. destruct E as [alt [Ha Hm]]. apply in_map_iff in Ha. destruct Ha as [seg [<- Hs]].
    apply (amatch_alt_of V cmp T seg v (N seg Hs) (SS seg Hs)) in Hm. destruct Hm as [a [b [Ia [Ib [La Lb]]]]].
    destruct (groups_members V mem l R G seg a Hs Ia) as [Ka Ma]. destruct (groups_members V mem l R G seg b Hs Ib) as [Kb Mb].
    exists a, b. repeat split; try assumption.
    intros z Kz Mz. apply (groups_outside V cmp T mem mem_eq l R G S z Kz Mz seg a b Hs Ia Ib).
  - intros [a [b [Ka [Kb [Ma [Mb [La [Lb O]]]]]]]].
    destruct (groups_cover V mem l R G a Ka Ma) as [sa [Hsa Ia]]. destruct (groups_cover V mem l R G b Kb Mb) as [sb [Hsb Ib]].
    assert (Lab : cmp a b <> Gt) by (apply (tpo_le_trans _ T a v b La Lb)).
    destruct (groups_between l R G S sa sb a b Hsa Hsb Ia Ib Lab) as [E|[z [Kz [Mz LL]]]]; [|exfalso; apply (O z Kz Mz LL)].
    subst sb. apply existsb_exists. exists (alt_of V cmp sa). split; [apply in_map; exact Hsa|].
    apply (amatch_alt_of V cmp T sa v (N sa Hsa) (SS sa Hsa)). exists a, b. repeat split; assumption.
Qed.

Lemma set_match_ext known known' v : (forall x, In x known <-> In x known') -> set_match known v -> set_match known' v.
Proof.
  intros E [a [b [Ka [Kb [Ma [Mb [La [Lb O]]]]]]]]. exists a, b. repeat split; try assumption; try (apply E; assumption).
  intros z Kz. apply O. apply E. exact Kz.
Qed.
End SetLevel.

(* ---- normalize() ---------------------------------------------------------------------------------------------- *)
Section Final.
Variable V : Type.
Variable cmp : V -> V -> comparison.
Hypothesis T : TPO cmp.
Variable cs : list (constr V).
Hypothesis W : wf_sorted V cmp cs = true.
Notation le := (fun x y : V => cmp x y <> Gt).

Definition memc (v : V) : bool := match contains V cmp cs v with Ok b => b | Err _ => false end.
Lemma contains_memc v : contains V cmp cs v = Ok (memc v).
Proof. unfold memc. rewrite (contains_sound V cmp T cs v W). reflexivity. Qed.
Lemma memc_eq x y : cmp x y = Eq -> memc x = memc y.
Proof.
  intros E. unfold memc. rewrite (contains_ext V cmp cs x y); [reflexivity|].
  intros o z _. apply (tpo_eq_l _ T). exact E.
Qed.

Definition runs_of (known : list V) : list (list V) := runs V memc (sort_v V cmp known) [].
Definition expr_of (known : list V) : list (alt V) := map (alt_of V cmp) (runs_of known).

Lemma groups_of known : Groups V memc (sort_v V cmp known) (runs_of known).
Proof. apply (runs_groups V memc (List.length (sort_v V cmp known))). lia. Qed.
Lemma sorted_known known : StronglySorted le (sort_v V cmp known).
Proof. apply (sort_v_sorted V cmp T). Qed.

Lemma expr_separated known : separated V cmp (expr_of known).
Proof.
  apply (groups_separated V cmp).
  - apply (groups_nonempty V memc _ _ (groups_of known)).
  - apply (groups_sep V cmp T memc memc_eq _ _ (groups_of known) (sorted_known known)).
Qed.
Lemma expr_alt_inc known : Forall (fun a => alt_inc V cmp a = true) (expr_of known).
Proof.
  apply (groups_alt_inc V cmp T).
  - apply (groups_nonempty V memc _ _ (groups_of known)).
  - apply (groups_sorted V cmp memc _ _ (groups_of known) (sorted_known known)).
Qed.

Lemma wf_sorted_parts (l : list (constr V)) : existsb (is_star V) l = false -> wf_sorted V cmp l = true ->
  no_star V l = true /\ increasing V cmp l = true.
Proof.
  intros NS H. assert (N : no_star V l = true) by (unfold no_star; rewrite NS; reflexivity). split; [exact N|].
  unfold wf_sorted in H. destruct l as [|c t]; [reflexivity|]. destruct c as [|o x]; [cbn in NS; discriminate|].
  destruct t; apply andb_true_iff in H; destruct H as [H _]; apply andb_true_iff in H; destruct H as [H _];
    apply andb_true_iff in H; destruct H as [_ H]; exact H.
Qed.

Lemma result_wf known : wf_sorted V cmp (to_constraints V (expr_of known)) = true.
Proof.
  destruct (expr_of known) as [|a r] eqn:E; [reflexivity|]. rewrite <- E.
  apply (native_conversion_wf V cmp); [apply expr_separated|apply expr_alt_inc|rewrite E; discriminate].
Qed.

(* normalize() returns the constraints of the expression made of the runs of contiguous members *)
Theorem normalize_is_conversion known : normalize V cmp cs known = Ok (to_constraints V (expr_of known)).
Proof.
  unfold Model.normalize.
  assert (A : forallb (fun v => is_ok (contains V cmp cs v)) (sort_v V cmp known) = true).
  { apply forallb_forall. intros v _. rewrite contains_memc. reflexivity. }
  rewrite A. fold memc. change (runs V memc (sort_v V cmp known) []) with (runs_of known).
  rewrite (flat_map_tc V cmp). fold (expr_of known).
  destruct (wf_sorted_parts _ (no_star_tc V (expr_of known)) (result_wf known)) as [N I].
  apply (sort_sorted V cmp T); [exact N|apply (incr_strong V cmp T); exact I].
Qed.

(* C10: the normalised range validates *)
Theorem normalize_validates known : exists ns, normalize V cmp cs known = Ok ns /\ validate V cmp ns = Ok true.
Proof.
  exists (to_constraints V (expr_of known)). split; [apply normalize_is_conversion|].
  apply (validate_exact V cmp T). right.
  destruct (wf_sorted_parts _ (no_star_tc V (expr_of known)) (result_wf known)) as [N _].
  split; [exact N|]. exists (to_constraints V (expr_of known)). split; [apply Permutation_refl|apply result_wf].
Qed.

(* C10: it contains a known version exactly when the original range did (and never raises) *)
Theorem normalize_membership known v : In v known ->
  exists ns, normalize V cmp cs known = Ok ns /\ contains V cmp ns v = contains V cmp cs v.
Proof.
  intros Hv. exists (to_constraints V (expr_of known)). split; [apply normalize_is_conversion|].
  rewrite contains_memc.
  assert (Hs : In v (sort_v V cmp known)) by (apply (sort_v_in V cmp); exact Hv).
  pose proof (groups_match V cmp T memc memc_eq _ _ (groups_of known) (sorted_known known) v Hs) as M.
  rewrite (contains_sound V cmp T _ v (result_wf known)).
  rewrite (native_conversion_exact V cmp T _ v (expr_separated known)). fold (expr_of known) in M. rewrite M. reflexivity.
Qed.

(* C10: the result does not depend on the order or on the duplication of the known list: two lists with the same
   elements give ranges that contain the same versions (all versions, not only the known ones) *)
Theorem normalize_order_independent known known' :
  (forall x, In x known <-> In x known') ->
  exists ns ns', normalize V cmp cs known = Ok ns /\ normalize V cmp cs known' = Ok ns' /\
                 forall v, contains V cmp ns v = contains V cmp ns' v.
Proof.
  intros E. exists (to_constraints V (expr_of known)), (to_constraints V (expr_of known')).
  split; [apply normalize_is_conversion|]. split; [apply normalize_is_conversion|]. intros v.
  rewrite (contains_sound V cmp T _ v (result_wf known)), (contains_sound V cmp T _ v (result_wf known')).
  rewrite (native_conversion_exact V cmp T _ v (expr_separated known)), (native_conversion_exact V cmp T _ v (expr_separated known')).
  f_equal.
  assert (E' : forall x, In x (sort_v V cmp known) <-> In x (sort_v V cmp known')).
  { intros x. rewrite !(sort_v_in V cmp). apply E. }
  pose proof (groups_match_set V cmp T memc memc_eq _ _ (groups_of known) (sorted_known known) v) as M1.
  pose proof (groups_match_set V cmp T memc memc_eq _ _ (groups_of known') (sorted_known known') v) as M2.
  destruct (nmatch V cmp (expr_of known) v) eqn:A, (nmatch V cmp (expr_of known') v) eqn:B; try reflexivity; exfalso; unfold expr_of in *.
  - assert (X : set_match V cmp memc (sort_v V cmp known') v) by (apply (set_match_ext V cmp memc _ _ v E'); apply M1; exact A).
    apply M2 in X. rewrite B in X. discriminate.
  - assert (X : set_match V cmp memc (sort_v V cmp known) v).
    { apply (set_match_ext V cmp memc (sort_v V cmp known') _ v); [intros x; symmetry; apply E'|apply M2; exact B]. }
    apply M1 in X. rewrite A in X. discriminate.
Qed.

End Final.
