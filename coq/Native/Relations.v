(* Code-shaped model of the relationship-string notations of version_range.py: DebianVersionRange and RpmVersionRange
   (build_constraint_from_string, from_native, from_natives): one comparator-and-version string per relation, read with
   split_req against the class's own comparator table (transcribed from /repo on every run), wrapped in characters that
   are stripped (parentheses for deb, a trailing comma for rpm). *)
From Coq Require Import List Bool Arith Ascii String NArith.
From UV.Base Require Import Cop Res.
From UV.Gen Require Import Tables.
From UV.Py Require Import PyStr.
From UV.Vers Require Import Model VersText.
From UV.Native Require Import Advisory.
Import ListNotations.
Local Open Scope list_scope.

Definition deb_strip : str := s2l ")(".
Definition rpm_strip : str := s2l ",".

Section Rel.
Variable V : Type.
Variable cmp : V -> V -> comparison.
Variable vctor : str -> res V.
Notation constr := (constr V).

(* cls.build_constraint_from_string(string) *)
Definition relation_constraint (T : ctable) (strip : str) (s : str) : res constr :=
  match split_req T None strip s with
  | Ok (c, v) => mk_constraint V vctor c v
  | Err e => Err e
  end.

(* cls.from_natives(list of strings): the constraints, then the sort of the range constructor *)
Definition relations_range (T : ctable) (strip : str) (items : list str) : res (list constr) :=
  match mapM (relation_constraint T strip) items with
  | Ok cs => sort_c V cmp cs
  | Err e => Err e
  end.
End Rel.

Definition table_named (n : string) : ctable :=
  match find (fun p => String.eqb (fst p) n) native_tables with Some p => snd p | None => [] end.
Definition deb_table : ctable := table_named "DebianVersionRange".
Definition rpm_table : ctable := table_named "RpmVersionRange".
