(* C06 / C15 for the relationship-string notations (deb, rpm), parser included: a list of relations, each written
   "<comparator><version>" with any inserted whitespace and wrapped in the characters the class strips, is read as
   exactly the stated constraints; a lower and an upper relation therefore denote exactly the interval they state. *)
From Coq Require Import List Bool Arith Ascii String NArith Lia.
From UV.Base Require Import Order Cop Res ListAux.
From UV.Gen Require Import Tables.
From UV.Py Require Import PyStr.
From UV.Vers Require Import Model Spec VersText ContainsProofs SortProofs TextProofs.
From UV.Native Require Import Advisory AdvisoryProofs Relations Intervals.
Import ListNotations.
Local Open Scope list_scope.

Lemma ws_variant_refl : forall s, ws_variant s s.
Proof. induction s; constructor; assumption. Qed.

Lemma rstrip_set_suffix cs s p : forallb (fun c => mem_c c cs) p = true ->
  match rev s with c :: _ => mem_c c cs = false | [] => True end -> rstrip_set cs (s ++ p) = s.
Proof.
  intros Hp Hs. unfold rstrip_set. rewrite rev_app_distr. rewrite lstrip_set_prefix; [apply rev_involutive| |exact Hs].
  rewrite forallb_forall in *. intros x Hx. apply Hp. apply in_rev. exact Hx.
Qed.

(* stripping a wrapped text whose own characters are not in the stripped set *)
Lemma strip_set_wrapped cs pre body post :
  forallb (fun c => mem_c c cs) pre = true -> forallb (fun c => mem_c c cs) post = true ->
  forallb (fun c => negb (mem_c c cs)) body = true ->
  strip_set cs (pre ++ body ++ post) = body.
Proof.
  intros Hpre Hpost Hb. unfold strip_set.
  assert (H1 : lstrip_set cs (pre ++ body ++ post) = body ++ post \/ body = []).
  { destruct body as [|x r]; [right; reflexivity|left]. apply lstrip_set_prefix; [exact Hpre|].
    cbn [app]. cbn [forallb] in Hb. apply andb_true_iff in Hb. destruct Hb as [Hx _]. apply negb_true_iff in Hx. exact Hx. }
  destruct H1 as [H1|H1].
  - rewrite H1. apply rstrip_set_suffix; [exact Hpost|].
    destruct (rev body) as [|x r] eqn:E; [exact I|]. rewrite forallb_forall in Hb. apply negb_true_iff. apply Hb. apply in_rev. rewrite E. left. reflexivity.
  - subst body. cbn [app].
    assert (L : lstrip_set cs (pre ++ post) = []).
    { replace (pre ++ post) with ((pre ++ post) ++ []) by apply app_nil_r. apply lstrip_set_prefix; [|exact I]. rewrite forallb_app, Hpre, Hpost. reflexivity. }
    rewrite L. reflexivity.
Qed.

Lemma split_req_core T d strip1 s1 strip2 s2 :
  strip_set strip1 (remove_spaces s1) = strip_set strip2 (remove_spaces s2) -> split_req T d strip1 s1 = split_req T d strip2 s2.
Proof. intros E. unfold split_req. rewrite E. reflexivity. Qed.

Definition nospace_set (cs : str) : bool := forallb (fun c => negb (is_space c)) cs.

(* the splitter on a wrapped "<spelling><version>" with whitespace anywhere *)
Theorem split_req_wrapped : forall (T : ctable) (d : option cop) (strip : str) (k : string) (want : option cop) (v pre post w : str),
  keys_ok T = true -> spelling_ok T k = true -> lookup_table T (s2l k) = Some want ->
  vplain v = true -> nospace_set strip = true ->
  forallb (fun c => mem_c c strip) pre = true -> forallb (fun c => mem_c c strip) post = true ->
  forallb (fun c => negb (mem_c c strip)) (s2l k ++ v) = true ->
  ws_variant (pre ++ (s2l k ++ v) ++ post) w ->
  split_req T d strip w = Ok (want, v).
Proof.
  intros T d strip k want v pre post w HT Hk Hl Hv Hs Hpre Hpost Hb Hw.
  rewrite <- (split_req_rendered T d k want v (s2l k ++ v) HT Hk Hl Hv (ws_variant_refl _)).
  apply split_req_core. rewrite (remove_spaces_ws _ _ Hw).
  assert (NS : forall t, forallb (fun c => mem_c c strip) t = true -> forallb (fun c => negb (is_space c)) t = true).
  { intros t Ht. rewrite forallb_forall in *. intros x Hx. specialize (Ht x Hx). unfold mem_c in Ht. apply existsb_exists in Ht.
    destruct Ht as [y [Hy E]]. apply eqc_eq in E. subst y. unfold nospace_set in Hs. rewrite forallb_forall in Hs. apply Hs. exact Hy. }
  assert (KV : remove_spaces (s2l k ++ v) = s2l k ++ v).
  { assert (R := split_req_rendered T d k want v (s2l k ++ v) HT Hk Hl Hv (ws_variant_refl _)).
    unfold vplain in Hv. apply andb_true_iff in Hv. destruct Hv as [_ Hv2].
    unfold spelling_ok in Hk. rewrite Hl in Hk. destruct (first_prefix T (s2l k)) as [[k' val]|]; [|discriminate].
    apply andb_true_iff in Hk. destruct Hk as [Hk _]. apply andb_true_iff in Hk. destruct Hk as [Hall Hk'].
    apply remove_spaces_key_value; [|exact Hv2].
    apply forallb_forall. intros c Hc. rewrite forallb_forall in Hall, Hk'. specialize (Hall c Hc).
    unfold mem_c in Hall. apply existsb_exists in Hall. destruct Hall as [y [Hy E]]. apply eqc_eq in E. subst y. apply Hk'. exact Hy. }
  rewrite (remove_spaces_app pre), (remove_spaces_app (s2l k ++ v) post), KV, (remove_spaces_none pre (NS pre Hpre)), (remove_spaces_none post (NS post Hpost)).
  rewrite (strip_set_wrapped strip pre (s2l k ++ v) post Hpre Hpost Hb).
  unfold strip_set, rstrip_set. assert (L : forall t, lstrip_set [] t = t) by (intros t; destruct t; reflexivity).
  rewrite !L. symmetry. apply rev_involutive.
Qed.

Theorem deb_rpm_tables_ok : table_ok deb_table = true /\ table_ok rpm_table = true.
Proof. split; vm_compute; reflexivity. Qed.

Section Rel.
Variable V : Type.
Variable cmp : V -> V -> comparison.
Hypothesis T : TPO cmp.
Variable vctor : str -> res V.
Notation constr := (constr V).

(* one relation *)
Theorem relation_rendered : forall (Tb : ctable) (strip : str) (k : string) (o : cop) (v pre post w : str) (x : V),
  table_ok Tb = true -> In k (map fst Tb) -> lookup_table Tb (s2l k) = Some (Some o) ->
  vplain v = true -> nospace_set strip = true ->
  forallb (fun c => mem_c c strip) pre = true -> forallb (fun c => mem_c c strip) post = true ->
  forallb (fun c => negb (mem_c c strip)) (s2l k ++ v) = true ->
  vctor v = Ok x -> ws_variant (pre ++ (s2l k ++ v) ++ post) w ->
  relation_constraint V vctor Tb strip w = Ok (C o x).
Proof.
  intros Tb strip k o v pre post w x HT Hin Hl Hv Hs Hpre Hpost Hb Hx Hw. unfold relation_constraint.
  unfold table_ok in HT. apply andb_true_iff in HT. destruct HT as [HK HS].
  assert (Hsp : spelling_ok Tb k = true).
  { rewrite forallb_forall in HS. apply in_map_iff in Hin. destruct Hin as [[k0 v0] [E Hin]]. cbn in E. subst k0. apply (HS _ Hin). }
  rewrite (split_req_wrapped Tb None strip k (Some o) v pre post w HK Hsp Hl Hv Hs Hpre Hpost Hb Hw).
  unfold mk_constraint. rewrite Hx. reflexivity.
Qed.

(* a list of relations converts to exactly the constraints it states (then sorted by the range) *)
Theorem relations_rendered : forall (Tb : ctable) (strip : str) (items : list str) (cs : list constr),
  Forall2 (fun w c => relation_constraint V vctor Tb strip w = Ok c) items cs ->
  relations_range V cmp vctor Tb strip items = sort_c V cmp cs.
Proof.
  intros Tb strip items cs HF. unfold relations_range.
  assert (M : mapM (relation_constraint V vctor Tb strip) items = Ok cs).
  { induction HF as [|w c ws cs' H1 HF IH]; [reflexivity|]. cbn [mapM]. rewrite H1, IH. reflexivity. }
  rewrite M. reflexivity.
Qed.

(* a lower and an upper relation, in either order of writing: exactly the interval they state *)
Theorem relations_interval : forall (Tb : ctable) (strip : str) (w1 w2 : str) (lo hi : V * bool),
  relation_constraint V vctor Tb strip w1 = Ok (lo_c V lo) -> relation_constraint V vctor Tb strip w2 = Ok (hi_c V hi) ->
  cmp (fst lo) (fst hi) = Lt ->
  exists cs, relations_range V cmp vctor Tb strip [w1; w2] = Ok cs /\
             forall p, den V cmp cs p = above V cmp lo p && below V cmp hi p.
Proof.
  intros Tb strip w1 w2 lo hi H1 H2 L.
  rewrite (relations_rendered Tb strip [w1; w2] [lo_c V lo; hi_c V hi]) by (repeat constructor; assumption).
  set (a := AIval V {| lo := Some lo; hi := Some hi; excl := [] |}).
  assert (S : separated V cmp [a]). { cbn. repeat split; try (intros ? ? ? []); try constructor. }
  assert (E : to_constraints V [a] = [lo_c V lo; hi_c V hi]) by reflexivity.
  assert (NS : no_star V [lo_c V lo; hi_c V hi] = true) by (destruct lo as [? []], hi as [? []]; reflexivity).
  assert (SI : strong_incr V cmp [lo_c V lo; hi_c V hi] = true).
  { destruct lo as [x i], hi as [y j]. cbn in L. destruct i, j; cbn; unfold Model.ltb; rewrite L; reflexivity. }
  destruct (sort_incr V cmp T _ NS (strong_incr_nodup V cmp _ NS SI)) as [s [Es [Ss Ps]]].
  assert (s = [lo_c V lo; hi_c V hi]) by (symmetry; apply (strong_incr_unique V cmp T); assumption). subst s.
  exists [lo_c V lo; hi_c V hi]. split; [exact Es|]. intros p. rewrite <- E, (native_conversion_exact V cmp T [a] p S).
  cbn. rewrite orb_false_r, andb_true_r. reflexivity.
Qed.
End Rel.
