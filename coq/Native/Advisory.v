(* Code-shaped model of the advisory converters of version_range.py:
   split_req, the GitHub and Snyk converters (three notations), from_gitlab_native. *)
From Coq Require Import List Bool Arith Ascii String NArith.
From UV.Base Require Import Cop Res.
From UV.Gen Require Import Tables.
From UV.Py Require Import PyStr.
From UV.Vers Require Import Model VersText.
Import ListNotations.
Local Open Scope list_scope.

Definition ctable := list (string * option cop).

(* first entry, in dict order, whose key the text starts with *)
Fixpoint first_prefix (T : ctable) (s : str) : option (str * option cop) :=
  match T with
  | [] => None
  | (k, v) :: r => if startswith s (s2l k) then Some (s2l k, v) else first_prefix r s
  end.

(* split_req(string, comparators, default, strip): (vers comparator or None, version text) *)
Definition split_req (T : ctable) (default : option cop) (strip : str) (s0 : str) : res (option cop * str) :=
  let cs := strip_set strip (remove_spaces s0) in
  match first_prefix T cs with
  | Some (k, v) => Ok (v, lstrip_set k cs)
  | None => match default with Some d => Ok (Some d, cs) | None => Err EValue end
  end.

Definition c_comma : ascii := ","%char.
Definition c_space : ascii := " "%char.

Section Conv.
Variable V : Type.
Variable cmp : V -> V -> comparison.
Variable vctor : str -> res V.
Notation constr := (constr V).

(* VersionConstraint(comparator=c, version=version_class(text)); comparator None -> KeyError->ValueError in __attrs_post_init__ *)
Definition mk_constraint (c : option cop) (text : str) : res constr :=
  match vctor text with
  | Err e => Err e
  | Ok v => match c with Some o => Ok (C o v) | None => Err EValue end
  end.

(* build_constraint_from_github_advisory_string *)
Definition github_constraint (s : str) : res constr :=
  match split_req github_table None [] s with
  | Ok (c, v) => mk_constraint c v
  | Err e => Err e
  end.

(* build_range_from_github_advisory_constraint(scheme, string or list) -> constraints of the range *)
Definition github_range (items : list str) : res (list constr) :=
  match mapM github_constraint (flat_map (split_c c_comma) items) with
  | Ok cs => sort_c V cmp cs
  | Err e => Err e
  end.

(* split_req_bracket_notation *)
Definition strip_ws (s : str) : str := strip_set (map ch [9; 10; 11; 12; 13; 28; 29; 30; 31; 32]%N) s.
Definition endswith (s p : str) : bool := startswith (rev s) (rev p).
Definition bracket_split (s0 : str) : res (cop * str) :=
  let cs := strip_ws (remove_spaces s0) in
  let front := filter (fun p => eqs (s2l (fst p)) (s2l "(") || eqs (s2l (fst p)) (s2l "[")) bracket_table in
  let rear := filter (fun p => eqs (s2l (fst p)) (s2l ")") || eqs (s2l (fst p)) (s2l "]")) bracket_table in
  match find (fun p => startswith cs (s2l (fst p))) front with
  | Some (k, o) => Ok (o, lstrip_set (s2l k) cs)
  | None => match find (fun p => endswith cs (s2l (fst p))) rear with
            | Some (k, o) => Ok (o, rstrip_set (s2l k) cs)
            | None => Err EValue
            end
  end.

Definition has_bracket (s : str) : bool := existsb (fun c => mem_c c (s2l "[]()")) s.
Definition replace_space (s : str) : str := filter (fun c => negb (eqc c c_space)) s.

(* one item of build_range_from_snyk_advisory_string *)
Definition snyk_item (item : str) : res (list constr) :=
  let pieces := if mem_c c_comma item then split_c c_comma (replace_space (strip_ws item))
                else split_c c_space (strip_ws item) in
  (fix go (l : list str) : res (list constr) :=
     match l with
     | [] => Ok []
     | p :: r =>
         let cv := if has_bracket p
                   then match bracket_split p with Ok (o, v) => Ok (Some o, v) | Err e => Err e end
                   else split_req snyk_table None [] p in
         match cv with
         | Err e => Err e
         | Ok (c, v) =>
             (* if comparator and version: *)
             match c with
             | Some o =>
                 if is_empty v then go r
                 else match vctor v with
                      | Err e => Err e
                      | Ok x => match go r with Ok cs => Ok (C o x :: cs) | Err e => Err e end
                      end
             | None => go r
             end
         end
     end) pieces.

Definition snyk_range (items : list str) : res (list constr) :=
  match mapM snyk_item items with
  | Ok ls => sort_c V cmp (List.concat ls)
  | Err e => Err e
  end.

(* from_gitlab_native for the schemes without a native delegation: table = vrc.vers_by_native_comparators,
   sep = "," for pypi (and for composer when the text has a comma), " " otherwise *)
Definition split_on (sep : ascii) (parts : list str) : list str := flat_map (split_c sep) parts.
(* split("||") *)
Fixpoint split_pipes (s : str) (cur : str) : list str :=
  match s with
  | "|"%char :: "|"%char :: r => rev cur :: split_pipes r []
  | c :: r => split_pipes r (c :: cur)
  | [] => [rev cur]
  end.

Definition lookup_table (T : ctable) (k : str) : option (option cop) :=
  match find (fun p => eqs (s2l (fst p)) k) T with Some p => Some (snd p) | None => None end.

(* comparator accumulates text: "" or the *vers* comparator text of the previous comparator-only item *)
Fixpoint gitlab_items (T : ctable) (items : list str) (acc : option (option cop)) : res (list constr) :=
  match items with
  | [] => Ok []
  | it :: r =>
      if is_empty it then gitlab_items T r acc
      else
        let prefix := match acc with Some (Some o) => s2l (cop_text o) | _ => [] end in
        match lookup_table T (prefix ++ it) with
        | Some None => Err EValue                   (* an unsupported comparator of the table *)
        | Some v => gitlab_items T r (Some v)       (* "".join([comparator, item]) in the table: becomes the comparator *)
        | None =>
            match acc with
            | Some c =>
                (* a comparator was pending: the item is the version *)
                match c with
                | None => Err EType                 (* "".join([None, item]) raised earlier: comparator None *)
                | Some o => match vctor it with
                            | Err e => Err e
                            | Ok x => match gitlab_items T r None with Ok cs => Ok (C o x :: cs) | Err e => Err e end
                            end
                end
            | None =>
                match split_req T (Some EQ) [] it with
                | Err e => Err e
                | Ok (c, v) => match mk_constraint c v with
                               | Err e => Err e
                               | Ok x => match gitlab_items T r None with Ok cs => Ok (x :: cs) | Err e => Err e end
                               end
                end
            end
        end
  end.

Definition gitlab_range (T : ctable) (sep : ascii) (s : str) : res (list constr) :=
  match gitlab_items T (split_on sep (split_pipes s [])) None with
  | Ok cs => sort_c V cmp cs
  | Err e => Err e
  end.

End Conv.
