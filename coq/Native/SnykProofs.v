(* C15, Snyk notation: one item made of clauses "<spelling><version>" (no brackets) converts to exactly the constraints
   it states; an item written with commas has its blanks removed first, so the clauses may be spaced freely there. *)
From Coq Require Import List Bool Arith Ascii String NArith Lia.
From UV.Base Require Import Order Cop Res ListAux.
From UV.Gen Require Import Tables.
From UV.Py Require Import PyStr.
From UV.Vers Require Import Model VersText.
From UV.Native Require Import Advisory AdvisoryProofs.
Import ListNotations.
Local Open Scope list_scope.

Section Snyk.
Variable V : Type.
Variable cmp : V -> V -> comparison.
Variable vctor : str -> res V.

Lemma ws_refl' : forall s : str, ws_variant s s.
Proof. induction s as [|c r IH]; [constructor|apply wv_keep; exact IH]. Qed.

(* the loop over the pieces of one item, as in snyk_item *)
Fixpoint snyk_go (l : list str) : res (list (constr V)) :=
  match l with
  | [] => Ok []
  | p :: r =>
      let cv := if has_bracket p
                then match bracket_split p with Ok (o, v) => Ok (Some o, v) | Err e => Err e end
                else split_req snyk_table None [] p in
      match cv with
      | Err e => Err e
      | Ok (c, v) =>
          match c with
          | Some o =>
              if is_empty v then snyk_go r
              else match vctor v with
                   | Err e => Err e
                   | Ok x => match snyk_go r with Ok cs => Ok (C o x :: cs) | Err e => Err e end
                   end
          | None => snyk_go r
          end
      end
  end.
Lemma snyk_item_go item :
  snyk_item V vctor item =
    snyk_go (if mem_c c_comma item then split_c c_comma (replace_space (strip_ws item)) else split_c c_space (strip_ws item)).
Proof. reflexivity. Qed.

(* a clause the way an advisory writes it: a spelling of the Snyk table, then a version text *)
Definition clause_of (p : str) (c : constr V) : Prop :=
  exists (k : string) (o : cop) (v : str) (x : V),
    p = s2l k ++ v /\ In k (map fst snyk_table) /\ lookup_table snyk_table (s2l k) = Some (Some o) /\
    vplain v = true /\ v <> [] /\ has_bracket p = false /\ vctor v = Ok x /\ c = C o x.

Theorem snyk_go_rendered : forall pieces cs, Forall2 clause_of pieces cs -> snyk_go pieces = Ok cs.
Proof.
  induction 1 as [|p c ps cs' H HF IH]; [reflexivity|].
  destruct H as [k [o [v [x [-> [Hin [Hl [Hv [Hne [Hb [Hx ->]]]]]]]]]]].
  cbn [snyk_go]. rewrite Hb.
  assert (HT : keys_ok snyk_table = true) by (vm_compute; reflexivity).
  assert (Hs : spelling_ok snyk_table k = true).
  { pose proof snyk_table_ok as G. unfold table_ok in G. apply andb_true_iff in G. destruct G as [_ G].
    rewrite forallb_forall in G. apply in_map_iff in Hin. destruct Hin as [[k0 v0] [E Hin]]. cbn in E. subst k0. apply (G _ Hin). }
  rewrite (split_req_rendered snyk_table None k (Some o) v (s2l k ++ v) HT Hs Hl Hv (ws_refl' _)).
  destruct v as [|c0 r0]; [congruence|]. cbn [is_empty]. rewrite Hx, IH. reflexivity.
Qed.

(* an item given as the comma-separated list of its clauses, blanks allowed anywhere: the clauses are what is left
   once the blanks are removed *)
Theorem snyk_item_rendered : forall (item : str) (pieces : list str) (cs : list (constr V)),
  mem_c c_comma item = true ->
  split_c c_comma (replace_space (strip_ws item)) = pieces ->
  Forall2 clause_of pieces cs ->
  snyk_item V vctor item = Ok cs.
Proof. intros item pieces cs Hc Hp HF. rewrite snyk_item_go, Hc, Hp. apply snyk_go_rendered. exact HF. Qed.

End Snyk.
