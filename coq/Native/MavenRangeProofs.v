(* C06 for the Maven / NuGet bracket notation, parser included: the text of a well-formed bracket expression is read
   by the model of maven.VersionRange + MavenVersionRange.from_native as exactly the constraints of its alternatives,
   which (Native/Intervals.v) denote exactly what the expression matches. *)
From Coq Require Import List Bool Arith Ascii String NArith Lia Permutation.
From UV.Base Require Import Order Cop Res ListAux.
From UV.Gen Require Import Tables.
From UV.Py Require Import PyStr.
From UV.Vers Require Import Model Spec VersText ContainsProofs SortProofs.
From UV.Native Require Import Advisory Intervals IntervalsWf MavenRange.
From UV.Ref Require Deb.
Import ListNotations.
Local Open Scope list_scope.

(* ---- the syntax of well-formed expressions ---------------------------------------------------------------------- *)
Inductive ralt := RExact (v : str) | RIval (lo hi : option str) (loi hii : bool).
Definition otext (o : option str) : str := match o with Some t => t | None => [] end.
Definition render_alt (a : ralt) : str :=
  match a with
  | RExact v => c_lbr :: v ++ [c_rbr]
  | RIval lo hi loi hii => (if loi then c_lbr else c_lpar) :: (otext lo ++ c_comma :: otext hi) ++ [if hii then c_rbr else c_rpar]
  end.
Fixpoint render (e : list ralt) : str :=
  match e with
  | [] => []
  | [a] => render_alt a
  | a :: r => render_alt a ++ c_comma :: render r
  end.
Definition restr_of (a : ralt) : restr :=
  match a with
  | RExact v => {| r_lo := Some v; r_hi := Some v; r_loi := true; r_hii := true |}
  | RIval lo hi loi hii => {| r_lo := lo; r_hi := hi; r_loi := loi; r_hii := hii |}
  end.

(* a version text: not empty, no bracket, comma or whitespace *)
Definition wsset : str := map ch [9; 10; 11; 12; 13; 28; 29; 30; 31; 32]%N.
Definition plain_c (c : ascii) : bool :=
  negb (eqc c c_lpar || eqc c c_rpar || eqc c c_lbr || eqc c c_rbr || eqc c c_comma) && negb (mem_c c wsset).
Definition plain (t : str) : bool := negb (is_empty t) && forallb plain_c t.
Definition oplain (o : option str) : bool := match o with Some t => plain t | None => true end.
Definition clean_alt (a : ralt) : bool :=
  match a with RExact v => plain v | RIval lo hi _ _ => oplain lo && oplain hi end.

Lemma plain_c_facts c : plain_c c = true ->
  eqc c c_lpar = false /\ eqc c c_rpar = false /\ eqc c c_lbr = false /\ eqc c c_rbr = false /\ eqc c c_comma = false /\
  mem_c c wsset = false /\ eqc c c_space = false.
Proof.
  assert (T : forallb (fun c => negb (plain_c c) || (negb (eqc c c_lpar) && negb (eqc c c_rpar) && negb (eqc c c_lbr) && negb (eqc c c_rbr)
     && negb (eqc c c_comma) && negb (mem_c c wsset) && negb (eqc c c_space))) UV.Ref.Deb.all_chars = true) by (vm_compute; reflexivity).
  rewrite forallb_forall in T. specialize (T c (UV.Ref.Deb.all_chars_complete c)). intros H. rewrite H in T. cbn [negb orb] in T.
  repeat (apply andb_true_iff in T; destruct T as [T ?]). repeat split; apply negb_true_iff; assumption.
Qed.

(* ---- finding the closing bracket --------------------------------------------------------------------------------- *)
Lemma find_close_skip x s : eqc x c_rbr = false -> eqc x c_rpar = false ->
  find_close (x :: s) = match find_close s with Some n => Some (S n) | None => None end.
Proof.
  intros A B. unfold find_close. cbn [find_c]. rewrite A, B.
  destruct (find_c c_rbr s) as [i|], (find_c c_rpar s) as [e|]; try reflexivity.
  change (Nat.ltb (S e) (S i)) with (Nat.ltb e i). destruct (Nat.ltb e i); reflexivity.
Qed.
Lemma find_close_here c tail : (eqc c c_rbr = true \/ eqc c c_rpar = true) -> find_close (c :: tail) = Some 0.
Proof.
  intros H. unfold find_close. cbn [find_c]. destruct (eqc c c_rbr) eqn:A, (eqc c c_rpar) eqn:B; try reflexivity.
  - destruct (find_c c_rpar tail); reflexivity.
  - destruct (find_c c_rbr tail); reflexivity.
  - destruct H; discriminate.
Qed.
Lemma find_close_at : forall pre c tail, forallb (fun x => negb (eqc x c_rbr) && negb (eqc x c_rpar)) pre = true ->
  (eqc c c_rbr = true \/ eqc c c_rpar = true) -> find_close (pre ++ c :: tail) = Some (List.length pre).
Proof.
  induction pre as [|x r IH]; intros c tail F H; [apply find_close_here; exact H|].
  cbn [forallb] in F. apply andb_true_iff in F. destruct F as [Fx Fr]. apply andb_true_iff in Fx. destruct Fx as [A B].
  apply negb_true_iff in A, B. cbn [app]. rewrite (find_close_skip x _ A B), (IH c tail Fr H). reflexivity.
Qed.

(* ---- one restriction ---------------------------------------------------------------------------------------------- *)
Lemma strip_ws_id s : forallb (fun c => negb (mem_c c wsset)) s = true -> strip_ws s = s.
Proof.
  intros H. unfold strip_ws, strip_set, rstrip_set. fold wsset.
  assert (L : forall t, forallb (fun c => negb (mem_c c wsset)) t = true -> lstrip_set wsset t = t).
  { intros t Ht. apply lstrip_set_none. destruct t as [|x r]; [exact I|]. cbn [forallb] in Ht. apply andb_true_iff in Ht. destruct Ht as [Hx _].
    apply negb_true_iff in Hx. exact Hx. }
  rewrite (L s H). rewrite L; [apply rev_involutive|]. rewrite forallb_forall in *. intros x Hx. apply H. apply in_rev. exact Hx.
Qed.
Lemma plain_nows t : forallb plain_c t = true -> forallb (fun c => negb (mem_c c wsset)) t = true.
Proof. rewrite !forallb_forall. intros H x Hx. apply negb_true_iff. apply (plain_c_facts x (H x Hx)). Qed.
Lemma plain_nocomma t : forallb plain_c t = true -> mem_c c_comma t = false.
Proof.
  intros H. unfold mem_c. destruct (existsb (eqc c_comma) t) eqn:E; [|reflexivity]. apply existsb_exists in E. destruct E as [x [Hx Ex]].
  rewrite forallb_forall in H. destruct (plain_c_facts x (H x Hx)) as [_ [_ [_ [_ [C _]]]]]. rewrite eqc_sym in Ex. congruence.
Qed.
Lemma oplain_chars o : oplain o = true -> forallb plain_c (otext o) = true.
Proof. destruct o as [t|]; [|reflexivity]. unfold oplain, plain. intros H. apply andb_true_iff in H. apply H. Qed.
Lemma otext_empty o : oplain o = true -> (if is_empty (otext o) then None else Some (otext o)) = o.
Proof. destruct o as [t|]; [|reflexivity]. unfold oplain, plain. intros H. apply andb_true_iff in H. destruct H as [N _]. destruct t; [discriminate|reflexivity]. Qed.

Section One.
Variable mcmp : str -> str -> comparison.
Notation m_lt := (m_lt mcmp).
Notation m_eq := (m_eq mcmp).

(* the sanity checks of maven.Restriction pass *)
Definition alt_checks (a : ralt) : bool :=
  match a with
  | RExact _ => true
  | RIval (Some l) (Some u) _ _ => negb (eqs l u) && negb (m_lt u l)
  | RIval _ _ _ _ => true
  end.

Lemma restriction_rendered a : clean_alt a = true -> alt_checks a = true -> restriction mcmp (render_alt a) = Ok (restr_of a).
Proof.
  intros C K. destruct a as [v|lo hi loi hii]; unfold restriction, render_alt.
  - cbn [clean_alt] in C. unfold plain in C. apply andb_true_iff in C. destruct C as [N P].
    cbn [tl]. rewrite removelast_last. change (c_lbr :: v ++ [c_rbr]) with ((c_lbr :: v) ++ [c_rbr]). rewrite last_last.
    rewrite (strip_ws_id v (plain_nows v P)), (plain_nocomma v P). reflexivity.
  - cbn [clean_alt] in C. apply andb_true_iff in C. destruct C as [Cl Ch].
    pose proof (oplain_chars lo Cl) as Pl. pose proof (oplain_chars hi Ch) as Ph.
    cbn [tl]. rewrite removelast_last.
    change ((if loi then c_lbr else c_lpar) :: (otext lo ++ c_comma :: otext hi) ++ [if hii then c_rbr else c_rpar])
      with (((if loi then c_lbr else c_lpar) :: otext lo ++ c_comma :: otext hi) ++ [if hii then c_rbr else c_rpar]). rewrite last_last.
    assert (W : forallb (fun c => negb (mem_c c wsset)) (otext lo ++ c_comma :: otext hi) = true).
    { rewrite forallb_app. cbn [forallb]. rewrite (plain_nows _ Pl), (plain_nows _ Ph). reflexivity. }
    rewrite (strip_ws_id _ W).
    assert (M : mem_c c_comma (otext lo ++ c_comma :: otext hi) = true).
    { unfold mem_c. rewrite existsb_app. cbn [existsb]. rewrite eqc_refl, orb_true_r. reflexivity. }
    rewrite M. rewrite (split_app_sep c_comma (otext lo) (otext hi) (plain_nocomma _ Pl)), (split_no_sep c_comma (otext hi) (plain_nocomma _ Ph)).
    rewrite (otext_empty lo Cl), (otext_empty hi Ch).
    assert (LI : eqc (if loi then c_lbr else c_lpar) c_lbr = loi) by (destruct loi; reflexivity).
    assert (HI : eqc (if hii then c_rbr else c_rpar) c_rbr = hii) by (destruct hii; reflexivity).
    rewrite LI, HI. destruct lo as [l|], hi as [u|]; cbn [otext is_empty restr_of alt_checks] in *.
    + apply andb_true_iff in K. destruct K as [K1 K2]. apply negb_true_iff in K1, K2. rewrite K1, K2, andb_false_r. reflexivity.
    + destruct l; reflexivity.
    + reflexivity.
    + reflexivity.
Qed.
End One.

(* ---- the loop over the restrictions ------------------------------------------------------------------------------ *)
Definition open_of (a : ralt) : ascii := match a with RExact _ => c_lbr | RIval _ _ loi _ => if loi then c_lbr else c_lpar end.
Definition close_of (a : ralt) : ascii := match a with RExact _ => c_rbr | RIval _ _ _ hii => if hii then c_rbr else c_rpar end.
Definition body_of (a : ralt) : str := match a with RExact v => v | RIval lo hi _ _ => otext lo ++ c_comma :: otext hi end.
Lemma render_alt_parts a : render_alt a = (open_of a :: body_of a) ++ [close_of a].
Proof. destruct a; reflexivity. Qed.
Definition noclose (x : ascii) : bool := negb (eqc x c_rbr) && negb (eqc x c_rpar).
Lemma plain_noclose t : forallb plain_c t = true -> forallb noclose t = true.
Proof.
  rewrite !forallb_forall. intros H x Hx. destruct (plain_c_facts x (H x Hx)) as [_ [B [_ [D _]]]]. unfold noclose. rewrite B, D. reflexivity.
Qed.
Lemma body_noclose a : clean_alt a = true -> forallb noclose (open_of a :: body_of a) = true.
Proof.
  intros C. cbn [forallb]. apply andb_true_iff. split; [destruct a as [v|lo hi [|] hii]; reflexivity|].
  destruct a as [v|lo hi loi hii]; cbn [clean_alt body_of] in *.
  - unfold plain in C. apply andb_true_iff in C. apply plain_noclose. apply C.
  - apply andb_true_iff in C. destruct C as [Cl Ch]. rewrite forallb_app. cbn [forallb].
    rewrite (plain_noclose _ (oplain_chars lo Cl)), (plain_noclose _ (oplain_chars hi Ch)). reflexivity.
Qed.
Lemma close_is_close a : eqc (close_of a) c_rbr = true \/ eqc (close_of a) c_rpar = true.
Proof. destruct a as [v|lo hi loi [|]]; cbn; auto. Qed.
Lemma open_is_open a t : startswith (open_of a :: t) [c_lpar] || startswith (open_of a :: t) [c_lbr] = true.
Proof. destruct a as [v|lo hi [|] hii], t; reflexivity. Qed.

Definition tail_of (r : list ralt) : str := match r with [] => [] | _ => c_comma :: render r end.
Lemma render_cons a r : render (a :: r) = render_alt a ++ tail_of r.
Proof. destruct r; cbn [render tail_of]; [rewrite app_nil_r|]; reflexivity. Qed.
Lemma render_nospace_or_close_first r : match render r with c :: _ => eqc c c_comma = false | [] => True end.
Proof. destruct r as [|a r]; [exact I|]. rewrite render_cons, render_alt_parts. cbn [app]. destruct a as [v|lo hi [|] hii]; reflexivity. Qed.

Section Loop.
Variable mcmp : str -> str -> comparison.
Notation m_lt := (m_lt mcmp).

(* the overlap test of maven.VersionRange passes along the expression *)
Fixpoint chain_ok (upper : option str) (e : list ralt) : bool :=
  match e with
  | [] => true
  | a :: r =>
      (match upper with
       | Some u => match r_lo (restr_of a) with None => false | Some l => negb (m_lt l u) end
       | None => true end)
      && chain_ok (r_hi (restr_of a)) r
  end.

Lemma loop_rendered : forall e fuel upper acc,
  forallb clean_alt e = true -> forallb (alt_checks mcmp) e = true -> chain_ok upper e = true ->
  List.length (render e) < fuel ->
  vr_loop mcmp fuel (render e) upper acc = Ok (rev acc ++ map restr_of e, []).
Proof.
  induction e as [|a r IH]; intros fuel upper acc C K H F.
  - destruct fuel; [inversion F|]. cbn. rewrite app_nil_r. reflexivity.
  - destruct fuel as [|f]; [inversion F|].
    cbn [forallb] in C, K. apply andb_true_iff in C, K. destruct C as [Ca Cr], K as [Ka Kr].
    cbn [chain_ok] in H. apply andb_true_iff in H. destruct H as [Ha Hr].
    rewrite render_cons in *. rewrite render_alt_parts in *. cbn [vr_loop].
    change (((open_of a :: body_of a) ++ [close_of a]) ++ tail_of r) with (open_of a :: (body_of a ++ [close_of a]) ++ tail_of r).
    rewrite open_is_open.
    change (open_of a :: (body_of a ++ [close_of a]) ++ tail_of r) with (((open_of a :: body_of a) ++ [close_of a]) ++ tail_of r).
    rewrite <- app_assoc. cbn [app].
    change (open_of a :: body_of a ++ close_of a :: tail_of r) with ((open_of a :: body_of a) ++ close_of a :: tail_of r).
    rewrite (find_close_at (open_of a :: body_of a) (close_of a) (tail_of r) (body_noclose a Ca) (close_is_close a)).
    set (pre := open_of a :: body_of a).
    assert (FN : firstn (S (List.length pre)) (pre ++ close_of a :: tail_of r) = pre ++ [close_of a]).
    { replace (S (List.length pre)) with (List.length pre + 1) by lia. rewrite firstn_app_2. reflexivity. }
    assert (SK : skipn (S (List.length pre)) (pre ++ close_of a :: tail_of r) = tail_of r).
    { replace (pre ++ close_of a :: tail_of r) with ((pre ++ [close_of a]) ++ tail_of r) by (rewrite <- app_assoc; reflexivity).
      replace (S (List.length pre)) with (List.length (pre ++ [close_of a])) by (rewrite app_length; cbn; lia). apply skipn_all_app || (rewrite skipn_app, skipn_all, Nat.sub_diag; reflexivity). }
    rewrite FN, SK. unfold pre. rewrite <- render_alt_parts, (restriction_rendered mcmp a Ca Ka).
    assert (OV : (match upper with Some u => match r_lo (restr_of a) with None => true | Some l => m_lt l u end | None => false end) = false).
    { destruct upper as [u|]; [|reflexivity]. destruct (r_lo (restr_of a)) as [l|]; [|discriminate]. apply negb_true_iff in Ha. exact Ha. }
    rewrite OV.
    assert (LEN : List.length (render r) < f).
    { rewrite !app_length in F. cbn [List.length] in F. destruct r as [|b r']; [cbn; lia|]. cbn [tail_of List.length] in F. lia. }
    destruct r as [|b r'].
    + cbn [tail_of]. change (vr_loop mcmp f [] (r_hi (restr_of a)) (restr_of a :: acc)) with (vr_loop mcmp f (render []) (r_hi (restr_of a)) (restr_of a :: acc)).
      rewrite (IH f _ _ eq_refl eq_refl eq_refl LEN). cbn [rev map]. rewrite app_nil_r. reflexivity.
    + cbn [tail_of]. rewrite eqc_refl. rewrite (IH f _ _ Cr Kr Hr LEN). cbn [rev map]. rewrite <- app_assoc. reflexivity.
Qed.
End Loop.

(* ---- the whole parser --------------------------------------------------------------------------------------------- *)
Section Whole.
Variable mcmp : str -> str -> comparison.
Notation m_lt := (m_lt mcmp).
Notation m_eq := (m_eq mcmp).

Theorem restrictions_rendered e :
  forallb clean_alt e = true -> forallb (alt_checks mcmp) e = true -> chain_ok mcmp None e = true ->
  restrictions mcmp (render e) = Ok (map restr_of e).
Proof.
  intros C K H. unfold restrictions. rewrite (loop_rendered mcmp e _ None [] C K H (Nat.lt_succ_diag_r _)). reflexivity.
Qed.

Lemma render_alt_nospace a : clean_alt a = true -> forallb (fun c => negb (eqc c c_space)) (render_alt a) = true.
Proof.
  intros C. assert (P : forall t, forallb plain_c t = true -> forallb (fun c => negb (eqc c c_space)) t = true).
  { intros t. rewrite !forallb_forall. intros H x Hx. apply negb_true_iff. apply (plain_c_facts x (H x Hx)). }
  destruct a as [v|lo hi loi hii]; cbn [render_alt clean_alt] in *.
  - unfold plain in C. apply andb_true_iff in C. destruct C as [_ C]. cbn [forallb]. rewrite forallb_app, (P v C). reflexivity.
  - apply andb_true_iff in C. destruct C as [Cl Ch]. cbn [forallb]. rewrite !forallb_app. cbn [forallb].
    rewrite (P _ (oplain_chars lo Cl)), (P _ (oplain_chars hi Ch)). destruct loi, hii; reflexivity.
Qed.
Lemma render_nospace : forall e, forallb clean_alt e = true -> filter (fun c => negb (eqc c c_space)) (render e) = render e.
Proof.
  intros e C. apply filter_all. revert C. induction e as [|a r IH]; intros C; [reflexivity|].
  cbn [forallb] in C. apply andb_true_iff in C. destruct C as [Ca Cr]. rewrite render_cons, forallb_app, (render_alt_nospace a Ca).
  destruct r as [|b r']; [reflexivity|]. cbn [tail_of forallb]. rewrite (IH Cr). reflexivity.
Qed.

Section Scheme.
Variable V : Type.
Variable cmp : V -> V -> comparison.
Hypothesis T : TPO cmp.
Variable mk : str -> res V.
Notation constr := (constr V).

(* the alternative an expression item stands for, its versions built by the scheme's constructor *)
Definition obound (o : option str) (incl : bool) : res (option (V * bool)) :=
  match o with None => Ok None | Some t => match mk t with Ok v => Ok (Some (v, incl)) | Err e => Err e end end.
Definition alt_of (a : ralt) : res (alt V) :=
  match a with
  | RExact v => match mk v with Ok x => Ok (AExact V x) | Err e => Err e end
  | RIval lo hi loi hii =>
      match obound lo loi, obound hi hii with
      | Ok l, Ok h => Ok (AIval V {| lo := l; hi := h; excl := [] |})
      | Err e, _ => Err e
      | _, Err e => Err e
      end
  end.

(* an interval whose two bounds are equal for maven is emitted as "=": exclude it; an exact version equals itself *)
Definition eq_checks (a : ralt) : bool :=
  match a with
  | RExact v => m_eq v v
  | RIval (Some l) (Some u) _ _ => negb (m_eq l u)
  | RIval None None _ _ => false
  | RIval _ _ _ _ => true
  end.

Lemma restr_constraints_alt a x : eq_checks a = true -> alt_of a = Ok x ->
  restr_constraints mcmp V mk (restr_of a) = Ok (acs V x).
Proof.
  intros Q A. destruct a as [v|lo hi loi hii]; unfold restr_constraints, bounds_equal; cbn [restr_of r_lo r_hi r_loi r_hii eq_checks alt_of] in *.
  - rewrite Q. cbn [opt_text]. destruct (mk v) as [y|e]; [|discriminate]. inversion A; subst. reflexivity.
  - destruct lo as [l|], hi as [u|]; cbn [obound] in A; try discriminate.
    + apply negb_true_iff in Q. rewrite Q. destruct (mk l) as [y|e]; [|discriminate]. destruct (mk u) as [z|e]; [|discriminate].
      inversion A; subst. cbn. destruct loi, hii; reflexivity.
    + destruct (mk l) as [y|e]; [|discriminate]. inversion A; subst. cbn. destruct loi; reflexivity.
    + destruct (mk u) as [z|e]; [|discriminate]. inversion A; subst. cbn. destruct hii; reflexivity.
Qed.

Lemma all_constraints_alts : forall e alts, forallb eq_checks e = true -> mapM alt_of e = Ok alts ->
  all_constraints mcmp V mk (map restr_of e) = Ok (to_constraints V alts).
Proof.
  induction e as [|a r IH]; intros alts Q M; cbn [mapM] in M.
  - inversion M; subst. reflexivity.
  - cbn [forallb] in Q. apply andb_true_iff in Q. destruct Q as [Qa Qr].
    destruct (alt_of a) as [x|e] eqn:A; [|discriminate]. destruct (mapM alt_of r) as [xs|e] eqn:R; [|discriminate]. inversion M; subst.
    cbn [map all_constraints]. rewrite (restr_constraints_alt a x Qa A), (IH xs Qr eq_refl). reflexivity.
Qed.

(* C06, bracket notation, parser included *)
Theorem bracket_native_constraints e alts :
  forallb clean_alt e = true -> forallb (alt_checks mcmp) e = true -> chain_ok mcmp None e = true -> forallb eq_checks e = true ->
  mapM alt_of e = Ok alts ->
  maven_native mcmp V mk (render e) = Ok (to_constraints V alts).
Proof.
  intros C K H Q M. unfold maven_native. rewrite (render_nospace e C), (restrictions_rendered e C K H). apply all_constraints_alts; assumption.
Qed.

Theorem bracket_native_exact e alts :
  forallb clean_alt e = true -> forallb (alt_checks mcmp) e = true -> chain_ok mcmp None e = true -> forallb eq_checks e = true ->
  mapM alt_of e = Ok alts -> separated V cmp alts ->
  exists cs, maven_native mcmp V mk (render e) = Ok cs /\ forall p, den V cmp cs p = nmatch V cmp alts p.
Proof.
  intros C K H Q M S. exists (to_constraints V alts). split; [apply bracket_native_constraints; assumption|].
  intros p. apply (native_conversion_exact V cmp T). exact S.
Qed.

(* the range object sorts its constraints: ascending alternatives are already in order *)
Theorem bracket_native_sorted e alts :
  forallb clean_alt e = true -> forallb (alt_checks mcmp) e = true -> chain_ok mcmp None e = true -> forallb eq_checks e = true ->
  mapM alt_of e = Ok alts -> separated V cmp alts -> Forall (fun a => alt_inc V cmp a = true) alts -> alts <> [] ->
  exists cs, maven_native mcmp V mk (render e) = Ok cs /\ sort_c V cmp cs = Ok cs /\ wf_sorted V cmp cs = true.
Proof.
  intros C K H Q M S I N. exists (to_constraints V alts). split; [apply bracket_native_constraints; assumption|].
  pose proof (native_conversion_wf V cmp alts S I N) as W. split; [|exact W].
  assert (NS : no_star V (to_constraints V alts) = true) by (unfold no_star; rewrite (no_star_tc V alts); reflexivity).
  assert (INC : increasing V cmp (to_constraints V alts) = true).
  { unfold wf_sorted in W. destruct (to_constraints V alts) as [|c t] eqn:E; [reflexivity|].
    destruct c as [|o x]; [cbn in NS; discriminate|]. rewrite <- E in *.
    assert (W' : no_star V (to_constraints V alts) && increasing V cmp (to_constraints V alts) && eq_rule V (to_constraints V alts) && alternate V (bounds V (to_constraints V alts)) = true).
    { rewrite E in *. destruct t; exact W. }
    apply andb_true_iff in W'. destruct W' as [W' _]. apply andb_true_iff in W'. destruct W' as [W' _]. apply andb_true_iff in W'. apply W'. }
  pose proof (incr_strong V cmp T _ INC) as SI.
  destruct (sort_incr V cmp T (to_constraints V alts) NS (strong_incr_nodup V cmp _ NS SI)) as [s [Es [Ss Ps]]].
  rewrite Es. f_equal. symmetry. apply (strong_incr_unique V cmp T); assumption.
Qed.
End Scheme.
End Whole.
