(* C15, GitLab notation (the schemes converted by from_gitlab_native's own loop): an expression made of clauses
   "<spelling><version>" separated by the scheme's separator, with no "||", converts to exactly the constraints it
   states.  A clause is never mistaken for a comparator on its own: every key of a comparator table is made of
   comparator characters only, and a clause contains the first character of its version. *)
From Coq Require Import List Bool Arith Ascii String NArith Lia.
From UV.Base Require Import Order Cop Res ListAux.
From UV.Gen Require Import Tables.
From UV.Py Require Import PyStr.
From UV.Vers Require Import Model VersText.
From UV.Native Require Import Advisory AdvisoryProofs SnykProofs.
From UV.Schemes Require SemverRoundTrip.
Import ListNotations.
Local Open Scope list_scope.

Lemma split_pipes_none : forall s cur, mem_c "|"%char s = false -> split_pipes s cur = [rev cur ++ s].
Proof.
  induction s as [|c r IH]; intros cur H; [cbn; rewrite app_nil_r; reflexivity|].
  unfold mem_c in H. cbn [existsb] in H. apply orb_false_iff in H. destruct H as [H1 H2]. fold (mem_c "|"%char r) in H2.
  assert (E : split_pipes (c :: r) cur = split_pipes r (c :: cur)).
  { cbn [split_pipes]. destruct c as [[|] [|] [|] [|] [|] [|] [|] [|]]; try reflexivity. vm_compute in H1. discriminate. }
  rewrite E, (IH (c :: cur) H2). cbn [rev]. rewrite <- app_assoc. reflexivity.
Qed.

Lemma find_none_intro {A} (f : A -> bool) : forall l, (forall x, In x l -> f x = false) -> find f l = None.
Proof. induction l as [|a r IH]; intros H; [reflexivity|]. cbn [find]. rewrite (H a (or_introl eq_refl)). apply IH. intros x Hx. apply H. right. exact Hx. Qed.

Lemma lookup_not_key (T : ctable) (k v : str) : keys_ok T = true ->
  match v with c :: _ => is_cmp_char c = false | [] => False end -> lookup_table T (k ++ v) = None.
Proof.
  intros HT Hv. unfold lookup_table.
  assert (F : find (fun p => eqs (s2l (fst p)) (k ++ v)) T = None).
  { apply find_none_intro. intros [k' val] Hin. cbn [fst]. destruct (eqs (s2l k') (k ++ v)) eqn:E; [|reflexivity]. exfalso.
    apply eqs_eq in E. unfold keys_ok in HT. rewrite forallb_forall in HT. specialize (HT _ Hin). cbn [fst] in HT.
    unfold key_ok in HT. apply andb_true_iff in HT. destruct HT as [HK _]. rewrite E in HK. rewrite forallb_app in HK.
    apply andb_true_iff in HK. destruct HK as [_ HV]. destruct v as [|c r]; [exact Hv|]. cbn [forallb] in HV. rewrite Hv in HV. discriminate. }
  rewrite F. reflexivity.
Qed.

Section Gitlab.
Variable V : Type.
Variable cmp : V -> V -> comparison.
Variable vctor : str -> res V.

(* a clause: a spelling of the table (or none: the default "=") glued to a version text *)
Definition gl_clause (T : ctable) (p : str) (c : constr V) : Prop :=
  exists (v : str) (x : V), vplain v = true /\ vctor v = Ok x /\
    ((exists (k : string) (o : cop), p = s2l k ++ v /\ In k (map fst T) /\ lookup_table T (s2l k) = Some (Some o) /\ c = C o x)
     \/ (p = v /\ first_prefix T v = None /\ c = C EQ x)).

Theorem gitlab_items_rendered (T : ctable) : table_ok T = true ->
  forall pieces cs, Forall2 (gl_clause T) pieces cs -> gitlab_items V vctor T pieces None = Ok cs.
Proof.
  intros HT. pose proof HT as HT'. unfold table_ok in HT'. apply andb_true_iff in HT'. destruct HT' as [HK HS].
  induction 1 as [|p c ps cs' H HF IH]; [reflexivity|].
  destruct H as [v [x [Hv [Hx H]]]].
  assert (Hv1 : match v with c :: _ => is_cmp_char c = false | [] => False end).
  { unfold vplain in Hv. apply andb_true_iff in Hv. destruct Hv as [Hv _]. destruct v as [|c0 r0]; [discriminate|]. apply negb_true_iff in Hv. exact Hv. }
  assert (Hne : v <> []) by (destruct v; [contradiction|discriminate]).
  destruct H as [[k [o [-> [Hin [Hl ->]]]]]|[-> [Hfp ->]]]; cbn [gitlab_items].
  - assert (NE : is_empty (s2l k ++ v) = false) by (destruct (s2l k); [destruct v; [congruence|reflexivity]|reflexivity]).
    rewrite NE. cbn [app]. rewrite (lookup_not_key T (s2l k) v HK Hv1).
    assert (Hs : spelling_ok T k = true).
    { rewrite forallb_forall in HS. apply in_map_iff in Hin. destruct Hin as [[k0 v0] [E Hin]]. cbn in E. subst k0. apply (HS _ Hin). }
    rewrite (split_req_rendered T (Some EQ) k (Some o) v (s2l k ++ v) HK Hs Hl Hv (ws_refl' _)).
    unfold mk_constraint. rewrite Hx, IH. reflexivity.
  - assert (NE : is_empty v = false) by (destruct v; [congruence|reflexivity]).
    rewrite NE. cbn [app]. pose proof (lookup_not_key T [] v HK Hv1) as LK. cbn [app] in LK. rewrite LK.
    assert (SR : split_req T (Some EQ) [] v = Ok (Some EQ, v)).
    { unfold split_req. unfold vplain in Hv. apply andb_true_iff in Hv. destruct Hv as [_ Hv2]. rewrite (remove_spaces_none v Hv2).
      assert (S0 : strip_set [] v = v).
      { unfold strip_set, rstrip_set. assert (L : forall t, lstrip_set [] t = t) by (intros t; destruct t; reflexivity). rewrite !L. apply rev_involutive. }
      rewrite S0, Hfp. reflexivity. }
    rewrite SR. unfold mk_constraint. rewrite Hx, IH. reflexivity.
Qed.

(* the whole expression: clauses joined by the separator, no "||" *)
Theorem gitlab_range_rendered (T : ctable) (sep : ascii) : table_ok T = true ->
  forall pieces cs, pieces <> [] -> Forall (fun w => mem_c sep w = false /\ mem_c "|"%char w = false) pieces -> eqc "|"%char sep = false ->
  Forall2 (gl_clause T) pieces cs ->
  gitlab_range V cmp vctor T sep (join_c sep pieces) = sort_c V cmp cs.
Proof.
  intros HT pieces cs Hne HF Hsep H2. unfold gitlab_range.
  assert (NP : mem_c "|"%char (join_c sep pieces) = false).
  { apply UV.Schemes.SemverRoundTrip.mem_join; [exact Hsep|]. apply Forall_forall. intros w Hw. rewrite Forall_forall in HF. apply (HF w Hw). }
  rewrite (split_pipes_none _ [] NP). cbn [rev app]. unfold split_on. cbn [flat_map]. rewrite app_nil_r.
  rewrite (split_join sep pieces Hne); [|apply Forall_forall; intros w Hw; rewrite Forall_forall in HF; apply (HF w Hw)].
  rewrite (gitlab_items_rendered T HT pieces cs H2). reflexivity.
Qed.
End Gitlab.
