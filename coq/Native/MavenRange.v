(* Code-shaped model of the Maven / NuGet bracket notation: maven.Restriction, maven.VersionRange and
   MavenVersionRange.from_native (NugetVersionRange inherits it).  The bounds stay texts inside the parser; its sanity
   checks use maven's own order on them (mcmp), whatever the scheme of the range being built; the constraints are then
   built with the scheme's constructor (mk). *)
From Coq Require Import List Bool Arith Ascii String NArith.
From UV.Base Require Import Cop Res.
From UV.Py Require Import PyStr.
From UV.Vers Require Import Model.
From UV.Native Require Import Advisory.
Import ListNotations.
Local Open Scope list_scope.

Definition c_lpar : ascii := "("%char.
Definition c_rpar : ascii := ")"%char.
Definition c_lbr : ascii := "["%char.
Definition c_rbr : ascii := "]"%char.

(* s.find(c): the index of the first occurrence *)
Fixpoint find_c (c : ascii) (s : str) : option nat :=
  match s with
  | [] => None
  | x :: r => if eqc x c then Some 0 else match find_c c r with Some n => Some (S n) | None => None end
  end.

(* the closing bracket of the first restriction: the nearer of the first "]" and the first ")" *)
Definition find_close (spec : str) : option nat :=
  match find_c c_rbr spec, find_c c_rpar spec with
  | None, e => e
  | Some i, Some e => if Nat.ltb e i then Some e else Some i
  | Some i, None => Some i
  end.

Record restr := { r_lo : option str; r_hi : option str; r_loi : bool; r_hii : bool }.
Definition everything : restr := {| r_lo := None; r_hi := None; r_loi := false; r_hii := false |}.

Section Parser.
Variable mcmp : str -> str -> comparison.       (* maven.Version.__cmp__ on the texts of two bounds *)
Definition m_lt (a b : str) : bool := match mcmp a b with Lt => true | _ => false end.
Definition m_eq (a b : str) : bool := match mcmp a b with Eq => true | _ => false end.

(* maven.Restriction(spec), spec being a slice that starts with an opening and ends with a closing bracket.
   EValue stands for RestrictionParseError / VersionRangeParseError (both ValueError) and the unpacking ValueError. *)
Definition restriction (spec : str) : res restr :=
  match spec with
  | [] => Err EIndex
  | c0 :: _ =>
      let loi := eqc c0 c_lbr in
      let hii := eqc (last spec c0) c_rbr in
      let inner := strip_ws (removelast (tl spec)) in
      if mem_c c_comma inner then
        match split_c c_comma inner with
        | [l; u] =>
            if negb (is_empty l) && eqs l u then Err EValue
            else
              let lb := if is_empty l then None else Some l in
              let ub := if is_empty u then None else Some u in
              match lb, ub with
              | Some a, Some b => if m_lt b a then Err EValue
                                  else Ok {| r_lo := lb; r_hi := ub; r_loi := loi; r_hii := hii |}
              | _, _ => Ok {| r_lo := lb; r_hi := ub; r_loi := loi; r_hii := hii |}
              end
        | _ => Err EValue
        end
      else if negb loi || negb hii then Err EValue
      else Ok {| r_lo := Some inner; r_hi := Some inner; r_loi := true; r_hii := true |}
  end.

(* the while loop of maven.VersionRange.__init__: the restrictions read so far (reversed), the previous upper bound
   (None: Python None) and what is left of the text *)
Fixpoint vr_loop (fuel : nat) (spec : str) (upper : option str) (acc : list restr) : res (list restr * str) :=
  match fuel with
  | O => Err ERecursion                                     (* not reached: every turn consumes at least two characters *)
  | S f =>
      if startswith spec [c_lpar] || startswith spec [c_lbr] then
        match find_close spec with
        | None => Err EValue
        | Some k =>
            match restriction (firstn (S k) spec) with
            | Err e => Err e
            | Ok r =>
                let overlap := match upper with
                               | Some u => match r_lo r with None => true | Some l => m_lt l u end
                               | None => false end in
                if overlap then Err EValue
                else
                  let rest := skipn (S k) spec in
                  let rest := match rest with c :: t => if eqc c c_comma then t else rest | [] => rest end in
                  vr_loop f rest (r_hi r) (r :: acc)
            end
        end
      else Ok (rev acc, spec)
  end.

(* maven.VersionRange(spec).restrictions *)
Definition restrictions (spec : str) : res (list restr) :=
  match vr_loop (S (List.length spec)) spec None [] with
  | Err e => Err e
  | Ok (rs, rest) =>
      match rest with
      | [] => Ok rs
      | _ => match rs with [] => Ok [everything] | _ => Err EValue end
      end
  end.

Section Build.
Variable V : Type.
Variable mk : str -> res V.                      (* cls.version_class(str(bound)) *)
Notation constr := (constr V).

Definition opt_text (o : option str) : str := match o with Some t => t | None => list_ascii_of_string "None" end.
(* lower_bound == upper_bound: None == None, a Version never equals None, two Versions by maven's __cmp__ *)
Definition bounds_equal (r : restr) : bool :=
  match r_lo r, r_hi r with None, None => true | Some a, Some b => m_eq a b | _, _ => false end.

Definition restr_constraints (r : restr) : res (list constr) :=
  if bounds_equal r then
    match mk (opt_text (r_lo r)) with Ok v => Ok [C EQ v] | Err e => Err e end
  else
    match (match r_lo r with Some a => match mk a with Ok v => Ok [C (if r_loi r then GE else GT) v] | Err e => Err e end | None => Ok [] end) with
    | Err e => Err e
    | Ok lows =>
        match (match r_hi r with Some b => match mk b with Ok v => Ok [C (if r_hii r then LE else LT) v] | Err e => Err e end | None => Ok [] end) with
        | Err e => Err e
        | Ok highs => Ok (lows ++ highs)
        end
    end.

Fixpoint all_constraints (rs : list restr) : res (list constr) :=
  match rs with
  | [] => Ok []
  | r :: t => match restr_constraints r with
              | Err e => Err e
              | Ok cs => match all_constraints t with Ok ds => Ok (cs ++ ds) | Err e => Err e end
              end
  end.

(* MavenVersionRange.from_native(string): the constraints handed to cls(constraints=...), before its sort *)
Definition maven_native (s : str) : res (list constr) :=
  match restrictions (filter (fun c => negb (eqc c c_space)) s) with
  | Err e => Err e
  | Ok rs => all_constraints rs
  end.
End Build.
End Parser.
