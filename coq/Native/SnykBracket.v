(* C15, Snyk bracket notation: one item "[a,b)", "(a,b]", "(,b]", "[a,)" ... written with plain version texts converts
   to exactly the bounds it states (the bracket table is the one of /repo, regenerated on every run). *)
From Coq Require Import List Bool Arith Ascii String NArith Lia.
From UV.Base Require Import Order Cop Res ListAux.
From UV.Gen Require Import Tables.
From UV.Py Require Import PyStr.
From UV.Vers Require Import Model VersText.
From UV.Native Require Import Advisory AdvisoryProofs SnykProofs RelationsProofs.
From UV.Ref Require Deb.
Import ListNotations.
Local Open Scope list_scope.

Definition c_ob (incl : bool) : ascii := if incl then "["%char else "("%char.
Definition c_cb (incl : bool) : ascii := if incl then "]"%char else ")"%char.

(* a version text inside brackets: not empty, no bracket, comma or blank *)
Definition bplain_c (c : ascii) : bool := negb (mem_c c (s2l "[]()")) && negb (eqc c c_comma) && negb (is_space c).
Definition bplain (t : str) : bool := negb (is_empty t) && forallb bplain_c t.

Lemma bplain_c_facts c : bplain_c c = true -> mem_c c (s2l "[]()") = false /\ eqc c c_comma = false /\ is_space c = false /\ eqc c c_space = false.
Proof.
  assert (T : forallb (fun c => negb (bplain_c c) || (negb (mem_c c (s2l "[]()")) && negb (eqc c c_comma) && negb (is_space c) && negb (eqc c c_space))) UV.Ref.Deb.all_chars = true)
    by (vm_compute; reflexivity).
  rewrite forallb_forall in T. specialize (T c (UV.Ref.Deb.all_chars_complete c)). intros H. rewrite H in T. cbn [negb orb] in T.
  repeat (apply andb_true_iff in T; destruct T as [T ?]). repeat split; apply negb_true_iff; assumption.
Qed.

Lemma bracket_table_is : bracket_table = [("(", GT); ("[", GE); (")", LT); ("]", LE)]%string.
Proof. reflexivity. Qed.

Lemma strip_ws_plain t : forallb bplain_c t = true -> strip_ws t = t /\ remove_spaces t = t.
Proof.
  intros H. assert (S : forallb (fun c => negb (is_space c)) t = true).
  { rewrite forallb_forall in *. intros x Hx. apply negb_true_iff. apply (bplain_c_facts x (H x Hx)). }
  split; [|apply remove_spaces_none; exact S].
  unfold strip_ws. set (ws := map ch [9; 10; 11; 12; 13; 28; 29; 30; 31; 32]%N).
  assert (W : forallb (fun c => negb (mem_c c ws)) t = true).
  { rewrite forallb_forall in *. intros x Hx. specialize (S x Hx). apply negb_true_iff in S. apply negb_true_iff.
    assert (T : forallb (fun c => is_space c || negb (mem_c c ws)) UV.Ref.Deb.all_chars = true) by (vm_compute; reflexivity).
    rewrite forallb_forall in T. specialize (T x (UV.Ref.Deb.all_chars_complete x)). rewrite S in T. cbn [orb] in T. apply negb_true_iff in T. exact T. }
  pose proof (strip_set_wrapped ws [] t [] eq_refl eq_refl W) as K. cbn [app] in K. rewrite app_nil_r in K. exact K.
Qed.

(* the two halves of the bracket table *)
Definition front : list (string * cop) := filter (fun p => eqs (s2l (fst p)) (s2l "(") || eqs (s2l (fst p)) (s2l "[")) bracket_table.
Definition rear : list (string * cop) := filter (fun p => eqs (s2l (fst p)) (s2l ")") || eqs (s2l (fst p)) (s2l "]")) bracket_table.
Lemma front_is : front = [("(", GT); ("[", GE)]%string. Proof. reflexivity. Qed.
Lemma rear_is : rear = [(")", LT); ("]", LE)]%string. Proof. reflexivity. Qed.
Lemma bracket_split_unfold s0 : bracket_split s0 =
  let cs := strip_ws (remove_spaces s0) in
  match find (fun p => startswith cs (s2l (fst p))) front with
  | Some (k, o) => Ok (o, lstrip_set (s2l k) cs)
  | None => match find (fun p => endswith cs (s2l (fst p))) rear with
            | Some (k, o) => Ok (o, rstrip_set (s2l k) cs)
            | None => Err EValue
            end
  end.
Proof. reflexivity. Qed.

Lemma startswith_one c t d : startswith (c :: t) [d] = eqc d c.
Proof. cbn [startswith]. rewrite startswith_nil, andb_true_r. reflexivity. Qed.
Lemma endswith_one s c d : endswith (s ++ [c]) [d] = eqc d c.
Proof. unfold endswith. rewrite rev_app_distr. cbn [rev app]. apply startswith_one. Qed.

Lemma clean_id u : forallb (fun c => negb (is_space c)) u = true -> strip_ws (remove_spaces u) = u.
Proof.
  intros NS. rewrite (remove_spaces_none _ NS). unfold strip_ws. set (ws := map ch [9; 10; 11; 12; 13; 28; 29; 30; 31; 32]%N).
  assert (W : forallb (fun c => negb (mem_c c ws)) u = true).
  { rewrite forallb_forall in *. intros x Hx. specialize (NS x Hx). apply negb_true_iff in NS. apply negb_true_iff.
    assert (T : forallb (fun c => is_space c || negb (mem_c c ws)) UV.Ref.Deb.all_chars = true) by (vm_compute; reflexivity).
    rewrite forallb_forall in T. specialize (T x (UV.Ref.Deb.all_chars_complete x)). rewrite NS in T. cbn [orb] in T. apply negb_true_iff in T. exact T. }
  pose proof (strip_set_wrapped ws [] u [] eq_refl eq_refl W) as K. cbn [app] in K. rewrite app_nil_r in K. exact K.
Qed.
Lemma plain_nospace t : forallb bplain_c t = true -> forallb (fun c => negb (is_space c)) t = true.
Proof. rewrite !forallb_forall. intros H x Hx. apply negb_true_iff. apply (bplain_c_facts x (H x Hx)). Qed.
Lemma plain_nobracket t d : forallb bplain_c t = true -> mem_c d (s2l "[]()") = true -> mem_c d t = false.
Proof.
  intros H Hd. unfold mem_c at 1. destruct (existsb (eqc d) t) eqn:E; [|reflexivity]. apply existsb_exists in E. destruct E as [x [Hx Ex]].
  rewrite forallb_forall in H. destruct (bplain_c_facts x (H x Hx)) as [B _]. apply eqc_eq in Ex. subst x. congruence.
Qed.

(* an opening bracket glued to a version *)
Lemma bracket_split_open incl t : forallb bplain_c t = true ->
  bracket_split (c_ob incl :: t) = Ok ((if incl then GE else GT), t).
Proof.
  intros P. rewrite bracket_split_unfold. cbv zeta.
  assert (NS : forallb (fun c => negb (is_space c)) (c_ob incl :: t) = true).
  { cbn [forallb]. rewrite (plain_nospace t P). destruct incl; reflexivity. }
  rewrite (clean_id _ NS), front_is. cbn [find fst]. change (s2l "(") with ["("%char]. change (s2l "[") with ["["%char]. rewrite !startswith_one.
  assert (HD : forall d, mem_c d (s2l "[]()") = true -> match t with c :: _ => mem_c c [d] = false | [] => True end).
  { intros d Hd. destruct t as [|c r]; [exact I|]. pose proof (plain_nobracket (c :: r) d P Hd) as M. unfold mem_c in *. cbn [existsb] in *.
    apply orb_false_iff in M. destruct M as [M _]. rewrite eqc_sym, M. reflexivity. }
  destruct incl; cbn [c_ob].
  - change (eqc "("%char "["%char) with false. change (eqc "["%char "["%char) with true. cbn iota.
    f_equal. f_equal. cbn [lstrip_set mem_c existsb]. change (eqc "["%char "["%char) with true. cbn [orb]. apply lstrip_set_none. apply HD. reflexivity.
  - change (eqc "("%char "("%char) with true. cbn iota.
    f_equal. f_equal. cbn [lstrip_set mem_c existsb]. change (eqc "("%char "("%char) with true. cbn [orb]. apply lstrip_set_none. apply HD. reflexivity.
Qed.

(* a version glued to a closing bracket *)
Lemma bracket_split_close incl t : bplain t = true ->
  bracket_split (t ++ [c_cb incl]) = Ok ((if incl then LE else LT), t).
Proof.
  intros B. unfold bplain in B. apply andb_true_iff in B. destruct B as [NE P]. rewrite bracket_split_unfold. cbv zeta.
  assert (NS : forallb (fun c => negb (is_space c)) (t ++ [c_cb incl]) = true).
  { rewrite forallb_app, (plain_nospace t P). destruct incl; reflexivity. }
  rewrite (clean_id _ NS), front_is, rear_is. destruct t as [|c r]; [discriminate|]. cbn [app find fst].
  change (s2l "(") with ["("%char]. change (s2l "[") with ["["%char]. change (s2l ")") with [")"%char]. change (s2l "]") with ["]"%char].
  rewrite !startswith_one.
  assert (C1 : eqc "("%char c = false /\ eqc "["%char c = false).
  { cbn [forallb] in P. apply andb_true_iff in P. destruct (bplain_c_facts c (proj1 P)) as [M _]. unfold mem_c in M. cbn [existsb s2l list_ascii_of_string] in M.
    repeat (apply orb_false_iff in M; destruct M as [? M]). split; rewrite eqc_sym; assumption. }
  destruct C1 as [C1 C2]. rewrite C1, C2. cbn iota.
  change (c :: r ++ [c_cb incl]) with ((c :: r) ++ [c_cb incl]). rewrite !endswith_one.
  assert (LAST : match rev (c :: r) with x :: _ => forall d, mem_c d (s2l "[]()") = true -> mem_c x [d] = false | [] => True end).
  { destruct (rev (c :: r)) as [|x q] eqn:E; [exact I|]. intros d Hd. assert (In x (c :: r)) by (apply in_rev; rewrite E; left; reflexivity).
    pose proof (plain_nobracket (c :: r) d P Hd) as M. unfold mem_c in *. destruct (existsb (eqc x) [d]) eqn:X; [|reflexivity]. cbn [existsb] in X. rewrite orb_false_r in X. apply eqc_eq in X. subst d.
    assert (existsb (eqc x) (c :: r) = true) by (apply existsb_exists; exists x; split; [assumption|apply eqc_refl]). congruence. }
  destruct incl; cbn [c_cb].
  - change (eqc ")"%char "]"%char) with false. change (eqc "]"%char "]"%char) with true. cbn iota. f_equal. f_equal.
    apply rstrip_set_suffix; [reflexivity|]. destruct (rev (c :: r)); [exact I|]. apply LAST. reflexivity.
  - change (eqc ")"%char ")"%char) with true. cbn iota. f_equal. f_equal.
    apply rstrip_set_suffix; [reflexivity|]. destruct (rev (c :: r)); [exact I|]. apply LAST. reflexivity.
Qed.

Lemma bracket_split_close_empty incl : bracket_split [c_cb incl] = Ok ((if incl then LE else LT), []).
Proof. destruct incl; vm_compute; reflexivity. Qed.

Section Item.
Variable V : Type.
Variable vctor : str -> res V.

Definition otext (o : option str) : str := match o with Some t => t | None => [] end.
Definition oplain (o : option str) : bool := match o with Some t => bplain t | None => true end.
Definition obound (o : option str) (op : cop) : res (list (constr V)) :=
  match o with None => Ok [] | Some t => match vctor t with Ok x => Ok [C op x] | Err e => Err e end end.

(* the item "<open><lower>,<upper><close>", either bound possibly missing *)
Theorem snyk_bracket_item (lo hi : option str) (li hi_incl : bool) (cs1 cs2 : list (constr V)) :
  oplain lo = true -> oplain hi = true ->
  obound lo (if li then GE else GT) = Ok cs1 -> obound hi (if hi_incl then LE else LT) = Ok cs2 ->
  snyk_item V vctor (c_ob li :: otext lo ++ c_comma :: otext hi ++ [c_cb hi_incl]) = Ok (cs1 ++ cs2).
Proof.
  intros Pl Ph B1 B2. rewrite snyk_item_go.
  assert (Cl : forallb bplain_c (otext lo) = true) by (destruct lo as [t|]; [unfold oplain, bplain in Pl; apply andb_true_iff in Pl; apply Pl|reflexivity]).
  assert (Ch : forallb bplain_c (otext hi) = true) by (destruct hi as [t|]; [unfold oplain, bplain in Ph; apply andb_true_iff in Ph; apply Ph|reflexivity]).
  set (item := c_ob li :: otext lo ++ c_comma :: otext hi ++ [c_cb hi_incl]).
  assert (M : mem_c c_comma item = true).
  { unfold item, mem_c. cbn [existsb]. rewrite existsb_app. cbn [existsb]. rewrite eqc_refl, !orb_true_r. reflexivity. }
  assert (NS : forallb (fun c => negb (is_space c)) item = true).
  { unfold item. cbn [forallb]. rewrite forallb_app. cbn [forallb]. rewrite forallb_app, (plain_nospace _ Cl), (plain_nospace _ Ch). destruct li, hi_incl; reflexivity. }
  assert (SW : strip_ws item = item).
  { pose proof (clean_id item NS) as K. rewrite (remove_spaces_none _ NS) in K. exact K. }
  assert (RS : replace_space item = item).
  { unfold replace_space. apply filter_all. rewrite forallb_forall in *. intros x Hx. specialize (NS x Hx). apply negb_true_iff in NS. apply negb_true_iff.
    destruct (eqc x c_space) eqn:E; [|reflexivity]. apply eqc_eq in E. subst x. vm_compute in NS. discriminate. }
  rewrite M, SW, RS.
  assert (NC : forall t, forallb bplain_c t = true -> mem_c c_comma t = false).
  { intros t H. unfold mem_c. destruct (existsb (eqc c_comma) t) eqn:E; [|reflexivity]. apply existsb_exists in E. destruct E as [x [Hx Ex]].
    rewrite forallb_forall in H. destruct (bplain_c_facts x (H x Hx)) as [_ [C _]]. rewrite eqc_sym in Ex. congruence. }
  assert (SP : split_c c_comma item = [c_ob li :: otext lo; otext hi ++ [c_cb hi_incl]]).
  { unfold item. change (c_ob li :: otext lo ++ c_comma :: otext hi ++ [c_cb hi_incl]) with ((c_ob li :: otext lo) ++ c_comma :: otext hi ++ [c_cb hi_incl]).
    rewrite split_app_sep; [|unfold mem_c in *; cbn [existsb]; rewrite (NC _ Cl); destruct li; reflexivity].
    rewrite split_no_sep; [reflexivity|]. unfold mem_c in *. rewrite existsb_app. cbn [existsb]. rewrite (NC _ Ch). destruct hi_incl; reflexivity. }
  rewrite SP. cbn [snyk_go].
  assert (HB1 : has_bracket (c_ob li :: otext lo) = true) by (destruct li; reflexivity).
  assert (HB2 : has_bracket (otext hi ++ [c_cb hi_incl]) = true).
  { unfold has_bracket. rewrite existsb_app. cbn [existsb]. destruct hi_incl; cbn; rewrite orb_true_r; reflexivity. }
  rewrite HB1, HB2, (bracket_split_open li (otext lo) Cl).
  assert (CL : bracket_split (otext hi ++ [c_cb hi_incl]) = Ok ((if hi_incl then LE else LT), otext hi)).
  { destruct hi as [t|]; [apply bracket_split_close; exact Ph|apply bracket_split_close_empty]. }
  rewrite CL.
  destruct lo as [a|], hi as [b|]; cbn [otext obound is_empty] in *.
  - unfold bplain in Pl, Ph. destruct a as [|a0 ar]; [discriminate|]. destruct b as [|b0 br]; [discriminate|]. cbn [is_empty].
    destruct (vctor (a0 :: ar)) as [x|e]; [|discriminate]. destruct (vctor (b0 :: br)) as [y|e]; [|discriminate]. inversion B1; inversion B2; subst. reflexivity.
  - unfold bplain in Pl. destruct a as [|a0 ar]; [discriminate|]. cbn [is_empty]. destruct (vctor (a0 :: ar)) as [x|e]; [|discriminate]. inversion B1; inversion B2; subst. reflexivity.
  - unfold bplain in Ph. destruct b as [|b0 br]; [discriminate|]. cbn [is_empty]. destruct (vctor (b0 :: br)) as [y|e]; [|discriminate]. inversion B1; inversion B2; subst. reflexivity.
  - inversion B1; inversion B2; subst. reflexivity.
Qed.
End Item.
