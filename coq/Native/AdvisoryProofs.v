(* C15: the prefix splitter returns the comparator and version an expression states,
   for every comparator spelling of a table whose order passes a finite check. *)
From Coq Require Import List Bool Arith Ascii String NArith Lia.
From UV.Base Require Import Order Cop Res ListAux.
From UV.Gen Require Import Tables.
From UV.Py Require Import PyStr.
From UV.Vers Require Import Model VersText ContainsProofs SortProofs TextProofs.
From UV.Native Require Import Advisory.
Import ListNotations.
Local Open Scope list_scope.

(* the characters comparator spellings are made of *)
Definition cmp_chars : str := s2l "<>=!~".
Definition is_cmp_char (c : ascii) : bool := mem_c c cmp_chars.
Definition key_ok (k : string) : bool := forallb is_cmp_char (s2l k) && negb (is_empty (s2l k)).
Definition keys_ok (T : ctable) : bool := forallb (fun p => key_ok (fst p)) T.

(* a version text: starts with a character that no comparator contains, has no whitespace *)
Definition vplain (v : str) : bool :=
  match v with c :: _ => negb (is_cmp_char c) | [] => false end && forallb (fun c => negb (is_space c)) v.

Lemma startswith_nil s : startswith s [] = true.
Proof. destruct s; reflexivity. Qed.

Lemma startswith_app_plain k' k v : forallb is_cmp_char k' = true ->
  match v with c :: _ => is_cmp_char c = false | [] => True end ->
  startswith (k ++ v) k' = startswith k k'.
Proof.
  intros Hk Hv. revert k. induction k' as [|c' r' IH]; intros k.
  - rewrite !startswith_nil. reflexivity.
  - cbn [forallb] in Hk. apply andb_true_iff in Hk. destruct Hk as [Hc Hr].
    destruct k as [|x k0].
    + cbn [app]. destruct v as [|y v0]; [reflexivity|]. cbn [startswith].
      destruct (eqc c' y) eqn:E; [|reflexivity]. apply eqc_eq in E. subst y. rewrite Hc in Hv. discriminate.
    + cbn [app startswith]. destruct (eqc c' x); [|reflexivity]. cbn [andb]. apply (IH Hr).
Qed.

Lemma first_prefix_app_plain : forall (T : ctable) k v, keys_ok T = true ->
  match v with c :: _ => is_cmp_char c = false | [] => True end ->
  first_prefix T (k ++ v) = first_prefix T k.
Proof.
  induction T as [|[k' val] r IH]; intros k v HT Hv; [reflexivity|].
  cbn [keys_ok forallb fst] in HT. apply andb_true_iff in HT. destruct HT as [Hk' Hr].
  unfold key_ok in Hk'. apply andb_true_iff in Hk'. destruct Hk' as [Hk' _].
  cbn [first_prefix]. rewrite (startswith_app_plain (s2l k') k v Hk' Hv).
  destruct (startswith k (s2l k')); [reflexivity|]. apply IH; assumption.
Qed.

Lemma lstrip_set_app_all : forall cs k v, forallb (fun c => mem_c c cs) k = true ->
  match v with c :: _ => mem_c c cs = false | [] => True end -> lstrip_set cs (k ++ v) = v.
Proof. intros cs k v Hk Hv. apply lstrip_set_prefix; assumption. Qed.

(* the finite check on one spelling k of a table: the first entry that matches k strips all of k
   (lstrip removes a character SET) and carries the value listed for k *)
Definition opt_cop_eqb (a b : option cop) : bool :=
  match a, b with None, None => true | Some x, Some y => cop_eqb x y | _, _ => false end.
Definition spelling_ok (T : ctable) (k : string) : bool :=
  match first_prefix T (s2l k), lookup_table T (s2l k) with
  | Some (k', val), Some want =>
      forallb (fun c => mem_c c k') (s2l k) && forallb is_cmp_char k' && opt_cop_eqb val want
  | _, _ => false
  end.
Definition table_ok (T : ctable) : bool := keys_ok T && forallb (fun p => spelling_ok T (fst p)) T.

Lemma opt_cop_eqb_eq a b : opt_cop_eqb a b = true -> a = b.
Proof. destruct a, b; cbn; try discriminate; auto. intros H. apply cop_eqb_eq in H. congruence. Qed.

Lemma remove_spaces_key_value k v : forallb is_cmp_char k = true -> forallb (fun c => negb (is_space c)) v = true ->
  remove_spaces (k ++ v) = k ++ v.
Proof.
  intros Hk Hv. apply remove_spaces_none. rewrite forallb_app, Hv, andb_true_r.
  apply forallb_forall. intros c Hc. rewrite forallb_forall in Hk. specialize (Hk c Hc).
  unfold is_cmp_char, cmp_chars, mem_c in Hk. cbn in Hk.
  repeat (apply orb_true_iff in Hk; destruct Hk as [Hk|Hk]); try discriminate; apply eqc_eq in Hk; subst c; reflexivity.
Qed.

(* the splitter on "<spelling><version>" (after any amount of inserted whitespace) *)
Theorem split_req_rendered : forall (T : ctable) (d : option cop) (k : string) (want : option cop) (v w : str),
  keys_ok T = true -> spelling_ok T k = true -> lookup_table T (s2l k) = Some want ->
  vplain v = true -> ws_variant (s2l k ++ v) w ->
  split_req T d [] w = Ok (want, v).
Proof.
  intros T d k want v w HT Hk Hl Hv Hw.
  unfold vplain in Hv. apply andb_true_iff in Hv. destruct Hv as [Hv1 Hv2].
  assert (Hv1' : match v with c :: _ => is_cmp_char c = false | [] => True end).
  { destruct v as [|c r]; [exact I|]. apply negb_true_iff in Hv1. exact Hv1. }
  unfold spelling_ok in Hk. rewrite Hl in Hk.
  destruct (first_prefix T (s2l k)) as [[k' val]|] eqn:F; [|discriminate].
  apply andb_true_iff in Hk. destruct Hk as [Hk Hval]. apply andb_true_iff in Hk. destruct Hk as [Hall Hk'].
  apply opt_cop_eqb_eq in Hval. subst val.
  assert (Kc : forallb is_cmp_char (s2l k) = true).
  { apply forallb_forall. intros c Hc. rewrite forallb_forall in Hall, Hk'. specialize (Hall c Hc).
    unfold mem_c in Hall. apply existsb_exists in Hall. destruct Hall as [y [Hy E]]. apply eqc_eq in E. subst y. apply Hk'. exact Hy. }
  unfold split_req. rewrite (remove_spaces_ws _ _ Hw), (remove_spaces_key_value _ _ Kc Hv2).
  change (strip_set [] (s2l k ++ v)) with (rstrip_set [] (lstrip_set [] (s2l k ++ v))).
  assert (S0 : forall s, strip_set [] s = s).
  { intros s. unfold strip_set, rstrip_set. assert (L : forall t, lstrip_set [] t = t) by (intros t; destruct t; reflexivity).
    rewrite !L. apply rev_involutive. }
  fold (strip_set [] (s2l k ++ v)). rewrite S0.
  rewrite (first_prefix_app_plain T (s2l k) v HT Hv1'), F. f_equal. f_equal.
  apply lstrip_set_app_all; [exact Hall|].
  destruct v as [|c r]; [exact I|]. destruct (mem_c c k') eqn:M; [|reflexivity].
  unfold mem_c in M. apply existsb_exists in M. destruct M as [y [Hy E]]. apply eqc_eq in E. subst y.
  rewrite forallb_forall in Hk'. rewrite (Hk' c Hy) in Hv1'. discriminate.
Qed.

(* the finite checks, re-run against the live tables on every run *)
Theorem github_table_ok : table_ok github_table = true.
Proof. vm_compute. reflexivity. Qed.
Theorem snyk_table_ok : table_ok snyk_table = true.
Proof. vm_compute. reflexivity. Qed.
Theorem native_tables_ok : forallb (fun p => table_ok (snd p)) native_tables = true.
Proof. vm_compute. reflexivity. Qed.

(* ---- GitHub notation ------------------------------------------------------------------ *)
Section Github.
Variable V : Type.
Variable cmp : V -> V -> comparison.
Variable vctor : str -> res V.

(* one clause "<spelling> <version>" with whitespace anywhere *)
Theorem github_constraint_rendered : forall (k : string) (o : cop) (v w : str) (x : V),
  lookup_table github_table (s2l k) = Some (Some o) -> In k (map fst github_table) ->
  vplain v = true -> vctor v = Ok x -> ws_variant (s2l k ++ v) w ->
  github_constraint V vctor w = Ok (C o x).
Proof.
  intros k o v w x Hl Hin Hv Hx Hw. unfold github_constraint.
  assert (HT : keys_ok github_table = true) by (vm_compute; reflexivity).
  assert (Hs : spelling_ok github_table k = true).
  { pose proof github_table_ok as G. unfold table_ok in G. apply andb_true_iff in G. destruct G as [_ G].
    rewrite forallb_forall in G. apply in_map_iff in Hin. destruct Hin as [[k0 v0] [E Hin]]. cbn in E. subst k0.
    apply (G _ Hin). }
  rewrite (split_req_rendered github_table None k (Some o) v w HT Hs Hl Hv Hw).
  unfold mk_constraint. rewrite Hx. reflexivity.
Qed.

(* a comma-separated list of clauses converts to exactly the constraints it states (then sorted by the range) *)
Theorem github_range_rendered : forall (pieces : list str) (cs : list (constr V)),
  pieces <> [] -> Forall (fun w => mem_c c_comma w = false) pieces ->
  Forall2 (fun w c => github_constraint V vctor w = Ok c) pieces cs ->
  github_range V cmp vctor [join_c c_comma pieces] = sort_c V cmp cs.
Proof.
  intros pieces cs Hne Hnc HF. unfold github_range. cbn [flat_map]. rewrite app_nil_r.
  rewrite (split_join c_comma pieces Hne Hnc).
  assert (M : mapM (github_constraint V vctor) pieces = Ok cs).
  { clear Hne Hnc. induction HF as [|w c ws cs' H1 HF IH]; [reflexivity|]. cbn [mapM]. rewrite H1, IH. reflexivity. }
  rewrite M. reflexivity.
Qed.
End Github.
