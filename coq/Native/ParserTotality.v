(* C16 for the modelled native parsers: every error they return is a declared one (ValueError, or the error of the
   version constructor), and the fuel of the bracket-notation loop is never exhausted. *)
From Coq Require Import List Bool Arith Ascii String NArith Lia.
From UV.Base Require Import Order Cop Res.
From UV.Gen Require Import Tables.
From UV.Py Require Import PyStr.
From UV.Vers Require Import Model VersText.
From UV.Schemes Require Import Common Generic Semver TotalityProofs.
From UV.Native Require Import Advisory MavenRange Relations Nginx.
Import ListNotations.
Local Open Scope list_scope.

(* ---- bracket notation -------------------------------------------------------------------------------------------- *)
Section Bracket.
Variable mcmp : str -> str -> comparison.

Lemma find_c_lt c : forall s n, find_c c s = Some n -> n < List.length s.
Proof.
  induction s as [|x r IH]; intros n H; cbn [find_c] in H; [discriminate|]. destruct (eqc x c); [inversion H; cbn; lia|].
  destruct (find_c c r) as [m|] eqn:E; [|discriminate]. inversion H; subst. specialize (IH m eq_refl). cbn. lia.
Qed.
Lemma find_close_lt spec k : find_close spec = Some k -> k < List.length spec.
Proof.
  unfold find_close. destruct (find_c c_rbr spec) as [i|] eqn:E1, (find_c c_rpar spec) as [e|] eqn:E2; intros H; try discriminate.
  - destruct (Nat.ltb e i); inversion H; subst; [apply (find_c_lt _ _ _ E2)|apply (find_c_lt _ _ _ E1)].
  - inversion H; subst. apply (find_c_lt _ _ _ E1).
  - inversion H; subst. apply (find_c_lt _ _ _ E2).
Qed.

Lemma restriction_errors spec e : spec <> [] -> restriction mcmp spec = Err e -> e = EValue.
Proof.
  unfold restriction. destruct spec as [|c0 r]; [congruence|]. intros _.
  destruct (mem_c c_comma (strip_ws (removelast (tl (c0 :: r))))).
  - destruct (split_c c_comma (strip_ws (removelast (tl (c0 :: r))))) as [|l [|u [|x t]]]; try (intros H; inversion H; reflexivity).
    destruct (negb (is_empty l) && eqs l u); [intros H; inversion H; reflexivity|].
    destruct (is_empty l), (is_empty u); try (intros H; discriminate).
    destruct (m_lt mcmp u l); intros H; [inversion H; reflexivity|discriminate].
  - destruct (negb (eqc c0 c_lbr) || negb (eqc (last (c0 :: r) c0) c_rbr)); intros H; [inversion H; reflexivity|discriminate].
Qed.

(* the loop never runs out of fuel and fails only with ValueError *)
Lemma vr_loop_errors : forall fuel spec upper acc e, List.length spec < fuel -> vr_loop mcmp fuel spec upper acc = Err e -> e = EValue.
Proof.
  induction fuel as [|f IH]; intros spec upper acc e L H; [lia|]. cbn [vr_loop] in H.
  destruct (startswith spec [c_lpar] || startswith spec [c_lbr]); [|discriminate].
  destruct (find_close spec) as [k|] eqn:FC; [|inversion H; reflexivity].
  pose proof (find_close_lt spec k FC) as Kl.
  destruct (restriction mcmp (firstn (S k) spec)) as [r|e'] eqn:R.
  - destruct (match upper with Some u => match r_lo r with None => true | Some l => m_lt mcmp l u end | None => false end); [inversion H; reflexivity|].
    assert (SK : List.length (skipn (S k) spec) < f) by (rewrite skipn_length; lia).
    destruct (skipn (S k) spec) as [|c t] eqn:E.
    + eapply IH; [|exact H]. exact SK.
    + destruct (eqc c c_comma); [eapply IH; [|exact H]; cbn in SK; lia|eapply IH; [|exact H]; exact SK].
  - inversion H; subst. apply (restriction_errors (firstn (S k) spec) e); [|exact R].
    destruct spec; [cbn in Kl; lia|cbn; discriminate].
Qed.

Theorem restrictions_errors spec e : restrictions mcmp spec = Err e -> e = EValue.
Proof.
  unfold restrictions. destruct (vr_loop mcmp (S (List.length spec)) spec None []) as [[rs rest]|e'] eqn:V.
  - destruct rest; [discriminate|]. destruct rs; [discriminate|]. intros H. inversion H. reflexivity.
  - intros H. inversion H; subst. apply (vr_loop_errors _ _ _ _ _ (Nat.lt_succ_diag_r _) V).
Qed.

Section Build.
Variable V : Type.
Variable mk : str -> res V.
Variable mk_errors : err -> Prop.
Hypothesis mk_declared : forall t e, mk t = Err e -> mk_errors e.

Lemma restr_constraints_errors r e : restr_constraints mcmp V mk r = Err e -> mk_errors e.
Proof.
  unfold restr_constraints. destruct (bounds_equal mcmp r).
  - destruct (mk (opt_text (r_lo r))) eqn:E; [discriminate|]. intros H. inversion H; subst. apply (mk_declared _ _ E).
  - destruct (r_lo r) as [a|].
    + destruct (mk a) eqn:Ea; [|intros H; inversion H; subst; apply (mk_declared _ _ Ea)].
      destruct (r_hi r) as [b|]; [|discriminate]. destruct (mk b) eqn:Eb; [discriminate|]. intros H. inversion H; subst. apply (mk_declared _ _ Eb).
    + destruct (r_hi r) as [b|]; [|discriminate]. destruct (mk b) eqn:Eb; [discriminate|]. intros H. inversion H; subst. apply (mk_declared _ _ Eb).
Qed.
Lemma all_constraints_errors : forall rs e, all_constraints mcmp V mk rs = Err e -> mk_errors e.
Proof.
  induction rs as [|r t IH]; intros e H; cbn [all_constraints] in H; [discriminate|].
  destruct (restr_constraints mcmp V mk r) as [cs|e'] eqn:R; [|inversion H; subst; apply (restr_constraints_errors r e R)].
  destruct (all_constraints mcmp V mk t) as [ds|e'] eqn:A; [discriminate|]. inversion H; subst. apply (IH e eq_refl).
Qed.

(* MavenVersionRange.from_native / NugetVersionRange.from_native: a value, a ValueError, or the constructor's error *)
Theorem maven_native_declared s e : maven_native mcmp V mk s = Err e -> e = EValue \/ mk_errors e.
Proof.
  unfold maven_native. destruct (restrictions mcmp (filter (fun c => negb (eqc c c_space)) s)) as [rs|e'] eqn:R.
  - intros H. right. apply (all_constraints_errors rs e H).
  - intros H. inversion H; subst. left. apply (restrictions_errors _ _ R).
Qed.
End Build.
End Bracket.

(* ---- relationship strings, nginx, openssl ------------------------------------------------------------------------ *)
Theorem relation_declared (V : Type) (vctor : str -> res V) (T : ctable) (strip s : str) (e : err) :
  relation_constraint V vctor T strip s = Err e -> e = EValue \/ exists t, vctor t = Err e.
Proof.
  unfold relation_constraint. destruct (split_req T None strip s) as [[c v]|e'] eqn:S.
  - unfold mk_constraint. destruct (vctor v) eqn:E; [destruct c; [discriminate|intros H; inversion H; left; reflexivity]|].
    intros H. inversion H; subst. right. exists v. exact E.
  - intros H. inversion H; subst. left. unfold split_req in S. destruct (first_prefix T (strip_set strip (remove_spaces s))) as [[k o]|]; [discriminate|].
    cbn in S. inversion S. reflexivity.
Qed.

Lemma concatM_errors {A} (P : err -> Prop) : forall (l : list (res (list A))) e, Forall (fun r => forall e', r = Err e' -> P e') l -> concatM l = Err e -> P e.
Proof.
  induction l as [|x r IH]; intros e F H; cbn [concatM] in H; [discriminate|]. inversion F as [|? ? Fx Fr]; subst.
  destruct x as [y|e']; [|inversion H; subst; apply Fx; reflexivity].
  destruct (concatM r) as [z|e'] eqn:C; [discriminate|]. inversion H; subst. apply (IH e Fr eq_refl).
Qed.
Theorem nginx_native_declared s e : nginx_native s = Err e -> e = EInvalidVersion.
Proof.
  unfold nginx_native. destruct (eqs (lower (remove_spaces s)) (s2l "all")); [discriminate|].
  apply (concatM_errors (fun e => e = EInvalidVersion)). apply Forall_forall. intros r Hr e' Er. apply in_map_iff in Hr. destruct Hr as [c [<- _]].
  unfold nginx_clause in Er.
  destruct (mem_c c_dash c).
  - destruct (partition_c c_dash c) as [[a f] b]. destruct (semver_ctor a) eqn:Ea; [|inversion Er; subst; apply (semver_ctor_declared _ _ Ea)].
    destruct (semver_ctor b) eqn:Eb; [discriminate|]. inversion Er; subst. apply (semver_ctor_declared _ _ Eb).
  - destruct (mem_c c_plusn c).
    + destruct (semver_ctor (rstrip_set [c_plusn] c)) as [v|] eqn:Ev; [|inversion Er; subst; apply (semver_ctor_declared _ _ Ev)].
      destruct (is_stable v); [|discriminate]. destruct (semver_ctor (semver_str (next_minor v))) eqn:En; [discriminate|]. inversion Er; subst. apply (semver_ctor_declared _ _ En).
    + destruct (semver_ctor c) eqn:Ec; [discriminate|]. inversion Er; subst. apply (semver_ctor_declared _ _ Ec).
Qed.
