(* C06, the abstract part: native range expressions of the flat fragment (alternatives that are one exact version or
   one interval with exclusions inside) over any version type with a total preorder; the native matching rule
   (a version matches when some alternative accepts it); the constraints a converter emits for them; and the theorem
   that the C04 denotation of those constraints is exactly the native match when the alternatives are given in
   ascending order and are pairwise disjoint. *)
From Coq Require Import List Bool Arith Lia.
From UV.Base Require Import Order Cop Res ListAux.
From UV.Gen Require Import Tables.
From UV.Vers Require Import Model Spec.
Import ListNotations.

Section Intervals.
Variable V : Type.
Variable cmp : V -> V -> comparison.
Hypothesis T : TPO cmp.
Notation constr := (constr V).
Notation eqb := (eqb V cmp).
Notation den := (den V cmp).
Notation den_bounds := (den_bounds V cmp).
Notation bounds := (bounds V).
Notation admits := (admits V cmp).

(* a bound: its version and whether the version itself is accepted *)
Record ival := { lo : option (V * bool); hi : option (V * bool); excl : list V }.
Inductive alt := AExact (v : V) | AIval (i : ival).

(* ---- the native matching rule ---------------------------------------------------------------------------- *)
Definition above (b : V * bool) (p : V) : bool := match cmp p (fst b) with Gt => true | Eq => snd b | Lt => false end.
Definition below (b : V * bool) (p : V) : bool := match cmp p (fst b) with Lt => true | Eq => snd b | Gt => false end.
Definition opt_all (f : V * bool -> V -> bool) (o : option (V * bool)) (p : V) : bool :=
  match o with Some b => f b p | None => true end.
Definition amatch (p : V) (a : alt) : bool :=
  match a with
  | AExact v => eqb p v
  | AIval i => opt_all above (lo i) p && opt_all below (hi i) p && negb (existsb (eqb p) (excl i))
  end.
Definition nmatch (e : list alt) (p : V) : bool := existsb (amatch p) e.

(* ---- what a converter emits ---------------------------------------------------------------------------------- *)
Definition lo_c (b : V * bool) : constr := C (if snd b then GE else GT) (fst b).
Definition hi_c (b : V * bool) : constr := C (if snd b then LE else LT) (fst b).
Definition opt_list {A B} (f : A -> B) (o : option A) : list B := match o with Some x => [f x] | None => [] end.
Definition acs (a : alt) : list constr :=
  match a with
  | AExact v => [C EQ v]
  | AIval i => opt_list lo_c (lo i) ++ map (C NE) (excl i) ++ opt_list hi_c (hi i)
  end.
Definition to_constraints (e : list alt) : list constr := concat (map acs e).

(* ---- the side conditions: ascending, disjoint, flat ---------------------------------------------------------- *)
Definition ver (c : constr) : option V := match c with C _ x => Some x | Star => None end.
Definition c_before (a b : constr) : Prop := match a, b with C _ x, C _ y => cmp x y = Lt | _, _ => False end.
(* every version of the first list is strictly before every version of the second *)
Definition all_before (l1 l2 : list constr) : Prop := forall a b, In a l1 -> In b l2 -> c_before a b.

Definition has_lo (a : alt) : bool := match a with AExact _ => true | AIval i => match lo i with Some _ => true | None => false end end.
Definition has_hi (a : alt) : bool := match a with AExact _ => true | AIval i => match hi i with Some _ => true | None => false end end.
Definition proper (a : alt) : bool := match a with AExact _ => true | AIval i => match lo i, hi i with None, None => false | _, _ => true end end.

(* the alternatives in ascending order: only the first may be open below, only the last open above *)
Fixpoint separated (e : list alt) : Prop :=
  match e with
  | [] => True
  | a :: rest =>
      proper a = true
      /\ all_before (acs a) (to_constraints rest)
      /\ (rest <> [] -> has_hi a = true)
      /\ Forall (fun b => has_lo b = true) rest
      /\ separated rest
  end.

(* a boolean test for all_before, for concrete expressions *)
Definition c_before_b (a b : constr) : bool := match a, b with C _ x, C _ y => Model.ltb V cmp x y | _, _ => false end.
Lemma all_before_dec l1 l2 : forallb (fun a => forallb (c_before_b a) l2) l1 = true -> all_before l1 l2.
Proof.
  intros H a b Ia Ib. rewrite forallb_forall in H. specialize (H a Ia). rewrite forallb_forall in H. specialize (H b Ib).
  destruct a as [|o x], b as [|o2 y]; cbn in *; try discriminate. unfold Model.ltb in H. destruct (cmp x y); [discriminate|reflexivity|discriminate].
Qed.

(* ---- one alternative ------------------------------------------------------------------------------------------ *)
Lemma bounds_app (l1 l2 : list constr) : bounds (l1 ++ l2) = bounds l1 ++ bounds l2.
Proof. apply filter_app. Qed.
Lemma bounds_ne l : bounds (map (C NE) l) = [].
Proof. induction l as [|x r IH]; cbn; [reflexivity|exact IH]. Qed.
Lemma existsb_ne_at p l : existsb (fun c => c_ne V c && at_ver V cmp p c) (map (C NE) l) = existsb (eqb p) l.
Proof. induction l as [|x r IH]; cbn; [reflexivity|]. rewrite IH. reflexivity. Qed.
Lemma existsb_eq_ne p l : existsb (fun c => c_eq V c && at_ver V cmp p c) (map (C NE) l) = false.
Proof. induction l as [|x r IH]; cbn; [reflexivity|exact IH]. Qed.

Lemma admits_lo b p : admits (lo_c b) p = above b p.
Proof. destruct b as [x i]. unfold lo_c, above, Spec.admits. cbn [fst snd]. destruct i, (cmp p x); reflexivity. Qed.
Lemma admits_hi b p : admits (hi_c b) p = below b p.
Proof. destruct b as [x i]. unfold hi_c, below, Spec.admits. cbn [fst snd]. destruct i, (cmp p x); reflexivity. Qed.
Lemma lo_c_lower b : c_lower V (lo_c b) = true /\ c_upper V (lo_c b) = false /\ c_eq V (lo_c b) = false /\ c_ne V (lo_c b) = false.
Proof. destruct b as [x i]. destruct i; cbn; auto. Qed.
Lemma hi_c_upper b : c_upper V (hi_c b) = true /\ c_lower V (hi_c b) = false /\ c_eq V (hi_c b) = false /\ c_ne V (hi_c b) = false.
Proof. destruct b as [x i]. destruct i; cbn; auto. Qed.

(* the parts of den on the constraints of one alternative *)
Definition eq_part (cs : list constr) (p : V) : bool := existsb (fun c => c_eq V c && at_ver V cmp p c) cs.
Definition ne_part (cs : list constr) (p : V) : bool := existsb (fun c => c_ne V c && at_ver V cmp p c) cs.
Definition mixed (cs : list constr) : Prop := existsb (fun c => negb (c_ne V c)) cs = true /\ existsb (is_star V) cs = false.

Lemma den_mixed cs p : mixed cs -> den cs p = (den_bounds (bounds cs) p || eq_part cs p) && negb (ne_part cs p).
Proof.
  intros [M S]. unfold Spec.den.
  assert (F : forallb (c_ne V) cs = false).
  { apply existsb_exists in M. destruct M as [c [I N]]. apply negb_true_iff in N.
    destruct (forallb (c_ne V) cs) eqn:E; [|reflexivity]. rewrite forallb_forall in E. rewrite (E c I) in N. discriminate. }
  rewrite F, andb_false_r.
  destruct cs as [|c r]; [reflexivity|]. destruct c as [|o x]; [cbn in S; discriminate|]. destruct r; reflexivity.
Qed.


Lemma eq_part_app l1 l2 p : eq_part (l1 ++ l2) p = eq_part l1 p || eq_part l2 p.
Proof. apply existsb_app. Qed.
Lemma ne_part_app l1 l2 p : ne_part (l1 ++ l2) p = ne_part l1 p || ne_part l2 p.
Proof. apply existsb_app. Qed.

Lemma no_star_acs a : existsb (is_star V) (acs a) = false.
Proof.
  destruct a as [v|[l h x]]; [reflexivity|]. cbn [acs lo hi excl]. rewrite !existsb_app.
  assert (X : existsb (is_star V) (map (C NE) x) = false) by (induction x as [|y r IH]; cbn; auto).
  rewrite X. destruct l as [[? []]|], h as [[? []]|]; reflexivity.
Qed.
Lemma acs_mixed a : proper a = true -> mixed (acs a).
Proof.
  intros P. split; [|apply no_star_acs].
  destruct a as [v|[l h x]]; [reflexivity|]. cbn [acs lo hi excl]. cbn in P. apply existsb_exists.
  destruct l as [b|].
  - exists (lo_c b). split; [left; reflexivity|]. destruct (lo_c_lower b) as [_ [_ [_ N]]]. rewrite N. reflexivity.
  - destruct h as [b|]; [|discriminate]. exists (hi_c b). split; [cbn [opt_list app]; apply in_or_app; right; left; reflexivity|].
    destruct (hi_c_upper b) as [_ [_ [_ N]]]. rewrite N. reflexivity.
Qed.

Theorem den_alt a p : proper a = true -> den (acs a) p = amatch p a.
Proof.
  intros P. rewrite (den_mixed _ p (acs_mixed a P)).
  destruct a as [v|[l h x]].
  - cbn. unfold Model.eqb. destruct (cmp p v); reflexivity.
  - cbn [acs lo hi excl amatch]. rewrite !bounds_app, bounds_ne. cbn [app].
    unfold eq_part, ne_part. rewrite !existsb_app, existsb_ne_at, existsb_eq_ne.
    unfold above, below, Spec.den_bounds, den_head, den_last, pair_in, lo_c, hi_c, Spec.admits.
    destruct l as [[x1 i1]|], h as [[x2 i2]|]; try discriminate; cbn [opt_list opt_all app existsb fst snd].
    + destruct i1, i2; cbn; destruct (cmp p x1), (cmp p x2); cbn; rewrite ?orb_false_r; reflexivity.
    + destruct i1; cbn; destruct (cmp p x1); cbn; rewrite ?orb_false_r, ?andb_true_r; reflexivity.
    + destruct i2; cbn; destruct (cmp p x2); cbn; rewrite ?orb_false_r; reflexivity.
Qed.

(* ---- putting alternatives side by side ------------------------------------------------------------------------ *)
Lemma pairwise_in {A} (a b : A) : forall l, In (a, b) (pairwise l) -> In a l /\ In b l.
Proof.
  induction l as [|x r IH]; cbn; [tauto|]. destruct r as [|y r']; [cbn; tauto|].
  intros [E|I]; [inversion E; subst; split; [left|right; left]; reflexivity|].
  destruct (IH I). split; right; assumption.
Qed.
Lemma last_opt_in {A} (b : A) : forall l, last_opt l = Some b -> In b l.
Proof.
  induction l as [|x r IH]; cbn; [discriminate|]. destruct r; [intros E; inversion E; left; reflexivity|].
  intros E. right. apply IH. exact E.
Qed.

Definition p_below (p : V) (c : constr) : Prop := match c with C _ x => cmp p x = Lt | Star => False end.
Definition p_above (p : V) (c : constr) : Prop := match c with C _ x => cmp p x = Gt | Star => False end.

Lemma lower_not_admits_below p c : p_below p c -> c_lower V c && admits c p = false.
Proof. destruct c as [|o x]; cbn; [tauto|]. intros H. rewrite H. destruct o; reflexivity. Qed.
Lemma upper_not_admits_above p c : p_above p c -> c_upper V c && admits c p = false.
Proof. destruct c as [|o x]; cbn; [tauto|]. intros H. rewrite H. destruct o; reflexivity. Qed.

Lemma den_bounds_below bs p : (forall b, In b bs -> p_below p b) ->
  (forall b, hd_error bs = Some b -> c_upper V b = false) -> den_bounds bs p = false.
Proof.
  intros B H. unfold Spec.den_bounds. apply orb_false_iff. split; [apply orb_false_iff; split|].
  - unfold den_head. destruct bs as [|b r]; [reflexivity|]. rewrite (H b eq_refl). reflexivity.
  - unfold den_last. destruct (last_opt bs) as [b|] eqn:E; [|reflexivity].
    apply lower_not_admits_below, B, (last_opt_in b bs E).
  - destruct (existsb (pair_in V cmp p) (pairwise bs)) eqn:E; [|reflexivity].
    apply existsb_exists in E. destruct E as [[a b] [I Q]]. destruct (pairwise_in a b bs I) as [Ia Ib].
    unfold pair_in in Q. cbn [fst snd] in Q. pose proof (lower_not_admits_below p a (B a Ia)) as N.
    destruct (c_lower V a), (admits a p); cbn in *; try discriminate; rewrite ?andb_false_r in Q; discriminate.
Qed.
Lemma den_bounds_above bs p : (forall b, In b bs -> p_above p b) ->
  (forall b, last_opt bs = Some b -> c_lower V b = false) -> den_bounds bs p = false.
Proof.
  intros B H. unfold Spec.den_bounds. apply orb_false_iff. split; [apply orb_false_iff; split|].
  - unfold den_head. destruct bs as [|b r]; [reflexivity|]. apply upper_not_admits_above, B. left. reflexivity.
  - unfold den_last. destruct (last_opt bs) as [b|] eqn:E; [|reflexivity]. rewrite (H b eq_refl). reflexivity.
  - destruct (existsb (pair_in V cmp p) (pairwise bs)) eqn:E; [|reflexivity].
    apply existsb_exists in E. destruct E as [[a b] [I Q]]. destruct (pairwise_in a b bs I) as [Ia Ib].
    unfold pair_in in Q. cbn [fst snd] in Q. pose proof (upper_not_admits_above p b (B b Ib)) as N.
    destruct (c_upper V b), (admits b p), (c_lower V a), (admits a p); cbn in *; discriminate.
Qed.

Lemma pairwise_app {A} : forall (l1 l2 : list A),
  pairwise (l1 ++ l2) = pairwise l1 ++ (match last_opt l1, l2 with Some a, b :: _ => [(a, b)] | _, _ => [] end) ++ pairwise l2.
Proof.
  induction l1 as [|x r IH]; intros l2; [reflexivity|].
  destruct r as [|y r'].
  - cbn. destruct l2; reflexivity.
  - change ((x :: y :: r') ++ l2) with (x :: (y :: r') ++ l2). cbn [pairwise app]. rewrite <- IH. reflexivity.
Qed.
Lemma last_opt_app {A} : forall (l1 l2 : list A), l2 <> [] -> last_opt (l1 ++ l2) = last_opt l2.
Proof.
  induction l1 as [|x r IH]; intros l2 N; [reflexivity|]. cbn [app]. specialize (IH l2 N).
  destruct (r ++ l2) eqn:E; [destruct r; cbn in E; [congruence|discriminate]|]. cbn [last_opt]. exact IH.
Qed.

Lemma den_bounds_app bs1 bs2 p :
  (forall b, last_opt bs1 = Some b -> c_lower V b = false) ->
  (forall b, hd_error bs2 = Some b -> c_upper V b = false) ->
  den_bounds (bs1 ++ bs2) p = den_bounds bs1 p || den_bounds bs2 p.
Proof.
  intros H1 H2.
  destruct bs1 as [|a1 r1].
  { cbn [app]. unfold Spec.den_bounds at 2. cbn. reflexivity. }
  destruct bs2 as [|a2 r2].
  { rewrite app_nil_r. unfold Spec.den_bounds at 3. cbn. rewrite orb_false_r. reflexivity. }
  unfold Spec.den_bounds. rewrite pairwise_app, !existsb_app.
  assert (L1 : den_last V cmp (a1 :: r1) p = false).
  { unfold den_last. destruct (last_opt (a1 :: r1)) as [b|] eqn:E; [|reflexivity]. rewrite (H1 b eq_refl). reflexivity. }
  assert (D2 : den_head V cmp (a2 :: r2) p = false).
  { unfold den_head. rewrite (H2 a2 eq_refl). reflexivity. }
  assert (M : existsb (pair_in V cmp p) (match last_opt (a1 :: r1) with Some a => [(a, a2)] | None => [] end) = false).
  { destruct (last_opt (a1 :: r1)) as [b|] eqn:E; [|reflexivity]. cbn. unfold pair_in. cbn [fst]. rewrite (H1 b eq_refl). reflexivity. }
  assert (DL : den_last V cmp ((a1 :: r1) ++ a2 :: r2) p = den_last V cmp (a2 :: r2) p).
  { unfold den_last. rewrite last_opt_app by discriminate. reflexivity. }
  rewrite DL, L1, D2, M. change (den_head V cmp ((a1 :: r1) ++ a2 :: r2) p) with (den_head V cmp (a1 :: r1) p).
  destruct (den_head V cmp (a1 :: r1) p), (den_last V cmp (a2 :: r2) p), (existsb (pair_in V cmp p) (pairwise (a1 :: r1))),
    (existsb (pair_in V cmp p) (pairwise (a2 :: r2))); reflexivity.
Qed.

Lemma mixed_app_l l1 l2 : mixed l1 -> existsb (is_star V) l2 = false -> mixed (l1 ++ l2).
Proof. intros [M S] S2. split; rewrite existsb_app; [rewrite M; reflexivity|rewrite S, S2; reflexivity]. Qed.

Lemma bounds_in b cs : In b (bounds cs) -> In b cs.
Proof. unfold Spec.bounds. intros H. apply filter_In in H. tauto. Qed.

Lemma at_below p x c : eqb p x = true -> c_before (C NE x) c -> p_below p c.
Proof.
  unfold Model.eqb. destruct (cmp p x) eqn:E; try discriminate. intros _. destruct c as [|o y]; cbn; [tauto|].
  intros L. rewrite (tpo_eq_l _ T _ _ _ E). exact L.
Qed.
Lemma at_above p x c o : eqb p x = true -> c_before c (C o x) -> p_above p c.
Proof.
  unfold Model.eqb. destruct (cmp p x) eqn:E; try discriminate. intros _. destruct c as [|o' y]; cbn; [tauto|].
  intros L. rewrite (tpo_eq_l _ T _ _ _ E). apply (tpo_gt_lt _ T). exact L.
Qed.

Lemma ne_part_witness cs p : ne_part cs p = true -> exists x, In (C NE x) cs /\ eqb p x = true.
Proof.
  unfold ne_part. intros H. apply existsb_exists in H. destruct H as [c [I Q]]. apply andb_true_iff in Q. destruct Q as [N A].
  destruct c as [|o x]; [discriminate|]. destruct o; try discriminate. exists x. split; [exact I|exact A].
Qed.
Lemma eq_part_below cs p : (forall c, In c cs -> p_below p c) -> eq_part cs p = false.
Proof.
  intros B. unfold eq_part. destruct (existsb _ cs) eqn:E; [|reflexivity]. apply existsb_exists in E.
  destruct E as [c [I Q]]. apply andb_true_iff in Q. destruct Q as [_ A]. specialize (B c I).
  destruct c as [|o x]; [contradiction|]. cbn in *. unfold Model.eqb in A. rewrite B in A. discriminate.
Qed.
Lemma eq_part_above cs p : (forall c, In c cs -> p_above p c) -> eq_part cs p = false.
Proof.
  intros B. unfold eq_part. destruct (existsb _ cs) eqn:E; [|reflexivity]. apply existsb_exists in E.
  destruct E as [c [I Q]]. apply andb_true_iff in Q. destruct Q as [_ A]. specialize (B c I).
  destruct c as [|o x]; [contradiction|]. cbn in *. unfold Model.eqb in A. rewrite B in A. discriminate.
Qed.

(* two constraint lists one after the other denote the union of what they denote *)
Theorem den_app cs1 cs2 p :
  mixed cs1 -> mixed cs2 -> all_before cs1 cs2 ->
  (forall b, last_opt (bounds cs1) = Some b -> c_lower V b = false) ->
  (forall b, hd_error (bounds cs2) = Some b -> c_upper V b = false) ->
  den (cs1 ++ cs2) p = den cs1 p || den cs2 p.
Proof.
  intros M1 M2 B H1 H2.
  rewrite (den_mixed _ p M1), (den_mixed _ p M2), (den_mixed _ p (mixed_app_l _ _ M1 (proj2 M2))).
  rewrite bounds_app, (den_bounds_app _ _ p H1 H2), eq_part_app, ne_part_app.
  destruct (ne_part cs1 p) eqn:N1.
  { (* p is an exclusion of the first list: it is below everything in the second *)
    destruct (ne_part_witness _ _ N1) as [x [Ix Ex]].
    assert (Bl : forall c, In c cs2 -> p_below p c) by (intros c Ic; apply (at_below p x c Ex), (B _ _ Ix Ic)).
    rewrite (den_bounds_below (bounds cs2) p (fun b Ib => Bl b (bounds_in b cs2 Ib)) H2), (eq_part_below cs2 p Bl).
    cbn. rewrite !andb_false_r. reflexivity. }
  destruct (ne_part cs2 p) eqn:N2.
  { destruct (ne_part_witness _ _ N2) as [x [Ix Ex]].
    assert (Ab : forall c, In c cs1 -> p_above p c) by (intros c Ic; apply (at_above p x c NE Ex), (B _ _ Ic Ix)).
    rewrite (den_bounds_above (bounds cs1) p (fun b Ib => Ab b (bounds_in b cs1 Ib)) H1), (eq_part_above cs1 p Ab).
    cbn. rewrite !andb_false_r. reflexivity. }
  cbn. rewrite !andb_true_r.
  destruct (den_bounds (bounds cs1) p), (den_bounds (bounds cs2) p), (eq_part cs1 p), (eq_part cs2 p); reflexivity.
Qed.

(* ---- any number of alternatives ------------------------------------------------------------------------------ *)
Lemma no_star_tc e : existsb (is_star V) (to_constraints e) = false.
Proof.
  induction e as [|a r IH]; [reflexivity|]. cbn [to_constraints map concat]. rewrite existsb_app, no_star_acs. exact IH.
Qed.

Lemma mixed_tc e : e <> [] -> Forall (fun a => proper a = true) e -> mixed (to_constraints e).
Proof.
  destruct e as [|a r]; [congruence|]. intros _ F. inversion F; subst. cbn [to_constraints map concat].
  apply mixed_app_l; [apply acs_mixed; assumption|apply no_star_tc].
Qed.

Lemma head_bound_tc e : Forall (fun b => has_lo b = true) e ->
  forall b, hd_error (bounds (to_constraints e)) = Some b -> c_upper V b = false.
Proof.
  induction 1 as [|a r Ha Hr IH]; intros b; cbn [to_constraints map concat]; [cbn; discriminate|].
  rewrite bounds_app. destruct a as [v|[l h x]].
  - cbn [acs Spec.bounds filter]. cbn. exact (IH b).
  - cbn in Ha. destruct l as [b1|]; [|discriminate]. cbn [acs lo hi excl opt_list app].
    destruct (lo_c_lower b1) as [L1 [U1 _]]. cbn [Spec.bounds filter]. unfold c_bound. rewrite L1. cbn.
    intros E. inversion E; subst. exact U1.
Qed.
Lemma last_bound_acs a : has_hi a = true -> forall b, last_opt (bounds (acs a)) = Some b -> c_lower V b = false.
Proof.
  destruct a as [v|[l h x]]; cbn [has_hi hi].
  - intros _ b. cbn. discriminate.
  - destruct h as [b2|]; [|discriminate]. intros _ b. cbn [acs lo hi excl]. rewrite !bounds_app, bounds_ne. cbn [app opt_list].
    destruct (hi_c_upper b2) as [U2 [L2 _]].
    assert (E : bounds [hi_c b2] = [hi_c b2]) by (cbn; unfold c_bound; rewrite U2, L2; reflexivity).
    rewrite E, last_opt_app by discriminate. cbn. intros Q. inversion Q; subst. exact L2.
Qed.

Lemma separated_proper e : separated e -> Forall (fun a => proper a = true) e.
Proof. induction e as [|a r IH]; cbn; [constructor|]. intros [P [_ [_ [_ S]]]]. constructor; auto. Qed.

(* C06: the constraints emitted for a flat native expression denote exactly what the native rule matches *)
Theorem native_conversion_exact : forall e p, separated e -> den (to_constraints e) p = nmatch e p.
Proof.
  induction e as [|a r IH]; intros p S; [reflexivity|].
  cbn [separated] in S. destruct S as [P [B [Hh [Hl S]]]].
  cbn [to_constraints map concat nmatch existsb].
  destruct r as [|a2 r2].
  - cbn [map concat]. rewrite app_nil_r, orb_false_r. apply den_alt. exact P.
  - change (concat (map acs (a2 :: r2))) with (to_constraints (a2 :: r2)).
    rewrite den_app.
    + rewrite (den_alt a p P), (IH p S). reflexivity.
    + apply acs_mixed. exact P.
    + apply mixed_tc; [discriminate|apply separated_proper; exact S].
    + exact B.
    + apply last_bound_acs. apply Hh. discriminate.
    + apply head_bound_tc. exact Hl.
Qed.

End Intervals.
