(* C06 for the nginx advisory notation, parser included: a comma-separated list of clauses "A-B", "V+" and "V" written
   with plain version texts is read as exactly the constraints each clause states (the ones whose denotation
   Native/Shorthand.v proves exact: hyphen_exact, nginx_plus_exact). *)
From Coq Require Import List Bool Arith Ascii String NArith Lia.
From UV.Base Require Import Order Cop Res ListAux.
From UV.Py Require Import PyStr.
From UV.Vers Require Import Model Spec VersText.
From UV.Schemes Require Import Common Generic Semver SemverProofs SemverRoundTrip.
From UV.Native Require Import Advisory Intervals Shorthand Nginx RelationsProofs.
From UV.Ref Require Deb.
Import ListNotations.
Local Open Scope list_scope.

Inductive nclause := NDash (a b : str) | NPlus (v : str) | NPlain (v : str).
Definition clause_text (c : nclause) : str :=
  match c with NDash a b => a ++ c_dash :: b | NPlus v => v ++ [c_plusn] | NPlain v => v end.

(* a version text of the notation: no comma, dash, plus, blank or upper-case letter *)
Definition nplain_c (c : ascii) : bool :=
  negb (eqc c c_comma || eqc c c_dash || eqc c c_plusn) && negb (is_space c) && negb (is_upper c).
Definition nplain (t : str) : bool := forallb nplain_c t.
Definition clause_plain (c : nclause) : bool := match c with NDash a b => nplain a && nplain b | NPlus v | NPlain v => nplain v end.

Lemma nplain_c_facts c : nplain_c c = true ->
  eqc c c_comma = false /\ eqc c c_dash = false /\ eqc c c_plusn = false /\ is_space c = false /\ is_upper c = false.
Proof.
  unfold nplain_c. intros H. apply andb_true_iff in H. destruct H as [H U]. apply andb_true_iff in H. destruct H as [H S].
  apply negb_true_iff in H, S, U. apply orb_false_iff in H. destruct H as [H P]. apply orb_false_iff in H. destruct H as [C D]. auto.
Qed.
Lemma nplain_nomem t d : nplain t = true -> (eqc d c_comma = true \/ eqc d c_dash = true \/ eqc d c_plusn = true) -> mem_c d t = false.
Proof.
  intros H Hd. unfold mem_c. destruct (existsb (eqc d) t) eqn:E; [|reflexivity]. apply existsb_exists in E. destruct E as [x [Hx Ex]].
  unfold nplain in H. rewrite forallb_forall in H. destruct (nplain_c_facts x (H x Hx)) as [A [B [C _]]]. apply eqc_eq in Ex. subst x.
  destruct Hd as [Hd|[Hd|Hd]]; congruence.
Qed.

(* the expected constraints of a clause *)
Definition clause_constraints (c : nclause) : res (list (constr semver)) :=
  match c with
  | NDash a b => match semver_ctor a, semver_ctor b with Ok x, Ok y => Ok [C GE x; C LE y] | Err e, _ => Err e | _, Err e => Err e end
  | NPlus v => match semver_ctor v with Ok x => Ok (nginx_plus x) | Err e => Err e end
  | NPlain v => match semver_ctor v with Ok x => Ok [C EQ x] | Err e => Err e end
  end.

Lemma next_minor_reads_back v : semver_ctor (semver_str (next_minor v)) = Ok (next_minor v).
Proof.
  assert (W : WF (next_minor v)).
  { unfold next_minor, mk. destruct (has_pre v && N.eqb (sv_patch v) 0); split; constructor. }
  unfold semver_ctor. rewrite (printed_normal _ W), (semver_print_parse _ W). reflexivity.
Qed.

Theorem nginx_clause_rendered c : clause_plain c = true -> nginx_clause (clause_text c) = clause_constraints c.
Proof.
  intros P. destruct c as [a b|v|v]; cbn [clause_plain clause_text clause_constraints] in *; unfold nginx_clause.
  - apply andb_true_iff in P. destruct P as [Pa Pb].
    assert (M : mem_c c_dash (a ++ c_dash :: b) = true) by (unfold mem_c; rewrite existsb_app; cbn [existsb]; rewrite eqc_refl, orb_true_r; reflexivity).
    rewrite M, (partition_app_sep c_dash a b (nplain_nomem a c_dash Pa (or_intror (or_introl eq_refl)))).
    destruct (semver_ctor a), (semver_ctor b); reflexivity.
  - assert (M1 : mem_c c_dash (v ++ [c_plusn]) = false).
    { unfold mem_c. rewrite existsb_app. cbn [existsb]. change (eqc c_dash c_plusn) with false. rewrite !orb_false_r.
      apply (nplain_nomem v c_dash P). right. left. reflexivity. }
    assert (M2 : mem_c c_plusn (v ++ [c_plusn]) = true) by (unfold mem_c; rewrite existsb_app; cbn [existsb]; rewrite eqc_refl, orb_true_r; reflexivity).
    rewrite M1, M2.
    assert (R : rstrip_set [c_plusn] (v ++ [c_plusn]) = v).
    { apply rstrip_set_suffix; [reflexivity|]. destruct (rev v) as [|x r] eqn:E; [exact I|].
      assert (Hx : In x v) by (apply in_rev; rewrite E; left; reflexivity).
      unfold nplain in P. rewrite forallb_forall in P. destruct (nplain_c_facts x (P x Hx)) as [_ [_ [C _]]].
      unfold mem_c. cbn [existsb]. rewrite C. reflexivity. }
    rewrite R. destruct (semver_ctor v) as [x|e]; [|reflexivity]. unfold nginx_plus. destruct (is_stable x); [|reflexivity].
    rewrite next_minor_reads_back. reflexivity.
  - rewrite (nplain_nomem v c_dash P (or_intror (or_introl eq_refl))), (nplain_nomem v c_plusn P (or_intror (or_intror eq_refl))). reflexivity.
Qed.

(* the whole expression *)
Lemma clause_text_nocomma c : clause_plain c = true -> mem_c c_comma (clause_text c) = false.
Proof.
  intros P. destruct c as [a b|v|v]; cbn [clause_plain clause_text] in *; unfold mem_c.
  - apply andb_true_iff in P. destruct P as [Pa Pb]. rewrite existsb_app. cbn [existsb]. change (eqc c_comma c_dash) with false.
    fold (mem_c c_comma a). fold (mem_c c_comma b). rewrite (nplain_nomem a c_comma Pa (or_introl eq_refl)), (nplain_nomem b c_comma Pb (or_introl eq_refl)). reflexivity.
  - rewrite existsb_app. cbn [existsb]. change (eqc c_comma c_plusn) with false. fold (mem_c c_comma v). rewrite (nplain_nomem v c_comma P (or_introl eq_refl)). reflexivity.
  - apply (nplain_nomem v c_comma P). left. reflexivity.
Qed.
Lemma clause_text_clean c : clause_plain c = true ->
  forallb (fun x => negb (is_space x)) (clause_text c) = true /\ forallb (fun x => negb (is_upper x)) (clause_text c) = true.
Proof.
  assert (Q : forall t, nplain t = true -> forallb (fun x => negb (is_space x)) t = true /\ forallb (fun x => negb (is_upper x)) t = true).
  { intros t H. unfold nplain in H. split; apply forallb_forall; intros x Hx; rewrite forallb_forall in H; destruct (nplain_c_facts x (H x Hx)) as [_ [_ [_ [S U]]]];
      apply negb_true_iff; assumption. }
  intros P. destruct c as [a b|v|v]; cbn [clause_plain clause_text] in *.
  - apply andb_true_iff in P. destruct P as [Pa Pb]. destruct (Q a Pa) as [A1 A2], (Q b Pb) as [B1 B2].
    rewrite !forallb_app. cbn [forallb]. rewrite A1, A2, B1, B2. split; reflexivity.
  - destruct (Q v P) as [A1 A2]. rewrite !forallb_app. cbn [forallb]. rewrite A1, A2. split; reflexivity.
  - apply Q. exact P.
Qed.

Fixpoint all_constraints (l : list nclause) : res (list (constr semver)) :=
  match l with
  | [] => Ok []
  | c :: r => match clause_constraints c with
              | Ok x => match all_constraints r with Ok y => Ok (x ++ y) | Err e => Err e end
              | Err e => Err e
              end
  end.

Theorem nginx_native_rendered (l : list nclause) (cs : list (constr semver)) :
  l <> [] -> forallb clause_plain l = true -> all_constraints l = Ok cs ->
  nginx_native (join_c c_comma (map clause_text l)) = Ok cs.
Proof.
  intros N P A. unfold nginx_native.
  remember (join_c c_comma (map clause_text l)) as txt eqn:Etxt.
  assert (F : Forall (fun t => forallb (fun x => negb (is_space x)) t = true) (map clause_text l) /\
              Forall (fun t => forallb (fun x => negb (is_upper x)) t = true) (map clause_text l) /\
              Forall (fun t => mem_c c_comma t = false) (map clause_text l)).
  { rewrite forallb_forall in P. repeat split; apply Forall_forall; intros t Ht; apply in_map_iff in Ht; destruct Ht as [c [<- Hc]].
    - apply (clause_text_clean c (P c Hc)). - apply (clause_text_clean c (P c Hc)). - apply (clause_text_nocomma c (P c Hc)). }
  destruct F as [F1 [F2 F3]].
  assert (R : remove_spaces txt = txt) by (subst txt; apply remove_spaces_none; apply (forallb_join _ c_comma eq_refl); exact F1).
  assert (L : lower txt = txt) by (subst txt; apply lower_idem; apply (forallb_join _ c_comma eq_refl); exact F2).
  rewrite R, L.
  assert (S : split_c c_comma txt = map clause_text l).
  { subst txt. apply split_join; [destruct l; [congruence|discriminate]|exact F3]. }
  rewrite S.
  assert (K : concatM (map nginx_clause (map clause_text l)) = all_constraints l).
  { clear N S R L F1 F2 F3 Etxt A. induction l as [|c r IH]; [reflexivity|]. cbn [forallb] in P. apply andb_true_iff in P. destruct P as [Pc Pr].
    cbn [map concatM all_constraints]. rewrite (nginx_clause_rendered c Pc), (IH Pr). destruct (clause_constraints c); reflexivity. }
  rewrite K, A. destruct (eqs txt (s2l "all")) eqn:E; [|reflexivity].
  (* the text "all" is not a list of version clauses: its only clause would be the plain version "all", which does not construct *)
  exfalso. apply eqs_eq in E. rewrite E in S. destruct l as [|c [|c2 r]]; [congruence| |cbn in S; discriminate].
  cbn [map] in S. injection S as S. cbn [forallb] in P. rewrite andb_true_r in P.
  destruct c as [a b|v|v]; cbn [clause_text clause_plain] in *.
  - assert (M : mem_c c_dash (a ++ c_dash :: b) = true) by (unfold mem_c; rewrite existsb_app; cbn [existsb]; rewrite eqc_refl, orb_true_r; reflexivity).
    rewrite <- S in M. vm_compute in M. discriminate.
  - assert (M : mem_c c_plusn (v ++ [c_plusn]) = true) by (unfold mem_c; rewrite existsb_app; cbn [existsb]; rewrite eqc_refl, orb_true_r; reflexivity).
    rewrite <- S in M. vm_compute in M. discriminate.
  - subst v. vm_compute in A. discriminate.
Qed.

(* ---- openssl: a comma-separated list of versions ------------------------------------------------------------------ *)
Theorem openssl_native_rendered {V} (vctor : str -> res V) (vs : list str) :
  vs <> [] -> forallb nplain vs = true ->
  openssl_native vctor (join_c c_comma vs) = mapM (fun t => match vctor t with Ok v => Ok (C EQ v) | Err e => Err e end) vs.
Proof.
  intros N P. unfold openssl_native.
  assert (Q : forall t, nplain t = true -> forallb (fun x => negb (is_space x)) t = true /\ forallb (fun x => negb (is_upper x)) t = true).
  { intros t H. unfold nplain in H. split; apply forallb_forall; intros x Hx; rewrite forallb_forall in H; destruct (nplain_c_facts x (H x Hx)) as [_ [_ [_ [S U]]]];
      apply negb_true_iff; assumption. }
  rewrite forallb_forall in P.
  assert (F1 : Forall (fun t => forallb (fun x => negb (is_space x)) t = true) vs) by (apply Forall_forall; intros t Ht; apply (Q t (P t Ht))).
  assert (F2 : Forall (fun t => forallb (fun x => negb (is_upper x)) t = true) vs) by (apply Forall_forall; intros t Ht; apply (Q t (P t Ht))).
  assert (F3 : Forall (fun t => mem_c c_comma t = false) vs) by (apply Forall_forall; intros t Ht; apply (nplain_nomem t c_comma (P t Ht)); left; reflexivity).
  rewrite (remove_spaces_none _ (forallb_join _ c_comma eq_refl vs F1)), (lower_idem _ (forallb_join _ c_comma eq_refl vs F2)), (split_join c_comma vs N F3).
  reflexivity.
Qed.
