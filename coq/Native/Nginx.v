(* Code-shaped model of NginxVersionRange.from_native (dash ranges, "version+" branches, plain versions, "all") on the
   semver model of NginxVersion, and of OpensslVersionRange.from_native (a comma-separated list of versions). *)
From Coq Require Import List Bool Arith Ascii String NArith.
From UV.Base Require Import Cop Res.
From UV.Py Require Import PyStr.
From UV.Vers Require Import Model VersText.
From UV.Schemes Require Import Common Generic Semver.
From UV.Native Require Import Advisory.
Import ListNotations.
Local Open Scope list_scope.

Definition c_dash : ascii := "-"%char.
Definition c_plusn : ascii := "+"%char.

(* one comma-separated clause *)
Definition nginx_clause (c : str) : res (list (constr semver)) :=
  if mem_c c_dash c then
    let '(start, _, stop) := partition_c c_dash c in
    match semver_ctor start with
    | Err e => Err e
    | Ok a => match semver_ctor stop with Err e => Err e | Ok b => Ok [C GE a; C LE b] end
    end
  else if mem_c c_plusn c then
    let vs := rstrip_set [c_plusn] c in
    match semver_ctor vs with
    | Err e => Err e
    | Ok v =>
        if is_stable v then
          match semver_ctor (semver_str (next_minor v)) with
          | Err e => Err e
          | Ok e => Ok [C GE v; C LT e]
          end
        else Ok [C GE v]
    end
  else match semver_ctor c with Err e => Err e | Ok v => Ok [C EQ v] end.

Fixpoint concatM {A} (l : list (res (list A))) : res (list A) :=
  match l with
  | [] => Ok []
  | Ok x :: r => match concatM r with Ok y => Ok (x ++ y) | Err e => Err e end
  | Err e :: _ => Err e
  end.

(* NginxVersionRange.from_native(string): the constraints handed to the range constructor.  The loop builds the clauses
   one after the other, so the first failing clause decides the error. *)
Definition nginx_native (s : str) : res (list (constr semver)) :=
  let cleaned := lower (remove_spaces s) in
  if eqs cleaned (s2l "all") then Ok [Star]
  else concatM (map nginx_clause (split_c c_comma cleaned)).

(* OpensslVersionRange.from_native(string), for any constructor of the version class *)
Definition openssl_native {V} (vctor : str -> res V) (s : str) : res (list (constr V)) :=
  mapM (fun t => match vctor t with Ok v => Ok (C EQ v) | Err e => Err e end) (split_c c_comma (lower (remove_spaces s))).
