(* CPython's rich-comparison dispatch (Objects/object.c, do_richcompare) over
   the tabulated direct-method results of Gen/Tables.v.

     1. if type(b) is a proper subclass of type(a) and provides a different
        reflected method, that reflected method is tried first;
     2. type(a).__op__(a, b) unless NotImplemented;
     3. the reflected method of type(b) (if not tried) unless NotImplemented;
     4. == / != fall back to identity (two distinct objects: False / True);
        the four ordering operators raise TypeError. *)
From Coq Require Import List Bool.
From UV.Base Require Import Cop.
From UV.Gen Require Import Tables.
Import ListNotations.

Inductive outcome :=
| OVal          (* a boolean computed by one of the two classes' methods *)
| OFalse        (* identity fallback of == *)
| OTrue         (* identity fallback of != *)
| OTypeError
| ORaise.       (* a method raised something else *)

Definition reflect (op : pyop) : pyop :=
  match op with OpEq => OpEq | OpNe => OpNe | OpLt => OpGt | OpLe => OpGe | OpGt => OpLt | OpGe => OpLe end.

Definition of_mres (m : mres) (k : outcome) : outcome :=
  match m with MVal => OVal | MRaise => ORaise | MNI => k end.

Definition fallback (op : pyop) : outcome :=
  match op with OpEq => OFalse | OpNe => OTrue | _ => OTypeError end.

Definition strict_subclass (b a : vclass) : bool :=
  subclass b a && negb (subclass a b).

Definition richcmp (op : pyop) (a b : vclass) : outcome :=
  let rfirst := strict_subclass b a && refl_differs op a b in
  let direct_then k := of_mres (meth op a b) k in
  let reflected k := of_mres (meth (reflect op) b a) k in
  if rfirst then reflected (direct_then (fallback op))
  else direct_then (reflected (fallback op)).

(* neither class specialises the other *)
Definition unrelated (a b : vclass) : bool := negb (subclass a b) && negb (subclass b a).

Definition is_ordering (op : pyop) : bool :=
  match op with OpLt | OpLe | OpGt | OpGe => true | _ => false end.
