(* Python str primitives used by the parsers, over ASCII strings (list ascii).
   Each is conformance-tested against CPython on random ASCII inputs by
   harness/pyprims.py (run by the C13/C05/C16 checks). *)
From Coq Require Import List Bool Arith Ascii NArith Lia.
Import ListNotations.

Definition str := list ascii.

Definition code (c : ascii) : N := N_of_ascii c.
Definition ch (n : N) : ascii := ascii_of_N n.

Definition is_ascii7 (c : ascii) : bool := N.ltb (code c) 128.
(* str.split() / str.strip() whitespace among ASCII: \t \n \v \f \r, FS GS RS US, space *)
Definition is_space (c : ascii) : bool :=
  let n := code c in (N.leb 9 n && N.leb n 13) || (N.leb 28 n && N.leb n 32).
Definition is_digit (c : ascii) : bool := let n := code c in N.leb 48 n && N.leb n 57.
Definition is_upper (c : ascii) : bool := let n := code c in N.leb 65 n && N.leb n 90.
Definition is_lower (c : ascii) : bool := let n := code c in N.leb 97 n && N.leb n 122.
Definition is_alpha (c : ascii) : bool := is_upper c || is_lower c.

Definition lower_c (c : ascii) : ascii := if is_upper c then ch (code c + 32) else c.
Definition lower (s : str) : str := map lower_c s.

(* "".join(s.split()) *)
Definition remove_spaces (s : str) : str := filter (fun c => negb (is_space c)) s.

Definition eqc (a b : ascii) : bool := Ascii.eqb a b.
Fixpoint eqs (a b : str) : bool :=
  match a, b with
  | [], [] => true
  | x :: a', y :: b' => eqc x y && eqs a' b'
  | _, _ => false
  end.

Fixpoint startswith (s p : str) : bool :=
  match p, s with
  | [], _ => true
  | x :: p', y :: s' => eqc x y && startswith s' p'
  | _ :: _, [] => false
  end.

Definition mem_c (c : ascii) (cs : str) : bool := existsb (eqc c) cs.

(* s.lstrip(chars): strips any leading characters that are in the SET chars *)
Fixpoint lstrip_set (cs s : str) : str :=
  match s with
  | c :: r => if mem_c c cs then lstrip_set cs r else s
  | [] => []
  end.
Definition rstrip_set (cs s : str) : str := rev (lstrip_set cs (rev s)).
Definition strip_set (cs s : str) : str := rstrip_set cs (lstrip_set cs s).

(* s.partition(c) for a one-character separator: (before, found, after) *)
Fixpoint partition_c (c : ascii) (s : str) : str * bool * str :=
  match s with
  | [] => ([], false, [])
  | x :: r => if eqc x c then ([], true, r)
              else let '(a, f, b) := partition_c c r in (x :: a, f, b)
  end.

(* s.split(c) for a one-character separator *)
Fixpoint split_c (c : ascii) (s : str) : list str :=
  match s with
  | [] => [[]]
  | x :: r => if eqc x c then [] :: split_c c r
              else match split_c c r with
                   | h :: t => (x :: h) :: t
                   | [] => [[x]]   (* unreachable: split_c never returns [] *)
                   end
  end.

Fixpoint join_c (c : ascii) (l : list str) : str :=
  match l with
  | [] => []
  | [x] => x
  | x :: r => x ++ c :: join_c c r
  end.

Definition is_empty (s : str) : bool := match s with [] => true | _ => false end.

(* ---- lemmas ------------------------------------------------------------------- *)
Lemma eqc_refl c : eqc c c = true.
Proof. apply Ascii.eqb_refl. Qed.
Lemma eqc_sym a b : eqc a b = eqc b a.
Proof. apply Ascii.eqb_sym. Qed.
Lemma eqc_eq a b : eqc a b = true <-> a = b.
Proof. apply Ascii.eqb_eq. Qed.
Lemma eqs_eq a : forall b, eqs a b = true <-> a = b.
Proof.
  induction a as [|x a IH]; intros [|y b]; cbn; split; intros H; try discriminate; auto.
  - apply andb_true_iff in H. destruct H as [H1 H2]. apply eqc_eq in H1. apply IH in H2. subst. reflexivity.
  - inversion H; subst. rewrite eqc_refl. apply IH. reflexivity.
Qed.

Lemma remove_spaces_idem s : remove_spaces (remove_spaces s) = remove_spaces s.
Proof.
  unfold remove_spaces. induction s as [|c r IH]; [reflexivity|]. cbn [filter].
  destruct (is_space c) eqn:E; cbn [negb]; [exact IH|]. cbn [filter]. rewrite E. cbn [negb]. f_equal. exact IH.
Qed.
Lemma remove_spaces_app a b : remove_spaces (a ++ b) = remove_spaces a ++ remove_spaces b.
Proof. apply filter_app. Qed.
Lemma remove_spaces_none s : forallb (fun c => negb (is_space c)) s = true -> remove_spaces s = s.
Proof.
  unfold remove_spaces. induction s as [|c r IH]; cbn; intros H; [reflexivity|].
  apply andb_true_iff in H. destruct H as [H1 H2]. rewrite H1. f_equal. apply IH. exact H2.
Qed.
Lemma remove_spaces_clean s : forallb (fun c => negb (is_space c)) (remove_spaces s) = true.
Proof.
  unfold remove_spaces. apply forallb_forall. intros c Hc. apply filter_In in Hc. tauto.
Qed.

(* inserting whitespace anywhere does not change the result *)
Inductive ws_variant : str -> str -> Prop :=
| wv_nil : ws_variant [] []
| wv_keep c a b : ws_variant a b -> ws_variant (c :: a) (c :: b)
| wv_ins c a b : is_space c = true -> ws_variant a b -> ws_variant a (c :: b).
Lemma remove_spaces_ws a b : ws_variant a b -> remove_spaces b = remove_spaces a.
Proof.
  induction 1; [reflexivity| |].
  - unfold remove_spaces in *. cbn [filter]. destruct (is_space c); cbn [negb]; congruence.
  - unfold remove_spaces in *. cbn [filter]. rewrite H. cbn [negb]. exact IHws_variant.
Qed.

Lemma lower_idem s : forallb (fun c => negb (is_upper c)) s = true -> lower s = s.
Proof.
  unfold lower. induction s as [|c r IH]; cbn; intros H; [reflexivity|].
  apply andb_true_iff in H. destruct H as [H1 H2]. unfold lower_c. apply negb_true_iff in H1. rewrite H1. f_equal. apply IH. exact H2.
Qed.

Lemma partition_app_sep c a b : mem_c c a = false ->
  partition_c c (a ++ c :: b) = (a, true, b).
Proof.
  induction a as [|x r IH]; cbn [app partition_c mem_c existsb]; intros H.
  - rewrite eqc_refl. reflexivity.
  - apply orb_false_iff in H. destruct H as [H1 H2].
    assert (E : eqc x c = false).
    { destruct (eqc x c) eqn:E; [|reflexivity]. apply eqc_eq in E. subst. rewrite eqc_refl in H1. discriminate. }
    rewrite E. unfold mem_c in IH. rewrite (IH H2). reflexivity.
Qed.

Lemma split_c_nonempty c s : split_c c s <> [].
Proof.
  induction s as [|x r IH]; cbn; [discriminate|].
  destruct (eqc x c); [discriminate|]. destruct (split_c c r); [congruence|discriminate].
Qed.

Lemma split_no_sep c s : mem_c c s = false -> split_c c s = [s].
Proof.
  induction s as [|x r IH]; cbn [split_c mem_c existsb]; intros H; [reflexivity|].
  apply orb_false_iff in H. destruct H as [H1 H2].
  assert (E : eqc x c = false).
  { destruct (eqc x c) eqn:E; [|reflexivity]. apply eqc_eq in E. subst. rewrite eqc_refl in H1. discriminate. }
  rewrite E. unfold mem_c in IH. rewrite (IH H2). reflexivity.
Qed.

Lemma split_app_sep c a b : mem_c c a = false -> split_c c (a ++ c :: b) = a :: split_c c b.
Proof.
  induction a as [|x r IH]; cbn [app split_c mem_c existsb]; intros H.
  - rewrite eqc_refl. reflexivity.
  - apply orb_false_iff in H. destruct H as [H1 H2].
    assert (E : eqc x c = false).
    { destruct (eqc x c) eqn:E; [|reflexivity]. apply eqc_eq in E. subst. rewrite eqc_refl in H1. discriminate. }
    rewrite E. unfold mem_c in IH. rewrite (IH H2). reflexivity.
Qed.

(* split inverts join when no piece contains the separator *)
Theorem split_join c : forall l, l <> [] -> Forall (fun s => mem_c c s = false) l ->
  split_c c (join_c c l) = l.
Proof.
  induction l as [|x r IH]; intros Hne HF; [congruence|].
  inversion HF as [|? ? Hx Hr]; subst.
  destruct r as [|y r'].
  - cbn [join_c]. apply split_no_sep. exact Hx.
  - change (join_c c (x :: y :: r')) with (x ++ c :: join_c c (y :: r')).
    rewrite (split_app_sep c x _ Hx). f_equal. apply IH; [discriminate|exact Hr].
Qed.

Lemma lstrip_set_none cs s : match s with c :: _ => mem_c c cs = false | [] => True end -> lstrip_set cs s = s.
Proof. destruct s as [|c r]; cbn; [reflexivity|]. intros H. rewrite H. reflexivity. Qed.

(* lstrip of a prefix made of characters of the set, followed by something that does not start in the set *)
Lemma lstrip_set_prefix cs p s :
  forallb (fun c => mem_c c cs) p = true ->
  match s with c :: _ => mem_c c cs = false | [] => True end ->
  lstrip_set cs (p ++ s) = s.
Proof.
  induction p as [|x r IH]; cbn [app forallb]; intros Hp Hs.
  - apply lstrip_set_none. exact Hs.
  - apply andb_true_iff in Hp. destruct Hp as [H1 H2]. cbn [lstrip_set]. rewrite H1. apply IH; assumption.
Qed.

Lemma startswith_app p s : startswith (p ++ s) p = true.
Proof. induction p as [|x r IH]; cbn; [destruct s; reflexivity|]. rewrite eqc_refl. exact IH. Qed.
