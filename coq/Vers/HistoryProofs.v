(* C17: meaning is stable under any sequence of presentation-level operations. *)
From Coq Require Import List Bool Arith Lia Permutation.
From UV.Base Require Import Order Cop Res ListAux.
From UV.Gen Require Import Tables.
From UV.Vers Require Import Model Spec ContainsProofs SortProofs ValidateProofs Cuts InvertProofs NormalizeProofs SimplifyProofs.
Import ListNotations.

Section HistoryProofs.
Variable V : Type.
Variable cmp : V -> V -> comparison.
Hypothesis T : TPO cmp.

Notation constr := (constr V).
Notation strong_incr := (strong_incr V cmp).
Notation no_star := (no_star V).
Notation wf_sorted := (wf_sorted V cmp).
Notation den := (den V cmp).
Notation contains := (contains V cmp).
Notation sort_c := (sort_c V cmp).
Notation simplify := (simplify V cmp).
Notation validate := (validate V cmp).
Notation invert := (invert V cmp).

(* One presentation-level operation on the (sorted) constraints of a range.
   print+parse and permute+rebuild both amount to rebuilding the range from some
   rearrangement of its constraints (for print+parse this is C05/C11 of the scheme). *)
Inductive step : list constr -> list constr -> Prop :=
| st_rebuild r l r' : Permutation r l -> sort_c l = Ok r' -> step r r'
| st_simplify r r' : simplify r = Ok r' -> step r r'
| st_validate r : validate r = Ok true -> step r r
| st_invert_twice r r1 r2 : invert r = Some (Ok r1) -> invert r1 = Some (Ok r2) -> step r r2
| st_parse_flags r l r1 r2 (fs fv : bool) :
    Permutation r l -> sort_c l = Ok r1 ->
    (if fs then simplify r1 else Ok r1) = Ok r2 ->
    (if fv then validate r2 else Ok true) = Ok true -> step r r2.

Inductive steps : list constr -> list constr -> Prop :=
| steps_nil r : steps r r
| steps_cons r r' r'' : step r r' -> steps r' r'' -> steps r r''.

Definition good (r : list constr) : Prop := no_star r = true /\ wf_sorted r = true.

Lemma good_incr r : good r -> strong_incr r = true.
Proof. intros [Hn Hw]. destruct (incr_of_wf_sorted V cmp r Hn Hw) as [I _]. apply (incr_strong V cmp T). exact I. Qed.

Lemma rebuild_same r l r' : good r -> Permutation r l -> sort_c l = Ok r' -> r' = r.
Proof.
  intros G P E. pose proof (good_incr r G) as Hs. destruct G as [Hn Hw].
  assert (Hnl : no_star l = true) by (rewrite <- (no_star_perm V _ _ P); exact Hn).
  assert (Hdl : nodup_ver V cmp l = true).
  { rewrite <- (nodup_ver_perm V cmp T _ _ P). apply (strong_incr_nodup V cmp); assumption. }
  destruct (sort_incr V cmp T l Hnl Hdl) as [s [Es [Ss Ps]]]. rewrite Es in E. inversion E; subst.
  apply (strong_incr_unique V cmp T); auto. eapply perm_trans; [apply Permutation_sym; exact Ps|apply Permutation_sym; exact P].
Qed.

Lemma simplify_good r r' : good r -> simplify r = Ok r' ->
  good r' /\ (forall v, den r' v = den r v) /\ simplify r' = Ok r'.
Proof.
  intros G E. pose proof (good_incr r G) as Hs. destruct G as [Hn Hw].
  destruct (simplify_correct V cmp T r Hn Hs) as [x [Ex [Sub [M [Vx [Fx [Sx Nx]]]]]]].
  rewrite Ex in E. inversion E; subst x.
  assert (Wx : wf_sorted r' = true).
  { apply (validate_exact V cmp T) in Vx. destruct Vx as [->|[_ [s [Ps Ws]]]]; [reflexivity|].
    assert (Hns : no_star s = true) by (rewrite <- (no_star_perm V _ _ Ps); exact Nx).
    destruct (incr_of_wf_sorted V cmp s Hns Ws) as [I _].
    assert (s = r').
    { apply (strong_incr_unique V cmp T); auto. apply (incr_strong V cmp T). exact I. apply Permutation_sym. exact Ps. }
    subst s. exact Ws. }
  split; [split; assumption|]. split; [|exact Fx].
  intros v. rewrite <- (mem_den V cmp T r' v Nx Wx), <- (mem_den V cmp T r v Hn Hw). apply M.
Qed.

Lemma validate_good r : good r -> validate r = Ok true.
Proof.
  intros [Hn Hw]. apply (validate_exact V cmp T). right. split; [exact Hn|]. exists r. split; [apply Permutation_refl|exact Hw].
Qed.

Lemma invert_twice_same r r1 r2 : good r -> invert r = Some (Ok r1) -> invert r1 = Some (Ok r2) -> r2 = r.
Proof.
  intros G E1 E2. pose proof (good_incr r G) as Hs. destruct G as [Hn Hw].
  destruct (invert_twice V cmp T r Hn Hs) as [x [X1 X2]]. rewrite X1 in E1. inversion E1; subst x.
  rewrite X2 in E2. inversion E2. reflexivity.
Qed.

(* every operation is enabled on a well-formed range (none of them raises) *)
Theorem step_enabled r : good r ->
  (forall l, Permutation r l -> exists r', sort_c l = Ok r') /\
  (exists r', simplify r = Ok r') /\
  validate r = Ok true /\
  (exists r1 r2, invert r = Some (Ok r1) /\ invert r1 = Some (Ok r2)).
Proof.
  intros G. pose proof (good_incr r G) as Hs. pose proof G as [Hn Hw]. repeat split.
  - intros l P.
    assert (Hnl : no_star l = true) by (rewrite <- (no_star_perm V _ _ P); exact Hn).
    destruct (sort_perm V cmp l Hnl) as [s [Es _]]. eauto.
  - destruct (simplify_correct V cmp T r Hn Hs) as [x [Ex _]]. eauto.
  - apply validate_good. exact G.
  - destruct (invert_twice V cmp T r Hn Hs) as [x [X1 X2]]. eauto.
Qed.

Theorem step_preserves r r' : good r -> step r r' -> good r' /\ (forall v, den r' v = den r v).
Proof.
  intros G S. destruct S as [r l r' P E|r r' E|r E|r r1 r2 E1 E2|r l r1 r2 fs fv P E Es Ev].
  - rewrite (rebuild_same r l r' G P E). auto.
  - destruct (simplify_good r r' G E) as [G' [D _]]. auto.
  - auto.
  - rewrite (invert_twice_same r r1 r2 G E1 E2). auto.
  - pose proof (rebuild_same r l r1 G P E). subst r1. destruct fs.
    + destruct (simplify_good r r2 G Es) as [G' [D _]]. auto.
    + inversion Es; subst. auto.
Qed.

(* same membership after any history *)
Theorem history_preserves_membership r0 r : good r0 -> steps r0 r ->
  good r /\ (forall v, contains r v = contains r0 v) /\ (forall v, exists b, contains r v = Ok b).
Proof.
  intros G S. induction S as [r|r r' r'' St S IH].
  - split; [exact G|]. split; [reflexivity|]. intros v. destruct G as [Hn Hw]. eexists. apply (contains_sound V cmp T). exact Hw.
  - destruct (step_preserves r r' G St) as [G' D].
    destruct (IH G') as [G'' [C E]]. split; [exact G''|]. split; [|exact E].
    intros v. rewrite C. destruct G as [Hn Hw]. destruct G' as [Hn' Hw'].
    rewrite (contains_sound V cmp T r' v Hw'), (contains_sound V cmp T r v Hw), D. reflexivity.
Qed.

(* a simplified range is a fixed point of every operation *)
Definition settled (r : list constr) : Prop := good r /\ simplify r = Ok r.

Lemma step_settled r r' : settled r -> step r r' -> r' = r.
Proof.
  intros [G F] S. destruct S as [r l r' P E|r r' E|r E|r r1 r2 E1 E2|r l r1 r2 fs fv P E Es Ev].
  - apply (rebuild_same r l r' G P E).
  - rewrite F in E. inversion E. reflexivity.
  - reflexivity.
  - apply (invert_twice_same r r1 r2 G E1 E2).
  - pose proof (rebuild_same r l r1 G P E). subst r1. destruct fs.
    + rewrite F in Es. inversion Es. reflexivity.
    + inversion Es. reflexivity.
Qed.

(* the canonical constraints stop changing after the first simplification *)
Theorem history_settles r0 r1 r2 r3 : good r0 -> steps r0 r1 -> simplify r1 = Ok r2 -> steps r2 r3 -> r3 = r2.
Proof.
  intros G S1 E S2.
  destruct (history_preserves_membership r0 r1 G S1) as [G1 _].
  destruct (simplify_good r1 r2 G1 E) as [G2 [_ F2]].
  assert (St : settled r2) by (split; assumption).
  clear -St S2 T. induction S2 as [r|r r' r'' Sx S IH]; [reflexivity|].
  pose proof (step_settled r r' St Sx). subst r'. apply IH. exact St.
Qed.

End HistoryProofs.
