(* C10: normalisation against known versions, from_versions. *)
From Coq Require Import List Bool Arith Lia Permutation.
From UV.Base Require Import Order Cop Res ListAux.
From UV.Gen Require Import Tables.
From UV.Vers Require Import Model Spec ContainsProofs SortProofs ValidateProofs.
Import ListNotations.

Section NormalizeProofs.
Variable V : Type.
Variable cmp : V -> V -> comparison.
Hypothesis T : TPO cmp.

Notation constr := (constr V).
Notation eqb := (eqb V cmp).
Notation ltb := (ltb V cmp).
Notation contains := (contains V cmp).
Notation normalize := (normalize V cmp).
Notation from_versions := (from_versions V cmp).
Notation sort_c := (sort_c V cmp).
Notation sort_v := (sort_v V cmp).
Notation insert_c := (insert_c V cmp).
Notation no_star := (no_star V).
Notation c_eq := (c_eq V).
Notation den := (den V cmp).

(* ---- sorting never fails without a star, and permutes ---------------------- *)
Lemma insert_perm : forall l c, is_star V c = false -> no_star l = true ->
  exists s, insert_c c l = Ok s /\ Permutation (c :: l) s.
Proof.
  induction l as [|x r IH]; intros c Hc Hn.
  - exists [c]. split; [reflexivity|apply Permutation_refl].
  - rewrite no_star_cons in Hn. apply andb_true_iff in Hn. destruct Hn as [Hx Hn]. apply negb_true_iff in Hx.
    destruct c as [|oc vc]; [discriminate|]. destruct x as [|ox vx]; [discriminate|].
    cbn [Model.insert_c Model.c_lt].
    destruct (if Model.eqb V cmp vx vc then Ok (Nat.ltb (cop_rank ox) (cop_rank oc)) else Ok (ltb vx vc)) as [b|e] eqn:E.
    + destruct b.
      * destruct (IH (C oc vc) eq_refl Hn) as [s [Es Ps]]. rewrite Es. exists (C ox vx :: s). split; [reflexivity|].
        eapply perm_trans; [apply perm_swap|]. apply perm_skip. exact Ps.
      * exists (C oc vc :: C ox vx :: r). split; [reflexivity|apply Permutation_refl].
    + destruct (Model.eqb V cmp vx vc); discriminate.
Qed.

Lemma sort_perm : forall l, no_star l = true -> exists s, sort_c l = Ok s /\ Permutation l s.
Proof.
  induction l as [|c r IH]; intros Hn.
  - exists []. split; [reflexivity|constructor].
  - rewrite no_star_cons in Hn. apply andb_true_iff in Hn. destruct Hn as [Hc Hn]. apply negb_true_iff in Hc.
    destruct (IH Hn) as [s [Es Ps]]. cbn [Model.sort_c]. rewrite Es.
    assert (Hns : no_star s = true) by (rewrite <- (no_star_perm V _ _ Ps); exact Hn).
    destruct (insert_perm s c Hc Hns) as [s' [Es' Ps']]. exists s'. split; [exact Es'|].
    eapply perm_trans; [apply perm_skip; exact Ps|exact Ps'].
Qed.

(* ---- from_versions contains exactly the versions equal to a listed one ------- *)
Lemma contains_all_eq : forall s v, Forall (fun c => c_eq c = true) s ->
  contains s v = Ok (existsb (fun c => v_eqb V cmp v c) s).
Proof.
  intros s v H. destruct s as [|c [|c' r]].
  - reflexivity.
  - inversion H as [|? ? Hc _]; subst. destruct c as [|o x]; [discriminate|]. destruct o; try discriminate.
    unfold Model.contains. rewrite (in1_eq V cmp). cbn. rewrite orb_false_r. reflexivity.
  - set (cs := c :: c' :: r) in *.
    change (contains cs v) with
      (if existsb (fun c => c_is V has_ne_substr c && v_eqb V cmp v c) cs then Ok false
       else if existsb (fun c => c_is V has_eq_char c && v_eqb V cmp v c) cs then Ok true
       else match filter (fun c => negb (c_point V c)) cs with
            | [] => Ok (negb (is_nil cs) && forallb (c_ne V) cs)
            | [b] => Ok (Model.in1 V cmp b v)
            | bs => scan V cmp true bs v
            end).
    rewrite Forall_forall in H.
    assert (E1 : existsb (fun c => c_is V has_ne_substr c && v_eqb V cmp v c) cs = false).
    { apply not_true_iff_false. intro F. apply existsb_exists in F. destruct F as [a [Ha Fa]].
      specialize (H a Ha). destruct a as [|o x]; [discriminate|]. destruct o; discriminate. }
    assert (E2 : existsb (fun c => c_is V has_eq_char c && v_eqb V cmp v c) cs = existsb (fun c => v_eqb V cmp v c) cs).
    { apply existsb_ext_in. intros a Ha. specialize (H a Ha). destruct a as [|o x]; [discriminate|]. destruct o; try discriminate. reflexivity. }
    rewrite E1, E2. destruct (existsb (fun c => v_eqb V cmp v c) cs); [reflexivity|].
    assert (E3 : filter (fun c => negb (c_point V c)) cs = []).
    { apply filter_none. apply forallb_forall. intros a Ha. specialize (H a Ha). rewrite negb_involutive.
      unfold Model.c_point. rewrite H. reflexivity. }
    rewrite E3. f_equal.
    apply andb_false_iff. right. apply not_true_iff_false. intro F. rewrite forallb_forall in F.
    specialize (F c (or_introl eq_refl)). specialize (H c (or_introl eq_refl)).
    destruct c as [|o x]; [discriminate|]. destruct o; discriminate.
Qed.

Theorem from_versions_contains : forall l v,
  exists s, from_versions l = Ok s /\ Permutation (map (C EQ) l) s /\
            contains s v = Ok (existsb (fun x => eqb v x) l).
Proof.
  intros l v. unfold Model.from_versions.
  assert (Hn : no_star (map (C EQ) l) = true).
  { unfold Spec.no_star. apply negb_true_iff. apply not_true_iff_false. intro F. apply existsb_exists in F.
    destruct F as [c [Hc Fc]]. apply in_map_iff in Hc. destruct Hc as [x [<- _]]. discriminate. }
  destruct (sort_perm _ Hn) as [s [Es Ps]]. exists s. split; [exact Es|]. split; [exact Ps|].
  rewrite contains_all_eq.
  - f_equal. rewrite <- (existsb_perm _ _ _ Ps). clear. induction l as [|x r IH]; [reflexivity|]. cbn. rewrite IH. reflexivity.
  - apply Forall_forall. intros c Hc. eapply Permutation_in in Hc; [|apply Permutation_sym; exact Ps].
    apply in_map_iff in Hc. destruct Hc as [x [<- _]]. reflexivity.
Qed.

(* ---- normalize uses the range only through membership of the known versions -- *)
Lemma runs_ext (m1 m2 : V -> bool) : forall l cur, (forall v, In v l -> m1 v = m2 v) ->
  runs V m1 l cur = runs V m2 l cur.
Proof.
  induction l as [|x r IH]; intros cur H; [reflexivity|].
  cbn [runs]. rewrite <- (H x (or_introl eq_refl)).
  assert (H' : forall v, In v r -> m1 v = m2 v) by (intros v Hv; apply H; right; exact Hv).
  destruct (m1 x); [apply IH; exact H'|]. destruct cur; rewrite (IH _ H'); reflexivity.
Qed.

Lemma sort_v_in l x : In x (sort_v l) <-> In x l.
Proof.
  unfold Model.sort_v. induction l as [|y r IH]; [tauto|]. cbn [fold_right].
  assert (Hins : forall z s, In x (insert_v V cmp z s) <-> x = z \/ In x s).
  { intros z s. induction s as [|w s' IHs]; cbn; [intuition|].
    destruct (ltb w z); cbn; rewrite ?IHs; intuition. }
  rewrite Hins, IH. cbn. intuition.
Qed.

Theorem normalize_extensional : forall cs cs' known,
  (forall v, In v known -> contains cs v = contains cs' v) ->
  normalize cs known = normalize cs' known.
Proof.
  intros cs cs' known H. unfold Model.normalize.
  assert (H' : forall v, In v (sort_v known) -> contains cs v = contains cs' v)
    by (intros v Hv; apply H; apply sort_v_in; exact Hv).
  rewrite (forallb_ext_in (fun v => is_ok (contains cs v)) (fun v => is_ok (contains cs' v)) (sort_v known))
    by (intros v Hv; rewrite (H' v Hv); reflexivity).
  destruct (forallb (fun v => is_ok (contains cs' v)) (sort_v known)); [|reflexivity].
  rewrite (runs_ext (fun v => match contains cs v with Ok b => b | Err _ => false end)
                    (fun v => match contains cs' v with Ok b => b | Err _ => false end) (sort_v known) []).
  - reflexivity.
  - intros v Hv. rewrite (H' v Hv). reflexivity.
Qed.

(* ---- no member: the empty range ------------------------------------------------ *)
Lemma runs_none (m : V -> bool) : forall l, (forall v, In v l -> m v = false) -> runs V m l [] = [].
Proof.
  induction l as [|x r IH]; intros H; [reflexivity|]. cbn [runs]. rewrite (H x (or_introl eq_refl)).
  apply IH. intros v Hv. apply H. right. exact Hv.
Qed.

Theorem normalize_empty : forall cs known,
  (forall v, In v known -> contains cs v = Ok false) -> normalize cs known = Ok [].
Proof.
  intros cs known H. unfold Model.normalize.
  assert (H' : forall v, In v (sort_v known) -> contains cs v = Ok false)
    by (intros v Hv; apply H; apply sort_v_in; exact Hv).
  rewrite (forallb_ext_in _ (fun _ => true)) by (intros v Hv; rewrite (H' v Hv); reflexivity).
  assert (A : forallb (fun _ : V => true) (sort_v known) = true) by (apply forallb_forall; reflexivity).
  rewrite A, runs_none; [reflexivity|]. intros v Hv. rewrite (H' v Hv). reflexivity.
Qed.

(* ---- one run: one exact version or one closed interval, and what it contains -- *)
Theorem segment_shape : forall seg,
  seg_constraints V cmp seg = [] \/
  (exists x, seg_constraints V cmp seg = [C EQ x] /\ In x seg) \/
  (exists lo hi, seg_constraints V cmp seg = [C GE lo; C LE hi] /\ In lo seg /\ In hi seg).
Proof.
  intros [|lo r]; [left; reflexivity|]. right. cbn [seg_constraints].
  assert (Hl : In (last (lo :: r) lo) (lo :: r)).
  { assert (G : forall (l : list V) d, l <> [] -> In (last l d) l).
    { induction l as [|x l' IHl]; intros d Hne; [congruence|].
      destruct l' as [|y l'']; [left; reflexivity|]. right. apply (IHl d). discriminate. }
    apply G. discriminate. }
  destruct (Model.eqb V cmp lo (last (lo :: r) lo)).
  - left. exists lo. split; [reflexivity|left; reflexivity].
  - right. exists lo, (last (lo :: r) lo). split; [reflexivity|]. split; [left; reflexivity|exact Hl].
Qed.

End NormalizeProofs.
