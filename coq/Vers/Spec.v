(* Specifications of the vers algebra, written from the property texts
   (C04, C07, C08, C09), not from the code. *)
From Coq Require Import List Bool Arith Permutation.
From UV.Base Require Import Cop Res.
From UV.Gen Require Import Tables.
From UV.Vers Require Import Model.
Import ListNotations.

Section Spec.
Variable V : Type.
Variable cmp : V -> V -> comparison.
Notation constr := (constr V).
Notation eqb := (eqb V cmp).
Notation ltb := (ltb V cmp).
Notation gtb := (gtb V cmp).

(* what one bound admits: a lower bound admits what is above it, an upper bound
   what is below it; the bound's own version iff inclusive *)
Definition admits (c : constr) (v : V) : bool :=
  match c with
  | C o x =>
      match cmp v x with
      | Eq => incl o
      | Lt => upper o
      | Gt => lower o
      end
  | Star => true
  end.

(* ---- C04: the interval-set meaning of a constraint list ------------------- *)
Definition bounds (cs : list constr) : list constr := filter (c_bound V) cs.

Fixpoint last_opt {A} (l : list A) : option A :=
  match l with [] => None | [x] => Some x | _ :: r => last_opt r end.

(* an initial upper bound opens from minus infinity *)
Definition den_head (bs : list constr) (v : V) : bool :=
  match bs with b :: _ => c_upper V b && admits b v | [] => false end.
(* a final lower bound extends to plus infinity *)
Definition den_last (bs : list constr) (v : V) : bool :=
  match last_opt bs with Some b => c_lower V b && admits b v | None => false end.
(* intervals delimited by consecutive lower and upper bounds *)
Definition pair_in (v : V) (p : constr * constr) : bool :=
  c_lower V (fst p) && c_upper V (snd p) && admits (fst p) v && admits (snd p) v.
Definition den_bounds (bs : list constr) (v : V) : bool :=
  den_head bs v || den_last bs v || existsb (pair_in v) (pairwise bs).

Definition at_ver (v : V) (c : constr) : bool := v_eqb V cmp v c.

Definition den (cs : list constr) (v : V) : bool :=
  match cs with
  | [Star] => true
  | _ =>
      if negb (is_nil cs) && forallb (c_ne V) cs
      then negb (existsb (at_ver v) cs)                         (* only "!=": everything except those *)
      else (den_bounds (bounds cs) v || existsb (fun c => c_eq V c && at_ver v c) cs)
           && negb (existsb (fun c => c_ne V c && at_ver v c) cs)
  end.

(* ---- C07: well-formed sequences, read in version order -------------------- *)
Definition ver_lt (a b : constr) : bool :=
  match a, b with C _ x, C _ y => ltb x y | _, _ => false end.

(* strictly increasing versions (hence every version occurs once) *)
Fixpoint increasing (l : list constr) : bool :=
  match l with
  | a :: ((b :: _) as r) => ver_lt a b && increasing r
  | _ => true
  end.

(* an "=" is never followed by an upper bound once exclusions are ignored *)
Definition eq_rule (l : list constr) : bool :=
  negb (existsb (fun p => c_eq V (fst p) && c_upper V (snd p))
                (pairwise (filter (fun c => negb (c_ne V c)) l))).

(* lower and upper bounds strictly alternate once "=" and "!=" are ignored *)
Fixpoint alternate (bs : list constr) : bool :=
  match bs with
  | a :: ((b :: _) as r) => negb (Bool.eqb (c_lower V a) (c_lower V b)) && alternate r
  | _ => true
  end.

Definition no_star (l : list constr) : bool := negb (existsb (is_star V) l).

(* wf: for a list given in version order *)
Definition wf_sorted (l : list constr) : bool :=
  match l with
  | [Star] => true
  | _ => no_star l && increasing l && eq_rule l && alternate (bounds l)
  end.

(* ---- C09: no vacuous constraints ------------------------------------------ *)
(* "every '!=' lies inside an included interval (or the range consists only of '!=')
   and every '=' lies outside all intervals" *)
Definition nonvacuous (cs : list constr) : bool :=
  forallb (fun c => match c with
                    | C NE x => forallb (c_ne V) cs || den_bounds (bounds cs) x
                    | C EQ x => negb (den_bounds (bounds cs) x)
                    | _ => true
                    end) cs.

(* ---- C08: membership in a possibly redundant range ------------------------ *)
(* Each bound cuts the version line just below or just above its version:
   ">=x" and "<x" cut just below x, ">x" and "<=x" just above x.
   cut_below c v: the cut of bound c lies below the probe v. *)
Definition cut_below (v : V) (c : constr) : bool :=
  match c with
  | C o x => match cmp x v with
             | Lt => true
             | Eq => match o with GE | LT => true | _ => false end
             | Gt => false
             end
  | Star => false
  end.

(* "the nearest bound below it points upward" / "the nearest bound above it points downward" *)
Definition nearest_below_up (bs : list constr) (v : V) : bool :=
  match last_opt (filter (cut_below v) bs) with Some b => c_lower V b | None => false end.
Definition nearest_above_down (bs : list constr) (v : V) : bool :=
  match filter (fun c => negb (cut_below v c)) bs with b :: _ => c_upper V b | [] => false end.

(* C08: "a version is in a (possibly redundant) range when no '!=' excludes it and it
   equals an '=' version or the nearest bound below it points upward or the nearest bound
   above it points downward"; a range made only of '!=' keeps C04's reading (everything else). *)
Definition mem (cs : list constr) (v : V) : bool :=
  negb (existsb (fun c => c_ne V c && at_ver v c) cs)
  && (existsb (fun c => c_eq V c && at_ver v c) cs
      || nearest_below_up (bounds cs) v
      || nearest_above_down (bounds cs) v
      || (negb (is_nil cs) && forallb (c_ne V) cs)).

(* wf: a list in any order is well-formed when its version-ordered rearrangement is
   (C07: "every version occurs once, '*' occurs only alone, and, read in version order, ...") *)
Definition wf (cs : list constr) : Prop :=
  cs = [Star] \/ (no_star cs = true /\ exists s, Permutation cs s /\ wf_sorted s = true).

End Spec.
