(* Cut positions of bounds; the interval denotation of an alternating, increasing list
   of bounds is decided by the first cut above the probe (or the last bound). *)
From Coq Require Import List Bool Arith Lia Btauto.
From UV.Base Require Import Order Cop Res ListAux.
From UV.Gen Require Import Tables.
From UV.Vers Require Import Model Spec ContainsProofs SortProofs ValidateProofs.
Import ListNotations.

Section Cuts.
Variable V : Type.
Variable cmp : V -> V -> comparison.
Hypothesis T : TPO cmp.

Notation constr := (constr V).
Notation admits := (admits V cmp).
Notation den := (den V cmp).
Notation den_bounds := (den_bounds V cmp).
Notation den_head := (den_head V cmp).
Notation den_last := (den_last V cmp).
Notation den_tail := (den_tail V cmp).
Notation pair_in := (pair_in V cmp).
Notation bounds := (bounds V).
Notation c_lower := (c_lower V).
Notation c_upper := (c_upper V).
Notation c_bound := (c_bound V).
Notation c_eq := (c_eq V).
Notation c_ne := (c_ne V).
Notation ver_lt := (ver_lt V cmp).
Notation increasing := (increasing V cmp).
Notation strong_incr := (strong_incr V cmp).
Notation alternate := (alternate V).
Notation cut_below := (cut_below V cmp).
Notation nearest_below_up := (nearest_below_up V cmp).
Notation nearest_above_down := (nearest_above_down V cmp).
Notation mem := (mem V cmp).
Notation wf_sorted := (wf_sorted V cmp).
Notation no_star := (no_star V).

Definition all_bounds (bs : list constr) : Prop := Forall (fun c => c_bound c = true) bs.

(* a lower bound admits exactly what lies above its cut, an upper bound what lies below *)
Lemma admits_cut c v : c_bound c = true ->
  admits c v = if c_lower c then cut_below v c else negb (cut_below v c).
Proof.
  destruct c as [|o x]; [discriminate|]. cbn. rewrite (tpo_sym _ T x v).
  destruct o; cbn; try discriminate; destruct (cmp x v); reflexivity.
Qed.

(* cuts are monotone along a version-increasing list *)
Lemma cut_below_mono a b v : ver_lt a b = true -> cut_below v b = true -> cut_below v a = true.
Proof.
  destruct a as [|o1 x], b as [|o2 y]; cbn; try discriminate.
  unfold Model.ltb. destruct (cmp x y) eqn:Exy; try discriminate. intros _.
  destruct (cmp y v) eqn:Eyv; try discriminate.
  - intros _. rewrite (tpo_eq_r _ T x _ _ Eyv) in Exy. rewrite Exy. reflexivity.
  - intros _. rewrite (tpo_lt _ T _ _ _ Exy Eyv). reflexivity.
Qed.

Lemma cuts_above_after a r v : forallb (ver_lt a) r = true -> cut_below v a = false ->
  forallb (fun c => negb (cut_below v c)) r = true.
Proof.
  intros H Ha. apply forallb_forall. intros b Hb. rewrite forallb_forall in H. specialize (H b Hb).
  destruct (cut_below v b) eqn:E; [|reflexivity].
  rewrite (cut_below_mono a b v H E) in Ha. discriminate.
Qed.

(* no lower bound admits the probe when every cut is above it *)
Lemma den_tail_none bs v : all_bounds bs -> forallb (fun c => negb (cut_below v c)) bs = true ->
  den_tail bs v = false.
Proof.
  intros HB H. rewrite forallb_forall in H. unfold all_bounds in HB. rewrite Forall_forall in HB.
  unfold ContainsProofs.den_tail. apply orb_false_iff. split.
  - unfold Spec.den_last. destruct (last_opt bs) as [b|] eqn:E; [|reflexivity].
    assert (Hb : In b bs).
    { clear -E. induction bs as [|x r IH]; [discriminate|]. destruct r as [|y r'].
      - inversion E; subst. left. reflexivity.
      - right. apply IH. exact E. }
    rewrite (admits_cut b v (HB b Hb)). destruct (c_lower b); [|reflexivity].
    specialize (H b Hb). apply negb_true_iff in H. rewrite H. reflexivity.
  - apply not_true_iff_false. intro F. apply existsb_exists in F. destruct F as [[lo hi] [Hp F]].
    apply in_pairwise_l in Hp. destruct Hp as [Hlo _].
    unfold Spec.pair_in in F. cbn [fst snd] in F.
    rewrite (admits_cut lo v (HB lo Hlo)) in F.
    specialize (H lo Hlo). apply negb_true_iff in H.
    destruct (c_lower lo); cbn in F; [rewrite H in F; cbn in F|]; try discriminate.
    rewrite andb_false_r in F. discriminate.
Qed.

(* the first bound whose cut is above the probe decides; else the last bound *)
Definition first_above_or_last (bs : list constr) (v : V) : bool :=
  match filter (fun c => negb (cut_below v c)) bs with
  | a :: _ => c_upper a
  | [] => match last_opt bs with Some b => c_lower b | None => false end
  end.

Lemma den_bounds_split bs v : den_bounds bs v = den_head bs v || den_tail bs v.
Proof. unfold Spec.den_bounds, ContainsProofs.den_tail. rewrite orb_assoc. reflexivity. Qed.

Theorem den_bounds_char : forall bs v,
  all_bounds bs -> alternate bs = true -> strong_incr bs = true ->
  den_bounds bs v = first_above_or_last bs v.
Proof.
  induction bs as [|a r IH]; intros v HB Halt Hinc; [reflexivity|].
  inversion HB as [|? ? Ba Br]; subst.
  cbn [ContainsProofs.strong_incr] in Hinc. apply andb_true_iff in Hinc. destruct Hinc as [Ha Hr].
  unfold first_above_or_last. cbn [filter].
  destruct (cut_below v a) eqn:Ca; cbn [negb].
  - (* the cut of a is below the probe *)
    destruct r as [|b r'].
    + cbn [filter last_opt]. rewrite den_bounds_split. unfold Spec.den_head, ContainsProofs.den_tail, Spec.den_last.
      cbn [last_opt pairwise existsb]. rewrite (admits_cut a v Ba), (bound_upper_lower V a Ba), Ca.
      destruct (c_lower a); reflexivity.
    + rewrite alternate_cons2 in Halt. apply andb_true_iff in Halt. destruct Halt as [Hd Halt].
      inversion Br as [|? ? Bb _]; subst.
      specialize (IH v Br Halt Hr). unfold first_above_or_last in IH. rewrite last_opt_cons. rewrite <- IH.
      rewrite !den_bounds_split, den_tail_cons.
      unfold Spec.den_head, Spec.pair_in. cbn [fst snd].
      rewrite (admits_cut a v Ba), Ca, (bound_upper_lower V a Ba), (bound_upper_lower V b Bb).
      destruct (c_lower a), (c_lower b); cbn in Hd; try discriminate; cbn; try reflexivity.
  - (* the cut of a is above the probe: so are all later cuts *)
    pose proof (cuts_above_after a r v Ha Ca) as Hall.
    rewrite den_bounds_split.
    assert (Dt : den_tail (a :: r) v = false).
    { apply den_tail_none; [exact HB|]. cbn [forallb]. rewrite Ca, Hall. reflexivity. }
    rewrite Dt, orb_false_r. unfold Spec.den_head. rewrite (admits_cut a v Ba), Ca, (bound_upper_lower V a Ba).
    destruct (c_lower a); reflexivity.
Qed.

(* the property's "nearest bound" wording says the same on alternating lists *)
Theorem nearest_char : forall bs v,
  all_bounds bs -> alternate bs = true -> strong_incr bs = true ->
  nearest_below_up bs v || nearest_above_down bs v = first_above_or_last bs v.
Proof.
  induction bs as [|a r IH]; intros v HB Halt Hinc; [reflexivity|].
  inversion HB as [|? ? Ba Br]; subst.
  cbn [ContainsProofs.strong_incr] in Hinc. apply andb_true_iff in Hinc. destruct Hinc as [Ha Hr].
  unfold Spec.nearest_below_up, Spec.nearest_above_down, first_above_or_last. cbn [filter].
  destruct (cut_below v a) eqn:Ca; cbn [negb].
  - destruct r as [|b r'].
    + cbn [filter last_opt]. rewrite orb_false_r. reflexivity.
    + rewrite alternate_cons2 in Halt. apply andb_true_iff in Halt. destruct Halt as [Hd Halt].
      inversion Br as [|? ? Bb _]; subst.
      specialize (IH v Br Halt Hr).
      unfold Spec.nearest_below_up, Spec.nearest_above_down, first_above_or_last in IH.
      rewrite last_opt_cons. rewrite <- IH. clear IH.
      destruct (filter (cut_below v) (b :: r')) as [|x xs] eqn:Ef.
      * (* b's cut is already above *)
        cbn [last_opt].
        assert (Cb : cut_below v b = false).
        { destruct (cut_below v b) eqn:E; [|reflexivity]. cbn [filter] in Ef. rewrite E in Ef. discriminate. }
        cbn [filter]. rewrite Cb. cbn [negb]. rewrite (bound_upper_lower V b Bb).
        destruct (c_lower a), (c_lower b); cbn in Hd; try discriminate; reflexivity.
      * rewrite last_opt_cons. reflexivity.
  - pose proof (cuts_above_after a r v Ha Ca) as Hall.
    rewrite (filter_none (cut_below v) r) by exact Hall. cbn [last_opt]. reflexivity.
Qed.

(* ---- on well-formed ranges the two meanings (C04's and C08's) coincide ---- *)
Lemma bounds_alt_of_wf s : no_star s = true -> wf_sorted s = true ->
  all_bounds (bounds s) /\ alternate (bounds s) = true /\ strong_incr (bounds s) = true.
Proof.
  intros Hn Hw. destruct (incr_of_wf_sorted V cmp s Hn Hw) as [I [E A]].
  split; [apply bounds_all_bound|]. split; [exact A|].
  apply strong_incr_filter. apply (incr_strong V cmp T). exact I.
Qed.

Theorem mem_den : forall s v, no_star s = true -> wf_sorted s = true -> mem s v = den s v.
Proof.
  intros s v Hn Hw.
  destruct (bounds_alt_of_wf s Hn Hw) as [HB [HA HI]].
  unfold Spec.mem.
  rewrite <- !orb_assoc. rewrite (orb_assoc (nearest_below_up (bounds s) v)).
  rewrite (nearest_char (bounds s) v HB HA HI), <- (den_bounds_char (bounds s) v HB HA HI).
  assert (D : den s v =
    if negb (is_nil s) && forallb c_ne s then negb (existsb (at_ver V cmp v) s)
    else (den_bounds (bounds s) v || existsb (fun c => c_eq c && at_ver V cmp v c) s)
         && negb (existsb (fun c => c_ne c && at_ver V cmp v c) s)).
  { destruct s as [|c [|c' r]]; [reflexivity| |]; (destruct c; [cbn in Hn; discriminate|reflexivity]). }
  rewrite D. clear D.
  destruct (negb (is_nil s) && forallb c_ne s) eqn:AllNE.
  - (* only != *)
    apply andb_true_iff in AllNE. destruct AllNE as [_ AllNE]. rewrite forallb_forall in AllNE.
    rewrite !orb_true_r, andb_true_r. f_equal. apply existsb_ext_in. intros a Ha. rewrite (AllNE a Ha). reflexivity.
  - rewrite orb_false_r. btauto.
Qed.

End Cuts.
