(* C07: validate accepts exactly the well-formed sequences, rejects with ValueError. *)
From Coq Require Import List Bool Arith Lia Permutation Sorted.
From UV.Base Require Import Order Cop Res ListAux SortUniq.
From UV.Gen Require Import Tables.
From UV.Vers Require Import Model Spec ContainsProofs SortProofs.
Import ListNotations.

Section ValidateProofs.
Variable V : Type.
Variable cmp : V -> V -> comparison.
Hypothesis T : TPO cmp.

Notation constr := (constr V).
Notation c_lower := (c_lower V).
Notation c_upper := (c_upper V).
Notation c_bound := (c_bound V).
Notation c_eq := (c_eq V).
Notation c_ne := (c_ne V).
Notation bounds := (bounds V).
Notation no_star := (no_star V).
Notation eq_rule := (eq_rule V).
Notation alternate := (alternate V).
Notation increasing := (increasing V cmp).
Notation strong_incr := (strong_incr V cmp).
Notation wf_sorted := (wf_sorted V cmp).
Notation wf := (wf V cmp).
Notation validate := (validate V cmp).
Notation validate_comparators := (validate_comparators V).
Notation sort_c := (sort_c V cmp).
Notation nodup_ver := (nodup_ver V cmp).
Notation contains := (contains V cmp).

Lemma no_star_in l c : no_star l = true -> In c l -> is_star V c = false.
Proof.
  unfold Spec.no_star. intros H Hin. apply negb_true_iff in H.
  destruct (is_star V c) eqn:E; [|reflexivity].
  assert (X : existsb (is_star V) l = true) by (apply existsb_exists; eauto). congruence.
Qed.

Lemma no_star_filter p l : no_star l = true -> no_star (filter p l) = true.
Proof.
  unfold Spec.no_star. intros H. apply negb_true_iff in H. apply negb_true_iff.
  apply not_true_iff_false. intro F. apply existsb_exists in F. destruct F as [c [Hc E]].
  apply filter_In in Hc. destruct Hc as [Hc _].
  assert (X : existsb (is_star V) l = true) by (apply existsb_exists; eauto). congruence.
Qed.

Lemma in_pairwise_l {A} (a b : A) : forall l, In (a, b) (pairwise l) -> In a l /\ In b l.
Proof.
  induction l as [|x r IH]; intros H; [destruct H|].
  destruct r as [|y r']; [destruct H|].
  destruct H as [E|H].
  - inversion E; subst. split; [left|right; left]; reflexivity.
  - destruct (IH H). split; right; assumption.
Qed.

(* the filter that drops "=" after dropping "!=" leaves the bounds *)
Lemma filter_filter_bounds l : no_star l = true ->
  filter (fun c => negb (c_eq c)) (filter (fun c => negb (c_ne c)) l) = bounds l.
Proof.
  intros H. unfold Spec.bounds.
  induction l as [|c r IH]; [reflexivity|].
  rewrite no_star_cons in H. apply andb_true_iff in H. destruct H as [Hc Hr].
  destruct c as [|o x]; [discriminate|]. specialize (IH Hr).
  destruct o; cbn [filter]; cbn; rewrite ?IH; reflexivity.
Qed.

Lemma pairwise_cons2 {A} (a b : A) r : pairwise (a :: b :: r) = (a, b) :: pairwise (b :: r).
Proof. reflexivity. Qed.

Lemma alternate_bad : forall bs, Forall (fun c => c_bound c = true) bs ->
  existsb (fun p => (c_upper (fst p) && negb (c_lower (snd p))) || (c_lower (fst p) && negb (c_upper (snd p)))) (pairwise bs)
  = negb (alternate bs).
Proof.
  induction bs as [|a r IH]; intros HB; [reflexivity|].
  destruct r as [|b r']; [reflexivity|].
  inversion HB as [|? ? Ba Br]; subst. inversion Br as [|? ? Bb _]; subst.
  rewrite alternate_cons2, pairwise_cons2. cbn [existsb fst snd]. rewrite (IH Br).
  rewrite (bound_upper_lower V a Ba), (bound_upper_lower V b Bb).
  destruct (c_lower a), (c_lower b), (alternate (b :: r')); reflexivity.
Qed.

Lemma is_nil_true {A} (l : list A) : is_nil l = true -> l = [].
Proof. destruct l; [reflexivity|discriminate]. Qed.

Theorem validate_comparators_spec : forall s, no_star s = true ->
  validate_comparators s = if eq_rule s && alternate (bounds s) then Ok true else Err EValue.
Proof.
  intros s Hn. unfold Model.validate_comparators. cbv zeta.
  assert (E0 : existsb (is_star V) s = false) by (apply negb_true_iff; exact Hn).
  rewrite E0.
  assert (Hb : filter (fun c => negb (c_eq c)) (filter (fun c => negb (c_ne c)) s) = bounds s)
    by (apply filter_filter_bounds; exact Hn).
  rewrite Hb.
  remember (filter (fun c => negb (c_ne c)) s) as cs1 eqn:Ecs1.
  assert (EQ : is_nil (filter (fun p => c_eq (fst p) && negb (c_eq (snd p) || c_is V (cop_eqb GT) (snd p) || c_is V (cop_eqb GE) (snd p))) (pairwise cs1))
               = eq_rule s).
  { unfold Spec.eq_rule. rewrite <- Ecs1.
    assert (X : forall l, (forall p, In p l -> is_star V (snd p) = false /\ c_ne (snd p) = false) ->
                is_nil (filter (fun p => c_eq (fst p) && negb (c_eq (snd p) || c_is V (cop_eqb GT) (snd p) || c_is V (cop_eqb GE) (snd p))) l)
                = negb (existsb (fun p => c_eq (fst p) && c_upper (snd p)) l)).
    { induction l as [|p l' IHl]; intros Hl; [reflexivity|]. cbn [filter existsb].
      destruct (Hl p (or_introl eq_refl)) as [Hs Hne].
      assert (Hp : negb (c_eq (snd p) || c_is V (cop_eqb GT) (snd p) || c_is V (cop_eqb GE) (snd p)) = c_upper (snd p)).
      { destruct (snd p) as [|o x]; [discriminate|]. destruct o; cbn in *; try discriminate; reflexivity. }
      rewrite Hp. destruct (c_eq (fst p) && c_upper (snd p)); cbn; [reflexivity|].
      apply IHl. intros q Hq. apply Hl. right. exact Hq. }
    apply X. intros p Hp. destruct p as [a b]. apply in_pairwise_l in Hp. destruct Hp as [_ Hb'].
    cbn [snd]. rewrite Ecs1 in Hb'. apply filter_In in Hb'. destruct Hb' as [Hin Hb']. apply negb_true_iff in Hb'.
    split; [eapply no_star_in; eauto|exact Hb']. }
  rewrite EQ.
  destruct (is_nil cs1) eqn:En.
  - apply is_nil_true in En. unfold Spec.eq_rule. rewrite <- Ecs1, En. cbn.
    rewrite <- Hb, En. reflexivity.
  - destruct (eq_rule s); cbn [negb andb]; [|reflexivity].
    destruct (is_nil (bounds s)) eqn:Eb.
    + apply is_nil_true in Eb. rewrite Eb. reflexivity.
    + rewrite (alternate_bad (bounds s) (bounds_all_bound V s)).
      destruct (alternate (bounds s)); reflexivity.
Qed.

Lemma validate_unfold cs :
  validate cs =
    if negb (nodup_ver cs) then Err EValue
    else if Nat.ltb 1 (length cs) && existsb (is_star V) cs then Err EValue
    else match sort_c cs with Err e => Err e | Ok s => validate_comparators s end.
Proof.
  unfold Model.validate.
  replace (length cs) with (length (map (@c_ver V) cs)) by apply map_length.
  rewrite (distinct_length_iff V cmp T), <- (nodup_ver_nodupo V cmp), map_length. reflexivity.
Qed.

(* a list with a star that passes the first two guards is exactly [Star] *)
Lemma star_alone cs : Nat.ltb 1 (length cs) && existsb (is_star V) cs = false ->
  existsb (is_star V) cs = true -> cs = [Star].
Proof.
  intros H1 H2. rewrite H2, andb_true_r in H1. apply Nat.ltb_ge in H1.
  destruct cs as [|c [|c' r]]; cbn in *; try discriminate; try lia.
  destruct c; cbn in H2; [reflexivity|discriminate].
Qed.

Lemma incr_of_wf_sorted s : no_star s = true -> wf_sorted s = true ->
  increasing s = true /\ eq_rule s = true /\ alternate (bounds s) = true.
Proof.
  intros Hn H. unfold Spec.wf_sorted in H.
  assert (X : no_star s && increasing s && eq_rule s && alternate (bounds s) = true).
  { destruct s as [|c [|c' r]]; [exact H| |]; (destruct c; [cbn in Hn; discriminate|exact H]). }
  apply andb_true_iff in X. destruct X as [X A]. apply andb_true_iff in X. destruct X as [X E].
  apply andb_true_iff in X. destruct X as [_ I]. auto.
Qed.

Lemma wf_sorted_of s : no_star s = true -> increasing s = true -> eq_rule s = true -> alternate (bounds s) = true ->
  wf_sorted s = true.
Proof.
  intros Hn I E A. unfold Spec.wf_sorted.
  assert (X : no_star s && increasing s && eq_rule s && alternate (bounds s) = true) by (rewrite Hn, I, E, A; reflexivity).
  destruct s as [|c [|c' r]]; [exact X| |]; (destruct c; [cbn in Hn; discriminate|exact X]).
Qed.

Theorem validate_exact : forall cs, validate cs = Ok true <-> wf cs.
Proof.
  intros cs. rewrite validate_unfold. split.
  - intros H.
    destruct (nodup_ver cs) eqn:Hd; cbn [negb] in H; [|discriminate].
    destruct (Nat.ltb 1 (length cs) && existsb (is_star V) cs) eqn:Hs; [discriminate|].
    destruct (existsb (is_star V) cs) eqn:Hst.
    + left. apply star_alone; [rewrite Hst; exact Hs|exact Hst].
    + right. assert (Hn : no_star cs = true) by (apply negb_true_iff; exact Hst).
      split; [exact Hn|].
      destruct (sort_incr V cmp T cs Hn Hd) as [s [Es [Ss Ps]]].
      rewrite Es in H. exists s. split; [exact Ps|].
      assert (Hns : no_star s = true) by (rewrite <- (no_star_perm V _ _ Ps); exact Hn).
      rewrite (validate_comparators_spec s Hns) in H.
      destruct (eq_rule s && alternate (bounds s)) eqn:E; [|discriminate].
      apply andb_true_iff in E. destruct E as [E1 E2].
      apply wf_sorted_of; auto. apply strong_incr_incr. exact Ss.
  - intros [->|[Hn [s [Ps Hw]]]].
    + reflexivity.
    + assert (Hns : no_star s = true) by (rewrite <- (no_star_perm V _ _ Ps); exact Hn).
      destruct (incr_of_wf_sorted s Hns Hw) as [I [E A]].
      assert (Ss : strong_incr s = true) by (apply (incr_strong V cmp T); exact I).
      assert (Hd : nodup_ver cs = true).
      { rewrite (nodup_ver_perm V cmp T _ _ Ps). apply (strong_incr_nodup V cmp); assumption. }
      rewrite Hd. cbn [negb].
      assert (Hst : existsb (is_star V) cs = false) by (apply negb_true_iff; exact Hn).
      rewrite Hst, andb_false_r.
      destruct (sort_incr V cmp T cs Hn Hd) as [s' [Es' [Ss' Ps']]].
      rewrite Es'.
      assert (s' = s).
      { apply (strong_incr_unique V cmp T); auto. eapply perm_trans; [apply Permutation_sym; exact Ps'|exact Ps]. }
      subst s'. rewrite (validate_comparators_spec s Hns), E, A. reflexivity.
Qed.

Theorem validate_rejects_with_value_error : forall cs, validate cs = Ok true \/ validate cs = Err EValue.
Proof.
  intros cs. rewrite validate_unfold.
  destruct (nodup_ver cs) eqn:Hd; cbn [negb]; [|right; reflexivity].
  destruct (Nat.ltb 1 (length cs) && existsb (is_star V) cs) eqn:Hs; [right; reflexivity|].
  destruct (existsb (is_star V) cs) eqn:Hst.
  - assert (Ecs : cs = [Star]) by (apply star_alone; [rewrite Hst; exact Hs|exact Hst]). subst cs. left. reflexivity.
  - assert (Hn : no_star cs = true) by (apply negb_true_iff; exact Hst).
    destruct (sort_incr V cmp T cs Hn Hd) as [s [Es [Ss Ps]]]. rewrite Es.
    assert (Hns : no_star s = true) by (rewrite <- (no_star_perm V _ _ Ps); exact Hn).
    rewrite (validate_comparators_spec s Hns).
    destruct (eq_rule s && alternate (bounds s)); [left|right]; reflexivity.
Qed.

(* every accepted list can be tested for membership of any version without an error *)
Theorem validated_then_contains : forall cs, validate cs = Ok true ->
  exists s, sort_c cs = Ok s /\ Permutation cs s /\ wf_sorted s = true /\
            forall v, contains s v = Ok (den V cmp s v).
Proof.
  intros cs H. apply validate_exact in H. destruct H as [->|[Hn [s [Ps Hw]]]].
  - exists [Star]. repeat split; auto.
  - assert (Hns : no_star s = true) by (rewrite <- (no_star_perm V _ _ Ps); exact Hn).
    destruct (incr_of_wf_sorted s Hns Hw) as [I [E A]].
    assert (Ss : strong_incr s = true) by (apply (incr_strong V cmp T); exact I).
    assert (Hd : nodup_ver cs = true).
    { rewrite (nodup_ver_perm V cmp T _ _ Ps). apply (strong_incr_nodup V cmp); assumption. }
    destruct (sort_incr V cmp T cs Hn Hd) as [s' [Es' [Ss' Ps']]].
    assert (s' = s).
    { apply (strong_incr_unique V cmp T); auto. eapply perm_trans; [apply Permutation_sym; exact Ps'|exact Ps]. }
    subst s'. exists s. repeat split; auto; try (intros v; apply (contains_sound V cmp T); exact Hw).
Qed.

End ValidateProofs.
