(* C04: the containment scan computes the interval-set denotation. *)
From Coq Require Import List Bool Arith Lia Btauto.
From UV.Base Require Import Order Cop Res ListAux.
From UV.Gen Require Import Tables.
From UV.Vers Require Import Model Spec.
Import ListNotations.

Section ContainsProofs.
Variable V : Type.
Variable cmp : V -> V -> comparison.
Hypothesis T : TPO cmp.

Notation constr := (constr V).
Notation eqb := (eqb V cmp).
Notation ltb := (ltb V cmp).
Notation gtb := (gtb V cmp).
Notation in1 := (in1 V cmp).
Notation scan := (scan V cmp).
Notation contains := (contains V cmp).
Notation admits := (admits V cmp).
Notation den := (den V cmp).
Notation den_bounds := (den_bounds V cmp).
Notation den_head := (den_head V cmp).
Notation den_last := (den_last V cmp).
Notation pair_in := (pair_in V cmp).
Notation bounds := (bounds V).
Notation c_lower := (c_lower V).
Notation c_upper := (c_upper V).
Notation c_bound := (c_bound V).
Notation c_point := (c_point V).
Notation c_eq := (c_eq V).
Notation c_ne := (c_ne V).
Notation v_ltb := (v_ltb V cmp).
Notation v_gtb := (v_gtb V cmp).
Notation v_eqb := (v_eqb V cmp).
Notation ver_lt := (ver_lt V cmp).
Notation increasing := (increasing V cmp).
Notation alternate := (alternate V).
Notation wf_sorted := (wf_sorted V cmp).

(* ---- the comparator table of /repo means what the comparators say --------- *)
Lemma in1_admits c v : c_bound c = true -> in1 c v = admits c v.
Proof.
  destruct c as [|o x]; [discriminate|].
  unfold c_bound, Model.c_lower, Model.c_upper, c_is. cbn.
  destruct o; cbn; try discriminate; destruct (cmp v x); reflexivity.
Qed.

Lemma in1_star v : in1 Star v = true.
Proof. reflexivity. Qed.

Lemma in1_eq x v : in1 (C EQ x) v = eqb v x.
Proof. cbn. unfold Model.eqb. destruct (cmp v x); reflexivity. Qed.

Lemma in1_ne x v : in1 (C NE x) v = negb (eqb v x).
Proof. cbn. unfold Model.eqb. destruct (cmp v x); reflexivity. Qed.

(* ---- bounds --------------------------------------------------------------- *)
Lemma bound_upper_lower c : c_bound c = true -> c_upper c = negb (c_lower c).
Proof. destruct c as [|o x]; [discriminate|]. destruct o; cbn; congruence. Qed.

Lemma point_or_bound c : is_star V c = false -> negb (c_point c) = c_bound c.
Proof. destruct c as [|o x]; [discriminate|]. destruct o; reflexivity. Qed.

Definition noeq (bs : list constr) (v : V) : Prop :=
  forall b, In b bs -> v_eqb v b = true -> c_is V incl b = false.

Lemma admits_up c v :
  (v_eqb v c = true -> c_is V incl c = false) -> c_lower c = true -> admits c v = v_gtb v c.
Proof.
  destruct c as [|o x]; [discriminate|]. cbn. unfold Model.eqb, Model.gtb.
  intros H U. destruct (cmp v x); destruct o; cbn in *; try discriminate; auto.
  all: specialize (H eq_refl); discriminate.
Qed.

Lemma admits_dn c v :
  (v_eqb v c = true -> c_is V incl c = false) -> c_upper c = true -> admits c v = v_ltb v c.
Proof.
  destruct c as [|o x]; [discriminate|]. cbn. unfold Model.eqb, Model.ltb.
  intros H U. destruct (cmp v x); destruct o; cbn in *; try discriminate; auto.
  all: specialize (H eq_refl); discriminate.
Qed.

Lemma increasing_cons2 a b r : increasing (a :: b :: r) = ver_lt a b && increasing (b :: r).
Proof. reflexivity. Qed.
Lemma alternate_cons2 a b r :
  alternate (a :: b :: r) = negb (Bool.eqb (c_lower a) (c_lower b)) && alternate (b :: r).
Proof. reflexivity. Qed.

(* ---- the pairwise scan ------------------------------------------------------ *)
Definition den_tail (bs : list constr) (v : V) : bool :=
  den_last bs v || existsb (pair_in v) (pairwise bs).

Lemma last_opt_cons {A} (a b : A) r : last_opt (a :: b :: r) = last_opt (b :: r).
Proof. reflexivity. Qed.

Lemma den_tail_cons cur nxt r v :
  den_tail (cur :: nxt :: r) v = pair_in v (cur, nxt) || den_tail (nxt :: r) v.
Proof.
  unfold den_tail, Spec.den_last. rewrite last_opt_cons. cbn [pairwise existsb].
  btauto.
Qed.

Lemma scan_eq first cur nxt r v :
  scan first (cur :: nxt :: r) v =
    if first && c_upper cur && v_ltb v cur then Ok true
    else if c_lower cur && c_upper nxt then
           if v_gtb v cur && v_ltb v nxt then Ok true else scan false (nxt :: r) v
    else if c_upper cur && c_lower nxt then scan false (nxt :: r) v
    else Err EInvalidConstraints.
Proof. reflexivity. Qed.

Lemma scan_false_sound : forall bs v,
  bs <> [] -> Forall (fun c => c_bound c = true) bs -> alternate bs = true -> noeq bs v ->
  scan false bs v = Ok (den_tail bs v).
Proof.
  induction bs as [|cur r IH]; intros v Hne HB Halt Hno; [congruence|].
  inversion HB as [|? ? Bc Br]; subst.
  assert (Ec : v_eqb v cur = true -> c_is V incl cur = false) by (apply Hno; left; auto).
  destruct r as [|nxt r'].
  - cbn [Model.scan]. unfold den_tail, Spec.den_last. cbn [last_opt pairwise existsb].
    rewrite orb_false_r. destruct (c_lower cur) eqn:U; cbn [andb]; [|reflexivity].
    rewrite (admits_up cur v Ec U). reflexivity.
  - inversion Br as [|? ? Bn Br']; subst.
    assert (En : v_eqb v nxt = true -> c_is V incl nxt = false) by (apply Hno; right; left; auto).
    assert (Hno' : noeq (nxt :: r') v) by (intros b Hb; apply Hno; right; exact Hb).
    rewrite alternate_cons2 in Halt. apply andb_true_iff in Halt. destruct Halt as [Hd Halt].
    rewrite den_tail_cons, scan_eq. cbn [andb].
    specialize (IH v ltac:(congruence) Br Halt Hno').
    unfold Spec.pair_in. cbn [fst snd].
    rewrite (bound_upper_lower cur Bc), (bound_upper_lower nxt Bn) in *.
    destruct (c_lower cur) eqn:Uc, (c_lower nxt) eqn:Un; cbn in Hd; try discriminate; cbn [andb negb orb].
    + rewrite (admits_up cur v Ec Uc).
      assert (Un' : c_upper nxt = true) by (rewrite (bound_upper_lower nxt Bn), Un; reflexivity).
      rewrite (admits_dn nxt v En Un').
      destruct (v_gtb v cur && v_ltb v nxt); cbn; [reflexivity|exact IH].
    + exact IH.
Qed.

Lemma scan_true_sound : forall cur nxt r v,
  Forall (fun c => c_bound c = true) (cur :: nxt :: r) -> alternate (cur :: nxt :: r) = true ->
  noeq (cur :: nxt :: r) v ->
  scan true (cur :: nxt :: r) v = Ok (den_bounds (cur :: nxt :: r) v).
Proof.
  intros cur nxt r v HB Halt Hno.
  inversion HB as [|? ? Bc Br]; subst. inversion Br as [|? ? Bn Br']; subst.
  assert (Ec : v_eqb v cur = true -> c_is V incl cur = false) by (apply Hno; left; auto).
  assert (En : v_eqb v nxt = true -> c_is V incl nxt = false) by (apply Hno; right; left; auto).
  assert (Hno' : noeq (nxt :: r) v) by (intros b Hb; apply Hno; right; exact Hb).
  rewrite alternate_cons2 in Halt. apply andb_true_iff in Halt. destruct Halt as [Hd Halt].
  pose proof (scan_false_sound (nxt :: r) v ltac:(congruence) Br Halt Hno') as IH.
  assert (DB : den_bounds (cur :: nxt :: r) v = den_head (cur :: nxt :: r) v || den_tail (cur :: nxt :: r) v).
  { unfold Spec.den_bounds, den_tail. rewrite orb_assoc. reflexivity. }
  rewrite DB, den_tail_cons, scan_eq. unfold Spec.den_head, Spec.pair_in. cbn [fst snd andb].
  rewrite (bound_upper_lower nxt Bn).
  destruct (c_lower cur) eqn:Uc.
  - assert (Uc' : c_upper cur = false) by (rewrite (bound_upper_lower cur Bc), Uc; reflexivity).
    rewrite Uc'. cbn [andb orb].
    destruct (c_lower nxt) eqn:Un; cbn in Hd; try discriminate. cbn [negb andb].
    rewrite (admits_up cur v Ec Uc).
    assert (Un' : c_upper nxt = true) by (rewrite (bound_upper_lower nxt Bn), Un; reflexivity).
    rewrite (admits_dn nxt v En Un').
    destruct (v_gtb v cur && v_ltb v nxt); cbn; [reflexivity|exact IH].
  - assert (Uc' : c_upper cur = true) by (rewrite (bound_upper_lower cur Bc), Uc; reflexivity).
    rewrite Uc'. cbn [andb orb].
    rewrite (admits_dn cur v Ec Uc').
    destruct (v_ltb v cur); cbn [orb]; [reflexivity|].
    destruct (c_lower nxt) eqn:Un; cbn in Hd; try discriminate. cbn [negb andb orb]. exact IH.
Qed.

(* ---- facts about adjacent pairs ------------------------------------------ *)
Lemma in_pairwise_or_head {A} (c : A) : forall l, In c l ->
  (exists r, l = c :: r) \/ (exists a, In (a, c) (pairwise l)).
Proof.
  induction l as [|x r IH]; intros H; [destruct H|].
  destruct H as [->|H]; [left; eauto|].
  destruct r as [|y r']; [destruct H|].
  right. destruct (IH H) as [[r0 E]|[a Ha]].
  - inversion E; subst. exists x. left. reflexivity.
  - exists a. right. exact Ha.
Qed.

Lemma in_pairwise_or_last {A} (c : A) : forall l, In c l ->
  last_opt l = Some c \/ (exists b, In (c, b) (pairwise l)).
Proof.
  induction l as [|x r IH]; intros H; [destruct H|].
  destruct r as [|y r'].
  - destruct H as [->|[]]. left. reflexivity.
  - destruct H as [->|H].
    + right. exists y. left. reflexivity.
    + destruct (IH H) as [E|[b Hb]].
      * left. rewrite last_opt_cons. exact E.
      * right. exists b. right. exact Hb.
Qed.

Lemma alternate_pair : forall l a b, alternate l = true -> In (a, b) (pairwise l) ->
  c_lower a = negb (c_lower b).
Proof.
  induction l as [|x r IH]; intros a b H Hin; [destruct Hin|].
  destruct r as [|y r']; [destruct Hin|].
  rewrite alternate_cons2 in H. apply andb_true_iff in H. destruct H as [H1 H2].
  destruct Hin as [E|Hin].
  - inversion E; subst. destruct (c_lower a), (c_lower b); cbn in *; congruence.
  - eapply IH; eauto.
Qed.

Lemma increasing_pair : forall l a b, increasing l = true -> In (a, b) (pairwise l) ->
  ver_lt a b = true.
Proof.
  induction l as [|x r IH]; intros a b H Hin; [destruct Hin|].
  destruct r as [|y r']; [destruct Hin|].
  rewrite increasing_cons2 in H. apply andb_true_iff in H. destruct H as [H1 H2].
  destruct Hin as [E|Hin].
  - inversion E; subst. exact H1.
  - eapply IH; eauto.
Qed.

(* filtering keeps a version-increasing list increasing (needs transitivity) *)
Fixpoint strong_incr (l : list constr) : bool :=
  match l with a :: r => forallb (ver_lt a) r && strong_incr r | [] => true end.

Lemma ver_lt_trans a b c : ver_lt a b = true -> ver_lt b c = true -> ver_lt a c = true.
Proof.
  destruct a as [|o1 x], b as [|o2 y], c as [|o3 z]; cbn; try discriminate.
  unfold Model.ltb. destruct (cmp x y) eqn:E1; try discriminate. destruct (cmp y z) eqn:E2; try discriminate.
  rewrite (tpo_lt _ T _ _ _ E1 E2). reflexivity.
Qed.

Lemma incr_strong : forall l, increasing l = true -> strong_incr l = true.
Proof.
  induction l as [|a r IH]; intros H; [reflexivity|].
  destruct r as [|b r']; [reflexivity|].
  rewrite increasing_cons2 in H. apply andb_true_iff in H. destruct H as [H1 H2].
  specialize (IH H2). cbn [strong_incr] in IH. apply andb_true_iff in IH. destruct IH as [I1 I2].
  cbn [strong_incr forallb]. rewrite H1, I1, I2. cbn [andb]. rewrite andb_true_r.
  apply forallb_forall. intros c Hc. rewrite forallb_forall in I1. eapply ver_lt_trans; eauto.
Qed.

Lemma strong_incr_filter p : forall l, strong_incr l = true -> strong_incr (filter p l) = true.
Proof.
  induction l as [|a r IH]; intros H; [reflexivity|].
  cbn [strong_incr] in H. apply andb_true_iff in H. destruct H as [H1 H2].
  cbn [filter]. destruct (p a); [|apply IH; exact H2].
  cbn [strong_incr]. rewrite (IH H2), andb_true_r.
  apply forallb_forall. intros c Hc. apply filter_In in Hc. destruct Hc as [Hc _].
  rewrite forallb_forall in H1. apply H1. exact Hc.
Qed.

Lemma strong_incr_incr : forall l, strong_incr l = true -> increasing l = true.
Proof.
  induction l as [|a r IH]; intros H; [reflexivity|].
  cbn [strong_incr] in H. apply andb_true_iff in H. destruct H as [H1 H2].
  destruct r as [|b r']; [reflexivity|].
  rewrite increasing_cons2, (IH H2), andb_true_r.
  rewrite forallb_forall in H1. apply H1. left. reflexivity.
Qed.

Lemma increasing_filter p l : increasing l = true -> increasing (filter p l) = true.
Proof. intro H. apply strong_incr_incr, strong_incr_filter, incr_strong, H. Qed.

(* ---- a probe equal to an inclusive bound lies in the interval it delimits -- *)
Lemma incl_bound_in_den : forall bs c v,
  Forall (fun c => c_bound c = true) bs -> alternate bs = true -> increasing bs = true ->
  In c bs -> c_is V incl c = true -> v_eqb v c = true ->
  den_bounds bs v = true.
Proof.
  intros bs c v HB Halt Hinc Hin Hincl Heq.
  destruct c as [|o x]; [discriminate|]. cbn in Hincl, Heq.
  unfold Model.eqb in Heq. destruct (cmp v x) eqn:Evx; try discriminate.
  assert (Hadm : admits (C o x) v = true) by (cbn; rewrite Evx; exact Hincl).
  unfold Spec.den_bounds.
  destruct o; cbn in Hincl; try discriminate.
  - (* GE: last, or followed by an upper bound strictly above *)
    destruct (in_pairwise_or_last _ _ Hin) as [E|[b Hb]].
    + unfold Spec.den_last. rewrite E. cbn [c_lower Model.c_lower c_is lower andb]. rewrite Hadm.
      rewrite orb_true_r. reflexivity.
    + assert (Hex : existsb (pair_in v) (pairwise bs) = true).
      { apply existsb_exists. exists (C GE x, b). split; [exact Hb|].
        pose proof (alternate_pair _ _ _ Halt Hb) as A. cbn in A.
        pose proof (increasing_pair _ _ _ Hinc Hb) as I.
        assert (Bb : c_bound b = true).
        { rewrite Forall_forall in HB. apply HB.
          clear -Hb. induction bs as [|a r IH]; [destruct Hb|]. destruct r as [|y r']; [destruct Hb|].
          destruct Hb as [E|Hb]; [inversion E; subst; right; left; reflexivity|right; apply IH; exact Hb]. }
        assert (Lb : c_lower b = false) by (destruct (c_lower b); [discriminate|reflexivity]).
        assert (Ub : c_upper b = true) by (rewrite (bound_upper_lower b Bb), Lb; reflexivity).
        unfold Spec.pair_in. cbn [fst snd]. rewrite Hadm, Ub. cbn.
        destruct b as [|o2 y]; [discriminate|]. cbn in I. unfold Model.ltb in I.
        destruct (cmp x y) eqn:Exy; try discriminate.
        cbn. rewrite (tpo_eq_l _ T _ _ _ Evx), Exy. exact Ub. }
      rewrite Hex, orb_true_r. reflexivity.
  - (* LE: first, or preceded by a lower bound strictly below *)
    destruct (in_pairwise_or_head _ _ Hin) as [[r E]|[a Ha]].
    + subst bs. unfold Spec.den_head. cbn [c_upper Model.c_upper c_is upper andb]. rewrite Hadm. reflexivity.
    + assert (Hex : existsb (pair_in v) (pairwise bs) = true).
      { apply existsb_exists. exists (a, C LE x). split; [exact Ha|].
        pose proof (alternate_pair _ _ _ Halt Ha) as A. cbn in A.
        pose proof (increasing_pair _ _ _ Hinc Ha) as I.
        assert (La : c_lower a = true) by (rewrite A; reflexivity).
        unfold Spec.pair_in. cbn [fst snd]. rewrite Hadm, La. cbn.
        destruct a as [|o1 y]; [discriminate|]. cbn in I. unfold Model.ltb in I.
        destruct (cmp y x) eqn:Eyx; try discriminate.
        cbn. assert (Evy : cmp v y = Gt).
        { rewrite (tpo_eq_l _ T _ _ _ Evx). apply (tpo_gt_lt _ T). exact Eyx. }
        rewrite Evy. rewrite andb_true_r. exact La. }
      rewrite Hex, orb_true_r. reflexivity.
Qed.

(* ---- C04 ----------------------------------------------------------------- *)
Lemma has_ne_is_ne c : c_is V has_ne_substr c = c_ne c.
Proof. destruct c as [|o x]; [reflexivity|]. destruct o; reflexivity. Qed.

Lemma filter_points_bounds cs :
  no_star V cs = true -> filter (fun c => negb (c_point c)) cs = bounds cs.
Proof.
  unfold no_star, Spec.bounds. intro H. apply negb_true_iff in H.
  induction cs as [|c r IH]; [reflexivity|].
  cbn [existsb] in H. apply orb_false_iff in H. destruct H as [H1 H2].
  cbn [filter]. rewrite (point_or_bound c H1), (IH H2). reflexivity.
Qed.

Lemma bounds_all_bound cs : Forall (fun c => c_bound c = true) (bounds cs).
Proof. apply Forall_forall. intros c H. apply filter_In in H. tauto. Qed.

Theorem contains_sound : forall cs v,
  wf_sorted cs = true -> contains cs v = Ok (den cs v).
Proof.
  intros cs v Hwf.
  destruct cs as [|c [|c' r]].
  - (* empty *) reflexivity.
  - (* one constraint *)
    destruct c as [|o x]; [reflexivity|].
    unfold Model.contains. f_equal.
    destruct o; cbv; destruct (cmp v x); reflexivity.
  - (* two or more *)
    set (cs := c :: c' :: r) in *.
    assert (Hwf' : no_star V cs && increasing cs && Spec.eq_rule V cs && alternate (bounds cs) = true).
    { destruct c as [|o x]; exact Hwf. }
    clear Hwf. apply andb_true_iff in Hwf'. destruct Hwf' as [Hwf Halt].
    apply andb_true_iff in Hwf. destruct Hwf as [Hwf Heqr].
    apply andb_true_iff in Hwf. destruct Hwf as [Hns Hinc].
    assert (Dcs : den cs v =
      if negb (is_nil cs) && forallb c_ne cs then negb (existsb (at_ver V cmp v) cs)
      else (den_bounds (bounds cs) v || existsb (fun c => c_eq c && at_ver V cmp v c) cs)
           && negb (existsb (fun c => c_ne c && at_ver V cmp v c) cs)).
    { unfold cs. destruct c as [|o x]; reflexivity. }
    assert (Ccs : contains cs v =
      if existsb (fun c => c_is V has_ne_substr c && v_eqb v c) cs then Ok false
      else if existsb (fun c => c_is V has_eq_char c && v_eqb v c) cs then Ok true
      else match filter (fun c => negb (c_point c)) cs with
           | [] => Ok (negb (is_nil cs) && forallb c_ne cs)
           | [b] => Ok (in1 b v)
           | bs => scan true bs v
           end).
    { reflexivity. }
    rewrite Ccs, Dcs. clear Ccs Dcs.
    assert (NEsame : existsb (fun c => c_is V has_ne_substr c && v_eqb v c) cs
                     = existsb (fun c => c_ne c && at_ver V cmp v c) cs).
    { apply existsb_ext_in. intros a _. rewrite has_ne_is_ne. reflexivity. }
    rewrite NEsame.
    destruct (existsb (fun c => c_ne c && at_ver V cmp v c) cs) eqn:NEhit.
    + (* excluded by a != *)
      destruct (negb (is_nil cs) && forallb c_ne cs) eqn:AllNE.
      * f_equal. symmetry. apply negb_false_iff.
        apply existsb_exists in NEhit. destruct NEhit as [a [Ha Hb]]. apply andb_true_iff in Hb.
        apply existsb_exists. exists a. tauto.
      * rewrite andb_false_r. reflexivity.
    + destruct (existsb (fun c => c_is V has_eq_char c && v_eqb v c) cs) eqn:EQhit.
      * (* equal to an "=", "<=" or ">=" version *)
        apply existsb_exists in EQhit. destruct EQhit as [a [Ha Hb]]. apply andb_true_iff in Hb.
        destruct Hb as [Hchar Hveq].
        assert (Hnotne : c_ne a = false).
        { destruct (c_ne a) eqn:E; [|reflexivity].
          assert (X : existsb (fun c => c_ne c && at_ver V cmp v c) cs = true).
          { apply existsb_exists. exists a. split; [exact Ha|]. rewrite E. exact Hveq. }
          congruence. }
        assert (AllNE : negb (is_nil cs) && forallb c_ne cs = false).
        { apply andb_false_iff. right. apply not_true_iff_false. intro F.
          rewrite forallb_forall in F. rewrite (F a Ha) in Hnotne. discriminate. }
        rewrite AllNE. cbn [negb]. rewrite andb_true_r. f_equal. symmetry.
        destruct a as [|o x]; [discriminate|].
        destruct o; cbn in Hchar, Hnotne; try discriminate.
        -- (* GE *) apply orb_true_iff. left.
           apply (incl_bound_in_den (bounds cs) (C GE x) v); auto.
           ++ apply bounds_all_bound.
           ++ apply increasing_filter. exact Hinc.
           ++ apply filter_In. split; [exact Ha|reflexivity].
        -- (* LE *) apply orb_true_iff. left.
           apply (incl_bound_in_den (bounds cs) (C LE x) v); auto.
           ++ apply bounds_all_bound.
           ++ apply increasing_filter. exact Hinc.
           ++ apply filter_In. split; [exact Ha|reflexivity].
        -- (* EQ *) apply orb_true_iff. right. apply existsb_exists. exists (C EQ x). split; [exact Ha|].
           cbn. exact Hveq.
      * (* neither: the interval scan *)
        rewrite (filter_points_bounds cs Hns). cbn [negb]. rewrite andb_true_r.
        assert (NoEQ : existsb (fun c => c_eq c && at_ver V cmp v c) cs = false).
        { apply not_true_iff_false. intro F. apply existsb_exists in F. destruct F as [a [Ha Hb]].
          apply andb_true_iff in Hb. destruct Hb as [H1 H2].
          assert (X : existsb (fun c => c_is V has_eq_char c && v_eqb v c) cs = true).
          { apply existsb_exists. exists a. split; [exact Ha|].
            destruct a as [|o x]; [discriminate|]. destruct o; cbn in H1; try discriminate. cbn. exact H2. }
          congruence. }
        rewrite NoEQ, orb_false_r.
        assert (Hnoeq : noeq (bounds cs) v).
        { intros b Hb Hveq. apply filter_In in Hb. destruct Hb as [Hb _].
          destruct (c_is V incl b) eqn:E; [|reflexivity].
          assert (X : existsb (fun c => c_is V has_eq_char c && v_eqb v c) cs = true).
          { apply existsb_exists. exists b. split; [exact Hb|].
            destruct b as [|o x]; [discriminate|]. destruct o; cbn in E; try discriminate; cbn; exact Hveq. }
          congruence. }
        pose proof (bounds_all_bound cs) as HB.
        destruct (bounds cs) as [|b [|b' bs']] eqn:Ebs.
        -- (* no bound at all *)
           destruct (negb (is_nil cs) && forallb c_ne cs) eqn:AllNE.
           ++ f_equal. symmetry. apply negb_true_iff. apply not_true_iff_false. intro F.
              apply existsb_exists in F. destruct F as [a [Ha Hb]].
              apply andb_true_iff in AllNE. destruct AllNE as [_ AllNE]. rewrite forallb_forall in AllNE.
              assert (X : existsb (fun c => c_ne c && at_ver V cmp v c) cs = true).
              { apply existsb_exists. exists a. split; [exact Ha|]. rewrite (AllNE a Ha). exact Hb. }
              congruence.
           ++ reflexivity.
        -- (* one bound *)
           inversion HB as [|? ? Bb _]; subst.
           assert (AllNE : negb (is_nil cs) && forallb c_ne cs = false).
           { apply andb_false_iff. right. apply not_true_iff_false. intro F. rewrite forallb_forall in F.
             assert (Hin : In b cs).
             { assert (X : In b (bounds cs)) by (rewrite Ebs; left; reflexivity). apply filter_In in X. tauto. }
             specialize (F b Hin). destruct b as [|o x]; [discriminate|]. destruct o; cbn in *; discriminate. }
           rewrite AllNE. f_equal. rewrite (in1_admits b v Bb).
           unfold Spec.den_bounds, Spec.den_head, Spec.den_last. cbn [last_opt pairwise existsb].
           rewrite orb_false_r, (bound_upper_lower b Bb).
           destruct (c_lower b); cbn; destruct (admits b v); reflexivity.
        -- (* two or more bounds *)
           assert (AllNE : negb (is_nil cs) && forallb c_ne cs = false).
           { apply andb_false_iff. right. apply not_true_iff_false. intro F. rewrite forallb_forall in F.
             inversion HB as [|? ? Bb _]; subst.
             assert (Hin : In b cs).
             { assert (X : In b (bounds cs)) by (rewrite Ebs; left; reflexivity). apply filter_In in X. tauto. }
             specialize (F b Hin). destruct b as [|o x]; [discriminate|]. destruct o; cbn in *; discriminate. }
           rewrite AllNE. apply scan_true_sound; auto.
Qed.

(* The answer depends only on how the probe compares with the constraint versions. *)
Definition same_position (cs : list constr) (v v' : V) : Prop :=
  forall o x, In (C o x) cs -> cmp v x = cmp v' x.

Lemma den_ext_aux (f g : constr -> bool) l : (forall c, In c l -> f c = g c) -> existsb f l = existsb g l.
Proof. intro H. apply existsb_ext_in. exact H. Qed.

Lemma scan_ext : forall bs first v v',
  same_position bs v v' -> scan first bs v = scan first bs v'.
Proof.
  induction bs as [|cur r IH]; intros first v v' H; [reflexivity|].
  assert (Hc : v_ltb v cur = v_ltb v' cur /\ v_gtb v cur = v_gtb v' cur).
  { destruct cur as [|o x]; [split; reflexivity|]. cbn. unfold Model.ltb, Model.gtb.
    rewrite (H o x (or_introl eq_refl)). split; reflexivity. }
  destruct Hc as [Hl Hg].
  destruct r as [|nxt r'].
  - cbn. rewrite Hg. reflexivity.
  - assert (Hn : v_ltb v nxt = v_ltb v' nxt).
    { destruct nxt as [|o x]; [reflexivity|]. cbn. unfold Model.ltb.
      rewrite (H o x (or_intror (or_introl eq_refl))). reflexivity. }
    rewrite !scan_eq, Hl, Hg, Hn.
    assert (IH' : scan false (nxt :: r') v = scan false (nxt :: r') v').
    { apply IH. intros o x Hin. apply (H o x). right. exact Hin. }
    rewrite IH'. reflexivity.
Qed.

Theorem contains_ext : forall cs v v', same_position cs v v' -> contains cs v = contains cs v'.
Proof.
  intros cs v v' H.
  assert (Hin1 : forall c, In c cs -> in1 c v = in1 c v').
  { intros c Hc. destruct c as [|o x]; [reflexivity|]. cbn. rewrite (H o x Hc). reflexivity. }
  assert (Heq : forall c, In c cs -> v_eqb v c = v_eqb v' c).
  { intros c Hc. destruct c as [|o x]; [reflexivity|]. cbn. unfold Model.eqb. rewrite (H o x Hc). reflexivity. }
  destruct cs as [|c [|c' r]]; [reflexivity| |].
  - unfold Model.contains. rewrite (Hin1 c (or_introl eq_refl)). reflexivity.
  - set (cs := c :: c' :: r) in *.
    change (contains cs v) with
      (if existsb (fun c => c_is V has_ne_substr c && v_eqb v c) cs then Ok false
       else if existsb (fun c => c_is V has_eq_char c && v_eqb v c) cs then Ok true
       else match filter (fun c => negb (c_point c)) cs with
            | [] => Ok (negb (is_nil cs) && forallb c_ne cs)
            | [b] => Ok (in1 b v)
            | bs => scan true bs v
            end).
    change (contains cs v') with
      (if existsb (fun c => c_is V has_ne_substr c && v_eqb v' c) cs then Ok false
       else if existsb (fun c => c_is V has_eq_char c && v_eqb v' c) cs then Ok true
       else match filter (fun c => negb (c_point c)) cs with
            | [] => Ok (negb (is_nil cs) && forallb c_ne cs)
            | [b] => Ok (in1 b v')
            | bs => scan true bs v'
            end).
    rewrite (den_ext_aux (fun c => c_is V has_ne_substr c && v_eqb v c) (fun c => c_is V has_ne_substr c && v_eqb v' c) cs)
      by (intros a Ha; rewrite (Heq a Ha); reflexivity).
    rewrite (den_ext_aux (fun c => c_is V has_eq_char c && v_eqb v c) (fun c => c_is V has_eq_char c && v_eqb v' c) cs)
      by (intros a Ha; rewrite (Heq a Ha); reflexivity).
    assert (Hsub : forall b, In b (filter (fun c => negb (c_point c)) cs) -> In b cs)
      by (intros b Hb; apply filter_In in Hb; tauto).
    destruct (filter (fun c => negb (c_point c)) cs) as [|b [|b' bs']] eqn:E; [reflexivity| |].
    + rewrite (Hin1 b (Hsub b (or_introl eq_refl))). reflexivity.
    + rewrite (scan_ext (b :: b' :: bs') true v v'); [reflexivity|].
      intros o x Hin. apply (H o x). apply Hsub. exact Hin.
Qed.

End ContainsProofs.
