(* C08: simplification keeps the meaning, only removes, reaches a valid fixed point. *)
From Coq Require Import List Bool Arith Lia Btauto Permutation.
From UV.Base Require Import Order Cop Res ListAux.
From UV.Gen Require Import Tables.
From UV.Vers Require Import Model Spec ContainsProofs SortProofs ValidateProofs Cuts InvertProofs NormalizeProofs.
Import ListNotations.

Section SimplifyProofs.
Variable V : Type.
Variable cmp : V -> V -> comparison.
Hypothesis T : TPO cmp.

Notation constr := (constr V).
Notation bounds := (bounds V).
Notation c_lower := (c_lower V).
Notation c_upper := (c_upper V).
Notation c_bound := (c_bound V).
Notation c_eq := (c_eq V).
Notation c_ne := (c_ne V).
Notation ver_lt := (ver_lt V cmp).
Notation strong_incr := (strong_incr V cmp).
Notation cut_below := (cut_below V cmp).
Notation no_star := (no_star V).
Notation at_ver := (at_ver V cmp).
Notation v_eqb := (v_eqb V cmp).
Notation mem := (mem V cmp).
Notation drop_next := (drop_next V).
Notation drop_cur := (drop_cur V).
Notation simp := (simp V).
Notation sort_c := (sort_c V cmp).
Notation nearest_below_up := (nearest_below_up V cmp).
Notation nearest_above_down := (nearest_above_down V cmp).

(* ---- the meaning as a left-to-right state machine (a proof device) ------------ *)
Definition prev_up (prev : option bool) : bool := match prev with Some u => u | None => false end.

Fixpoint memr (prev : option bool) (l : list constr) (p : V) : bool :=
  match l with
  | [] => prev_up prev
  | c :: r =>
      if c_eq c then (if v_eqb p c then true else memr prev r p)
      else if c_bound c then (if cut_below p c then memr (Some (c_lower c)) r p else prev_up prev || c_upper c)
      else memr prev r p
  end.

Lemma memr_cons prev c r p : memr prev (c :: r) p =
      if c_eq c then (if v_eqb p c then true else memr prev r p)
      else if c_bound c then (if cut_below p c then memr (Some (c_lower c)) r p else prev_up prev || c_upper c)
      else memr prev r p.
Proof. reflexivity. Qed.

(* once a cut is above the probe, every later constraint is strictly above it *)
Lemma later_above a r p : forallb (ver_lt a) r = true -> c_bound a = true -> cut_below p a = false ->
  forallb (fun c => negb (cut_below p c) && negb (v_eqb p c)) r = true.
Proof.
  intros H Ba Ca. apply forallb_forall. intros b Hb. rewrite forallb_forall in H. specialize (H b Hb).
  destruct a as [|oa x]; [discriminate|]. destruct b as [|ob y]; [discriminate|]. cbn in H. unfold Model.ltb in H.
  destruct (cmp x y) eqn:Exy; try discriminate.
  cbn in Ca. cbn.
  destruct (cmp x p) eqn:Exp; try discriminate.
  - (* x ~ p: y above p *)
    assert (Eyp : cmp y p = Gt).
    { apply (tpo_gt_lt _ T). rewrite <- (tpo_eq_l _ T _ _ _ Exp). exact Exy. }
    rewrite Eyp. unfold Model.eqb. rewrite (tpo_sym _ T y p), Eyp. reflexivity.
  - assert (Epx : cmp p x = Lt) by (apply (tpo_gt_lt _ T); exact Exp).
    assert (Epy : cmp p y = Lt) by (eapply (tpo_lt _ T); eauto).
    assert (Eyp : cmp y p = Gt) by (apply (tpo_gt_lt _ T); exact Epy).
    rewrite Eyp. unfold Model.eqb. rewrite Epy. reflexivity.
Qed.

Lemma last_opt_nonempty {A} (x : A) xs : exists b, last_opt (x :: xs) = Some b.
Proof.
  revert x. induction xs as [|y r IH]; intros x; [exists x; reflexivity|].
  rewrite last_opt_cons. apply IH.
Qed.

Definition lo_from (prev : option bool) (bs : list constr) (p : V) : bool :=
  match last_opt (filter (cut_below p) bs) with Some b => c_lower b | None => prev_up prev end.

Lemma bounds_cons c r : bounds (c :: r) = if c_bound c then c :: bounds r else bounds r.
Proof. reflexivity. Qed.

Theorem memr_char : forall l prev p, strong_incr l = true ->
  memr prev l p = existsb (fun c => c_eq c && at_ver p c) l
                  || lo_from prev (bounds l) p || nearest_above_down (bounds l) p.
Proof.
  induction l as [|c r IH]; intros prev p Hs.
  - cbn. unfold lo_from, Spec.nearest_above_down. cbn. rewrite orb_false_r. reflexivity.
  - cbn [ContainsProofs.strong_incr] in Hs. apply andb_true_iff in Hs. destruct Hs as [Hc Hr].
    rewrite memr_cons, bounds_cons. cbn [existsb].
    destruct (c_eq c) eqn:Ec.
    + assert (Bc : c_bound c = false) by (destruct c as [|o x]; [discriminate|]; destruct o; cbn in *; congruence).
      rewrite Bc. unfold Spec.at_ver. destruct (v_eqb p c); [reflexivity|]. cbn [andb orb]. apply IH. exact Hr.
    + cbn [andb orb]. destruct (c_bound c) eqn:Bc; [|apply IH; exact Hr].
      destruct (cut_below p c) eqn:Cc.
      * rewrite (IH (Some (c_lower c)) p Hr). unfold lo_from, Spec.nearest_above_down. cbn [filter]. rewrite Cc. cbn [negb].
        destruct (filter (cut_below p) (bounds r)) as [|x xs] eqn:Ef; [reflexivity|]. rewrite last_opt_cons.
        destruct (last_opt_nonempty x xs) as [b Eb]. rewrite Eb. reflexivity.
      * pose proof (later_above c r p Hc Bc Cc) as Hl. rewrite forallb_forall in Hl.
        assert (E1 : existsb (fun c0 => c_eq c0 && at_ver p c0) r = false).
        { apply not_true_iff_false. intro F. apply existsb_exists in F. destruct F as [b [Hb Fb]].
          specialize (Hl b Hb). apply andb_true_iff in Fb. destruct Fb as [_ Fb]. unfold Spec.at_ver in Fb.
          rewrite Fb in Hl. rewrite andb_false_r in Hl. discriminate. }
        assert (E2 : filter (cut_below p) (bounds r) = []).
        { apply filter_none. apply forallb_forall. intros b Hb. apply filter_In in Hb. destruct Hb as [Hb _].
          specialize (Hl b Hb). apply andb_true_iff in Hl. tauto. }
        rewrite E1. unfold lo_from, Spec.nearest_above_down. cbn [filter]. rewrite Cc, E2. cbn. reflexivity.
Qed.

(* memr ignores "!=" *)
Lemma memr_filter_ne : forall l prev p, memr prev (filter (fun c => negb (c_ne c)) l) p = memr prev l p.
Proof.
  induction l as [|c r IH]; intros prev p; [reflexivity|]. cbn [filter].
  destruct (c_ne c) eqn:En; cbn [negb].
  - rewrite memr_cons.
    assert (E1 : c_eq c = false) by (destruct c as [|o x]; [discriminate|]; destruct o; cbn in *; congruence).
    assert (E2 : c_bound c = false) by (destruct c as [|o x]; [discriminate|]; destruct o; cbn in *; congruence).
    rewrite E1, E2. apply IH.
  - rewrite !memr_cons. rewrite !IH. reflexivity.
Qed.

(* the property's wording, for a version-increasing list *)
Theorem mem_memr : forall cs p, strong_incr cs = true ->
  mem cs p = negb (existsb (fun c => c_ne c && at_ver p c) cs)
             && (memr None cs p || (negb (is_nil cs) && forallb c_ne cs)).
Proof.
  intros cs p Hs. unfold Spec.mem. f_equal. rewrite (memr_char cs None p Hs).
  unfold lo_from, Spec.nearest_below_up. cbn [prev_up]. reflexivity.
Qed.

(* ---- the two rules keep the meaning ---------------------------------------------- *)
Lemma cut_mono_lt a b p : ver_lt a b = true -> cut_below p a = false -> cut_below p b = false.
Proof.
  intros H Ca. destruct (cut_below p b) eqn:Cb; [|reflexivity].
  rewrite (cut_below_mono V cmp T a b p H Cb) in Ca. discriminate.
Qed.

Lemma memr_true_above : forall l p,
  forallb (fun c => negb (cut_below p c) && negb (v_eqb p c)) l = true ->
  forallb (fun c => negb (is_star V c)) l = true ->
  memr (Some true) l p = true.
Proof.
  induction l as [|c r IH]; intros p H Hn; [reflexivity|].
  cbn [forallb] in H, Hn. apply andb_true_iff in H. destruct H as [H1 H2]. apply andb_true_iff in Hn. destruct Hn as [Hn1 Hn2].
  apply andb_true_iff in H1. destruct H1 as [Hc He]. apply negb_true_iff in Hc. apply negb_true_iff in He.
  rewrite memr_cons, He, Hc. destruct (c_eq c); [apply IH; assumption|].
  destruct (c_bound c); [reflexivity|apply IH; assumption].
Qed.

Lemma at_above_of_eq c r p : forallb (ver_lt c) r = true -> v_eqb p c = true ->
  forallb (fun b => negb (cut_below p b) && negb (v_eqb p b)) r = true.
Proof.
  intros H E. apply forallb_forall. intros b Hb. rewrite forallb_forall in H. specialize (H b Hb).
  destruct c as [|oc x]; [discriminate|]. destruct b as [|ob y]; [discriminate|]. cbn in *. unfold Model.ltb, Model.eqb in *.
  destruct (cmp p x) eqn:Epx; try discriminate. destruct (cmp x y) eqn:Exy; try discriminate.
  assert (Epy : cmp p y = Lt) by (rewrite (tpo_eq_l _ T _ _ _ Epx); exact Exy).
  rewrite Epy. assert (Eyp : cmp y p = Gt) by (apply (tpo_gt_lt _ T); exact Epy). rewrite Eyp. reflexivity.
Qed.

Lemma strong_incr_no_star_tail c r : no_star (c :: r) = true -> forallb (fun c => negb (is_star V c)) r = true.
Proof.
  rewrite no_star_cons. intros H. apply andb_true_iff in H. destruct H as [_ H]. unfold Spec.no_star in H.
  apply negb_true_iff in H. apply forallb_forall. intros b Hb. destruct (is_star V b) eqn:E; [|reflexivity].
  assert (X : existsb (is_star V) r = true) by (apply existsb_exists; eauto). congruence.
Qed.

(* Rule A: after a lower bound, a following "=" or lower bound is redundant *)
Lemma ruleA : forall prev a x l2 p,
  strong_incr (a :: x :: l2) = true -> no_star (a :: x :: l2) = true -> drop_next a x = true ->
  memr prev (a :: x :: l2) p = memr prev (a :: l2) p.
Proof.
  intros prev a x l2 p Hs Hn Hd. unfold Model.drop_next in Hd. apply andb_true_iff in Hd. destruct Hd as [La Hx].
  assert (Ea : c_eq a = false) by (destruct a as [|o v]; [discriminate|]; destruct o; cbn in *; congruence).
  assert (Ba : c_bound a = true) by (unfold Model.c_bound; rewrite La; reflexivity).
  rewrite (memr_cons prev a (x :: l2)), (memr_cons prev a l2), Ea, Ba.
  destruct (cut_below p a) eqn:Ca; [|reflexivity].
  cbn [ContainsProofs.strong_incr] in Hs. apply andb_true_iff in Hs. destruct Hs as [_ Hs]. apply andb_true_iff in Hs. destruct Hs as [Hx2 Hl2].
  assert (Hn2 : forallb (fun c => negb (is_star V c)) l2 = true).
  { rewrite no_star_cons in Hn. apply andb_true_iff in Hn. destruct Hn as [_ Hn]. apply (strong_incr_no_star_tail x l2 Hn). }
  rewrite La, memr_cons.
  destruct (c_eq x) eqn:Ex.
  - destruct (v_eqb p x) eqn:Epx; [|reflexivity].
    symmetry. apply memr_true_above; [|exact Hn2]. apply (at_above_of_eq x l2 p Hx2 Epx).
  - cbn [orb] in Hx. assert (Bx : c_bound x = true) by (unfold Model.c_bound; rewrite Hx; reflexivity).
    rewrite Bx, Hx. destruct (cut_below p x) eqn:Cx; [reflexivity|].
    cbn [prev_up orb]. symmetry. apply memr_true_above; [|exact Hn2]. apply (later_above x l2 p Hx2 Bx Cx).
Qed.

(* Rule B: before an upper bound, a preceding "=" or upper bound is redundant *)
Lemma ruleB : forall prev c d l2 p,
  strong_incr (c :: d :: l2) = true -> drop_cur c d = true ->
  memr prev (c :: d :: l2) p = memr prev (d :: l2) p.
Proof.
  intros prev c d l2 p Hs Hd. unfold Model.drop_cur in Hd. apply andb_true_iff in Hd. destruct Hd as [Hc Ud].
  assert (Ed : c_eq d = false) by (destruct d as [|o v]; [discriminate|]; destruct o; cbn in *; congruence).
  assert (Bd : c_bound d = true) by (unfold Model.c_bound; rewrite Ud, orb_true_r; reflexivity).
  assert (Ld : c_lower d = false) by (rewrite (bound_upper_lower V d Bd) in Ud; destruct (c_lower d); [discriminate|reflexivity]).
  cbn [ContainsProofs.strong_incr] in Hs. apply andb_true_iff in Hs. destruct Hs as [Hcd _].
  cbn [forallb] in Hcd. apply andb_true_iff in Hcd. destruct Hcd as [Hcd _].
  rewrite (memr_cons prev c), (memr_cons prev d l2), (memr_cons _ d l2), Ed, Bd, Ud, Ld.
  destruct (c_eq c) eqn:Ec.
  - destruct (v_eqb p c) eqn:Epc; [|reflexivity].
    (* p sits on the "=" : d is strictly above, so its cut is above p *)
    assert (Cd : cut_below p d = false).
    { destruct c as [|oc x]; [discriminate|]. destruct d as [|od y]; [discriminate|]. cbn in *. unfold Model.ltb, Model.eqb in *.
      destruct (cmp p x) eqn:Epx; try discriminate. destruct (cmp x y) eqn:Exy; try discriminate.
      assert (Epy : cmp p y = Lt) by (rewrite (tpo_eq_l _ T _ _ _ Epx); exact Exy).
      rewrite (tpo_sym _ T p y), Epy. reflexivity. }
    rewrite Cd, orb_true_r. reflexivity.
  - cbn [orb] in Hc. assert (Bc : c_bound c = true) by (unfold Model.c_bound; rewrite Hc, orb_true_r; reflexivity).
    assert (Lc : c_lower c = false) by (rewrite (bound_upper_lower V c Bc) in Hc; destruct (c_lower c); [discriminate|reflexivity]).
    rewrite Bc, Hc, Lc.
    destruct (cut_below p c) eqn:Cc.
    + destruct (cut_below p d); [reflexivity|]. cbn. rewrite orb_true_r. reflexivity.
    + rewrite (cut_mono_lt c d p Hcd Cc). rewrite !orb_true_r. reflexivity.
Qed.

(* memr only depends on the state reached after a common prefix *)
Lemma memr_prefix : forall l1 prev r r' p,
  (forall q, memr q r p = memr q r' p) -> memr prev (l1 ++ r) p = memr prev (l1 ++ r') p.
Proof.
  induction l1 as [|x l1 IH]; intros prev r r' p H; cbn [app]; [apply H|].
  rewrite !memr_cons. rewrite (IH prev r r' p H), (IH (Some (c_lower x)) r r' p H). reflexivity.
Qed.

(* ---- the index walk ------------------------------------------------------------------ *)
(* no adjacent pair triggers a rule *)
Fixpoint irred (l : list constr) : bool :=
  match l with
  | a :: ((b :: _) as r) => negb (drop_next a b) && negb (drop_cur a b) && irred r
  | _ => true
  end.
Lemma irred_cons2 a b r : irred (a :: b :: r) = negb (drop_next a b) && negb (drop_cur a b) && irred (b :: r).
Proof. reflexivity. Qed.

Lemma irred_app_one : forall l a b, irred (l ++ [a]) = true -> drop_next a b = false -> drop_cur a b = false ->
  irred (l ++ [a; b]) = true.
Proof.
  induction l as [|x l IH]; intros a b H N Cc.
  - cbn. rewrite N, Cc. reflexivity.
  - destruct l as [|y l'].
    + cbn [app] in *. rewrite irred_cons2 in *. apply andb_true_iff in H. destruct H as [H1 _]. rewrite H1. cbn. rewrite N, Cc. reflexivity.
    + cbn [app] in *. rewrite irred_cons2 in *. apply andb_true_iff in H. destruct H as [H1 H2]. rewrite H1. cbn [andb].
      apply (IH a b H2 N Cc).
Qed.

Lemma irred_prefix : forall l1 l2, irred (l1 ++ l2) = true -> irred l1 = true.
Proof.
  induction l1 as [|x l1 IH]; intros l2 H; [reflexivity|].
  destruct l1 as [|y l1']; [reflexivity|]. cbn [app] in *. rewrite irred_cons2 in *.
  apply andb_true_iff in H. destruct H as [H1 H2]. rewrite H1. cbn [andb]. apply (IH l2 H2).
Qed.

(* sublist *)
Inductive sublist {A} : list A -> list A -> Prop :=
| sl_nil : sublist [] []
| sl_skip x l1 l2 : sublist l1 l2 -> sublist l1 (x :: l2)
| sl_keep x l1 l2 : sublist l1 l2 -> sublist (x :: l1) (x :: l2).

Lemma sublist_refl {A} (l : list A) : sublist l l.
Proof. induction l; [constructor|constructor 3; assumption]. Qed.
Lemma sublist_trans {A} : forall (l2 l1 l3 : list A), sublist l1 l2 -> sublist l2 l3 -> sublist l1 l3.
Proof.
  intros l2 l1 l3 H12 H23. revert l1 H12. induction H23; intros l0 H12.
  - exact H12.
  - constructor. apply IHsublist. exact H12.
  - inversion H12; subst; [constructor 2; apply IHsublist; assumption|constructor 3; apply IHsublist; assumption].
Qed.
Lemma sublist_app {A} (a b c d : list A) : sublist a b -> sublist c d -> sublist (a ++ c) (b ++ d).
Proof. induction 1; cbn; intros; [assumption|constructor 2; auto|constructor 3; auto]. Qed.
Lemma sublist_in {A} (l1 l2 : list A) x : sublist l1 l2 -> In x l1 -> In x l2.
Proof. induction 1; cbn; intros; [assumption|right; auto|destruct H0; [left; assumption|right; auto]]. Qed.
Lemma sublist_forallb {A} (f : A -> bool) l1 l2 : sublist l1 l2 -> forallb f l2 = true -> forallb f l1 = true.
Proof. intros S H. apply forallb_forall. intros x Hx. rewrite forallb_forall in H. apply H. eapply sublist_in; eauto. Qed.

Lemma strong_incr_sublist : forall l1 l2, sublist l1 l2 -> strong_incr l2 = true -> strong_incr l1 = true.
Proof.
  intros l1 l2 S. induction S as [|x a b S IH|x a b S IH]; intros G; [reflexivity| |].
  - cbn [ContainsProofs.strong_incr] in G. apply andb_true_iff in G. destruct G as [_ G]. auto.
  - cbn [ContainsProofs.strong_incr] in *. apply andb_true_iff in G. destruct G as [G1 G2].
    rewrite (IH G2), andb_true_r. eapply sublist_forallb; eauto.
Qed.

Lemma no_star_sublist l1 l2 : sublist l1 l2 -> no_star l2 = true -> no_star l1 = true.
Proof.
  intros S H. unfold Spec.no_star in *. apply negb_true_iff in H. apply negb_true_iff.
  apply not_true_iff_false. intro F. apply existsb_exists in F. destruct F as [c [Hc Fc]].
  assert (X : existsb (is_star V) l2 = true) by (apply existsb_exists; exists c; split; [eapply sublist_in; eauto|exact Fc]). congruence.
Qed.

Lemma rev_append_rev' {A} (l l' : list A) : rev_append l l' = rev l ++ l'.
Proof. apply rev_append_rev. Qed.

(* The walk, from any state whose processed prefix (with the current element) is irreducible,
   ends in an irreducible sublist with the same meaning. *)
Theorem simp_spec : forall fuel done rest,
  2 * length rest + length done <= fuel ->
  strong_incr (rev done ++ rest) = true -> no_star (rev done ++ rest) = true ->
  irred (rev done ++ firstn 1 rest) = true ->
  let out := simp fuel done rest in
  sublist out (rev done ++ rest) /\ irred out = true /\
  (forall q p, memr q out p = memr q (rev done ++ rest) p) /\
  (rest <> [] -> out <> []).
Proof.
  induction fuel as [|f IH]; intros done rest Hf Hs Hn Hi.
  - assert (rest = []) by (destruct rest; [reflexivity|cbn in Hf; lia]).
    assert (done = []) by (destruct done; [reflexivity|cbn in Hf; lia]). subst. cbn. repeat split; try constructor; tauto.
  - destruct rest as [|cur [|nxt tl]].
    + cbn [Model.simp]. rewrite rev_append_rev'. cbn [firstn] in Hi.
      repeat split; [apply sublist_refl|exact Hi|tauto].
    + cbn [Model.simp]. rewrite rev_append_rev'. cbn [firstn] in Hi.
      repeat split; [apply sublist_refl|exact Hi|]. intros _ E. apply app_eq_nil in E. destruct E; discriminate.
    + cbn [Model.simp]. cbn [firstn] in Hi.
      assert (Hs2 : strong_incr (cur :: nxt :: tl) = true).
      { clear -Hs T. induction (rev done) as [|x l IHl]; [exact Hs|]. cbn [app ContainsProofs.strong_incr] in Hs.
        apply andb_true_iff in Hs. destruct Hs as [_ Hs]. auto. }
      assert (Hn2 : no_star (cur :: nxt :: tl) = true).
      { clear -Hn. induction (rev done) as [|x l IHl]; [exact Hn|]. cbn [app] in Hn. rewrite no_star_cons in Hn.
        apply andb_true_iff in Hn. destruct Hn as [_ Hn]. auto. }
      destruct (drop_next cur nxt) eqn:DN.
      * (* discard next *)
        assert (SL : sublist (rev done ++ cur :: tl) (rev done ++ cur :: nxt :: tl)).
        { apply sublist_app; [apply sublist_refl|]. constructor 3. constructor 2. apply sublist_refl. }
        destruct (IH done (cur :: tl)) as [S1 [I1 [M1 N1]]].
        -- cbn [length] in *. lia.
        -- eapply strong_incr_sublist; eauto.
        -- eapply no_star_sublist; eauto.
        -- cbn [firstn]. exact Hi.
        -- split; [eapply sublist_trans; eauto|]. split; [exact I1|]. split.
           ++ intros q p. rewrite M1. symmetry. apply memr_prefix. intros q'. apply ruleA; assumption.
           ++ intros _. apply N1. discriminate.
      * destruct (drop_cur cur nxt) eqn:DC.
        -- (* discard current, step back *)
           destruct done as [|pv d].
           ++ cbn [rev app] in *.
              destruct (IH [] (nxt :: tl)) as [S1 [I1 [M1 N1]]].
              ** cbn [length] in *. lia.
              ** cbn [rev app]. eapply strong_incr_sublist; [|exact Hs]. constructor. apply sublist_refl.
              ** cbn [rev app]. eapply no_star_sublist; [|exact Hn]. constructor. apply sublist_refl.
              ** reflexivity.
              ** cbn [rev app] in *. split; [constructor; exact S1|]. split; [exact I1|]. split.
                 --- intros q p. rewrite M1. symmetry. apply ruleB; assumption.
                 --- intros _. apply N1. discriminate.
           ++ cbn [rev] in *. rewrite <- app_assoc in *. cbn [app] in *.
              assert (SL : sublist (rev d ++ pv :: nxt :: tl) (rev d ++ pv :: cur :: nxt :: tl)).
              { apply sublist_app; [apply sublist_refl|]. constructor 3. constructor 2. apply sublist_refl. }
              destruct (IH d (pv :: nxt :: tl)) as [S1 [I1 [M1 N1]]].
              ** cbn [length] in *. lia.
              ** eapply strong_incr_sublist; eauto.
              ** eapply no_star_sublist; eauto.
              ** cbn [firstn]. replace (rev d ++ [pv; cur]) with ((rev d ++ [pv]) ++ [cur]) in Hi by (rewrite <- app_assoc; reflexivity).
                 apply irred_prefix in Hi. exact Hi.
              ** split; [eapply sublist_trans; eauto|]. split; [exact I1|]. split.
                 --- intros q p. rewrite M1. symmetry.
                     replace (rev d ++ pv :: cur :: nxt :: tl) with ((rev d ++ [pv]) ++ cur :: nxt :: tl) by (rewrite <- app_assoc; reflexivity).
                     replace (rev d ++ pv :: nxt :: tl) with ((rev d ++ [pv]) ++ nxt :: tl) by (rewrite <- app_assoc; reflexivity).
                     apply memr_prefix. intros q'. apply ruleB; assumption.
                 --- intros _. apply N1. discriminate.
        -- (* advance *)
           destruct (IH (cur :: done) (nxt :: tl)) as [S1 [I1 [M1 N1]]].
           ++ cbn [length] in *. lia.
           ++ cbn [rev]. rewrite <- app_assoc. exact Hs.
           ++ cbn [rev]. rewrite <- app_assoc. exact Hn.
           ++ cbn [rev firstn]. rewrite <- app_assoc. cbn [app]. apply irred_app_one; assumption.
           ++ cbn [rev] in *. rewrite <- app_assoc in *. cbn [app] in *. repeat split; auto. intros _. apply N1. discriminate.
Qed.

(* ---- an irreducible list is a fixed point of the walk and is valid ------------------ *)
Lemma irred_app_pair : forall l a b r, irred (l ++ a :: b :: r) = true ->
  drop_next a b = false /\ drop_cur a b = false.
Proof.
  induction l as [|x l IH]; intros a b r H.
  - cbn [app] in H. rewrite irred_cons2 in H. apply andb_true_iff in H. destruct H as [H _].
    apply andb_true_iff in H. destruct H as [H1 H2]. apply negb_true_iff in H1. apply negb_true_iff in H2. auto.
  - destruct l as [|y l'].
    + cbn [app] in H. rewrite irred_cons2 in H. apply andb_true_iff in H. destruct H as [_ H]. apply (IH a b r). exact H.
    + cbn [app] in *. rewrite irred_cons2 in H. apply andb_true_iff in H. destruct H as [_ H]. apply (IH a b r). exact H.
Qed.

Lemma simp_irred : forall fuel done rest, irred (rev done ++ rest) = true -> simp fuel done rest = rev done ++ rest.
Proof.
  induction fuel as [|f IH]; intros done rest H; [apply rev_append_rev|].
  destruct rest as [|cur [|nxt tl]]; try apply rev_append_rev.
  cbn [Model.simp]. destruct (irred_app_pair _ _ _ _ H) as [H1 H2]. rewrite H1, H2.
  rewrite IH; cbn [rev]; rewrite <- app_assoc; [reflexivity|exact H].
Qed.

Definition plain (l : list constr) : Prop := forall c, In c l -> c_ne c = false /\ is_star V c = false.

(* the first bound after an "=" or an upper bound is a lower bound *)
Lemma first_bound_lower : forall r a, plain (a :: r) -> irred (a :: r) = true -> c_eq a || c_upper a = true ->
  match bounds r with y :: _ => c_lower y = true | [] => True end.
Proof.
  induction r as [|b r' IH]; intros a Hp Hi Ha; [exact I|].
  rewrite irred_cons2 in Hi. apply andb_true_iff in Hi. destruct Hi as [Hi Hi']. apply andb_true_iff in Hi. destruct Hi as [_ Hc].
  apply negb_true_iff in Hc. unfold Model.drop_cur in Hc. rewrite Ha in Hc. cbn [andb] in Hc.
  destruct (Hp b (or_intror (or_introl eq_refl))) as [Nb Sb].
  rewrite bounds_cons.
  destruct (c_bound b) eqn:Bb.
  - rewrite (bound_upper_lower V b Bb) in Hc. destruct (c_lower b); [reflexivity|discriminate].
  - apply (IH b); [intros c Hc'; apply Hp; right; exact Hc'|exact Hi'|].
    destruct b as [|o x]; [discriminate|]. destruct o; cbn in *; try discriminate; reflexivity.
Qed.

Lemma irred_alternate : forall l, plain l -> irred l = true -> alternate V (bounds l) = true.
Proof.
  induction l as [|a r IH]; intros Hp Hi; [reflexivity|].
  assert (Hp' : plain r) by (intros c Hc; apply Hp; right; exact Hc).
  assert (Hi' : irred r = true).
  { destruct r as [|b r']; [reflexivity|]. rewrite irred_cons2 in Hi. apply andb_true_iff in Hi. tauto. }
  specialize (IH Hp' Hi'). rewrite bounds_cons.
  destruct (c_bound a) eqn:Ba; [|exact IH].
  destruct (bounds r) as [|y ys] eqn:Eb; [reflexivity|].
  rewrite alternate_cons2, IH, andb_true_r.
  destruct (c_lower a) eqn:La.
  - (* a lower: the very next constraint is an upper bound *)
    destruct r as [|b r']; [discriminate|].
    rewrite irred_cons2 in Hi. apply andb_true_iff in Hi. destruct Hi as [Hi _]. apply andb_true_iff in Hi. destruct Hi as [Hn _].
    apply negb_true_iff in Hn. unfold Model.drop_next in Hn. rewrite La in Hn. cbn [andb] in Hn.
    destruct (Hp b (or_intror (or_introl eq_refl))) as [Nb Sb].
    assert (Bb : c_bound b = true).
    { destruct b as [|o x]; [discriminate|]. destruct o; cbn in *; try discriminate; reflexivity. }
    rewrite bounds_cons, Bb in Eb. inversion Eb; subst. apply orb_false_iff in Hn. destruct Hn as [_ Hn]. rewrite Hn. reflexivity.
  - assert (Ua : c_eq a || c_upper a = true) by (rewrite (bound_upper_lower V a Ba), La; apply orb_true_r).
    pose proof (first_bound_lower r a Hp Hi Ua) as F. rewrite Eb in F. rewrite F. reflexivity.
Qed.

Lemma irred_eq_rule : forall l, plain l -> irred l = true -> eq_rule V l = true.
Proof.
  intros l Hp Hi. unfold Spec.eq_rule.
  assert (F : filter (fun c => negb (c_ne c)) l = l).
  { apply filter_all. apply forallb_forall. intros c Hc. destruct (Hp c Hc) as [N _]. rewrite N. reflexivity. }
  rewrite F. apply negb_true_iff. apply not_true_iff_false. intro E. apply existsb_exists in E. destruct E as [[a b] [Hab E]].
  cbn [fst snd] in E. apply andb_true_iff in E. destruct E as [Ea Ub].
  clear F Hp. induction l as [|x r IH]; [destruct Hab|]. destruct r as [|y r']; [destruct Hab|].
  rewrite irred_cons2 in Hi. apply andb_true_iff in Hi. destruct Hi as [Hi Hi']. destruct Hab as [E|Hab].
  - inversion E; subst. apply andb_true_iff in Hi. destruct Hi as [_ Hc]. apply negb_true_iff in Hc.
    unfold Model.drop_cur in Hc. rewrite Ea, Ub in Hc. discriminate.
  - apply IH; assumption.
Qed.

(* ---- strictly increasing lists: inclusion gives a sublist --------------------------- *)
Lemma ver_lt_irrefl' c : ver_lt c c = false.
Proof. destruct c as [|o x]; [reflexivity|]. cbn. unfold Model.ltb. rewrite (tpo_refl _ T). reflexivity. Qed.

Lemma incr_subset_sublist : forall l2 l1, strong_incr l1 = true -> strong_incr l2 = true ->
  (forall c, In c l1 -> In c l2) -> sublist l1 l2.
Proof.
  induction l2 as [|c r IH]; intros l1 H1 H2 Hsub.
  - destruct l1 as [|x l1']; [constructor|destruct (Hsub x (or_introl eq_refl))].
  - cbn [ContainsProofs.strong_incr] in H2. apply andb_true_iff in H2. destruct H2 as [Hc Hr].
    destruct l1 as [|x l1'].
    + constructor 2. apply IH; auto. intros d [].
    + cbn [ContainsProofs.strong_incr] in H1. apply andb_true_iff in H1. destruct H1 as [Hx Hl1].
      destruct (Hsub x (or_introl eq_refl)) as [E|Hxr].
      * subst x. constructor 3. apply IH; auto. intros d Hd.
        destruct (Hsub d (or_intror Hd)) as [E|Hdr]; [|exact Hdr].
        subst d. rewrite forallb_forall in Hx. specialize (Hx c Hd). rewrite ver_lt_irrefl' in Hx. discriminate.
      * constructor 2. apply IH; auto.
        -- cbn [ContainsProofs.strong_incr]. rewrite Hx, Hl1. reflexivity.
        -- intros d Hd. destruct (Hsub d Hd) as [E|Hdr]; [|exact Hdr]. subst d. exfalso.
           rewrite forallb_forall in Hc. pose proof (Hc x Hxr) as Hcx.
           destruct Hd as [E|Hd].
           ++ subst x. rewrite ver_lt_irrefl' in Hcx. discriminate.
           ++ rewrite forallb_forall in Hx. pose proof (Hx c Hd) as Hxc.
              pose proof (ver_lt_trans V cmp T _ _ _ Hcx Hxc) as F. rewrite ver_lt_irrefl' in F. discriminate.
Qed.

Lemma nodup_ver_sublist : forall l1 l2, sublist l1 l2 -> nodup_ver V cmp l2 = true -> nodup_ver V cmp l1 = true.
Proof.
  intros l1 l2 S. induction S as [|x a b S IH|x a b S IH]; intros G; [reflexivity| |].
  - cbn [nodup_ver] in G. apply andb_true_iff in G. destruct G as [_ G]. auto.
  - cbn [nodup_ver] in *. apply andb_true_iff in G. destruct G as [G1 G2]. rewrite (IH G2), andb_true_r.
    apply negb_true_iff in G1. apply negb_true_iff. apply not_true_iff_false. intro F. apply existsb_exists in F.
    destruct F as [c [Hc Fc]]. assert (X : existsb (same_ver V cmp x) b = true) by (apply existsb_exists; exists c; split; [eapply sublist_in; eauto|exact Fc]).
    congruence.
Qed.

Lemma perm_partition {A} (f : A -> bool) l : Permutation l (filter f l ++ filter (fun x => negb (f x)) l).
Proof.
  induction l as [|x r IH]; [constructor|]. cbn [filter]. destruct (f x); cbn [negb app].
  - constructor. exact IH.
  - eapply perm_trans; [apply perm_skip; exact IH|]. apply Permutation_middle.
Qed.

Lemma filter_sublist {A} (f : A -> bool) l : sublist (filter f l) l.
Proof. induction l as [|x r IH]; [constructor|]. cbn [filter]. destruct (f x); [constructor 3|constructor 2]; exact IH. Qed.

Lemma perm_filter {A} (f : A -> bool) l l' : Permutation l l' -> Permutation (filter f l) (filter f l').
Proof.
  induction 1 as [|x l l' P IH|x y l|l l' l'' P1 IH1 P2 IH2]; cbn [filter].
  - constructor.
  - destruct (f x); [constructor|]; assumption.
  - destruct (f x), (f y); try apply Permutation_refl. apply perm_swap.
  - eapply perm_trans; eauto.
Qed.

(* deduplicate is the identity when every version occurs once *)
Lemma c_same_same_ver a b : c_same V cmp a b = true -> same_ver V cmp a b = true.
Proof. destruct a, b; cbn; try discriminate; auto; try (intros H; apply andb_true_iff in H; tauto). Qed.

Lemma dedup_id : forall l seen, nodup_ver V cmp l = true ->
  (forall c, In c l -> existsb (same_ver V cmp c) seen = false) -> dedup_from V cmp seen l = l.
Proof.
  induction l as [|c r IH]; intros seen Hd Hs; [reflexivity|].
  cbn [nodup_ver] in Hd. apply andb_true_iff in Hd. destruct Hd as [Hd1 Hd2]. apply negb_true_iff in Hd1.
  cbn [Model.dedup_from].
  assert (E : existsb (c_same V cmp c) seen = false).
  { apply not_true_iff_false. intro F. apply existsb_exists in F. destruct F as [d [Hdd Fd]].
    assert (X : existsb (same_ver V cmp c) seen = true) by (apply existsb_exists; exists d; split; [exact Hdd|apply c_same_same_ver; exact Fd]).
    rewrite (Hs c (or_introl eq_refl)) in X. discriminate. }
  rewrite E. f_equal. apply IH; [exact Hd2|]. intros d Hd'. cbn [existsb].
  rewrite (Hs d (or_intror Hd')), orb_false_r.
  destruct (same_ver V cmp d c) eqn:F; [|reflexivity].
  assert (X : existsb (same_ver V cmp c) r = true) by (apply existsb_exists; exists d; split; [exact Hd'|rewrite (same_ver_sym V cmp T); exact F]).
  congruence.
Qed.

Lemma deduplicate_id l : nodup_ver V cmp l = true -> deduplicate V cmp l = l.
Proof. intros H. apply dedup_id; [exact H|reflexivity]. Qed.

(* ---- simplify_constraints ---------------------------------------------------------- *)
Notation simplify := (simplify V cmp).
Notation simplify_constraints := (simplify_constraints V cmp).
Notation validate := (validate V cmp).
Notation wf_sorted := (wf_sorted V cmp).

Lemma valid_of_sorted r : no_star r = true -> strong_incr r = true ->
  eq_rule V r = true -> alternate V (bounds r) = true -> validate r = Ok true.
Proof.
  intros Hn Hs He Ha. apply (validate_exact V cmp T). right. split; [exact Hn|].
  exists r. split; [apply Permutation_refl|]. apply wf_sorted_of; auto. apply strong_incr_incr. exact Hs.
Qed.

Lemma plain_of l : no_star l = true -> (forall c, In c l -> c_ne c = false) -> plain l.
Proof. intros Hn H c Hc. split; [apply H; exact Hc|eapply no_star_in; eauto]. Qed.

Lemma filter_ne_id l : forallb c_ne l = true -> filter c_ne l = l.
Proof. apply filter_all. Qed.

Lemma is_nil_false {A} (l : list A) : is_nil l = false -> l <> [].
Proof. destruct l; [discriminate|discriminate]. Qed.

Lemma eq_rule_filter l : eq_rule V l = eq_rule V (filter (fun c => negb (c_ne c)) l).
Proof.
  unfold Spec.eq_rule. f_equal. f_equal. f_equal.
  induction l as [|c r IH]; [reflexivity|]. cbn [filter]. destruct (c_ne c) eqn:E; cbn [negb]; [exact IH|].
  cbn [filter]. rewrite E. cbn [negb]. f_equal. exact IH.
Qed.

Lemma bounds_filter l : bounds l = bounds (filter (fun c => negb (c_ne c)) l).
Proof.
  unfold Spec.bounds. induction l as [|c r IH]; [reflexivity|]. cbn [filter].
  destruct (c_ne c) eqn:E; cbn [negb].
  - assert (B : c_bound c = false) by (destruct c as [|o x]; [discriminate|]; destruct o; cbn in *; congruence).
    rewrite B. exact IH.
  - cbn [filter]. destruct (c_bound c); [f_equal|]; exact IH.
Qed.

Theorem simplify_constraints_spec : forall cs, no_star cs = true -> strong_incr cs = true ->
  exists r, simplify_constraints cs = Ok r /\ strong_incr r = true /\ no_star r = true /\ sublist r cs /\
            (forall v, mem r v = mem cs v) /\ validate r = Ok true /\ simplify_constraints r = Ok r.
Proof.
  intros cs Hn Hs. unfold Model.simplify_constraints at 1.
  destruct (Nat.ltb (length cs) 2) eqn:Elen.
  - (* fewer than two constraints *)
    exists cs. split; [reflexivity|]. split; [exact Hs|]. split; [exact Hn|]. split; [apply sublist_refl|]. split; [reflexivity|].
    apply Nat.ltb_lt in Elen. split.
    + destruct cs as [|c [|c' r]]; cbn in Elen; try lia; [reflexivity|].
      destruct c as [|o x]; [cbn in Hn; discriminate|]. apply (validate_exact V cmp T). right. split; [exact Hn|].
      exists [C o x]. split; [apply Permutation_refl|]. destruct o; reflexivity.
    + unfold Model.simplify_constraints. apply Nat.ltb_lt in Elen. rewrite Elen. reflexivity.
  - cbv zeta.
    set (unequal := filter c_ne cs). set (core := filter (fun c => negb (c_ne c)) cs).
    assert (Hcore_s : strong_incr core = true) by (apply strong_incr_filter; exact Hs).
    assert (Hcore_n : no_star core = true) by (apply no_star_filter; exact Hn).
    destruct (is_nil core) eqn:Enil.
    + (* only "!=" *)
      apply is_nil_true in Enil.
      assert (AllNE : forallb c_ne cs = true).
      { apply forallb_forall. intros c Hc. destruct (c_ne c) eqn:E; [reflexivity|].
        assert (X : In c core) by (apply filter_In; split; [exact Hc|rewrite E; reflexivity]). rewrite Enil in X. destruct X. }
      assert (Eu : unequal = cs) by (apply filter_ne_id; exact AllNE).
      exists cs. rewrite Eu. split; [reflexivity|]. split; [exact Hs|]. split; [exact Hn|]. split; [apply sublist_refl|]. split; [reflexivity|]. split.
      * apply valid_of_sorted; auto.
        -- rewrite eq_rule_filter. fold core. rewrite Enil. reflexivity.
        -- rewrite (all_ne_no_bounds V cs AllNE). reflexivity.
      * unfold Model.simplify_constraints. rewrite Elen. cbv zeta. fold core unequal. rewrite Enil. cbn [is_nil]. rewrite Eu. reflexivity.
    + (* the walk over the constraints that are not "!=" *)
      pose proof (is_nil_false core Enil) as Hcne.
      pose proof (simp_spec (2 * length core) [] core ltac:(cbn [length]; lia) Hcore_s Hcore_n) as SP.
      cbn [rev app] in SP.
      assert (I1 : irred (firstn 1 core) = true) by (destruct core as [|c0 [|c1 r0]]; reflexivity).
      specialize (SP I1). cbv zeta in SP. set (out := simp (2 * length core) [] core) in *.
      destruct SP as [Sout [Iout [Mout Nout]]]. specialize (Nout Hcne).
      (* every version occurs once in unequal ++ out *)
      pose proof (strong_incr_nodup V cmp cs Hn Hs) as Hd.
      assert (Hd2 : nodup_ver V cmp (unequal ++ out) = true).
      { eapply nodup_ver_sublist; [apply sublist_app; [apply sublist_refl|exact Sout]|].
        unfold unequal, core. rewrite <- (nodup_ver_perm V cmp T _ _ (perm_partition c_ne cs)). exact Hd. }
      assert (Hn2 : no_star (unequal ++ out) = true).
      { eapply no_star_sublist; [apply sublist_app; [apply sublist_refl|exact Sout]|].
        unfold unequal, core. rewrite <- (no_star_perm V _ _ (perm_partition c_ne cs)). exact Hn. }
      rewrite (deduplicate_id _ Hd2).
      destruct (sort_incr V cmp T _ Hn2 Hd2) as [r [Er [Sr Pr]]].
      exists r. split; [exact Er|]. split; [exact Sr|].
      assert (Hnr : no_star r = true) by (rewrite <- (no_star_perm V _ _ Pr); exact Hn2).
      split; [exact Hnr|].
      (* r is a sublist of cs *)
      assert (Hsub : sublist r cs).
      { apply incr_subset_sublist; auto. intros c Hc.
        eapply Permutation_in in Hc; [|apply Permutation_sym; exact Pr]. apply in_app_or in Hc. destruct Hc as [Hc|Hc].
        - apply filter_In in Hc. tauto.
        - assert (X : In c core) by (eapply sublist_in; eauto). apply filter_In in X. tauto. }
      split; [exact Hsub|].
      (* the part of r that is not "!=" is out *)
      assert (Hout_plain : forall c, In c out -> c_ne c = false).
      { intros c Hc. assert (X : In c core) by (eapply sublist_in; eauto). apply filter_In in X. destruct X as [_ X].
        apply negb_true_iff in X. exact X. }
      assert (Hout_s : strong_incr out = true) by (eapply strong_incr_sublist; eauto).
      assert (Fr : filter (fun c => negb (c_ne c)) r = out).
      { apply (strong_incr_unique V cmp T).
        - apply strong_incr_filter. exact Sr.
        - exact Hout_s.
        - eapply perm_trans; [apply perm_filter; apply Permutation_sym; exact Pr|].
          rewrite filter_app.
          assert (F1 : filter (fun c => negb (c_ne c)) unequal = []).
          { apply filter_none. apply forallb_forall. intros c Hc. apply filter_In in Hc. destruct Hc as [_ Hc]. rewrite Hc. reflexivity. }
          assert (F2 : filter (fun c => negb (c_ne c)) out = out).
          { apply filter_all. apply forallb_forall. intros c Hc. rewrite (Hout_plain c Hc). reflexivity. }
          rewrite F1, F2. apply Permutation_refl. }
      assert (Fu : filter c_ne r = unequal).
      { apply (strong_incr_unique V cmp T).
        - apply strong_incr_filter. exact Sr.
        - apply strong_incr_filter. exact Hs.
        - eapply perm_trans; [apply perm_filter; apply Permutation_sym; exact Pr|].
          rewrite filter_app.
          assert (F1 : filter c_ne unequal = unequal).
          { apply filter_all. apply forallb_forall. intros c Hc. apply filter_In in Hc. tauto. }
          assert (F2 : filter c_ne out = []).
          { apply filter_none. apply forallb_forall. intros c Hc. rewrite (Hout_plain c Hc). reflexivity. }
          rewrite F1, F2, app_nil_r. apply Permutation_refl. }
      split.
      * (* same meaning *)
        intros v. rewrite (mem_memr r v Sr), (mem_memr cs v Hs).
        assert (N1 : existsb (fun c => c_ne c && at_ver v c) r = existsb (fun c => c_ne c && at_ver v c) cs).
        { rewrite <- (existsb_perm _ _ _ Pr), existsb_app.
          assert (Z : existsb (fun c => c_ne c && at_ver v c) out = false).
          { apply not_true_iff_false. intro F. apply existsb_exists in F. destruct F as [c [Hc Fc]]. rewrite (Hout_plain c Hc) in Fc. discriminate. }
          rewrite Z, orb_false_r. unfold unequal.
          clear. induction cs as [|c r0 IH]; [reflexivity|]. cbn [filter existsb]. destruct (c_ne c) eqn:E; cbn [existsb andb]; rewrite ?E, IH; reflexivity. }
        rewrite N1. f_equal.
        rewrite <- (memr_filter_ne r), Fr, Mout. fold core. rewrite (memr_filter_ne cs).
        assert (A1 : forallb c_ne r = false).
        { apply not_true_iff_false. intro F. rewrite forallb_forall in F.
          destruct out as [|c0 o0] eqn:Eo; [congruence|].
          assert (X : In c0 r) by (eapply Permutation_in; [exact Pr|]; apply in_or_app; right; left; reflexivity).
          specialize (F c0 X). rewrite (Hout_plain c0 (or_introl eq_refl)) in F. discriminate. }
        assert (A2 : forallb c_ne cs = false).
        { apply not_true_iff_false. intro F. rewrite forallb_forall in F.
          destruct core as [|c0 o0] eqn:Eo; [congruence|].
          assert (X : In c0 (filter (fun c => negb (c_ne c)) cs)) by (fold core; rewrite Eo; left; reflexivity).
          apply filter_In in X. destruct X as [X1 X2]. rewrite (F c0 X1) in X2. discriminate. }
        rewrite A1, A2, !andb_false_r. reflexivity.
      * assert (Pl : plain out) by (apply plain_of; [eapply no_star_sublist; eauto|exact Hout_plain]).
        split.
        -- apply valid_of_sorted; auto.
           ++ rewrite eq_rule_filter, Fr. apply irred_eq_rule; assumption.
           ++ rewrite bounds_filter, Fr. apply irred_alternate; assumption.
        -- (* a second simplification changes nothing *)
           unfold Model.simplify_constraints.
           destruct (Nat.ltb (length r) 2); [reflexivity|]. cbv zeta. rewrite Fr, Fu.
           destruct (is_nil out) eqn:En; [apply is_nil_true in En; congruence|].
           rewrite (simp_irred (2 * length out) [] out Iout). cbn [rev app].
           rewrite (deduplicate_id _ Hd2). exact Er.
Qed.

Theorem simplify_correct : forall cs, no_star cs = true -> strong_incr cs = true ->
  exists r, simplify cs = Ok r /\ sublist r cs /\ (forall v, mem r v = mem cs v) /\
            validate r = Ok true /\ simplify r = Ok r /\ strong_incr r = true /\ no_star r = true.
Proof.
  intros cs Hn Hs. unfold Model.simplify.
  rewrite (deduplicate_id cs (strong_incr_nodup V cmp cs Hn Hs)).
  destruct (simplify_constraints_spec cs Hn Hs) as [r [E [Sr [Nr [Sub [M [Vr Fx]]]]]]].
  exists r. repeat split; auto.
  rewrite (deduplicate_id r (strong_incr_nodup V cmp r Nr Sr)). exact Fx.
Qed.

End SimplifyProofs.
