(* C09: inversion yields the complement; inverting twice yields the original. *)
From Coq Require Import List Bool Arith Lia Btauto Permutation.
From UV.Base Require Import Order Cop Res ListAux.
From UV.Gen Require Import Tables.
From UV.Vers Require Import Model Spec ContainsProofs SortProofs ValidateProofs Cuts.
Import ListNotations.

Section InvertProofs.
Variable V : Type.
Variable cmp : V -> V -> comparison.
Hypothesis T : TPO cmp.

Notation constr := (constr V).
Notation in1 := (in1 V cmp).
Notation den := (den V cmp).
Notation den_bounds := (den_bounds V cmp).
Notation bounds := (bounds V).
Notation c_lower := (c_lower V).
Notation c_upper := (c_upper V).
Notation c_bound := (c_bound V).
Notation c_eq := (c_eq V).
Notation c_ne := (c_ne V).
Notation ver_lt := (ver_lt V cmp).
Notation increasing := (increasing V cmp).
Notation strong_incr := (strong_incr V cmp).
Notation alternate := (alternate V).
Notation cut_below := (cut_below V cmp).
Notation wf_sorted := (wf_sorted V cmp).
Notation no_star := (no_star V).
Notation eq_rule := (eq_rule V).
Notation nonvacuous := (nonvacuous V cmp).
Notation invert := (invert V cmp).
Notation invert_all := (invert_all V).
Notation sort_c := (sort_c V cmp).
Notation at_ver := (at_ver V cmp).
Notation all_bounds := (all_bounds V).
Notation first_above_or_last := (first_above_or_last V cmp).

(* the inverted constraint, for a constraint that has one *)
Definition inv (c : constr) : constr := match c with Star => Star | C o x => C (invert_table o) x end.

(* ---- facts about the table of /repo (re-checked whenever the table changes) -- *)
Lemma invert_table_involutive o : invert_table (invert_table o) = o.
Proof. destruct o; reflexivity. Qed.

Theorem invert_single_flips o x v : in1 (C (invert_table o) x) v = negb (in1 (C o x) v).
Proof. cbn. destruct o; destruct (cmp v x); reflexivity. Qed.

Lemma inv_lower c : c_bound c = true -> c_lower (inv c) = negb (c_lower c).
Proof. destruct c as [|o x]; [discriminate|]. destruct o; cbn; try discriminate; reflexivity. Qed.
Lemma inv_upper c : c_bound c = true -> c_upper (inv c) = negb (c_upper c).
Proof. destruct c as [|o x]; [discriminate|]. destruct o; cbn; try discriminate; reflexivity. Qed.
Lemma inv_bound c : c_bound (inv c) = c_bound c.
Proof. destruct c as [|o x]; [reflexivity|]. destruct o; reflexivity. Qed.
Lemma inv_eq c : c_eq (inv c) = c_ne c.
Proof. destruct c as [|o x]; [reflexivity|]. destruct o; reflexivity. Qed.
Lemma inv_ne c : c_ne (inv c) = c_eq c.
Proof. destruct c as [|o x]; [reflexivity|]. destruct o; reflexivity. Qed.
Lemma inv_cut v c : c_bound c = true -> cut_below v (inv c) = cut_below v c.
Proof. destruct c as [|o x]; [discriminate|]. destruct o; cbn; try discriminate; reflexivity. Qed.
Lemma inv_at v c : at_ver v (inv c) = at_ver v c.
Proof. destruct c; reflexivity. Qed.
Lemma inv_ver_lt a b : ver_lt (inv a) (inv b) = ver_lt a b.
Proof. destruct a, b; reflexivity. Qed.
Lemma inv_star c : is_star V (inv c) = is_star V c.
Proof. destruct c; reflexivity. Qed.
Lemma inv_inv c : inv (inv c) = c.
Proof. destruct c as [|o x]; [reflexivity|]. cbn. rewrite invert_table_involutive. reflexivity. Qed.

Lemma bounds_map_inv cs : bounds (map inv cs) = map inv (bounds cs).
Proof.
  unfold Spec.bounds. induction cs as [|c r IH]; [reflexivity|]. cbn [map filter].
  rewrite inv_bound. destruct (c_bound c); cbn [map]; rewrite IH; reflexivity.
Qed.

Lemma no_star_map_inv cs : no_star (map inv cs) = no_star cs.
Proof.
  unfold Spec.no_star. f_equal. induction cs as [|c r IH]; [reflexivity|]. cbn. rewrite inv_star, IH. reflexivity.
Qed.

Lemma strong_incr_map_inv cs : strong_incr (map inv cs) = strong_incr cs.
Proof.
  induction cs as [|c r IH]; [reflexivity|]. cbn [map ContainsProofs.strong_incr]. rewrite IH. f_equal.
  clear IH. induction r as [|d r' IH']; [reflexivity|]. cbn. rewrite inv_ver_lt, IH'. reflexivity.
Qed.

Lemma alternate_map_inv bs : all_bounds bs -> alternate (map inv bs) = alternate bs.
Proof.
  induction bs as [|a r IH]; intros HB; [reflexivity|].
  destruct r as [|b r']; [reflexivity|].
  inversion HB as [|? ? Ba Br]; subst. inversion Br as [|? ? Bb _]; subst.
  cbn [map]. rewrite !alternate_cons2. cbn [map] in IH. rewrite (IH Br).
  rewrite (inv_lower a Ba), (inv_lower b Bb). destruct (c_lower a), (c_lower b); reflexivity.
Qed.

Lemma all_bounds_map_inv bs : all_bounds bs -> all_bounds (map inv bs).
Proof.
  unfold Cuts.all_bounds. rewrite !Forall_forall. intros H c Hc. apply in_map_iff in Hc.
  destruct Hc as [d [<- Hd]]. rewrite inv_bound. apply H. exact Hd.
Qed.

(* ---- the bounds of the inverse denote the complement ------------------------- *)
Lemma last_opt_map {A B} (f : A -> B) l : last_opt (map f l) = option_map f (last_opt l).
Proof.
  induction l as [|x r IH]; [reflexivity|]. destruct r as [|y r']; [reflexivity|].
  cbn [map]. rewrite !last_opt_cons. exact IH.
Qed.

Lemma first_above_map_inv bs v : all_bounds bs -> bs <> [] ->
  first_above_or_last (map inv bs) v = negb (first_above_or_last bs v).
Proof.
  intros HB Hne. unfold Cuts.first_above_or_last.
  assert (F : filter (fun c => negb (cut_below v c)) (map inv bs) = map inv (filter (fun c => negb (cut_below v c)) bs)).
  { clear Hne. induction bs as [|a r IH]; [reflexivity|]. inversion HB as [|? ? Ba Br]; subst.
    cbn [map filter]. rewrite (inv_cut v a Ba). destruct (cut_below v a); cbn [negb map]; rewrite (IH Br); reflexivity. }
  rewrite F.
  destruct (filter (fun c => negb (cut_below v c)) bs) as [|a l] eqn:E.
  - cbn [map]. rewrite last_opt_map.
    destruct (last_opt bs) as [b|] eqn:El.
    + cbn. apply inv_lower.
      unfold Cuts.all_bounds in HB. rewrite Forall_forall in HB. apply HB.
      clear -El. induction bs as [|x r IH]; [discriminate|]. destruct r as [|y r'].
      * inversion El; subst. left. reflexivity.
      * right. apply IH. exact El.
    + destruct bs as [|x [|y r]]; [congruence|discriminate|].
      rewrite last_opt_cons in El. exfalso. clear -El. revert y El. induction r as [|z r IH]; intros y El; [discriminate|].
      rewrite last_opt_cons in El. eapply IH; eauto.
  - cbn [map]. apply inv_upper.
    assert (Ha : In a (filter (fun c => negb (cut_below v c)) bs)) by (rewrite E; left; reflexivity).
    apply filter_In in Ha. unfold Cuts.all_bounds in HB. rewrite Forall_forall in HB. apply HB. tauto.
Qed.

Theorem den_bounds_inverse bs v :
  all_bounds bs -> bs <> [] -> alternate bs = true -> strong_incr bs = true ->
  den_bounds (map inv bs) v = negb (den_bounds bs v).
Proof.
  intros HB Hne HA HI.
  rewrite (den_bounds_char V cmp T (map inv bs) v), (den_bounds_char V cmp T bs v); auto.
  - apply first_above_map_inv; assumption.
  - apply all_bounds_map_inv; assumption.
  - rewrite alternate_map_inv; assumption.
  - rewrite strong_incr_map_inv; assumption.
Qed.

(* ---- an '=' and a '!=' cannot sit on the same version of an increasing list -- *)
Lemma not_both_points cs v : no_star cs = true -> strong_incr cs = true ->
  existsb (fun c => c_eq c && at_ver v c) cs && existsb (fun c => c_ne c && at_ver v c) cs = false.
Proof.
  intros Hn Hs. apply not_true_iff_false. intro F. apply andb_true_iff in F. destruct F as [F1 F2].
  apply existsb_exists in F1. destruct F1 as [a [Ha Fa]]. apply existsb_exists in F2. destruct F2 as [b [Hb Fb]].
  apply andb_true_iff in Fa. destruct Fa as [Ea Aa]. apply andb_true_iff in Fb. destruct Fb as [Eb Ab].
  pose proof (strong_incr_nodup V cmp cs Hn Hs) as Hd.
  destruct a as [|oa x]; [discriminate|]. destruct b as [|ob y]; [discriminate|].
  cbn in Aa, Ab.
  assert (Hxy : Model.eqb V cmp x y = true).
  { apply (eqb_trans V cmp T x v y); [rewrite (eqb_sym V cmp T); exact Aa|exact Ab]. }
  assert (Hneq : C oa x <> C ob y) by (intro E; inversion E; subst; destruct ob; discriminate).
  clear -Hd Ha Hb Hxy Hneq T.
  induction cs as [|c r IH]; [destruct Ha|].
  cbn [nodup_ver] in Hd. apply andb_true_iff in Hd. destruct Hd as [Hd1 Hd2]. apply negb_true_iff in Hd1.
  destruct Ha as [Ea|Ha], Hb as [Eb|Hb]; [congruence| subst c | subst c |].
  - assert (X : existsb (same_ver V cmp (C oa x)) r = true) by (apply existsb_exists; exists (C ob y); split; [exact Hb|exact Hxy]).
    congruence.
  - assert (X : existsb (same_ver V cmp (C ob y)) r = true).
    { apply existsb_exists. exists (C oa x). split; [exact Ha|]. cbn. rewrite (eqb_sym V cmp T). exact Hxy. }
    congruence.
  - apply IH; assumption.
Qed.

(* ---- membership in the inverse ---------------------------------------------- *)
Lemma existsb_map {A B} (f : A -> B) (p : B -> bool) l : existsb p (map f l) = existsb (fun a => p (f a)) l.
Proof. induction l as [|x r IH]; [reflexivity|]. cbn. rewrite IH. reflexivity. Qed.
Lemma forallb_map {A B} (f : A -> B) (p : B -> bool) l : forallb p (map f l) = forallb (fun a => p (f a)) l.
Proof. induction l as [|x r IH]; [reflexivity|]. cbn. rewrite IH. reflexivity. Qed.

Lemma den_unfold cs v : no_star cs = true ->
  den cs v =
    if negb (is_nil cs) && forallb c_ne cs then negb (existsb (at_ver v) cs)
    else (den_bounds (bounds cs) v || existsb (fun c => c_eq c && at_ver v c) cs)
         && negb (existsb (fun c => c_ne c && at_ver v c) cs).
Proof.
  intros Hn. destruct cs as [|c [|c' r]]; [reflexivity| |]; (destruct c; [cbn in Hn; discriminate|reflexivity]).
Qed.

Lemma all_ne_no_bounds cs : forallb c_ne cs = true -> bounds cs = [].
Proof.
  intros H. unfold Spec.bounds. apply filter_none. apply forallb_forall. intros c Hc.
  rewrite forallb_forall in H. specialize (H c Hc). destruct c as [|o x]; [discriminate|]. destruct o; cbn in *; congruence.
Qed.

Theorem den_inverse cs v :
  cs <> [] -> no_star cs = true -> wf_sorted cs = true -> nonvacuous cs = true ->
  den (map inv cs) v = negb (den cs v).
Proof.
  intros Hne0 Hn Hw Hv.
  destruct (bounds_alt_of_wf V cmp T cs Hn Hw) as [HB [HA HI]].
  destruct (incr_of_wf_sorted V cmp cs Hn Hw) as [I _].
  pose proof (incr_strong V cmp T cs I) as Hs.
  rewrite (den_unfold (map inv cs) v) by (rewrite no_star_map_inv; exact Hn).
  rewrite (den_unfold cs v Hn).
  rewrite bounds_map_inv, !existsb_map, forallb_map.
  assert (X1 : existsb (fun a => c_eq (inv a) && at_ver v (inv a)) cs = existsb (fun c => c_ne c && at_ver v c) cs)
    by (apply existsb_ext_in; intros a _; rewrite inv_eq, inv_at; reflexivity).
  assert (X2 : existsb (fun a => c_ne (inv a) && at_ver v (inv a)) cs = existsb (fun c => c_eq c && at_ver v c) cs)
    by (apply existsb_ext_in; intros a _; rewrite inv_ne, inv_at; reflexivity).
  assert (X3 : existsb (fun a => at_ver v (inv a)) cs = existsb (at_ver v) cs)
    by (apply existsb_ext_in; intros a _; apply inv_at).
  assert (X4 : forallb (fun a => c_ne (inv a)) cs = forallb c_eq cs)
    by (apply forallb_ext_in; intros a _; apply inv_ne).
  rewrite X1, X2, X3, X4.
  assert (Nil : is_nil (map inv cs) = is_nil cs) by (destruct cs; reflexivity). rewrite Nil.
  pose proof (not_both_points cs v Hn Hs) as NB.
  destruct cs as [|c0 r0] eqn:Ecs; [congruence|]. rewrite <- Ecs in *. cbn [is_nil negb andb] in *.
  assert (Nil' : is_nil cs = false) by (rewrite Ecs; reflexivity). rewrite Nil'. cbn [negb andb].
  destruct (forallb c_ne cs) eqn:AllNE.
  - (* only != : the inverse is only = *)
    rewrite (all_ne_no_bounds cs AllNE). cbn [map].
    assert (AllEQ : forallb c_eq cs = false).
    { apply not_true_iff_false. intro F. rewrite forallb_forall in F, AllNE.
      assert (Hin : In c0 cs) by (rewrite Ecs; left; reflexivity).
      specialize (F c0 Hin). specialize (AllNE c0 Hin). destruct c0 as [|o x]; [discriminate|]. destruct o; discriminate. }
    rewrite AllEQ.
    assert (E1 : existsb (fun c => c_ne c && at_ver v c) cs = existsb (at_ver v) cs).
    { apply existsb_ext_in. intros a Ha. rewrite forallb_forall in AllNE. rewrite (AllNE a Ha). reflexivity. }
    assert (E2 : existsb (fun c => c_eq c && at_ver v c) cs = false).
    { apply not_true_iff_false. intro F. apply existsb_exists in F. destruct F as [a [Ha Fa]].
      rewrite forallb_forall in AllNE. specialize (AllNE a Ha). destruct a as [|o x]; [discriminate|]. destruct o; discriminate. }
    rewrite E1, E2. cbn. destruct (existsb (at_ver v) cs); reflexivity.
  - destruct (forallb c_eq cs) eqn:AllEQ.
    + (* only = : the inverse is only != *)
      assert (Bs : bounds cs = []).
      { unfold Spec.bounds. apply filter_none. apply forallb_forall. intros c Hc. rewrite forallb_forall in AllEQ.
        specialize (AllEQ c Hc). destruct c as [|o x]; [discriminate|]. destruct o; cbn in *; congruence. }
      rewrite Bs. cbn.
      assert (E1 : existsb (fun c => c_eq c && at_ver v c) cs = existsb (at_ver v) cs).
      { apply existsb_ext_in. intros a Ha. rewrite forallb_forall in AllEQ. rewrite (AllEQ a Ha). reflexivity. }
      assert (E2 : existsb (fun c => c_ne c && at_ver v c) cs = false).
      { apply not_true_iff_false. intro F. apply existsb_exists in F. destruct F as [a [Ha Fa]].
        rewrite forallb_forall in AllEQ. specialize (AllEQ a Ha). destruct a as [|o x]; [discriminate|]. destruct o; discriminate. }
      rewrite E1, E2. cbn. rewrite andb_true_r. reflexivity.
    + destruct (bounds cs) as [|b0 bs0] eqn:Ebs.
      * (* no bound, a mix of = and != : excluded by non-vacuity *)
        exfalso.
        assert (Hne : exists c, In c cs /\ c_ne c = true).
        { apply not_true_iff_false in AllEQ. destruct (existsb c_ne cs) eqn:E.
          - apply existsb_exists in E. exact E.
          - exfalso. apply AllEQ. apply forallb_forall. intros c Hc.
            assert (Hb : c_bound c = false).
            { destruct (c_bound c) eqn:Eb; [|reflexivity].
              assert (X : In c (bounds cs)) by (apply filter_In; split; assumption). rewrite Ebs in X. destruct X. }
            assert (Hc' : c_ne c = false).
            { destruct (c_ne c) eqn:En; [|reflexivity].
              assert (X : existsb c_ne cs = true) by (apply existsb_exists; eauto). congruence. }
            pose proof (no_star_in V cs c Hn Hc) as Hst.
            destruct c as [|o x]; [discriminate|]. destruct o; cbn in *; congruence. }
        destruct Hne as [c [Hc Hcne]].
        unfold Spec.nonvacuous in Hv. rewrite forallb_forall in Hv. specialize (Hv c Hc).
        destruct c as [|o x]; [discriminate|]. destruct o; cbn in Hcne; try discriminate.
        rewrite AllNE, Ebs in Hv. cbn in Hv. discriminate.
      * rewrite <- Ebs in HB, HA, HI |- *.
        rewrite (den_bounds_inverse (bounds cs) v HB ltac:(rewrite Ebs; discriminate) HA HI).
        destruct (den_bounds (bounds cs) v), (existsb (fun c => c_eq c && at_ver v c) cs),
                 (existsb (fun c => c_ne c && at_ver v c) cs); cbn in *; congruence.
Qed.

(* ---- the inverse is well-formed ----------------------------------------------- *)
(* the elements strictly between two neighbours of a filtered list fail the filter *)
Lemma filter_head_split {A} (p : A -> bool) : forall r y fr, filter p r = y :: fr ->
  exists m l2, r = m ++ y :: l2 /\ forallb (fun x => negb (p x)) m = true /\ p y = true /\ filter p l2 = fr.
Proof.
  induction r as [|z r' IH]; intros y fr Ef; [discriminate|].
  cbn [filter] in Ef. destruct (p z) eqn:Pz.
  - inversion Ef; subst. exists [], r'. cbn. auto.
  - destruct (IH y fr Ef) as [m [l2 [E1 [E2 [E3 E4]]]]].
    exists (z :: m), l2. cbn. rewrite Pz, E1. cbn. auto.
Qed.

Lemma pairwise_filter_split {A} (p : A -> bool) (a b : A) : forall l,
  In (a, b) (pairwise (filter p l)) ->
  exists l1 m l2, l = l1 ++ a :: m ++ b :: l2 /\ forallb (fun x => negb (p x)) m = true /\ p a = true /\ p b = true.
Proof.
  induction l as [|x r IH]; intros H; [destruct H|].
  cbn [filter] in H. destruct (p x) eqn:Px.
  - destruct (filter p r) as [|y fr] eqn:Ef; [destruct H|].
    rewrite pairwise_cons2 in H. destruct H as [E|H].
    + inversion E; subst.
      destruct (filter_head_split p r b fr Ef) as [m [l2 [E1 [E2 [E3 _]]]]].
      exists [], m, l2. cbn. rewrite E1. auto.
    + destruct (IH H) as [l1 [m [l2 [E1 E2]]]].
      exists (x :: l1), m, l2. cbn. rewrite E1. split; [reflexivity|exact E2].
  - destruct (IH H) as [l1 [m [l2 [E1 E2]]]].
    exists (x :: l1), m, l2. cbn. rewrite E1. split; [reflexivity|exact E2].
Qed.

(* ---- the inverse of a non-vacuous well-formed range is well-formed ------------ *)
Lemma pairwise_map {A B} (f : A -> B) : forall l, pairwise (map f l) = map (fun p => (f (fst p), f (snd p))) (pairwise l).
Proof.
  induction l as [|x r IH]; [reflexivity|]. destruct r as [|y r']; [reflexivity|].
  cbn [map]. rewrite !pairwise_cons2. cbn [map fst snd]. f_equal. exact IH.
Qed.

Lemma filter_map_inv_ne cs :
  filter (fun c => negb (c_ne c)) (map inv cs) = map inv (filter (fun c => negb (c_eq c)) cs).
Proof.
  induction cs as [|c r IH]; [reflexivity|]. cbn [map filter]. rewrite inv_ne.
  destruct (c_eq c); cbn [negb map]; rewrite IH; reflexivity.
Qed.

Lemma inv_upper_gen c : c_upper (inv c) = c_lower c.
Proof. destruct c as [|o x]; [reflexivity|]. destruct o; reflexivity. Qed.

Lemma strong_incr_app_l l1 a rest : strong_incr (l1 ++ a :: rest) = true ->
  (forall c, In c l1 -> ver_lt c a = true) /\ forallb (ver_lt a) rest = true.
Proof.
  induction l1 as [|x l1' IH]; cbn [app ContainsProofs.strong_incr]; intros H.
  - apply andb_true_iff in H. destruct H as [H1 _]. split; [intros c []|exact H1].
  - apply andb_true_iff in H. destruct H as [H1 H2]. destruct (IH H2) as [I1 I2]. split; [|exact I2].
    intros c [->|Hc]; [|apply I1; exact Hc].
    rewrite forallb_forall in H1. apply H1. apply in_or_app. right. left. reflexivity.
Qed.

Lemma cut_below_of_lt c a x o : a = C o x -> ver_lt c a = true -> cut_below x c = true.
Proof.
  intros -> H. destruct c as [|o' y]; [discriminate|]. cbn in H. unfold Model.ltb in H.
  cbn. destruct (cmp y x); try discriminate. reflexivity.
Qed.
Lemma cut_above_of_gt c a x o : a = C o x -> ver_lt a c = true -> cut_below x c = false.
Proof.
  intros -> H. destruct c as [|o' y]; [reflexivity|]. cbn in H. unfold Model.ltb in H.
  cbn. rewrite (tpo_sym _ T x y). destruct (cmp x y); try discriminate. reflexivity.
Qed.

Theorem inverse_wf cs :
  no_star cs = true -> wf_sorted cs = true -> nonvacuous cs = true -> wf_sorted (map inv cs) = true.
Proof.
  intros Hn Hw Hv.
  destruct (bounds_alt_of_wf V cmp T cs Hn Hw) as [HB [HA HI]].
  destruct (incr_of_wf_sorted V cmp cs Hn Hw) as [I _].
  pose proof (incr_strong V cmp T cs I) as Hs.
  apply wf_sorted_of.
  - rewrite no_star_map_inv. exact Hn.
  - apply strong_incr_incr. rewrite strong_incr_map_inv. exact Hs.
  - (* the "=" rule of the inverse *)
    unfold Spec.eq_rule. apply negb_true_iff. apply not_true_iff_false. intro F.
    rewrite filter_map_inv_ne, pairwise_map in F. apply existsb_exists in F.
    destruct F as [p [Hp Fp]]. apply in_map_iff in Hp. destruct Hp as [[a b] [<- Hab]]. cbn [fst snd] in Fp.
    rewrite inv_eq, inv_upper_gen in Fp. apply andb_true_iff in Fp. destruct Fp as [Na Lb].
    destruct (pairwise_filter_split _ a b cs Hab) as [l1 [m [l2 [Ecs [Hm _]]]]].
    destruct a as [|oa x]; [discriminate|]. destruct oa; cbn in Na; try discriminate.
    (* non-vacuity of the != : it lies inside an included interval *)
    assert (Ha : In (C NE x) cs) by (rewrite Ecs; apply in_or_app; right; left; reflexivity).
    unfold Spec.nonvacuous in Hv. rewrite forallb_forall in Hv. specialize (Hv _ Ha). cbn beta iota in Hv.
    assert (Hb : In b cs) by (rewrite Ecs; apply in_or_app; right; right; apply in_or_app; right; left; reflexivity).
    assert (NotAllNE : forallb c_ne cs = false).
    { apply not_true_iff_false. intro G. rewrite forallb_forall in G. specialize (G b Hb).
      destruct b as [|ob y]; [discriminate|]. destruct ob; discriminate. }
    rewrite NotAllNE in Hv. cbn [orb] in Hv.
    rewrite (den_bounds_char V cmp T (bounds cs) x HB HA HI) in Hv.
    (* but the first bound above it is b, a lower bound *)
    rewrite Ecs in Hs. destruct (strong_incr_app_l l1 (C NE x) (m ++ b :: l2) Hs) as [Hl1 Hrest].
    assert (Bm : bounds m = []).
    { unfold Spec.bounds. apply filter_none. apply forallb_forall. intros c Hc. rewrite forallb_forall in Hm.
      specialize (Hm c Hc). apply negb_true_iff in Hm. apply negb_false_iff in Hm.
      destruct c as [|o y]; [discriminate|]. destruct o; cbn in *; congruence. }
    assert (Bb : c_bound b = true) by (destruct b as [|ob y]; [discriminate|]; destruct ob; cbn in *; congruence).
    assert (Ebs : bounds cs = bounds l1 ++ b :: bounds l2).
    { rewrite Ecs. unfold Spec.bounds. rewrite filter_app. cbn [filter]. cbn. rewrite filter_app. fold (bounds m). rewrite Bm.
      cbn [app filter]. rewrite Bb. reflexivity. }
    unfold Cuts.first_above_or_last in Hv. rewrite Ebs, filter_app in Hv.
    assert (F1 : filter (fun c => negb (cut_below x c)) (bounds l1) = []).
    { apply filter_none. apply forallb_forall. intros c Hc. rewrite negb_involutive.
      apply filter_In in Hc. destruct Hc as [Hc _]. eapply cut_below_of_lt; [reflexivity|apply Hl1; exact Hc]. }
    rewrite F1 in Hv. cbn [app filter] in Hv.
    assert (Cb : cut_below x b = false).
    { eapply cut_above_of_gt; [reflexivity|]. rewrite forallb_forall in Hrest. apply Hrest. apply in_or_app. right. left. reflexivity. }
    rewrite Cb in Hv. cbn [negb] in Hv. rewrite (bound_upper_lower V b Bb), Lb in Hv. discriminate.
  - rewrite bounds_map_inv, alternate_map_inv; assumption.
Qed.

(* ---- what VersionRange.invert computes ---------------------------------------- *)
Lemma invert_all_map cs : no_star cs = true -> invert_all cs = Ok (map inv cs).
Proof.
  induction cs as [|c r IH]; intros Hn; [reflexivity|].
  rewrite no_star_cons in Hn. apply andb_true_iff in Hn. destruct Hn as [Hc Hr].
  destruct c as [|o x]; [discriminate|]. cbn. rewrite (IH Hr). reflexivity.
Qed.

Lemma sort_sorted l : no_star l = true -> strong_incr l = true -> sort_c l = Ok l.
Proof.
  intros Hn Hs. pose proof (strong_incr_nodup V cmp l Hn Hs) as Hd.
  destruct (sort_incr V cmp T l Hn Hd) as [s [Es [Ss Ps]]].
  rewrite Es. f_equal. symmetry. apply (strong_incr_unique V cmp T); assumption.
Qed.

Theorem invert_computes cs : no_star cs = true -> strong_incr cs = true ->
  invert cs = Some (Ok (map inv cs)).
Proof.
  intros Hn Hs. unfold Model.invert.
  assert (E : match invert_all cs with Ok l => sort_c l | Err e => Err e end = Ok (map inv cs)).
  { rewrite (invert_all_map cs Hn). apply sort_sorted.
    - rewrite no_star_map_inv. exact Hn.
    - rewrite strong_incr_map_inv. exact Hs. }
  destruct cs as [|c [|c' r]]; [rewrite E; reflexivity| |]; (destruct c; [cbn in Hn; discriminate|rewrite E; reflexivity]).
Qed.

Theorem invert_twice cs : no_star cs = true -> strong_incr cs = true ->
  exists cs', invert cs = Some (Ok cs') /\ invert cs' = Some (Ok cs).
Proof.
  intros Hn Hs. exists (map inv cs). split; [apply invert_computes; assumption|].
  rewrite invert_computes.
  - rewrite map_map. f_equal. f_equal. rewrite <- (map_id cs) at 2. apply map_ext. apply inv_inv.
  - rewrite no_star_map_inv. exact Hn.
  - rewrite strong_incr_map_inv. exact Hs.
Qed.

End InvertProofs.
