(* C05 / C13: text-level facts about the vers parser and printer. *)
From Coq Require Import List Bool Arith Ascii String NArith Lia Permutation.
From UV.Base Require Import Order Cop Res ListAux.
From UV.Gen Require Import Tables.
From UV.Py Require Import PyStr.
From UV.Vers Require Import Model Spec VersText ContainsProofs SortProofs ValidateProofs Cuts InvertProofs.
Import ListNotations.
Local Open Scope list_scope.

(* ---- the comparator splitter against the printer ------------------------------ *)
(* a version text that does not start with a comparator or star character *)
Definition starts_plain (v : str) : bool :=
  match v with
  | c :: _ => negb (mem_c c (s2l "<>=!*"))
  | [] => false
  end.

Lemma remove_spaces_cons_ns c s : is_space c = false -> remove_spaces (c :: s) = c :: remove_spaces s.
Proof. intros H. unfold remove_spaces. cbn [filter]. rewrite H. reflexivity. Qed.

(* printing "<op><version>" and splitting it gives back op and version: depends on the
   dict order of COMPARATORS (">=" and "<=" are tried before ">" and "<") and on lstrip
   stripping a character SET *)
Ltac eval_eqc :=
  repeat match goal with
         | |- context [eqc ?a ?b] =>
             lazymatch a with
             | Ascii _ _ _ _ _ _ _ _ =>
                 lazymatch b with
                 | Ascii _ _ _ _ _ _ _ _ => let v := eval vm_compute in (eqc a b) in change (eqc a b) with v
                 end
             end
         end.
Ltac use_neq :=
  repeat match goal with
         | H : eqc ?c ?x = false |- context [eqc ?c ?x] => rewrite H
         | H : eqc ?c ?x = false |- context [eqc ?x ?c] => rewrite (eqc_sym x c), H
         end.
Ltac crunch := repeat (progress (cbn -[eqc]; eval_eqc; use_neq)).

Theorem split_printed : forall (o : cop) (v : str),
  starts_plain v = true -> forallb (fun c => negb (is_space c)) v = true ->
  split_constraint (match o with EQ => v | _ => s2l (cop_text o) ++ v end) = (Op o, v).
Proof.
  intros o v Hp Hs. destruct v as [|c r]; [discriminate|].
  cbn [starts_plain] in Hp. apply negb_true_iff in Hp.
  unfold mem_c in Hp. cbn [s2l list_ascii_of_string existsb] in Hp.
  repeat (apply orb_false_iff in Hp; destruct Hp as [? Hp]).
  assert (Hrs : remove_spaces (c :: r) = c :: r) by (apply remove_spaces_none; exact Hs).
  unfold split_constraint.
  destruct o; cbn [cop_text s2l list_ascii_of_string app];
    rewrite ?remove_spaces_cons_ns by reflexivity; rewrite ?Hrs;
    unfold first_comparator, comparators_order, cop7_text, c_star, mem_c; crunch; reflexivity.
Qed.

(* an explicit "=" is the same constraint as none *)
Theorem split_explicit_eq : forall v : str,
  starts_plain v = true -> forallb (fun c => negb (is_space c)) v = true ->
  split_constraint ("="%char :: v) = split_constraint v.
Proof.
  intros v Hp Hs. rewrite (split_printed EQ v Hp Hs).
  destruct v as [|c r]; [discriminate|].
  cbn [starts_plain] in Hp. apply negb_true_iff in Hp.
  unfold mem_c in Hp. cbn [s2l list_ascii_of_string existsb] in Hp.
  repeat (apply orb_false_iff in Hp; destruct Hp as [? Hp]).
  assert (Hrs : remove_spaces (c :: r) = c :: r) by (apply remove_spaces_none; exact Hs).
  unfold split_constraint. rewrite remove_spaces_cons_ns by reflexivity. rewrite Hrs.
  unfold first_comparator, comparators_order, cop7_text, c_star, mem_c; crunch; reflexivity.
Qed.

Section TextProofs.
Variable V : Type.
Variable cmp : V -> V -> comparison.
Hypothesis T : TPO cmp.
Variable vctor : str -> res V.
Variable vstr : V -> str.

Notation constr := (constr V).
Notation from_string := (from_string V cmp vctor).
Notation constraints_from_string := (constraints_from_string V cmp vctor).
Notation constraint_from_string := (constraint_from_string V vctor).
Notation constraint_to_string := (constraint_to_string V vstr).
Notation constraints_to_string := (constraints_to_string V cmp vstr).
Notation sort_c := (sort_c V cmp).
Notation no_star := (no_star V).
Notation strong_incr := (strong_incr V cmp).

(* ---- C13: order of the constraints ---------------------------------------------- *)
Theorem sort_perm_invariant : forall l l',
  Permutation l l' -> no_star l = true -> nodup_ver V cmp l = true ->
  exists s, sort_c l = Ok s /\ sort_c l' = Ok s /\ strong_incr s = true.
Proof.
  intros l l' P Hn Hd.
  destruct (sort_incr V cmp T l Hn Hd) as [s [Es [Ss Ps]]].
  assert (Hn' : no_star l' = true) by (rewrite <- (no_star_perm V _ _ P); exact Hn).
  assert (Hd' : nodup_ver V cmp l' = true) by (rewrite <- (nodup_ver_perm V cmp T _ _ P); exact Hd).
  destruct (sort_incr V cmp T l' Hn' Hd') as [s' [Es' [Ss' Ps']]].
  exists s. split; [exact Es|]. split; [|exact Ss]. rewrite Es'. f_equal.
  apply (strong_incr_unique V cmp T); auto.
  eapply perm_trans; [apply Permutation_sym; exact Ps'|]. eapply perm_trans; [apply Permutation_sym; exact P|exact Ps].
Qed.

(* ---- C13: whitespace anywhere ---------------------------------------------------- *)
Theorem from_string_whitespace : forall a b fs fv, ws_variant a b -> from_string b fs fv = from_string a fs fv.
Proof. intros a b fs fv H. unfold VersText.from_string. rewrite (remove_spaces_ws a b H). reflexivity. Qed.

Theorem constraints_from_string_whitespace : forall a b fs fv, ws_variant a b ->
  constraints_from_string b fs fv = constraints_from_string a fs fv.
Proof. intros a b fs fv H. unfold VersText.constraints_from_string. rewrite (remove_spaces_ws a b H). reflexivity. Qed.

(* ---- C05: one constraint, printed and parsed back ---------------------------------- *)
(* the text of a version: printable ASCII without whitespace, pipe, quotes or backslash,
   not starting with a comparator or star character *)
Definition vtext_ok (v : str) : bool :=
  starts_plain v
  && forallb (fun c => N.leb 33 (code c) && N.leb (code c) 126 && negb (N.eqb (code c) 92)
                        && negb (eqc c c_pipe) && negb (eqc c "'"%char) && negb (eqc c """"%char)) v.

Lemma vtext_ok_nospace v : vtext_ok v = true -> forallb (fun c => negb (is_space c)) v = true.
Proof.
  unfold vtext_ok. intros H. apply andb_true_iff in H. destruct H as [_ H].
  apply forallb_forall. intros c Hc. rewrite forallb_forall in H. specialize (H c Hc).
  repeat (apply andb_true_iff in H; destruct H as [H ?]).
  unfold is_space. apply negb_true_iff. apply N.leb_le in H.
  destruct (N.leb 9 (code c) && N.leb (code c) 13) eqn:E1.
  - apply andb_true_iff in E1. destruct E1 as [_ E1]. apply N.leb_le in E1. lia.
  - cbn. apply andb_false_iff. right. apply N.leb_gt. lia.
Qed.

Notation wf_sorted := (wf_sorted V cmp).

(* a character allowed in a version text *)
Definition vchar (c : ascii) : bool :=
  N.leb 33 (code c) && N.leb (code c) 126 && negb (N.eqb (code c) 92)
  && negb (eqc c c_pipe) && negb (eqc c "'"%char) && negb (eqc c """"%char).

Lemma vchar_inv c : vchar c = true ->
  N.leb 33 (code c) = true /\ N.leb (code c) 126 = true /\ N.eqb (code c) 92 = false /\
  eqc c c_pipe = false /\ eqc c "'"%char = false /\ eqc c """"%char = false.
Proof.
  unfold vchar. intros H.
  apply andb_true_iff in H. destruct H as [H H6]. apply andb_true_iff in H. destruct H as [H H5].
  apply andb_true_iff in H. destruct H as [H H4]. apply andb_true_iff in H. destruct H as [H H3].
  apply andb_true_iff in H. destruct H as [H1 H2].
  apply negb_true_iff in H3, H4, H5, H6. auto 10.
Qed.

Lemma vtext_ok_chars v : vtext_ok v = true -> forallb vchar v = true.
Proof. unfold vtext_ok. intros H. apply andb_true_iff in H. tauto. Qed.
Lemma vtext_ok_plain v : vtext_ok v = true -> starts_plain v = true.
Proof. unfold vtext_ok. intros H. apply andb_true_iff in H. tauto. Qed.

Lemma optext_chars o : forallb vchar (s2l (cop_text o)) = true.
Proof. destruct o; vm_compute; reflexivity. Qed.

Lemma vchars_ascii s : forallb vchar s = true -> py_is_ascii s = true.
Proof.
  intros H. unfold py_is_ascii. rewrite forallb_forall in H. apply andb_true_iff. split.
  - apply forallb_forall. intros c Hc. destruct (vchar_inv c (H c Hc)) as [H1 [H2 [H3 _]]].
    apply N.leb_le in H1. assert (X : N.leb 32 (code c) = true) by (apply N.leb_le; lia). rewrite X, H2, H3. reflexivity.
  - apply negb_true_iff. apply andb_false_iff. left. unfold mem_c. apply not_true_iff_false. intro F.
    apply existsb_exists in F. destruct F as [c [Hc Fc]]. destruct (vchar_inv c (H c Hc)) as [_ [_ [_ [_ [H5 _]]]]].
    rewrite eqc_sym in Fc. congruence.
Qed.

Lemma vchars_nospace s : forallb vchar s = true -> forallb (fun c => negb (is_space c)) s = true.
Proof.
  intros H. rewrite forallb_forall in H. apply forallb_forall. intros c Hc. destruct (vchar_inv c (H c Hc)) as [H1 _].
  unfold is_space. apply negb_true_iff. apply N.leb_le in H1.
  destruct (N.leb 9 (code c) && N.leb (code c) 13) eqn:E1.
  - apply andb_true_iff in E1. destruct E1 as [_ E1]. apply N.leb_le in E1. lia.
  - cbn. apply andb_false_iff. right. apply N.leb_gt. lia.
Qed.

Lemma vchars_nopipe s : forallb vchar s = true -> mem_c c_pipe s = false.
Proof.
  intros H. rewrite forallb_forall in H. unfold mem_c. apply not_true_iff_false. intro F. apply existsb_exists in F.
  destruct F as [c [Hc Fc]]. destruct (vchar_inv c (H c Hc)) as [_ [_ [_ [H4 _]]]]. rewrite eqc_sym in Fc. congruence.
Qed.

(* the printed text of a constraint *)
Lemma cstr_chars o v : forallb vchar (vstr v) = true -> forallb vchar (constraint_to_string (C o v)) = true.
Proof.
  intros H. destruct o; cbn [VersText.constraint_to_string]; try (rewrite forallb_app, optext_chars, H; reflexivity). exact H.
Qed.

(* C05 for one constraint: print, then parse *)
Theorem constraint_roundtrip : forall o v,
  vtext_ok (vstr v) = true -> vctor (vstr v) = Ok v ->
  constraint_from_string (constraint_to_string (C o v)) = Ok (C o v).
Proof.
  intros o v Hok Hrt.
  pose proof (vtext_ok_chars _ Hok) as Hc. pose proof (vtext_ok_plain _ Hok) as Hp.
  pose proof (cstr_chars o v Hc) as Hcc.
  unfold VersText.constraint_from_string.
  rewrite (remove_spaces_none _ (vchars_nospace _ Hcc)), (vchars_ascii _ Hcc). cbn [negb].
  assert (E : constraint_to_string (C o v) = match o with EQ => vstr v | _ => s2l (cop_text o) ++ vstr v end)
    by (destruct o; reflexivity).
  rewrite E, (split_printed o (vstr v) Hp (vchars_nospace _ Hc)).
  destruct (vstr v) as [|c r] eqn:Ev; [discriminate|]. cbn [is_empty]. rewrite Hrt. reflexivity.
Qed.

(* ---- C05: a whole range, printed and parsed back ------------------------------------ *)
Definition printable (c : constr) : Prop :=
  match c with C o v => vtext_ok (vstr v) = true /\ vctor (vstr v) = Ok v | Star => False end.

Lemma join_forall (P : ascii -> bool) c : forall l, P c = true -> Forall (fun s => forallb P s = true) l ->
  forallb P (join_c c l) = true.
Proof.
  induction l as [|x r IH]; intros Hc HF; [reflexivity|]. inversion HF as [|? ? Hx Hr]; subst.
  destruct r as [|y r']; [exact Hx|].
  change (join_c c (x :: y :: r')) with (x ++ c :: join_c c (y :: r')).
  rewrite forallb_app, Hx. cbn [forallb]. rewrite Hc. cbn. apply IH; assumption.
Qed.

Lemma lstrip_first cs c r : mem_c c cs = false -> lstrip_set cs (c :: r) = c :: r.
Proof. intros H. cbn. rewrite H. reflexivity. Qed.

Lemma strip_clean cs s : s <> [] ->
  match s with c :: _ => mem_c c cs = false | [] => True end ->
  match rev s with c :: _ => mem_c c cs = false | [] => True end ->
  strip_set cs s = s.
Proof.
  intros Hne H1 H2. unfold strip_set, rstrip_set.
  destruct s as [|c r]; [congruence|]. rewrite (lstrip_first cs c r H1).
  destruct (rev (c :: r)) as [|d r'] eqn:E.
  - apply (f_equal (@rev ascii)) in E. rewrite rev_involutive in E. discriminate.
  - rewrite (lstrip_first cs d r' H2). rewrite <- E. apply rev_involutive.
Qed.

Lemma rev_join_head c : forall l, l <> [] -> Forall (fun s => s <> []) l ->
  exists x l', In x l /\ rev (join_c c l) = (match rev x with d :: _ => d | [] => c end) :: l'.
Proof.
  induction l as [|x r IH]; intros Hne HF; [congruence|]. inversion HF as [|? ? Hx Hr]; subst.
  destruct r as [|y r'].
  - exists x. cbn [join_c]. destruct (rev x) as [|d t] eqn:E.
    + apply (f_equal (@rev ascii)) in E. rewrite rev_involutive in E. cbn in E. congruence.
    + exists t. split; [left; reflexivity|reflexivity].
  - change (join_c c (x :: y :: r')) with (x ++ c :: join_c c (y :: r')).
    destruct (IH ltac:(discriminate) Hr) as [z [l' [Hz E]]].
    rewrite rev_app_distr. cbn [rev]. rewrite E. cbn [app].
    exists z. eexists. split; [right; exact Hz|reflexivity].
Qed.

Lemma mapM_roundtrip : forall cs, Forall printable cs ->
  mapM constraint_from_string (map constraint_to_string cs) = Ok cs.
Proof.
  induction cs as [|c r IH]; intros HF; [reflexivity|]. inversion HF as [|? ? Hc Hr]; subst.
  destruct c as [|o v]; [destruct Hc|]. destruct Hc as [Hok Hrt].
  cbn [map mapM]. rewrite (constraint_roundtrip o v Hok Hrt), (IH Hr). reflexivity.
Qed.

Theorem constraints_roundtrip : forall cs,
  cs <> [] -> no_star cs = true -> strong_incr cs = true -> Forall printable cs ->
  exists t, constraints_to_string cs = Ok t /\ constraints_from_string t false false = Ok cs.
Proof.
  intros cs Hne Hn Hs HF.
  pose proof (sort_sorted V cmp T cs Hn Hs) as Esort.
  set (pieces := map constraint_to_string cs).
  exists (join_c c_pipe pieces). split; [unfold VersText.constraints_to_string; rewrite Esort; reflexivity|].
  assert (Hpc : Forall (fun s => forallb vchar s = true) pieces).
  { apply Forall_forall. intros s Hs'. apply in_map_iff in Hs'. destruct Hs' as [c [<- Hc]].
    rewrite Forall_forall in HF. specialize (HF c Hc). destruct c as [|o v]; [destruct HF|]. destruct HF as [Hok _].
    apply cstr_chars. apply vtext_ok_chars. exact Hok. }
  assert (Hpne : Forall (fun s => s <> []) pieces).
  { apply Forall_forall. intros s Hs'. apply in_map_iff in Hs'. destruct Hs' as [c [<- Hc]].
    rewrite Forall_forall in HF. specialize (HF c Hc). destruct c as [|o v]; [destruct HF|]. destruct HF as [Hok _].
    pose proof (vtext_ok_plain _ Hok) as Hp. destruct o; cbn; destruct (vstr v); discriminate. }
  assert (Hpieces_ne : pieces <> []) by (destruct cs; [congruence|discriminate]).
  (* characters of the joined text: version characters or the pipe *)
  set (vp := fun c => vchar c || eqc c c_pipe).
  assert (Hjoin : forallb vp (join_c c_pipe pieces) = true).
  { apply join_forall; [unfold vp; rewrite eqc_refl; apply orb_true_r|].
    apply Forall_forall. intros s Hs'. rewrite Forall_forall in Hpc. specialize (Hpc s Hs').
    apply forallb_forall. intros c Hc. rewrite forallb_forall in Hpc. unfold vp. rewrite (Hpc c Hc). reflexivity. }
  assert (Hnosp : forallb (fun c => negb (is_space c)) (join_c c_pipe pieces) = true).
  { apply forallb_forall. intros c Hc. rewrite forallb_forall in Hjoin. specialize (Hjoin c Hc). unfold vp in Hjoin.
    apply orb_true_iff in Hjoin. destruct Hjoin as [Hj|Hj].
    - pose proof (vchars_nospace [c]) as X. cbn in X. rewrite Hj in X. specialize (X eq_refl). apply andb_true_iff in X. tauto.
    - apply eqc_eq in Hj. subst c. reflexivity. }
  (* the first piece and its first character *)
  destruct cs as [|c0 r0] eqn:Ecs; [congruence|].
  assert (Hc0 : printable c0) by (inversion HF; assumption).
  destruct c0 as [|o0 v0]; [destruct Hc0|]. destruct Hc0 as [Hok0 Hrt0].
  pose proof (vtext_ok_plain _ Hok0) as Hp0.
  destruct (vstr v0) as [|a0 t0] eqn:Ev0; [discriminate|].
  cbn [starts_plain] in Hp0. apply negb_true_iff in Hp0. unfold mem_c in Hp0. cbn [s2l list_ascii_of_string existsb] in Hp0.
  repeat (apply orb_false_iff in Hp0; destruct Hp0 as [? Hp0]).
  assert (Hfirst : exists f rest, join_c c_pipe pieces = f :: rest /\ eqc f c_star = false /\ eqc f c_pipe = false).
  { unfold pieces. cbn [map]. set (p0 := constraint_to_string (C o0 v0)).
    assert (Hp0' : exists f r1, p0 = f :: r1 /\ eqc f c_star = false /\ eqc f c_pipe = false).
    { assert (Hv0 : vchar a0 = true).
      { pose proof (vtext_ok_chars _ Hok0) as X. cbn [forallb] in X. apply andb_true_iff in X. tauto. }
      destruct (vchar_inv a0 Hv0) as [_ [_ [_ [Hpipe _]]]].
      unfold p0. destruct o0; cbn [VersText.constraint_to_string cop_text s2l list_ascii_of_string app]; rewrite ?Ev0;
        eexists; eexists; (split; [reflexivity|]); split; try reflexivity; try assumption. }
    destruct Hp0' as [f [r1 [E [F1 F2]]]]. rewrite E.
    destruct (map constraint_to_string r0) as [|y r'].
    - exists f, r1. cbn. auto.
    - exists f. eexists. change (join_c c_pipe ((f :: r1) :: y :: r')) with ((f :: r1) ++ c_pipe :: join_c c_pipe (y :: r')).
      cbn [app]. auto. }
  destruct Hfirst as [f [rest [Ej [Fs Fp]]]].
  unfold VersText.constraints_from_string.
  rewrite (remove_spaces_none _ Hnosp). rewrite Ej. cbn [is_empty startswith]. rewrite (eqc_sym c_star f), Fs. cbn [andb].
  rewrite <- Ej.
  (* stray pipes: none *)
  assert (Hstrip : strip_set [c_pipe] (join_c c_pipe pieces) = join_c c_pipe pieces).
  { apply strip_clean.
    - rewrite Ej. discriminate.
    - rewrite Ej. cbn. rewrite Fp. reflexivity.
    - destruct (rev_join_head c_pipe pieces Hpieces_ne Hpne) as [x [l' [Hx E]]]. rewrite E.
      rewrite Forall_forall in Hpc, Hpne. pose proof (Hpc x Hx) as Hxc. pose proof (Hpne x Hx) as Hxn.
      destruct (rev x) as [|d t] eqn:Er.
      + apply (f_equal (@rev ascii)) in Er. rewrite rev_involutive in Er. cbn in Er. congruence.
      + assert (Hd : In d x) by (apply in_rev; rewrite Er; left; reflexivity).
        rewrite forallb_forall in Hxc. destruct (vchar_inv d (Hxc d Hd)) as [_ [_ [_ [H4 _]]]].
        cbn. rewrite H4. reflexivity. }
  rewrite Hstrip.
  rewrite (split_join c_pipe pieces Hpieces_ne).
  - unfold pieces. rewrite (mapM_roundtrip _ HF).
    assert (Hst : existsb (is_star V) (C o0 v0 :: r0) = false) by (apply negb_true_iff; exact Hn).
    rewrite Hst, andb_false_r. rewrite Esort. exact Esort.
  - apply Forall_forall. intros s' Hs'. rewrite Forall_forall in Hpc. apply vchars_nopipe. apply Hpc. exact Hs'.
Qed.

End TextProofs.
