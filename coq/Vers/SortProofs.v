(* Sorting constraints with pairwise inequivalent versions yields the unique
   strictly version-increasing rearrangement. *)
From Coq Require Import List Bool Arith Lia Permutation Sorted.
From UV.Base Require Import Order Cop Res ListAux SortUniq.
From UV.Gen Require Import Tables.
From UV.Vers Require Import Model Spec ContainsProofs.
Import ListNotations.

Section SortProofs.
Variable V : Type.
Variable cmp : V -> V -> comparison.
Hypothesis T : TPO cmp.

Notation constr := (constr V).
Notation eqb := (eqb V cmp).
Notation ltb := (ltb V cmp).
Notation ver_lt := (ver_lt V cmp).
Notation increasing := (increasing V cmp).
Notation strong_incr := (strong_incr V cmp).
Notation c_lt := (c_lt V cmp).
Notation insert_c := (insert_c V cmp).
Notation sort_c := (sort_c V cmp).
Notation no_star := (no_star V).
Notation overb := (overb V cmp).
Notation c_ver := (@c_ver V).

(* same version (None = None for two stars) *)
Definition same_ver (a b : constr) : bool := overb (c_ver a) (c_ver b).

(* every version occurs once *)
Fixpoint nodup_ver (l : list constr) : bool :=
  match l with [] => true | a :: r => negb (existsb (same_ver a) r) && nodup_ver r end.

Lemma eqb_refl x : eqb x x = true.
Proof. unfold Model.eqb. rewrite (tpo_refl _ T). reflexivity. Qed.
Lemma eqb_sym x y : eqb x y = eqb y x.
Proof. unfold Model.eqb. rewrite (tpo_sym _ T y x). destruct (cmp y x); reflexivity. Qed.
Lemma eqb_trans x y z : eqb x y = true -> eqb y z = true -> eqb x z = true.
Proof.
  unfold Model.eqb. destruct (cmp x y) eqn:E1; try discriminate. destruct (cmp y z) eqn:E2; try discriminate.
  rewrite (tpo_eq_trans _ T _ _ _ E1 E2). reflexivity.
Qed.
Lemma same_ver_sym a b : same_ver a b = same_ver b a.
Proof. destruct a, b; cbn; auto. apply eqb_sym. Qed.
Lemma overb_trans a b c : overb a b = true -> overb b c = true -> overb a c = true.
Proof. destruct a, b, c; cbn; try discriminate; auto. apply eqb_trans. Qed.
Lemma overb_sym a b : overb a b = overb b a.
Proof. destruct a, b; cbn; auto. apply eqb_sym. Qed.
Lemma overb_refl a : overb a a = true.
Proof. destruct a; cbn; auto. apply eqb_refl. Qed.

Lemma ltb_total x y : eqb x y = false -> ltb x y = false -> ltb y x = true.
Proof.
  unfold Model.eqb, Model.ltb. rewrite (tpo_sym _ T x y). destruct (cmp x y); cbn; congruence.
Qed.
Lemma ltb_irrefl x : ltb x x = false.
Proof. unfold Model.ltb. rewrite (tpo_refl _ T). reflexivity. Qed.
Lemma ltb_not_eqb x y : ltb x y = true -> eqb x y = false.
Proof. unfold Model.ltb, Model.eqb. destruct (cmp x y); congruence. Qed.

(* ---- distinct_vers counts the versions exactly when none repeats ---------- *)
Fixpoint nodupo (l : list (option V)) : bool :=
  match l with [] => true | a :: r => negb (existsb (overb a) r) && nodupo r end.

Lemma existsb_distinct : forall l x, existsb (overb x) (distinct_vers V cmp l) = existsb (overb x) l.
Proof.
  induction l as [|y r IH]; intros x; [reflexivity|]. cbn [distinct_vers existsb].
  destruct (existsb (overb y) (distinct_vers V cmp r)) eqn:E.
  - rewrite IH. destruct (overb x y) eqn:Exy; [|reflexivity]. cbn.
    rewrite IH in E. apply existsb_exists in E. destruct E as [z [Hz Eyz]].
    apply existsb_exists. exists z. split; [exact Hz|]. eapply overb_trans; eauto.
  - cbn [existsb]. rewrite IH. reflexivity.
Qed.

Lemma distinct_length_le : forall l, length (distinct_vers V cmp l) <= length l.
Proof.
  induction l as [|y r IH]; [cbn; lia|]. cbn [distinct_vers].
  destruct (existsb (overb y) (distinct_vers V cmp r)); cbn [length]; lia.
Qed.

Lemma distinct_length_iff : forall l,
  Nat.eqb (length (distinct_vers V cmp l)) (length l) = nodupo l.
Proof.
  induction l as [|y r IH]; [reflexivity|]. cbn [distinct_vers nodupo].
  rewrite <- (existsb_distinct r y).
  destruct (existsb (overb y) (distinct_vers V cmp r)) eqn:E; cbn [negb andb length].
  - pose proof (distinct_length_le r). apply Nat.eqb_neq. lia.
  - cbn. exact IH.
Qed.

Lemma nodup_ver_nodupo l : nodup_ver l = nodupo (map c_ver l).
Proof.
  induction l as [|a r IH]; [reflexivity|]. cbn [nodup_ver nodupo map]. rewrite IH. f_equal. f_equal.
  unfold same_ver. clear IH. induction r as [|b r' IH']; [reflexivity|]. cbn [existsb map]. rewrite IH'. reflexivity.
Qed.

(* ---- strictly increasing lists -------------------------------------------- *)
Lemma strong_incr_nodup : forall l, no_star l = true -> strong_incr l = true -> nodup_ver l = true.
Proof.
  induction l as [|a r IH]; intros Hn H; [reflexivity|].
  cbn [ContainsProofs.strong_incr] in H. apply andb_true_iff in H. destruct H as [H1 H2].
  unfold Spec.no_star in *. cbn [existsb] in Hn. apply negb_true_iff in Hn. apply orb_false_iff in Hn. destruct Hn as [Ha Hr].
  cbn [nodup_ver]. rewrite IH; [|apply negb_true_iff; exact Hr|exact H2]. rewrite andb_true_r.
  apply negb_true_iff. apply not_true_iff_false. intro F. apply existsb_exists in F. destruct F as [b [Hb E]].
  rewrite forallb_forall in H1. specialize (H1 b Hb).
  destruct a as [|o x], b as [|o' y]; cbn in *; try discriminate.
  rewrite (ltb_not_eqb _ _ H1) in E. discriminate.
Qed.

Lemma ver_lt_irrefl a : ver_lt a a = false.
Proof. destruct a; cbn; auto. apply ltb_irrefl. Qed.

Lemma strong_incr_sorted l : strong_incr l = true -> StronglySorted (fun a b => ver_lt a b = true) l.
Proof.
  induction l as [|a r IH]; intros H; [constructor|].
  cbn [ContainsProofs.strong_incr] in H. apply andb_true_iff in H. destruct H as [H1 H2].
  constructor; [apply IH; exact H2|]. apply Forall_forall. rewrite forallb_forall in H1. exact H1.
Qed.

Theorem strong_incr_unique l1 l2 :
  strong_incr l1 = true -> strong_incr l2 = true -> Permutation l1 l2 -> l1 = l2.
Proof.
  intros H1 H2 P.
  apply (strict_sorted_perm_eq (fun a b => ver_lt a b = true)); auto using strong_incr_sorted.
  - intros a. rewrite ver_lt_irrefl. discriminate.
  - intros a b c. apply (ver_lt_trans V cmp T).
Qed.

(* ---- insertion ------------------------------------------------------------ *)
Lemma no_star_cons a l : no_star (a :: l) = negb (is_star V a) && no_star l.
Proof. unfold Spec.no_star. cbn [existsb]. rewrite negb_orb. reflexivity. Qed.

Lemma no_star_perm l l' : Permutation l l' -> no_star l = no_star l'.
Proof.
  induction 1; cbn; auto.
  - rewrite !no_star_cons. congruence.
  - rewrite !no_star_cons. destruct (is_star V x), (is_star V y); reflexivity.
  - congruence.
Qed.

Lemma insert_incr : forall l c,
  is_star V c = false -> no_star l = true -> strong_incr l = true ->
  existsb (same_ver c) l = false ->
  exists s, insert_c c l = Ok s /\ strong_incr s = true /\ Permutation (c :: l) s /\
            forall a, ver_lt a c = true -> forallb (ver_lt a) l = true -> forallb (ver_lt a) s = true.
Proof.
  induction l as [|x r IH]; intros c Hc Hn Hs Hd.
  - exists [c]. cbn. repeat split; auto; try (intros a Ha _; rewrite Ha; reflexivity).
  - rewrite no_star_cons in Hn. apply andb_true_iff in Hn. destruct Hn as [Hx Hn]. apply negb_true_iff in Hx.
    cbn [ContainsProofs.strong_incr] in Hs. apply andb_true_iff in Hs. destruct Hs as [Hs1 Hs2].
    cbn [existsb] in Hd. apply orb_false_iff in Hd. destruct Hd as [Hd1 Hd2].
    destruct c as [|oc vc]; [discriminate|]. destruct x as [|ox vx]; [discriminate|].
    cbn in Hd1. cbn [Model.insert_c Model.c_lt].
    rewrite (eqb_sym vx vc), Hd1.
    destruct (ltb vx vc) eqn:Elt.
    + destruct (IH (C oc vc) eq_refl Hn Hs2 Hd2) as [s [Es [Ss [Ps Fs]]]].
      rewrite Es. exists (C ox vx :: s). repeat split.
      * cbn [ContainsProofs.strong_incr]. rewrite Ss, andb_true_r. apply Fs; [cbn; exact Elt|exact Hs1].
      * eapply perm_trans; [apply perm_swap|]. apply perm_skip. exact Ps.
      * intros a Ha Hf. cbn [forallb] in *. apply andb_true_iff in Hf. destruct Hf as [Hf1 Hf2].
        rewrite Hf1. cbn. apply Fs; auto.
    + exists (C oc vc :: C ox vx :: r). repeat split; auto.
      * assert (Hcx : ltb vc vx = true) by (apply ltb_total; [rewrite eqb_sym; exact Hd1|exact Elt]).
        cbn [ContainsProofs.strong_incr forallb]. rewrite Hs1, Hs2. cbn [Spec.ver_lt]. rewrite Hcx. cbn.
        rewrite andb_true_r. apply forallb_forall. intros b Hb. rewrite forallb_forall in Hs1.
        eapply (ver_lt_trans V cmp T); [|apply Hs1; exact Hb]. cbn. exact Hcx.
      * intros a Ha Hf. cbn [forallb]. rewrite Ha. exact Hf.
Qed.

Theorem sort_incr : forall l,
  no_star l = true -> nodup_ver l = true ->
  exists s, sort_c l = Ok s /\ strong_incr s = true /\ Permutation l s.
Proof.
  induction l as [|c r IH]; intros Hn Hd.
  - exists []. cbn. auto.
  - rewrite no_star_cons in Hn. apply andb_true_iff in Hn. destruct Hn as [Hc Hn]. apply negb_true_iff in Hc.
    cbn [nodup_ver] in Hd. apply andb_true_iff in Hd. destruct Hd as [Hd1 Hd2]. apply negb_true_iff in Hd1.
    destruct (IH Hn Hd2) as [s [Es [Ss Ps]]].
    cbn [Model.sort_c]. rewrite Es.
    assert (Hd1' : existsb (same_ver c) s = false).
    { apply not_true_iff_false. intro F. apply existsb_exists in F. destruct F as [b [Hb E]].
      assert (X : existsb (same_ver c) r = true).
      { apply existsb_exists. exists b. split; [|exact E]. eapply Permutation_in; [apply Permutation_sym; exact Ps|exact Hb]. }
      congruence. }
    assert (Hns : no_star s = true) by (rewrite <- (no_star_perm _ _ Ps); exact Hn).
    destruct (insert_incr s c Hc Hns Ss Hd1') as [s' [Es' [Ss' [Ps' _]]]].
    exists s'. repeat split; auto. eapply perm_trans; [apply perm_skip; exact Ps|exact Ps'].
Qed.

(* nodup_ver is invariant under permutation *)
Lemma existsb_perm {A} (f : A -> bool) l l' : Permutation l l' -> existsb f l = existsb f l'.
Proof.
  induction 1; cbn; auto.
  - congruence.
  - destruct (f x), (f y); reflexivity.
  - congruence.
Qed.

Lemma nodup_ver_perm l l' : Permutation l l' -> nodup_ver l = nodup_ver l'.
Proof.
  induction 1; cbn [nodup_ver]; auto.
  - rewrite IHPermutation, (existsb_perm _ _ _ H). reflexivity.
  - cbn [existsb]. rewrite (same_ver_sym y x).
    destruct (same_ver x y), (existsb (same_ver x) l), (existsb (same_ver y) l), (nodup_ver l); reflexivity.
  - congruence.
Qed.

End SortProofs.
