(* C16 (vers text): parsing any string returns a range or a ValueError-family error. *)
From Coq Require Import List Bool Arith Ascii String NArith Lia Permutation.
From UV.Base Require Import Order Cop Res ListAux.
From UV.Gen Require Import Tables.
From UV.Py Require Import PyStr.
From UV.Vers Require Import Model Spec VersText ContainsProofs SortProofs ValidateProofs Cuts InvertProofs NormalizeProofs SimplifyProofs TextProofs.
Import ListNotations.
Local Open Scope list_scope.

Section Totality.
Variable V : Type.
Variable cmp : V -> V -> comparison.
Hypothesis T : TPO cmp.
Variable vctor : str -> res V.
(* the version constructor fails only with the invalid-version error (C16 of the scheme) *)
Hypothesis vctor_declared : forall t e, vctor t = Err e -> e = EInvalidVersion.

Notation constr := (constr V).
Notation no_star := (no_star V).

Definition declared (e : err) : Prop := e = EValue \/ e = EInvalidVersion.

Lemma constraint_from_string_declared s e : constraint_from_string V vctor s = Err e -> declared e.
Proof.
  unfold constraint_from_string. destruct (negb (py_is_ascii (remove_spaces s))); [intros H; inversion H; left; reflexivity|].
  destruct (split_constraint (remove_spaces s)) as [[o|] v]; [|discriminate].
  destruct (is_empty v); [intros H; inversion H; left; reflexivity|].
  destruct (vctor v) eqn:E; [discriminate|]. intros H. inversion H; subst. right. eapply vctor_declared; eauto.
Qed.

Lemma mapM_declared : forall l e, mapM (constraint_from_string V vctor) l = Err e -> declared e.
Proof.
  induction l as [|x r IH]; intros e H; [discriminate|]. cbn [mapM] in H.
  destruct (constraint_from_string V vctor x) eqn:E; [|inversion H; subst; eapply constraint_from_string_declared; eauto].
  destruct (mapM (constraint_from_string V vctor) r) eqn:E2; [discriminate|]. inversion H; subst. apply IH. reflexivity.
Qed.

(* deduplicate and the walk keep a star-free list star-free *)
Lemma dedup_sublist : forall l seen, sublist (dedup_from V cmp seen l) l.
Proof.
  induction l as [|c r IH]; intros seen; [constructor|]. cbn [dedup_from].
  destruct (existsb (c_same V cmp c) seen); [constructor 2|constructor 3]; apply IH.
Qed.

Lemma simp_sublist : forall fuel done rest, sublist (simp V fuel done rest) (rev done ++ rest).
Proof.
  induction fuel as [|f IH]; intros done rest; [cbn; rewrite rev_append_rev; apply sublist_refl|].
  destruct rest as [|cur [|nxt tl]]; try (cbn; rewrite rev_append_rev; apply sublist_refl).
  cbn [simp]. destruct (drop_next V cur nxt).
  - eapply sublist_trans; [apply IH|]. apply sublist_app; [apply sublist_refl|]. constructor 3. constructor 2. apply sublist_refl.
  - destruct (drop_cur V cur nxt).
    + destruct done as [|p d].
      * eapply sublist_trans; [apply IH|]. cbn. constructor 2. apply sublist_refl.
      * eapply sublist_trans; [apply IH|]. cbn [rev]. rewrite <- !app_assoc. cbn [app].
        apply sublist_app; [apply sublist_refl|]. constructor 3. constructor 2. apply sublist_refl.
    + eapply sublist_trans; [apply IH|]. cbn [rev]. rewrite <- app_assoc. apply sublist_refl.
Qed.

Theorem simplify_total : forall cs, no_star cs = true -> exists r, simplify V cmp cs = Ok r /\ no_star r = true.
Proof.
  intros cs Hn. unfold simplify, simplify_constraints.
  set (d := deduplicate V cmp cs).
  assert (Hd : no_star d = true) by (eapply no_star_sublist; [apply dedup_sublist|exact Hn]).
  destruct (Nat.ltb (List.length d) 2); [exists d; auto|]. cbv zeta.
  destruct (is_nil (filter (fun c => negb (c_ne V c)) d)).
  - exists (filter (c_ne V) d). split; [reflexivity|apply no_star_filter; exact Hd].
  - set (l := filter (c_ne V) d ++ simp V (2 * List.length (filter (fun c => negb (c_ne V c)) d)) [] (filter (fun c => negb (c_ne V c)) d)).
    assert (Hl : no_star l = true).
    { unfold l. eapply no_star_sublist; [apply sublist_app; [apply sublist_refl|apply simp_sublist]|].
      cbn [rev app]. rewrite <- (no_star_perm V _ _ (perm_partition (c_ne V) d)). exact Hd. }
    assert (Hl2 : no_star (deduplicate V cmp l) = true) by (eapply no_star_sublist; [apply dedup_sublist|exact Hl]).
    destruct (sort_perm V cmp _ Hl2) as [s [Es Ps]]. exists s. split; [exact Es|].
    rewrite <- (no_star_perm V _ _ Ps). exact Hl2.
Qed.

(* the constraints part of from_string *)
Theorem constraints_from_string_declared : forall s fs fv e,
  constraints_from_string V cmp vctor s fs fv = Err e -> declared e.
Proof.
  intros s fs fv e. unfold constraints_from_string.
  destruct (is_empty (remove_spaces s)); [intros H; inversion H; left; reflexivity|].
  destruct (startswith (remove_spaces s) [c_star]).
  { destruct (eqs (remove_spaces s) [c_star]); [discriminate|intros H; inversion H; left; reflexivity]. }
  destruct (mapM (constraint_from_string V vctor) _) as [parsed|e0] eqn:EM; [|intros H; inversion H; subst; eapply mapM_declared; eauto].
  destruct (Nat.ltb 1 (List.length parsed) && existsb (is_star V) parsed) eqn:ES; [intros H; inversion H; left; reflexivity|].
  (* either the single star or no star at all *)
  assert (Cases : parsed = [Star] \/ no_star parsed = true).
  { destruct (existsb (is_star V) parsed) eqn:Est; [|right; apply negb_true_iff; exact Est].
    left. apply (star_alone V); [rewrite Est; exact ES|exact Est]. }
  destruct Cases as [->|Hn].
  - (* the lone star *) cbn. destruct fs; cbn; destruct fv; cbn; discriminate.
  - destruct (sort_perm V cmp parsed Hn) as [s1 [E1 P1]]. rewrite E1.
    assert (Hn1 : no_star s1 = true) by (rewrite <- (no_star_perm V _ _ P1); exact Hn).
    assert (Step : exists s2, (if fs then simplify V cmp s1 else Ok s1) = Ok s2 /\ no_star s2 = true).
    { destruct fs; [apply simplify_total; exact Hn1|exists s1; auto]. }
    destruct Step as [s2 [E2 Hn2]]. rewrite E2.
    destruct fv.
    + destruct (validate_rejects_with_value_error V cmp T s2) as [Hv|Hv]; rewrite Hv.
      * destruct (sort_perm V cmp s2 Hn2) as [s3 [E3 _]]. rewrite E3. discriminate.
      * intros H. inversion H. left. reflexivity.
    + destruct (sort_perm V cmp s2 Hn2) as [s3 [E3 _]]. rewrite E3. discriminate.
Qed.

(* VersionRange.from_string on any string: a range, or a ValueError / InvalidVersion *)
Theorem from_string_declared : forall s fs fv e, from_string V cmp vctor s fs fv = Err e -> declared e.
Proof.
  intros s fs fv e. unfold from_string.
  destruct (is_empty (remove_spaces s)); [intros H; inversion H; left; reflexivity|].
  destruct (negb (py_is_ascii (remove_spaces s))); [intros H; inversion H; left; reflexivity|].
  destruct (partition_c c_colon (remove_spaces s)) as [[uri f] rest].
  destruct (negb (eqs (lower uri) (s2l "vers"))); [intros H; inversion H; left; reflexivity|].
  destruct (partition_c c_slash rest) as [[sch f2] cstxt].
  destruct (lookup_scheme (lower sch)); [|intros H; inversion H; left; reflexivity].
  destruct (constraints_from_string V cmp vctor cstxt fs fv) eqn:E; [discriminate|].
  intros H. inversion H; subst. eapply constraints_from_string_declared; eauto.
Qed.

End Totality.
