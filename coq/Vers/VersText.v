(* Code-shaped model of the vers text layer:
   VersionConstraint.split / from_string / __str__ and VersionRange.from_string / __str__ / to_dict,
   over an abstract scheme (version constructor `vctor`, printer `vstr`, comparison `cmp`). *)
From Coq Require Import List Bool Arith Ascii String NArith.
From UV.Base Require Import Cop Res.
From UV.Gen Require Import Tables.
From UV.Py Require Import PyStr.
From UV.Vers Require Import Model.
Import ListNotations.
Local Open Scope list_scope.

Definition s2l (s : string) : str := list_ascii_of_string s.
Definition l2s (s : str) : string := string_of_list_ascii s.

Definition c_pipe : ascii := "|"%char.
Definition c_colon : ascii := ":"%char.
Definition c_slash : ascii := "/"%char.
Definition c_star : ascii := "*"%char.

(* len(s) + 2 == len(ascii(s)): every character is printable ASCII other than a backslash
   (repr escapes the rest), and the text does not contain both kinds of quotes (repr would
   then escape the single ones) *)
Definition py_is_ascii (s : str) : bool :=
  forallb (fun c => N.leb 32 (code c) && N.leb (code c) 126 && negb (N.eqb (code c) 92)) s
  && negb (mem_c "'"%char s && mem_c """"%char s).

Definition cop7_text (c : cop7) : str := match c with Op o => s2l (cop_text o) | STAR => [c_star] end.

(* VersionConstraint.split: first comparator, in COMPARATORS dict order, the text starts with *)
Fixpoint first_comparator (l : list cop7) (s : str) : option cop7 :=
  match l with
  | [] => None
  | c :: r => if startswith s (cop7_text c) then Some c else first_comparator r s
  end.

Definition split_constraint (s0 : str) : cop7 * str :=
  let s := remove_spaces s0 in
  if startswith s [c_star] then (STAR, [])
  else match first_comparator comparators_order s with
       | Some STAR => (STAR, [])
       | Some (Op o) => (Op o, lstrip_set (s2l (cop_text o)) s)
       | None => (Op EQ, s)
       end.

Section Text.
Variable V : Type.
Variable cmp : V -> V -> comparison.
Variable vctor : str -> res V.   (* version_class(string): normalize, is_valid, build_value *)
Variable vstr : V -> str.        (* str(version) *)

Notation constr := (constr V).

(* VersionConstraint.from_string *)
Definition constraint_from_string (s0 : str) : res constr :=
  let s := remove_spaces s0 in
  if negb (py_is_ascii s) then Err EValue
  else match split_constraint s with
       | (STAR, _) => Ok Star
       | (Op o, v) => if is_empty v then Err EValue
                      else match vctor v with Ok x => Ok (C o x) | Err e => Err e end
       end.

(* VersionConstraint.__str__ *)
Definition constraint_to_string (c : constr) : str :=
  match c with
  | Star => [c_star]
  | C EQ v => vstr v
  | C o v => s2l (cop_text o) ++ vstr v
  end.

Fixpoint mapM {A B} (f : A -> res B) (l : list A) : res (list B) :=
  match l with
  | [] => Ok []
  | x :: r => match f x with
              | Err e => Err e
              | Ok y => match mapM f r with Ok ys => Ok (y :: ys) | Err e => Err e end
              end
  end.

(* the part of VersionRange.from_string after the scheme has been resolved *)
Definition constraints_from_string (cons0 : str) (fs fv : bool) : res (list constr) :=
  let cons := remove_spaces cons0 in
  if is_empty cons then Err EValue
  else if startswith cons [c_star] then (if eqs cons [c_star] then Ok [Star] else Err EValue)
  else
    match mapM constraint_from_string (split_c c_pipe (strip_set [c_pipe] cons)) with
    | Err e => Err e
    | Ok parsed =>
        if Nat.ltb 1 (List.length parsed) && existsb (is_star V) parsed then Err EValue
        else match sort_c V cmp parsed with
             | Err e => Err e
             | Ok s1 =>
                 match (if fs then simplify V cmp s1 else Ok s1) with
                 | Err e => Err e
                 | Ok s2 =>
                     match (if fv then validate V cmp s2 else Ok true) with
                     | Err e => Err e
                     | Ok _ => sort_c V cmp s2          (* range_class(parsed): the constructor sorts *)
                     end
                 end
             end
    end.

(* VersionRange.from_string: returns the scheme's range class and the constraints *)
Definition lookup_scheme (name : str) : option rclass :=
  match find (fun p => eqs (s2l (fst p)) name) registry with Some p => Some (snd p) | None => None end.

Definition from_string (vers0 : str) (fs fv : bool) : res (rclass * list constr) :=
  let vers := remove_spaces vers0 in
  if is_empty vers then Err EValue                    (* not vers or not vers.strip() *)
  else if negb (py_is_ascii vers) then Err EValue
  else
    let '(uri, _, rest) := partition_c c_colon vers in
    if negb (eqs (lower uri) (s2l "vers")) then Err EValue
    else
      let '(sch, _, cstxt) := partition_c c_slash rest in
      match lookup_scheme (lower sch) with
      | None => Err EValue
      | Some rc => match constraints_from_string cstxt fs fv with
                   | Ok cs => Ok (rc, cs)
                   | Err e => Err e
                   end
      end.

(* VersionRange.__str__ *)
Definition constraints_to_string (cs : list constr) : res str :=
  match sort_c V cmp cs with
  | Ok s => Ok (join_c c_pipe (map constraint_to_string s))
  | Err e => Err e
  end.
Definition range_to_string (scheme : str) (cs : list constr) : res str :=
  match constraints_to_string cs with
  | Ok t => Ok (s2l "vers:" ++ scheme ++ c_slash :: t)
  | Err e => Err e
  end.

End Text.
