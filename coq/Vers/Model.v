(* Code-shaped model of univers/version_constraint.py and the algebraic part of
   univers/version_range.py, over an abstract version type V with the scheme's
   three-way comparison `cmp`.  The six Python operators on versions are the
   ones derived from `cmp` (that they are is property C02 of the scheme).

   Only definitions live here (so the model still runs when a proof breaks). *)
From Coq Require Import List Bool Arith.
From UV.Base Require Import Cop Res.
From UV.Gen Require Import Tables.
Import ListNotations.

Section Model.
Variable V : Type.
Variable cmp : V -> V -> comparison.

Definition eqb (a b : V) : bool := match cmp a b with Eq => true | _ => false end.
Definition ltb (a b : V) : bool := match cmp a b with Lt => true | _ => false end.
Definition gtb (a b : V) : bool := match cmp a b with Gt => true | _ => false end.

(* VersionConstraint: a comparator and a version; "*" has version None *)
Inductive constr := Star | C (o : cop) (v : V).

Definition is_star (c : constr) : bool := match c with Star => true | _ => false end.
Definition c_is (p : cop -> bool) (c : constr) : bool := match c with C o _ => p o | Star => false end.
Definition c_lower := c_is lower.      (* comparator in (">", ">=") *)
Definition c_upper := c_is upper.      (* comparator in ("<", "<=") *)
Definition c_eq := c_is (cop_eqb EQ).
Definition c_ne := c_is (cop_eqb NE).
Definition c_point (c : constr) : bool := c_eq c || c_ne c.   (* comparator in ("=", "!=") *)
Definition c_bound (c : constr) : bool := c_lower c || c_upper c.

(* `version <op> constraint.version`, guarded the way Python short-circuits it *)
Definition v_ltb (v : V) (c : constr) : bool := match c with C _ x => ltb v x | Star => false end.
Definition v_gtb (v : V) (c : constr) : bool := match c with C _ x => gtb v x | Star => false end.
Definition v_eqb (v : V) (c : constr) : bool := match c with C _ x => eqb v x | Star => false end.

(* VersionConstraint.__contains__ : comp_operator(version, self.version), table from /repo *)
Definition in1 (c : constr) (v : V) : bool :=
  match c with
  | Star => star_table Lt && star_table Eq && star_table Gt
  | C o x => comp_table o (cmp v x)
  end.

(* ---- contains_version ------------------------------------------------- *)
Fixpoint scan (first : bool) (bs : list constr) (v : V) : res bool :=
  match bs with
  | cur :: ((nxt :: _) as rest) =>
      if first && c_upper cur && v_ltb v cur then Ok true
      else if c_lower cur && c_upper nxt then
             if v_gtb v cur && v_ltb v nxt then Ok true else scan false rest v
      else if c_upper cur && c_lower nxt then scan false rest v
      else Err EInvalidConstraints
  | [l] => Ok (c_lower l && v_gtb v l)
  | [] => Ok false
  end.

Definition is_nil {A} (l : list A) : bool := match l with [] => true | _ => false end.

Definition contains (cs : list constr) (v : V) : res bool :=
  match cs with
  | [c] => Ok (in1 c v)
  | _ =>
      (* "!=" in comparator and version == constraint.version *)
      if existsb (fun c => c_is has_ne_substr c && v_eqb v c) cs then Ok false
      (* "=" in comparator and version == constraint.version *)
      else if existsb (fun c => c_is has_eq_char c && v_eqb v c) cs then Ok true
      else
        let only_unequal := negb (is_nil cs) && forallb c_ne cs in
        match filter (fun c => negb (c_point c)) cs with
        | [] => Ok only_unequal
        | [b] => Ok (in1 b v)
        | bs => scan true bs v
        end
  end.

(* ---- ordering and sorting of constraints ------------------------------- *)
(* VersionConstraint.__lt__ : (self.version, self.comparator) < (other.version, other.comparator)
   Python tuple comparison: the first index where == fails decides with <.
   None (the version of "*") == None; None vs a Version is != and then
   `None < Version` raises TypeError. *)
Definition c_rank (c : constr) : nat := match c with Star => 0 | C o _ => S (cop_rank o) end.
(* the text "*" sorts after "!=" and before "<": only ever compared with another "*" *)

Definition c_lt (a b : constr) : res bool :=
  match a, b with
  | Star, Star => Ok false
  | C o1 v1, C o2 v2 => if eqb v1 v2 then Ok (Nat.ltb (cop_rank o1) (cop_rank o2)) else Ok (ltb v1 v2)
  | _, _ => Err EType
  end.

(* sorted()/list.sort(): a stable sort driven only by `<`; modelled as a stable
   insertion sort (an element is placed before the first x that is not < it) *)
Fixpoint insert_c (c : constr) (l : list constr) : res (list constr) :=
  match l with
  | [] => Ok [c]
  | x :: r =>
      match c_lt x c with
      | Err e => Err e
      | Ok true => match insert_c c r with Ok r' => Ok (x :: r') | Err e => Err e end
      | Ok false => Ok (c :: x :: r)
      end
  end.
Fixpoint sort_c (l : list constr) : res (list constr) :=
  match l with
  | [] => Ok []
  | c :: r => match sort_c r with Ok r' => insert_c c r' | Err e => Err e end
  end.

(* ---- validate ------------------------------------------------------------ *)
Definition c_ver (c : constr) : option V := match c with Star => None | C _ v => Some v end.
Definition overb (a b : option V) : bool :=
  match a, b with None, None => true | Some x, Some y => eqb x y | _, _ => false end.
(* len(set(c.version for c in constraints)): number of distinct versions, where set
   membership is __hash__ then __eq__ (that equal versions hash alike is C12) *)
Fixpoint distinct_vers (l : list (option V)) : list (option V) :=
  match l with
  | [] => []
  | x :: r => let d := distinct_vers r in if existsb (overb x) d then d else x :: d
  end.

Fixpoint pairwise {A} (l : list A) : list (A * A) :=
  match l with a :: ((b :: _) as r) => (a, b) :: pairwise r | _ => [] end.

Definition validate_comparators (cs : list constr) : res bool :=
  if existsb is_star cs then
    if negb (Nat.eqb (length cs) 1) then Err EValue else Ok true
  else
    let cs1 := filter (fun c => negb (c_ne c)) cs in
    if is_nil cs1 then Ok true else
    let invalid_equal :=
      filter (fun p => c_eq (fst p) && negb (c_eq (snd p) || c_is (cop_eqb GT) (snd p) || c_is (cop_eqb GE) (snd p)))
             (pairwise cs1) in
    if negb (is_nil invalid_equal) then Err EValue else
    let cs2 := filter (fun c => negb (c_eq c)) cs1 in
    if is_nil cs2 then Ok true else
    if existsb (fun p => (c_upper (fst p) && negb (c_lower (snd p))) || (c_lower (fst p) && negb (c_upper (snd p))))
               (pairwise cs2)
    then Err EValue else Ok true.

Definition validate (cs : list constr) : res bool :=
  if negb (Nat.eqb (length (distinct_vers (map c_ver cs))) (length cs)) then Err EValue
  else if Nat.ltb 1 (length cs) && existsb is_star cs then Err EValue
  else match sort_c cs with
       | Err e => Err e
       | Ok s => validate_comparators s
       end.

(* ---- simplify ---------------------------------------------------------------- *)
(* VersionConstraint equality (attrs eq=True): same comparator and == versions *)
Definition c_same (a b : constr) : bool :=
  match a, b with
  | Star, Star => true
  | C o1 v1, C o2 v2 => cop_eqb o1 o2 && eqb v1 v2
  | _, _ => false
  end.

(* deduplicate(): keep the first of exact duplicates (`c not in seen`, a set: __hash__ then __eq__) *)
Fixpoint dedup_from (seen l : list constr) : list constr :=
  match l with
  | [] => []
  | c :: r => if existsb (c_same c) seen then dedup_from seen r else c :: dedup_from (c :: seen) r
  end.
Definition deduplicate (l : list constr) : list constr := dedup_from [] l.

(* the two rules of simplify_constraints *)
Definition drop_next (cur nxt : constr) : bool := c_lower cur && (c_eq nxt || c_lower nxt).
Definition drop_cur (cur nxt : constr) : bool := (c_eq cur || c_upper cur) && c_upper nxt.

(* the index walk: `done` is constraints[:i] reversed, `rest` is constraints[i:] *)
Fixpoint simp (fuel : nat) (done rest : list constr) : list constr :=
  match fuel with
  | 0 => rev_append done rest
  | S f =>
      match rest with
      | cur :: nxt :: tl =>
          if drop_next cur nxt then simp f done (cur :: tl)
          else if drop_cur cur nxt then
                 match done with
                 | p :: d => simp f d (p :: nxt :: tl)
                 | [] => simp f [] (nxt :: tl)
                 end
          else simp f (cur :: done) (nxt :: tl)
      | _ => rev_append done rest
      end
  end.

Definition simplify_constraints (cs : list constr) : res (list constr) :=
  if Nat.ltb (length cs) 2 then Ok cs
  else
    let unequal := filter c_ne cs in
    let core := filter (fun c => negb (c_ne c)) cs in
    if is_nil core then Ok unequal
    else sort_c (deduplicate (unequal ++ simp (2 * length core) [] core)).
    (* sorted(set(...)): the set holds one of each group of equal constraints; its iteration
       order is arbitrary, which the sort makes irrelevant (proved in Vers/SimplifyProofs.v) *)

Definition simplify (cs : list constr) : res (list constr) := simplify_constraints (deduplicate cs).

(* ---- invert ---------------------------------------------------------------- *)
Definition invert_c (c : constr) : option constr :=
  match c with Star => None | C o v => Some (C (invert_table o) v) end.

(* VersionRange.invert: None for the star range, else a new range built from the
   inverted constraints (the constructor sorts them; a None in the list, from a
   "*" mixed with others, makes that sort raise TypeError) *)
Fixpoint invert_all (l : list constr) : res (list constr) :=
  match l with
  | [] => Ok []
  | c :: r =>
      match invert_c c with
      | None => Err EType
      | Some c' => match invert_all r with Ok r' => Ok (c' :: r') | Err e => Err e end
      end
  end.
Definition invert (cs : list constr) : option (res (list constr)) :=
  match cs with
  | [Star] => None
  | _ => Some (match invert_all cs with Ok l => sort_c l | Err e => Err e end)
  end.

(* ---- normalize / from_versions ---------------------------------------------- *)
(* sorted(versions): stable insertion sort by `<` *)
Fixpoint insert_v (x : V) (l : list V) : list V :=
  match l with
  | [] => [x]
  | y :: r => if ltb y x then y :: insert_v x r else x :: y :: r
  end.
Definition sort_v (l : list V) : list V := fold_right insert_v [] l.

(* group maximal runs of members *)
Fixpoint runs (mem : V -> bool) (l : list V) (cur : list V) : list (list V) :=
  match l with
  | [] => match cur with [] => [] | _ => [rev cur] end
  | x :: r =>
      if mem x then runs mem r (x :: cur)
      else match cur with [] => runs mem r [] | _ => rev cur :: runs mem r [] end
  end.

Definition seg_constraints (seg : list V) : list constr :=
  match seg with
  | [] => []
  | lo :: _ =>
      let hi := last seg lo in
      if eqb lo hi then [C EQ lo] else [C GE lo; C LE hi]
  end.

Definition normalize (cs : list constr) (known : list V) : res (list constr) :=
  let vs := sort_v known in
  (* every membership test must succeed *)
  if forallb (fun v => is_ok (contains cs v)) vs then
    let mem v := match contains cs v with Ok b => b | Err _ => false end in
    sort_c (flat_map seg_constraints (runs mem vs []))
  else Err EInvalidConstraints.

Definition from_versions (l : list V) : res (list constr) := sort_c (map (C EQ) l).

End Model.

Arguments Star {V}.
Arguments C {V} _ _.
