(* The references behind one interface: ref_cmp class a b = None when the class has no reference here,
   Some None when one of the two texts is outside what the reference accepts, Some (Some c) otherwise. *)
From Coq Require Import List Bool Arith Ascii String NArith ZArith.
From UV.Base Require Import Order Res.
From UV.Py Require Import PyStr.
From UV.Schemes Require Import Common Generic LegacyOpenssl Gentoo GentooProofs Debian DebianProofs Semver Rpm.
From UV.Ref Require Deb Semver Gentoo Openssl Rpm Alpm Gem Nuget Conan Maven Pep440.
Import ListNotations.
Local Open Scope list_scope.

(* strict SemVer 2.0 text: X.Y.Z[-pre][+build], numbers and numeric pre-release identifiers without leading zeros *)
Definition canon_num (t : str) : bool := isdigit t && (Nat.eqb (List.length t) 1 || negb (starts c_zero t)).
Definition semver_id_char (c : ascii) : bool := is_alpha c || is_digit c || eqc c "-"%char.
Definition semver_id (t : str) : bool := negb (is_empty t) && forallb semver_id_char t.
Definition strict_semver (s : str) : option semver :=
  let '(core, has_build, build) := partition_c "+"%char s in
  let '(nums, has_pre, pre) := partition_c "-"%char core in
  let pre_ids := if has_pre then split_c "."%char pre else [] in
  let build_ids := if has_build then split_c "."%char build else [] in
  match split_c "."%char nums with
  | [a; b; c] =>
      if canon_num a && canon_num b && canon_num c
         && forallb (fun i => semver_id i && (negb (all_digits i) || canon_num i)) pre_ids
         && forallb semver_id build_ids
      then Some {| sv_major := int_of_digits a; sv_minor := int_of_digits b; sv_patch := int_of_digits c; sv_pre := pre_ids; sv_build := build_ids |}
      else None
  | _ => None
  end.
Definition strip_v (s : str) : str := match s with c :: r => if eqc c "v"%char then r else s | [] => s end.
Definition ref_semver (s1 s2 : str) : option comparison :=
  match strict_semver s1, strict_semver s2 with
  | Some a, Some b => Some (semver_cmp a b)        (* = SemVer precedence then build: Ref.Semver.semver_matches_reference *)
  | _, _ => None
  end.

(* rpm: parseEVR of rpm (epoch digits before ':', release after the LAST '-'): texts with at most one '-' *)
Definition count_c (c : ascii) (s : str) : nat := List.length (filter (eqc c) s).
Definition rpm_parse_evr (s : str) : option rpmv :=
  let ds := take_while is_digit s in
  let rest := drop_while is_digit s in
  let '(epoch, vr) := match rest with c :: r => if eqc c ":"%char then (ds, r) else ([], s) | [] => ([], s) end in
  if Nat.ltb 1 (count_c "-"%char vr) || mem_c ":"%char vr || is_empty vr then None
  else
    let '(v, has_r, r) := partition_c "-"%char vr in
    (* a release, when present, starts with an alphanumeric character *)
    if has_r && negb (match r with c :: _ => is_alnum c | [] => false end) then None
    else if negb (match v with c :: _ => is_alnum c | [] => false end) then None
    else Some {| r_epoch := Z.of_N (int_of_digits epoch); r_version := v; r_release := r |}.
Definition ref_rpm_text (s1 s2 : str) : option comparison :=
  match rpm_parse_evr s1, rpm_parse_evr s2 with
  | Some a, Some b => Some (Rpm.ref_rpm a b)
  | _, _ => None
  end.

Definition ref_deb_text (s1 s2 : str) : option comparison :=
  match deb_ctor s1, deb_ctor s2 with
  | Ok a, Ok b => if dok a && dok b then Some (Deb.ref_deb a b) else None
  | _, _ => None
  end.
Definition ref_gentoo_text (s1 s2 : str) : option comparison :=
  if gok s1 && gok s2 && gentoo_is_valid s1 && gentoo_is_valid s2 then Some (Gentoo.ref_gentoo s1 s2) else None.
Definition ref_legacy_text (s1 s2 : str) : option comparison :=
  match leg_ctor s1, leg_ctor s2 with
  | Ok a, Ok b => if Openssl.in_grammar (l_patch a) && Openssl.in_grammar (l_patch b) then Some (Openssl.ref_legacy a b) else None
  | _, _ => None
  end.
(* openssl: every pre-3.0 release before every 3.x release *)
Definition is_3x (s : str) : option semver :=
  match strict_semver s with Some v => if N.leb 3 (sv_major v) then Some v else None | None => None end.
Definition ref_openssl_text (s1 s2 : str) : option comparison :=
  match is_3x s1, is_3x s2 with
  | Some a, Some b => Some (semver_cmp a b)
  | Some _, None => match ref_legacy_text s2 s2 with Some _ => Some Gt | None => None end
  | None, Some _ => match ref_legacy_text s1 s1 with Some _ => Some Lt | None => None end
  | None, None => ref_legacy_text s1 s2
  end.
Definition ref_gem_text (s1 s2 : str) : option comparison :=
  if Gem.gem_correct s1 && Gem.gem_correct s2 then Some (Gem.ref_gem s1 s2) else None.

Definition ref_cmp (cls : string) (a b : str) : option (option comparison) :=
  if String.eqb cls "DebianVersion" then Some (ref_deb_text a b)
  else if String.eqb cls "SemverVersion" || String.eqb cls "NginxVersion" then Some (ref_semver a b)
  else if String.eqb cls "GolangVersion" || String.eqb cls "ComposerVersion" then Some (ref_semver (strip_v a) (strip_v b))
  else if String.eqb cls "RpmVersion" then Some (ref_rpm_text a b)
  else if String.eqb cls "ArchLinuxVersion" then Some (Alpm.ref_alpm_text a b)
  else if String.eqb cls "GentooVersion" || String.eqb cls "AlpineLinuxVersion" then Some (ref_gentoo_text a b)
  else if String.eqb cls "LegacyOpensslVersion" then Some (ref_legacy_text a b)
  else if String.eqb cls "OpensslVersion" then Some (ref_openssl_text a b)
  else if String.eqb cls "RubygemsVersion" then Some (ref_gem_text a b)
  else if String.eqb cls "NugetVersion" then Some (Nuget.ref_nuget a b)
  else if String.eqb cls "ConanVersion" then Some (Conan.ref_conan a b)
  else if String.eqb cls "MavenVersion" then Some (Some (Maven.ref_maven a b))
  else if String.eqb cls "PypiVersion" then Some (Pep440.ref_pypi a b)
  else None.
