(* Reference for the semver family: SemVer 2.0.0 section 11, written as an inductive relation from the text of the
   specification, and the theorem that the code-shaped model of the precedence key computes it.

   11.1 Precedence MUST be calculated by separating the version into major, minor, patch and pre-release identifiers
        in that order (build metadata does not figure into precedence).
   11.2 Precedence is determined by the first difference when comparing each of these identifiers from left to right:
        major, minor, and patch versions are always compared numerically.
   11.3 When major, minor, and patch are equal, a pre-release version has lower precedence than a normal version.
   11.4 Precedence for two pre-release versions with the same major, minor, and patch version MUST be determined by
        comparing each dot separated identifier from left to right until a difference is found as follows:
        1. identifiers consisting of only digits are compared numerically;
        2. identifiers with letters or hyphens are compared lexically in ASCII sort order;
        3. numeric identifiers always have lower precedence than non-numeric identifiers;
        4. a larger set of pre-release fields has a higher precedence than a smaller set, if all of the preceding
           identifiers are equal.
   univers adds a tie-break on the build identifiers (the property's "build tie-break"), stated separately below. *)
From Coq Require Import List Bool Arith Ascii NArith Lia.
From UV.Base Require Import Order Res.
From UV.Py Require Import PyStr.
From UV.Schemes Require Import Common Generic Semver SemverProofs.
Import ListNotations.
Local Open Scope list_scope.

Inductive id_lt : str -> str -> Prop :=
| id_numeric a b : all_digits a = true -> all_digits b = true -> (int_of_digits a < int_of_digits b)%N -> id_lt a b      (* 11.4.1 *)
| id_lexical a b : all_digits a = false -> all_digits b = false -> cmp_str a b = Lt -> id_lt a b                          (* 11.4.2 *)
| id_num_below_alpha a b : all_digits a = true -> all_digits b = false -> id_lt a b.                                      (* 11.4.3 *)

(* "equal" identifiers: the same text, or digits with the same numerical value *)
Definition id_same (a b : str) : Prop :=
  a = b \/ (all_digits a = true /\ all_digits b = true /\ int_of_digits a = int_of_digits b).

Inductive fields_lt : list str -> list str -> Prop :=
| fields_first x y r1 r2 : id_lt x y -> fields_lt (x :: r1) (y :: r2)
| fields_next x y r1 r2 : id_same x y -> fields_lt r1 r2 -> fields_lt (x :: r1) (y :: r2)
| fields_larger_set y r : fields_lt [] (y :: r).                                                                          (* 11.4.4 *)

Definition same_triple (a b : semver) : Prop :=
  sv_major a = sv_major b /\ sv_minor a = sv_minor b /\ sv_patch a = sv_patch b.

Inductive prec_lt (a b : semver) : Prop :=
| by_major : (sv_major a < sv_major b)%N -> prec_lt a b
| by_minor : sv_major a = sv_major b -> (sv_minor a < sv_minor b)%N -> prec_lt a b
| by_patch : sv_major a = sv_major b -> sv_minor a = sv_minor b -> (sv_patch a < sv_patch b)%N -> prec_lt a b
| prerelease_below_normal : same_triple a b -> sv_pre a <> [] -> sv_pre b = [] -> prec_lt a b                            (* 11.3 *)
| by_prerelease : same_triple a b -> sv_pre a <> [] -> sv_pre b <> [] -> fields_lt (sv_pre a) (sv_pre b) -> prec_lt a b. (* 11.4 *)

(* the precedence part of the model's comparison: semver_cmp without the build tie-break *)
Definition prec_cmp (a b : semver) : comparison :=
  match N.compare (sv_major a) (sv_major b) with
  | Eq => match N.compare (sv_minor a) (sv_minor b) with
          | Eq => match N.compare (sv_patch a) (sv_patch b) with
                  | Eq => pre_cmp (sv_pre a) (sv_pre b)
                  | o => o end
          | o => o end
  | o => o end.

Theorem semver_cmp_is_precedence_then_build a b :
  semver_cmp a b = match prec_cmp a b with Eq => cmp_lex cmp_str (sv_build a) (sv_build b) | o => o end.
Proof.
  unfold semver_cmp, prec_cmp.
  destruct (N.compare (sv_major a) (sv_major b)); try reflexivity.
  destruct (N.compare (sv_minor a) (sv_minor b)); try reflexivity.
  destruct (N.compare (sv_patch a) (sv_patch b)); reflexivity.
Qed.

Lemma cmp_str_refl a : cmp_str a a = Eq.
Proof. apply (tpo_refl _ tpo_str). Qed.

Lemma id_cmp_lt a b : id_cmp a b = Lt <-> id_lt a b.
Proof.
  unfold id_cmp. split.
  - destruct (all_digits a) eqn:Da, (all_digits b) eqn:Db; intros H; try discriminate.
    + apply id_numeric; auto; apply N.compare_lt_iff; exact H.
    + apply id_num_below_alpha; auto.
    + apply id_lexical; auto.
  - intros H. destruct H as [a b Da Db L|a b Da Db L|a b Da Db]; rewrite Da, Db; auto; apply N.compare_lt_iff; exact L.
Qed.
Lemma id_cmp_same a b : id_cmp a b = Eq <-> id_same a b.
Proof.
  unfold id_cmp, id_same. split.
  - destruct (all_digits a) eqn:Da, (all_digits b) eqn:Db; intros H; try discriminate.
    + right. repeat split; auto; apply N.compare_eq_iff; exact H.
    + left. apply cmp_str_eq. exact H.
  - intros [E|[Da [Db E]]].
    + subst. destruct (all_digits b); [apply N.compare_refl|apply cmp_str_refl].
    + rewrite Da, Db. apply N.compare_eq_iff. exact E.
Qed.

Lemma lex_lt_fields : forall p q, cmp_lex id_cmp p q = Lt <-> fields_lt p q.
Proof.
  induction p as [|x r1 IH]; intros q; split.
  - destruct q; cbn; [discriminate|constructor].
  - intros H. inversion H. reflexivity.
  - destruct q as [|y r2]; cbn; [discriminate|].
    destruct (id_cmp x y) eqn:E; intros H; try discriminate.
    + apply fields_next; [apply id_cmp_same; exact E|apply IH; exact H].
    + apply fields_first. apply id_cmp_lt. exact E.
  - intros H. inversion H as [x' y r1' r2 L|x' y r1' r2 S L|]; subst; cbn.
    + apply id_cmp_lt in L. rewrite L. reflexivity.
    + apply id_cmp_same in S. rewrite S. apply IH. exact L.
Qed.

(* C03 for the semver family: "before" in the model is exactly SemVer 2.0 precedence *)
Theorem prec_cmp_lt a b : prec_cmp a b = Lt <-> prec_lt a b.
Proof.
  unfold prec_cmp. split.
  - destruct (N.compare (sv_major a) (sv_major b)) eqn:E1; try discriminate.
    2:{ intros _. apply by_major; apply N.compare_lt_iff; exact E1. }
    apply N.compare_eq_iff in E1.
    destruct (N.compare (sv_minor a) (sv_minor b)) eqn:E2; try discriminate.
    2:{ intros _. apply by_minor; auto; apply N.compare_lt_iff; exact E2. }
    apply N.compare_eq_iff in E2.
    destruct (N.compare (sv_patch a) (sv_patch b)) eqn:E3; try discriminate.
    2:{ intros _. apply by_patch; auto; apply N.compare_lt_iff; exact E3. }
    apply N.compare_eq_iff in E3.
    unfold pre_cmp. destruct (sv_pre a) as [|x p] eqn:Pa, (sv_pre b) as [|y q] eqn:Pb; try discriminate.
    + intros _. apply prerelease_below_normal; [repeat split; auto|rewrite Pa; discriminate|exact Pb].
    + intros H. apply by_prerelease; [repeat split; auto|rewrite Pa; discriminate|rewrite Pb; discriminate|].
      rewrite Pa, Pb. apply lex_lt_fields. exact H.
  - intros H. destruct H as [L|E1 L|E1 E2 L|[E1 [E2 E3]] Na Nb|[E1 [E2 E3]] Na Nb F].
    + apply N.compare_lt_iff in L. rewrite L. reflexivity.
    + rewrite E1, N.compare_refl. apply N.compare_lt_iff in L. rewrite L. reflexivity.
    + rewrite E1, E2, !N.compare_refl. apply N.compare_lt_iff in L. rewrite L. reflexivity.
    + rewrite E1, E2, E3, !N.compare_refl. unfold pre_cmp. rewrite Nb. destruct (sv_pre a); [congruence|reflexivity].
    + rewrite E1, E2, E3, !N.compare_refl. unfold pre_cmp.
      destruct (sv_pre a) as [|x p] eqn:Pa; [congruence|]. destruct (sv_pre b) as [|y q] eqn:Pb; [congruence|].
      apply lex_lt_fields. exact F.
Qed.

Lemma prec_cmp_sym a b : prec_cmp b a = CompOpp (prec_cmp a b).
Proof.
  unfold prec_cmp.
  rewrite (N.compare_antisym (sv_major a) (sv_major b)). destruct (N.compare (sv_major a) (sv_major b)); try reflexivity.
  rewrite (N.compare_antisym (sv_minor a) (sv_minor b)). destruct (N.compare (sv_minor a) (sv_minor b)); try reflexivity.
  rewrite (N.compare_antisym (sv_patch a) (sv_patch b)). destruct (N.compare (sv_patch a) (sv_patch b)); try reflexivity.
  apply (tpo_sym _ tpo_pre_cmp).
Qed.

Theorem prec_cmp_gt a b : prec_cmp a b = Gt <-> prec_lt b a.
Proof.
  rewrite <- prec_cmp_lt, (prec_cmp_sym a b). destruct (prec_cmp a b); cbn; split; congruence.
Qed.
(* "same precedence": neither is before the other *)
Theorem prec_cmp_eq a b : prec_cmp a b = Eq <-> (~ prec_lt a b /\ ~ prec_lt b a).
Proof.
  rewrite <- prec_cmp_lt, <- prec_cmp_gt. destruct (prec_cmp a b); split; try congruence; intuition congruence.
Qed.

(* whole statement: before / same / after of the model = SemVer precedence, ties broken by the build identifiers *)
Theorem semver_matches_reference a b :
  (semver_cmp a b = Lt <-> prec_lt a b \/ (~ prec_lt a b /\ ~ prec_lt b a /\ cmp_lex cmp_str (sv_build a) (sv_build b) = Lt)) /\
  (semver_cmp a b = Gt <-> prec_lt b a \/ (~ prec_lt a b /\ ~ prec_lt b a /\ cmp_lex cmp_str (sv_build a) (sv_build b) = Gt)).
Proof.
  rewrite semver_cmp_is_precedence_then_build.
  pose proof (prec_cmp_lt a b) as L. pose proof (prec_cmp_gt a b) as G. pose proof (prec_cmp_eq a b) as E.
  destruct (prec_cmp a b) eqn:P; split; split; intros H.
  - right. destruct E as [E _]. destruct (E eq_refl). auto.
  - destruct H as [H|[_ [_ H]]]; [apply L in H; discriminate|exact H].
  - right. destruct E as [E _]. destruct (E eq_refl). auto.
  - destruct H as [H|[_ [_ H]]]; [apply G in H; discriminate|exact H].
  - left. apply L. reflexivity.
  - reflexivity.
  - discriminate.
  - destruct H as [H|[H _]]; [apply G in H; discriminate|]. exfalso. apply H. apply L. reflexivity.
  - discriminate.
  - destruct H as [H|[_ [H _]]]; [apply L in H; discriminate|]. exfalso. apply H. apply G. reflexivity.
  - left. apply G. reflexivity.
  - reflexivity.
Qed.
