(* Reference for rpm: rpmvercmp() of rpm (rpmio/rpmvercmp.c), transliterated statement by statement, with the
   epoch / version / release comparison of rpmVersionCompare; and the theorem that the code-shaped model of
   univers.rpm.Vercmp.compare computes the same function on all strings.

     if (rstreq(a, b)) return 0;
     while (one or two has characters left) {
         skip in both the characters that are neither alphanumeric nor '~' nor '^';
         if (either is at '~') { if (one is not) return 1; if (two is not) return -1; step over it in both; continue; }
         if (either is at '^') { if (one has ended) return -1; if (two has ended) return 1;
                                 if (one is not at '^') return 1; if (two is not at '^') return -1; step over both; continue; }
         if (either has ended) break;
         grab the numeric segment of both if one is at a digit, else the alphabetic segment of both;
         if (the segment of one is empty) return -1;            [cannot happen]
         if (the segment of two is empty) return (isnum ? 1 : -1);
         if (isnum) { skip leading zeros of both; if (onelen > twolen) return 1; if (twolen > onelen) return -1; }
         rc = strcmp(one, two); if (rc) return (rc < 1 ? -1 : 1);
         go on after the two segments;
     }
     if (both have ended) return 0;
     return (one has characters left ? 1 : -1);                                                                   *)
From Coq Require Import List Bool Arith Ascii String NArith ZArith Lia.
From UV.Base Require Import Order Res.
From UV.Py Require Import PyStr.
From UV.Schemes Require Import Common Generic Gentoo Rpm.
From UV.Ref Require Deb.
Import ListNotations.
Local Open Scope list_scope.

Definition risalnum (c : ascii) : bool := is_alpha c || is_digit c.
Definition separator (c : ascii) : bool := negb (risalnum c) && negb (eqc c "~"%char) && negb (eqc c "^"%char).
Notation at_char := starts (only parsing).     (* the next character of s is c *)
Notation ended := is_empty (only parsing).     (* no character left *)
Definition skip_zeros (s : str) : str := drop_while (fun c => eqc c "0"%char) s.

Fixpoint ref_loop (fuel : nat) (one two : str) : comparison :=
  match fuel with
  | O => Eq
  | S f =>
      if ended one && ended two then Eq
      else
        let one := drop_while separator one in
        let two := drop_while separator two in
        if at_char "~"%char one || at_char "~"%char two then
          if negb (at_char "~"%char one) then Gt
          else if negb (at_char "~"%char two) then Lt
          else ref_loop f (tl one) (tl two)
        else if at_char "^"%char one || at_char "^"%char two then
          if ended one then Lt
          else if ended two then Gt
          else if negb (at_char "^"%char one) then Gt
          else if negb (at_char "^"%char two) then Lt
          else ref_loop f (tl one) (tl two)
        else if negb (negb (ended one) && negb (ended two)) then
          (if ended one && ended two then Eq else if negb (ended one) then Gt else Lt)
        else
          let isnum := match one with c :: _ => is_digit c | [] => false end in
          let seg := if isnum then is_digit else is_alpha in
          let s1 := take_while seg one in
          let s2 := take_while seg two in
          if ended s1 then Lt
          else if ended s2 then (if isnum then Gt else Lt)
          else
            let a := if isnum then skip_zeros s1 else s1 in
            let b := if isnum then skip_zeros s2 else s2 in
            if isnum && Nat.ltb (List.length b) (List.length a) then Gt
            else if isnum && Nat.ltb (List.length a) (List.length b) then Lt
            else match cmp_str a b with
                 | Eq => ref_loop f (drop_while seg one) (drop_while seg two)
                 | o => o
                 end
  end.
Definition ref_rpmvercmp (a b : str) : comparison :=
  if eqs a b then Eq else ref_loop (S (List.length a + List.length b)) a b.

(* rpmVersionCompare: epoch (numeric, a missing one is 0), then version, then release *)
Definition ref_rpm (a b : rpmv) : comparison :=
  match Z.compare (r_epoch a) (r_epoch b) with
  | Eq => match ref_rpmvercmp (ascii_only (r_version a)) (ascii_only (r_version b)) with
          | Eq => ref_rpmvercmp (ascii_only (r_release a)) (ascii_only (r_release b))
          | o => o end
  | o => o end.

(* ---- the model computes the reference ---------------------------------------------------------------------- *)
Lemma junk_separator c : junk c = separator c.
Proof.
  unfold junk, separator, is_alnum, risalnum, c_tilde, c_caret.
  destruct (is_alpha c || is_digit c), (eqc c "~"%char), (eqc c "^"%char); reflexivity.
Qed.
Lemma drop_junk s : drop_while junk s = drop_while separator s.
Proof. induction s as [|c r IH]; cbn; [reflexivity|]. rewrite junk_separator, IH. reflexivity. Qed.
Lemma take_junk s : take_while junk s = take_while separator s.
Proof. induction s as [|c r IH]; cbn; [reflexivity|]. rewrite junk_separator, IH. reflexivity. Qed.

Lemma drop_while_idem (p : ascii -> bool) s : drop_while p (drop_while p s) = drop_while p s.
Proof.
  induction s as [|c r IH]; cbn; [reflexivity|]. destruct (p c) eqn:E; [exact IH|]. cbn. rewrite E. reflexivity.
Qed.
Lemma take_nil_drop (p : ascii -> bool) s : is_empty (take_while p s) = true -> drop_while p s = s.
Proof. destruct s as [|c r]; cbn; [reflexivity|]. destruct (p c); [discriminate|reflexivity]. Qed.
Lemma take_drop_len (p : ascii -> bool) s : List.length (take_while p s) + List.length (drop_while p s) = List.length s.
Proof. induction s as [|c r IH]; cbn; [reflexivity|]. destruct (p c); cbn; lia. Qed.
Lemma drop_len (p : ascii -> bool) s : List.length (drop_while p s) <= List.length s.
Proof. pose proof (take_drop_len p s). lia. Qed.
Lemma take_nonempty_drop_shorter (p : ascii -> bool) s : is_empty (take_while p s) = false ->
  List.length (drop_while p s) < List.length s.
Proof. intros H. pose proof (take_drop_len p s). destruct (take_while p s); [discriminate|]. cbn in *. lia. Qed.

Lemma tl_len (s : str) : s <> [] -> List.length (tl s) < List.length s.
Proof. destruct s; [congruence|cbn; lia]. Qed.
Lemma at_char_nonempty c s : at_char c s = true -> s <> [].
Proof. destruct s; [discriminate|congruence]. Qed.

(* the reference's iteration does not care whether the separators were skipped beforehand *)
Lemma ref_loop_skipped f one two :
  (ended one && ended two = false) ->
  ref_loop (S f) (drop_while separator one) (drop_while separator two) = ref_loop (S f) one two.
Proof.
  intros NE. cbn [ref_loop]. rewrite NE. rewrite !drop_while_idem.
  destruct (ended (drop_while separator one) && ended (drop_while separator two)) eqn:E; [|reflexivity].
  apply andb_true_iff in E. destruct E as [E1 E2].
  destruct (drop_while separator one); [|discriminate]. destruct (drop_while separator two); [|discriminate]. reflexivity.
Qed.

Lemma digit_not_alpha c : is_digit c = true -> is_alpha c = false.
Proof.
  intros H. assert (T : forallb (fun c => negb (is_digit c && is_alpha c)) UV.Ref.Deb.all_chars = true) by (vm_compute; reflexivity).
  rewrite forallb_forall in T. specialize (T c (UV.Ref.Deb.all_chars_complete c)). rewrite H in T. cbn in T.
  destruct (is_alpha c); [discriminate|reflexivity].
Qed.

Theorem vloop_ref : forall f1 f2 a b,
  List.length a + List.length b < f1 -> List.length a + List.length b < f2 -> vloop f1 a b = ref_loop f2 a b.
Proof.
  induction f1 as [|f1 IH]; intros f2 a b L1 L2; [lia|]. destruct f2 as [|f2]; [lia|].
  cbn [vloop].
  destruct (is_empty a && is_empty b) eqn:EE.
  { apply andb_true_iff in EE. destruct EE as [Ea Eb]. destruct a; [|discriminate]. destruct b; [|discriminate]. reflexivity. }
  rewrite !take_junk, !drop_junk.
  destruct (negb (is_empty (take_while separator a)) || negb (is_empty (take_while separator b))) eqn:J.
  { (* junk: the model goes round again with the stripped strings *)
    rewrite <- (ref_loop_skipped f2 a b EE).
    assert (La : List.length (drop_while separator a) + List.length (drop_while separator b) < List.length a + List.length b).
    { apply orb_true_iff in J. destruct J as [J|J]; apply negb_true_iff in J.
      - pose proof (take_nonempty_drop_shorter separator a J). pose proof (drop_len separator b). lia.
      - pose proof (take_nonempty_drop_shorter separator b J). pose proof (drop_len separator a). lia. }
    apply IH; lia. }
  apply orb_false_iff in J. destruct J as [J1 J2]. apply negb_false_iff in J1, J2.
  pose proof (take_nil_drop separator a J1) as Da. pose proof (take_nil_drop separator b J2) as Db.
  cbn [ref_loop]. rewrite EE. rewrite Da, Db.
  unfold c_tilde, c_caret.
  destruct (at_char "~"%char a) eqn:Ta.
  { cbn [orb negb]. destruct (at_char "~"%char b) eqn:Tb; cbn [negb]; [|reflexivity].
    pose proof (tl_len a (at_char_nonempty _ _ Ta)). pose proof (tl_len b (at_char_nonempty _ _ Tb)). apply IH; lia. }
  destruct (at_char "~"%char b) eqn:Tb; [reflexivity|]. cbn [orb].
  destruct (at_char "^"%char a) eqn:Ca.
  { cbn [orb]. assert (Ea : ended a = false) by (destruct a; [discriminate|reflexivity]). rewrite Ea.
    destruct (ended b) eqn:Eb; [reflexivity|]. cbn [negb].
    destruct (at_char "^"%char b) eqn:Cb; cbn [negb]; [|reflexivity].
    pose proof (tl_len a (at_char_nonempty _ _ Ca)). pose proof (tl_len b (at_char_nonempty _ _ Cb)). apply IH; lia. }
  destruct (at_char "^"%char b) eqn:Cb.
  { cbn [orb]. assert (Eb : ended b = false) by (destruct b; [discriminate|reflexivity]). rewrite Eb.
    destruct (ended a); reflexivity. }
  cbn [orb].
  destruct (ended a) eqn:Ea.
  { cbn [orb negb andb]. unfold leftover. rewrite Ea. cbn [andb negb]. destruct (ended b); reflexivity. }
  destruct (ended b) eqn:Eb.
  { cbn [orb negb andb]. unfold leftover. rewrite Ea, Eb. reflexivity. }
  cbn [orb negb andb].
  destruct a as [|ca ra]; [discriminate|]. destruct b as [|cb rb]; [discriminate|].
  set (A := ca :: ra) in *. set (B := cb :: rb) in *.
  destruct (is_digit ca) eqn:Dg.
  - (* numeric segment *)
    assert (N1 : is_empty (take_while is_digit A) = false) by (subst A; cbn; rewrite Dg; reflexivity).
    rewrite N1. cbn [negb].
    destruct (ended (take_while is_digit B)) eqn:N2; [reflexivity|].
    unfold lstrip0, skip_zeros, c_zero. cbn [andb].
    set (x := drop_while (fun c => eqc c "0"%char) (take_while is_digit A)).
    set (y := drop_while (fun c => eqc c "0"%char) (take_while is_digit B)).
    destruct (Nat.ltb (List.length x) (List.length y)) eqn:Lxy.
    + assert (Nat.ltb (List.length y) (List.length x) = false) by (apply Nat.ltb_ge; apply Nat.ltb_lt in Lxy; lia).
      rewrite H. reflexivity.
    + destruct (Nat.ltb (List.length y) (List.length x)) eqn:Lyx; [reflexivity|].
      destruct (cmp_str x y); try reflexivity.
      pose proof (take_nonempty_drop_shorter is_digit A N1). pose proof (drop_len is_digit B). apply IH; lia.
  - (* alphabetic segment *)
    assert (N1 : is_empty (take_while is_digit A) = true) by (subst A; cbn; rewrite Dg; reflexivity).
    rewrite N1. cbn [negb].
    (* the first character is a letter: it is no separator, tilde, caret or digit *)
    assert (Al : is_alpha ca = true).
    { subst A. cbn in J1. destruct (separator ca) eqn:S; [discriminate|].
      unfold separator, risalnum in S. cbn in Ta, Ca. rewrite Ta, Ca, Dg in S. cbn in S.
      destruct (is_alpha ca); [reflexivity|discriminate]. }
    assert (A1 : ended (take_while is_alpha A) = false) by (subst A; cbn; rewrite Al; reflexivity).
    rewrite A1.
    destruct (ended (take_while is_alpha B)) eqn:A2; [reflexivity|]. cbn [andb].
    destruct (cmp_str (take_while is_alpha A) (take_while is_alpha B)); try reflexivity.
    pose proof (take_nonempty_drop_shorter is_alpha A A1). pose proof (drop_len is_alpha B). apply IH; lia.
Qed.

Theorem vercmp_matches_rpmvercmp a b : vercmp_rpm a b = ref_rpmvercmp (ascii_only a) (ascii_only b).
Proof.
  unfold vercmp_rpm, ref_rpmvercmp. destruct (eqs (ascii_only a) (ascii_only b)); [reflexivity|].
  apply vloop_ref; lia.
Qed.

Lemma ref_rpmvercmp_refl s : ref_rpmvercmp s s = Eq.
Proof. unfold ref_rpmvercmp. assert (E : eqs s s = true) by (apply eqs_eq; reflexivity). rewrite E. reflexivity. Qed.

(* C03 for rpm: the comparison of the model is rpm's own, for all versions *)
Theorem rpm_matches_reference a b : rpm_compare a b = ref_rpm a b.
Proof.
  unfold rpm_compare, ref_rpm. destruct (Z.compare (r_epoch a) (r_epoch b)); try reflexivity.
  rewrite !vercmp_matches_rpmvercmp.
  destruct (eqs (r_version a) (r_version b) && eqs (r_release a) (r_release b)) eqn:E; [|reflexivity].
  apply andb_true_iff in E. destruct E as [E1 E2]. apply eqs_eq in E1, E2. rewrite E1, E2, !ref_rpmvercmp_refl. reflexivity.
Qed.
