(* Reference for maven: org.apache.maven.artifact.versioning.ComparableVersion (Maven 3.x), transliterated:
   parseVersion (lower-casing, '.' and '-' separators, digit/letter transitions opening sub-lists, trailing null items
   removed), StringItem (the a/b/m shorthands before a digit, the aliases ga/final = "" and cr = rc, the qualifier
   order alpha < beta < milestone < rc < snapshot < "" < sp < anything else), and the compareTo of IntItem, StringItem
   and ListItem (an item against a missing one; a list against nothing looks at its first item only). *)
From Coq Require Import List Bool Arith Ascii String NArith Lia.
From UV.Base Require Import Order Res.
From UV.Py Require Import PyStr.
From UV.Schemes Require Import Common Generic.
Import ListNotations.
Local Open Scope list_scope.

Inductive mitem := MInt (n : N) | MStr (s : str) | MList (l : list mitem).

Definition ms (x : string) : str := list_ascii_of_string x.
Definition qualifiers : list str := map ms ["alpha"; "beta"; "milestone"; "rc"; "snapshot"; ""; "sp"]%string.
Fixpoint index_of (q : str) (l : list str) (i : N) : option N :=
  match l with [] => None | x :: r => if eqs x q then Some i else index_of q r (i + 1)%N end.
Definition comparable_qualifier (q : str) : str :=
  match index_of q qualifiers 0 with
  | Some i => str_of_N i
  | None => str_of_N 7 ++ "-"%char :: q
  end.
Definition release_index : str := ms "5".

Definition string_item (value : str) (followed_by_digit : bool) : mitem :=
  let value :=
    if followed_by_digit && Nat.eqb (List.length value) 1 then
      if eqs value (ms "a") then ms "alpha" else if eqs value (ms "b") then ms "beta" else if eqs value (ms "m") then ms "milestone" else value
    else value in
  let value := if eqs value (ms "ga") || eqs value (ms "final") then [] else if eqs value (ms "cr") then ms "rc" else value in
  MStr value.
Definition parse_item (is_digit : bool) (buf : str) : mitem :=
  if is_digit then MInt (int_of_digits buf) else string_item buf false.

Definition is_null (i : mitem) : bool :=
  match i with MInt n => N.eqb n 0 | MStr s => is_empty s | MList l => match l with [] => true | _ => false end end.
Definition strip_nulls (l : list mitem) : list mitem :=
  rev ((fix dz (l : list mitem) := match l with x :: r => if is_null x then dz r else l | [] => [] end) (rev l)).

(* the scan: buf and cur are kept reversed; segs are the closed lists, innermost last *)
Fixpoint scan (s : str) (buf : str) (isnum : bool) (cur : list mitem) (segs : list (list mitem)) : list (list mitem) :=
  match s with
  | [] =>
      let cur := if is_empty buf then cur else parse_item isnum (rev buf) :: cur in
      rev (rev cur :: segs)
  | c :: r =>
      if eqc c "."%char then
        scan r [] isnum ((if is_empty buf then MInt 0 else parse_item isnum (rev buf)) :: cur) segs
      else if eqc c "-"%char then
        scan r [] isnum [] (rev ((if is_empty buf then MInt 0 else parse_item isnum (rev buf)) :: cur) :: segs)
      else if is_digit c then
        if negb isnum && negb (is_empty buf)
        then scan r [c] true [] (rev (string_item (rev buf) true :: cur) :: segs)
        else scan r (c :: buf) true cur segs
      else
        if isnum && negb (is_empty buf)
        then scan r [c] false [] (rev (parse_item true (rev buf) :: cur) :: segs)
        else scan r (c :: buf) false cur segs
  end.

(* every list but the first is the last element of the one before; normalize from the innermost outwards *)
Fixpoint nest (segs : list (list mitem)) : list mitem :=
  match segs with
  | [] => []
  | seg :: rest =>
      match rest with
      | [] => strip_nulls seg
      | _ => match nest rest with
             | [] => strip_nulls seg
             | inner => strip_nulls seg ++ [MList inner]
             end
      end
  end.
Definition maven_parse (version : str) : list mitem := nest (scan (lower version) [] false [] []).

Definition cq := comparable_qualifier.
Definition opp (c : comparison) : comparison := CompOpp c.

Fixpoint item_cmp (fuel : nat) (a : mitem) (b : option mitem) : comparison :=
  match fuel with
  | O => Eq
  | S f =>
      match a with
      | MInt x =>
          match b with
          | None => if N.eqb x 0 then Eq else Gt
          | Some (MInt y) => N.compare x y
          | Some (MStr _) => Gt              (* 1.1 > 1-sp *)
          | Some (MList _) => Gt             (* 1.1 > 1-1 *)
          end
      | MStr s =>
          match b with
          | None => cmp_str (cq s) release_index
          | Some (MInt _) => Lt              (* 1.any < 1.1 *)
          | Some (MStr t) => cmp_str (cq s) (cq t)
          | Some (MList _) => Lt             (* 1.any < 1-1 *)
          end
      | MList l =>
          match b with
          | None => match l with [] => Eq | first :: _ => item_cmp f first None end
          | Some (MInt _) => Lt              (* 1-1 < 1.0.x *)
          | Some (MStr _) => Gt              (* 1-1 > 1-sp *)
          | Some (MList l2) =>
              (fix both (l1 l2 : list mitem) : comparison :=
                 match l1 with
                 | [] => (fix right_only (l : list mitem) : comparison :=
                            match l with [] => Eq | y :: r => match opp (item_cmp f y None) with Eq => right_only r | o => o end end) l2
                 | x :: r1 =>
                     match l2 with
                     | [] => (fix left_only (l : list mitem) : comparison :=
                                match l with [] => Eq | x :: r => match item_cmp f x None with Eq => left_only r | o => o end end) l1
                     | y :: r2 => match item_cmp f x (Some y) with Eq => both r1 r2 | o => o end
                     end
                 end) l l2
          end
      end
  end.

Fixpoint size (i : mitem) : nat :=
  match i with MList l => S (fold_right (fun x acc => size x + acc) 0 l) | _ => 1 end.
Definition ref_maven (s1 s2 : str) : comparison :=
  let a := MList (maven_parse s1) in let b := MList (maven_parse s2) in
  item_cmp (S (size a + size b)) a (Some b).

(* the examples of the javadoc of ComparableVersion and of the POM reference (version order) *)
Example maven_examples :
  map (fun p => ref_maven (ms (fst p)) (ms (snd p)))
    [("1", "1.0"); ("1.0", "1-0"); ("1", "1.ga"); ("1-ga", "1-final"); ("1.0-alpha-1", "1.0-a1"); ("1.0-alpha1", "1.0-ALPHA-1");
     ("1.0-alpha-1", "1.0-beta-1"); ("1.0-beta-1", "1.0-milestone-1"); ("1.0-m1", "1.0-rc-1"); ("1.0-cr1", "1.0-rc1"); ("1.0-rc1", "1.0-SNAPSHOT");
     ("1.0-SNAPSHOT", "1.0"); ("1.0", "1.0-sp"); ("1.0-sp", "1.0-whatever"); ("1.0-whatever", "1.0.1"); ("1.0.1", "1.1"); ("1-1", "1.1"); ("1-foo", "1-1");
     ("1.0.0-foo.0.0", "1-foo"); ("1.0.0-0.0.0", "1"); ("2.0.1-klm", "2.0.1-lmn"); ("2.0.1-xyz", "2.0.1"); ("2.0.1", "2.0.1-123"); ("1.0.10", "1.0.9")]%string
  = [Eq; Eq; Eq; Eq; Eq; Eq; Lt; Lt; Lt; Eq; Lt; Lt; Lt; Lt; Lt; Lt; Lt; Lt; Eq; Eq; Lt; Gt; Lt; Gt].
Proof. vm_compute. reflexivity. Qed.
