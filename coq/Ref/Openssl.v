(* Reference for pre-3.0 openssl: the order of OPENSSL_VERSION_NUMBER (opensslv.h, "MNNFFPPS: major minor fix patch
   status"): the patch letters count a = 1 ... z = 26, za = 27 ..., the status is lower for a pre-release than for the
   release. The letterless base with a pre-release status comes first, then the release, then the letter releases.
   Pre-release kinds are ranked alpha < beta < pre and then by their number (one digit: no branch had more than nine).
   The patch texts of this grammar are finitely many (1 + 26 + 26 letter forms, 3 x 9 pre-releases), so the agreement
   of the model's (is_prerelease, patch text) comparison with the numeric reference is checked for every pair of
   shapes by computation and lifted to all versions: major, minor and fix stay unbounded. *)
From Coq Require Import List Bool Arith Ascii String NArith Lia.
From UV.Base Require Import Order Res.
From UV.Py Require Import PyStr.
From UV.Schemes Require Import Common Generic LegacyOpenssl.
From UV.Ref Require Import Deb.
Import ListNotations.
Local Open Scope list_scope.

Definition lower_letters : list ascii := map (fun n => ch (N.of_nat (97 + n))) (seq 0 26).
Definition digits_1_9 : list ascii := map (fun n => ch (N.of_nat (49 + n))) (seq 0 9).
Definition letter_index (c : ascii) : N := code c - 96.

(* patch text -> (PP, status kind, status number); status kind 3 is the release *)
Definition shapes : list (str * (N * (N * N))) :=
  ([], (0, (3, 0)))%N
  :: map (fun c => ([c], (letter_index c, (3, 0)))%N) lower_letters
  ++ map (fun c => (["z"%char; c], (26 + letter_index c, (3, 0)))%N) lower_letters
  ++ flat_map (fun d => [ (list_ascii_of_string "-alpha" ++ [d], (0, (0, digit_val d)))%N;
                          (list_ascii_of_string "-beta" ++ [d], (0, (1, digit_val d)))%N;
                          (list_ascii_of_string "-pre" ++ [d], (0, (2, digit_val d)))%N ]) digits_1_9.

Definition patch_number (p : str) : N * (N * N) :=
  match find (fun e => eqs (fst e) p) shapes with Some e => snd e | None => (0, (0, 0))%N end.
Definition in_grammar (p : str) : bool := existsb (fun e => eqs (fst e) p) shapes.

Definition number_cmp := cmp_pair N.compare (cmp_pair N.compare N.compare).

Definition ref_legacy (a b : legacy) : comparison :=
  match N.compare (l_major a) (l_major b) with
  | Eq => match N.compare (l_minor a) (l_minor b) with
          | Eq => match N.compare (l_build a) (l_build b) with
                  | Eq => number_cmp (patch_number (l_patch a)) (patch_number (l_patch b))
                  | o => o end
          | o => o end
  | o => o end.

Definition pre_patch (p : str) : bool :=
  startswith p (list_ascii_of_string "-beta") || startswith p (list_ascii_of_string "-alpha")
  || startswith p (list_ascii_of_string "-pre").
Definition model_patch_cmp (p q : str) : comparison :=
  match cmp_bool (negb (pre_patch p)) (negb (pre_patch q)) with Eq => cmp_str p q | o => o end.

Definition shapes_agree : bool :=
  forallb (fun e1 => forallb (fun e2 => cmp_eqb (model_patch_cmp (fst e1) (fst e2)) (number_cmp (patch_number (fst e1)) (patch_number (fst e2)))) shapes) shapes.
Definition shape_row (e1 : str * (N * (N * N))) : bool :=
  forallb (fun e2 => cmp_eqb (model_patch_cmp (fst e1) (fst e2)) (number_cmp (patch_number (fst e1)) (patch_number (fst e2)))) shapes.
Lemma shapes_agree_ok : forall e1, In e1 shapes -> shape_row e1 = true.
Proof. apply forallb_forall. vm_compute. reflexivity. Qed.

Lemma in_grammar_In p : in_grammar p = true -> exists e, In e shapes /\ fst e = p.
Proof.
  unfold in_grammar. intros H. apply existsb_exists in H. destruct H as [e [I E]]. apply eqs_eq in E. exists e. auto.
Qed.

Theorem patch_cmp_reference p q : in_grammar p = true -> in_grammar q = true ->
  model_patch_cmp p q = number_cmp (patch_number p) (patch_number q).
Proof.
  intros Hp Hq. destruct (in_grammar_In p Hp) as [e1 [I1 E1]]. destruct (in_grammar_In q Hq) as [e2 [I2 E2]].
  pose proof (shapes_agree_ok e1 I1) as A. unfold shape_row in A.
  pose proof (proj1 (forallb_forall _ _) A e2 I2) as A2. cbv beta in A2. apply cmp_eqb_eq in A2. rewrite E1, E2 in A2. exact A2.
Qed.

(* C03 for legacy openssl *)
Theorem legacy_matches_reference a b : in_grammar (l_patch a) = true -> in_grammar (l_patch b) = true ->
  leg_cmp a b = ref_legacy a b.
Proof.
  intros Ha Hb. unfold leg_cmp, ref_legacy.
  destruct (N.compare (l_major a) (l_major b)); try reflexivity.
  destruct (N.compare (l_minor a) (l_minor b)); try reflexivity.
  destruct (N.compare (l_build a) (l_build b)); try reflexivity.
  rewrite <- (patch_cmp_reference _ _ Ha Hb). reflexivity.
Qed.

(* non-vacuity: the grammar contains what it should *)
Example grammar_examples :
  map in_grammar (map list_ascii_of_string [""; "a"; "z"; "za"; "zh"; "-beta1"; "-pre9"; "-alpha3"; "ab"; "-beta10"; "-dev"; "A"])%string
  = [true; true; true; true; true; true; true; true; false; false; false; false].
Proof. vm_compute. reflexivity. Qed.
