(* Reference for alpm: alpm_pkg_vercmp() of pacman (lib/libalpm/version.c): parseEVR and rpmvercmp, transliterated.
   There is no code-shaped model of univers.arch yet: this reference is run against the implementation by the
   correspondence check (it is the model there), and what is proved here is about the reference itself. *)
From Coq Require Import List Bool Arith Ascii String NArith Lia.
From UV.Base Require Import Order Res.
From UV.Py Require Import PyStr.
From UV.Schemes Require Import Common Generic Gentoo.
Import ListNotations.
Local Open Scope list_scope.

Definition isalnum_c (c : ascii) : bool := is_alpha c || is_digit c.
Definition not_alnum (c : ascii) : bool := negb (isalnum_c c).
Definition zero_c (c : ascii) : bool := eqc c "0"%char.

(* the final showdown: "we never want a remaining alpha string to beat an empty string" *)
Definition showdown (one two : str) : comparison :=
  match one, two with
  | [], [] => Eq
  | _, _ =>
      let one_alpha := match one with c :: _ => is_alpha c | [] => false end in
      let two_alpha := match two with c :: _ => is_alpha c | [] => false end in
      if (is_empty one && negb two_alpha) || one_alpha then Lt else Gt
  end.

Fixpoint alpm_loop (fuel : nat) (one two : str) : comparison :=
  match fuel with
  | O => Eq
  | S f =>
      if is_empty one || is_empty two then showdown one two          (* while both have characters left *)
      else
        let sep1 := List.length (take_while not_alnum one) in
        let sep2 := List.length (take_while not_alnum two) in
        let one := drop_while not_alnum one in
        let two := drop_while not_alnum two in
        if is_empty one || is_empty two then showdown one two         (* ran to the end of either: break *)
        else if negb (Nat.eqb sep1 sep2) then (if Nat.ltb sep1 sep2 then Lt else Gt)   (* separator lengths differ *)
        else
          let isnum := match one with c :: _ => is_digit c | [] => false end in
          let seg := if isnum then is_digit else is_alpha in
          let s1 := take_while seg one in
          let s2 := take_while seg two in
          if is_empty s1 then Lt
          else if is_empty s2 then (if isnum then Gt else Lt)
          else
            let a := if isnum then drop_while zero_c s1 else s1 in
            let b := if isnum then drop_while zero_c s2 else s2 in
            if isnum && Nat.ltb (List.length b) (List.length a) then Gt
            else if isnum && Nat.ltb (List.length a) (List.length b) then Lt
            else match cmp_str a b with
                 | Eq => alpm_loop f (drop_while seg one) (drop_while seg two)
                 | o => o
                 end
  end.
Definition alpm_rpmvercmp (a b : str) : comparison :=
  if eqs a b then Eq else alpm_loop (S (List.length a + List.length b)) a b.

(* parseEVR: the epoch is a run of digits followed by ':' at the very start; the release follows the last '-' *)
Definition rpartition_dash (s : str) : option (str * str) :=
  let '(a, f, b) := partition_c "-"%char (rev s) in if f then Some (rev b, rev a) else None.
Definition parse_evr (s : str) : str * str * option str :=
  let ds := take_while is_digit s in
  let rest := drop_while is_digit s in
  let '(epoch, ver) :=
    match rest with
    | c :: r => if eqc c ":"%char then ((if is_empty ds then ["0"%char] else ds), r) else (["0"%char], s)
    | [] => (["0"%char], s)
    end in
  match rpartition_dash ver with
  | Some (v, r) => (epoch, v, Some r)
  | None => (epoch, ver, None)
  end.

Definition ref_alpm (s1 s2 : str) : comparison :=
  let '(e1, v1, r1) := parse_evr s1 in
  let '(e2, v2, r2) := parse_evr s2 in
  match alpm_rpmvercmp e1 e2 with
  | Eq => match alpm_rpmvercmp v1 v2 with
          | Eq => match r1, r2 with Some a, Some b => alpm_rpmvercmp a b | _, _ => Eq end
          | o => o end
  | o => o end.

(* the texts of the grammar [epoch:]pkgver[-pkgrel]: a colon only after a non-empty run of digits at the start *)
Definition alpm_text_ok (s : str) : bool :=
  if mem_c ":"%char s then
    let ds := take_while is_digit s in
    match drop_while is_digit s with
    | c :: r => negb (is_empty ds) && eqc c ":"%char && negb (mem_c ":"%char r)
    | [] => false
    end
  else true.
Definition ref_alpm_text (s1 s2 : str) : option comparison :=
  if alpm_text_ok s1 && alpm_text_ok s2 then Some (ref_alpm s1 s2) else None.

(* the examples of the vercmp(8) manual page *)
Definition s (x : string) : str := list_ascii_of_string x.
Example manual_examples :
  map (fun p => ref_alpm (s (fst p)) (s (snd p)))
    [("1.0a", "1.0b"); ("1.0b", "1.0beta"); ("1.0beta", "1.0p"); ("1.0p", "1.0pre"); ("1.0pre", "1.0rc"); ("1.0rc", "1.0");
     ("1.0", "1.0.a"); ("1.0.a", "1.0.1"); ("1", "1.0"); ("1.0", "1.1"); ("1.1", "1.1.1"); ("1.1.1", "1.2"); ("1.2", "2.0"); ("2.0", "3.0.0");
     ("1.5-1", "1.5"); ("1:1.0", "2.0"); ("1.5-1", "1.5-2")]%string
  = [Lt; Lt; Lt; Lt; Lt; Lt; Lt; Lt; Lt; Lt; Lt; Lt; Lt; Lt; Eq; Gt; Lt].
Proof. vm_compute. reflexivity. Qed.
