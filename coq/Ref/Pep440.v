(* Reference for pypi: PEP 440 ("Version Identification and Dependency Specification"): the public version scheme
   [N!]N(.N)*[{a|b|rc}N][.postN][.devN], local version labels, the normalisations of section "Normalization"
   (case, the leading v, alternative spellings alpha/beta/c/pre/preview/rev/r, separators . - _ , implicit numbers,
   the implicit post release "-N") and the ordering of section "Summary of permitted suffixes and relative ordering":
   epoch, release segment (trailing zeros insignificant), then dev-only < pre-releases a < b < rc < final, then post
   releases, then a dev release before the corresponding non-dev one, then local labels (numeric segments after
   alphabetic ones, a longer label after its prefix, any local label after none). *)
From Coq Require Import List Bool Arith Ascii String NArith Lia.
From UV.Base Require Import Order Res.
From UV.Py Require Import PyStr.
From UV.Schemes Require Import Common Generic Gentoo.
Import ListNotations.
Local Open Scope list_scope.

Definition ps (x : string) : str := list_ascii_of_string x.
Definition is_sep (c : ascii) : bool := eqc c "-"%char || eqc c "_"%char || eqc c "."%char.
Definition skip_sep (s : str) : str := match s with c :: r => if is_sep c then r else s | [] => s end.

(* digits at the head: value and rest; None when there is none *)
Definition number (s : str) : option (N * str) :=
  match take_while is_digit s with [] => None | d => Some (int_of_digits d, drop_while is_digit s) end.
Definition opt_number (s : str) : N * str := match number s with Some p => p | None => (0%N, s) end.

(* the first label of the list that the text starts with *)
Fixpoint label (names : list (str * N)) (s : str) : option (N * str) :=
  match names with
  | [] => None
  | (n, k) :: rest => match strip_prefix n s with Some r => Some (k, r) | None => label rest s end
  end.
(* longest spellings first *)
Definition pre_labels : list (str * N) :=
  [(ps "alpha", 1); (ps "a", 1); (ps "beta", 2); (ps "b", 2); (ps "preview", 3); (ps "pre", 3); (ps "rc", 3); (ps "c", 3)]%N.
Definition post_labels : list (str * N) := [(ps "post", 0); (ps "rev", 0); (ps "r", 0)]%N.
Definition dev_labels : list (str * N) := [(ps "dev", 0)]%N.

(* [sep] label [sep] [N]: None when the label is not there (nothing is consumed then); the separator after the
   label is taken whether or not a number follows, as the regular expression of PEP 440 (Appendix B) does *)
Definition tagged (names : list (str * N)) (s : str) : option (N * N * str) :=
  match label names (skip_sep s) with
  | Some (k, r) => let r1 := skip_sep r in
                   match number r1 with
                   | Some (n, r') => Some (k, n, r')
                   | None => Some (k, 0%N, r1)
                   end
  | None => None
  end.

Fixpoint release (fuel : nat) (s : str) : option (list N * str) :=
  match fuel with
  | O => None
  | S f =>
      match number s with
      | None => None
      | Some (n, r) =>
          match r with
          | c :: ((d :: _) as r') =>
              if eqc c "."%char && is_digit d then
                match release f r' with Some (l, t) => Some (n :: l, t) | None => None end
              else Some ([n], r)
          | _ => Some ([n], r)
          end
      end
  end.

Inductive lseg := LNum (n : N) | LStr (s : str).
Definition lchar (c : ascii) : bool := is_lower c || is_digit c.
Fixpoint local_segs (fuel : nat) (s : str) : option (list lseg) :=
  match fuel with
  | O => None
  | S f =>
      let w := take_while lchar s in
      let r := drop_while lchar s in
      if is_empty w then None
      else let seg := if all_digits w then LNum (int_of_digits w) else LStr w in
           match r with
           | [] => Some [seg]
           | c :: r' => if is_sep c then match local_segs f r' with Some l => Some (seg :: l) | None => None end else None
           end
  end.

Record pep := { p_epoch : N; p_release : list N; p_pre : option (N * N); p_post : option N; p_dev : option N; p_local : option (list lseg) }.

Definition parse (text : str) : option pep :=
  let s := lower text in
  let s := match s with c :: r => if eqc c "v"%char then r else s | [] => s end in
  let '(epoch, s) := match number s with
                     | Some (n, c :: r) => if eqc c "!"%char then (n, r) else (0%N, s)
                     | _ => (0%N, s)
                     end in
  match release (S (List.length s)) s with
  | None => None
  | Some (rel, s) =>
      let '(pre, s) := match tagged pre_labels s with Some (k, n, r) => (Some (k, n), r) | None => (None, s) end in
      let '(post, s) :=
        match s with
        | c :: r => if eqc c "-"%char then match number r with Some (n, r') => (Some n, r') | None =>
                      match tagged post_labels s with Some (_, n, r') => (Some n, r') | None => (None, s) end end
                    else match tagged post_labels s with Some (_, n, r') => (Some n, r') | None => (None, s) end
        | [] => (None, s)
        end in
      let '(dev, s) := match tagged dev_labels s with Some (_, n, r) => (Some n, r) | None => (None, s) end in
      match s with
      | [] => Some {| p_epoch := epoch; p_release := rel; p_pre := pre; p_post := post; p_dev := dev; p_local := None |}
      | c :: r =>
          if eqc c "+"%char then
            match local_segs (S (List.length r)) r with
            | Some l => Some {| p_epoch := epoch; p_release := rel; p_pre := pre; p_post := post; p_dev := dev; p_local := Some l |}
            | None => None
            end
          else None
      end
  end.

(* ---- the ordering ---- *)
Definition strip_zeros (l : list N) : list N :=
  rev ((fix dz (l : list N) := match l with x :: r => if N.eqb x 0 then dz r else l | [] => [] end) (rev l)).
Definition pre_key (v : pep) : N * N :=
  match p_pre v, p_post v, p_dev v with
  | None, None, Some _ => (0, 0)           (* a dev release of the final version sorts before its pre-releases *)
  | None, _, _ => (4, 0)
  | Some (k, n), _, _ => (k, n)
  end%N.
Definition post_key (v : pep) : N * N := match p_post v with None => (0, 0) | Some n => (1, n) end%N.
Definition dev_key (v : pep) : N * N := match p_dev v with Some n => (0, n) | None => (1, 0) end%N.
Definition cmpNN := cmp_pair N.compare N.compare.
Definition lseg_cmp (a b : lseg) : comparison :=
  match a, b with
  | LNum x, LNum y => N.compare x y
  | LStr _, LNum _ => Lt
  | LNum _, LStr _ => Gt
  | LStr x, LStr y => cmp_str x y
  end.
Definition local_cmp (a b : option (list lseg)) : comparison :=
  match a, b with
  | None, None => Eq | None, Some _ => Lt | Some _, None => Gt
  | Some x, Some y => cmp_lex lseg_cmp x y
  end.
Definition pep_cmp (a b : pep) : comparison :=
  match N.compare (p_epoch a) (p_epoch b) with
  | Eq => match cmp_lex N.compare (strip_zeros (p_release a)) (strip_zeros (p_release b)) with
          | Eq => match cmpNN (pre_key a) (pre_key b) with
                  | Eq => match cmpNN (post_key a) (post_key b) with
                          | Eq => match cmpNN (dev_key a) (dev_key b) with
                                  | Eq => local_cmp (p_local a) (p_local b)
                                  | o => o end
                          | o => o end
                  | o => o end
          | o => o end
  | o => o end.

Definition ref_pypi (s1 s2 : str) : option comparison :=
  match parse s1, parse s2 with Some a, Some b => Some (pep_cmp a b) | _, _ => None end.

(* the example chains of PEP 440 *)
Definition chain (l : list string) : list (option comparison) :=
  (fix go (l : list string) := match l with a :: ((b :: _) as r) => ref_pypi (ps a) (ps b) :: go r | _ => [] end) l.
Example pep440_orderings :
  chain ["1.dev0"; "1.0.dev456"; "1.0a1"; "1.0a2.dev456"; "1.0a12.dev456"; "1.0a12"; "1.0b1.dev456"; "1.0b2"; "1.0b2.post345.dev456";
         "1.0b2.post345"; "1.0rc1.dev456"; "1.0rc1"; "1.0"; "1.0+abc.5"; "1.0+abc.7"; "1.0+5"; "1.0.post456.dev34"; "1.0.post456";
         "1.0.15"; "1.1.dev1"]%string
  = repeat (Some Lt) 19.
Proof. vm_compute. reflexivity. Qed.
Example pep440_normalisations :
  map (fun p => ref_pypi (ps (fst p)) (ps (snd p)))
    [("1.0", "1"); ("1.0", "v1.0"); ("1.0a1", "1.0.ALPHA-1"); ("1.0a", "1.0a0"); ("1.0rc1", "1.0c1"); ("1.0rc1", "1.0-preview.1"); ("1.0.post1", "1.0-1");
     ("1.0.post1", "1.0rev1"); ("1.0.post0", "1.0.post"); ("1.0.dev0", "1.0dev"); ("1!1.0", "2.0"); ("1.0+ubuntu.1", "1.0+ubuntu-1"); ("1.0+1", "1.0+a");
     ("01.02", "1.2"); ("1.0+a.b", "1.0+a")]%string
  = [Some Eq; Some Eq; Some Eq; Some Eq; Some Eq; Some Eq; Some Eq; Some Eq; Some Eq; Some Eq; Some Gt; Some Eq; Some Gt; Some Eq; Some Gt].
Proof. vm_compute. reflexivity. Qed.
Example pep440_rejects :
  map (fun x => match parse (ps x) with Some _ => true | None => false end) ["1.0-"; "1..0"; "a1"; "1.0+"; "1.0+a..b"; "1.0.x"; ""; "1.0post1dev2"; "1.0-1-2"]%string
  = [false; false; false; false; false; false; false; true; false].
Proof. vm_compute. reflexivity. Qed.
