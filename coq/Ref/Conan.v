(* Reference for conan: the version ordering of the Conan 2 documentation ("Versioning > Version ranges / ordering"):
   a version is a dotted list of items; items that are numbers compare numerically, items that are words compare as
   strings (positions holding a number on one side and a word on the other are outside this reference: None);
   trailing zero items are not significant (1.0 = 1); a shorter list that is a prefix of a longer one is older;
   a version with a pre-release part (after the last '-') is older than the same version without, two pre-releases
   compare as versions; a build part (after the last '+') makes a version newer than the same version without,
   two builds compare as versions. *)
From Coq Require Import List Bool Arith Ascii String NArith Lia.
From UV.Base Require Import Order Res.
From UV.Py Require Import PyStr.
From UV.Schemes Require Import Common Generic.
Import ListNotations.
Local Open Scope list_scope.

Inductive citem := CNum (n : N) | CWord (w : str).
Inductive cver := CVer (items : list citem) (pre : option cver) (build : option cver).

Definition rsplit1 (c : ascii) (s : str) : str * option str :=
  let '(a, f, b) := partition_c c (rev s) in if f then (rev b, Some (rev a)) else (s, None).
Definition to_item (t : str) : citem := if isdigit t then CNum (int_of_digits t) else CWord t.
Definition item_zero (i : citem) : bool := match i with CNum 0%N => true | _ => false end.
Definition strip_zeros (l : list citem) : list citem :=
  rev ((fix dz (l : list citem) := match l with x :: r => if item_zero x then dz r else l | [] => [] end) (rev l)).

Fixpoint cparse (fuel : nat) (s : str) : cver :=
  match fuel with
  | O => CVer [] None None
  | S f =>
      let '(v, build) := rsplit1 "+"%char s in
      let '(v, pre) := rsplit1 "-"%char v in
      CVer (strip_zeros (map to_item (split_c "."%char v)))
           (match pre with Some p => Some (cparse f p) | None => None end)
           (match build with Some b => Some (cparse f b) | None => None end)
  end.

Definition item_cmp (a b : citem) : option comparison :=
  match a, b with
  | CNum x, CNum y => Some (N.compare x y)
  | CWord x, CWord y => Some (cmp_str x y)
  | _, _ => None
  end.
Fixpoint items_cmp (l1 l2 : list citem) : option comparison :=
  match l1, l2 with
  | [], [] => Some Eq
  | [], _ :: _ => Some Lt
  | _ :: _, [] => Some Gt
  | x :: r1, y :: r2 => match item_cmp x y with Some Eq => items_cmp r1 r2 | o => o end
  end.

Fixpoint cver_cmp (fuel : nat) (a b : cver) : option comparison :=
  match fuel with
  | O => None
  | S f =>
      let '(CVer ia pa ba) := a in
      let '(CVer ib pb bb) := b in
      match items_cmp ia ib with
      | Some Eq =>
          let pre :=
            match pa, pb with
            | None, None => Some Eq
            | Some _, None => Some Lt
            | None, Some _ => Some Gt
            | Some x, Some y => cver_cmp f x y
            end in
          match pre with
          | Some Eq =>
              match ba, bb with
              | None, None => Some Eq
              | None, Some _ => Some Lt
              | Some _, None => Some Gt
              | Some x, Some y => cver_cmp f x y
              end
          | o => o
          end
      | o => o
      end
  end.
(* the items of the documented grammar are made of letters and digits *)
Definition word_ok (i : citem) : bool :=
  match i with CNum _ => true | CWord w => negb (is_empty w) && forallb (fun c => is_alpha c || is_digit c) w end.
Fixpoint cver_ok (fuel : nat) (v : cver) : bool :=
  match fuel with
  | O => false
  | S f =>
      let '(CVer items pre build) := v in
      forallb word_ok items
      && match pre with Some p => cver_ok f p | None => true end
      && match build with Some b => cver_ok f b | None => true end
  end.
Definition ref_conan (s1 s2 : str) : option comparison :=
  let a := cparse 6 s1 in let b := cparse 6 s2 in
  if cver_ok 6 a && cver_ok 6 b then cver_cmp 6 a b else None.

Definition c (x : string) : str := list_ascii_of_string x.
Example conan_examples :
  map (fun p => ref_conan (c (fst p)) (c (snd p)))
    [("1.0", "1"); ("1.0.1", "1.0"); ("1.0-pre", "1.0"); ("1.0-alpha", "1.0-beta"); ("1.0+1", "1.0"); ("1.0+1", "1.0+2");
     ("1.2", "1.10"); ("1.a", "1.b"); ("1.a", "1.1"); ("1.0-pre.1", "1.0-pre.2"); ("1.0-pre+b", "1.0")]%string
  = [Some Eq; Some Gt; Some Lt; Some Lt; Some Gt; Some Lt; Some Lt; Some Lt; None; Some Lt; Some Lt].
Proof. vm_compute. reflexivity. Qed.
