(* Reference for gem: Gem::Version of RubyGems (lib/rubygems/version.rb), transliterated:
     initialize:          version.to_s.strip.gsub("-", ".pre.")            ("" counts as "0")
     segments:            @version.scan(/[0-9]+|[a-z]+/i) with the digit runs as integers
     canonical_segments:  the numeric segments before the first string segment and the rest, each without its
                          trailing zeros, concatenated
     <=>:                 0 if the texts or the canonical segments are equal; else the first difference of the
                          canonical segments, a missing one counting as 0, a String before a Numeric. *)
From Coq Require Import List Bool Arith Ascii String NArith Lia.
From UV.Base Require Import Order Res.
From UV.Py Require Import PyStr.
From UV.Schemes Require Import Common Generic Gentoo.
Import ListNotations.
Local Open Scope list_scope.

Inductive seg := SNum (n : N) | SStr (s : str).

Fixpoint gsub_dash (s : str) : str :=
  match s with
  | [] => []
  | c :: r => if eqc c "-"%char then list_ascii_of_string ".pre." ++ gsub_dash r else c :: gsub_dash r
  end.

Fixpoint scan (fuel : nat) (s : str) : list seg :=
  match fuel with
  | O => []
  | S f =>
      match s with
      | [] => []
      | c :: r =>
          if is_digit c then SNum (int_of_digits (take_while is_digit s)) :: scan f (drop_while is_digit s)
          else if is_alpha c then SStr (take_while is_alpha s) :: scan f (drop_while is_alpha s)
          else scan f r
      end
  end.
Definition gem_segments (version : str) : list seg :=
  let v := gsub_dash version in let v := if is_empty v then ["0"%char] else v in scan (S (List.length v)) v.

Definition is_num (x : seg) : bool := match x with SNum _ => true | SStr _ => false end.
Definition is_zero (x : seg) : bool := match x with SNum 0%N => true | _ => false end.
Fixpoint take_nums (l : list seg) : list seg := match l with x :: r => if is_num x then x :: take_nums r else [] | [] => [] end.
Fixpoint drop_nums (l : list seg) : list seg := match l with x :: r => if is_num x then drop_nums r else l | [] => [] end.
Definition drop_trailing_zeros (l : list seg) : list seg :=
  rev ((fix dz (l : list seg) := match l with x :: r => if is_zero x then dz r else l | [] => [] end) (rev l)).
Definition canonical_segments (version : str) : list seg :=
  let sg := gem_segments version in
  drop_trailing_zeros (take_nums sg) ++ drop_trailing_zeros (drop_nums sg).

Definition seg_cmp (a b : seg) : comparison :=
  match a, b with
  | SNum x, SNum y => N.compare x y
  | SStr _, SNum _ => Lt
  | SNum _, SStr _ => Gt
  | SStr x, SStr y => cmp_str x y
  end.
Fixpoint lhs_left (l : list seg) : comparison :=      (* rhs has run out: its segments count as 0 *)
  match l with [] => Eq | x :: r => match seg_cmp x (SNum 0) with Eq => lhs_left r | o => o end end.
Fixpoint rhs_left (l : list seg) : comparison :=
  match l with [] => Eq | y :: r => match seg_cmp (SNum 0) y with Eq => rhs_left r | o => o end end.
Fixpoint segs_cmp (l1 l2 : list seg) : comparison :=
  match l1, l2 with
  | [], _ => rhs_left l2
  | _, [] => lhs_left l1
  | x :: r1, y :: r2 => match seg_cmp x y with Eq => segs_cmp r1 r2 | o => o end
  end.
Definition ref_gem (v1 v2 : str) : comparison :=
  if eqs (gsub_dash v1) (gsub_dash v2) then Eq else segs_cmp (canonical_segments v1) (canonical_segments v2).

(* Gem::Version.correct?: digits, then dot-separated alphanumeric parts, then an optional dash part *)
Definition alnum (c : ascii) : bool := is_alpha c || is_digit c.
Definition alnum_dash (c : ascii) : bool := alnum c || eqc c "-"%char.
Definition part_ok (p : str) : bool := negb (is_empty p) && forallb alnum p.
Definition dash_part_ok (p : str) : bool := negb (is_empty p) && forallb alnum_dash p.
Definition gem_correct (v : str) : bool :=
  match v with
  | [] => true
  | _ =>
      let '(main, has_dash, tail) := partition_c "-"%char v in
      let parts := split_c "."%char main in
      match parts with
      | first :: rest => isdigit first && forallb part_ok rest
      | [] => false
      end
      && (negb has_dash || forallb dash_part_ok (split_c "."%char tail))
  end.

Definition g (x : string) : str := list_ascii_of_string x.
(* examples from the RubyGems documentation and test suite *)
Example gem_examples :
  map (fun p => ref_gem (g (fst p)) (g (snd p)))
    [("1.0", "1.0.0"); ("1.0", "1.0.a"); ("1.8.2", "0.0.0"); ("1.8.2", "1.8.2.a"); ("1.8.2.b", "1.8.2.a"); ("1.8.2.a10", "1.8.2.a9");
     ("5.2.4", "5.2.4.rc1"); ("1.0.0-rc1", "1.0.0.rc1"); ("1.0.0-rc1", "1.0.0"); ("1.9.3", "1.9.3.1"); ("", "0"); ("0.beta.1", "0.0.beta.1")]%string
  = [Eq; Gt; Gt; Gt; Gt; Gt; Gt; Lt; Lt; Lt; Eq; Eq].
Proof. vm_compute. reflexivity. Qed.
