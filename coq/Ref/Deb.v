(* Reference for deb: the comparison procedure published in Debian Policy 5.6.12 / deb-version(7), written from its
   text, and the theorem that the code-shaped model of univers.debian computes it.

   "The strings are compared from left to right. First the initial part of each string consisting entirely of
    non-digit characters is determined. These two parts (one of which may be empty) are compared lexically. If a
    difference is found it is returned. The lexical comparison is a comparison of ASCII values modified so that all
    the letters sort earlier than all the non-letters and so that a tilde sorts before anything, even the end of a
    part. [...] Then the initial part of the remainder of each string which consists entirely of digit characters is
    determined. The numerical values of these two parts are compared, and any difference found is returned as the
    result of the comparison. For these purposes an empty string (which can only occur at the end of one or both
    version strings being compared) counts as zero. These two steps are repeated [...] until a difference is found
    or both strings are exhausted."
   The epoch is compared numerically first; "the absence of a debian_revision is equivalent to a debian_revision of 0". *)
From Coq Require Import List Bool Arith Ascii NArith ZArith Lia.
From UV.Base Require Import Order LexPad Res.
From UV.Gen Require Import Tables.
From UV.Py Require Import PyStr.
From UV.Schemes Require Import Common Debian DebianProofs.
Import ListNotations.
Local Open Scope list_scope.

(* the modified ASCII value (the same numbers as dpkg's order()): letters keep their code, other characters come
   after all letters, the tilde comes before the end of the part, which is 0 *)
Definition policy_order (c : ascii) : Z :=
  if is_alpha c then Z.of_N (code c)
  else if eqc c "~"%char then (-1)%Z
  else (Z.of_N (code c) + 256)%Z.
Definition end_of_part : Z := 0%Z.

Definition policy_lexical (p1 p2 : str) : comparison :=
  cmp_pad Z.compare end_of_part (map policy_order p1) (map policy_order p2).

(* one step of the procedure: the non-digit part, then the numerical value of the digit part *)
Definition policy_step (x y : str * N) : comparison :=
  match policy_lexical (fst x) (fst y) with Eq => N.compare (snd x) (snd y) | o => o end.
(* "repeated until both strings are exhausted": an exhausted string yields empty parts, an empty digit part counts as zero *)
Definition policy_strings (s1 s2 : str) : comparison := cmp_pad policy_step ([], 0%N) (toks s1) (toks s2).

Definition ref_deb (a b : deb) : comparison :=
  match N.compare (d_epoch a) (d_epoch b) with
  | Eq => match policy_strings (d_upstream a) (d_upstream b) with
          | Eq => policy_strings (d_revision a) (d_revision b)
          | o => o end
  | o => o end.

(* ---- generic: cmp_pad only looks at its comparison on the elements of the lists and the padding ------------- *)
Section Ext.
Context {A} (c1 c2 : A -> A -> comparison) (d : A) (P : A -> Prop).
Hypothesis Pd : P d.
Hypothesis ext : forall x y, P x -> P y -> c1 x y = c2 x y.
Lemma vs_pad_l_ext l : Forall P l -> vs_pad_l c1 d l = vs_pad_l c2 d l.
Proof. induction 1 as [|x r Hx Hr IH]; cbn; [reflexivity|]. rewrite (ext x d Hx Pd), IH. reflexivity. Qed.
Lemma vs_pad_r_ext l : Forall P l -> vs_pad_r c1 d l = vs_pad_r c2 d l.
Proof. induction 1 as [|x r Hx Hr IH]; cbn; [reflexivity|]. rewrite (ext d x Pd Hx), IH. reflexivity. Qed.
Lemma cmp_pad_ext l1 : forall l2, Forall P l1 -> Forall P l2 -> cmp_pad c1 d l1 l2 = cmp_pad c2 d l1 l2.
Proof.
  induction l1 as [|x r1 IH]; intros l2 H1 H2.
  - cbn. apply vs_pad_r_ext; assumption.
  - destruct l2 as [|y r2].
    + apply (vs_pad_l_ext (x :: r1)); assumption.
    + cbn. inversion H1; inversion H2; subst. rewrite (ext x y) by assumption. rewrite IH by assumption. reflexivity.
Qed.
End Ext.

Section MapIso.
Context {A B C} (cb : B -> B -> comparison) (cc : C -> C -> comparison) (f : A -> B) (g : A -> C) (db : B) (dc : C) (P : A -> Prop).
Hypothesis iso : forall x y, P x -> P y -> cb (f x) (f y) = cc (g x) (g y).
Hypothesis iso_l : forall x, P x -> cb (f x) db = cc (g x) dc.
Hypothesis iso_r : forall y, P y -> cb db (f y) = cc dc (g y).
Lemma cmp_pad_map_iso l1 : forall l2, Forall P l1 -> Forall P l2 ->
  cmp_pad cb db (map f l1) (map f l2) = cmp_pad cc dc (map g l1) (map g l2).
Proof.
  assert (L : forall l, Forall P l -> vs_pad_l cb db (map f l) = vs_pad_l cc dc (map g l)).
  { induction 1 as [|x r Hx Hr IH]; cbn; [reflexivity|]. rewrite (iso_l x Hx), IH. reflexivity. }
  assert (R : forall l, Forall P l -> vs_pad_r cb db (map f l) = vs_pad_r cc dc (map g l)).
  { induction 1 as [|x r Hx Hr IH]; cbn; [reflexivity|]. rewrite (iso_r x Hx), IH. reflexivity. }
  induction l1 as [|x r1 IH]; intros l2 H1 H2.
  - cbn [map cmp_pad]. apply R; assumption.
  - destruct l2 as [|y r2].
    + apply (L (x :: r1)); assumption.
    + cbn [map cmp_pad]. inversion H1; inversion H2; subst. rewrite (iso x y) by assumption. rewrite IH by assumption. reflexivity.
Qed.
End MapIso.

(* ---- the table of /repo (transcribed on every run) orders characters the way the policy does ----------------- *)
Definition in_table (c : ascii) : bool := match deb_rank c with Some _ => true | None => false end.
Definition table_chars : list ascii := map (fun p => ch (N.of_nat (fst p))) deb_order.

Definition cmp_eqb (a b : comparison) : bool :=
  match a, b with Eq, Eq | Lt, Lt | Gt, Gt => true | _, _ => false end.
Lemma cmp_eqb_eq a b : cmp_eqb a b = true -> a = b.
Proof. destruct a, b; cbn; congruence. Qed.

Definition table_follows_policy : bool :=
  forallb (fun c1 =>
    negb (is_digit c1)
    && cmp_eqb (Nat.compare (rk c1) er) (Z.compare (policy_order c1) end_of_part)
    && cmp_eqb (Nat.compare er (rk c1)) (Z.compare end_of_part (policy_order c1))
    && forallb (fun c2 => cmp_eqb (Nat.compare (rk c1) (rk c2)) (Z.compare (policy_order c1) (policy_order c2))) table_chars)
  table_chars.
(* every character with a rank is one of the listed ones: a sweep over the 256 characters *)
Definition all_chars : list ascii := map (fun n => ch (N.of_nat n)) (seq 0 256).
Definition table_complete : bool := forallb (fun c => negb (in_table c) || existsb (eqc c) table_chars) all_chars.

Lemma table_follows_policy_ok : table_follows_policy = true.
Proof. vm_compute. reflexivity. Qed.
Lemma table_complete_ok : table_complete = true.
Proof. vm_compute. reflexivity. Qed.

Lemma all_chars_complete c : In c all_chars.
Proof.
  unfold all_chars. apply in_map_iff. exists (N.to_nat (code c)). split.
  - rewrite N2Nat.id. unfold ch, code. apply ascii_N_embedding.
  - apply in_seq. pose proof (N_ascii_bounded c) as B. unfold code. lia.
Qed.

Definition listed_or_unranked (c : ascii) : bool := negb (in_table c) || existsb (eqc c) table_chars.
Lemma table_complete_rows : forall c, In c all_chars -> listed_or_unranked c = true.
Proof. apply forallb_forall. vm_compute. reflexivity. Qed.
Lemma in_table_listed c : in_table c = true -> In c table_chars.
Proof.
  intros H. pose proof (table_complete_rows c (all_chars_complete c)) as T. unfold listed_or_unranked in T.
  rewrite H in T. change (negb true) with false in T. rewrite orb_false_l in T. apply existsb_exists in T.
  destruct T as [x [Hx E]]. apply eqc_eq in E. subst. exact Hx.
Qed.

(* one row of the check, stated through a named predicate so that the kernel compares the statement proved by
   computation with its uses by name and does not re-evaluate the table *)
Definition row_ok (c1 : ascii) : bool :=
    negb (is_digit c1)
    && cmp_eqb (Nat.compare (rk c1) er) (Z.compare (policy_order c1) end_of_part)
    && cmp_eqb (Nat.compare er (rk c1)) (Z.compare end_of_part (policy_order c1))
    && forallb (fun c2 => cmp_eqb (Nat.compare (rk c1) (rk c2)) (Z.compare (policy_order c1) (policy_order c2))) table_chars.
Lemma rows_ok : forall c1, In c1 table_chars -> row_ok c1 = true.
Proof. apply forallb_forall. vm_compute. reflexivity. Qed.
Lemma policy_row c1 : In c1 table_chars ->
  is_digit c1 = false /\ Nat.compare (rk c1) er = Z.compare (policy_order c1) end_of_part /\
  Nat.compare er (rk c1) = Z.compare end_of_part (policy_order c1) /\
  forall c2, In c2 table_chars -> Nat.compare (rk c1) (rk c2) = Z.compare (policy_order c1) (policy_order c2).
Proof.
  intros H1. pose proof (rows_ok c1 H1) as R. unfold row_ok in R.
  destruct (andb_prop _ _ R) as [R1 R4]. destruct (andb_prop _ _ R1) as [R2 R3]. destruct (andb_prop _ _ R2) as [R5 R6].
  split; [apply negb_true_iff; exact R5|]. split; [apply cmp_eqb_eq; exact R6|]. split; [apply cmp_eqb_eq; exact R3|].
  intros c2 H2. apply cmp_eqb_eq. exact (proj1 (forallb_forall _ _) R4 c2 H2).
Qed.

Lemma rank_iso c1 c2 : in_table c1 = true -> in_table c2 = true ->
  Nat.compare (rk c1) (rk c2) = Z.compare (policy_order c1) (policy_order c2).
Proof. intros H1 H2. apply (policy_row c1 (in_table_listed c1 H1)). apply (in_table_listed c2 H2). Qed.
Lemma rank_iso_l c : in_table c = true -> Nat.compare (rk c) er = Z.compare (policy_order c) end_of_part.
Proof. intros H1. apply (policy_row c (in_table_listed c H1)). Qed.
Lemma rank_iso_r c : in_table c = true -> Nat.compare er (rk c) = Z.compare end_of_part (policy_order c).
Proof. intros H1. apply (policy_row c (in_table_listed c H1)). Qed.

Lemma ranked_Forall p : ranked p = true -> Forall (fun c => in_table c = true) p.
Proof. unfold ranked. rewrite forallb_forall. intros H. apply Forall_forall. intros c Hc. exact (H c Hc). Qed.

(* the model's comparison of non-digit parts is the policy's lexical comparison *)
Theorem pref_cmp_policy p1 p2 : ranked p1 = true -> ranked p2 = true -> pref_cmp p1 p2 = policy_lexical p1 p2.
Proof.
  intros R1 R2. unfold pref_cmp, policy_lexical.
  apply (cmp_pad_map_iso Nat.compare Z.compare rk policy_order er end_of_part (fun c => in_table c = true));
    auto using rank_iso, rank_iso_l, rank_iso_r, ranked_Forall.
Qed.

(* the tokens of a string made of digits and ranked characters have ranked non-digit parts *)
Definition tok_ok (t : tok) : Prop := ranked (fst t) = true.
Lemma gpf_ranked : forall f s, all_ranked s = true -> Forall tok_ok (get_parts_fuel f s).
Proof.
  induction f as [|f IH]; intros s R; destruct s as [|a s']; cbn [get_parts_fuel]; try constructor.
  destruct (take_nondigits (a :: s')) as [p r] eqn:E. destruct (take_digits 0 r) as [d t] eqn:F.
  destruct (take_nondigits_ranked _ _ _ R E) as [Rp Rr]. pose proof (take_digits_ranked _ _ _ _ Rr F) as Rt.
  constructor; [exact Rp|apply IH; exact Rt].
Qed.
Lemma toks_ok s : all_ranked s = true -> Forall tok_ok (toks s).
Proof. apply gpf_ranked. Qed.

Theorem toks_cmp_policy s1 s2 : all_ranked s1 = true -> all_ranked s2 = true ->
  toks_cmp (toks s1) (toks s2) = policy_strings s1 s2.
Proof.
  intros R1 R2. unfold toks_cmp, policy_strings, empty_tok.
  apply (cmp_pad_ext tcmp policy_step ([], 0%N) tok_ok); [reflexivity| |apply toks_ok; assumption|apply toks_ok; assumption].
  intros x y Hx Hy. unfold tcmp, cmp_pair, policy_step. rewrite (pref_cmp_policy _ _ Hx Hy). reflexivity.
Qed.

(* C03 for deb: on versions made of the characters the scheme allows, the code computes the policy's procedure *)
Theorem deb_matches_policy a b : dok a = true -> dok b = true -> deb_compare a b = Ok (ref_deb a b).
Proof.
  intros Ha Hb. rewrite (deb_compare_spec a b Ha Hb). f_equal.
  unfold dok in *. apply andb_true_iff in Ha, Hb. destruct Ha as [Ua Ra], Hb as [Ub Rb].
  unfold deb_cmp, dkcmp, dkey, cmp_pair, ref_deb. cbn [fst snd].
  rewrite (toks_cmp_policy _ _ Ua Ub), (toks_cmp_policy _ _ Ra Rb). reflexivity.
Qed.

(* what the domain dok is: every character the deb validity check lets through *)
Lemma deb_char_ranked c : deb_char c = true -> is_digit c || in_table c = true.
Proof.
  intros H. assert (T : forallb (fun c => negb (deb_char c) || is_digit c || in_table c) all_chars = true) by (vm_compute; reflexivity).
  rewrite forallb_forall in T. specialize (T c (all_chars_complete c)). rewrite H in T. exact T.
Qed.
