(* Reference for nuget: NuGet.Versioning, NuGetVersion.Parse and VersionComparer.Default:
   Major, Minor, Patch and the fourth Revision number compare numerically (missing ones are 0); a version with release
   labels comes before the same version without; release labels compare pairwise: two numeric labels numerically, a
   numeric label before an alphanumeric one, alphanumeric labels with StringComparison.OrdinalIgnoreCase; when all
   common labels are equal the version with more labels is greater; the build metadata is ignored. *)
From Coq Require Import List Bool Arith Ascii String NArith Lia.
From UV.Base Require Import Order Res.
From UV.Py Require Import PyStr.
From UV.Schemes Require Import Common Generic.
Import ListNotations.
Local Open Scope list_scope.

Record nugetv := { n_nums : list N; n_labels : list str }.

Definition upper_c (c : ascii) : ascii := if is_lower c then ch (code c - 32) else c.
Definition label_cmp (a b : str) : comparison :=
  match isdigit a, isdigit b with
  | true, true => N.compare (int_of_digits a) (int_of_digits b)
  | true, false => Lt
  | false, true => Gt
  | false, false => cmp_str (map upper_c a) (map upper_c b)
  end.
Fixpoint labels_cmp (l1 l2 : list str) : comparison :=
  match l1, l2 with
  | [], [] => Eq
  | [], _ :: _ => Lt
  | _ :: _, [] => Gt
  | x :: r1, y :: r2 => match label_cmp x y with Eq => labels_cmp r1 r2 | o => o end
  end.
Definition release_cmp (p q : list str) : comparison :=
  match p, q with
  | [], [] => Eq
  | [], _ :: _ => Gt
  | _ :: _, [] => Lt
  | _, _ => labels_cmp p q
  end.
Fixpoint nums_cmp (l1 l2 : list N) : comparison :=     (* missing numbers are 0 *)
  match l1, l2 with
  | [], [] => Eq
  | x :: r1, [] => match N.compare x 0 with Eq => nums_cmp r1 [] | o => o end
  | [], y :: r2 => (fix z (l : list N) := match l with [] => Eq | y :: r => match N.compare 0 y with Eq => z r | o => o end end) l2
  | x :: r1, y :: r2 => match N.compare x y with Eq => nums_cmp r1 r2 | o => o end
  end.

Definition label_char (c : ascii) : bool := is_alpha c || is_digit c || eqc c "-"%char.
Definition label_ok (l : str) : bool := negb (is_empty l) && forallb label_char l.
(* NuGetVersion.Parse: 1 to 4 dotted numbers, "-" labels, "+" metadata *)
Definition nuget_parse (s : str) : option nugetv :=
  let '(core, _, _) := partition_c "+"%char s in
  let '(nums, has_pre, pre) := partition_c "-"%char core in
  let parts := split_c "."%char nums in
  let labels := if has_pre then split_c "."%char pre else [] in
  if Nat.leb (List.length parts) 4 && forallb isdigit parts && forallb label_ok labels
  then Some {| n_nums := map int_of_digits parts; n_labels := labels |}
  else None.

Definition ref_nuget (s1 s2 : str) : option comparison :=
  match nuget_parse s1, nuget_parse s2 with
  | Some a, Some b => Some (match nums_cmp (n_nums a) (n_nums b) with Eq => release_cmp (n_labels a) (n_labels b) | o => o end)
  | _, _ => None
  end.

Definition n (x : string) : str := list_ascii_of_string x.
Example nuget_examples :
  map (fun p => ref_nuget (n (fst p)) (n (snd p)))
    [("1.0.0", "1.0"); ("1.0.0.1", "1.0.0"); ("1.0.0-alpha", "1.0.0"); ("1.0.0-alpha", "1.0.0-ALPHA"); ("1.0.0-alpha.1", "1.0.0-alpha");
     ("1.0.0-1", "1.0.0-a"); ("1.0.0-2", "1.0.0-10"); ("1.0.0+a", "1.0.0+b"); ("1.0.0-beta", "1.0.0-alpha"); ("1.0.0.0-rc", "1.0.0-rc.1")]%string
  = [Some Eq; Some Gt; Some Lt; Some Eq; Some Gt; Some Lt; Some Lt; Some Eq; Some Gt; Some Lt].
Proof. vm_compute. reflexivity. Qed.
