(* Reference for ebuild and alpine: the version comparison of the Gentoo Package Manager Specification (PMS 3.3,
   Algorithms 3.1 to 3.7), written from the specification, and the theorem that the code-shaped model of
   univers.gentoo.vercmp computes it.

   3.1  compare the numeric components (3.2), then the letter components (3.4), then the suffixes (3.5), then the
        revisions (3.7); the first difference decides.
   3.2  the first numeric components are compared as integers; every following pair with Algorithm 3.3; when all
        common components are equal the version with more components is greater.
   3.3  if either component has a leading 0, strip trailing 0s from both and compare them as strings (ASCII);
        otherwise compare them as integers.
   3.4  the letter components (the empty string when absent) are compared as ASCII strings.
   3.5  the suffixes are compared pairwise with Algorithm 3.6; when all common ones are equal and one version has a
        further suffix, that version is greater if the suffix is _p and lesser otherwise.
   3.6  suffixes of the same kind compare by their integer parts (a missing integer part is 0); suffixes of different
        kinds in the order _alpha < _beta < _pre < _rc < _p.
   3.7  the revisions (0 when absent) are compared as integers. *)
From Coq Require Import List Bool Arith Ascii String NArith ZArith Lia.
From UV.Base Require Import Order LexPad Res.
From UV.Gen Require Import Tables.
From UV.Py Require Import PyStr.
From UV.Schemes Require Import Common Generic Gentoo GentooProofs.
From UV.Ref Require Import Deb.
Import ListNotations.
Local Open Scope list_scope.

Definition leading_zero (c : str) : bool := match c with x :: _ => eqc x c_zero | [] => false end.
(* Algorithm 3.3 *)
Definition pms_component (a b : str) : comparison :=
  if leading_zero a || leading_zero b then cmp_str (rstrip0 a) (rstrip0 b)
  else N.compare (int_of_digits a) (int_of_digits b).
(* Algorithm 3.2 *)
Fixpoint pms_following (l1 l2 : list str) : comparison :=
  match l1, l2 with
  | x :: r1, y :: r2 => match pms_component x y with Eq => pms_following r1 r2 | o => o end
  | [], [] => Eq
  | [], _ :: _ => Lt
  | _ :: _, [] => Gt
  end.
Definition pms_numeric (l1 l2 : list str) : comparison :=
  match l1, l2 with
  | x :: r1, y :: r2 => match N.compare (int_of_digits x) (int_of_digits y) with Eq => pms_following r1 r2 | o => o end
  | [], [] => Eq
  | [], _ :: _ => Lt
  | _ :: _, [] => Gt
  end.
(* Algorithm 3.4 *)
Definition letter_string (l : option ascii) : str := match l with Some c => [c] | None => [] end.
Definition pms_letter (a b : option ascii) : comparison := cmp_str (letter_string a) (letter_string b).
(* Algorithms 3.5 and 3.6 *)
Inductive kind := KAlpha | KBeta | KPre | KRc | KP.
Definition kind_rank (k : kind) : N := match k with KAlpha => 0 | KBeta => 1 | KPre => 2 | KRc => 3 | KP => 4 end%N.
Definition kind_of_name (n : str) : option kind :=
  if eqs n (list_ascii_of_string "alpha") then Some KAlpha
  else if eqs n (list_ascii_of_string "beta") then Some KBeta
  else if eqs n (list_ascii_of_string "pre") then Some KPre
  else if eqs n (list_ascii_of_string "rc") then Some KRc
  else if eqs n (list_ascii_of_string "p") then Some KP
  else None.
(* a suffix text: its letters name the kind, its digits are the integer part *)
Definition pms_parse_suffix (p : str) : option (kind * N) :=
  let name := take_while is_alpha p in
  let ds := drop_while is_alpha p in
  if all_digits ds then match kind_of_name name with Some k => Some (k, int_of_digits ds) | None => None end else None.
Definition pms_suffix (x y : kind * N) : comparison :=
  if N.eqb (kind_rank (fst x)) (kind_rank (fst y)) then N.compare (snd x) (snd y)
  else N.compare (kind_rank (fst x)) (kind_rank (fst y)).
Definition is_p (x : kind * N) : bool := match fst x with KP => true | _ => false end.
Fixpoint pms_suffixes (l1 l2 : list (kind * N)) : comparison :=
  match l1, l2 with
  | x :: r1, y :: r2 => match pms_suffix x y with Eq => pms_suffixes r1 r2 | o => o end
  | [], [] => Eq
  | [], y :: _ => if is_p y then Lt else Gt
  | x :: _, [] => if is_p x then Gt else Lt
  end.

Definition kinds_of (l : list str) : list (kind * N) :=
  map (fun p => match pms_parse_suffix p with Some k => k | None => (KAlpha, 0%N) end) l.

(* Algorithm 3.1, on the decomposition of the version text: number part, letter, suffixes, revision *)
Definition ref_gentoo (s1 s2 : str) : comparison :=
  match pms_numeric (fst (g_comps s1)) (fst (g_comps s2)) with
  | Eq => match pms_letter (snd (g_comps s1)) (snd (g_comps s2)) with
          | Eq => match pms_suffixes (kinds_of (g_suffixes s1)) (kinds_of (g_suffixes s2)) with
                  | Eq => N.compare (g_rev s1) (g_rev s2)
                  | o => o end
          | o => o end
  | o => o end.

(* ---- the numeric components ---------------------------------------------------------------------------------- *)
Lemma pms_component_refl x : pms_component x x = Eq.
Proof. unfold pms_component. destruct (leading_zero x || leading_zero x); [apply (tpo_refl _ tpo_str)|apply N.compare_refl]. Qed.

Lemma comp_cmp_pms x y : digits_ne x = true -> digits_ne y = true -> comp_cmp x y = Ok (pms_component x y).
Proof.
  intros Hx Hy. unfold comp_cmp. destruct (eqs x y) eqn:E.
  - apply eqs_eq in E. subst. rewrite pms_component_refl. reflexivity.
  - unfold digits_ne in Hx, Hy. apply andb_true_iff in Hx, Hy. destruct Hx as [Nx Dx], Hy as [Ny Dy].
    destruct x as [|a r]; [discriminate|]. destruct y as [|b s]; [discriminate|].
    unfold pms_component. cbn [zero_led leading_zero]. rewrite Dx, Dy.
    destruct (eqc a c_zero), (eqc b c_zero); reflexivity.
Qed.
Lemma ckcmp_pms x y : digits_ne x = true -> digits_ne y = true -> ckcmp (ckey x) (ckey y) = pms_component x y.
Proof.
  intros Hx Hy. pose proof (comp_cmp_key x y Hx Hy) as K. rewrite (comp_cmp_pms x y Hx Hy) in K. congruence.
Qed.
Lemma following_pms : forall l1 l2, forallb digits_ne l1 = true -> forallb digits_ne l2 = true ->
  cmp_lex ckcmp (map ckey l1) (map ckey l2) = pms_following l1 l2.
Proof.
  induction l1 as [|x r1 IH]; intros [|y r2] H1 H2; try reflexivity.
  cbn [forallb] in H1, H2. apply andb_true_iff in H1, H2. destruct H1 as [Hx H1], H2 as [Hy H2].
  cbn [map cmp_lex pms_following]. rewrite (ckcmp_pms x y Hx Hy). rewrite (IH r2 H1 H2). reflexivity.
Qed.
Lemma numeric_pms l1 l2 : forallb digits_ne l1 = true -> forallb digits_ne l2 = true ->
  cmp_lex ckcmp (ckeys l1) (ckeys l2) = pms_numeric l1 l2.
Proof.
  destruct l1 as [|x r1], l2 as [|y r2]; intros H1 H2; try reflexivity.
  cbn [forallb] in H1, H2. apply andb_true_iff in H1, H2. destruct H1 as [Hx H1], H2 as [Hy H2].
  cbn [ckeys cmp_lex pms_numeric]. unfold fkey. rewrite ckcmp_11. rewrite (following_pms r1 r2 H1 H2). reflexivity.
Qed.

(* ---- the letter -------------------------------------------------------------------------------------------- *)
Lemma letter_pms a b : ocmp a b = pms_letter a b.
Proof.
  unfold ocmp, letter_cmp, pms_letter, cmp_str. destruct a as [x|], b as [y|]; cbn; try reflexivity.
  destruct (cmp_char x y); reflexivity.
Qed.

(* ---- the suffixes ------------------------------------------------------------------------------------------- *)
(* the suffix names of the code, their values in /repo's table (transcribed on every run) and their PMS kinds *)
Definition name_facts (n : str) : bool :=
  forallb is_alpha n &&
  match suffix_val n, kind_of_name n with
  | Some z, Some k =>
      cmp_eqb (Z.compare z 0) (if N.eqb (kind_rank k) 4 then Gt else Lt)
      && forallb (fun m => match suffix_val m, kind_of_name m with
                           | Some z', Some k' => cmp_eqb (Z.compare z z') (N.compare (kind_rank k) (kind_rank k'))
                           | _, _ => false end) suffix_order
  | _, _ => false
  end.
Lemma names_ok : forallb name_facts suffix_order = true.
Proof. vm_compute. reflexivity. Qed.

Lemma take_while_app_alpha n : forall ds, forallb is_alpha n = true -> all_digits ds = true ->
  take_while is_alpha (n ++ ds) = n /\ drop_while is_alpha (n ++ ds) = ds.
Proof.
  induction n as [|c r IH]; intros ds Hn Hd.
  - cbn [app]. destruct ds as [|d t]; [split; reflexivity|].
    cbn [all_digits forallb] in Hd. apply andb_true_iff in Hd. destruct Hd as [Hd _].
    assert (A : is_alpha d = false).
    { assert (T : forallb (fun c => negb (is_digit c && is_alpha c)) all_chars = true) by (vm_compute; reflexivity).
      rewrite forallb_forall in T. specialize (T d (all_chars_complete d)). rewrite Hd in T. cbn in T.
      destruct (is_alpha d); [discriminate|reflexivity]. }
    cbn [take_while drop_while]. rewrite A. split; reflexivity.
  - cbn [forallb] in Hn. apply andb_true_iff in Hn. destruct Hn as [Hc Hr].
    cbn [app take_while drop_while]. rewrite Hc. destruct (IH ds Hr Hd) as [E1 E2]. rewrite E1, E2. split; reflexivity.
Qed.

Lemma strip_prefix_app p : forall s rest, strip_prefix p s = Some rest -> s = p ++ rest.
Proof.
  induction p as [|x p' IH]; intros s rest H.
  - cbn in H. inversion H. reflexivity.
  - destruct s as [|y s']; cbn in H; [discriminate|]. destruct (eqc x y) eqn:E; [|discriminate].
    apply eqc_eq in E. subst y. cbn [app]. f_equal. apply IH. exact H.
Qed.
Lemma parse_suffix_in_sound : forall names p n ds, parse_suffix_in names p = Some (n, ds) ->
  p = n ++ ds /\ In n names /\ all_digits ds = true.
Proof.
  induction names as [|m ms IH]; intros p n ds H; cbn [parse_suffix_in] in H; [discriminate|].
  destruct (strip_prefix m p) as [rest|] eqn:S.
  - destruct (all_digits rest) eqn:D.
    + inversion H; subst. split; [apply strip_prefix_app; exact S|]. split; [left; reflexivity|exact D].
    + destruct (IH p n ds H) as [A [B C]]. split; [exact A|]. split; [right; exact B|exact C].
  - destruct (IH p n ds H) as [A [B C]]. split; [exact A|]. split; [right; exact B|exact C].
Qed.

(* what the model's suffix key and the PMS reading of a suffix have to do with one another *)
Definition kval (k : kind * N) : Z * N -> Prop := fun zn =>
  snd zn = snd k /\ exists n, In n suffix_order /\ suffix_val n = Some (fst zn) /\ kind_of_name n = Some (fst k).

Lemma suffix_ok_kind p : suffix_ok p = true ->
  exists k, pms_parse_suffix p = Some k /\ kval k (skey p).
Proof.
  unfold suffix_ok, skey, suffix_key. intros H.
  destruct (parse_suffix_in suffix_order p) as [[n ds]|] eqn:P; [|discriminate].
  destruct (parse_suffix_in_sound _ _ _ _ P) as [E [I D]].
  pose proof names_ok as NO. rewrite forallb_forall in NO. specialize (NO n I). unfold name_facts in NO.
  apply andb_true_iff in NO. destruct NO as [Al NO].
  destruct (suffix_val n) as [z|] eqn:V; [|discriminate]. destruct (kind_of_name n) as [k|] eqn:K; [|discriminate].
  exists (k, int_of_digits ds). split.
  - unfold pms_parse_suffix. subst p. destruct (take_while_app_alpha n ds Al D) as [T1 T2]. rewrite T1, T2, D, K. reflexivity.
  - split; [reflexivity|]. exists n. auto.
Qed.

Lemma kval_cmp k1 zn1 k2 zn2 : kval k1 zn1 -> kval k2 zn2 -> skcmp zn1 zn2 = pms_suffix k1 k2.
Proof.
  intros [S1 [n1 [I1 [V1 K1]]]] [S2 [n2 [I2 [V2 K2]]]].
  pose proof names_ok as NO. rewrite forallb_forall in NO. pose proof (NO n1 I1) as F1. unfold name_facts in F1.
  apply andb_true_iff in F1. destruct F1 as [_ F1]. rewrite V1, K1 in F1. apply andb_true_iff in F1. destruct F1 as [_ F1].
  rewrite forallb_forall in F1. specialize (F1 n2 I2). rewrite V2, K2 in F1. apply cmp_eqb_eq in F1.
  unfold skcmp, cmp_pair, pms_suffix. rewrite F1, S1, S2.
  destruct (N.compare (kind_rank (fst k1)) (kind_rank (fst k2))) eqn:C.
  - apply N.compare_eq in C. rewrite C, N.eqb_refl. reflexivity.
  - assert (Q : N.eqb (kind_rank (fst k1)) (kind_rank (fst k2)) = false) by (apply N.eqb_neq; intro Q; rewrite Q, N.compare_refl in C; discriminate).
    rewrite Q. reflexivity.
  - assert (Q : N.eqb (kind_rank (fst k1)) (kind_rank (fst k2)) = false) by (apply N.eqb_neq; intro Q; rewrite Q, N.compare_refl in C; discriminate).
    rewrite Q. reflexivity.
Qed.
Lemma kval_sign k zn : kval k zn -> Z.compare (fst zn) 0 = (if is_p k then Gt else Lt).
Proof.
  intros [S1 [n1 [I1 [V1 K1]]]].
  pose proof names_ok as NO. rewrite forallb_forall in NO. pose proof (NO n1 I1) as F1. unfold name_facts in F1.
  apply andb_true_iff in F1. destruct F1 as [_ F1]. rewrite V1, K1 in F1. apply andb_true_iff in F1. destruct F1 as [F1 _].
  apply cmp_eqb_eq in F1. rewrite F1. unfold is_p. destruct (fst k); reflexivity.
Qed.

Lemma kinds_of_cons p r : kinds_of (p :: r) = (match pms_parse_suffix p with Some k => k | None => (KAlpha, 0%N) end) :: kinds_of r.
Proof. reflexivity. Qed.

Lemma suffixes_pms : forall l1 l2, forallb suffix_ok l1 = true -> forallb suffix_ok l2 = true ->
  cmp_pad skcmp (0%Z, 0%N) (map skey l1) (map skey l2) = pms_suffixes (kinds_of l1) (kinds_of l2).
Proof.
  induction l1 as [|x r1 IH]; intros [|y r2] H1 H2.
  - reflexivity.
  - cbn [forallb] in H2. apply andb_true_iff in H2. destruct H2 as [Hy _].
    destruct (suffix_ok_kind y Hy) as [k [P K]]. rewrite kinds_of_cons, P.
    cbn [map cmp_pad vs_pad_r pms_suffixes kinds_of]. unfold skcmp at 1, cmp_pair. cbn [fst snd].
    pose proof (kval_sign k _ K) as Sg. rewrite Z.compare_antisym, Sg. destruct (is_p k); reflexivity.
  - cbn [forallb] in H1. apply andb_true_iff in H1. destruct H1 as [Hx _].
    destruct (suffix_ok_kind x Hx) as [k [P K]]. rewrite kinds_of_cons, P.
    cbn [map cmp_pad vs_pad_l pms_suffixes kinds_of]. unfold skcmp at 1, cmp_pair. cbn [fst snd].
    pose proof (kval_sign k _ K) as Sg. rewrite Sg. destruct (is_p k); reflexivity.
  - cbn [forallb] in H1, H2. apply andb_true_iff in H1, H2. destruct H1 as [Hx H1], H2 as [Hy H2].
    destruct (suffix_ok_kind x Hx) as [k1 [P1 K1]]. destruct (suffix_ok_kind y Hy) as [k2 [P2 K2]].
    rewrite !kinds_of_cons, P1, P2. cbn [map cmp_pad pms_suffixes].
    rewrite (kval_cmp _ _ _ _ K1 K2). rewrite (IH r2 H1 H2). reflexivity.
Qed.

(* C03 for ebuild and alpine: on every accepted version text the code computes the PMS comparison *)
Theorem gentoo_matches_pms s1 s2 : gok s1 = true -> gok s2 = true -> vercmp s1 s2 = Ok (ref_gentoo s1 s2).
Proof.
  intros H1 H2. rewrite (vercmp_key s1 s2 H1 H2). f_equal.
  unfold gok in H1, H2.
  apply andb_true_iff in H1. destruct H1 as [H1 S1]. apply andb_true_iff in H1. destruct H1 as [N1 C1].
  apply andb_true_iff in H2. destruct H2 as [H2 S2]. apply andb_true_iff in H2. destruct H2 as [N2 C2].
  unfold gkey, ref_gentoo. rewrite gkcmp_unfold.
  assert (D1 : forallb digits_ne (fst (g_comps s1)) = true).
  { unfold g_comps. destruct (split_letter (split_c c_dotg (g_dotted s1))) as [[c l]|e]; [exact C1|discriminate]. }
  assert (D2 : forallb digits_ne (fst (g_comps s2)) = true).
  { unfold g_comps. destruct (split_letter (split_c c_dotg (g_dotted s2))) as [[c l]|e]; [exact C2|discriminate]. }
  rewrite (numeric_pms _ _ D1 D2), letter_pms, (suffixes_pms _ _ S1 S2). reflexivity.
Qed.
