From Coq Require Import Extraction ExtrOcamlBasic.
From UV.Base Require Import Cop Res.
From UV.Gen Require Import Tables.
From UV.Vers Require Import Model Spec.
From UV.Extract Require Import Inst.
Extraction Language OCaml.
Extraction "../build/ocaml/model.ml"
  z_contains z_den z_wf_sorted z_validate z_sort z_invert z_normalize z_from_versions z_nonvacuous z_mem z_simplify
  find_vclass find_rclass x_richcmp x_unrelated x_guard_range x_guard_constraint x_range_vclass x_hashable x_frozen
  x_all_vclasses x_all_rclasses x_vclass_name x_rclass_name
  g_cmp g_vctor g_constraints_from_string g_constraints_to_string g_from_string g_constraint_from_string
  xs_find xs_valid xs_ctor xs_pair xs_names x_sv_next x_sv_stable
  g_github g_snyk g_gitlab x_split_req x_native_tables x_github_table x_snyk_table
  x_gem_helpers x_maven_native x_relations x_nginx_native x_openssl_native x_refcmp z_nmatch z_to_constraints x_native_caret x_native_same_minor x_native_same_major x_native_nginx_plus
  x_split_constraint x_py_is_ascii x_remove_spaces x_lower x_split_c x_strip_set x_lstrip_set x_partition_c.
