(* Instances of the abstract algebra that the correspondence check executes:
   versions are integers (positions on the scheme's version line). *)
From Coq Require Import List Bool ZArith.
From UV.Base Require Import Cop Res.
From UV.Gen Require Import Tables.
From UV.Vers Require Import Model Spec.
Import ListNotations.

Definition zconstr := constr Z.
Definition z_contains : list zconstr -> Z -> res bool := contains Z Z.compare.
Definition z_den : list zconstr -> Z -> bool := den Z Z.compare.
Definition z_wf_sorted : list zconstr -> bool := wf_sorted Z Z.compare.
Definition z_validate : list zconstr -> res bool := validate Z Z.compare.
Definition z_sort : list zconstr -> res (list zconstr) := sort_c Z Z.compare.
Definition z_invert : list zconstr -> option (res (list zconstr)) := invert Z Z.compare.
Definition z_normalize : list zconstr -> list Z -> res (list zconstr) := normalize Z Z.compare.
Definition z_from_versions : list Z -> res (list zconstr) := from_versions Z Z.compare.
Definition z_nonvacuous : list zconstr -> bool := nonvacuous Z Z.compare.
Definition z_simplify : list zconstr -> res (list zconstr) := simplify Z Z.compare.
Definition z_mem : list zconstr -> Z -> bool := mem Z Z.compare.

(* ---- class-level dispatch (C14, C12) ---- *)
From Coq Require Import String.
From UV.Py Require Import PyCmp.
Definition find_vclass (s : string) : option vclass :=
  find (fun c => String.eqb (vclass_name c) s) all_vclasses.
Definition find_rclass (s : string) : option rclass :=
  find (fun c => String.eqb (rclass_name c) s) all_rclasses.
Definition x_richcmp := richcmp.
Definition x_unrelated := unrelated.
Definition x_guard_range := guard_range.
Definition x_guard_constraint := guard_constraint.
Definition x_range_vclass := range_vclass.
Definition x_hashable := hashable.
Definition x_frozen := frozen.
Definition x_all_vclasses := all_vclasses.
Definition x_all_rclasses := all_rclasses.
Definition x_vclass_name := vclass_name.
Definition x_rclass_name := rclass_name.

(* ---- text layer, instantiated on the generic scheme (versions are normalized strings,
        ordered as Python orders str) ---- *)
From Coq Require Import Ascii NArith.
From UV.Base Require Import Order.
From UV.Py Require Import PyStr.
From UV.Vers Require Import VersText.
Definition g_cmp : str -> str -> comparison := cmp_lex (fun a b => N.compare (code a) (code b)).
Definition g_vctor (s : str) : res str :=
  let n := lstrip_set (s2l "vV") (remove_spaces s) in
  if is_empty n then Err EInvalidVersion else Ok n.
Definition g_vstr (s : str) : str := s.
Definition g_constraints_from_string := constraints_from_string str g_cmp g_vctor.
Definition g_constraints_to_string := constraints_to_string str g_cmp g_vstr.
Definition g_from_string := from_string str g_cmp g_vctor.
Definition g_constraint_from_string := constraint_from_string str g_vctor.
Definition x_split_constraint := split_constraint.
Definition x_py_is_ascii := py_is_ascii.
Definition x_remove_spaces := remove_spaces.
Definition x_lower := lower.
Definition x_split_c := split_c.
Definition x_strip_set := strip_set.
Definition x_lstrip_set := lstrip_set.
Definition x_partition_c := partition_c.

(* ---- scheme models ---- *)
From UV.Schemes Require Import Common Registry.
Definition xs_find := find_scheme.
Definition xs_valid := x_valid.
Definition xs_ctor := x_ctor.
Definition xs_pair := x_pair.
Definition xs_names := x_scheme_names.

(* semver helpers (C18) *)
From UV.Schemes Require Import Semver.
Definition x_sv_next (kind : nat) (t : str) : res str :=
  match semver_ctor t with
  | Ok v => Ok (semver_str (match kind with 0 => next_patch v | 1 => next_minor v | _ => next_major v end))
  | Err e => Err e
  end.
Definition x_sv_stable (t : str) : res bool := match semver_ctor t with Ok v => Ok (is_stable v) | Err e => Err e end.

(* advisory converters on the generic scheme (C15) *)
From UV.Native Require Import Advisory.
Definition g_github := github_range str g_cmp g_vctor.
Definition g_snyk := snyk_range str g_cmp g_vctor.
Definition g_gitlab := gitlab_range str g_cmp g_vctor.
Definition x_split_req := split_req.
Definition x_native_tables := native_tables.
Definition x_github_table := github_table.
Definition x_snyk_table := snyk_table.

(* reference comparison procedures (C03) *)
From UV.Ref Require All.
Definition x_refcmp := All.ref_cmp.

(* native range expressions (C06) *)
From Coq Require Import ZArith.
From UV.Native Require Intervals Shorthand.
Definition z_nmatch : list (Intervals.alt Z) -> Z -> bool := Intervals.nmatch Z Z.compare.
Definition z_to_constraints : list (Intervals.alt Z) -> list (Model.constr Z) := Intervals.to_constraints Z.
Definition x_native_caret := Shorthand.native_caret.
Definition x_native_same_minor := Shorthand.native_same_minor.
Definition x_native_same_major := Shorthand.native_same_major.
Definition x_native_nginx_plus := Shorthand.native_nginx_plus.

(* gem helpers (C18): canonical segments of bump() and release() as dotted text *)
From UV.Schemes Require Gem GemHelpers.
From UV.Ref Require Gem.
Definition seg_text (x : UV.Ref.Gem.seg) : str := match x with UV.Ref.Gem.SNum n => str_of_N n | UV.Ref.Gem.SStr t => t end.
Definition segs_text (l : list UV.Ref.Gem.seg) : str := join_c "."%char (map seg_text l).
Definition x_gem_helpers (t : str) : res (str * str * str) :=
  match UV.Schemes.Gem.gem_ctor t with
  | Ok v => let sg := UV.Schemes.Gem.segs v in
            Ok (segs_text (UV.Ref.Gem.drop_trailing_zeros (GemHelpers.bump_list sg)),
                segs_text (UV.Ref.Gem.drop_trailing_zeros (GemHelpers.release_list sg)),
                segs_text (GemHelpers.canon_of sg))
  | Err e => Err e
  end.

(* the Maven / NuGet bracket notation (C06): the parser model on the two schemes that use it *)
From UV.Native Require MavenRange.
From UV.Schemes Require Maven Nuget.
From UV.Ref Require Maven.
(* maven.Version(text) strips the blanks at both ends of its text before parsing it *)
Definition mvn_text_cmp (a b : str) : comparison :=
  UV.Schemes.Maven.maven_cmp {| UV.Schemes.Maven.m_text := a; UV.Schemes.Maven.m_parsed := UV.Ref.Maven.maven_parse (Advisory.strip_ws a) |}
                             {| UV.Schemes.Maven.m_text := b; UV.Schemes.Maven.m_parsed := UV.Ref.Maven.maven_parse (Advisory.strip_ws b) |}.
Definition text_constraints {V} (pr : V -> str) (r : res (list (Model.constr V))) : res (list (Model.constr str)) :=
  match r with
  | Ok cs => Ok (map (fun c => match c with Model.Star => Model.Star | Model.C o v => Model.C o (pr v) end) cs)
  | Err e => Err e
  end.
Definition x_maven_native (nuget : bool) (s : str) : res (list (Model.constr str)) :=
  if nuget then text_constraints UV.Schemes.Nuget.nuget_str (MavenRange.maven_native mvn_text_cmp _ UV.Schemes.Nuget.nuget_ctor s)
  else text_constraints UV.Schemes.Maven.maven_str (MavenRange.maven_native mvn_text_cmp _ UV.Schemes.Maven.maven_ctor s).

(* the relationship-string notations (deb, rpm): the constraints of from_natives before the sort of the range *)
From UV.Native Require Relations.
From UV.Schemes Require Debian Rpm.
Definition x_relations (rpm : bool) (items : list str) : res (list (Model.constr str)) :=
  if rpm then text_constraints UV.Schemes.Rpm.rpm_str (mapM (Relations.relation_constraint _ UV.Schemes.Rpm.rpm_ctor Relations.rpm_table Relations.rpm_strip) items)
  else text_constraints UV.Schemes.Debian.deb_str (mapM (Relations.relation_constraint _ UV.Schemes.Debian.deb_ctor Relations.deb_table Relations.deb_strip) items).

(* the nginx advisory notation and the openssl version list (C06) *)
From UV.Native Require Nginx.
From UV.Schemes Require Openssl.
Definition x_nginx_native (s : str) : res (list (Model.constr str)) := text_constraints Semver.semver_str (Nginx.nginx_native s).
Definition x_openssl_native (s : str) : res (list (Model.constr str)) :=
  text_constraints UV.Schemes.Openssl.ossl_str (Nginx.openssl_native UV.Schemes.Openssl.ossl_ctor s).
