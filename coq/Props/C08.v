(* C08 — simplification keeps the meaning, only removes, reaches a valid fixed point.

   `simplify` is the code-shaped model of VersionConstraint.simplify() = deduplicate() +
   simplify_constraints() (the index walk over a list with the "!=" set aside, then
   sorted(set(...))).  `mem` is the property's membership in a possibly redundant range
   (no "!=" excludes it and it equals an "=" version, or the nearest bound below points
   upward, or the nearest bound above points downward; a range of only "!=" keeps C04's
   reading).  For every version type with a total preorder and every version-sorted list
   with pairwise distinct versions, of any length and any comparator pattern. *)
From Coq Require Import List Bool ZArith.
From UV.Base Require Import Order Cop Res.
From UV.Gen Require Import Tables.
From UV.Vers Require Import Model Spec ContainsProofs SortProofs ValidateProofs Cuts SimplifyProofs.
Import ListNotations.

Theorem C08_simplification :
  forall (V : Type) (cmp : V -> V -> comparison), TPO cmp ->
  forall cs : list (constr V), no_star V cs = true -> strong_incr V cmp cs = true ->
  exists r, simplify V cmp cs = Ok r /\
            sublist r cs /\                                  (* only removes *)
            (forall v, mem V cmp r v = mem V cmp cs v) /\    (* keeps the meaning *)
            validate V cmp r = Ok true /\                    (* validation accepts the result *)
            simplify V cmp r = Ok r /\                       (* simplifying again changes nothing *)
            strong_incr V cmp r = true /\ no_star V r = true.
Proof. exact simplify_correct. Qed.

(* on a well-formed range the property's meaning is C04's denotation, so simplification also
   preserves what the membership test answers *)
Theorem C08_meaning_is_denotation_on_wellformed :
  forall (V : Type) (cmp : V -> V -> comparison), TPO cmp ->
  forall (s : list (constr V)) (v : V), no_star V s = true -> wf_sorted V cmp s = true ->
    mem V cmp s v = den V cmp s v.
Proof. exact mem_den. Qed.

(* "version-sorted with pairwise distinct versions" is what strong_incr says *)
Theorem C08_sorted_distinct_is_strong_incr :
  forall (V : Type) (cmp : V -> V -> comparison), TPO cmp ->
  forall cs : list (constr V), increasing V cmp cs = true -> strong_incr V cmp cs = true.
Proof. exact incr_strong. Qed.

(* Non-vacuity, including the two shapes the original walk got wrong *)
Example C08_nonvacuous :
  simplify Z Z.compare [C LT 2; C GE 4; C LT 6; C LT 8]%Z = Ok [C LT 2; C GE 4; C LT 8]%Z /\
  simplify Z Z.compare [C LT 2; C LT 4; C LT 6]%Z = Ok [C LT 6]%Z /\
  simplify Z Z.compare [C GE 1; C EQ 2; C NE 3; C GE 4; C LT 5; C LE 6; C NE 7]%Z = Ok [C GE 1; C NE 3; C LE 6; C NE 7]%Z /\
  strong_incr Z Z.compare [C GE 1; C EQ 2; C NE 3; C GE 4; C LT 5; C LE 6; C NE 7]%Z = true.
Proof. vm_compute. repeat split. Qed.

Print Assumptions C08_simplification.
Print Assumptions C08_meaning_is_denotation_on_wellformed.
Print Assumptions C08_sorted_distinct_is_strong_incr.
