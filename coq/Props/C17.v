(* C17 — meaning is stable under any sequence of presentation-level operations.

   A history is any finite sequence of `step`s (Vers/HistoryProofs.v): rebuild from any
   rearrangement of the constraints (print+parse, permute+rebuild), simplify, validate,
   invert twice, parse with simplify/validate flags; each step is the code-shaped model of
   the corresponding public operation.  For any version type with a total preorder and any
   well-formed star-free range. (The '*' range has no inverse; its other operations are the
   identity.)  print+parse being a rebuild is C05/C11 of the scheme (text level). *)
From Coq Require Import List Bool ZArith Permutation.
From UV.Base Require Import Order Cop Res.
From UV.Gen Require Import Tables.
From UV.Vers Require Import Model Spec ContainsProofs HistoryProofs.
Import ListNotations.

Theorem C17_every_operation_is_enabled :
  forall (V : Type) (cmp : V -> V -> comparison), TPO cmp ->
  forall r : list (constr V), good V cmp r ->
    (forall l, Permutation r l -> exists r', sort_c V cmp l = Ok r') /\
    (exists r', simplify V cmp r = Ok r') /\
    validate V cmp r = Ok true /\
    (exists r1 r2, invert V cmp r = Some (Ok r1) /\ invert V cmp r1 = Some (Ok r2)).
Proof. exact step_enabled. Qed.

Theorem C17_same_membership_after_any_history :
  forall (V : Type) (cmp : V -> V -> comparison), TPO cmp ->
  forall r0 r : list (constr V), good V cmp r0 -> steps V cmp r0 r ->
    good V cmp r /\ (forall v, contains V cmp r v = contains V cmp r0 v) /\ (forall v, exists b, contains V cmp r v = Ok b).
Proof. exact history_preserves_membership. Qed.

Theorem C17_constraints_stop_changing_after_first_simplification :
  forall (V : Type) (cmp : V -> V -> comparison), TPO cmp ->
  forall r0 r1 r2 r3 : list (constr V),
    good V cmp r0 -> steps V cmp r0 r1 -> simplify V cmp r1 = Ok r2 -> steps V cmp r2 r3 -> r3 = r2.
Proof. exact history_settles. Qed.

(* Non-vacuity: a concrete history on a redundant-free but vacuous-laden range *)
Definition r0 : list (constr Z) := [C LE 2; C EQ 4; C NE 5; C GT 6; C NE 8; C LT 10; C EQ 12; C GE 14]%Z.
Example C17_nonvacuous :
  good Z Z.compare r0 /\
  steps Z Z.compare r0 r0 /\
  (exists r1, invert Z Z.compare r0 = Some (Ok r1) /\ invert Z Z.compare r1 = Some (Ok r0)) /\
  simplify Z Z.compare r0 = Ok r0 /\
  sort_c Z Z.compare (rev r0) = Ok r0.
Proof.
  repeat split; try (vm_compute; reflexivity).
  - apply steps_nil.
  - eexists. split; vm_compute; reflexivity.
Qed.

Print Assumptions C17_every_operation_is_enabled.
Print Assumptions C17_same_membership_after_any_history.
Print Assumptions C17_constraints_stop_changing_after_first_simplification.
