(* C01 — version comparison is a strict weak order within every scheme.

   For a scheme S, Schemes/<S>.v holds the code-shaped model of its comparison and
   Schemes/<S>Proofs.v the refinement: on the shape every accepted version has (`ok`), the
   comparison the code computes equals a lexicographic order on a key, which is a total
   preorder (TPO).  Every law of the property follows from TPO (first theorems below), as
   does the statement about sorting.  Schemes covered by a theorem here: generic, legacy
   openssl, ebuild/alpine (gentoo), deb, the semver family (npm, golang, composer, nginx).  The other schemes are not claimed by this file;
   harness/props/C01.py evaluates the laws on them directly (a test, not a proof). *)
From Coq Require Import List Bool Arith Ascii String NArith Permutation Sorted.
From UV.Base Require Import Order SortUniq Res.
From UV.Py Require Import PyStr.
From UV.Schemes Require Import Common Generic LegacyOpenssl Gentoo GentooProofs Debian DebianProofs Semver SemverProofs Gem GemProofs Rpm RpmProofs Arch ArchProofs Openssl.
From UV.Schemes Require Import Pypi Nuget NugetConanProofs NugetOrder Conan ConanFlat.
From UV.Ref Require Pep440.
Import ListNotations.

(* the laws, for any comparison that is a total preorder: < is cmp = Lt, > is cmp = Gt *)
Theorem C01_laws_of_a_total_preorder :
  forall (A : Type) (cmp : A -> A -> comparison), TPO cmp ->
    (forall a, cmp a a <> Lt) /\                                              (* irreflexive *)
    (forall a b, cmp a b = Lt -> cmp b a <> Lt) /\                            (* asymmetric *)
    (forall a b c, cmp a b = Lt -> cmp b c = Lt -> cmp a c = Lt) /\           (* transitive *)
    (forall a b, cmp a b = Gt <-> cmp b a = Lt) /\                            (* > is the converse of < *)
    (forall a b c, (cmp a b <> Lt /\ cmp b a <> Lt) -> (cmp b c <> Lt /\ cmp c b <> Lt) ->
                   (cmp a c <> Lt /\ cmp c a <> Lt)).                         (* incomparability is transitive *)
Proof.
  intros A cmp T. repeat split.
  - apply (tpo_irrefl cmp T).
  - apply (tpo_asym cmp T).
  - apply (tpo_lt _ T).
  - apply (tpo_gt_lt cmp T).
  - apply (tpo_gt_lt cmp T).
  - destruct H as [H1 H2], H0 as [H3 H4].
    assert (E1 : cmp a b = Eq) by (apply (tpo_incomp cmp T); auto).
    assert (E2 : cmp b c = Eq) by (apply (tpo_incomp cmp T); auto).
    rewrite (tpo_eq_trans cmp T _ _ _ E1 E2). discriminate.
  - destruct H as [H1 H2], H0 as [H3 H4].
    assert (E1 : cmp a b = Eq) by (apply (tpo_incomp cmp T); auto).
    assert (E2 : cmp b c = Eq) by (apply (tpo_incomp cmp T); auto).
    pose proof (tpo_eq_trans cmp T _ _ _ E1 E2) as E3. rewrite (tpo_eq_sym cmp T _ _ E3). discriminate.
Qed.

(* sorting any list gives the same sequence of equivalence classes whatever the input order *)
Theorem C01_sorting_is_order_independent :
  forall (A : Type) (cmp : A -> A -> comparison), TPO cmp ->
  forall l l' s s' : list A,
    Permutation l l' ->
    Permutation l s -> StronglySorted (le cmp) s ->
    Permutation l' s' -> StronglySorted (le cmp) s' ->
    Forall2 (equiv cmp) s s'.
Proof.
  intros A cmp T l l' s s' P Ps Ss Ps' Ss'.
  apply (sorted_perm_unique_upto cmp T); auto.
  eapply perm_trans; [apply Permutation_sym; exact Ps|]. eapply perm_trans; [exact P|exact Ps'].
Qed.

(* ---- per scheme: the comparison the code computes is a total preorder ------------------ *)
Theorem C01_generic : TPO gen_cmp /\ forall a b, gen_ops a b = ops_of (gen_cmp a b).
Proof. split; [exact gen_tpo|reflexivity]. Qed.

Theorem C01_legacy_openssl : TPO leg_cmp /\ forall a b, leg_ops a b = ops_of (leg_cmp a b).
Proof. split; [exact leg_tpo|exact leg_ops_spec]. Qed.

Theorem C01_gentoo_alpine :
  TPO gentoo_cmp /\
  forall a b, gok a = true -> gok b = true ->
    vercmp a b = Ok (gentoo_cmp a b) /\ gentoo_ops a b = Ok (ops_of (gentoo_cmp a b)).
Proof. split; [exact gentoo_tpo|]. intros a b Ha Hb. split; [apply vercmp_key; assumption|apply gentoo_ops_spec; assumption]. Qed.

Theorem C01_deb :
  TPO deb_cmp /\
  forall a b, dok a = true -> dok b = true ->
    deb_compare a b = Ok (deb_cmp a b) /\ deb_ops a b = Ok (ops_of (deb_cmp a b)).
Proof. split; [exact deb_tpo|]. intros a b Ha Hb. split; [apply deb_compare_spec; assumption|apply deb_ops_spec; assumption]. Qed.

Theorem C01_semver_family :
  TPO semver_cmp /\
  forall a b, sv_ok a = true -> sv_ok b = true -> semver_ops a b = ops_of (semver_cmp a b).
Proof. split; [exact semver_tpo|exact semver_ops_spec]. Qed.

Theorem C01_gem :
  TPO gem_order /\ forall a b, gem_cmp a b = gem_order a b /\ gem_ops a b = ops_of (gem_order a b).
Proof. split; [exact gem_tpo|]. intros a b. split; [apply gem_cmp_order|apply gem_ops_spec]. Qed.

Theorem C01_rpm :
  TPO rpm_order /\ forall a b, rpm_compare a b = rpm_order a b /\ rpm_ops a b = ops_of (rpm_order a b).
Proof. split; [exact rpm_tpo|]. intros a b. split; [apply rpm_compare_order|apply rpm_ops_spec]. Qed.

(* alpm: a total preorder within each of the two classes the property keeps (all with, or all without, a pkgrel) *)
Theorem C01_alpm :
  TPO arch_order /\ forall a b, has_rel a = has_rel b -> arch_cmp a b = arch_order a b.
Proof. split; [exact arch_order_tpo|exact arch_cmp_order]. Qed.

Theorem C01_openssl :
  TPO ossl_cmp /\ forall a b, ossl_ok a = true -> ossl_ok b = true -> ossl_ops a b = ops_of (ossl_cmp a b).
Proof. split; [exact ossl_tpo|exact ossl_ops_spec]. Qed.

(* pypi: the PEP 440 order (the model of the third-party packaging library) *)
Theorem C01_pypi : TPO Pep440.pep_cmp /\ forall a b, pypi_ops a b = ops_of (Pep440.pep_cmp a b).
Proof. split; [exact pypi_tpo|reflexivity]. Qed.

(* nuget: on every version the constructor builds, the code's comparison is the order on (four numbers, label key) *)
Theorem C01_nuget :
  TPO nuget_order /\ (forall a b, nu_ok a = true -> nu_ok b = true -> nuget_cmp a b = nuget_order a b) /\
  (forall s v, nuget_ctor s = Ok v -> nu_ok v = true).
Proof. split; [exact nuget_order_tpo|]. split; [exact nuget_cmp_order|exact nuget_ctor_ok]. Qed.

(* conan, plain releases (numeric items only, no pre-release or build part): the comparison is the lexicographic order
   of the integer lists left after the trailing zeros are dropped, a total preorder.  With words among the items the
   order is not transitive (a number and a word in one position are compared as texts): the excluded sub-domain. *)
Theorem C01_conan_plain_releases :
  TPO conan_flat_order /\ forall a b, flat_num a = true -> flat_num b = true -> conan_cmp a b = conan_flat_order a b.
Proof. split; [exact conan_flat_tpo|exact conan_cmp_flat]. Qed.

(* Non-vacuity: accepted versions have the shape the theorems need, and the orders are not trivial *)
Example C01_nonvacuous :
  gok (list_ascii_of_string "1.02_alpha1_p-r3") = true /\
  gentoo_cmp (list_ascii_of_string "1.10") (list_ascii_of_string "1.9") = Gt /\
  gentoo_cmp (list_ascii_of_string "1.0_p") (list_ascii_of_string "1.0_p0") = Eq /\
  (exists v w, deb_ctor (list_ascii_of_string "1:1.0~rc1-2") = Ok v /\ deb_ctor (list_ascii_of_string "1:1.0-2") = Ok w /\
               dok v = true /\ dok w = true /\ deb_cmp v w = Lt).
Proof.
  split; [vm_compute; reflexivity|]. split; [vm_compute; reflexivity|]. split; [vm_compute; reflexivity|].
  eexists. eexists. split; [vm_compute; reflexivity|]. split; [vm_compute; reflexivity|]. repeat split; vm_compute; reflexivity.
Qed.

Print Assumptions C01_laws_of_a_total_preorder.
Print Assumptions C01_sorting_is_order_independent.
Print Assumptions C01_generic.
Print Assumptions C01_legacy_openssl.
Print Assumptions C01_gentoo_alpine.
Print Assumptions C01_deb.
Print Assumptions C01_semver_family.
Print Assumptions C01_gem.
Print Assumptions C01_rpm.
Print Assumptions C01_alpm.
Print Assumptions C01_openssl.
Print Assumptions C01_pypi.
Print Assumptions C01_nuget.
Print Assumptions C01_conan_plain_releases.
Print Assumptions conan_flat_inhabited.
