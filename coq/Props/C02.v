(* C02 — the six comparison operators agree with one another.

   Per scheme: the code-shaped model of the six Python operators (Schemes/<S>.v, which
   operators a class really has and how each is computed) equals `ops_of (cmp a b)` for the
   scheme's order `cmp`; `ops_agree` is the property's sentence on the six answers.  And the
   six vers comparators, through the comparator table transcribed from /repo, accept exactly
   what the operators say. *)
From Coq Require Import List Bool Arith Ascii NArith.
From UV.Base Require Import Order Cop Res.
From UV.Gen Require Import Tables.
From UV.Py Require Import PyStr.
From UV.Vers Require Import Model.
From UV.Schemes Require Import Common Generic LegacyOpenssl Gentoo GentooProofs Debian DebianProofs Semver SemverProofs Gem GemProofs Rpm RpmProofs Arch ArchProofs Openssl.
From UV.Schemes Require Import Nuget Conan NugetConanProofs.
From UV.Schemes Require Import Pypi Maven.
Import ListNotations.

(* one of <, ==, > exactly; <= is < or ==; >= is > or ==; != is not ==  -- for any operators derived from one comparison *)
Theorem C02_operators_of_a_comparison_agree : forall c : comparison, ops_agree (ops_of c) = true.
Proof. exact ops_of_agree. Qed.

(* a single-comparator constraint accepts exactly the versions the operator relates to its version *)
Theorem C02_single_comparator_constraints :
  forall (V : Type) (cmp : V -> V -> comparison) (o : cop) (x v : V),
    in1 V cmp (C o x) v =
      let p := ops_of (cmp v x) in
      match o with GE => o_ge p | LE => o_le p | NE => o_ne p | LT => o_lt p | GT => o_gt p | EQ => o_eq p end.
Proof. intros V cmp o x v. cbn. destruct o; destruct (cmp v x); reflexivity. Qed.

Theorem C02_generic : forall a b, gen_ops a b = ops_of (gen_cmp a b) /\ ops_agree (gen_ops a b) = true.
Proof. intros a b. split; [reflexivity|apply ops_of_agree]. Qed.

Theorem C02_legacy_openssl : forall a b, leg_ops a b = ops_of (leg_cmp a b) /\ ops_agree (leg_ops a b) = true.
Proof. intros a b. split; [apply leg_ops_spec|apply leg_ops_agree]. Qed.

Theorem C02_gentoo_alpine : forall a b, gok a = true -> gok b = true ->
  exists o, gentoo_ops a b = Ok o /\ o = ops_of (gentoo_cmp a b) /\ ops_agree o = true.
Proof. intros a b Ha Hb. eexists. split; [apply gentoo_ops_spec; assumption|]. split; [reflexivity|apply ops_of_agree]. Qed.

Theorem C02_deb : forall a b, dok a = true -> dok b = true ->
  exists o, deb_ops a b = Ok o /\ o = ops_of (deb_cmp a b) /\ ops_agree o = true.
Proof. intros a b Ha Hb. eexists. split; [apply deb_ops_spec; assumption|]. split; [reflexivity|apply ops_of_agree]. Qed.

Theorem C02_semver_family : forall a b, sv_ok a = true -> sv_ok b = true ->
  semver_ops a b = ops_of (semver_cmp a b) /\ ops_agree (semver_ops a b) = true.
Proof. intros a b Ha Hb. rewrite (semver_ops_spec a b Ha Hb). split; [reflexivity|apply ops_of_agree]. Qed.

Theorem C02_gem : forall a b, gem_ops a b = ops_of (gem_order a b) /\ ops_agree (gem_ops a b) = true.
Proof. intros a b. rewrite gem_ops_spec. split; [reflexivity|apply ops_of_agree]. Qed.

Theorem C02_rpm : forall a b, rpm_ops a b = ops_of (rpm_order a b) /\ ops_agree (rpm_ops a b) = true.
Proof. intros a b. rewrite rpm_ops_spec. split; [reflexivity|apply ops_of_agree]. Qed.

Theorem C02_alpm : forall a b, arch_ops a b = ops_of (arch_cmp a b) /\ ops_agree (arch_ops a b) = true.
Proof. exact arch_ops_spec. Qed.

Theorem C02_openssl : forall a b, ossl_ok a = true -> ossl_ok b = true ->
  ossl_ops a b = ops_of (ossl_cmp a b) /\ ops_agree (ossl_ops a b) = true.
Proof. intros a b Ha Hb. rewrite (ossl_ops_spec a b Ha Hb). split; [reflexivity|apply ops_of_agree]. Qed.

Theorem C02_pypi_and_maven : forall a b c d,
  ops_agree (pypi_ops a b) = true /\ ops_agree (maven_ops c d) = true.
Proof. intros a b c d. split; [apply pypi_ops_spec|apply maven_ops_spec]. Qed.

Theorem C02_nuget_and_conan : forall a b c d,
  (nuget_ops a b = ops_of (nuget_cmp a b) /\ ops_agree (nuget_ops a b) = true) /\
  (conan_ops c d = ops_of (conan_cmp c d) /\ ops_agree (conan_ops c d) = true).
Proof. intros a b c d. split; [apply nuget_ops_spec|apply conan_ops_spec]. Qed.

Print Assumptions C02_operators_of_a_comparison_agree.
Print Assumptions C02_single_comparator_constraints.
Print Assumptions C02_generic.
Print Assumptions C02_legacy_openssl.
Print Assumptions C02_gentoo_alpine.
Print Assumptions C02_deb.
Print Assumptions C02_semver_family.
Print Assumptions C02_gem.
Print Assumptions C02_rpm.
Print Assumptions C02_alpm.
Print Assumptions C02_openssl.
Print Assumptions C02_pypi_and_maven.
Print Assumptions C02_nuget_and_conan.
