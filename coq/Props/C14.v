(* C14 — versions of unrelated schemes are never silently compared or matched.
   Entirely finite: the class tables are regenerated from /repo on every run and
   these theorems are re-checked against them.  The bound of each statement is
   the enumerated class list of Gen/Tables.v, which is complete by
   all_vclasses_complete / all_rclasses_complete. *)
From Coq Require Import List Bool.
From UV.Base Require Import Cop.
From UV.Gen Require Import Tables.
From UV.Py Require Import PyCmp.
Import ListNotations.

Lemma all_vclasses_complete c : In c all_vclasses.
Proof. destruct c; cbn; tauto. Qed.
Lemma all_rclasses_complete c : In c all_rclasses.
Proof. destruct c; cbn; tauto. Qed.
Lemma all_pyops_complete o : In o all_pyops.
Proof. destruct o; cbn; tauto. Qed.

Definition order_ok (a b : vclass) (op : pyop) : bool :=
  if unrelated a b && is_ordering op then
    match richcmp op a b with OTypeError => true | _ => false end
  else true.

Definition eq_ok (a b : vclass) : bool :=
  if unrelated a b then
    match richcmp OpEq a b, richcmp OpNe a b with OFalse, OTrue => true | _, _ => false end
  else true.

Lemma order_table :
  forallb (fun a => forallb (fun b => forallb (order_ok a b) all_pyops) all_vclasses) all_vclasses = true.
Proof. vm_compute. reflexivity. Qed.

Lemma eq_table :
  forallb (fun a => forallb (fun b => eq_ok a b) all_vclasses) all_vclasses = true.
Proof. vm_compute. reflexivity. Qed.

(* Ordering two versions of unrelated classes raises TypeError, in both operand orders
   (the statement quantifies over ordered pairs). *)
Theorem C14_order : forall a b op,
  unrelated a b = true -> is_ordering op = true -> richcmp op a b = OTypeError.
Proof.
  intros a b op Hu Ho.
  pose proof order_table as H. rewrite forallb_forall in H.
  specialize (H a (all_vclasses_complete a)). rewrite forallb_forall in H.
  specialize (H b (all_vclasses_complete b)). rewrite forallb_forall in H.
  specialize (H op (all_pyops_complete op)). unfold order_ok in H. rewrite Hu, Ho in H. cbn in H.
  destruct (richcmp op a b); congruence.
Qed.

(* == is False and != is True, by the identity fallback: no method of either class answers. *)
Theorem C14_eq : forall a b,
  unrelated a b = true -> richcmp OpEq a b = OFalse /\ richcmp OpNe a b = OTrue.
Proof.
  intros a b Hu.
  pose proof eq_table as H. rewrite forallb_forall in H.
  specialize (H a (all_vclasses_complete a)). rewrite forallb_forall in H.
  specialize (H b (all_vclasses_complete b)). unfold eq_ok in H. rewrite Hu in H.
  destruct (richcmp OpEq a b), (richcmp OpNe a b); try discriminate; auto.
Qed.

(* Containment: a version whose class is unrelated to the range's version class is
   refused with TypeError by a range and with ValueError by a constraint. *)
Definition contains_ok (r : rclass) (b : vclass) : bool :=
  match range_vclass r with
  | Some v =>
      if unrelated v b then
        match guard_range r b, guard_constraint r b with
        | GTypeError, GValueError => true
        | _, _ => false
        end
      else true
  | None => true
  end.

Lemma contains_table :
  forallb (fun r => forallb (contains_ok r) all_vclasses) all_rclasses = true.
Proof. vm_compute. reflexivity. Qed.

Theorem C14_contains : forall r v b,
  range_vclass r = Some v -> unrelated v b = true ->
  guard_range r b = GTypeError /\ guard_constraint r b = GValueError.
Proof.
  intros r v b Hr Hu.
  pose proof contains_table as H. rewrite forallb_forall in H.
  specialize (H r (all_rclasses_complete r)). rewrite forallb_forall in H.
  specialize (H b (all_vclasses_complete b)). unfold contains_ok in H. rewrite Hr, Hu in H.
  destruct (guard_range r b), (guard_constraint r b); try discriminate; auto.
Qed.

(* Non-vacuity: there are unrelated pairs, and related ones are really excluded. *)
Example C14_nonvacuous :
  unrelated V_DebianVersion V_RpmVersion = true /\
  unrelated V_NginxVersion V_GolangVersion = true /\
  unrelated V_AlpineLinuxVersion V_GentooVersion = false /\
  length (filter (fun p => unrelated (fst p) (snd p)) (list_prod all_vclasses all_vclasses)) >= 100.
Proof. vm_compute. repeat split; repeat constructor. Qed.

Print Assumptions C14_order.
Print Assumptions C14_eq.
Print Assumptions C14_contains.
