(* C03 — each scheme orders versions the way its ecosystem's reference algorithm does.

   Per scheme there is a reference procedure written from the published text or source of the ecosystem (coq/Ref)
   and, where a code-shaped model of the univers code exists (coq/Schemes), the theorem that the model computes the
   reference on every input of the stated domain.  The model is tied to /repo by the scheme correspondence; the
   references of the schemes without such a theorem (alpm: known finding; conan; pypi, whose model is the reference)
   are run against the implementation directly. *)
From Coq Require Import List Bool Arith Ascii String NArith ZArith.
From UV.Base Require Import Order Res.
From UV.Py Require Import PyStr.
From UV.Schemes Require Import Common Generic LegacyOpenssl Gentoo GentooProofs Debian DebianProofs Semver SemverProofs Rpm Gem GemProofs Openssl Maven Nuget NugetOrder NugetRef.
From UV.Ref Require Deb Semver Gentoo Openssl Rpm.
Import ListNotations.

(* deb: Debian Policy 5.6.12 (epoch, then upstream and revision by the modified-ASCII lexical / numeric alternation) *)
Theorem C03_deb_policy : forall a b, dok a = true -> dok b = true -> deb_compare a b = Ok (Deb.ref_deb a b).
Proof. exact Deb.deb_matches_policy. Qed.
(* the domain dok is what the validity check lets through: letters, digits, full stop, plus, tilde, hyphen *)
Theorem C03_deb_domain : forall c, deb_char c = true -> is_digit c || Deb.in_table c = true.
Proof. exact Deb.deb_char_ranked. Qed.

(* rpm: rpmvercmp() and rpmVersionCompare of rpm, for all versions *)
Theorem C03_rpm_rpmvercmp : forall a b, rpm_compare a b = Rpm.ref_rpm a b.
Proof. exact Rpm.rpm_matches_reference. Qed.

(* ebuild and alpine: PMS Algorithms 3.1 to 3.7 *)
Theorem C03_gentoo_pms : forall s1 s2, gok s1 = true -> gok s2 = true -> vercmp s1 s2 = Ok (Gentoo.ref_gentoo s1 s2).
Proof. exact Gentoo.gentoo_matches_pms. Qed.

(* the semver family: SemVer 2.0 section 11 as an inductive relation, ties broken by the build identifiers *)
Theorem C03_semver_precedence : forall a b,
  (semver_cmp a b = Lt <-> Semver.prec_lt a b \/ (~ Semver.prec_lt a b /\ ~ Semver.prec_lt b a /\ cmp_lex cmp_str (sv_build a) (sv_build b) = Lt)) /\
  (semver_cmp a b = Gt <-> Semver.prec_lt b a \/ (~ Semver.prec_lt a b /\ ~ Semver.prec_lt b a /\ cmp_lex cmp_str (sv_build a) (sv_build b) = Gt)).
Proof. exact Semver.semver_matches_reference. Qed.

(* pre-3.0 openssl: the OPENSSL_VERSION_NUMBER order on the lettered grammar *)
Theorem C03_legacy_openssl : forall a b, Openssl.in_grammar (l_patch a) = true -> Openssl.in_grammar (l_patch b) = true ->
  leg_cmp a b = Openssl.ref_legacy a b.
Proof. exact Openssl.legacy_matches_reference. Qed.

(* gem: Gem::Version of rubygems/version.rb, on the text the value is built from (all texts) *)
Theorem C03_gem : forall n1 n2, gem_cmp (gem_build n1) (gem_build n2) = UV.Ref.Gem.ref_gem n1 n2.
Proof. exact gem_matches_reference. Qed.

(* openssl: every pre-3.0 release before every 3.x release; within a kind the order of that kind (above) *)
Theorem C03_openssl_dispatch : forall x y,
  ossl_cmp (OLeg x) (OSem y) = Lt /\ ossl_cmp (OSem y) (OLeg x) = Gt /\
  (forall x', ossl_cmp (OLeg x) (OLeg x') = leg_cmp x x') /\ (forall y', ossl_cmp (OSem y) (OSem y') = semver_cmp y y').
Proof. intros x y. repeat split. Qed.

(* maven: maven.py is a port of ComparableVersion; its model is the transliteration of the Java (Ref/Maven.v) *)
Theorem C03_maven : forall n1 n2 a b, maven_ctor n1 = Ok a -> maven_ctor n2 = Ok b ->
  maven_cmp a b = UV.Ref.Maven.ref_maven (UV.Schemes.Generic.normalize n1) (UV.Schemes.Generic.normalize n2).
Proof. exact maven_matches_reference. Qed.

(* nuget: on the versions the constructor builds, the code's comparison is NuGet.Versioning's comparison of the four
   numbers and the release labels (the value ref_of v that NuGetVersion.Parse would produce: labels case-insensitively) *)
Theorem C03_nuget : forall s1 s2 a b, nuget_ctor s1 = Ok a -> nuget_ctor s2 = Ok b ->
  nuget_cmp a b = ref_value_cmp (ref_of a) (ref_of b).
Proof. exact nuget_code_matches_reference. Qed.
Theorem C03_nuget_reference_text : forall s1 s2 a b, UV.Ref.Nuget.nuget_parse s1 = Some a -> UV.Ref.Nuget.nuget_parse s2 = Some b ->
  UV.Ref.Nuget.ref_nuget s1 s2 = Some (ref_value_cmp a b).
Proof. exact ref_nuget_value. Qed.

(* non-vacuity: concrete versions meet the hypotheses *)
Example C03_domains_inhabited :
  (exists a b, deb_ctor (list_ascii_of_string "1:2.4.7-1ubuntu1~rc1") = Ok a /\ deb_ctor (list_ascii_of_string "2.4.7+dfsg-1A") = Ok b /\ dok a = true /\ dok b = true)
  /\ gok (list_ascii_of_string "1.02.3b_alpha1_p2-r3") = true
  /\ Openssl.in_grammar (list_ascii_of_string "zh") = true.
Proof.
  split; [|split]; [|vm_compute; reflexivity|vm_compute; reflexivity].
  eexists. eexists. split; [vm_compute; reflexivity|]. split; [vm_compute; reflexivity|]. split; vm_compute; reflexivity.
Qed.

Example C03_nuget_inhabited :
  exists a b, nuget_ctor (list_ascii_of_string "v1.0-Beta.2") = Ok a /\ nuget_ctor (list_ascii_of_string "1.0.0.0-beta.10+x") = Ok b /\
              nuget_cmp a b = Lt /\ UV.Ref.Nuget.ref_nuget (list_ascii_of_string "1.0-Beta.2") (list_ascii_of_string "1.0.0.0-beta.10+x") = Some Lt.
Proof. eexists. eexists. split; [vm_compute; reflexivity|]. split; [vm_compute; reflexivity|]. split; vm_compute; reflexivity. Qed.

Print Assumptions C03_deb_policy.
Print Assumptions C03_deb_domain.
Print Assumptions C03_rpm_rpmvercmp.
Print Assumptions C03_gentoo_pms.
Print Assumptions C03_semver_precedence.
Print Assumptions C03_legacy_openssl.
Print Assumptions C03_gem.
Print Assumptions C03_openssl_dispatch.
Print Assumptions C03_maven.
Print Assumptions C03_domains_inhabited.
Print Assumptions C03_nuget.
Print Assumptions C03_nuget_reference_text.
