(* C16 — parsing untrusted text succeeds or fails with a declared error, and terminates.

   In the models every partial Python step (indexing, int(), dict lookup, attribute of None,
   comparing None) returns an explicit `Err EIndex / EValue / EKey / EAttr / EType`, so
   "only declared errors" is a real statement about missing guards.  Proved:
     - VersionRange.from_string (any flags) on ANY string returns a range or an error that is
       ValueError or InvalidVersion, provided the scheme's constructor only fails with
       InvalidVersion;
     - the modelled constructors (generic, ebuild, alpine, semver family, deb, legacy
       openssl) only fail with InvalidVersion: the int()/indexing steps behind their validity
       checks cannot fail (e.g. legacy openssl after the base-prefix test; deb's int(epoch)).
   Termination of the models is by construction (structural recursion or fuel bounded by the
   input length), which is also a polynomial step bound for the modelled parts.
   PARTIAL: wall-clock time, regex backtracking and the interpreter's recursion limit are
   runtime facts; harness/props/C16.py measures scaling on long repetitive inputs and
   classifies every exception of every public entry point. *)
From Coq Require Import List Bool Arith Ascii String.
From UV.Base Require Import Order Cop Res.
From UV.Gen Require Import Tables.
From UV.Py Require Import PyStr.
From UV.Vers Require Import Model VersText TotalityProofs.
From UV.Schemes Require Import Common Generic LegacyOpenssl Gentoo Debian Semver TotalityProofs.
From UV.Schemes Require Import Rpm Gem Arch Openssl TotalityProofs2 Pypi Maven Nuget Conan NugetConanProofs.
From UV.Schemes Require Import Registry RegistryTotality.
From UV.Native Require Import Advisory MavenRange Relations Nginx ParserTotality.
Import ListNotations.

Theorem C16_from_string_fails_only_with_declared_errors :
  forall (V : Type) (cmp : V -> V -> comparison), TPO cmp ->
  forall vctor : str -> res V, (forall t e, vctor t = Err e -> e = EInvalidVersion) ->
  forall (s : str) (fs fv : bool) (e : err),
    from_string V cmp vctor s fs fv = Err e -> e = EValue \/ e = EInvalidVersion.
Proof. exact from_string_declared. Qed.

Theorem C16_constructors_fail_only_with_InvalidVersion :
  (forall s e, gen_ctor s = Err e -> e = EInvalidVersion) /\
  (forall s e, gentoo_ctor s = Err e -> e = EInvalidVersion) /\
  (forall s e, alpine_ctor s = Err e -> e = EInvalidVersion) /\
  (forall s e, semver_ctor s = Err e -> e = EInvalidVersion) /\
  (forall s e, deb_ctor s = Err e -> e = EInvalidVersion) /\
  (forall s e, leg_ctor s = Err e -> e = EInvalidVersion).
Proof.
  repeat split.
  - exact gen_ctor_declared.
  - exact gentoo_ctor_declared.
  - exact alpine_ctor_declared.
  - exact semver_ctor_declared.
  - exact deb_ctor_declared.
  - exact leg_ctor_declared.
Qed.

Theorem C16_later_constructors_fail_only_with_InvalidVersion :
  (forall s e, rpm_ctor s = Err e -> e = EInvalidVersion) /\
  (forall s e, gem_ctor s = Err e -> e = EInvalidVersion) /\
  (forall s e, arch_ctor s = Err e -> e = EInvalidVersion) /\
  (forall s e, ossl_ctor s = Err e -> e = EInvalidVersion) /\
  (forall s e, pypi_ctor s = Err e -> e = EInvalidVersion) /\
  (forall s, exists v, maven_ctor s = Ok v) /\
  (forall s e, nuget_ctor s = Err e -> e = EInvalidVersion) /\
  (forall s, exists v, conan_ctor s = Ok v).
Proof. repeat split; [exact rpm_ctor_declared|exact gem_ctor_declared|exact arch_ctor_declared|exact ossl_ctor_declared|exact pypi_ctor_declared|exact maven_ctor_total|exact nuget_ctor_declared|exact conan_ctor_total]. Qed.

(* the same for the whole model registry at once (all 18 class names, the golang/composer constructor included):
   construction returns a version or fails with the invalid-version error *)
Theorem C16_every_registered_constructor_fails_only_with_InvalidVersion :
  forall name sch s e, find_scheme name = Some sch -> v_ctor sch s = Err e -> e = EInvalidVersion.
Proof. exact every_registered_ctor_declared. Qed.

(* the builders behind the validity checks cannot raise *)
Theorem C16_no_internal_error_behind_the_validity_checks :
  (forall s, exists o, leg_parse s = Ok o) /\ (forall s e, coerce s = Err e -> e = EValue).
Proof. split; [exact leg_parse_total|exact coerce_declared]. Qed.

(* the modelled native parsers: a value, a ValueError, or the error of the version constructor; the fuel of the
   bracket-notation loop (the length of the text) is never exhausted *)
Theorem C16_native_parser_models_fail_only_with_declared_errors :
  (forall (mcmp : str -> str -> comparison) (V : Type) (mk : str -> res V) (P : err -> Prop),
     (forall t e, mk t = Err e -> P e) -> forall s e, maven_native mcmp V mk s = Err e -> e = EValue \/ P e) /\
  (forall (V : Type) (vctor : str -> res V) (T : ctable) (strip s : str) (e : err),
     relation_constraint V vctor T strip s = Err e -> e = EValue \/ exists t, vctor t = Err e) /\
  (forall s e, nginx_native s = Err e -> e = EInvalidVersion).
Proof.
  split; [|split].
  - intros mcmp V mk P Hmk s e. apply (maven_native_declared mcmp V mk P Hmk).
  - exact relation_declared.
  - exact nginx_native_declared.
Qed.

Print Assumptions C16_from_string_fails_only_with_declared_errors.
Print Assumptions C16_constructors_fail_only_with_InvalidVersion.
Print Assumptions C16_later_constructors_fail_only_with_InvalidVersion.
Print Assumptions C16_no_internal_error_behind_the_validity_checks.
Print Assumptions C16_native_parser_models_fail_only_with_declared_errors.
Print Assumptions C16_every_registered_constructor_fails_only_with_InvalidVersion.
