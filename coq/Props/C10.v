(* C10 — ranges built from explicit version sets contain exactly what they should.

   `normalize` / `from_versions` are the code-shaped models of VersionRange.normalize()
   and VersionRange.from_versions().  Proved so far (for every version type with a total
   preorder, every range and every list of known versions):
     - the result depends on the range only through its membership answers on the known
       versions (so two ranges that agree on them give the same result);
     - no member gives the empty range;
     - every emitted segment is one exact known version or one closed interval between two
       known versions;
     - from_versions contains exactly the versions equal to a listed one.
   The remaining clauses of the property (the result validates, contains a known version
   exactly when the original did, is independent of order and duplication of the list) are
   stated below as C10_full_statement; they are not yet proved in Coq and are decided on the
   implementation by the exhaustive small-scope check of harness/props/C10.py. *)
From Coq Require Import List Bool ZArith Permutation.
From UV.Base Require Import Order Cop Res.
From UV.Gen Require Import Tables.
From UV.Vers Require Import Model Spec ContainsProofs SortProofs ValidateProofs NormalizeProofs.
Import ListNotations.

Definition C10_full_statement : Prop :=
  forall (V : Type) (cmp : V -> V -> comparison), TPO cmp ->
  forall (cs : list (constr V)) (known known' : list V),
    wf_sorted V cmp cs = true ->
    exists ns, normalize V cmp cs known = Ok ns /\
               validate V cmp ns = Ok true /\
               (forall v, In v known -> contains V cmp ns v = contains V cmp cs v) /\
               ((forall v, In v known <-> In v known') -> normalize V cmp cs known' = Ok ns).

Theorem C10_partial_depends_only_on_membership_of_known :
  forall (V : Type) (cmp : V -> V -> comparison) (cs cs' : list (constr V)) (known : list V),
    (forall v, In v known -> contains V cmp cs v = contains V cmp cs' v) ->
    normalize V cmp cs known = normalize V cmp cs' known.
Proof. exact normalize_extensional. Qed.

Theorem C10_partial_no_member_gives_empty_range :
  forall (V : Type) (cmp : V -> V -> comparison) (cs : list (constr V)) (known : list V),
    (forall v, In v known -> contains V cmp cs v = Ok false) -> normalize V cmp cs known = Ok [].
Proof. exact normalize_empty. Qed.

Theorem C10_partial_segment_is_exact_or_closed_interval_of_known_versions :
  forall (V : Type) (cmp : V -> V -> comparison) (seg : list V),
    seg_constraints V cmp seg = [] \/
    (exists x, seg_constraints V cmp seg = [C EQ x] /\ In x seg) \/
    (exists lo hi, seg_constraints V cmp seg = [C GE lo; C LE hi] /\ In lo seg /\ In hi seg).
Proof. exact segment_shape. Qed.

Theorem C10_from_versions_contains_exactly_the_listed :
  forall (V : Type) (cmp : V -> V -> comparison) (l : list V) (v : V),
    exists s, from_versions V cmp l = Ok s /\ Permutation (map (C EQ) l) s /\
              contains V cmp s v = Ok (existsb (fun x => eqb V cmp v x) l).
Proof. exact from_versions_contains. Qed.

Example C10_nonvacuous :
  normalize Z Z.compare [C GE 2; C LT 6; C EQ 9]%Z [7; 3; 1; 9; 2; 5; 3; 6]%Z = Ok [C GE 2; C LE 5; C EQ 9]%Z /\
  normalize Z Z.compare [C GE 2; C LT 6]%Z [7; 1; 9]%Z = Ok [] /\
  from_versions Z Z.compare [3; 1; 3]%Z = Ok [C EQ 1; C EQ 3; C EQ 3]%Z.
Proof. vm_compute. repeat split. Qed.

Print Assumptions C10_partial_depends_only_on_membership_of_known.
Print Assumptions C10_partial_no_member_gives_empty_range.
Print Assumptions C10_partial_segment_is_exact_or_closed_interval_of_known_versions.
Print Assumptions C10_from_versions_contains_exactly_the_listed.
