(* C10 — ranges built from explicit version sets contain exactly what they should.

   `normalize` / `from_versions` are the code-shaped models of VersionRange.normalize() and VersionRange.from_versions().
   Proved for every version type with a total preorder, every well-formed range and every list of known versions
   (any order, with duplicates):
     - the result validates (it is the conversion of a flat expression whose alternatives are the maximal runs of
       contiguous members of the sorted list: Native/NormalizeFull.v, through the theorems of C06);
     - it contains a known version exactly when the original did, and never raises;
     - it is empty when no known version is a member;
     - every emitted segment is one exact known version or one closed interval between two known versions;
     - it depends on the range only through its membership answers on the known versions;
     - it does not depend on the order or the duplication of the list: two lists with the same elements give ranges
       that contain the same versions (equal up to the spelling of equal versions);
     - from_versions contains exactly the versions equal to a listed one. *)
From Coq Require Import List Bool ZArith Permutation.
From UV.Base Require Import Order Cop Res.
From UV.Gen Require Import Tables.
From UV.Vers Require Import Model Spec ContainsProofs SortProofs ValidateProofs NormalizeProofs.
From UV.Native Require Import NormalizeFull.
Import ListNotations.

Theorem C10_result_validates :
  forall (V : Type) (cmp : V -> V -> comparison), TPO cmp ->
  forall (cs : list (constr V)), wf_sorted V cmp cs = true ->
  forall (known : list V), exists ns, normalize V cmp cs known = Ok ns /\ validate V cmp ns = Ok true.
Proof. exact normalize_validates. Qed.

Theorem C10_contains_a_known_version_iff_the_original_did :
  forall (V : Type) (cmp : V -> V -> comparison), TPO cmp ->
  forall (cs : list (constr V)), wf_sorted V cmp cs = true ->
  forall (known : list V) (v : V), In v known ->
    exists ns, normalize V cmp cs known = Ok ns /\ contains V cmp ns v = contains V cmp cs v.
Proof. exact normalize_membership. Qed.

Theorem C10_independent_of_order_and_duplication :
  forall (V : Type) (cmp : V -> V -> comparison), TPO cmp ->
  forall (cs : list (constr V)), wf_sorted V cmp cs = true ->
  forall (known known' : list V), (forall x, In x known <-> In x known') ->
    exists ns ns', normalize V cmp cs known = Ok ns /\ normalize V cmp cs known' = Ok ns' /\
                   forall v, contains V cmp ns v = contains V cmp ns' v.
Proof. exact normalize_order_independent. Qed.

Theorem C10_partial_depends_only_on_membership_of_known :
  forall (V : Type) (cmp : V -> V -> comparison) (cs cs' : list (constr V)) (known : list V),
    (forall v, In v known -> contains V cmp cs v = contains V cmp cs' v) ->
    normalize V cmp cs known = normalize V cmp cs' known.
Proof. exact normalize_extensional. Qed.

Theorem C10_partial_no_member_gives_empty_range :
  forall (V : Type) (cmp : V -> V -> comparison) (cs : list (constr V)) (known : list V),
    (forall v, In v known -> contains V cmp cs v = Ok false) -> normalize V cmp cs known = Ok [].
Proof. exact normalize_empty. Qed.

Theorem C10_partial_segment_is_exact_or_closed_interval_of_known_versions :
  forall (V : Type) (cmp : V -> V -> comparison) (seg : list V),
    seg_constraints V cmp seg = [] \/
    (exists x, seg_constraints V cmp seg = [C EQ x] /\ In x seg) \/
    (exists lo hi, seg_constraints V cmp seg = [C GE lo; C LE hi] /\ In lo seg /\ In hi seg).
Proof. exact segment_shape. Qed.

Theorem C10_from_versions_contains_exactly_the_listed :
  forall (V : Type) (cmp : V -> V -> comparison) (l : list V) (v : V),
    exists s, from_versions V cmp l = Ok s /\ Permutation (map (C EQ) l) s /\
              contains V cmp s v = Ok (existsb (fun x => eqb V cmp v x) l).
Proof. exact from_versions_contains. Qed.

Example C10_nonvacuous :
  normalize Z Z.compare [C GE 2; C LT 6; C EQ 9]%Z [7; 3; 1; 9; 2; 5; 3; 6]%Z = Ok [C GE 2; C LE 5; C EQ 9]%Z /\
  normalize Z Z.compare [C GE 2; C LT 6]%Z [7; 1; 9]%Z = Ok [] /\
  from_versions Z Z.compare [3; 1; 3]%Z = Ok [C EQ 1; C EQ 3; C EQ 3]%Z.
Proof. vm_compute. repeat split. Qed.

Print Assumptions C10_result_validates.
Print Assumptions C10_contains_a_known_version_iff_the_original_did.
Print Assumptions C10_independent_of_order_and_duplication.
Print Assumptions C10_partial_depends_only_on_membership_of_known.
Print Assumptions C10_partial_no_member_gives_empty_range.
Print Assumptions C10_partial_segment_is_exact_or_closed_interval_of_known_versions.
Print Assumptions C10_from_versions_contains_exactly_the_listed.
