(* C12 — versions, constraints, ranges: hashable, hash agrees with ==, never mutated.

   Finite facts are re-proved on every run against the class tables regenerated from
   /repo: every version class is hashable (its __hash__ is not None) and frozen; the
   effective __eq__ and __hash__ of VersionConstraint and VersionRange are the attrs ones
   and hash exactly the fields that == compares, so they agree as soon as the fields do.
   Per scheme, the model of == implies equality of the model of the hashed key
   (generic, legacy openssl).  PARTIAL: "no public operation changes its arguments" is a
   property of the CPython heap that a functional model cannot express; the logic part is
   the frozen flags, the runtime part is monitored by harness/props/C12.py. *)
From Coq Require Import List Bool String.
From UV.Base Require Import Cop Res.
From UV.Gen Require Import Tables.
From UV.Py Require Import PyStr.
From UV.Schemes Require Import Common Generic LegacyOpenssl Semver SemverProofs Gem GemProofs Rpm RpmProofs Debian DebianProofs DebianHash Arch ArchProofs Openssl Pypi Gentoo GentooProofs GentooHash Nuget NugetOrder Conan NugetConanProofs.
Import ListNotations.

Lemma all_vclasses_complete c : In c all_vclasses.
Proof. destruct c; cbn; tauto. Qed.

Theorem C12_every_version_class_is_hashable_and_frozen :
  forall c : vclass, hashable c = true /\ frozen c = true.
Proof.
  intros c.
  assert (X : forallb (fun c => hashable c && frozen c) all_vclasses = true) by (vm_compute; reflexivity).
  rewrite forallb_forall in X. specialize (X c (all_vclasses_complete c)). apply andb_true_iff in X. exact X.
Qed.

(* attrs generates == over the eq fields and hash over the hash fields: they agree when the
   hashed fields are exactly the compared ones *)
Definition hash_fields_are_eq_fields (l : list (string * bool * bool)) : bool :=
  forallb (fun f => Bool.eqb (snd (fst f)) (snd f)) l && existsb (fun f => snd f) l.

Theorem C12_containers_hash_what_they_compare :
  hash_fields_are_eq_fields fields_Version = true /\
  hash_fields_are_eq_fields fields_VersionConstraint = true /\
  hash_fields_are_eq_fields fields_VersionRange = true /\
  origin_VersionConstraint_eq = "attrs"%string /\ origin_VersionConstraint_hash = "attrs"%string /\
  origin_VersionRange_eq = "attrs"%string /\ origin_VersionRange_hash = "attrs"%string.
Proof. repeat split; vm_compute; reflexivity. Qed.

Theorem C12_generic_equal_versions_hash_alike :
  forall a b, o_eq (gen_ops a b) = true -> gen_hashkey a = gen_hashkey b.
Proof. exact gen_eq_hash. Qed.

Theorem C12_legacy_openssl_equal_versions_hash_alike :
  forall a b, leg_eq a b = true -> leg_hashkey a = leg_hashkey b.
Proof. exact leg_eq_hash. Qed.

(* semver family: == compares exactly the five fields that are hashed *)
Theorem C12_semver_equal_versions_hash_alike :
  forall a b, semver_eq a b = true -> semver_hasheq a b = true.
Proof. exact semver_eq_hash. Qed.

(* gem: == and the hash both look at the canonical segments; == is exactly the equivalence of the order *)
Theorem C12_gem_equal_versions_hash_alike :
  forall a b, (gem_eq a b = true -> gem_hasheq a b = true) /\ (gem_eq a b = true <-> gem_order a b = Eq).
Proof. intros a b. split; [apply gem_eq_hash|apply gem_eq_iff_order]. Qed.

(* rpm: versions that compare equal (1.0 and 1_0, 1.01 and 1.1) have the same segments, which is what is hashed *)
Theorem C12_rpm_equal_versions_hash_alike : forall a b, rpm_order a b = Eq -> rpm_hasheq a b = true.
Proof. exact rpm_eq_hash. Qed.

(* deb: versions that compare equal (1.0 and 1.00, 1.0-0 and 1.0) have the same epoch and the same parts *)
Theorem C12_deb_equal_versions_hash_alike :
  forall a b, dok a = true -> dok b = true -> deb_cmp a b = Eq -> deb_hasheq a b = true.
Proof. exact deb_eq_hash. Qed.

(* alpm: versions that compare equal (1.0 and 1_0, 1.0-1 and 1.0) have the same hash key (epoch and version groups) *)
Theorem C12_alpm_equal_versions_hash_alike : forall a b, arch_cmp a b = Eq -> arch_hasheq a b = true.
Proof. exact arch_eq_hash. Qed.

(* openssl: equal versions are of the same kind and hash alike *)
Theorem C12_openssl_equal_versions_hash_alike :
  forall a b, ossl_ok a = true -> ossl_ok b = true -> o_eq (ossl_ops a b) = true -> ossl_hasheq a b = true.
Proof. exact ossl_eq_hash. Qed.

(* pypi: == and the hash both come from the comparison key *)
Theorem C12_pypi_equal_versions_hash_alike : forall a b, o_eq (pypi_ops a b) = true -> pypi_hasheq a b = true.
Proof. exact pypi_eq_hash. Qed.

(* ebuild and alpine: versions that compare equal (1.0_p and 1.0_p0, 1.010 and 1.01, 01 and 1) have the same canonical key *)
Theorem C12_gentoo_alpine_equal_versions_hash_alike :
  forall a b, gok a = true -> gok b = true -> gentoo_cmp a b = Eq -> gentoo_hasheq a b = true.
Proof. exact gentoo_eq_hash. Qed.

(* nuget: equal versions (build metadata aside) have the same hashed tuple *)
Theorem C12_nuget_equal_versions_hash_alike :
  forall a b, nu_ok a = true -> nu_ok b = true -> nuget_eq a b = true -> nuget_hasheq a b = true.
Proof. exact nuget_eq_hash. Qed.

(* conan: == and the hash both use the significant items, the pre-release and the build *)
Theorem C12_conan_equal_versions_hash_alike : forall a b, o_eq (conan_ops a b) = true -> conan_hasheq a b = true.
Proof. exact conan_eq_hash. Qed.

Print Assumptions C12_every_version_class_is_hashable_and_frozen.
Print Assumptions C12_containers_hash_what_they_compare.
Print Assumptions C12_generic_equal_versions_hash_alike.
Print Assumptions C12_legacy_openssl_equal_versions_hash_alike.
Print Assumptions C12_semver_equal_versions_hash_alike.
Print Assumptions C12_gem_equal_versions_hash_alike.
Print Assumptions C12_rpm_equal_versions_hash_alike.
Print Assumptions C12_deb_equal_versions_hash_alike.
Print Assumptions C12_alpm_equal_versions_hash_alike.
Print Assumptions C12_openssl_equal_versions_hash_alike.
Print Assumptions C12_pypi_equal_versions_hash_alike.
Print Assumptions C12_gentoo_alpine_equal_versions_hash_alike.
Print Assumptions C12_nuget_equal_versions_hash_alike.
Print Assumptions C12_conan_equal_versions_hash_alike.
