(* C11 — version text round-trips and the validity predicate matches the constructor.

   Per modelled scheme the constructor is `normalize; is_valid; build_value` as in
   Version.__attrs_post_init__; `valid` and `ctor` are the two code paths.  Proved so far:
   validity check and constructor agree and a failed construction is the invalid-version
   error (generic, legacy openssl, ebuild, alpine, deb: their validity check cannot raise);
   the print/re-construct round trip for the generic scheme and for every scheme whose value
   is the normalized text (ebuild, alpine: printing is the identity and normalisation is
   idempotent).  Round trips of the structured printers (deb, legacy openssl) are covered by
   the correspondence check only. *)
From Coq Require Import List Bool Ascii String.
From UV.Base Require Import Res.
From UV.Py Require Import PyStr.
From UV.Schemes Require Import Common Generic LegacyOpenssl Gentoo Debian.
From UV.Schemes Require Import Rpm Gem Arch Openssl RoundTrips Semver Pypi Maven Nuget Conan RoundTrips2 RoundTrips3 LegacyRoundTrip OpensslRoundTrip Registry WhitespaceInv SemverRoundTrip NugetRoundTrip DebianRoundTrip RpmRoundTrip.
From Coq Require Import ZArith.
Import ListNotations.

Theorem C11_generic :
  forall s, (gen_valid (normalize s) = true <-> exists v, gen_ctor s = Ok v) /\
            (forall e, gen_ctor s = Err e -> e = EInvalidVersion) /\
            (forall v, gen_ctor s = Ok v -> gen_ctor (gen_str v) = Ok v).
Proof. intros s. split; [apply gen_valid_iff_ctor|]. split; [apply gen_ctor_error|apply gen_roundtrip]. Qed.

(* normalisation is idempotent: a version whose value is its normalized text re-constructs to itself *)
Lemma normalize_idem s : normalize (normalize s) = normalize s.
Proof.
  unfold normalize.
  assert (H : remove_spaces (lstrip_set vV (remove_spaces s)) = lstrip_set vV (remove_spaces s))
    by (apply remove_spaces_none; apply lstrip_subset; apply remove_spaces_clean).
  rewrite H. apply lstrip_idem.
Qed.

Theorem C11_gentoo :
  forall s, (gentoo_is_valid (normalize s) = true <-> exists v, gentoo_ctor s = Ok v) /\
            (forall e, gentoo_ctor s = Err e -> e = EInvalidVersion) /\
            (forall v, gentoo_ctor s = Ok v -> gentoo_ctor (gen_str v) = Ok v).
Proof.
  intros s. unfold gentoo_ctor, gen_str. destruct (gentoo_is_valid (normalize s)) eqn:E.
  - split; [split; intros; eauto|]. split; [intros e H; discriminate|].
    intros v H. inversion H; subst. rewrite normalize_idem, E. reflexivity.
  - split; [split; [discriminate|intros [v H]; discriminate]|]. split; [intros e H; inversion H; reflexivity|intros v H; discriminate].
Qed.

Theorem C11_alpine :
  forall s, (alpine_valid (normalize s) = true <-> exists v, alpine_ctor s = Ok v) /\
            (forall e, alpine_ctor s = Err e -> e = EInvalidVersion) /\
            (forall v, alpine_ctor s = Ok v -> alpine_ctor (gen_str v) = Ok v).
Proof.
  intros s. unfold alpine_ctor, gen_str. destruct (alpine_valid (normalize s)) eqn:E.
  - split; [split; intros; eauto|]. split; [intros e H; discriminate|].
    intros v H. inversion H; subst. rewrite normalize_idem, E. reflexivity.
  - split; [split; [discriminate|intros [v H]; discriminate]|]. split; [intros e H; inversion H; reflexivity|intros v H; discriminate].
Qed.

Theorem C11_legacy_openssl_validity_matches_constructor :
  forall s, leg_valid (normalize s) = Ok true <-> exists v, leg_ctor s = Ok v.
Proof. exact leg_valid_iff_ctor. Qed.

Theorem C11_deb_validity_matches_constructor :
  forall s, (deb_is_valid (normalize s) = false -> deb_ctor s = Err EInvalidVersion) /\
            (deb_is_valid (normalize s) = true -> deb_ctor s = deb_build (normalize s)).
Proof. intros s. unfold deb_ctor. destruct (deb_is_valid (normalize s)); split; intros; congruence. Qed.

Theorem C11_gem : forall s,
  (gem_valid (normalize s) = true <-> exists v, gem_ctor s = Ok v) /\ (forall v, gem_ctor s = Ok v -> gem_ctor (gem_str v) = Ok v).
Proof. intros s. split; [apply gem_valid_iff_ctor|apply gem_roundtrip]. Qed.
Theorem C11_alpm : forall s,
  (arch_valid (normalize s) = true <-> exists v, arch_ctor s = Ok v) /\ (forall v, arch_ctor s = Ok v -> arch_ctor (gen_str v) = Ok v).
Proof. intros s. split; [apply arch_valid_iff_ctor|apply arch_roundtrip]. Qed.
Theorem C11_rpm_and_openssl_validity_matches_constructor : forall s,
  (rpm_valid (normalize s) = Ok true <-> exists v, rpm_ctor s = Ok v) /\ (ossl_valid (normalize s) = Ok true <-> exists v, ossl_ctor s = Ok v).
Proof. intros s. split; [apply rpm_valid_iff_ctor|apply ossl_valid_iff_ctor]. Qed.

Theorem C11_remaining_classes_validity_matches_constructor : forall s,
  (semver_valid (normalize s) = true <-> exists v, semver_ctor s = Ok v) /\
  (golang_valid (normalize s) = true <-> exists v, golang_ctor s = Ok v) /\
  (pypi_valid (normalize s) = true <-> exists v, pypi_ctor s = Ok v) /\
  (nuget_valid (normalize s) = Ok true <-> exists v, nuget_ctor s = Ok v) /\
  (maven_valid (normalize s) = true /\ exists v, maven_ctor s = Ok v) /\
  (conan_valid (normalize s) = true /\ exists v, conan_ctor s = Ok v).
Proof.
  intros s. split; [apply semver_valid_iff_ctor|]. split; [apply golang_valid_iff_ctor|]. split; [apply pypi_valid_iff_ctor|].
  split; [apply nuget_valid_iff_ctor|]. apply maven_conan_accept_everything.
Qed.

(* semver family: the printed form of a constructed version constructs the same version again *)
Theorem C11_semver_family_roundtrip : forall s v,
  (semver_ctor s = Ok v -> semver_ctor (semver_str v) = Ok v) /\ (golang_ctor s = Ok v -> golang_ctor (semver_str v) = Ok v).
Proof. intros s v. split; [apply semver_ctor_roundtrip|apply golang_ctor_roundtrip]. Qed.
Example C11_semver_roundtrip_inhabited :
  exists v, semver_ctor (list_ascii_of_string " v1.2-rc.1+b_7") = Ok v /\ semver_str v = list_ascii_of_string "1.2.0-rc.1+b-7".
Proof. eexists. split; vm_compute; reflexivity. Qed.

(* nuget: the printed form of a constructed version constructs the same version again *)
Theorem C11_nuget_roundtrip : forall s v, nuget_ctor s = Ok v -> nuget_ctor (nuget_str v) = Ok v.
Proof. exact nuget_ctor_roundtrip. Qed.
Example C11_nuget_roundtrip_inhabited :
  exists v, nuget_ctor (list_ascii_of_string " v1.02.3.4-RC.1+Build") = Ok v /\ nuget_str v = list_ascii_of_string "1.2.3.4-rc.1+Build".
Proof. eexists. split; vm_compute; reflexivity. Qed.

(* deb: the printed form of a constructed version constructs the same version again (zero or zero-padded epochs and an
   explicit "-0" revision print differently from how they were written, and read back as the same value) *)
Theorem C11_deb_roundtrip : forall s v, deb_ctor s = Ok v -> deb_ctor (deb_str v) = Ok v.
Proof. exact deb_ctor_roundtrip. Qed.
Example C11_deb_roundtrip_inhabited :
  exists v, deb_ctor (list_ascii_of_string " 00:1.2-3-0") = Ok v /\ deb_str v = list_ascii_of_string "1.2-3-0".
Proof. eexists. split; vm_compute; reflexivity. Qed.

(* rpm: the same, outside the one case of the listed finding (a zero epoch in front of a version that begins with "v"
   or "V"): the hypothesis is exactly the complement of that case, and the witness below is the finding *)
Theorem C11_rpm_roundtrip : forall s v, rpm_ctor s = Ok v ->
  (r_epoch v = 0%Z -> match r_version v with c :: _ => mem_c c vV = false | [] => True end) ->
  rpm_ctor (rpm_str v) = Ok v.
Proof. exact rpm_ctor_roundtrip. Qed.
Example C11_rpm_roundtrip_refuted_without_the_hypothesis :
  let s := list_ascii_of_string "0:v1.0" in
  let v := {| r_epoch := 0; r_version := list_ascii_of_string "v1.0"; r_release := [] |} in
  let w := {| r_epoch := 0; r_version := list_ascii_of_string "1.0"; r_release := [] |} in
  rpm_ctor s = Ok v /\ rpm_ctor (rpm_str v) = Ok w /\ v <> w.
Proof. split; [vm_compute; reflexivity|]. split; [vm_compute; reflexivity|discriminate]. Qed.

(* maven, conan: the two classes that keep the text they were built from: the printed form is the normalised input
   (whitespace removed, leading "v" stripped) and constructing from it gives the same value again *)
Theorem C11_maven_conan_roundtrip : forall s,
  (forall v, maven_ctor s = Ok v -> maven_str v = normalize s /\ maven_ctor (maven_str v) = Ok v) /\
  (forall v, conan_ctor s = Ok v -> conan_str v = normalize s /\ conan_ctor (conan_str v) = Ok v).
Proof. intros s. split; intros v; [apply maven_ctor_roundtrip|apply conan_ctor_roundtrip]. Qed.
Example C11_maven_conan_roundtrip_inhabited :
  (exists v, maven_ctor (list_ascii_of_string " v1.0-RC 1") = Ok v /\ maven_str v = list_ascii_of_string "1.0-RC1") /\
  (exists v, conan_ctor (list_ascii_of_string " V1.2-pre+b 1") = Ok v /\ conan_str v = list_ascii_of_string "1.2-pre+b1").
Proof. split; eexists; split; vm_compute; reflexivity. Qed.

(* legacy openssl: the printed form (three numbers and the patch) of a constructed version constructs the same version
   again; rests on the known-base test parse makes on its result (a known base has a one-digit build) *)
Theorem C11_legacy_openssl_roundtrip : forall s v, leg_ctor s = Ok v -> leg_ctor (leg_str v) = Ok v.
Proof. exact leg_ctor_roundtrip. Qed.
Example C11_legacy_openssl_roundtrip_inhabited :
  exists v, leg_ctor (list_ascii_of_string " v1.0.2 -beta1") = Ok v /\ leg_str v = list_ascii_of_string "1.0.2-beta1".
Proof. eexists. split; vm_compute; reflexivity. Qed.

(* openssl (the dispatch class): the printed form of a constructed version constructs the same version again, for both
   halves: a wrapped legacy value prints to a text the legacy parser reads back; a wrapped semver value (major >= 3)
   prints to a text that is_valid_new accepts and of which no known base is a prefix *)
Theorem C11_openssl_roundtrip : forall s v, ossl_ctor s = Ok v -> ossl_ctor (ossl_str v) = Ok v.
Proof. exact ossl_ctor_roundtrip. Qed.
Example C11_openssl_roundtrip_inhabited :
  exists x, ossl_ctor (list_ascii_of_string " v1.1.1 k") = Ok (OLeg x) /\ ossl_str (OLeg x) = list_ascii_of_string "1.1.1k".
Proof. eexists. split; vm_compute; reflexivity. Qed.
Example C11_openssl_roundtrip_inhabited_3x :
  exists x, ossl_ctor (list_ascii_of_string " v3.1 -beta.1") = Ok (OSem x) /\ ossl_str (OSem x) = list_ascii_of_string "3.1.0-beta.1".
Proof. eexists. split; vm_compute; reflexivity. Qed.

(* "every string that follows the scheme's documented version grammar is accepted", for two grammars that the models
   state in full.  SemVer 2.0: three numbers, then optionally "-" and dot-separated identifiers of letters, digits and
   hyphens (non-empty, numeric ones without a leading zero), then optionally "+" and dot-separated identifiers
   (non-empty): `WF` says exactly that of the identifier lists, `semver_str` writes the text.  Legacy openssl: a known
   base followed by nothing or by a patch that has no dot, no space and does not start with a digit. *)
Theorem C11_documented_grammar_is_accepted :
  (forall v, WF v -> semver_valid (normalize (semver_str v)) = true /\ semver_ctor (semver_str v) = Ok v) /\
  (forall v, known_base v = true -> mem_c LegacyOpenssl.c_dot (l_patch v) = false -> nospace (l_patch v) = true ->
             match l_patch v with [] => True | p0 :: _ => is_digit p0 = false end ->
             leg_valid (normalize (leg_str v)) = Ok true /\ leg_ctor (leg_str v) = Ok v).
Proof.
  split.
  - intros v W. unfold semver_valid, semver_ctor. rewrite (printed_normal v W), (semver_print_parse v W). split; reflexivity.
  - intros v Hk Hd Hs Hp. pose proof (leg_print_parse v Hk Hd Hs Hp) as R. split; [|exact R].
    apply leg_valid_iff_ctor. exists v. exact R.
Qed.

(* "surrounding or embedded whitespace and a leading 'v' do not change the version obtained": for every class of the
   model registry (all 18 names), a text with whitespace inserted anywhere, or with one more leading v or V, constructs
   exactly what the plain text constructs (the same value or the same error) *)
Theorem C11_whitespace_and_leading_v_do_not_matter : forall name sch, find_scheme name = Some sch ->
  (forall a b, ws_variant a b -> v_ctor sch b = v_ctor sch a) /\
  (forall c a, mem_c c vV = true -> v_ctor sch (c :: a) = v_ctor sch a).
Proof. exact ctor_ignores_whitespace_and_leading_v. Qed.
Example C11_whitespace_inhabited :
  exists sch, find_scheme "DebianVersion"%string = Some sch /\
    ws_variant (list_ascii_of_string "1:2-3") (list_ascii_of_string " 1:2 -3") /\
    x_ctor sch (list_ascii_of_string " v1:2 -3") = Ok (list_ascii_of_string "1:2-3", true).
Proof.
  eexists. split; [reflexivity|]. split; [|vm_compute; reflexivity].
  cbn [list_ascii_of_string]. apply wv_ins; [reflexivity|]. repeat (first [apply wv_nil | apply wv_keep | (apply wv_ins; [reflexivity|])]).
Qed.

Print Assumptions C11_generic.
Print Assumptions C11_gentoo.
Print Assumptions C11_alpine.
Print Assumptions C11_legacy_openssl_validity_matches_constructor.
Print Assumptions C11_deb_validity_matches_constructor.
Print Assumptions C11_gem.
Print Assumptions C11_alpm.
Print Assumptions C11_rpm_and_openssl_validity_matches_constructor.
Print Assumptions C11_remaining_classes_validity_matches_constructor.
Print Assumptions C11_semver_family_roundtrip.
Print Assumptions C11_nuget_roundtrip.
Print Assumptions C11_deb_roundtrip.
Print Assumptions C11_rpm_roundtrip.
Print Assumptions C11_maven_conan_roundtrip.
Print Assumptions C11_legacy_openssl_roundtrip.
Print Assumptions C11_openssl_roundtrip.
Print Assumptions C11_rpm_roundtrip_refuted_without_the_hypothesis.
Print Assumptions C11_documented_grammar_is_accepted.
Print Assumptions C11_whitespace_and_leading_v_do_not_matter.
