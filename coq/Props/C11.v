(* C11 — version text round-trips and the validity predicate matches the constructor.

   Per modelled scheme the constructor is `normalize; is_valid; build_value` as in
   Version.__attrs_post_init__; `valid` and `ctor` are the two code paths.  Proved so far:
   validity check and constructor agree and a failed construction is the invalid-version
   error (generic, legacy openssl, ebuild, alpine, deb: their validity check cannot raise);
   the print/re-construct round trip for the generic scheme and for every scheme whose value
   is the normalized text (ebuild, alpine: printing is the identity and normalisation is
   idempotent).  Round trips of the structured printers (deb, legacy openssl) are covered by
   the correspondence check only. *)
From Coq Require Import List Bool Ascii String.
From UV.Base Require Import Res.
From UV.Py Require Import PyStr.
From UV.Schemes Require Import Common Generic LegacyOpenssl Gentoo Debian.
From UV.Schemes Require Import Rpm Gem Arch Openssl RoundTrips.
Import ListNotations.

Theorem C11_generic :
  forall s, (gen_valid (normalize s) = true <-> exists v, gen_ctor s = Ok v) /\
            (forall e, gen_ctor s = Err e -> e = EInvalidVersion) /\
            (forall v, gen_ctor s = Ok v -> gen_ctor (gen_str v) = Ok v).
Proof. intros s. split; [apply gen_valid_iff_ctor|]. split; [apply gen_ctor_error|apply gen_roundtrip]. Qed.

(* normalisation is idempotent: a version whose value is its normalized text re-constructs to itself *)
Lemma normalize_idem s : normalize (normalize s) = normalize s.
Proof.
  unfold normalize.
  assert (H : remove_spaces (lstrip_set vV (remove_spaces s)) = lstrip_set vV (remove_spaces s))
    by (apply remove_spaces_none; apply lstrip_subset; apply remove_spaces_clean).
  rewrite H. apply lstrip_idem.
Qed.

Theorem C11_gentoo :
  forall s, (gentoo_is_valid (normalize s) = true <-> exists v, gentoo_ctor s = Ok v) /\
            (forall e, gentoo_ctor s = Err e -> e = EInvalidVersion) /\
            (forall v, gentoo_ctor s = Ok v -> gentoo_ctor (gen_str v) = Ok v).
Proof.
  intros s. unfold gentoo_ctor, gen_str. destruct (gentoo_is_valid (normalize s)) eqn:E.
  - split; [split; intros; eauto|]. split; [intros e H; discriminate|].
    intros v H. inversion H; subst. rewrite normalize_idem, E. reflexivity.
  - split; [split; [discriminate|intros [v H]; discriminate]|]. split; [intros e H; inversion H; reflexivity|intros v H; discriminate].
Qed.

Theorem C11_alpine :
  forall s, (alpine_valid (normalize s) = true <-> exists v, alpine_ctor s = Ok v) /\
            (forall e, alpine_ctor s = Err e -> e = EInvalidVersion) /\
            (forall v, alpine_ctor s = Ok v -> alpine_ctor (gen_str v) = Ok v).
Proof.
  intros s. unfold alpine_ctor, gen_str. destruct (alpine_valid (normalize s)) eqn:E.
  - split; [split; intros; eauto|]. split; [intros e H; discriminate|].
    intros v H. inversion H; subst. rewrite normalize_idem, E. reflexivity.
  - split; [split; [discriminate|intros [v H]; discriminate]|]. split; [intros e H; inversion H; reflexivity|intros v H; discriminate].
Qed.

Theorem C11_legacy_openssl_validity_matches_constructor :
  forall s, leg_valid (normalize s) = Ok true <-> exists v, leg_ctor s = Ok v.
Proof. exact leg_valid_iff_ctor. Qed.

Theorem C11_deb_validity_matches_constructor :
  forall s, (deb_is_valid (normalize s) = false -> deb_ctor s = Err EInvalidVersion) /\
            (deb_is_valid (normalize s) = true -> deb_ctor s = deb_build (normalize s)).
Proof. intros s. unfold deb_ctor. destruct (deb_is_valid (normalize s)); split; intros; congruence. Qed.

Theorem C11_gem : forall s,
  (gem_valid (normalize s) = true <-> exists v, gem_ctor s = Ok v) /\ (forall v, gem_ctor s = Ok v -> gem_ctor (gem_str v) = Ok v).
Proof. intros s. split; [apply gem_valid_iff_ctor|apply gem_roundtrip]. Qed.
Theorem C11_alpm : forall s,
  (arch_valid (normalize s) = true <-> exists v, arch_ctor s = Ok v) /\ (forall v, arch_ctor s = Ok v -> arch_ctor (gen_str v) = Ok v).
Proof. intros s. split; [apply arch_valid_iff_ctor|apply arch_roundtrip]. Qed.
Theorem C11_rpm_and_openssl_validity_matches_constructor : forall s,
  (rpm_valid (normalize s) = Ok true <-> exists v, rpm_ctor s = Ok v) /\ (ossl_valid (normalize s) = Ok true <-> exists v, ossl_ctor s = Ok v).
Proof. intros s. split; [apply rpm_valid_iff_ctor|apply ossl_valid_iff_ctor]. Qed.

Print Assumptions C11_generic.
Print Assumptions C11_gentoo.
Print Assumptions C11_alpine.
Print Assumptions C11_legacy_openssl_validity_matches_constructor.
Print Assumptions C11_deb_validity_matches_constructor.
Print Assumptions C11_gem.
Print Assumptions C11_alpm.
Print Assumptions C11_rpm_and_openssl_validity_matches_constructor.
