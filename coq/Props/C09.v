(* C09 — inverting a range yields its complement, and inverting twice yields the original.

   `invert` is the code-shaped model of VersionRange.invert() (constraint inversion
   through the INVERTED_COMPARATORS table, transcribed from /repo on every run by
   executing VersionConstraint.invert() on every comparator, then the constructor's
   sort).  `nonvacuous` is the property's side condition.  The empty constraint list
   is not a vers range and is excluded (its inverse is empty too). *)
From Coq Require Import List Bool ZArith.
From UV.Base Require Import Order Cop Res.
From UV.Gen Require Import Tables.
From UV.Vers Require Import Model Spec ContainsProofs SortProofs ValidateProofs Cuts InvertProofs.
Import ListNotations.

(* inverting a single constraint flips membership for every version *)
Theorem C09_single_constraint_flips :
  forall (V : Type) (cmp : V -> V -> comparison) (o : cop) (x v : V),
    in1 V cmp (C (invert_table o) x) v = negb (in1 V cmp (C o x) v).
Proof. exact invert_single_flips. Qed.

(* the everything range has no inverse *)
Theorem C09_star_has_no_inverse :
  forall (V : Type) (cmp : V -> V -> comparison),
    invert V cmp [Star] = None /\ invert_c V Star = None /\ invert_star_is_none = true.
Proof. intros. repeat split. Qed.

(* the inverse of a well-formed, non-vacuous, non-empty range is well-formed and is its complement:
   both at the level of the denotation and of what the membership test answers *)
Theorem C09_inverse_is_complement :
  forall (V : Type) (cmp : V -> V -> comparison), TPO cmp ->
  forall cs : list (constr V),
    cs <> [] -> no_star V cs = true -> wf_sorted V cmp cs = true -> nonvacuous V cmp cs = true ->
    exists ics, invert V cmp cs = Some (Ok ics) /\ wf_sorted V cmp ics = true /\
      forall v, den V cmp ics v = negb (den V cmp cs v) /\
                contains V cmp ics v = Ok (negb (den V cmp cs v)) /\
                contains V cmp cs v = Ok (den V cmp cs v).
Proof.
  intros V cmp T cs Hne Hn Hw Hv.
  destruct (incr_of_wf_sorted V cmp cs Hn Hw) as [I _].
  pose proof (incr_strong V cmp T cs I) as Hs.
  exists (map (inv V) cs). split; [apply invert_computes; assumption|].
  pose proof (inverse_wf V cmp T cs Hn Hw Hv) as Hwi.
  split; [exact Hwi|]. intros v.
  pose proof (den_inverse V cmp T cs v Hne Hn Hw Hv) as D.
  split; [exact D|]. split.
  - rewrite (contains_sound V cmp T _ v Hwi), D. reflexivity.
  - apply (contains_sound V cmp T). exact Hw.
Qed.

(* inverting twice gives back the original (no side condition needed) *)
Theorem C09_invert_twice_is_identity :
  forall (V : Type) (cmp : V -> V -> comparison), TPO cmp ->
  forall cs : list (constr V), no_star V cs = true -> wf_sorted V cmp cs = true ->
    exists ics, invert V cmp cs = Some (Ok ics) /\ invert V cmp ics = Some (Ok cs).
Proof.
  intros V cmp T cs Hn Hw.
  destruct (incr_of_wf_sorted V cmp cs Hn Hw) as [I _].
  apply invert_twice; auto. apply incr_strong; assumption.
Qed.

(* Non-vacuity: the example range of C04 minus its vacuous parts; and why the side condition is needed *)
Definition ex_range : list (constr Z) := [C LE 2; C EQ 4; C GT 6; C NE 8; C LT 10; C EQ 12; C GE 14]%Z.
Example C09_nonvacuous :
  wf_sorted Z Z.compare ex_range = true /\ nonvacuous Z Z.compare ex_range = true /\
  invert Z Z.compare ex_range = Some (Ok [C GT 2; C NE 4; C LE 6; C EQ 8; C GE 10; C NE 12; C LT 14]%Z) /\
  (* a '!=' outside every interval is vacuous, and then the inverse is not even well-formed *)
  wf_sorted Z Z.compare [C NE 1; C GE 2]%Z = true /\ nonvacuous Z Z.compare [C NE 1; C GE 2]%Z = false /\
  wf_sorted Z Z.compare [C EQ 1; C LT 2]%Z = false.
Proof. vm_compute. repeat split. Qed.

Print Assumptions C09_single_constraint_flips.
Print Assumptions C09_star_has_no_inverse.
Print Assumptions C09_inverse_is_complement.
Print Assumptions C09_invert_twice_is_identity.
