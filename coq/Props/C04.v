(* C04 — range membership equals the interval-set meaning of the vers constraints.

   `contains` is the code-shaped model of contains_version()
   (Vers/Model.v, tied to /repo by the correspondence check and, for the
   comparator semantics, by the regenerated Gen/Tables.v); `den` is the
   denotation written from the property text (Vers/Spec.v); `wf_sorted` is the
   well-formedness predicate of C07 on a version-sorted list.  The statements
   hold for every version type with a total preorder `cmp` (C01/C02 of the
   scheme) and for constraint lists of any length. *)
From Coq Require Import List Bool ZArith.
From UV.Base Require Import Order Cop Res.
From UV.Gen Require Import Tables.
From UV.Vers Require Import Model Spec ContainsProofs.
Import ListNotations.

Theorem C04_membership_is_denotation :
  forall (V : Type) (cmp : V -> V -> comparison), TPO cmp ->
  forall (cs : list (constr V)) (v : V),
    wf_sorted V cmp cs = true -> contains V cmp cs v = Ok (den V cmp cs v).
Proof. exact contains_sound. Qed.

Theorem C04_never_raises_on_wellformed :
  forall (V : Type) (cmp : V -> V -> comparison), TPO cmp ->
  forall (cs : list (constr V)) (v : V),
    wf_sorted V cmp cs = true -> exists b, contains V cmp cs v = Ok b.
Proof. intros V cmp T cs v H. eexists. apply contains_sound; assumption. Qed.

Theorem C04_depends_only_on_comparisons :
  forall (V : Type) (cmp : V -> V -> comparison),
  forall (cs : list (constr V)) (v v' : V),
    (forall o x, In (C o x) cs -> cmp v x = cmp v' x) -> contains V cmp cs v = contains V cmp cs v'.
Proof. exact contains_ext. Qed.

(* Non-vacuity: a three-interval well-formed range with a != inside an interval and an = outside *)
Definition ex_range : list (constr Z) :=
  [C LE 2; C EQ 4; C NE 5; C GT 6; C NE 8; C LT 10; C EQ 12; C GE 14]%Z.
Example C04_nonvacuous :
  wf_sorted Z Z.compare ex_range = true /\
  map (den Z Z.compare ex_range) [1; 2; 3; 4; 5; 6; 7; 8; 9; 10; 11; 12; 13; 14; 15]%Z
  = [true; true; false; true; false; false; true; false; true; false; false; true; false; true; true] /\
  map (contains Z Z.compare ex_range) [1; 2; 3; 4; 5; 6; 7; 8; 9; 10; 11; 12; 13; 14; 15]%Z
  = map (fun v => Ok (den Z Z.compare ex_range v)) [1; 2; 3; 4; 5; 6; 7; 8; 9; 10; 11; 12; 13; 14; 15]%Z.
Proof. vm_compute. repeat split. Qed.

Print Assumptions C04_membership_is_denotation.
Print Assumptions C04_never_raises_on_wellformed.
Print Assumptions C04_depends_only_on_comparisons.
