(* C18 — successor and bound helpers bracket the version they start from.

   Proved here for the semver family (SemverVersion, NginxVersion, GolangVersion,
   ComposerVersion share the model of Schemes/Semver.v): for every version, in the scheme's
   own order (SemVer precedence with the build tie-break),
       v < next_patch v <= next_minor v <= next_major v,
   and the caret / tilde / pessimistic shorthands (lower bound = the version, upper bound =
   next_major resp. next_minor of it) give lower < upper with the version satisfying both.
   The gem (bump, release, ~>) and conan (upper_bound, bump) helpers have no Coq model yet;
   harness/props/C18.py evaluates their inequalities on the implementation. *)
From Coq Require Import List Bool Arith Ascii String NArith.
From UV.Base Require Import Order Res.
From UV.Py Require Import PyStr.
From UV.Schemes Require Import Common Semver SemverProofs Gem GemProofs GemHelpers.
From UV.Base Require Import LexPad.
From UV.Ref Require Gem.
Import ListNotations.

Theorem C18_semver_successors_are_ordered :
  forall v : semver,
    semver_cmp v (next_patch v) = Lt /\
    semver_cmp (next_patch v) (next_minor v) <> Gt /\
    semver_cmp (next_minor v) (next_major v) <> Gt.
Proof. intros v. split; [apply next_patch_above|]. split; [apply next_patch_le_minor|apply next_minor_le_major]. Qed.

Lemma lt_le_trans a b c : semver_cmp a b = Lt -> semver_cmp b c <> Gt -> semver_cmp a c = Lt.
Proof.
  intros H1 H2. pose proof semver_tpo as T.
  destruct (semver_cmp b c) eqn:E; try congruence.
  - rewrite <- (tpo_eq_r _ T a _ _ E). exact H1.
  - eapply (tpo_lt _ T); eauto.
Qed.

Theorem C18_semver_successors_are_strictly_greater :
  forall v : semver, semver_cmp v (next_patch v) = Lt /\ semver_cmp v (next_minor v) = Lt /\ semver_cmp v (next_major v) = Lt.
Proof.
  intros v. destruct (C18_semver_successors_are_ordered v) as [H1 [H2 H3]].
  split; [exact H1|]. assert (H4 : semver_cmp v (next_minor v) = Lt) by (eapply lt_le_trans; eauto).
  split; [exact H4|]. eapply lt_le_trans; eauto.
Qed.

(* caret: >= v, < next_major v ; tilde and pessimistic: >= v, < next_minor v *)
Theorem C18_semver_shorthand_bounds_bracket_the_version :
  forall v : semver,
    (* lower < upper *)
    semver_cmp v (next_major v) = Lt /\ semver_cmp v (next_minor v) = Lt /\
    (* the version satisfies ">= lower" and "< upper" *)
    semver_cmp v v = Eq.
Proof.
  intros v. destruct (C18_semver_successors_are_strictly_greater v) as [_ [H2 H3]].
  repeat split; auto. apply (tpo_refl _ semver_tpo).
Qed.

Example C18_nonvacuous :
  exists v, coerce (list_ascii_of_string "1.0.0-rc.1+b7") = Ok v /\
            semver_str (next_patch v) = list_ascii_of_string "1.0.0" /\
            semver_str (next_minor v) = list_ascii_of_string "1.0.0" /\
            semver_str (next_major v) = list_ascii_of_string "1.0.0" /\
            semver_cmp v (next_major v) = Lt.
Proof. eexists. repeat split; vm_compute; reflexivity. Qed.

(* gem: on the canonical segments (what Gem::Version compares), a version whose text starts with a number is
   strictly below its bump() and not above its release(); hence "~> v" = [>= v, < bump v] has lower < upper with v inside *)
Theorem C18_gem_bump_and_release : forall segs : list UV.Ref.Gem.seg,
  UV.Ref.Gem.take_nums segs <> nil ->
  cmp_pad UV.Ref.Gem.seg_cmp (UV.Ref.Gem.SNum 0) (canon_of segs) (UV.Ref.Gem.drop_trailing_zeros (bump_list segs)) = Lt /\
  cmp_pad UV.Ref.Gem.seg_cmp (UV.Ref.Gem.SNum 0) (canon_of segs) (UV.Ref.Gem.drop_trailing_zeros (release_list segs)) <> Gt.
Proof. intros segs H. split; [apply bump_above; exact H|apply release_not_below]. Qed.

(* gem: the release has no pre-release part (a gem version is a pre-release when one of its segments is a string):
   every segment of release() is a number, and so is every segment of bump() *)
Theorem C18_gem_release_has_no_prerelease_part : forall segs : list UV.Ref.Gem.seg,
  forallb UV.Ref.Gem.is_num (release_list segs) = true /\ forallb UV.Ref.Gem.is_num (bump_list segs) = true.
Proof. exact release_and_bump_numeric. Qed.

Print Assumptions C18_semver_successors_are_ordered.
Print Assumptions C18_semver_successors_are_strictly_greater.
Print Assumptions C18_semver_shorthand_bounds_bracket_the_version.
Print Assumptions C18_gem_bump_and_release.
Print Assumptions C18_gem_release_has_no_prerelease_part.
