(* C15 — advisory notations convert to exactly the constraints they state.

   `split_req`, `github_range`, `snyk_range`, `gitlab_range` are the code-shaped models of
   the converters of version_range.py (Native/Advisory.v); the comparator tables are
   transcribed from /repo on every run.  The shared prefix splitter takes the FIRST table
   entry the text starts with and strips a character SET: whether each spelling of a table
   is read as itself is a finite fact about the table's order (`table_ok`), re-proved on
   every run for the GitHub table, the Snyk table and every vers_by_native_comparators table
   (this is the check that exposed the rpm '<>' and pypi '===' orderings, since repaired).
   On top of it: a clause "<spelling><version>" with whitespace anywhere is split into the
   listed comparator and the version text, for every version text that starts with a
   non-comparator character; the GitHub converter turns a comma-separated list of clauses
   into exactly the stated constraints.  The Snyk notations and the GitLab token walk are
   modelled and compared with the implementation; their clause-level theorems follow from
   the same splitter theorem but are not yet stated for whole expressions. *)
From Coq Require Import List Bool Arith Ascii String.
From UV.Base Require Import Cop Res.
From UV.Gen Require Import Tables.
From UV.Py Require Import PyStr.
From UV.Vers Require Import Model VersText.
From UV.Native Require Import Advisory AdvisoryProofs SnykProofs GitlabProofs SnykBracket.
From UV.Schemes Require Import Common Generic.
Import ListNotations.
Local Open Scope list_scope.

Theorem C15_comparator_tables_read_every_spelling_as_itself :
  table_ok github_table = true /\ table_ok snyk_table = true /\
  forallb (fun p => table_ok (snd p)) native_tables = true.
Proof. split; [exact github_table_ok|]. split; [exact snyk_table_ok|exact native_tables_ok]. Qed.

Theorem C15_splitter_returns_the_stated_comparator_and_version :
  forall (T : ctable) (d : option cop) (k : string) (want : option cop) (v w : str),
    keys_ok T = true -> spelling_ok T k = true -> lookup_table T (s2l k) = Some want ->
    vplain v = true -> ws_variant (s2l k ++ v) w ->
    split_req T d [] w = Ok (want, v).
Proof. exact split_req_rendered. Qed.

Theorem C15_github_clause :
  forall (V : Type) (vctor : str -> res V) (k : string) (o : cop) (v w : str) (x : V),
    lookup_table github_table (s2l k) = Some (Some o) -> In k (map fst github_table) ->
    vplain v = true -> vctor v = Ok x -> ws_variant (s2l k ++ v) w ->
    github_constraint V vctor w = Ok (C o x).
Proof. exact github_constraint_rendered. Qed.

Theorem C15_github_expression :
  forall (V : Type) (cmp : V -> V -> comparison) (vctor : str -> res V) (pieces : list str) (cs : list (constr V)),
    pieces <> [] -> Forall (fun w => mem_c c_comma w = false) pieces ->
    Forall2 (fun w c => github_constraint V vctor w = Ok c) pieces cs ->
    github_range V cmp vctor [join_c c_comma pieces] = sort_c V cmp cs.
Proof. exact github_range_rendered. Qed.

Example C15_nonvacuous :
  split_req snyk_table None [] (s2l " = = 1.2.3") = Ok (Some EQ, s2l "1.2.3") /\
  split_req native_table_DebianVersionRange None (s2l ")(") (s2l "(<< 2.3)") = Ok (Some LT, s2l "2.3") /\
  vplain (s2l "1.2.3") = true /\ spelling_ok native_table_RpmVersionRange "<>" = true.
Proof. vm_compute. repeat split. Qed.

(* Snyk: an item written as comma-separated clauses "<spelling><version>" (blanks anywhere) converts to exactly the
   constraints it states; the item is split at the commas after its blanks are removed *)
Theorem C15_snyk_item :
  forall (V : Type) (vctor : str -> res V) (item : str) (pieces : list str) (cs : list (constr V)),
    mem_c c_comma item = true ->
    split_c c_comma (replace_space (strip_ws item)) = pieces ->
    Forall2 (clause_of V vctor) pieces cs ->
    snyk_item V vctor item = Ok cs.
Proof. exact snyk_item_rendered. Qed.

Example C15_snyk_item_inhabited :
  snyk_item str gen_ctor (list_ascii_of_string ">= 1.0 , <2.0,!= 1.5") =
    Ok [C GE (list_ascii_of_string "1.0"); C LT (list_ascii_of_string "2.0"); C NE (list_ascii_of_string "1.5")].
Proof. vm_compute. reflexivity. Qed.

(* GitLab (the schemes converted by from_gitlab_native's own loop): clauses "<spelling><version>", or a bare version
   (read as "="), separated by the scheme's separator and without "||", convert to exactly the constraints they state *)
Theorem C15_gitlab_expression :
  forall (V : Type) (cmp : V -> V -> comparison) (vctor : str -> res V) (T : ctable) (sep : ascii),
    table_ok T = true ->
    forall (pieces : list str) (cs : list (constr V)), pieces <> [] ->
      Forall (fun w => mem_c sep w = false /\ mem_c "|"%char w = false) pieces -> eqc "|"%char sep = false ->
      Forall2 (gl_clause V vctor T) pieces cs ->
      gitlab_range V cmp vctor T sep (join_c sep pieces) = sort_c V cmp cs.
Proof. exact gitlab_range_rendered. Qed.

Example C15_gitlab_inhabited :
  gitlab_range str UV.Schemes.Common.cmp_str gen_ctor native_table_NpmVersionRange " "%char (list_ascii_of_string ">=1.0 <2.0") =
    Ok [C GE (list_ascii_of_string "1.0"); C LT (list_ascii_of_string "2.0")] /\
  table_ok native_table_NpmVersionRange = true.
Proof. split; vm_compute; reflexivity. Qed.

(* Snyk bracket notation: the item "<open><lower>,<upper><close>" with plain version texts, either bound possibly
   missing, converts to exactly the bounds it states (the bracket table is the one of /repo) *)
Theorem C15_snyk_bracket_item :
  forall (V : Type) (vctor : str -> res V) (lo hi : option str) (li hi_incl : bool) (cs1 cs2 : list (constr V)),
    SnykBracket.oplain lo = true -> SnykBracket.oplain hi = true ->
    obound V vctor lo (if li then GE else GT) = Ok cs1 -> obound V vctor hi (if hi_incl then LE else LT) = Ok cs2 ->
    snyk_item V vctor (c_ob li :: SnykBracket.otext lo ++ c_comma :: SnykBracket.otext hi ++ [c_cb hi_incl]) = Ok (cs1 ++ cs2).
Proof. exact snyk_bracket_item. Qed.
Example C15_snyk_bracket_inhabited :
  snyk_item str gen_ctor (list_ascii_of_string "[1.0,2.0)") = Ok [C GE (list_ascii_of_string "1.0"); C LT (list_ascii_of_string "2.0")] /\
  snyk_item str gen_ctor (list_ascii_of_string "(,2.0]") = Ok [C LE (list_ascii_of_string "2.0")] /\
  bplain (list_ascii_of_string "1.0") = true.
Proof. repeat split; vm_compute; reflexivity. Qed.

Print Assumptions C15_comparator_tables_read_every_spelling_as_itself.
Print Assumptions C15_splitter_returns_the_stated_comparator_and_version.
Print Assumptions C15_github_clause.
Print Assumptions C15_github_expression.
Print Assumptions C15_snyk_item.
Print Assumptions C15_snyk_item_inhabited.
Print Assumptions C15_gitlab_expression.
Print Assumptions C15_gitlab_inhabited.
Print Assumptions C15_snyk_bracket_item.
Print Assumptions C15_snyk_bracket_inhabited.
