(* C06 — converting a native range to vers preserves exactly the set of matching versions.

   The abstract theorem is over any version type with a total preorder: a native expression of the flat fragment
   (alternatives that are one exact version or one interval with exclusions inside, ascending and disjoint) is
   converted to the constraints every from_native emits for it, and the C04 denotation of those constraints is the
   native matching rule "some alternative accepts the version".  C04 (Props/C04.v) carries the denotation to the
   containment code.  The shorthands are proved on the semver model for release versions. *)
From Coq Require Import List Bool Arith NArith ZArith.
From UV.Base Require Import Order Cop Res.
From UV.Gen Require Import Tables.
From UV.Vers Require Import Model Spec.
From UV.Schemes Require Import Common Semver SemverProofs.
From UV.Vers Require Import ContainsProofs.
From UV.Native Require Import Intervals IntervalsWf Shorthand.
Import ListNotations.

Theorem C06_one_alternative :
  forall (V : Type) (cmp : V -> V -> comparison) (a : alt V) (p : V),
    proper V a = true -> den V cmp (acs V a) p = amatch V cmp p a.
Proof. exact den_alt. Qed.

Theorem C06_flat_expression :
  forall (V : Type) (cmp : V -> V -> comparison), TPO cmp ->
  forall (e : list (alt V)) (p : V), separated V cmp e -> den V cmp (to_constraints V e) p = nmatch V cmp e p.
Proof. exact native_conversion_exact. Qed.

(* the converted range is well-formed (C07's sentence for a list read in version order) *)
Theorem C06_result_well_formed :
  forall (V : Type) (cmp : V -> V -> comparison) (e : list (alt V)),
    separated V cmp e -> Forall (fun a => alt_inc V cmp a = true) e -> e <> [] ->
    wf_sorted V cmp (to_constraints V e) = true.
Proof. exact native_conversion_wf. Qed.

(* hence the containment code itself, on the converted range, answers the native rule and never raises *)
Theorem C06_containment_of_converted_range :
  forall (V : Type) (cmp : V -> V -> comparison), TPO cmp ->
  forall (e : list (alt V)) (p : V),
    separated V cmp e -> Forall (fun a => alt_inc V cmp a = true) e -> e <> [] ->
    contains V cmp (to_constraints V e) p = Ok (nmatch V cmp e p).
Proof.
  intros V cmp T e p S I N. rewrite (contains_sound V cmp T _ p (native_conversion_wf V cmp e S I N)).
  rewrite (native_conversion_exact V cmp T e p S). reflexivity.
Qed.

Theorem C06_npm_caret : forall a b c x y z,
  den semver semver_cmp [C GE (mk a b c); C LT (caret_upper (mk a b c))] (mk x y z) = native_caret a b c x y z.
Proof. exact caret_exact. Qed.
Theorem C06_tilde_and_minor_x : forall a b c x y z,
  den semver semver_cmp [C GE (mk a b c); C LT (next_minor (mk a b c))] (mk x y z) = native_same_minor a b c x y z.
Proof. exact tilde_exact. Qed.
Theorem C06_major_x : forall a b c x y z,
  den semver semver_cmp [C GE (mk a b c); C LT (next_major (mk a b c))] (mk x y z) = native_same_major a b c x y z.
Proof. exact major_x_exact. Qed.
Theorem C06_nginx_plus : forall a b c x y z,
  den semver semver_cmp (nginx_plus (mk a b c)) (mk x y z) = native_nginx_plus a b c x y z.
Proof. exact nginx_plus_exact. Qed.
Theorem C06_hyphen : forall a b c u v w x y z,
  den semver semver_cmp [C GE (mk a b c); C LE (mk u v w)] (mk x y z) = ge3 x y z a b c && ge3 u v w x y z.
Proof. exact hyphen_exact. Qed.

(* non-vacuity: a three-alternative expression over the integers meets the side conditions, and is matched as expected *)
Example C06_separated_inhabited :
  let e := [AIval Z {| lo := None; hi := Some (2, false)%Z; excl := [] |};
            AExact Z 4%Z;
            AIval Z {| lo := Some (6, true)%Z; hi := Some (12, true)%Z; excl := [8; 10]%Z |};
            AIval Z {| lo := Some (14, false)%Z; hi := None; excl := [] |}] in
  separated Z Z.compare e /\ map (nmatch Z Z.compare e) [1; 2; 4; 5; 6; 8; 9; 12; 13; 14; 15]%Z
                             = [true; false; true; false; true; false; true; true; false; false; true].
Proof.
  split; [|vm_compute; reflexivity].
  cbn [separated].
  repeat match goal with
         | |- _ /\ _ => split
         | |- all_before _ _ _ _ => apply all_before_dec; vm_compute; reflexivity
         | |- Forall _ _ => repeat constructor
         | |- [] <> [] -> _ => let H := fresh in intros H; exfalso; apply H; reflexivity
         | |- _ -> _ => intros _
         | |- _ = _ => reflexivity
         | |- True => exact I
         end.
Qed.

Example C06_ascending_inhabited :
  Forall (fun a => alt_inc Z Z.compare a = true)
    [AIval Z {| lo := None; hi := Some (2, false)%Z; excl := [] |}; AExact Z 4%Z;
     AIval Z {| lo := Some (6, true)%Z; hi := Some (12, true)%Z; excl := [8; 10]%Z |}].
Proof. repeat constructor. Qed.

Print Assumptions C06_one_alternative.
Print Assumptions C06_flat_expression.
Print Assumptions C06_result_well_formed.
Print Assumptions C06_containment_of_converted_range.
Print Assumptions C06_npm_caret.
Print Assumptions C06_tilde_and_minor_x.
Print Assumptions C06_major_x.
Print Assumptions C06_nginx_plus.
Print Assumptions C06_hyphen.
Print Assumptions C06_separated_inhabited.
