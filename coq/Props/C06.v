(* C06 — converting a native range to vers preserves exactly the set of matching versions.

   The abstract theorem is over any version type with a total preorder: a native expression of the flat fragment
   (alternatives that are one exact version or one interval with exclusions inside, ascending and disjoint) is
   converted to the constraints every from_native emits for it, and the C04 denotation of those constraints is the
   native matching rule "some alternative accepts the version".  C04 (Props/C04.v) carries the denotation to the
   containment code.  The shorthands are proved on the semver model for release versions. *)
From Coq Require Import List Bool Arith NArith ZArith.
From UV.Base Require Import Order Cop Res.
From UV.Gen Require Import Tables.
From UV.Vers Require Import Model Spec.
From UV.Schemes Require Import Common Semver SemverProofs.
From UV.Vers Require Import ContainsProofs.
From UV.Native Require Import Intervals IntervalsWf Shorthand MavenRange MavenRangeProofs Advisory AdvisoryProofs Relations RelationsProofs Nginx NginxProofs.
From UV.Py Require Import PyStr.
From UV.Vers Require Import VersText.
From Coq Require Import Ascii String.
Import ListNotations.
Local Open Scope list_scope.

Theorem C06_one_alternative :
  forall (V : Type) (cmp : V -> V -> comparison) (a : alt V) (p : V),
    proper V a = true -> den V cmp (acs V a) p = amatch V cmp p a.
Proof. exact den_alt. Qed.

Theorem C06_flat_expression :
  forall (V : Type) (cmp : V -> V -> comparison), TPO cmp ->
  forall (e : list (alt V)) (p : V), separated V cmp e -> den V cmp (to_constraints V e) p = nmatch V cmp e p.
Proof. exact native_conversion_exact. Qed.

(* the converted range is well-formed (C07's sentence for a list read in version order) *)
Theorem C06_result_well_formed :
  forall (V : Type) (cmp : V -> V -> comparison) (e : list (alt V)),
    separated V cmp e -> Forall (fun a => alt_inc V cmp a = true) e -> e <> [] ->
    wf_sorted V cmp (to_constraints V e) = true.
Proof. exact native_conversion_wf. Qed.

(* hence the containment code itself, on the converted range, answers the native rule and never raises *)
Theorem C06_containment_of_converted_range :
  forall (V : Type) (cmp : V -> V -> comparison), TPO cmp ->
  forall (e : list (alt V)) (p : V),
    separated V cmp e -> Forall (fun a => alt_inc V cmp a = true) e -> e <> [] ->
    contains V cmp (to_constraints V e) p = Ok (nmatch V cmp e p).
Proof.
  intros V cmp T e p S I N. rewrite (contains_sound V cmp T _ p (native_conversion_wf V cmp e S I N)).
  rewrite (native_conversion_exact V cmp T e p S). reflexivity.
Qed.

Theorem C06_npm_caret : forall a b c x y z,
  den semver semver_cmp [C GE (mk a b c); C LT (caret_upper (mk a b c))] (mk x y z) = native_caret a b c x y z.
Proof. exact caret_exact. Qed.
Theorem C06_tilde_and_minor_x : forall a b c x y z,
  den semver semver_cmp [C GE (mk a b c); C LT (next_minor (mk a b c))] (mk x y z) = native_same_minor a b c x y z.
Proof. exact tilde_exact. Qed.
Theorem C06_major_x : forall a b c x y z,
  den semver semver_cmp [C GE (mk a b c); C LT (next_major (mk a b c))] (mk x y z) = native_same_major a b c x y z.
Proof. exact major_x_exact. Qed.
Theorem C06_nginx_plus : forall a b c x y z,
  den semver semver_cmp (nginx_plus (mk a b c)) (mk x y z) = native_nginx_plus a b c x y z.
Proof. exact nginx_plus_exact. Qed.
Theorem C06_hyphen : forall a b c u v w x y z,
  den semver semver_cmp [C GE (mk a b c); C LE (mk u v w)] (mk x y z) = ge3 x y z a b c && ge3 u v w x y z.
Proof. exact hyphen_exact. Qed.

(* non-vacuity: a three-alternative expression over the integers meets the side conditions, and is matched as expected *)
Example C06_separated_inhabited :
  let e := [AIval Z {| lo := None; hi := Some (2, false)%Z; excl := [] |};
            AExact Z 4%Z;
            AIval Z {| lo := Some (6, true)%Z; hi := Some (12, true)%Z; excl := [8; 10]%Z |};
            AIval Z {| lo := Some (14, false)%Z; hi := None; excl := [] |}] in
  separated Z Z.compare e /\ map (nmatch Z Z.compare e) [1; 2; 4; 5; 6; 8; 9; 12; 13; 14; 15]%Z
                             = [true; false; true; false; true; false; true; true; false; false; true].
Proof.
  split; [|vm_compute; reflexivity].
  cbn [separated].
  repeat match goal with
         | |- _ /\ _ => split
         | |- all_before _ _ _ _ => apply all_before_dec; vm_compute; reflexivity
         | |- Forall _ _ => repeat constructor
         | |- [] <> [] -> _ => let H := fresh in intros H; exfalso; apply H; reflexivity
         | |- _ -> _ => intros _
         | |- _ = _ => reflexivity
         | |- True => exact I
         end.
Qed.

Example C06_ascending_inhabited :
  Forall (fun a => alt_inc Z Z.compare a = true)
    [AIval Z {| lo := None; hi := Some (2, false)%Z; excl := [] |}; AExact Z 4%Z;
     AIval Z {| lo := Some (6, true)%Z; hi := Some (12, true)%Z; excl := [8; 10]%Z |}].
Proof. repeat constructor. Qed.

(* The Maven / NuGet bracket notation, parser included.  For any scheme (V, cmp a total preorder, mk its constructor) and
   any expression e of exact versions [v] and intervals (lo,hi) / [lo,hi] / ... written with plain version texts
   (no bracket, comma or blank), whose alternatives pass the parser's own sanity checks (made with maven's order
   mcmp on the bound texts) and are ascending and disjoint in the scheme's order: the model of maven.VersionRange and
   MavenVersionRange.from_native reads the TEXT render e as constraints that contain exactly the versions the
   expression matches; they are already sorted (the range constructor's sort leaves them as they are) and well-formed. *)
Theorem C06_bracket_notation_parsed_text :
  forall (mcmp : str -> str -> comparison) (V : Type) (cmp : V -> V -> comparison), TPO cmp ->
  forall (mk : str -> res V) (e : list ralt) (alts : list (alt V)),
    forallb clean_alt e = true -> forallb (alt_checks mcmp) e = true -> chain_ok mcmp None e = true ->
    forallb (eq_checks mcmp) e = true -> mapM (alt_of V mk) e = Ok alts -> separated V cmp alts ->
    (exists cs, maven_native mcmp V mk (render e) = Ok cs /\ forall p, den V cmp cs p = nmatch V cmp alts p) /\
    (Forall (fun a => alt_inc V cmp a = true) alts -> alts <> [] ->
     exists cs, maven_native mcmp V mk (render e) = Ok cs /\ sort_c V cmp cs = Ok cs /\ wf_sorted V cmp cs = true).
Proof.
  intros mcmp V cmp T mk e alts C K H Q M S. split.
  - apply (bracket_native_exact mcmp V cmp T mk e alts); assumption.
  - intros I N. apply (bracket_native_sorted mcmp V cmp T mk e alts); assumption.
Qed.

(* non-vacuity: "(,1.0],[1.2,2.0)" on the generic scheme *)
Example C06_bracket_inhabited :
  let e := [RIval None (Some (list_ascii_of_string "1.0")) false true;
            RIval (Some (list_ascii_of_string "1.2")) (Some (list_ascii_of_string "2.0")) true false] in
  render e = list_ascii_of_string "(,1.0],[1.2,2.0)" /\
  forallb clean_alt e = true /\ forallb (alt_checks UV.Schemes.Common.cmp_str) e = true /\ chain_ok UV.Schemes.Common.cmp_str None e = true /\
  forallb (eq_checks UV.Schemes.Common.cmp_str) e = true /\
  maven_native UV.Schemes.Common.cmp_str str (fun t => Ok t) (render e)
    = Ok [C LE (list_ascii_of_string "1.0"); C GE (list_ascii_of_string "1.2"); C LT (list_ascii_of_string "2.0")].
Proof. repeat split; vm_compute; reflexivity. Qed.

(* The relationship-string notations (deb: "(>= 1.0)", "<< 2.0"; rpm: ">= 1.0,"), parser included.  The comparator
   tables are the ones of /repo (regenerated on every run; the finite check table_ok is re-proved by computation).
   One relation written as wrapper, comparator spelling, version, wrapper with whitespace anywhere is read as the stated
   constraint; a list of relations as the list of their constraints (sorted by the range); a lower and an upper
   relation contain exactly the versions between the stated bounds. *)
Theorem C06_relationship_notations :
  (table_ok deb_table = true /\ table_ok rpm_table = true) /\
  forall (V : Type) (cmp : V -> V -> comparison), TPO cmp -> forall (vctor : str -> res V) (Tb : ctable) (strip : str),
  table_ok Tb = true -> nospace_set strip = true ->
  (forall (k : string) (o : cop) (v pre post w : str) (x : V),
     In k (map fst Tb) -> lookup_table Tb (s2l k) = Some (Some o) -> vplain v = true ->
     forallb (fun c => mem_c c strip) pre = true -> forallb (fun c => mem_c c strip) post = true ->
     forallb (fun c => negb (mem_c c strip)) (s2l k ++ v) = true ->
     vctor v = Ok x -> ws_variant (pre ++ (s2l k ++ v) ++ post) w ->
     relation_constraint V vctor Tb strip w = Ok (C o x)) /\
  (forall (items : list str) (cs : list (constr V)),
     Forall2 (fun w c => relation_constraint V vctor Tb strip w = Ok c) items cs ->
     relations_range V cmp vctor Tb strip items = sort_c V cmp cs) /\
  (forall (w1 w2 : str) (lo hi : V * bool),
     relation_constraint V vctor Tb strip w1 = Ok (lo_c V lo) -> relation_constraint V vctor Tb strip w2 = Ok (hi_c V hi) ->
     cmp (fst lo) (fst hi) = Lt ->
     exists cs, relations_range V cmp vctor Tb strip [w1; w2] = Ok cs /\
                forall p, den V cmp cs p = above V cmp lo p && below V cmp hi p).
Proof.
  split; [exact deb_rpm_tables_ok|]. intros V cmp T vctor Tb strip HT Hs. split; [|split].
  - intros k o v pre post w x Hin Hl Hv Hpre Hpost Hb Hx Hw. apply (relation_rendered V vctor Tb strip k o v pre post w x); assumption.
  - apply relations_rendered.
  - apply (relations_interval V cmp T vctor Tb strip).
Qed.

(* non-vacuity: "( >> 2.23 )" in the deb table is the constraint >2.23 on the generic scheme *)
Example C06_relation_inhabited :
  relation_constraint str (fun t => Ok t) deb_table deb_strip (list_ascii_of_string "( >> 2.23 )") = Ok (C GT (list_ascii_of_string "2.23")) /\
  relation_constraint str (fun t => Ok t) rpm_table rpm_strip (list_ascii_of_string "<= 2.24,") = Ok (C LE (list_ascii_of_string "2.24")) /\
  nospace_set deb_strip = true /\ nospace_set rpm_strip = true.
Proof. repeat split; vm_compute; reflexivity. Qed.

(* The nginx advisory notation, parser included: a comma-separated list of clauses "A-B", "V+", "V" written with plain
   version texts is read as the constraints each clause states - [>=A, <=B], nginx_plus V (whose denotation is
   C06_nginx_plus above), [=V] - in the order written (the range then sorts them).  The openssl notation is a list of
   versions, read as one "=" constraint each. *)
Theorem C06_nginx_and_openssl_notations_parsed_text :
  (forall c, clause_plain c = true -> nginx_clause (clause_text c) = clause_constraints c) /\
  (forall (l : list nclause) (cs : list (constr semver)),
     l <> [] -> forallb clause_plain l = true -> NginxProofs.all_constraints l = Ok cs ->
     nginx_native (join_c c_comma (map clause_text l)) = Ok cs) /\
  (forall (V : Type) (vctor : str -> res V) (vs : list str), vs <> [] -> forallb nplain vs = true ->
     openssl_native vctor (join_c c_comma vs) = mapM (fun t => match vctor t with Ok v => Ok (C EQ v) | Err e => Err e end) vs).
Proof. split; [exact nginx_clause_rendered|]. split; [exact nginx_native_rendered|]. intros V. exact (@openssl_native_rendered V). Qed.

Example C06_nginx_inhabited :
  nginx_native (list_ascii_of_string "1.5.0+, 1.4.1+") =
    Ok [C GE (mk 1 5 0); C GE (mk 1 4 1); C LT (mk 1 5 0)] /\
  clause_plain (NPlus (list_ascii_of_string "1.4.1")) = true.
Proof. split; vm_compute; reflexivity. Qed.

Print Assumptions C06_one_alternative.
Print Assumptions C06_flat_expression.
Print Assumptions C06_result_well_formed.
Print Assumptions C06_containment_of_converted_range.
Print Assumptions C06_npm_caret.
Print Assumptions C06_tilde_and_minor_x.
Print Assumptions C06_major_x.
Print Assumptions C06_nginx_plus.
Print Assumptions C06_hyphen.
Print Assumptions C06_separated_inhabited.
Print Assumptions C06_bracket_notation_parsed_text.
Print Assumptions C06_bracket_inhabited.
Print Assumptions C06_relationship_notations.
Print Assumptions C06_relation_inhabited.
Print Assumptions C06_nginx_and_openssl_notations_parsed_text.
Print Assumptions C06_nginx_inhabited.
