(* C13 — canonical vers form is independent of presentation and of the hash seed.

   Over the code-shaped models of the constructor's sort (Vers/Model.v) and of
   VersionRange.from_string (Vers/VersText.v). *)
From Coq Require Import List Bool Arith Ascii String NArith Permutation.
From UV.Base Require Import Order Cop Res.
From UV.Gen Require Import Tables.
From UV.Py Require Import PyStr.
From UV.Vers Require Import Model Spec VersText ContainsProofs SortProofs TextProofs.
Import ListNotations.
Local Open Scope list_scope.

(* Order of the constraints: two collections that differ only in order sort to the same list
   (every version occurring once), hence print the same text.  This is also the hash-seed
   statement: Python's set iterates in an order that depends on the hash seed, i.e. in an
   arbitrary permutation, and sorted(set(...)) at the end of simplification is that sort. *)
Theorem C13_order_of_constraints_is_irrelevant :
  forall (V : Type) (cmp : V -> V -> comparison), TPO cmp ->
  forall l l' : list (constr V),
    Permutation l l' -> no_star V l = true -> nodup_ver V cmp l = true ->
    exists s, sort_c V cmp l = Ok s /\ sort_c V cmp l' = Ok s /\ strong_incr V cmp s = true.
Proof. exact sort_perm_invariant. Qed.

Theorem C13_canonical_text_of_permuted_constraints :
  forall (V : Type) (cmp : V -> V -> comparison), TPO cmp ->
  forall (vstr : V -> str) (l l' : list (constr V)),
    Permutation l l' -> no_star V l = true -> nodup_ver V cmp l = true ->
    constraints_to_string V cmp vstr l = constraints_to_string V cmp vstr l'.
Proof.
  intros V cmp T vstr l l' P Hn Hd. destruct (sort_perm_invariant V cmp T l l' P Hn Hd) as [s [E1 [E2 _]]].
  unfold constraints_to_string. rewrite E1, E2. reflexivity.
Qed.

(* Insignificant whitespace, anywhere in the string (also inside version texts) *)
Theorem C13_whitespace_is_insignificant :
  forall (V : Type) (cmp : V -> V -> comparison) (vctor : str -> res V) (a b : str) (fs fv : bool),
    ws_variant a b -> from_string V cmp vctor b fs fv = from_string V cmp vctor a fs fv.
Proof. exact from_string_whitespace. Qed.

(* An explicit "=" *)
Theorem C13_explicit_equal_is_implicit :
  forall v : str, starts_plain v = true -> forallb (fun c => negb (is_space c)) v = true ->
    split_constraint ("="%char :: v) = split_constraint v.
Proof. exact split_explicit_eq. Qed.

(* Letter case of "vers:" and of the scheme name: both are lower-cased before use *)
Theorem C13_case_of_uri_and_scheme :
  forall (V : Type) (cmp : V -> V -> comparison) (vctor : str -> res V) (u sch rest : str) (fs fv : bool),
    mem_c c_colon u = false -> mem_c c_slash sch = false ->
    forallb (fun c => negb (is_space c)) (u ++ c_colon :: sch ++ c_slash :: rest) = true ->
    forallb (fun c => negb (is_space c)) (lower u ++ c_colon :: lower sch ++ c_slash :: rest) = true ->
    py_is_ascii (u ++ c_colon :: sch ++ c_slash :: rest) = py_is_ascii (lower u ++ c_colon :: lower sch ++ c_slash :: rest) ->
    mem_c c_colon (lower u) = false -> mem_c c_slash (lower sch) = false ->
    lower (lower u) = lower u -> lower (lower sch) = lower sch ->
    from_string V cmp vctor (u ++ c_colon :: sch ++ c_slash :: rest) fs fv
    = from_string V cmp vctor (lower u ++ c_colon :: lower sch ++ c_slash :: rest) fs fv.
Proof.
  intros V cmp vctor u sch rest fs fv Hu Hs N1 N2 HA Hu' Hs' Lu Ls.
  unfold from_string.
  rewrite (remove_spaces_none _ N1), (remove_spaces_none _ N2), HA.
  assert (E1 : is_empty (u ++ c_colon :: sch ++ c_slash :: rest) = false) by (destruct u; reflexivity).
  assert (E2 : is_empty (lower u ++ c_colon :: lower sch ++ c_slash :: rest) = false) by (destruct u; reflexivity).
  rewrite E1, E2.
  rewrite (partition_app_sep c_colon u _ Hu), (partition_app_sep c_colon (lower u) _ Hu').
  rewrite (partition_app_sep c_slash sch _ Hs), (partition_app_sep c_slash (lower sch) _ Hs').
  rewrite Lu, Ls. reflexivity.
Qed.

Example C13_nonvacuous :
  ws_variant (s2l "vers:npm/>=1.0|<2") (s2l " vers : npm / >= 1.0 | < 2 ") /\
  split_constraint (s2l "=1.0") = (Op EQ, s2l "1.0") /\ split_constraint (s2l "1.0") = (Op EQ, s2l "1.0").
Proof.
  split; [|split; vm_compute; reflexivity].
  cbn. repeat first [apply wv_ins; [reflexivity|] | apply wv_keep | apply wv_nil].
Qed.

Print Assumptions C13_order_of_constraints_is_irrelevant.
Print Assumptions C13_canonical_text_of_permuted_constraints.
Print Assumptions C13_whitespace_is_insignificant.
Print Assumptions C13_explicit_equal_is_implicit.
Print Assumptions C13_case_of_uri_and_scheme.
