(* C05 — vers text and range objects round-trip losslessly and canonically.

   `constraints_to_string` / `constraints_from_string` / `from_string` are the code-shaped
   models of VersionRange.__str__, VersionConstraint.__str__/split/from_string and
   VersionRange.from_string (Vers/VersText.v) over an abstract scheme: `vctor` is the
   version constructor, `vstr` its printer.  A constraint is `printable` when its version
   text is delimiter-free (printable ASCII without whitespace, pipe, quotes or backslash, not
   starting with a comparator or star character) and re-constructs to the same version (C11).
   Round trip is proved for ranges whose versions are pairwise inequivalent (any comparators,
   any count); ranges repeating a version are covered by the correspondence only. *)
From Coq Require Import List Bool Arith Ascii String NArith.
From UV.Base Require Import Order Cop Res.
From UV.Gen Require Import Tables.
From UV.Py Require Import PyStr.
From UV.Vers Require Import Model Spec VersText ContainsProofs SortProofs TextProofs.
Import ListNotations.
Local Open Scope list_scope.

Theorem C05_constraint_text_roundtrip :
  forall (V : Type) (vctor : str -> res V) (vstr : V -> str) (o : cop) (v : V),
    vtext_ok (vstr v) = true -> vctor (vstr v) = Ok v ->
    constraint_from_string V vctor (constraint_to_string V vstr (C o v)) = Ok (C o v).
Proof. exact constraint_roundtrip. Qed.

(* print, parse back: the same constraints, hence an equal range and the identical second print *)
Theorem C05_range_text_roundtrip :
  forall (V : Type) (cmp : V -> V -> comparison), TPO cmp ->
  forall (vctor : str -> res V) (vstr : V -> str) (cs : list (constr V)),
    cs <> [] -> no_star V cs = true -> strong_incr V cmp cs = true -> Forall (printable V vctor vstr) cs ->
    exists t, constraints_to_string V cmp vstr cs = Ok t /\
              constraints_from_string V cmp vctor t false false = Ok cs.
Proof. exact constraints_roundtrip. Qed.

(* the star range *)
Theorem C05_star_roundtrip :
  forall (V : Type) (cmp : V -> V -> comparison) (vctor : str -> res V) (vstr : V -> str),
    constraints_to_string V cmp vstr [Star] = Ok [c_star] /\
    constraints_from_string V cmp vctor [c_star] false false = Ok [Star].
Proof. intros. split; reflexivity. Qed.

(* the printed form lists the constraints in version order with "=" implicit *)
Theorem C05_printed_form :
  forall (V : Type) (cmp : V -> V -> comparison) (vstr : V -> str) (cs s : list (constr V)),
    sort_c V cmp cs = Ok s ->
    constraints_to_string V cmp vstr cs = Ok (join_c c_pipe (map (constraint_to_string V vstr) s)) /\
    forall v, constraint_to_string V vstr (C EQ v) = vstr v.
Proof. intros V cmp vstr cs s H. unfold constraints_to_string. rewrite H. split; reflexivity. Qed.

(* ---- the scheme registry (finite; re-checked against the live tables on every run) ---- *)
Lemma rclass_eq_dec : forall a b : rclass, {a = b} + {a <> b}.
Proof. decide equality. Defined.
Definition rclass_eqb (a b : rclass) : bool := if rclass_eq_dec a b then true else false.
Definition opt_rclass_eqb (a : option rclass) (b : rclass) : bool := match a with Some x => rclass_eqb x b | None => false end.

Definition name_ok (n : str) : bool :=
  negb (is_empty n) && forallb (fun c => is_lower c || is_digit c) n.

Lemma all_rclasses_complete c : In c all_rclasses.
Proof. destruct c; cbn; tauto. Qed.

(* every range type that can print a 'vers:<scheme>/' string has that scheme recognised by the
   parser, and the parser gives back that very range type *)
Theorem C05_every_printing_class_is_registered :
  forall (r : rclass) (n : string), range_scheme r = Some n -> lookup_scheme (s2l n) = Some r /\ name_ok (s2l n) = true.
Proof.
  intros r n H.
  assert (X : forallb (fun r => match range_scheme r with
                                | Some n => opt_rclass_eqb (lookup_scheme (s2l n)) r && name_ok (s2l n)
                                | None => true end) all_rclasses = true) by (vm_compute; reflexivity).
  rewrite forallb_forall in X. specialize (X r (all_rclasses_complete r)). rewrite H in X.
  apply andb_true_iff in X. destruct X as [X1 X2]. split; [|exact X2].
  destruct (lookup_scheme (s2l n)) as [x|]; [|discriminate]. cbn in X1. unfold rclass_eqb in X1.
  destruct (rclass_eq_dec x r); [subst; reflexivity|discriminate].
Qed.

(* the registry maps each name to the range type that prints that name *)
Theorem C05_registry_maps_names_to_their_printers :
  forall (n : string) (r : rclass), In (n, r) registry -> range_scheme r = Some n.
Proof.
  intros n r H.
  assert (X : forallb (fun p => match range_scheme (snd p) with Some m => String.eqb m (fst p) | None => false end) registry = true)
    by (vm_compute; reflexivity).
  rewrite forallb_forall in X. specialize (X (n, r) H). cbn [fst snd] in X.
  destruct (range_scheme r) as [m|]; [|discriminate]. apply String.eqb_eq in X. subst. reflexivity.
Qed.

Example C05_nonvacuous :
  lookup_scheme (s2l "alpine") = Some R_AlpineLinuxVersionRange /\
  lookup_scheme (s2l "npm") = Some R_NpmVersionRange /\
  range_scheme R_VersionRange = None /\ List.length registry >= 20.
Proof. vm_compute. repeat split; repeat constructor. Qed.

Print Assumptions C05_constraint_text_roundtrip.
Print Assumptions C05_range_text_roundtrip.
Print Assumptions C05_star_roundtrip.
Print Assumptions C05_printed_form.
Print Assumptions C05_every_printing_class_is_registered.
Print Assumptions C05_registry_maps_names_to_their_printers.
