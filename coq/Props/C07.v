(* C07 — validation accepts exactly the well-formed constraint sequences.

   `validate` is the code-shaped model of VersionConstraint.validate() +
   validate_comparators(); `wf` is the property's sentence: the list is ['*'], or
   it has no '*' and its rearrangement in version order has strictly increasing
   versions (every version occurs once), no '=' directly followed by an upper
   bound once '!=' are ignored, and alternating lower/upper bounds once '=' and
   '!=' are ignored.  For any version type with a total preorder, lists of any
   length, in any order, with duplicates and stars. *)
From Coq Require Import List Bool ZArith Permutation.
From UV.Base Require Import Order Cop Res.
From UV.Gen Require Import Tables.
From UV.Vers Require Import Model Spec ContainsProofs SortProofs ValidateProofs.
Import ListNotations.

Theorem C07_accepts_exactly_wellformed :
  forall (V : Type) (cmp : V -> V -> comparison), TPO cmp ->
  forall cs : list (constr V), validate V cmp cs = Ok true <-> wf V cmp cs.
Proof. exact validate_exact. Qed.

Theorem C07_rejects_with_ValueError :
  forall (V : Type) (cmp : V -> V -> comparison), TPO cmp ->
  forall cs : list (constr V), validate V cmp cs = Ok true \/ validate V cmp cs = Err EValue.
Proof. exact validate_rejects_with_value_error. Qed.

Theorem C07_accepted_lists_can_be_tested :
  forall (V : Type) (cmp : V -> V -> comparison), TPO cmp ->
  forall cs : list (constr V), validate V cmp cs = Ok true ->
  exists s, sort_c V cmp cs = Ok s /\ Permutation cs s /\ wf_sorted V cmp s = true /\
            forall v, contains V cmp s v = Ok (den V cmp s v).
Proof. exact validated_then_contains. Qed.

(* Non-vacuity: an accepted shuffled list, and rejected ones of each kind *)
Example C07_nonvacuous :
  validate Z Z.compare [C LT 10; C EQ 4; C GT 6; C NE 5; C LE 2; C GE 14; C NE 8; C EQ 12]%Z = Ok true /\
  validate Z Z.compare [C EQ 4; C LT 6]%Z = Err EValue /\
  validate Z Z.compare [C GT 4; C GE 6]%Z = Err EValue /\
  validate Z Z.compare [C GT 4; C LT 4]%Z = Err EValue /\
  validate Z Z.compare [Star; C EQ 4]%Z = Err EValue /\
  validate Z Z.compare [Star] = Ok true.
Proof. vm_compute. repeat split. Qed.

Print Assumptions C07_accepts_exactly_wellformed.
Print Assumptions C07_rejects_with_ValueError.
Print Assumptions C07_accepted_lists_can_be_tested.
