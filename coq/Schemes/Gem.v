(* RubygemsVersion: code-shaped model of univers.gem.GemVersion (is_correct, __init__, segments, split_segments,
   canonical_segments, __cmp__, __eq__, __hash__) and of versions.RubygemsVersion.  gem.py is itself a transliteration
   of rubygems/version.rb, so the pieces are shared with the reference in Ref/Gem.v (scan, the split at the first string
   segment, the removal of trailing zeros, the segment comparison); what is specific to the Python is spelled out here:
   the stored `version` text, the shortcut on equal texts, == on canonical segments, the attrs wrapper operators. *)
From Coq Require Import List Bool Arith Ascii String NArith Lia.
From UV.Base Require Import Order LexPad Res.
From UV.Py Require Import PyStr.
From UV.Schemes Require Import Common Generic Gentoo.
From UV.Ref Require Import Gem.
Import ListNotations.
Local Open Scope list_scope.

Record gemv := { g_original : str; g_version : str }.

(* GemVersion.__init__ after the is_correct test: "" becomes "0", "-" becomes ".pre." *)
Definition gem_build (n : str) : gemv :=
  {| g_original := n; g_version := gsub_dash (if is_empty n then ["0"%char] else n) |}.
Definition gem_valid (n : str) : bool := gem_correct n.
Definition gem_ctor (s : str) : res gemv :=
  let n := normalize s in if gem_valid n then Ok (gem_build n) else Err EInvalidVersion.
Definition gem_str (v : gemv) : str := g_original v.

(* segments / canonical_segments of the stored text *)
Definition segs (v : gemv) : list seg := scan (S (List.length (g_version v))) (g_version v).
Definition canon (v : gemv) : list seg :=
  drop_trailing_zeros (take_nums (segs v)) ++ drop_trailing_zeros (drop_nums (segs v)).

Definition seg_eqb (a b : seg) : bool :=
  match a, b with SNum x, SNum y => N.eqb x y | SStr x, SStr y => eqs x y | _, _ => false end.
(* __cmp__ *)
Definition gem_cmp (a b : gemv) : comparison :=
  if eqs (g_version a) (g_version b) then Eq
  else if list_eqb seg_eqb (canon a) (canon b) then Eq
  else segs_cmp (canon a) (canon b).
(* __eq__: canonical segments; the others through __cmp__; the wrapper compares (value,) tuples: == first *)
Definition gem_eq (a b : gemv) : bool := list_eqb seg_eqb (canon a) (canon b).
Definition gem_ops (a b : gemv) : ops :=
  let c := gem_cmp a b in
  let e := gem_eq a b in
  {| o_eq := e; o_ne := negb e;
     o_lt := if e then false else o_lt (ops_of c);
     o_le := if e then true else o_le (ops_of c);
     o_gt := if e then false else o_gt (ops_of c);
     o_ge := if e then true else o_ge (ops_of c) |}.
Definition gem_hasheq (a b : gemv) : bool := gem_eq a b.      (* hash(canonical_segments) *)
