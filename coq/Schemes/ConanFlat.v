(* conan, the plain-release sub-domain: versions made of numeric items only, without pre-release and build parts
   ("1.2.3", "2.0", "10.0.1.7").  There the comparison of the vendored conan Version is the lexicographic order of
   the integer lists left after the trailing zeros are dropped (a proper prefix first), a total preorder.  (With words
   among the items the order is not transitive: a number and a word in the same position are compared as texts; that
   is the sub-domain the property excludes.) *)
From Coq Require Import List Bool Arith Ascii String NArith ZArith Lia.
From UV.Base Require Import Order Res.
From UV.Py Require Import PyStr.
From UV.Schemes Require Import Common Generic Conan.
From UV.Schemes Require GentooProofs.
Import ListNotations.
Local Open Scope list_scope.

Definition is_int (i : citem) : bool := match i with IInt _ => true | IStr _ => false end.
Definition int_of (i : citem) : Z := match i with IInt z => z | IStr _ => 0%Z end.
Definition flat_num (v : cver) : bool :=
  match cv_pre v, cv_build v with None, None => forallb is_int (cv_nz v) | _, _ => false end.
Definition ints (v : cver) : list Z := map int_of (cv_nz v).

Lemma items_eq_lex : forall l1 l2, forallb is_int l1 = true -> forallb is_int l2 = true ->
  items_eq l1 l2 = match cmp_lex Z.compare (map int_of l1) (map int_of l2) with Eq => true | _ => false end.
Proof.
  induction l1 as [|x r1 IH]; intros [|y r2] H1 H2; try reflexivity.
  cbn [forallb] in H1, H2. apply andb_true_iff in H1, H2. destruct H1 as [Hx Hr1], H2 as [Hy Hr2].
  destruct x as [a|?], y as [b|?]; try discriminate. cbn [items_eq item_eq map int_of cmp_lex]. rewrite (IH r2 Hr1 Hr2).
  destruct (Z.compare_spec a b) as [E|L|G].
  - subst. rewrite Z.eqb_refl. reflexivity.
  - assert (Z.eqb a b = false) by (apply Z.eqb_neq; lia). rewrite H. reflexivity.
  - assert (Z.eqb a b = false) by (apply Z.eqb_neq; lia). rewrite H. reflexivity.
Qed.
Lemma items_lt_lex : forall l1 l2, forallb is_int l1 = true -> forallb is_int l2 = true ->
  items_lt l1 l2 = match cmp_lex Z.compare (map int_of l1) (map int_of l2) with Lt => true | _ => false end.
Proof.
  induction l1 as [|x r1 IH]; intros [|y r2] H1 H2; try reflexivity.
  cbn [forallb] in H1, H2. apply andb_true_iff in H1, H2. destruct H1 as [Hx Hr1], H2 as [Hy Hr2].
  destruct x as [a|?], y as [b|?]; try discriminate. cbn [items_lt item_eq item_lt map int_of cmp_lex]. rewrite (IH r2 Hr1 Hr2).
  destruct (Z.compare_spec a b) as [E|L|G].
  - subst. rewrite Z.eqb_refl. reflexivity.
  - assert (Z.eqb a b = false) by (apply Z.eqb_neq; lia). rewrite H. apply Z.ltb_lt. exact L.
  - assert (Z.eqb a b = false) by (apply Z.eqb_neq; lia). rewrite H. apply Z.ltb_ge. lia.
Qed.

Definition conan_flat_order (a b : cver) : comparison := cmp_lex Z.compare (ints a) (ints b).

Theorem conan_flat_tpo : TPO conan_flat_order.
Proof. apply (tpo_of_key (cmp_lex Z.compare) ints conan_flat_order); [apply tpo_lex; exact UV.Schemes.GentooProofs.tpo_Z|reflexivity]. Qed.

Theorem conan_cmp_flat a b : flat_num a = true -> flat_num b = true -> conan_cmp a b = conan_flat_order a b.
Proof.
  unfold flat_num, conan_cmp, conan_eqb, conan_ltb, fuel_of, conan_flat_order, ints. intros Ha Hb.
  destruct (cv_pre a) eqn:Pa; [discriminate|]. destruct (cv_build a) eqn:Ba; [discriminate|].
  destruct (cv_pre b) eqn:Pb; [discriminate|]. destruct (cv_build b) eqn:Bb; [discriminate|].
  cbn [cver_eq cver_lt]. rewrite Pa, Pb, Ba, Bb. cbn [opt_eq opt_lt negb]. rewrite !andb_true_r.
  rewrite (items_eq_lex _ _ Ha Hb), (items_lt_lex _ _ Ha Hb).
  destruct (cmp_lex Z.compare (map int_of (cv_nz a)) (map int_of (cv_nz b))); reflexivity.
Qed.

Example conan_flat_inhabited :
  exists a b, conan_ctor (list_ascii_of_string "v1.2.0") = Ok a /\ conan_ctor (list_ascii_of_string "1.10") = Ok b /\
              flat_num a = true /\ flat_num b = true /\ conan_cmp a b = Lt /\ ints a = [1; 2]%Z.
Proof. eexists. eexists. split; [reflexivity|]. split; [reflexivity|]. repeat split; vm_compute; reflexivity. Qed.
