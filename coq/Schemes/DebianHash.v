(* C12 for deb: versions that compare equal have the same parts (non-digit prefix, number) once the trailing empty
   parts are dropped, which is what debian.Version.__hash__ hashes with the epoch. *)
From Coq Require Import List Bool Arith Ascii String NArith Lia.
From UV.Base Require Import Order LexPad Res.
From UV.Gen Require Import Tables.
From UV.Py Require Import PyStr.
From UV.Schemes Require Import Common Generic Debian DebianProofs.
From UV.Ref Require Import Deb.
Import ListNotations.
Local Open Scope list_scope.

(* ranks of the table characters are pairwise different and none is the rank of the empty string *)
Definition inj_row (c1 : ascii) : bool :=
  negb (Nat.eqb (rk c1) er) && forallb (fun c2 => implb (Nat.eqb (rk c1) (rk c2)) (eqc c1 c2)) table_chars.
Lemma ranks_injective_ok : forall c1, In c1 table_chars -> inj_row c1 = true.
Proof. apply forallb_forall. vm_compute. reflexivity. Qed.

Lemma rk_not_er c : in_table c = true -> rk c <> er.
Proof.
  intros H. pose proof (ranks_injective_ok c (in_table_listed c H)) as R. unfold inj_row in R.
  apply andb_true_iff in R. destruct R as [R _]. apply negb_true_iff in R. apply Nat.eqb_neq in R. exact R.
Qed.
Lemma rk_inj c1 c2 : in_table c1 = true -> in_table c2 = true -> rk c1 = rk c2 -> c1 = c2.
Proof.
  intros H1 H2 E. pose proof (ranks_injective_ok c1 (in_table_listed c1 H1)) as R. unfold inj_row in R.
  apply andb_true_iff in R. destruct R as [_ R]. pose proof (proj1 (forallb_forall _ _) R c2 (in_table_listed c2 H2)) as R2. cbv beta in R2.
  rewrite E, Nat.eqb_refl in R2. cbn in R2. apply eqc_eq. exact R2.
Qed.

(* equal prefixes *)
Lemma vs_pad_l_nat : forall l, Forall (fun n => n <> er) l -> vs_pad_l Nat.compare er l = Eq -> l = [].
Proof.
  intros l F. destruct l as [|x r]; [reflexivity|]. cbn [vs_pad_l vs_pad_r]. inversion F as [|? ? Hx _]; subst.
  destruct (Nat.compare x er) eqn:E; try discriminate. apply Nat.compare_eq in E. congruence.
Qed.
Lemma vs_pad_r_nat : forall l, Forall (fun n => n <> er) l -> vs_pad_r Nat.compare er l = Eq -> l = [].
Proof.
  intros l F. destruct l as [|x r]; [reflexivity|]. cbn [vs_pad_l vs_pad_r]. inversion F as [|? ? Hx _]; subst.
  destruct (Nat.compare er x) eqn:E; try discriminate. apply Nat.compare_eq in E. congruence.
Qed.
Lemma pad_nat_eq : forall l1 l2, Forall (fun n => n <> er) l1 -> Forall (fun n => n <> er) l2 ->
  cmp_pad Nat.compare er l1 l2 = Eq -> l1 = l2.
Proof.
  induction l1 as [|x r1 IH]; intros l2 F1 F2 H.
  - cbn [cmp_pad] in H. symmetry. apply vs_pad_r_nat; assumption.
  - destruct l2 as [|y r2]; [apply (vs_pad_l_nat (x :: r1)); assumption|].
    cbn [cmp_pad] in H. destruct (Nat.compare x y) eqn:E; try discriminate. apply Nat.compare_eq in E. subst y.
    inversion F1; inversion F2; subst. f_equal. apply IH; assumption.
Qed.

Lemma ranked_ranks p : ranked p = true -> Forall (fun n => n <> er) (map rk p).
Proof.
  intros R. apply Forall_forall. intros n Hn. apply in_map_iff in Hn. destruct Hn as [c [<- Hc]].
  unfold ranked in R. rewrite forallb_forall in R. apply rk_not_er. specialize (R c Hc). unfold in_table. exact R.
Qed.
Lemma map_rk_inj : forall p q, ranked p = true -> ranked q = true -> map rk p = map rk q -> p = q.
Proof.
  induction p as [|a r IH]; intros [|b s] Rp Rq H; cbn in H; try discriminate; [reflexivity|].
  unfold ranked in Rp, Rq. cbn [forallb] in Rp, Rq. apply andb_true_iff in Rp, Rq. destruct Rp as [Ra Rr], Rq as [Rb Rs].
  inversion H as [[E1 E2]]. f_equal; [apply rk_inj; [exact Ra|exact Rb|exact E1]|apply IH; assumption].
Qed.
Lemma pref_cmp_eq p q : ranked p = true -> ranked q = true -> pref_cmp p q = Eq -> p = q.
Proof.
  intros Rp Rq H. apply map_rk_inj; [exact Rp|exact Rq|]. apply pad_nat_eq; [apply ranked_ranks; exact Rp|apply ranked_ranks; exact Rq|exact H].
Qed.

(* equal tokens *)
Lemma tcmp_eq x y : tok_ok x -> tok_ok y -> tcmp x y = Eq -> x = y.
Proof.
  destruct x as [p n], y as [q m]. unfold tok_ok, tcmp, cmp_pair. cbn [fst snd]. intros Rp Rq H.
  destruct (pref_cmp p q) eqn:E; try discriminate. apply (pref_cmp_eq p q Rp Rq) in E. apply N.compare_eq in H. subst. reflexivity.
Qed.

Definition is_empty_tok (x : tok) : bool := is_empty (fst x) && N.eqb (snd x) 0.
Lemma is_empty_tok_spec x : is_empty_tok x = true <-> x = empty_tok.
Proof.
  destruct x as [p n]. unfold is_empty_tok, empty_tok. cbn [fst snd]. split.
  - intros H. apply andb_true_iff in H. destruct H as [H1 H2]. destruct p; [|discriminate]. apply N.eqb_eq in H2. subst n. reflexivity.
  - intros H. inversion H. reflexivity.
Qed.

Lemma dte_cons x r : drop_trailing_empty (x :: r) =
  match drop_trailing_empty r with [] => if is_empty_tok x then [] else [x] | r' => x :: r' end.
Proof. reflexivity. Qed.

Lemma all_empty_dte : forall l, Forall (fun x => x = empty_tok) l -> drop_trailing_empty l = [].
Proof.
  induction l as [|x r IH]; intros F; [reflexivity|]. inversion F; subst. rewrite dte_cons, (IH H2). reflexivity.
Qed.
Lemma vs_pad_l_tok : forall l, Forall tok_ok l -> vs_pad_l tcmp empty_tok l = Eq -> Forall (fun x => x = empty_tok) l.
Proof.
  induction l as [|x r IH]; intros F H; [constructor|]. inversion F; subst. cbn in H.
  destruct (tcmp x empty_tok) eqn:E; try discriminate. constructor; [apply tcmp_eq; [assumption|reflexivity|exact E]|apply IH; assumption].
Qed.
Lemma vs_pad_r_tok : forall l, Forall tok_ok l -> vs_pad_r tcmp empty_tok l = Eq -> Forall (fun x => x = empty_tok) l.
Proof.
  induction l as [|x r IH]; intros F H; [constructor|]. inversion F; subst. cbn in H.
  destruct (tcmp empty_tok x) eqn:E; try discriminate. constructor; [symmetry; apply tcmp_eq; [reflexivity|assumption|exact E]|apply IH; assumption].
Qed.

Theorem toks_cmp_eq_parts : forall l1 l2, Forall tok_ok l1 -> Forall tok_ok l2 ->
  toks_cmp l1 l2 = Eq -> drop_trailing_empty l1 = drop_trailing_empty l2.
Proof.
  unfold toks_cmp. induction l1 as [|x r1 IH]; intros l2 F1 F2 H.
  - cbn in H. rewrite (all_empty_dte l2 (vs_pad_r_tok l2 F2 H)). reflexivity.
  - destruct l2 as [|y r2].
    + rewrite (all_empty_dte (x :: r1) (vs_pad_l_tok (x :: r1) F1 H)). reflexivity.
    + cbn in H. inversion F1; inversion F2; subst. destruct (tcmp x y) eqn:E; try discriminate.
      apply tcmp_eq in E; [|assumption|assumption]. subst y. rewrite !dte_cons, (IH r2) by assumption. reflexivity.
Qed.

Lemma parts_eqb_refl : forall l, parts_eqb l l = true.
Proof.
  induction l as [|x r IH]; [reflexivity|]. cbn. rewrite IH, andb_true_r. unfold part_eqb. rewrite N.eqb_refl, andb_true_r. apply eqs_eq. reflexivity.
Qed.

Theorem deb_eq_hash a b : dok a = true -> dok b = true -> deb_cmp a b = Eq -> deb_hasheq a b = true.
Proof.
  intros Ha Hb. unfold dok in *. apply andb_true_iff in Ha, Hb. destruct Ha as [Ua Ra], Hb as [Ub Rb].
  unfold deb_cmp, dkcmp, dkey, cmp_pair. cbn [fst snd].
  destruct (N.compare (d_epoch a) (d_epoch b)) eqn:E; try discriminate.
  destruct (toks_cmp (toks (d_upstream a)) (toks (d_upstream b))) eqn:U; try discriminate. intros R.
  apply N.compare_eq in E.
  apply toks_cmp_eq_parts in U; [|apply toks_ok; assumption|apply toks_ok; assumption].
  apply toks_cmp_eq_parts in R; [|apply toks_ok; assumption|apply toks_ok; assumption].
  unfold deb_hasheq, get_parts. fold (toks (d_upstream a)) (toks (d_upstream b)) (toks (d_revision a)) (toks (d_revision b)).
  rewrite U, R, E, N.eqb_refl, !parts_eqb_refl. reflexivity.
Qed.
