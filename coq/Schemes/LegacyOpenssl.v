(* LegacyOpensslVersion: code-shaped model of parse / __str__ / the six operators / the hashed value,
   and the order key they refine to. *)
From Coq Require Import List Bool Arith Ascii String NArith Lia.
From UV.Base Require Import Order Res.
From UV.Gen Require Import Tables.
From UV.Py Require Import PyStr.
From UV.Schemes Require Import Common Generic.
Import ListNotations.
Local Open Scope list_scope.

Record legacy := { l_major : N; l_minor : N; l_build : N; l_patch : str }.

Definition bases : list str := map list_ascii_of_string legacy_base.
Definition c_dot : ascii := "."%char.

(* LegacyOpensslVersion.parse: None = returns False; Err = raises *)
(* f"{major}.{minor}.{build}" in all_legacy_base *)
Definition known_base (v : legacy) : bool :=
  existsb (eqs (str_of_N (l_major v) ++ c_dot :: str_of_N (l_minor v) ++ c_dot :: str_of_N (l_build v))) bases.
Definition checked (v : legacy) : res (option legacy) := if known_base v then Ok (Some v) else Ok None.

Definition leg_parse (s : str) : res (option legacy) :=
  if negb (existsb (startswith s) bases) then Ok None
  else match split_c c_dot s with
       | [a; b; c] =>
           if negb (isdigit a && isdigit b) then Err EValue          (* int(major) / int(minor) *)
           else if isdigit c then checked {| l_major := int_of_digits a; l_minor := int_of_digits b; l_build := int_of_digits c; l_patch := [] |}
           else match c with
                | [] => Err EIndex                                   (* build[0] *)
                | c0 :: patch =>
                    if negb (is_digit c0) then Err EValue            (* int(build[0]) *)
                    else match patch with
                         | [] => Err EIndex                          (* patch[0] *)
                         | p0 :: _ => if is_digit p0 then Ok None
                                      else checked {| l_major := int_of_digits a; l_minor := int_of_digits b; l_build := digit_val c0; l_patch := patch |}
                         end
                end
       | _ => Ok None
       end.

(* the constructor: normalize, is_valid = bool(parse), build_value = parse *)
Definition leg_ctor (s : str) : res legacy :=
  match leg_parse (normalize s) with
  | Err e => Err e
  | Ok None => Err EInvalidVersion
  | Ok (Some v) => Ok v
  end.
Definition leg_valid (n : str) : res bool :=
  match leg_parse n with Err e => Err e | Ok None => Ok false | Ok (Some _) => Ok true end.

Definition leg_str (v : legacy) : str :=
  str_of_N (l_major v) ++ c_dot :: str_of_N (l_minor v) ++ c_dot :: str_of_N (l_build v) ++ l_patch v.

Definition is_pre (v : legacy) : bool :=
  startswith (l_patch v) (list_ascii_of_string "-beta") || startswith (l_patch v) (list_ascii_of_string "-alpha")
  || startswith (l_patch v) (list_ascii_of_string "-pre").

(* tuple comparison of the value (major, minor, build, patch) *)
Definition tuple_cmp (a b : legacy) : comparison :=
  match N.compare (l_major a) (l_major b) with
  | Eq => match N.compare (l_minor a) (l_minor b) with
          | Eq => match N.compare (l_build a) (l_build b) with
                  | Eq => cmp_str (l_patch a) (l_patch b)
                  | o => o end
          | o => o end
  | o => o end.
Definition same_base (a b : legacy) : bool :=
  N.eqb (l_major a) (l_major b) && N.eqb (l_minor a) (l_minor b) && N.eqb (l_build a) (l_build b).

Definition is_lt (c : comparison) := match c with Lt => true | _ => false end.
Definition is_gt (c : comparison) := match c with Gt => true | _ => false end.
Definition is_eq (c : comparison) := match c with Eq => true | _ => false end.

(* the operators as written in versions.py (with __le__/__ge__ = lt-or-eq / gt-or-eq) *)
Definition leg_lt (a b : legacy) : bool :=
  if same_base a b && negb (Bool.eqb (is_pre a) (is_pre b)) then is_pre a else is_lt (tuple_cmp a b).
Definition leg_gt (a b : legacy) : bool :=
  if same_base a b && negb (Bool.eqb (is_pre a) (is_pre b)) then is_pre b else is_gt (tuple_cmp a b).
Definition leg_eq (a b : legacy) : bool := is_eq (tuple_cmp a b).          (* attrs: value == value *)
Definition leg_ops (a b : legacy) : ops :=
  {| o_eq := leg_eq a b; o_ne := negb (leg_eq a b); o_lt := leg_lt a b; o_le := leg_lt a b || leg_eq a b;
     o_gt := leg_gt a b; o_ge := leg_gt a b || leg_eq a b |}.
Definition leg_hashkey (v : legacy) : N * N * N * str := (l_major v, l_minor v, l_build v, l_patch v).

(* ---- the order: (major, minor, build, release-after-prerelease, patch) ------------- *)
Definition leg_cmp (a b : legacy) : comparison :=
  match N.compare (l_major a) (l_major b) with
  | Eq => match N.compare (l_minor a) (l_minor b) with
          | Eq => match N.compare (l_build a) (l_build b) with
                  | Eq => match cmp_bool (negb (is_pre a)) (negb (is_pre b)) with
                          | Eq => cmp_str (l_patch a) (l_patch b)
                          | o => o end
                  | o => o end
          | o => o end
  | o => o end.

Definition leg_key (v : legacy) : N * (N * (N * (bool * str))) :=
  (l_major v, (l_minor v, (l_build v, (negb (is_pre v), l_patch v)))).
Definition key_cmp := cmp_pair N.compare (cmp_pair N.compare (cmp_pair N.compare (cmp_pair cmp_bool cmp_str))).

Lemma leg_cmp_key a b : leg_cmp a b = key_cmp (leg_key a) (leg_key b).
Proof. reflexivity. Qed.

Theorem leg_tpo : TPO leg_cmp.
Proof.
  apply (tpo_of_key key_cmp leg_key leg_cmp); [|exact leg_cmp_key].
  repeat apply tpo_pair; auto using tpo_N, tpo_bool, tpo_str.
Qed.

(* the six operators are the ones of that order *)
Theorem leg_ops_spec a b : leg_ops a b = ops_of (leg_cmp a b).
Proof.
  unfold leg_ops, leg_lt, leg_gt, leg_eq, leg_cmp, tuple_cmp, same_base.
  destruct (N.compare (l_major a) (l_major b)) eqn:E1;
    [apply N.compare_eq in E1; rewrite E1, N.eqb_refl
    |assert (X : N.eqb (l_major a) (l_major b) = false) by (apply N.eqb_neq; intro F; rewrite F, N.compare_refl in E1; discriminate); rewrite X; reflexivity
    |assert (X : N.eqb (l_major a) (l_major b) = false) by (apply N.eqb_neq; intro F; rewrite F, N.compare_refl in E1; discriminate); rewrite X; reflexivity].
  destruct (N.compare (l_minor a) (l_minor b)) eqn:E2;
    [apply N.compare_eq in E2; rewrite E2, N.eqb_refl
    |assert (X : N.eqb (l_minor a) (l_minor b) = false) by (apply N.eqb_neq; intro F; rewrite F, N.compare_refl in E2; discriminate); rewrite X; reflexivity
    |assert (X : N.eqb (l_minor a) (l_minor b) = false) by (apply N.eqb_neq; intro F; rewrite F, N.compare_refl in E2; discriminate); rewrite X; reflexivity].
  destruct (N.compare (l_build a) (l_build b)) eqn:E3;
    [apply N.compare_eq in E3; rewrite E3, N.eqb_refl
    |assert (X : N.eqb (l_build a) (l_build b) = false) by (apply N.eqb_neq; intro F; rewrite F, N.compare_refl in E3; discriminate); rewrite X; reflexivity
    |assert (X : N.eqb (l_build a) (l_build b) = false) by (apply N.eqb_neq; intro F; rewrite F, N.compare_refl in E3; discriminate); rewrite X; reflexivity].
  cbn [andb].
  destruct (is_pre a) eqn:Pa, (is_pre b) eqn:Pb; cbn.
  - destruct (cmp_str (l_patch a) (l_patch b)); reflexivity.
  - (* a pre-release, b not: a < b; their patches differ *)
    assert (N : cmp_str (l_patch a) (l_patch b) <> Eq).
    { intro F. apply cmp_str_eq in F. unfold is_pre in Pa, Pb. rewrite F in Pa. congruence. }
    destruct (cmp_str (l_patch a) (l_patch b)); try congruence; reflexivity.
  - assert (N : cmp_str (l_patch a) (l_patch b) <> Eq).
    { intro F. apply cmp_str_eq in F. unfold is_pre in Pa, Pb. rewrite F in Pa. congruence. }
    destruct (cmp_str (l_patch a) (l_patch b)); try congruence; reflexivity.
  - destruct (cmp_str (l_patch a) (l_patch b)); reflexivity.
Qed.

Theorem leg_ops_agree a b : ops_agree (leg_ops a b) = true.
Proof. rewrite leg_ops_spec. apply ops_of_agree. Qed.

(* equal versions hash alike: == is equality of the hashed tuple *)
Theorem leg_eq_hash a b : leg_eq a b = true -> leg_hashkey a = leg_hashkey b.
Proof.
  unfold leg_eq, tuple_cmp, leg_hashkey.
  destruct (N.compare (l_major a) (l_major b)) eqn:E1; try discriminate.
  destruct (N.compare (l_minor a) (l_minor b)) eqn:E2; try discriminate.
  destruct (N.compare (l_build a) (l_build b)) eqn:E3; try discriminate.
  destruct (cmp_str (l_patch a) (l_patch b)) eqn:E4; try discriminate.
  apply N.compare_eq in E1, E2, E3. apply cmp_str_eq in E4. intros _. congruence.
Qed.

(* validity check and constructor agree; a failed construction is the invalid-version error
   (the int()/indexing steps of parse cannot fail after the prefix test -- see leg_parse_total) *)
Theorem leg_valid_iff_ctor s : leg_valid (normalize s) = Ok true <-> exists v, leg_ctor s = Ok v.
Proof.
  unfold leg_valid, leg_ctor. destruct (leg_parse (normalize s)) as [[v|]|e]; split; intros H; eauto; try discriminate;
    destruct H; discriminate.
Qed.
