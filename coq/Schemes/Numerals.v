(* Decimal numerals: int() is injective on digit strings without leading zeros. *)
From Coq Require Import List Bool Arith Ascii NArith Lia.
From UV.Py Require Import PyStr.
From UV.Schemes Require Import Common.
Import ListNotations.

(* little-endian value of a list of digit values *)
Fixpoint val_le (l : list N) : N := match l with [] => 0 | d :: r => d + 10 * val_le r end%N.

Lemma fold_digits_app : forall s acc,
  fold_left (fun a c => (a * 10 + digit_val c)%N) s acc
  = (acc * N.pow 10 (N.of_nat (length s)) + fold_left (fun a c => (a * 10 + digit_val c)%N) s 0)%N.
Proof.
  induction s as [|c r IH]; intros acc.
  - cbn. lia.
  - cbn [fold_left length]. rewrite (IH (acc * 10 + digit_val c)%N), (IH (0 * 10 + digit_val c)%N).
    rewrite Nat2N.inj_succ, N.pow_succ_r'. lia.
Qed.

Lemma int_of_digits_snoc s c : int_of_digits (s ++ [c]) = (int_of_digits s * 10 + digit_val c)%N.
Proof. unfold int_of_digits. rewrite fold_left_app. reflexivity. Qed.

Lemma int_val_le : forall s, int_of_digits s = val_le (rev (map digit_val s)).
Proof.
  intros s. rewrite <- (rev_involutive s). generalize (rev s) as l. clear s.
  induction l as [|c r IH]; [reflexivity|].
  cbn [rev]. rewrite int_of_digits_snoc, IH. rewrite map_app, rev_app_distr. cbn [map rev app val_le]. lia.
Qed.

Definition small (l : list N) : Prop := Forall (fun d => (d < 10)%N) l.

Fixpoint all_zero (l : list N) : bool := match l with [] => true | d :: r => N.eqb d 0 && all_zero r end.

Lemma val_zero : forall l, small l -> val_le l = 0%N -> all_zero l = true.
Proof.
  induction l as [|d r IH]; intros S H; [reflexivity|].
  inversion S as [|? ? Hd Sr]; subst. cbn [val_le] in H. cbn [all_zero].
  assert (d = 0%N) by lia. assert (val_le r = 0%N) by lia. subst. rewrite (IH Sr H1). reflexivity.
Qed.

(* equal values: equal digit lists up to zeros at the (little-endian) end *)
Theorem val_le_inj : forall l1 l2, small l1 -> small l2 -> val_le l1 = val_le l2 ->
  exists z1 z2 common, l1 = common ++ z1 /\ l2 = common ++ z2 /\ all_zero z1 = true /\ all_zero z2 = true.
Proof.
  induction l1 as [|d1 r1 IH]; intros l2 S1 S2 H.
  - exists [], l2, []. cbn in *. repeat split; auto. apply val_zero; auto.
  - destruct l2 as [|d2 r2].
    + exists (d1 :: r1), [], []. repeat split; auto. apply val_zero; auto.
    + inversion S1 as [|? ? Hd1 Sr1]; subst. inversion S2 as [|? ? Hd2 Sr2]; subst.
      cbn [val_le] in H. assert (d1 = d2) by lia. assert (E : val_le r1 = val_le r2) by lia. subst d2.
      destruct (IH r2 Sr1 Sr2 E) as [z1 [z2 [c [E1 [E2 [Z1 Z2]]]]]].
      exists z1, z2, (d1 :: c). cbn. rewrite <- E1, <- E2. auto.
Qed.

(* big-endian digit strings: canonical = no leading zero unless the string is "0" *)
Definition canonical (s : str) : bool :=
  match s with
  | [] => false
  | [c] => is_digit c
  | c :: _ => is_digit c && negb (eqc c "0"%char) && all_digits s
  end.

Lemma digit_val_small c : is_digit c = true -> (digit_val c < 10)%N.
Proof. unfold is_digit, digit_val. intros H. apply andb_true_iff in H. destruct H as [H1 H2]. apply N.leb_le in H1, H2. lia. Qed.

Lemma digit_val_inj a b : is_digit a = true -> is_digit b = true -> digit_val a = digit_val b -> a = b.
Proof.
  unfold is_digit, digit_val. intros Ha Hb H. apply andb_true_iff in Ha, Hb. destruct Ha as [A1 A2], Hb as [B1 B2].
  apply N.leb_le in A1, A2, B1, B2. apply code_inj. lia.
Qed.

Lemma digit_val_zero c : is_digit c = true -> digit_val c = 0%N -> c = "0"%char.
Proof.
  unfold is_digit, digit_val. intros Ha H. apply andb_true_iff in Ha. destruct Ha as [A1 A2]. apply N.leb_le in A1, A2.
  apply code_inj. change (code "0"%char) with 48%N. lia.
Qed.

Lemma all_zero_rev l : all_zero (rev l) = all_zero l.
Proof.
  induction l as [|d r IH]; [reflexivity|]. cbn [rev all_zero].
  assert (G : forall a b, all_zero (a ++ b) = all_zero a && all_zero b).
  { induction a as [|x a' IHa]; intros b; [reflexivity|]. cbn. rewrite IHa. apply andb_assoc. }
  rewrite G, IH. cbn. rewrite andb_true_r. apply andb_comm.
Qed.

Lemma map_digit_val_inj : forall a b, all_digits a = true -> all_digits b = true ->
  map digit_val a = map digit_val b -> a = b.
Proof.
  induction a as [|x a' IH]; intros [|y b'] Ha Hb H; cbn in H; try discriminate; [reflexivity|].
  inversion H. cbn [all_digits forallb] in Ha, Hb. apply andb_true_iff in Ha, Hb. destruct Ha as [Dx Da], Hb as [Dy Db].
  f_equal; [apply digit_val_inj; assumption|apply IH; assumption].
Qed.

(* a canonical digit string whose digit values start with a zero is "0" *)
Lemma canonical_leading_zero s d r : canonical s = true -> map digit_val s = d :: r -> d = 0%N -> s = ["0"%char].
Proof.
  intros C M Z. destruct s as [|c t]; [discriminate|]. cbn in M. inversion M; subst.
  destruct t as [|c2 t'].
  - cbn in C. rewrite (digit_val_zero c C H0). reflexivity.
  - cbn [canonical] in C. apply andb_true_iff in C. destruct C as [C _]. apply andb_true_iff in C. destruct C as [Dc Nz].
    rewrite (digit_val_zero c Dc H0) in Nz. discriminate.
Qed.

Lemma canonical_digits s : canonical s = true -> all_digits s = true /\ s <> [].
Proof.
  destruct s as [|c t]; [discriminate|]. intros C. split; [|discriminate].
  destruct t as [|c2 t']; [cbn in *; rewrite C; reflexivity|].
  cbn [canonical] in C. apply andb_true_iff in C. tauto.
Qed.

(* int() is injective on canonical digit strings *)
Theorem int_of_digits_inj : forall a b, canonical a = true -> canonical b = true ->
  int_of_digits a = int_of_digits b -> a = b.
Proof.
  intros a b Ca Cb H.
  destruct (canonical_digits a Ca) as [Da Na]. destruct (canonical_digits b Cb) as [Db Nb].
  rewrite !int_val_le in H.
  assert (Sa : small (rev (map digit_val a))).
  { unfold small. apply Forall_rev. apply Forall_forall. intros d Hd. apply in_map_iff in Hd. destruct Hd as [c [<- Hc]].
    apply digit_val_small. unfold all_digits in Da. rewrite forallb_forall in Da. apply Da. exact Hc. }
  assert (Sb : small (rev (map digit_val b))).
  { unfold small. apply Forall_rev. apply Forall_forall. intros d Hd. apply in_map_iff in Hd. destruct Hd as [c [<- Hc]].
    apply digit_val_small. unfold all_digits in Db. rewrite forallb_forall in Db. apply Db. exact Hc. }
  destruct (val_le_inj _ _ Sa Sb H) as [z1 [z2 [cm [E1 [E2 [Z1 Z2]]]]]].
  apply (f_equal (@rev N)) in E1, E2. rewrite rev_involutive, rev_app_distr in E1, E2.
  (* big-endian: leading zeros (rev z) then the common part *)
  destruct (rev z1) as [|d1 t1] eqn:R1, (rev z2) as [|d2 t2] eqn:R2; cbn [app] in E1, E2.
  - apply map_digit_val_inj; auto. congruence.
  - (* b starts with a zero: b = "0", so the common part is empty and a = "0" too *)
    assert (d2 = 0%N).
    { assert (X : all_zero (d2 :: t2) = true) by (rewrite <- R2, all_zero_rev; exact Z2). cbn in X. apply andb_true_iff in X. destruct X as [X _]. apply N.eqb_eq in X. exact X. }
    pose proof (canonical_leading_zero b d2 _ Cb E2 H0) as Eb. subst b. cbn in E2. inversion E2.
    destruct t2; [|discriminate]. cbn in H3. assert (rev cm = []) by (destruct (rev cm); [reflexivity|discriminate]).
    rewrite H1 in E1. destruct a; [congruence|discriminate].
  - assert (d1 = 0%N).
    { assert (X : all_zero (d1 :: t1) = true) by (rewrite <- R1, all_zero_rev; exact Z1). cbn in X. apply andb_true_iff in X. destruct X as [X _]. apply N.eqb_eq in X. exact X. }
    pose proof (canonical_leading_zero a d1 _ Ca E1 H0) as Ea. subst a. cbn in E1. inversion E1.
    destruct t1; [|discriminate]. cbn in H3. assert (rev cm = []) by (destruct (rev cm); [reflexivity|discriminate]).
    rewrite H1 in E2. destruct b; [congruence|discriminate].
  - assert (d1 = 0%N).
    { assert (X : all_zero (d1 :: t1) = true) by (rewrite <- R1, all_zero_rev; exact Z1). cbn in X. apply andb_true_iff in X. destruct X as [X _]. apply N.eqb_eq in X. exact X. }
    assert (d2 = 0%N).
    { assert (X : all_zero (d2 :: t2) = true) by (rewrite <- R2, all_zero_rev; exact Z2). cbn in X. apply andb_true_iff in X. destruct X as [X _]. apply N.eqb_eq in X. exact X. }
    rewrite (canonical_leading_zero a d1 _ Ca E1 H0), (canonical_leading_zero b d2 _ Cb E2 H1). reflexivity.
Qed.
