(* C11 for deb: the printed form of a constructed DebianVersion constructs the same version again (epoch, upstream and
   revision), including the spellings that print differently from how they were written: an explicit zero epoch, an
   epoch with leading zeros, an explicit "-0" revision. *)
From Coq Require Import List Bool Arith Ascii String NArith Lia.
From UV.Base Require Import Order Res.
From UV.Py Require Import PyStr.
From UV.Schemes Require Import Common Generic Numerals NumeralsStr Debian SemverRoundTrip.
From UV.Ref Require Deb.
From UV.Schemes Require TotalityProofs.
Import ListNotations.
Local Open Scope list_scope.

(* ---- partition / rpartition --------------------------------------------------------------------------------------- *)
Lemma partition_split c : forall s a b, partition_c c s = (a, true, b) -> s = a ++ c :: b /\ mem_c c a = false.
Proof.
  induction s as [|x r IH]; intros a b H; cbn [partition_c] in H; [discriminate|].
  destruct (eqc x c) eqn:E.
  - inversion H; subst. apply eqc_eq in E. subst x. split; reflexivity.
  - destruct (partition_c c r) as [[a' f'] b'] eqn:P. inversion H; subst. destruct (IH a' b eq_refl) as [S M]. split; [cbn; rewrite S; reflexivity|].
    unfold mem_c in *. cbn [existsb]. rewrite eqc_sym, E, M. reflexivity.
Qed.
Lemma mem_c_rev c s : mem_c c (rev s) = mem_c c s.
Proof.
  unfold mem_c. destruct (existsb (eqc c) s) eqn:E.
  - apply existsb_exists in E. destruct E as [x [Hx Ex]]. apply existsb_exists. exists x. split; [apply in_rev in Hx; exact Hx || (apply -> in_rev; exact Hx)|exact Ex].
  - destruct (existsb (eqc c) (rev s)) eqn:E2; [|reflexivity]. apply existsb_exists in E2. destruct E2 as [x [Hx Ex]]. apply in_rev in Hx.
    assert (existsb (eqc c) s = true) by (apply existsb_exists; exists x; split; assumption). congruence.
Qed.
Lemma rpartition_app_sep c u r : mem_c c r = false -> rpartition_c c (u ++ c :: r) = (u, true, r).
Proof.
  intros M. unfold rpartition_c. rewrite rev_app_distr. cbn [rev]. rewrite <- app_assoc. cbn [app].
  rewrite (partition_app_sep c (rev r) (rev u)) by (rewrite mem_c_rev; exact M). rewrite !rev_involutive. reflexivity.
Qed.
Lemma rpartition_split c s u r : rpartition_c c s = (u, true, r) -> s = u ++ c :: r /\ mem_c c r = false.
Proof.
  unfold rpartition_c. destruct (partition_c c (rev s)) as [[a f] b] eqn:P. destruct f; [|discriminate]. intros H. inversion H; subst.
  destruct (partition_split c _ _ _ P) as [S M]. split; [|rewrite mem_c_rev; exact M].
  rewrite <- (rev_involutive s), S, rev_app_distr. cbn [rev]. rewrite <- app_assoc. reflexivity.
Qed.

(* ---- the shape of constructed values ------------------------------------------------------------------------------ *)
(* upstream-and-revision text: what follows the epoch; the value it is split into *)
Definition split_ur (version : str) : str * str :=
  if mem_c c_hyp version then (let '(u, _, r) := rpartition_c c_hyp version in (u, r)) else (version, [c_0]).
Definition print_ur (u r : str) : str := u ++ (if negb (eqs r [c_0]) || mem_c c_hyp u then c_hyp :: r else []).

Lemma split_print_ur version : let '(u, r) := split_ur version in split_ur (print_ur u r) = (u, r) /\
  (deb_core version = true -> deb_core (print_ur u r) = true).
Proof.
  unfold split_ur. destruct (mem_c c_hyp version) eqn:M.
  - destruct (rpartition_c c_hyp version) as [[u f] r] eqn:P.
    assert (F : f = true).
    { unfold rpartition_c in P. destruct (partition_c c_hyp (rev version)) as [[a f'] b] eqn:Q.
      pose proof (UV.Schemes.TotalityProofs.partition_found c_hyp (rev version)) as PF. rewrite Q, mem_c_rev, M in PF. cbn in PF. subst f'. inversion P; reflexivity. }
    subst f. destruct (rpartition_split _ _ _ _ P) as [S Mr]. unfold print_ur.
    destruct (negb (eqs r [c_0]) || mem_c c_hyp u) eqn:K.
    + assert (M2 : mem_c c_hyp (u ++ c_hyp :: r) = true) by (unfold mem_c; rewrite existsb_app; cbn [existsb]; rewrite eqc_refl, orb_true_r; reflexivity).
      rewrite M2, (rpartition_app_sep c_hyp u r Mr). split; [reflexivity|]. rewrite <- S. auto.
    + apply orb_false_iff in K. destruct K as [K1 K2]. apply negb_false_iff in K1. apply eqs_eq in K1. subst r. rewrite app_nil_r, K2. split; [reflexivity|].
      intros C. rewrite S in C. unfold deb_core in *. destruct u as [|x t]; [cbn in C; discriminate|]. cbn [app] in C.
      apply andb_true_iff in C. destruct C as [C1 C2]. rewrite C1. rewrite forallb_app in C2. apply andb_true_iff in C2. apply C2.
  - unfold print_ur. change (eqs [c_0] [c_0]) with true. cbn [negb orb]. rewrite M, app_nil_r, M. split; [reflexivity|auto].
Qed.

Lemma deb_char_facts c : deb_char c = true \/ is_digit c = true -> is_space c = false /\ eqc c c_col = false.
Proof.
  assert (T : forallb (fun c => negb (deb_char c || is_digit c) || (negb (is_space c) && negb (eqc c c_col))) UV.Ref.Deb.all_chars = true) by (vm_compute; reflexivity).
  rewrite forallb_forall in T. specialize (T c (UV.Ref.Deb.all_chars_complete c)). intros H.
  assert (E : deb_char c || is_digit c = true) by (destruct H as [H|H]; rewrite H; [reflexivity|apply orb_true_r]).
  rewrite E in T. cbn [negb orb] in T. apply andb_true_iff in T. destruct T as [A B]. apply negb_true_iff in A, B. auto.
Qed.
Lemma digit_not_v c : is_digit c = true -> mem_c c vV = false.
Proof.
  assert (T : forallb (fun c => negb (is_digit c) || negb (mem_c c vV)) UV.Ref.Deb.all_chars = true) by (vm_compute; reflexivity).
  rewrite forallb_forall in T. specialize (T c (UV.Ref.Deb.all_chars_complete c)). intros H. rewrite H in T. apply negb_true_iff in T. exact T.
Qed.
Lemma deb_core_clean t : deb_core t = true -> mem_c c_col t = false /\ remove_spaces t = t /\ normalize t = t.
Proof.
  unfold deb_core. destruct t as [|x r]; [discriminate|]. intros H. apply andb_true_iff in H. destruct H as [Hx Hr].
  assert (A : forall y, In y (x :: r) -> is_space y = false /\ eqc y c_col = false).
  { intros y [<-|Hy]; [apply deb_char_facts; right; exact Hx|]. rewrite forallb_forall in Hr. apply deb_char_facts. left. apply Hr. exact Hy. }
  assert (R : remove_spaces (x :: r) = x :: r).
  { apply remove_spaces_none. apply forallb_forall. intros y Hy. apply negb_true_iff. apply (A y Hy). }
  split; [|split; [exact R|]].
  - unfold mem_c. destruct (existsb (eqc c_col) (x :: r)) eqn:E; [|reflexivity]. apply existsb_exists in E. destruct E as [y [Hy Ey]].
    destruct (A y Hy) as [_ B]. rewrite eqc_sym in Ey. congruence.
  - unfold normalize. rewrite R. apply lstrip_set_none. apply digit_not_v. exact Hx.
Qed.
Lemma digits_clean e : isdigit e = true -> mem_c c_col e = false /\ forallb (fun c => negb (is_space c)) e = true.
Proof.
  unfold isdigit. intros H. apply andb_true_iff in H. destruct H as [_ H]. unfold all_digits in H. rewrite forallb_forall in H. split.
  - unfold mem_c. destruct (existsb (eqc c_col) e) eqn:E; [|reflexivity]. apply existsb_exists in E. destruct E as [y [Hy Ey]].
    destruct (deb_char_facts y (or_intror (H y Hy))) as [_ B]. rewrite eqc_sym in Ey. congruence.
  - apply forallb_forall. intros y Hy. apply negb_true_iff. apply (deb_char_facts y (or_intror (H y Hy))).
Qed.

(* building from the text "upstream-and-revision" without an epoch *)
Lemma build_core t : deb_core t = true -> deb_build t = Ok {| d_epoch := 0; d_upstream := fst (split_ur t); d_revision := snd (split_ur t) |}.
Proof.
  intros C. destruct (deb_core_clean t C) as [M _]. unfold deb_build. rewrite M. cbn [fst snd]. change (isdigit [c_0]) with true. cbn [negb].
  change (int_of_digits [c_0]) with 0%N. unfold split_ur. destruct (mem_c c_hyp t); [destruct (rpartition_c c_hyp t) as [[u f] r]|]; reflexivity.
Qed.
Lemma build_epoch e t : isdigit e = true -> deb_core t = true ->
  deb_build (e ++ c_col :: t) = Ok {| d_epoch := int_of_digits e; d_upstream := fst (split_ur t); d_revision := snd (split_ur t) |}.
Proof.
  intros D C. destruct (digits_clean e D) as [Me _]. unfold deb_build.
  assert (M : mem_c c_col (e ++ c_col :: t) = true) by (unfold mem_c; rewrite existsb_app; cbn [existsb]; rewrite eqc_refl, orb_true_r; reflexivity).
  rewrite M, (partition_app_sep c_col e t Me). cbn [fst snd]. rewrite D. cbn [negb].
  unfold split_ur. destruct (mem_c c_hyp t); [destruct (rpartition_c c_hyp t) as [[u f] r]|]; reflexivity.
Qed.

Lemma ctor_printed_core u r t : split_ur t = (u, r) -> deb_core t = true ->
  deb_ctor (print_ur u r) = Ok {| d_epoch := 0; d_upstream := u; d_revision := r |}.
Proof.
  intros S C. pose proof (split_print_ur t) as P. rewrite S in P. destruct P as [P1 P2]. specialize (P2 C).
  unfold deb_ctor. destruct (deb_core_clean _ P2) as [_ [_ N]]. rewrite N. unfold deb_is_valid. rewrite P2. cbn [orb].
  rewrite (build_core _ P2), P1. reflexivity.
Qed.
Lemma ctor_printed_epoch E u r t : E <> 0%N -> split_ur t = (u, r) -> deb_core t = true ->
  deb_ctor (str_of_N E ++ c_col :: print_ur u r) = Ok {| d_epoch := E; d_upstream := u; d_revision := r |}.
Proof.
  intros NZ S C. pose proof (split_print_ur t) as P. rewrite S in P. destruct P as [P1 P2]. specialize (P2 C).
  destruct (str_of_N_spec E) as [A [Nn Vv]].
  assert (D : isdigit (str_of_N E) = true) by (unfold isdigit; rewrite A; destruct (str_of_N E); [congruence|reflexivity]).
  destruct (digits_clean _ D) as [Me Se]. destruct (deb_core_clean _ P2) as [_ [R2 _]].
  assert (N : normalize (str_of_N E ++ c_col :: print_ur u r) = str_of_N E ++ c_col :: print_ur u r).
  { unfold normalize. rewrite remove_spaces_app, (remove_spaces_none _ Se).
    change (c_col :: print_ur u r) with ([c_col] ++ print_ur u r). rewrite remove_spaces_app, R2. change (remove_spaces [c_col]) with [c_col]. cbn [app].
    apply lstrip_set_none. destruct (str_of_N E) as [|x t'] eqn:Es; [congruence|]. cbn [app]. apply digit_not_v.
    unfold all_digits in A. cbn [forallb] in A. apply andb_true_iff in A. apply A. }
  unfold deb_ctor. rewrite N. unfold deb_is_valid. rewrite (partition_app_sep c_col _ _ Me), D, P2. cbn [andb]. rewrite orb_true_r.
  rewrite (build_epoch _ _ D P2), P1, Vv. reflexivity.
Qed.

Theorem deb_ctor_roundtrip s v : deb_ctor s = Ok v -> deb_ctor (deb_str v) = Ok v.
Proof.
  unfold deb_ctor at 1. set (n := normalize s). destruct (deb_is_valid n) eqn:Val; [|discriminate]. intros B.
  assert (STR : forall E u r, deb_str {| d_epoch := E; d_upstream := u; d_revision := r |} =
                 (if N.eqb E 0 then print_ur u r else str_of_N E ++ c_col :: print_ur u r)).
  { intros E u r. unfold deb_str, print_ur. cbn [d_epoch d_upstream d_revision]. destruct (N.eqb E 0); [reflexivity|]. rewrite <- app_assoc. reflexivity. }
  unfold deb_is_valid in Val. destruct (deb_core n) eqn:C.
  - rewrite (build_core n C) in B. inversion B; subst. rewrite STR. cbn [N.eqb]. apply (ctor_printed_core _ _ n); [destruct (split_ur n); reflexivity|exact C].
  - cbn [orb] in Val. destruct (partition_c c_col n) as [[e f] t] eqn:P. apply andb_true_iff in Val. destruct Val as [Val Ct]. apply andb_true_iff in Val. destruct Val as [F D].
    subst f. destruct (partition_split _ _ _ _ P) as [Sn _]. rewrite Sn, (build_epoch e t D Ct) in B. inversion B; subst. rewrite STR.
    destruct (N.eqb (int_of_digits e) 0) eqn:Z.
    + apply N.eqb_eq in Z. rewrite Z. apply (ctor_printed_core _ _ t); [destruct (split_ur t); reflexivity|exact Ct].
    + apply N.eqb_neq in Z. apply (ctor_printed_epoch _ _ _ t Z); [destruct (split_ur t); reflexivity|exact Ct].
Qed.
