(* The rpm order: Vercmp.compare computes the padded lexicographic order of the token lists of its two arguments,
   where at one position  '~'  <  end of the version  <  '^'  <  a run of letters (ASCII order)  <  a number
   (by value: length of its digits without leading zeros, then the digits).  Hence a total preorder on versions,
   the operators are the ones of that order, and versions that compare equal have the same segments (hash). *)
From Coq Require Import List Bool Arith Ascii String NArith ZArith Lia.
From UV.Base Require Import Order LexPad Res.
From UV.Py Require Import PyStr.
From UV.Schemes Require Import Common Generic Gentoo Rpm.
From UV.Ref Require Deb.
Import ListNotations.
Local Open Scope list_scope.

(* ---- tokens and their order ---------------------------------------------------------------------------------- *)
(* key of a token: (rank, (number of digits, text)) *)
Definition tkey := (N * (nat * str))%type.
Definition k_tilde : tkey := (0%N, (0, [])).
Definition k_end : tkey := (1%N, (0, [])).
Definition k_caret : tkey := (2%N, (0, [])).
Definition k_alpha (s : str) : tkey := (3%N, (0, s)).
Definition k_num (d : str) : tkey := (4%N, (List.length d, d)).

Lemma tpo_nat' : TPO Nat.compare.
Proof.
  constructor.
  - apply Nat.compare_refl.
  - intros a b. apply Nat.compare_antisym.
  - intros a b c H1 H2. rewrite Nat.compare_lt_iff in *. lia.
  - intros a b c H. apply Nat.compare_eq in H. subst. reflexivity.
Qed.
Definition tkcmp : tkey -> tkey -> comparison := cmp_pair N.compare (cmp_pair Nat.compare cmp_str).
Lemma tpo_tkcmp : TPO tkcmp.
Proof. repeat apply tpo_pair; auto using tpo_N, tpo_str, tpo_nat'. Qed.

Fixpoint toks (fuel : nat) (s : str) : list tkey :=
  match fuel with
  | O => []
  | S f =>
      match drop_while junk s with
      | [] => []
      | c :: r =>
          if eqc c c_tilde then k_tilde :: toks f r
          else if eqc c c_caret then k_caret :: toks f r
          else if is_digit c then k_num (lstrip0 (take_while is_digit (c :: r))) :: toks f (drop_while is_digit (c :: r))
          else k_alpha (take_while is_alpha (c :: r)) :: toks f (drop_while is_alpha (c :: r))
      end
  end.
Definition ktoks (s : str) : list tkey := toks (S (List.length s)) s.
Definition vorder (a b : str) : comparison := cmp_pad tkcmp k_end (ktoks a) (ktoks b).

(* ---- auxiliary facts on take/drop ----------------------------------------------------------------------------- *)
Lemma take_drop_len' (p : ascii -> bool) s : List.length (take_while p s) + List.length (drop_while p s) = List.length s.
Proof. induction s as [|c r IH]; cbn; [reflexivity|]. destruct (p c); cbn; lia. Qed.
Lemma drop_len' (p : ascii -> bool) s : List.length (drop_while p s) <= List.length s.
Proof. pose proof (take_drop_len' p s). lia. Qed.
Lemma drop_idem (p : ascii -> bool) s : drop_while p (drop_while p s) = drop_while p s.
Proof. induction s as [|c r IH]; cbn; [reflexivity|]. destruct (p c) eqn:E; [exact IH|]. cbn. rewrite E. reflexivity. Qed.
Lemma drop_head_false (p : ascii -> bool) s c r : drop_while p s = c :: r -> p c = false.
Proof.
  induction s as [|x t IH]; cbn; [discriminate|]. destruct (p x) eqn:E; [exact IH|]. intros H. inversion H; subst. exact E.
Qed.
Lemma take_nil_drop' (p : ascii -> bool) s : is_empty (take_while p s) = true -> drop_while p s = s.
Proof. destruct s as [|c r]; cbn; [reflexivity|]. destruct (p c); [discriminate|reflexivity]. Qed.
Lemma drop_shorter (p : ascii -> bool) c r : p c = true -> List.length (drop_while p (c :: r)) < List.length (c :: r).
Proof. intros H. cbn [drop_while]. rewrite H. pose proof (drop_len' p r). cbn. lia. Qed.

(* fuel above the length is as good as any *)
Lemma toks_fuel : forall f1 f2 s, List.length s < f1 -> List.length s < f2 -> toks f1 s = toks f2 s.
Proof.
  induction f1 as [|f1 IH]; intros f2 s H1 H2; [lia|]. destruct f2 as [|f2]; [lia|].
  cbn [toks]. pose proof (drop_len' junk s) as D. destruct (drop_while junk s) as [|c r] eqn:E; [reflexivity|].
  cbn [List.length] in D.
  destruct (eqc c c_tilde) eqn:Ti; [f_equal; apply IH; lia|].
  destruct (eqc c c_caret) eqn:Ca; [f_equal; apply IH; lia|].
  destruct (is_digit c) eqn:Dg.
  - f_equal. pose proof (drop_shorter is_digit c r Dg). cbn [List.length] in *. apply IH; lia.
  - assert (Al : is_alpha c = true).
    { pose proof (drop_head_false junk s c r E) as J. unfold junk, is_alnum in J. rewrite Ti, Ca, Dg in J.
      destruct (is_alpha c); [reflexivity|discriminate]. }
    f_equal. pose proof (drop_shorter is_alpha c r Al). cbn [List.length] in *. apply IH; lia.
Qed.

(* ---- one step of the tokenizer ------------------------------------------------------------------------------- *)
Definition next (s : str) : option (tkey * str) :=
  match s with
  | [] => None
  | c :: r =>
      Some (if eqc c c_tilde then (k_tilde, r)
            else if eqc c c_caret then (k_caret, r)
            else if is_digit c then (k_num (lstrip0 (take_while is_digit s)), drop_while is_digit s)
            else (k_alpha (take_while is_alpha s), drop_while is_alpha s))
  end.

Lemma ktoks_junk s : ktoks s = ktoks (drop_while junk s).
Proof.
  unfold ktoks. pose proof (drop_len' junk s) as D.
  rewrite (toks_fuel (S (List.length (drop_while junk s))) (S (List.length s)) (drop_while junk s)) by lia.
  cbn [toks]. rewrite drop_idem. reflexivity.
Qed.

Lemma next_shorter s t r : next s = Some (t, r) -> drop_while junk s = s -> List.length r < List.length s.
Proof.
  destruct s as [|c q]; [discriminate|]. intros H J. cbn [next] in H.
  assert (NJ : junk c = false) by (apply (drop_head_false junk (c :: q) c q J)).
  destruct (eqc c c_tilde) eqn:Ti; [inversion H; subst; cbn; lia|].
  destruct (eqc c c_caret) eqn:Ca; [inversion H; subst; cbn; lia|].
  destruct (is_digit c) eqn:Dg; [inversion H; subst; apply (drop_shorter is_digit c q Dg)|].
  assert (Al : is_alpha c = true) by (unfold junk, is_alnum in NJ; rewrite Ti, Ca, Dg in NJ; destruct (is_alpha c); [reflexivity|discriminate]).
  inversion H; subst. apply (drop_shorter is_alpha c q Al).
Qed.

Lemma ktoks_next s : drop_while junk s = s -> ktoks s = match next s with None => [] | Some (t, r) => t :: ktoks r end.
Proof.
  intros J. destruct s as [|c q]; [reflexivity|].
  destruct (next (c :: q)) as [[t r]|] eqn:N; [|discriminate].
  pose proof (next_shorter _ _ _ N J) as L.
  unfold ktoks at 1. cbn [toks]. rewrite J. cbn [next] in N. unfold ktoks.
  destruct (eqc c c_tilde); [inversion N; subst; f_equal; apply toks_fuel; cbn [List.length] in *; lia|].
  destruct (eqc c c_caret); [inversion N; subst; f_equal; apply toks_fuel; cbn [List.length] in *; lia|].
  destruct (is_digit c); inversion N; subst; f_equal; apply toks_fuel; cbn [List.length] in *; lia.
Qed.

Lemma vorder_junk a b : vorder a b = vorder (drop_while junk a) (drop_while junk b).
Proof. unfold vorder. rewrite (ktoks_junk a), (ktoks_junk b). reflexivity. Qed.

Lemma vorder_refl a : vorder a a = Eq.
Proof. apply (tpo_refl _ (tpo_pad tkcmp tpo_tkcmp k_end)). Qed.

(* the keys of the four kinds of token against one another and against the end *)
Lemma nat_cmp_ltb x y : Nat.compare x y = if Nat.ltb x y then Lt else if Nat.ltb y x then Gt else Eq.
Proof.
  destruct (Nat.compare_spec x y) as [E|L|G].
  - subst. rewrite Nat.ltb_irrefl. reflexivity.
  - assert (H : Nat.ltb x y = true) by (apply Nat.ltb_lt; exact L). rewrite H. reflexivity.
  - assert (H : Nat.ltb x y = false) by (apply Nat.ltb_ge; lia). assert (H2 : Nat.ltb y x = true) by (apply Nat.ltb_lt; exact G).
    rewrite H, H2. reflexivity.
Qed.
Lemma tkcmp_num x y : tkcmp (k_num x) (k_num y) =
  if Nat.ltb (List.length x) (List.length y) then Lt else if Nat.ltb (List.length y) (List.length x) then Gt else cmp_str x y.
Proof.
  unfold tkcmp, cmp_pair, k_num. cbn [fst snd]. change (N.compare 4 4) with Eq. cbn iota. rewrite nat_cmp_ltb.
  destruct (Nat.ltb (List.length x) (List.length y)); [reflexivity|]. destruct (Nat.ltb (List.length y) (List.length x)); reflexivity.
Qed.
Lemma tkcmp_alpha x y : tkcmp (k_alpha x) (k_alpha y) = cmp_str x y.
Proof. unfold tkcmp, cmp_pair, k_alpha. cbn [fst snd]. change (N.compare 3 3) with Eq. cbn iota. destruct (cmp_str x y); reflexivity. Qed.

(* what vorder does on two non-junk-headed strings, in terms of next *)
Lemma vorder_next a b : drop_while junk a = a -> drop_while junk b = b ->
  vorder a b =
    match next a, next b with
    | None, None => Eq
    | Some (t, r), None => match tkcmp t k_end with Eq => vorder r [] | o => o end
    | None, Some (u, q) => match tkcmp k_end u with Eq => vorder [] q | o => o end
    | Some (t, r), Some (u, q) => match tkcmp t u with Eq => vorder r q | o => o end
    end.
Proof.
  intros Ja Jb. unfold vorder at 1. rewrite (ktoks_next a Ja), (ktoks_next b Jb).
  destruct (next a) as [[t r]|], (next b) as [[u q]|]; try reflexivity.
  cbn [cmp_pad vs_pad_l]. unfold vorder. change (ktoks []) with (@nil tkey). destruct (ktoks r); reflexivity.
Qed.

Lemma digit_not_alpha' c : is_digit c = true -> is_alpha c = false.
Proof.
  intros H. assert (T : forallb (fun c => negb (is_digit c && is_alpha c)) UV.Ref.Deb.all_chars = true) by (vm_compute; reflexivity).
  rewrite forallb_forall in T. specialize (T c (UV.Ref.Deb.all_chars_complete c)). rewrite H in T. cbn in T.
  destruct (is_alpha c); [discriminate|reflexivity].
Qed.

(* ---- the loop computes the order ------------------------------------------------------------------------------ *)
Lemma next_tilde s : starts c_tilde s = true -> next s = Some (k_tilde, tl s).
Proof. destruct s as [|c r]; [discriminate|]. cbn. intros H. rewrite H. reflexivity. Qed.
Lemma next_caret s : starts c_tilde s = false -> starts c_caret s = true -> next s = Some (k_caret, tl s).
Proof. destruct s as [|c r]; [discriminate|]. cbn. intros H1 H2. rewrite H1, H2. reflexivity. Qed.
Lemma next_num c r : eqc c c_tilde = false -> eqc c c_caret = false -> is_digit c = true ->
  next (c :: r) = Some (k_num (lstrip0 (take_while is_digit (c :: r))), drop_while is_digit (c :: r)).
Proof. intros H1 H2 H3. cbn [next]. rewrite H1, H2, H3. reflexivity. Qed.
Lemma next_alpha c r : eqc c c_tilde = false -> eqc c c_caret = false -> is_digit c = false ->
  next (c :: r) = Some (k_alpha (take_while is_alpha (c :: r)), drop_while is_alpha (c :: r)).
Proof. intros H1 H2 H3. cbn [next]. rewrite H1, H2, H3. reflexivity. Qed.

Lemma tl_shorter (s : str) : s <> [] -> List.length (tl s) < List.length s.
Proof. destruct s; [congruence|cbn; lia]. Qed.
Lemma starts_nonempty c s : starts c s = true -> s <> [].
Proof. destruct s; [discriminate|congruence]. Qed.
Lemma take_nonempty_shorter (p : ascii -> bool) s : is_empty (take_while p s) = false -> List.length (drop_while p s) < List.length s.
Proof. intros H. pose proof (take_drop_len' p s). destruct (take_while p s); [discriminate|]. cbn in *. lia. Qed.

Ltac crack_next :=
  repeat match goal with
         | |- context [next ?b] => is_var b; destruct b as [|?c ?r]; cbn [next starts is_empty] in *
         | |- context [if ?x then _ else _] => destruct x eqn:?
         end; try discriminate; try reflexivity.

Theorem vloop_order : forall f a b, List.length a + List.length b < f -> vloop f a b = vorder a b.
Proof.
  induction f as [|f IH]; intros a b L; [lia|]. cbn [vloop].
  destruct (is_empty a && is_empty b) eqn:EE.
  { apply andb_true_iff in EE. destruct EE as [Ea Eb]. destruct a; [|discriminate]. destruct b; [|discriminate]. reflexivity. }
  destruct (negb (is_empty (take_while junk a)) || negb (is_empty (take_while junk b))) eqn:J.
  { rewrite vorder_junk. apply IH.
    apply orb_true_iff in J. destruct J as [J|J]; apply negb_true_iff in J.
    - pose proof (take_nonempty_shorter junk a J). pose proof (drop_len' junk b). lia.
    - pose proof (take_nonempty_shorter junk b J). pose proof (drop_len' junk a). lia. }
  apply orb_false_iff in J. destruct J as [J1 J2]. apply negb_false_iff in J1, J2.
  pose proof (take_nil_drop' junk a J1) as Da. pose proof (take_nil_drop' junk b J2) as Db.
  rewrite Da, Db. rewrite (vorder_next a b Da Db).
  destruct (starts c_tilde a) eqn:Ta.
  { rewrite (next_tilde a Ta). destruct (starts c_tilde b) eqn:Tb; cbn [negb].
    - rewrite (next_tilde b Tb). change (tkcmp k_tilde k_tilde) with Eq. cbn iota.
      pose proof (tl_shorter a (starts_nonempty _ _ Ta)). pose proof (tl_shorter b (starts_nonempty _ _ Tb)). apply IH; lia.
    - clear IH. crack_next. }
  destruct (starts c_tilde b) eqn:Tb.
  { rewrite (next_tilde b Tb). clear IH. crack_next. }
  destruct (starts c_caret a) eqn:Ca.
  { rewrite (next_caret a Ta Ca). destruct (is_empty b) eqn:Eb.
    - destruct b; [|discriminate]. reflexivity.
    - destruct (starts c_caret b) eqn:Cb; cbn [negb].
      + rewrite (next_caret b Tb Cb). change (tkcmp k_caret k_caret) with Eq. cbn iota.
        pose proof (tl_shorter a (starts_nonempty _ _ Ca)). pose proof (tl_shorter b (starts_nonempty _ _ Cb)). apply IH; lia.
      + clear IH. crack_next. }
  destruct (starts c_caret b) eqn:Cb.
  { rewrite (next_caret b Tb Cb). clear IH. destruct (is_empty a) eqn:Ea.
    - destruct a; [|discriminate]. reflexivity.
    - crack_next. }
  destruct (is_empty a) eqn:Ea.
  { cbn [orb]. destruct a; [|discriminate]. unfold leftover. cbn [is_empty andb negb]. clear IH. crack_next. }
  destruct (is_empty b) eqn:Eb.
  { cbn [orb]. destruct b; [|discriminate]. unfold leftover. rewrite Ea. cbn [is_empty andb negb]. clear IH. crack_next. }
  cbn [orb].
  destruct a as [|ca ra]; [discriminate|]. destruct b as [|cb rb]; [discriminate|].
  cbn [starts] in Ta, Tb, Ca, Cb.
  set (A := ca :: ra) in *. set (B := cb :: rb) in *.
  destruct (is_digit ca) eqn:Dga.
  - assert (N1 : is_empty (take_while is_digit A) = false) by (subst A; cbn; rewrite Dga; reflexivity).
    rewrite N1. cbn [negb]. subst A. rewrite (next_num ca ra Ta Ca Dga). set (A := ca :: ra) in *.
    destruct (is_digit cb) eqn:Dgb.
    + assert (N2 : is_empty (take_while is_digit B) = false) by (subst B; cbn; rewrite Dgb; reflexivity).
      rewrite N2. subst B. rewrite (next_num cb rb Tb Cb Dgb). set (B := cb :: rb) in *.
      rewrite tkcmp_num.
      destruct (Nat.ltb (List.length (lstrip0 (take_while is_digit A))) (List.length (lstrip0 (take_while is_digit B)))); [reflexivity|].
      destruct (Nat.ltb (List.length (lstrip0 (take_while is_digit B))) (List.length (lstrip0 (take_while is_digit A)))); [reflexivity|].
      destruct (cmp_str (lstrip0 (take_while is_digit A)) (lstrip0 (take_while is_digit B))); try reflexivity.
      pose proof (take_nonempty_shorter is_digit A N1). pose proof (drop_len' is_digit B). apply IH; lia.
    + assert (N2 : is_empty (take_while is_digit B) = true) by (subst B; cbn; rewrite Dgb; reflexivity).
      rewrite N2. subst B. rewrite (next_alpha cb rb Tb Cb Dgb). reflexivity.
  - assert (N1 : is_empty (take_while is_digit A) = true) by (subst A; cbn; rewrite Dga; reflexivity).
    rewrite N1. cbn [negb]. subst A. rewrite (next_alpha ca ra Ta Ca Dga). set (A := ca :: ra) in *.
    assert (Ala : is_alpha ca = true).
    { pose proof (drop_head_false junk A ca ra Da) as NJ. unfold junk, is_alnum in NJ. rewrite Ta, Ca, Dga in NJ.
      destruct (is_alpha ca); [reflexivity|discriminate]. }
    destruct (is_digit cb) eqn:Dgb.
    + (* a letter run against a number *)
      assert (A2 : is_empty (take_while is_alpha B) = true).
      { subst B. cbn. assert (X : is_alpha cb = false) by (apply digit_not_alpha'; exact Dgb). rewrite X. reflexivity. }
      rewrite A2. subst B. rewrite (next_num cb rb Tb Cb Dgb). reflexivity.
    + assert (Alb : is_alpha cb = true).
      { pose proof (drop_head_false junk B cb rb Db) as NJ. unfold junk, is_alnum in NJ. rewrite Tb, Cb, Dgb in NJ.
        destruct (is_alpha cb); [reflexivity|discriminate]. }
      assert (A2 : is_empty (take_while is_alpha B) = false) by (subst B; cbn; rewrite Alb; reflexivity).
      rewrite A2. subst B. rewrite (next_alpha cb rb Tb Cb Dgb). set (B := cb :: rb) in *. rewrite tkcmp_alpha.
      destruct (cmp_str (take_while is_alpha A) (take_while is_alpha B)); try reflexivity.
      assert (A1 : is_empty (take_while is_alpha A) = false) by (subst A; cbn; rewrite Ala; reflexivity).
      pose proof (take_nonempty_shorter is_alpha A A1). pose proof (drop_len' is_alpha B). apply IH; lia.
Qed.

(* ---- versions ------------------------------------------------------------------------------------------------- *)
Theorem vercmp_order a b : vercmp_rpm a b = vorder (ascii_only a) (ascii_only b).
Proof.
  unfold vercmp_rpm. destruct (eqs (ascii_only a) (ascii_only b)) eqn:E.
  - apply eqs_eq in E. rewrite E. symmetry. apply vorder_refl.
  - apply vloop_order. lia.
Qed.

Lemma tpo_Z' : TPO Z.compare.
Proof.
  constructor.
  - apply Z.compare_refl.
  - intros a b. apply Z.compare_antisym.
  - intros a b c H1 H2. rewrite Z.compare_lt_iff in *. lia.
  - intros a b c H. apply Z.compare_eq in H. subst. reflexivity.
Qed.
Definition padcmp := cmp_pad tkcmp k_end.
Definition rpm_key (v : rpmv) : Z * (list tkey * list tkey) :=
  (r_epoch v, (ktoks (ascii_only (r_version v)), ktoks (ascii_only (r_release v)))).
Definition rkcmp := cmp_pair Z.compare (cmp_pair padcmp padcmp).
Definition rpm_order (a b : rpmv) : comparison := rkcmp (rpm_key a) (rpm_key b).
Theorem rpm_tpo : TPO rpm_order.
Proof.
  apply (tpo_of_key rkcmp rpm_key rpm_order); [|reflexivity].
  repeat apply tpo_pair; auto using tpo_Z'; apply (tpo_pad tkcmp tpo_tkcmp k_end).
Qed.

Theorem rpm_compare_order a b : rpm_compare a b = rpm_order a b.
Proof.
  unfold rpm_compare, rpm_order, rkcmp, rpm_key, cmp_pair, padcmp. cbn [fst snd].
  destruct (Z.compare (r_epoch a) (r_epoch b)); try reflexivity.
  rewrite !vercmp_order. unfold vorder.
  destruct (eqs (r_version a) (r_version b) && eqs (r_release a) (r_release b)) eqn:E; [|reflexivity].
  apply andb_true_iff in E. destruct E as [E1 E2]. apply eqs_eq in E1, E2. rewrite E1, E2.
  rewrite !(tpo_refl _ (tpo_pad tkcmp tpo_tkcmp k_end)). reflexivity.
Qed.

Theorem rpm_ops_spec a b : rpm_ops a b = ops_of (rpm_order a b).
Proof. unfold rpm_ops. rewrite rpm_compare_order. destruct (rpm_order a b); reflexivity. Qed.

(* ---- equal versions have equal segments (what is hashed) --------------------------------------------------- *)
Definition real_tok (k : tkey) : bool := negb (N.eqb (fst k) 1).
Lemma toks_real : forall f s, forallb real_tok (toks f s) = true.
Proof.
  induction f as [|f IH]; intros s; [reflexivity|]. cbn [toks]. destruct (drop_while junk s) as [|c r]; [reflexivity|].
  destruct (eqc c c_tilde); [cbn; apply IH|]. destruct (eqc c c_caret); [cbn; apply IH|].
  destruct (is_digit c); cbn; apply IH.
Qed.

Lemma tkcmp_eq x y : tkcmp x y = Eq -> x = y.
Proof.
  destruct x as [r1 [n1 s1]], y as [r2 [n2 s2]]. unfold tkcmp, cmp_pair. cbn [fst snd].
  destruct (N.compare r1 r2) eqn:E1; try discriminate. destruct (Nat.compare n1 n2) eqn:E2; try discriminate. intros E3.
  apply N.compare_eq in E1. apply Nat.compare_eq in E2. apply cmp_str_eq in E3. subst. reflexivity.
Qed.
Lemma real_vs_end x : real_tok x = true -> tkcmp x k_end <> Eq /\ tkcmp k_end x <> Eq.
Proof.
  intros R. split; intros H; apply tkcmp_eq in H; subst; discriminate.
Qed.

Lemma padcmp_eq : forall l1 l2, forallb real_tok l1 = true -> forallb real_tok l2 = true -> padcmp l1 l2 = Eq -> l1 = l2.
Proof.
  unfold padcmp. induction l1 as [|x r1 IH]; intros l2 R1 R2 H.
  - destruct l2 as [|y r2]; [reflexivity|]. cbn in H. cbn [forallb] in R2. apply andb_true_iff in R2. destruct R2 as [Ry _].
    destruct (real_vs_end y Ry) as [_ N]. destruct (tkcmp k_end y); congruence.
  - cbn [forallb] in R1. apply andb_true_iff in R1. destruct R1 as [Rx R1].
    destruct l2 as [|y r2].
    + cbn in H. destruct (real_vs_end x Rx) as [N _]. destruct (tkcmp x k_end); congruence.
    + cbn [forallb] in R2. apply andb_true_iff in R2. destruct R2 as [Ry R2]. cbn in H.
      destruct (tkcmp x y) eqn:E; try discriminate. apply tkcmp_eq in E. subst y. f_equal. apply IH; assumption.
Qed.

(* the text of a token; Vercmp.segments lists exactly these *)
Definition tok_text (k : tkey) : str :=
  if N.eqb (fst k) 0 then [c_tilde] else if N.eqb (fst k) 2 then [c_caret] else snd (snd k).

Lemma segments_toks : forall f1 f2 s, List.length s < f1 -> List.length s < f2 -> segments_fuel f1 s = map tok_text (toks f2 s).
Proof.
  induction f1 as [|f1 IH]; intros f2 s H1 H2; [lia|]. destruct f2 as [|f2]; [lia|].
  destruct s as [|c r]; [reflexivity|]. cbn [segments_fuel].
  destruct (is_alpha c) eqn:Al.
  - assert (NJ : junk c = false) by (unfold junk, is_alnum; rewrite Al; reflexivity).
    assert (Dg : is_digit c = false) by (destruct (is_digit c) eqn:D; [rewrite (digit_not_alpha' c D) in Al; discriminate|reflexivity]).
    assert (Ti : eqc c c_tilde = false).
    { assert (T : forallb (fun c => negb (is_alpha c && eqc c c_tilde)) UV.Ref.Deb.all_chars = true) by (vm_compute; reflexivity).
      rewrite forallb_forall in T. specialize (T c (UV.Ref.Deb.all_chars_complete c)). rewrite Al in T. destruct (eqc c c_tilde); [discriminate|reflexivity]. }
    assert (Ca : eqc c c_caret = false).
    { assert (T : forallb (fun c => negb (is_alpha c && eqc c c_caret)) UV.Ref.Deb.all_chars = true) by (vm_compute; reflexivity).
      rewrite forallb_forall in T. specialize (T c (UV.Ref.Deb.all_chars_complete c)). rewrite Al in T. destruct (eqc c c_caret); [discriminate|reflexivity]. }
    cbn [toks drop_while take_while]. rewrite NJ, Ti, Ca, Dg, ?Al. cbn [map]. f_equal.
    pose proof (drop_len' is_alpha r). cbn [List.length] in *. apply IH; lia.
  - destruct (is_digit c) eqn:Dg.
    + assert (NJ : junk c = false) by (unfold junk, is_alnum; rewrite Dg, orb_true_r; reflexivity).
      assert (Ti : eqc c c_tilde = false).
      { assert (T : forallb (fun c => negb (is_digit c && eqc c c_tilde)) UV.Ref.Deb.all_chars = true) by (vm_compute; reflexivity).
        rewrite forallb_forall in T. specialize (T c (UV.Ref.Deb.all_chars_complete c)). rewrite Dg in T. destruct (eqc c c_tilde); [discriminate|reflexivity]. }
      assert (Ca : eqc c c_caret = false).
      { assert (T : forallb (fun c => negb (is_digit c && eqc c c_caret)) UV.Ref.Deb.all_chars = true) by (vm_compute; reflexivity).
        rewrite forallb_forall in T. specialize (T c (UV.Ref.Deb.all_chars_complete c)). rewrite Dg in T. destruct (eqc c c_caret); [discriminate|reflexivity]. }
      cbn [toks drop_while take_while]. rewrite NJ, Ti, Ca, ?Dg. cbn [map]. f_equal.
      pose proof (drop_len' is_digit r). cbn [List.length] in *. apply IH; lia.
    + destruct (eqc c c_tilde) eqn:Ti.
      * assert (NJ : junk c = false) by (unfold junk; rewrite Ti, !orb_true_r; reflexivity).
        cbn [orb toks drop_while]. rewrite NJ, Ti. cbn [map]. apply eqc_eq in Ti. subst c. f_equal. cbn [List.length] in *. apply IH; lia.
      * destruct (eqc c c_caret) eqn:Ca.
        -- assert (NJ : junk c = false) by (unfold junk; rewrite Ca, !orb_true_r; reflexivity).
           cbn [orb toks drop_while]. rewrite NJ, Ti, Ca. cbn [map]. apply eqc_eq in Ca. subst c. f_equal. cbn [List.length] in *. apply IH; lia.
        -- (* a junk character: skipped by both *)
           assert (J : junk c = true) by (unfold junk, is_alnum; rewrite Al, Dg, Ti, Ca; reflexivity).
           cbn [orb]. cbn [List.length] in H1, H2.
           assert (L1 : List.length r < f1) by lia. assert (L2 : List.length r < S f2) by lia.
           rewrite (IH (S f2) r L1 L2).
           cbn [toks drop_while]. rewrite J. reflexivity.
Qed.

Lemma segments_ktoks s : segments s = map tok_text (ktoks (ascii_only s)).
Proof. unfold segments, ktoks. apply segments_toks; lia. Qed.

Lemma list_eqs_refl : forall l : list str, list_eqb eqs l l = true.
Proof. induction l as [|x r IH]; [reflexivity|]. cbn. rewrite IH, andb_true_r. apply eqs_eq. reflexivity. Qed.

(* C12 for rpm: versions that compare equal hash alike *)
Theorem rpm_eq_hash a b : rpm_order a b = Eq -> rpm_hasheq a b = true.
Proof.
  unfold rpm_order, rkcmp, rpm_key, cmp_pair. cbn [fst snd].
  destruct (Z.compare (r_epoch a) (r_epoch b)) eqn:E; try discriminate.
  destruct (padcmp (ktoks (ascii_only (r_version a))) (ktoks (ascii_only (r_version b)))) eqn:V; try discriminate.
  intros R. apply Z.compare_eq in E.
  apply padcmp_eq in V; [|apply toks_real|apply toks_real]. apply padcmp_eq in R; [|apply toks_real|apply toks_real].
  unfold rpm_hasheq. rewrite !segments_ktoks, V, R, E, Z.eqb_refl, !list_eqs_refl. reflexivity.
Qed.
