(* C12 for ebuild and alpine: versions that vercmp() finds equal have the same canonical_key(), which is what is hashed. *)
From Coq Require Import List Bool Arith Ascii String NArith ZArith Lia.
From UV.Base Require Import Order LexPad Res.
From UV.Gen Require Import Tables.
From UV.Py Require Import PyStr.
From UV.Schemes Require Import Common Generic Numerals Gentoo GentooProofs.
Import ListNotations.
Local Open Scope list_scope.

(* ---- the first component: an integer, hashed without its leading zeros ---------------------------------------- *)
Lemma int_zero_led r : int_of_digits (c_zero :: r) = int_of_digits r.
Proof. reflexivity. Qed.
Lemma lstrip0_int : forall x, int_of_digits (lstrip_set [c_zero] x) = int_of_digits x.
Proof.
  induction x as [|c r IH]; [reflexivity|]. cbn [lstrip_set]. unfold mem_c. cbn [existsb]. rewrite orb_false_r.
  destruct (eqc c c_zero) eqn:E; [|reflexivity]. apply eqc_eq in E. subst c. rewrite int_zero_led. exact IH.
Qed.
Lemma lstrip0_digits : forall x, all_digits x = true -> all_digits (lstrip_set [c_zero] x) = true.
Proof. intros x H. unfold all_digits in *. apply lstrip_subset. exact H. Qed.
Lemma lstrip0_head : forall x, match lstrip_set [c_zero] x with c :: _ => eqc c c_zero = false | [] => True end.
Proof.
  induction x as [|c r IH]; [exact I|]. cbn [lstrip_set]. unfold mem_c. cbn [existsb]. rewrite orb_false_r.
  destruct (eqc c c_zero) eqn:E; [exact IH|exact E].
Qed.
Lemma canon_first_canonical x : all_digits x = true -> canonical (canon_first x) = true /\ int_of_digits (canon_first x) = int_of_digits x.
Proof.
  intros D. unfold canon_first. pose proof (lstrip0_int x) as I. pose proof (lstrip0_digits x D) as D2. pose proof (lstrip0_head x) as H.
  destruct (lstrip_set [c_zero] x) as [|c t] eqn:E.
  - split; [reflexivity|]. rewrite <- I. reflexivity.
  - split; [|exact I]. unfold c_zero in *. cbn [all_digits forallb] in D2. apply andb_true_iff in D2. destruct D2 as [Dc Dt].
    destruct t as [|d t']; cbn [canonical]; [exact Dc|]. rewrite Dc, H. cbn [negb andb all_digits forallb]. rewrite Dc. cbn [andb].
    cbn [forallb] in Dt. exact Dt.
Qed.
Lemma first_eq x y : digits_ne x = true -> digits_ne y = true -> ckcmp (fkey x) (fkey y) = Eq -> canon_first x = canon_first y.
Proof.
  intros Hx Hy H. unfold fkey in H. rewrite ckcmp_11 in H. apply N.compare_eq in H.
  unfold digits_ne in Hx, Hy. apply andb_true_iff in Hx, Hy. destruct Hx as [_ Dx], Hy as [_ Dy].
  destruct (canon_first_canonical x Dx) as [Cx Ix]. destruct (canon_first_canonical y Dy) as [Cy Iy].
  apply int_of_digits_inj; [exact Cx|exact Cy|]. rewrite Ix, Iy. exact H.
Qed.

(* ---- the following components --------------------------------------------------------------------------------- *)
Lemma nonzero_led_canonical c r : digits_ne (c :: r) = true -> eqc c c_zero = false -> canonical (c :: r) = true.
Proof.
  unfold digits_ne. cbn [is_empty negb andb all_digits forallb]. intros H Z. apply andb_true_iff in H. destruct H as [Dc Dr].
  unfold c_zero in *. destruct r as [|d t]; cbn [canonical]; [exact Dc|]. rewrite Dc, Z. cbn [negb andb all_digits forallb]. rewrite Dc. exact Dr.
Qed.
Lemma comp_eq x y : digits_ne x = true -> digits_ne y = true -> ckcmp (ckey x) (ckey y) = Eq -> canon_comp x = canon_comp y.
Proof.
  intros Hx Hy. destruct x as [|a r]; [discriminate|]. destruct y as [|b s]; [discriminate|]. cbn [ckey canon_comp].
  destruct (eqc a c_zero) eqn:Za, (eqc b c_zero) eqn:Zb.
  - rewrite ckcmp_00. apply cmp_str_eq.
  - rewrite ckcmp_01. discriminate.
  - rewrite ckcmp_10. discriminate.
  - rewrite ckcmp_11. intros H. apply N.compare_eq in H.
    apply int_of_digits_inj; [apply nonzero_led_canonical; assumption|apply nonzero_led_canonical; assumption|exact H].
Qed.
Lemma comps_eq : forall l1 l2, forallb digits_ne l1 = true -> forallb digits_ne l2 = true ->
  cmp_lex ckcmp (map ckey l1) (map ckey l2) = Eq -> map canon_comp l1 = map canon_comp l2.
Proof.
  induction l1 as [|x r1 IH]; intros [|y r2] H1 H2 H; try (cbn in H; discriminate); [reflexivity|].
  cbn [forallb] in H1, H2. apply andb_true_iff in H1, H2. destruct H1 as [Hx H1], H2 as [Hy H2].
  cbn [map cmp_lex] in H. destruct (ckcmp (ckey x) (ckey y)) eqn:E; try discriminate. cbn [map]. rewrite (comp_eq x y Hx Hy E), (IH r2 H1 H2 H). reflexivity.
Qed.
Definition canon_comps (l : list str) : list str := match l with c0 :: rest => canon_first c0 :: map canon_comp rest | [] => [] end.
Lemma all_comps_eq l1 l2 : forallb digits_ne l1 = true -> forallb digits_ne l2 = true ->
  cmp_lex ckcmp (ckeys l1) (ckeys l2) = Eq -> canon_comps l1 = canon_comps l2.
Proof.
  destruct l1 as [|x r1], l2 as [|y r2]; intros H1 H2 H; try (cbn in H; discriminate); [reflexivity|].
  cbn [forallb] in H1, H2. apply andb_true_iff in H1, H2. destruct H1 as [Hx H1], H2 as [Hy H2].
  cbn [ckeys cmp_lex] in H. destruct (ckcmp (fkey x) (fkey y)) eqn:E; try discriminate.
  cbn [canon_comps]. rewrite (first_eq x y Hx Hy E), (comps_eq r1 r2 H1 H2 H). reflexivity.
Qed.

(* ---- the letter ------------------------------------------------------------------------------------------------- *)
Lemma letter_eq a b : ocmp a b = Eq -> a = b.
Proof.
  destruct a as [x|], b as [y|]; cbn; try discriminate; [|reflexivity]. unfold cmp_char. intros H. apply N.compare_eq in H. f_equal. apply code_inj. exact H.
Qed.

(* ---- the suffixes ------------------------------------------------------------------------------------------------ *)
Definition sfx_pair (p : str) : str * N :=
  match parse_suffix_in suffix_order p with Some (n, ds) => (n, int_of_digits ds) | None => ([], 0%N) end.
(* the values of the known suffix names are pairwise different and never 0 (finite check on /repo's table) *)
Definition values_injective : bool :=
  forallb (fun n => match suffix_val n with
                    | Some z => forallb (fun m => match suffix_val m with Some z' => implb (Z.eqb z z') (eqs n m) | None => false end) suffix_order
                    | None => false end) suffix_order.
Lemma values_injective_ok : values_injective = true.
Proof. vm_compute. reflexivity. Qed.

Lemma parse_in_names : forall names p n ds, parse_suffix_in names p = Some (n, ds) -> In n names.
Proof.
  induction names as [|m ms IH]; intros p n ds H; cbn [parse_suffix_in] in H; [discriminate|].
  destruct (strip_prefix m p) as [rest|]; [destruct (all_digits rest); [inversion H; left; reflexivity|right; apply (IH p n ds H)]|right; apply (IH p n ds H)].
Qed.

Lemma skey_pair p q : suffix_ok p = true -> suffix_ok q = true -> skey p = skey q -> sfx_pair p = sfx_pair q.
Proof.
  unfold suffix_ok, skey, suffix_key, sfx_pair. intros Hp Hq.
  destruct (parse_suffix_in suffix_order p) as [[n ds]|] eqn:Pp; [|discriminate].
  destruct (parse_suffix_in suffix_order q) as [[m es]|] eqn:Pq; [|discriminate].
  destruct (suffix_val n) as [z|] eqn:Vn; [|discriminate]. destruct (suffix_val m) as [z'|] eqn:Vm; [|discriminate].
  intros H. inversion H as [[E1 E2]]. subst z'.
  pose proof values_injective_ok as VI. unfold values_injective in VI. rewrite forallb_forall in VI.
  specialize (VI n (parse_in_names _ _ _ _ Pp)). rewrite Vn in VI. rewrite forallb_forall in VI.
  specialize (VI m (parse_in_names _ _ _ _ Pq)). rewrite Vm, Z.eqb_refl in VI. cbn in VI. apply eqs_eq in VI. subst m. rewrite E2. reflexivity.
Qed.

Lemma skey_nonzero p : suffix_ok p = true -> skcmp (skey p) (0%Z, 0%N) <> Eq /\ skcmp (0%Z, 0%N) (skey p) <> Eq.
Proof.
  unfold suffix_ok, skey. destruct (suffix_key p) as [[v n]|]; [|discriminate]. intros H. apply negb_true_iff in H. apply Z.eqb_neq in H.
  unfold skcmp, cmp_pair. cbn [fst snd]. split; intros E.
  - destruct (Z.compare v 0) eqn:C; try discriminate. apply Z.compare_eq in C. congruence.
  - destruct (Z.compare 0 v) eqn:C; try discriminate. apply Z.compare_eq in C. congruence.
Qed.
Lemma skcmp_eq x y : skcmp x y = Eq -> x = y.
Proof.
  destruct x as [a n], y as [b m]. unfold skcmp, cmp_pair. cbn [fst snd]. destruct (Z.compare a b) eqn:C; try discriminate.
  intros H. apply Z.compare_eq in C. apply N.compare_eq in H. congruence.
Qed.
Lemma suffixes_eq : forall l1 l2, forallb suffix_ok l1 = true -> forallb suffix_ok l2 = true ->
  cmp_pad skcmp (0%Z, 0%N) (map skey l1) (map skey l2) = Eq -> map sfx_pair l1 = map sfx_pair l2.
Proof.
  induction l1 as [|x r1 IH]; intros [|y r2] H1 H2 H.
  - reflexivity.
  - exfalso. cbn [forallb] in H2. apply andb_true_iff in H2. destruct H2 as [Hy _]. cbn [map cmp_pad vs_pad_r] in H.
    destruct (skey_nonzero y Hy) as [_ N]. destruct (skcmp (0%Z, 0%N) (skey y)); congruence.
  - exfalso. cbn [forallb] in H1. apply andb_true_iff in H1. destruct H1 as [Hx _]. cbn [map cmp_pad vs_pad_l] in H.
    destruct (skey_nonzero x Hx) as [N _]. destruct (skcmp (skey x) (0%Z, 0%N)); congruence.
  - cbn [forallb] in H1, H2. apply andb_true_iff in H1, H2. destruct H1 as [Hx H1], H2 as [Hy H2]. cbn [map cmp_pad] in H.
    destruct (skcmp (skey x) (skey y)) eqn:E; try discriminate. apply skcmp_eq in E.
    cbn [map]. rewrite (skey_pair x y Hx Hy E), (IH r2 H1 H2 H). reflexivity.
Qed.

(* ---- canonical_key() of an accepted version, in terms of the parts the order theorem uses ----------------------- *)
Lemma mapM_opt_sfx : forall l, forallb suffix_ok l = true ->
  mapM_opt (fun p => match parse_suffix_in suffix_order p with Some (n, ds) => Some (n, int_of_digits ds) | None => None end) l = Some (map sfx_pair l).
Proof.
  induction l as [|p r IH]; intros H; [reflexivity|]. cbn [forallb] in H. apply andb_true_iff in H. destruct H as [Hp Hr].
  cbn [mapM_opt map]. rewrite (IH Hr).
  assert (E : exists n ds, parse_suffix_in suffix_order p = Some (n, ds)).
  { unfold suffix_ok, suffix_key in Hp. destruct (parse_suffix_in suffix_order p) as [[n ds]|]; [eauto|discriminate]. }
  destruct E as [n [ds E]]. unfold sfx_pair. rewrite E. reflexivity.
Qed.

Theorem canonical_key_gok s : gok s = true ->
  canonical_key s = Ok {| k_comps := canon_comps (fst (g_comps s)); k_letter := snd (g_comps s);
                          k_suffixes := map sfx_pair (g_suffixes s); k_rev := g_rev s |}.
Proof.
  intros G. unfold gok in G. apply andb_true_iff in G. destruct G as [G S]. apply andb_true_iff in G. destruct G as [_ C].
  unfold canonical_key, g_comps, g_suffixes, g_rev, g_dotted in *.
  destruct (parse_version_and_revision s) as [ver rv]. cbn [fst snd] in *.
  rewrite (mapM_opt_sfx _ S).
  unfold split_letter in *. destruct (rev (split_c c_dotg (hd [] (split_c c_us ver)))) as [|lastc before] eqn:R; [discriminate|].
  destruct (last_char lastc) as [ch|]; [|discriminate]. destruct (is_alpha ch); reflexivity.
Qed.

Lemma list_eqs_refl' : forall l : list str, list_eqb eqs l l = true.
Proof. induction l as [|x r IH]; [reflexivity|]. cbn. rewrite IH, andb_true_r. apply eqs_eq. reflexivity. Qed.
Lemma sfx_list_refl : forall l : list (str * N), list_eqb (fun p q => eqs (fst p) (fst q) && N.eqb (snd p) (snd q)) l l = true.
Proof. induction l as [|x r IH]; [reflexivity|]. cbn. rewrite IH, N.eqb_refl, !andb_true_r. apply eqs_eq. reflexivity. Qed.

Theorem gentoo_eq_hash s1 s2 : gok s1 = true -> gok s2 = true -> gentoo_cmp s1 s2 = Eq -> gentoo_hasheq s1 s2 = true.
Proof.
  intros G1 G2 H. unfold gentoo_hasheq. rewrite (canonical_key_gok s1 G1), (canonical_key_gok s2 G2).
  unfold gentoo_cmp, gkey in H. rewrite gkcmp_unfold in H.
  assert (D1 : forallb digits_ne (fst (g_comps s1)) = true /\ forallb suffix_ok (g_suffixes s1) = true).
  { unfold gok in G1. apply andb_true_iff in G1. destruct G1 as [G S]. apply andb_true_iff in G. destruct G as [_ C]. split; [|exact S].
    unfold g_comps. destruct (split_letter (split_c c_dotg (g_dotted s1))) as [[c l]|e]; [exact C|discriminate]. }
  assert (D2 : forallb digits_ne (fst (g_comps s2)) = true /\ forallb suffix_ok (g_suffixes s2) = true).
  { unfold gok in G2. apply andb_true_iff in G2. destruct G2 as [G S]. apply andb_true_iff in G. destruct G as [_ C]. split; [|exact S].
    unfold g_comps. destruct (split_letter (split_c c_dotg (g_dotted s2))) as [[c l]|e]; [exact C|discriminate]. }
  destruct D1 as [C1 S1], D2 as [C2 S2].
  destruct (cmp_lex ckcmp (ckeys (fst (g_comps s1))) (ckeys (fst (g_comps s2)))) eqn:E1; try discriminate.
  destruct (ocmp (snd (g_comps s1)) (snd (g_comps s2))) eqn:E2; try discriminate.
  destruct (cmp_pad skcmp (0%Z, 0%N) (map skey (g_suffixes s1)) (map skey (g_suffixes s2))) eqn:E3; try discriminate.
  apply N.compare_eq in H.
  unfold gkey_eqb. cbn [k_comps k_letter k_suffixes k_rev].
  rewrite (all_comps_eq _ _ C1 C2 E1), (letter_eq _ _ E2), (suffixes_eq _ _ S1 S2 E3), H.
  rewrite list_eqs_refl', sfx_list_refl, N.eqb_refl. destruct (snd (g_comps s2)) as [c|]; cbn; [rewrite eqc_refl|]; reflexivity.
Qed.
