(* C11 for the semver family: every version coerce builds prints to a text that coerce reads back as the same version
   (numbers, pre-release identifiers and build identifiers). *)
From Coq Require Import List Bool Arith Ascii String NArith Lia.
From UV.Base Require Import Order Res.
From UV.Py Require Import PyStr.
From UV.Schemes Require Import Common Generic Semver Numerals NumeralsStr.
From UV.Ref Require Deb.
From UV.Schemes Require TotalityProofs.
Import ListNotations.
Local Open Scope list_scope.

(* ---- generic facts about pieces --------------------------------------------------------------------------------- *)
Lemma eqc_false_of_mem c x t : mem_c c (x :: t) = false -> eqc x c = false /\ mem_c c t = false.
Proof.
  unfold mem_c. cbn [existsb]. intros H. apply orb_false_iff in H. destruct H as [H1 H2]. rewrite eqc_sym in H1. split; assumption.
Qed.
Lemma split_pieces (P : ascii -> bool) c : forall s, forallb P s = true ->
  Forall (fun t => forallb P t = true /\ mem_c c t = false) (split_c c s).
Proof.
  induction s as [|x r IH]; intros H; cbn [split_c]; [constructor; [split; reflexivity|constructor]|].
  cbn [forallb] in H. apply andb_true_iff in H. destruct H as [Hx Hr]. specialize (IH Hr).
  destruct (eqc x c) eqn:E; [constructor; [split; reflexivity|exact IH]|].
  destruct (split_c c r) as [|h t]; [constructor; [|constructor]|].
  - split; [cbn; rewrite Hx; reflexivity|]. unfold mem_c. cbn. rewrite eqc_sym, E. reflexivity.
  - inversion IH as [|? ? [Hh Hm] Ht]; subst. constructor; [|exact Ht]. split; [cbn [forallb]; rewrite Hx, Hh; reflexivity|].
    unfold mem_c in *. cbn [existsb]. rewrite eqc_sym, E, Hm. reflexivity.
Qed.
Lemma partition_parts (P : ascii -> bool) c : forall s a f b, partition_c c s = (a, f, b) -> forallb P s = true ->
  forallb P a = true /\ mem_c c a = false /\ forallb P b = true.
Proof.
  induction s as [|x r IH]; intros a f b E H; cbn [partition_c] in E.
  - inversion E; subst. repeat split; reflexivity.
  - cbn [forallb] in H. apply andb_true_iff in H. destruct H as [Hx Hr]. destruct (eqc x c) eqn:X.
    + inversion E; subst. repeat split; try reflexivity. exact Hr.
    + destruct (partition_c c r) as [[a' f'] b'] eqn:Pr. inversion E; subst. destruct (IH a' f b eq_refl Hr) as [A [M B]].
      repeat split; [cbn [forallb]; rewrite Hx, A; reflexivity| |exact B]. unfold mem_c in *. cbn [existsb]. rewrite eqc_sym, X, M. reflexivity.
Qed.
Lemma partition_none c : forall s, mem_c c s = false -> partition_c c s = (s, false, []).
Proof.
  induction s as [|x r IH]; intros H; [reflexivity|]. destruct (eqc_false_of_mem _ _ _ H) as [E M]. cbn [partition_c]. rewrite E, (IH M). reflexivity.
Qed.
Lemma forallb_refine (P Q : ascii -> bool) c : (forall x, P x = true -> eqc x c = false -> Q x = true) ->
  forall t, forallb P t = true -> mem_c c t = false -> forallb Q t = true.
Proof.
  intros R. induction t as [|x r IH]; intros H M; [reflexivity|]. cbn [forallb] in *. apply andb_true_iff in H. destruct H as [Hx Hr].
  destruct (eqc_false_of_mem _ _ _ M) as [E M']. rewrite (R x Hx E), (IH Hr M'). reflexivity.
Qed.
Lemma forallb_join (P : ascii -> bool) c : P c = true -> forall l, Forall (fun t => forallb P t = true) l -> forallb P (join_c c l) = true.
Proof.
  intros Pc. induction l as [|x r IH]; intros F; [reflexivity|]. inversion F as [|? ? Hx Hr]; subst. destruct r as [|y r']; [exact Hx|].
  change (join_c c (x :: y :: r')) with (x ++ c :: join_c c (y :: r')). rewrite forallb_app, Hx. cbn [forallb andb]. rewrite Pc, (IH Hr). reflexivity.
Qed.
Lemma mem_join d c : eqc d c = false -> forall l, Forall (fun t => mem_c d t = false) l -> mem_c d (join_c c l) = false.
Proof.
  intros N. induction l as [|x r IH]; intros F; [reflexivity|]. inversion F as [|? ? Hx Hr]; subst. destruct r as [|y r']; [exact Hx|].
  change (join_c c (x :: y :: r')) with (x ++ c :: join_c c (y :: r')). unfold mem_c in *. rewrite existsb_app, Hx. cbn [existsb orb]. rewrite N, (IH Hr). reflexivity.
Qed.

(* ---- the characters of identifiers ------------------------------------------------------------------------------ *)
Definition p0 (c : ascii) : bool := is_alnum c || eqc c c_plus || eqc c c_dots || eqc c c_minus.
Definition p1 (c : ascii) : bool := is_alnum c || eqc c c_dots || eqc c c_minus.
Definition idc (c : ascii) : bool := is_alnum c || eqc c c_minus.
Definition wf_ids (allow : bool) (l : list str) : Prop := Forall (fun i => id_ok allow i = true /\ forallb idc i = true) l.
Definition WF (v : semver) : Prop := wf_ids false (sv_pre v) /\ wf_ids true (sv_build v).

Ltac by_chars T := let c := fresh "c" in intros c;
  assert (T' : forallb T UV.Ref.Deb.all_chars = true) by (vm_compute; reflexivity);
  rewrite forallb_forall in T'; exact (T' c (UV.Ref.Deb.all_chars_complete c)).
Lemma char_facts : forall c,
  (negb (p0 c) || negb (eqc c c_plus) && p1 c || eqc c c_plus) &&
  (negb (p1 c) || eqc c c_dots || idc c) &&
  (negb (idc c) || p0 c && p1 c && negb (eqc c c_plus) && negb (eqc c c_dots)) &&
  (negb (is_digit c) || negb (eqc c c_plus) && negb (eqc c c_dots) && negb (eqc c c_minus)) = true.
Proof.
  by_chars (fun c => (negb (p0 c) || negb (eqc c c_plus) && p1 c || eqc c c_plus) &&
  (negb (p1 c) || eqc c c_dots || idc c) &&
  (negb (idc c) || p0 c && p1 c && negb (eqc c c_plus) && negb (eqc c c_dots)) &&
  (negb (is_digit c) || negb (eqc c c_plus) && negb (eqc c c_dots) && negb (eqc c c_minus))).
Qed.
Lemma p0_p1 x : p0 x = true -> eqc x c_plus = false -> p1 x = true.
Proof. intros H E. pose proof (char_facts x) as F. rewrite H, E in F. cbn in F. destruct (p1 x); [reflexivity|discriminate]. Qed.
Lemma p1_idc x : p1 x = true -> eqc x c_dots = false -> idc x = true.
Proof. intros H E. pose proof (char_facts x) as F. rewrite H, E in F. destruct (idc x); [reflexivity|]. rewrite !andb_false_r, ?andb_false_l in F. cbn in F. rewrite ?andb_false_r in F. discriminate. Qed.
Lemma idc_all x : idc x = true -> p0 x = true /\ p1 x = true /\ eqc x c_plus = false /\ eqc x c_dots = false.
Proof.
  intros H. pose proof (char_facts x) as F. rewrite H in F. cbn [negb orb] in F.
  destruct (p0 x), (p1 x), (eqc x c_plus), (eqc x c_dots); cbn in F; try discriminate; try (rewrite ?andb_false_r in F; discriminate); repeat split.
Qed.

(* ---- what coerce builds ----------------------------------------------------------------------------------------- *)
Lemma clean_rest_p0 s : forallb p0 (clean_rest s) = true.
Proof.
  induction s as [|x r IH]; [reflexivity|]. cbn [clean_rest map forallb]. fold (clean_rest r). rewrite IH, andb_true_r.
  unfold p0 at 1. destruct (is_alnum x || eqc x c_plus || eqc x c_dots || eqc x c_minus) eqn:E; [exact E|]. vm_compute. reflexivity.
Qed.
Lemma replace_plus_p1 s : forallb p0 s = true -> forallb p1 (replace_plus s) = true.
Proof.
  induction s as [|x r IH]; intros H; [reflexivity|]. cbn [forallb] in H. apply andb_true_iff in H. destruct H as [Hx Hr].
  cbn [replace_plus map forallb]. fold (replace_plus r). rewrite (IH Hr), andb_true_r.
  destruct (eqc x c_plus) eqn:E; [vm_compute; reflexivity|]. apply p0_p1; assumption.
Qed.
Lemma ids_of_wf (P : ascii -> bool) allow text ids : (forall x, P x = true -> eqc x c_dots = false -> idc x = true) ->
  forallb P text = true -> ids_of allow text = Ok ids -> wf_ids allow ids.
Proof.
  intros R H. unfold ids_of. destruct (is_empty text); [intros E; inversion E; constructor|].
  destruct (forallb (id_ok allow) (split_c c_dots text)) eqn:F; [|discriminate]. intros E. inversion E; subst.
  pose proof (split_pieces P c_dots text H) as S. rewrite forallb_forall in F. unfold wf_ids. rewrite Forall_forall in *.
  intros i Hi. split; [apply F; exact Hi|]. destruct (S i Hi) as [A M]. apply (forallb_refine P idc c_dots R i A M).
Qed.
Lemma p0np_idc x : (p0 x && negb (eqc x c_plus)) = true -> eqc x c_dots = false -> idc x = true.
Proof. intros H E. apply andb_true_iff in H. destruct H as [H N]. apply negb_true_iff in N. apply p1_idc; [apply p0_p1; assumption|exact E]. Qed.
Lemma noplus (s : str) : forallb p0 s = true -> mem_c c_plus s = false -> forallb (fun x => p0 x && negb (eqc x c_plus)) s = true.
Proof.
  intros H M. apply (forallb_refine p0 _ c_plus); [|exact H|exact M]. intros x Hx E. rewrite Hx, E. reflexivity.
Qed.

Theorem coerce_wf s v : coerce s = Ok v -> WF v.
Proof.
  unfold coerce. destruct (match_base s) as [[comps rest]|]; [|discriminate].
  pose proof (clean_rest_p0 rest) as C. destruct (clean_rest rest) as [|c r]; [intros E; inversion E; split; constructor|].
  cbn [forallb] in C. apply andb_true_iff in C. destruct C as [Cc Cr].
  assert (K : forall pre build, forallb p0 pre = true -> mem_c c_plus pre = false -> forallb p0 build = true ->
     match ids_of false pre, ids_of true (replace_plus build) with
     | Ok p, Ok b => Ok {| sv_major := nth 0 (map int_of_digits comps) 0%N; sv_minor := nth 1 (map int_of_digits comps) 0%N;
                           sv_patch := nth 2 (map int_of_digits comps) 0%N; sv_pre := p; sv_build := b |}
     | Err e, _ => Err e | _, Err e => Err e end = Ok v -> WF v).
  { intros pre build Hp Mp Hb. destruct (ids_of false pre) as [p|e] eqn:E1; [|discriminate].
    destruct (ids_of true (replace_plus build)) as [b|e] eqn:E2; [|discriminate]. intros E. inversion E; subst. split; cbn [sv_pre sv_build].
    - apply (ids_of_wf _ false pre p p0np_idc (noplus pre Hp Mp) E1).
    - apply (ids_of_wf p1 true _ b p1_idc (replace_plus_p1 build Hb) E2). }
  destruct (eqc c c_plus) eqn:X1; [apply (K [] r); reflexivity || exact Cr|].
  destruct (eqc c c_dots) eqn:X2; [apply (K [] r); reflexivity || exact Cr|].
  destruct (eqc c c_minus) eqn:X3.
  - unfold split_plus. destruct (partition_c c_plus r) as [[a f] b] eqn:P. destruct (partition_parts p0 c_plus r a f b P Cr) as [A [M B]].
    destruct f; [apply (K a b A M B)|]. apply (K r []); [exact Cr| |reflexivity].
    rewrite <- (UV.Schemes.TotalityProofs.partition_found c_plus r), P. reflexivity.
  - unfold split_plus. destruct (partition_c c_plus (c :: r)) as [[a f] b] eqn:P.
    assert (Ccr : forallb p0 (c :: r) = true) by (cbn [forallb]; rewrite Cc, Cr; reflexivity).
    destruct (partition_parts p0 c_plus (c :: r) a f b P Ccr) as [A [M B]].
    destruct f; [apply (K a b A M B)|]. apply (K (c :: r) []); [exact Ccr| |reflexivity].
    rewrite <- (UV.Schemes.TotalityProofs.partition_found c_plus (c :: r)), P. reflexivity.
Qed.

(* ---- reading the printed text back ------------------------------------------------------------------------------ *)
Definition stops (rest : str) : Prop := match rest with [] => True | x :: _ => is_digit x = false end.
Lemma span_digits_app : forall d rest, all_digits d = true -> stops rest -> span_digits (d ++ rest) = (d, rest).
Proof.
  induction d as [|x r IH]; intros rest A S.
  - cbn [app]. destruct rest as [|y t]; [reflexivity|]. cbn in S. cbn [span_digits]. rewrite S. reflexivity.
  - unfold all_digits in A. cbn [forallb] in A. apply andb_true_iff in A. destruct A as [Ax Ar].
    cbn [app span_digits]. rewrite Ax, (IH rest Ar S). reflexivity.
Qed.
Lemma dot_not_digit : is_digit c_dots = false. Proof. reflexivity. Qed.

Lemma match_base_printed a b c t : stops t -> match t with x :: _ => eqc x c_dots = false | [] => True end ->
  match_base (str_of_N a ++ c_dots :: str_of_N b ++ c_dots :: str_of_N c ++ t) = Some ([str_of_N a; str_of_N b; str_of_N c], t).
Proof.
  intros S D. destruct (str_of_N_spec a) as [Aa [Na _]], (str_of_N_spec b) as [Ab [Nb _]], (str_of_N_spec c) as [Ac [Nc _]].
  unfold match_base. rewrite (span_digits_app (str_of_N a) _ Aa) by exact dot_not_digit.
  destruct (str_of_N a) as [|a0 ar] eqn:Ea; [congruence|]. cbn [is_empty]. rewrite eqc_refl.
  rewrite (span_digits_app (str_of_N b) _ Ab) by exact dot_not_digit.
  destruct (str_of_N b) as [|b0 br] eqn:Eb; [congruence|]. cbn [is_empty]. rewrite eqc_refl.
  rewrite (span_digits_app (str_of_N c) _ Ac) by exact S.
  destruct (str_of_N c) as [|c0 cr] eqn:Ec; [congruence|]. reflexivity.
Qed.

Lemma clean_rest_id s : forallb p0 s = true -> clean_rest s = s.
Proof.
  induction s as [|x r IH]; intros H; [reflexivity|]. cbn [forallb] in H. apply andb_true_iff in H. destruct H as [Hx Hr].
  cbn [clean_rest map]. fold (clean_rest r). rewrite (IH Hr). unfold p0 in Hx. rewrite Hx. reflexivity.
Qed.
Lemma replace_plus_id s : mem_c c_plus s = false -> replace_plus s = s.
Proof.
  induction s as [|x r IH]; intros H; [reflexivity|]. destruct (eqc_false_of_mem _ _ _ H) as [E M].
  cbn [replace_plus map]. fold (replace_plus r). rewrite E, (IH M). reflexivity.
Qed.

(* facts about a well-formed identifier list and its dotted text *)
Lemma wf_join allow l : wf_ids allow l ->
  forallb p0 (join_c c_dots l) = true /\ mem_c c_plus (join_c c_dots l) = false /\
  (l <> [] -> ids_of allow (join_c c_dots l) = Ok l).
Proof.
  intros W. unfold wf_ids in W. rewrite Forall_forall in W. split; [|split].
  - apply forallb_join; [reflexivity|]. apply Forall_forall. intros i Hi. destruct (W i Hi) as [_ I].
    rewrite forallb_forall in *. intros x Hx. apply (idc_all x (I x Hx)).
  - apply mem_join; [reflexivity|]. apply Forall_forall. intros i Hi. destruct (W i Hi) as [_ I].
    unfold mem_c. destruct (existsb (eqc c_plus) i) eqn:E; [|reflexivity]. apply existsb_exists in E. destruct E as [x [Hx Ex]].
    rewrite forallb_forall in I. destruct (idc_all x (I x Hx)) as [_ [_ [P _]]]. rewrite eqc_sym in Ex. congruence.
  - intros N. unfold ids_of.
    assert (S : split_c c_dots (join_c c_dots l) = l).
    { apply split_join; [exact N|]. apply Forall_forall. intros i Hi. destruct (W i Hi) as [_ I].
      unfold mem_c. destruct (existsb (eqc c_dots) i) eqn:E; [|reflexivity]. apply existsb_exists in E. destruct E as [x [Hx Ex]].
      rewrite forallb_forall in I. destruct (idc_all x (I x Hx)) as [_ [_ [_ D]]]. rewrite eqc_sym in Ex. congruence. }
    assert (NE : is_empty (join_c c_dots l) = false).
    { destruct l as [|i r]; [congruence|]. destruct (W i (or_introl eq_refl)) as [K _]. unfold id_ok in K. apply andb_true_iff in K. destruct K as [K _].
      destruct i as [|x t]; [discriminate|]. destruct r; reflexivity. }
    rewrite NE, S. assert (F : forallb (id_ok allow) l = true) by (apply forallb_forall; intros i Hi; apply (W i Hi)).
    rewrite F. reflexivity.
Qed.

Theorem semver_print_parse v : WF v -> coerce (semver_str v) = Ok v.
Proof.
  intros [Wp Wb]. destruct v as [a b c pre build]. cbn [sv_pre sv_build] in *. unfold semver_str. cbn [sv_major sv_minor sv_patch sv_pre sv_build].
  destruct (wf_join false pre Wp) as [Pp [Mp Ip]]. destruct (wf_join true build Wb) as [Pb [Mb Ib]].
  destruct (str_of_N_spec a) as [_ [_ Va]], (str_of_N_spec b) as [_ [_ Vb]], (str_of_N_spec c) as [_ [_ Vc]].
  set (T := (match pre with [] => [] | _ => c_minus :: join_c c_dots pre end) ++ (match build with [] => [] | _ => c_plus :: join_c c_dots build end)).
  assert (HT : stops T /\ match T with x :: _ => eqc x c_dots = false | [] => True end).
  { unfold T. destruct pre; [destruct build|]; split; cbn; auto. }
  unfold coerce. rewrite (match_base_printed a b c T (proj1 HT) (proj2 HT)). cbn [map nth]. rewrite Va, Vb, Vc.
  assert (PT : forallb p0 T = true).
  { unfold T. rewrite forallb_app. destruct pre; [destruct build|destruct build]; cbn [forallb app andb]; rewrite ?Pp, ?Pb; reflexivity. }
  rewrite (clean_rest_id T PT). unfold T. destruct pre as [|p0' pr]; [destruct build as [|b0 br]|destruct build as [|b0 br]]; cbn [app].
  - reflexivity.
  - change (eqc c_plus c_plus) with true. cbn iota. rewrite (replace_plus_id _ Mb), (Ib ltac:(discriminate)). reflexivity.
  - rewrite app_nil_r. change (eqc c_minus c_plus) with false. change (eqc c_minus c_dots) with false. change (eqc c_minus c_minus) with true. cbn iota.
    unfold split_plus. rewrite (partition_none c_plus _ Mp). rewrite (Ip ltac:(discriminate)). reflexivity.
  - change (eqc c_minus c_plus) with false. change (eqc c_minus c_dots) with false. change (eqc c_minus c_minus) with true. cbn iota.
    unfold split_plus. rewrite (partition_app_sep c_plus _ _ Mp). rewrite (replace_plus_id _ Mb), (Ip ltac:(discriminate)), (Ib ltac:(discriminate)). reflexivity.
Qed.

Theorem semver_roundtrip s v : semver_ctor s = Ok v -> coerce (semver_str v) = Ok v.
Proof. unfold semver_ctor. destruct (coerce (normalize s)) as [w|e] eqn:E; [|discriminate]. intros H. inversion H; subst. apply semver_print_parse. apply (coerce_wf _ _ E). Qed.
Theorem golang_roundtrip s v : golang_ctor s = Ok v -> coerce (semver_str v) = Ok v.
Proof. unfold golang_ctor. destruct (coerce (lstrip_set vV (normalize s))) as [w|e] eqn:E; [|discriminate]. intros H. inversion H; subst. apply semver_print_parse. apply (coerce_wf _ _ E). Qed.

(* the printed text is already normalised: no blanks, starts with a digit *)
Lemma printed_normal v : WF v -> normalize (semver_str v) = semver_str v.
Proof.
  intros [Wp Wb]. destruct v as [a b c pre build]. cbn [sv_pre sv_build] in *. unfold semver_str. cbn [sv_major sv_minor sv_patch sv_pre sv_build].
  destruct (wf_join false pre Wp) as [Pp _]. destruct (wf_join true build Wb) as [Pb _].
  set (ok := fun x : ascii => negb (is_space x)).
  assert (D : forall t, all_digits t = true -> forallb ok t = true).
  { intros t. unfold all_digits. rewrite !forallb_forall. intros H x Hx. specialize (H x Hx).
    assert (T' : forallb (fun c => negb (is_digit c) || negb (is_space c)) UV.Ref.Deb.all_chars = true) by (vm_compute; reflexivity).
    rewrite forallb_forall in T'. specialize (T' x (UV.Ref.Deb.all_chars_complete x)). rewrite H in T'. exact T'. }
  assert (P : forall t, forallb p0 t = true -> forallb ok t = true).
  { intros t. rewrite !forallb_forall. intros H x Hx. specialize (H x Hx).
    assert (T' : forallb (fun c => negb (p0 c) || negb (is_space c)) UV.Ref.Deb.all_chars = true) by (vm_compute; reflexivity).
    rewrite forallb_forall in T'. specialize (T' x (UV.Ref.Deb.all_chars_complete x)). rewrite H in T'. exact T'. }
  destruct (str_of_N_spec a) as [Aa [Na _]], (str_of_N_spec b) as [Ab [Nb _]], (str_of_N_spec c) as [Ac [Nc _]].
  unfold normalize. rewrite remove_spaces_none.
  - apply lstrip_set_none. destruct (str_of_N a) as [|x t] eqn:E; [congruence|]. cbn [app].
    unfold all_digits in Aa. cbn [forallb] in Aa. apply andb_true_iff in Aa. destruct Aa as [Dx _].
    assert (T' : forallb (fun c => negb (is_digit c) || negb (mem_c c vV)) UV.Ref.Deb.all_chars = true) by (vm_compute; reflexivity).
    rewrite forallb_forall in T'. specialize (T' x (UV.Ref.Deb.all_chars_complete x)). rewrite Dx in T'. cbn [negb orb] in T'. apply negb_true_iff in T'. exact T'.
  - fold ok. repeat (rewrite ?forallb_app; cbn [forallb]). rewrite (D _ Aa), (D _ Ab), (D _ Ac).
    destruct pre; destruct build; cbn [forallb andb]; rewrite ?(P _ Pp), ?(P _ Pb); reflexivity.
Qed.
Theorem semver_ctor_roundtrip s v : semver_ctor s = Ok v -> semver_ctor (semver_str v) = Ok v.
Proof.
  intros H. assert (W : WF v). { unfold semver_ctor in H. destruct (coerce (normalize s)) as [w|e] eqn:E; [|discriminate]. inversion H; subst. apply (coerce_wf _ _ E). }
  unfold semver_ctor. rewrite (printed_normal v W), (semver_print_parse v W). reflexivity.
Qed.
Lemma printed_lstrip v : lstrip_set vV (semver_str v) = semver_str v.
Proof.
  destruct v as [a b c pre build]. unfold semver_str. cbn [sv_major]. destruct (str_of_N_spec a) as [Aa [Na _]].
  apply lstrip_set_none. destruct (str_of_N a) as [|x t] eqn:E; [congruence|]. cbn [app].
  unfold all_digits in Aa. cbn [forallb] in Aa. apply andb_true_iff in Aa. destruct Aa as [Dx _].
  assert (T' : forallb (fun c => negb (is_digit c) || negb (mem_c c vV)) UV.Ref.Deb.all_chars = true) by (vm_compute; reflexivity).
  rewrite forallb_forall in T'. specialize (T' x (UV.Ref.Deb.all_chars_complete x)). rewrite Dx in T'. cbn [negb orb] in T'. apply negb_true_iff in T'. exact T'.
Qed.
Theorem golang_ctor_roundtrip s v : golang_ctor s = Ok v -> golang_ctor (semver_str v) = Ok v.
Proof.
  intros H. assert (W : WF v). { unfold golang_ctor in H. destruct (coerce (lstrip_set vV (normalize s))) as [w|e] eqn:E; [|discriminate]. inversion H; subst. apply (coerce_wf _ _ E). }
  unfold golang_ctor. rewrite (printed_normal v W), printed_lstrip, (semver_print_parse v W). reflexivity.
Qed.
