(* str(n) for a natural number: a non-empty string of digits whose value is n. *)
From Coq Require Import List Bool Arith Ascii String NArith Lia.
From UV.Py Require Import PyStr.
From UV.Schemes Require Import Common Numerals.
Import ListNotations.
Local Open Scope list_scope.

Lemma code_ch x : (x < 256)%N -> code (ch x) = x.
Proof. intros H. unfold code, ch. apply N_ascii_embedding. exact H. Qed.
Lemma digit_char m : (m < 10)%N -> is_digit (ch (48 + m)) = true /\ digit_val (ch (48 + m)) = m.
Proof.
  intros H. unfold is_digit, digit_val. rewrite code_ch by lia. split; [|lia].
  apply andb_true_iff. split; apply N.leb_le; lia.
Qed.
Lemma log2_div10 n : (10 <= n)%N -> (N.log2 (n / 10) < N.log2 n)%N.
Proof.
  intros H. assert (A : (n / 10 <= n / 2)%N) by (apply N.div_le_compat_l; lia).
  assert (B : (N.log2 (n / 2) < N.log2 n)%N).
  { rewrite <- N.div2_div, N.div2_spec, N.log2_shiftr. assert (0 < N.log2 n)%N by (apply N.log2_pos; lia). lia. }
  pose proof (N.log2_le_mono _ _ A). lia.
Qed.

Lemma digits_fuel_spec : forall fuel n acc, (N.log2 n < N.of_nat fuel)%N ->
  exists ds, digits_fuel fuel n acc = ds ++ acc /\ all_digits ds = true /\ ds <> [] /\ int_of_digits ds = n.
Proof.
  induction fuel as [|f IH]; intros n acc H; [lia|]. cbn [digits_fuel].
  assert (M : (n mod 10 < 10)%N) by (apply N.mod_lt; lia). destruct (digit_char _ M) as [D V].
  destruct (N.ltb n 10) eqn:L.
  - apply N.ltb_lt in L. exists [ch (48 + n mod 10)]. split; [reflexivity|]. split; [unfold all_digits; cbn [forallb]; rewrite D; reflexivity|]. split; [discriminate|].
    unfold int_of_digits. cbn [fold_left]. rewrite V. rewrite N.mod_small by exact L. lia.
  - apply N.ltb_ge in L. assert (F : (N.log2 (n / 10) < N.of_nat f)%N) by (pose proof (log2_div10 n L); lia).
    destruct (IH (n / 10)%N (ch (48 + n mod 10) :: acc) F) as [ds [E [A [Nn I]]]].
    exists (ds ++ [ch (48 + n mod 10)]). split; [rewrite E, <- app_assoc; reflexivity|]. split.
    + unfold all_digits in *. rewrite forallb_app, A. cbn [forallb]. rewrite D. reflexivity.
    + split; [destruct ds; discriminate|]. rewrite int_of_digits_snoc, I, V. pose proof (N.div_mod n 10). lia.
Qed.

Theorem str_of_N_spec n : all_digits (str_of_N n) = true /\ str_of_N n <> [] /\ int_of_digits (str_of_N n) = n.
Proof.
  unfold str_of_N. destruct (digits_fuel_spec (S (N.to_nat (N.log2 n))) n []) as [ds [E [A [Nn I]]]]; [lia|].
  rewrite E, app_nil_r. repeat split; assumption.
Qed.
