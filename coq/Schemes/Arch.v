(* ArchLinuxVersion: code-shaped model of univers.arch.vercmp (split, get_type, parse, rpmvercmp), hash_key and of
   the operators of versions.ArchLinuxVersion (each one a test on the sign of vercmp). *)
From Coq Require Import List Bool Arith Ascii String NArith Lia.
From UV.Base Require Import Order LexPad Res.
From UV.Py Require Import PyStr.
From UV.Schemes Require Import Common Generic Gentoo.
Import ListNotations.
Local Open Scope list_scope.

Inductive ctype := TDigit | TAlpha | TOther.
Definition ctype_eqb (a b : ctype) : bool :=
  match a, b with TDigit, TDigit | TAlpha, TAlpha | TOther, TOther => true | _, _ => false end.
(* get_type: isdecimal / isalpha / other (ASCII) *)
Definition get_type (c : ascii) : ctype := if is_digit c then TDigit else if is_alpha c then TAlpha else TOther.
Definition same_type (t : ctype) (c : ascii) : bool := ctype_eqb (get_type c) t.

(* parse(): maximal runs of characters of one type *)
Fixpoint parts (fuel : nat) (s : str) : list (ctype * str) :=
  match fuel with
  | O => []
  | S f =>
      match s with
      | [] => []
      | c :: _ => let t := get_type c in (t, take_while (same_type t) s) :: parts f (drop_while (same_type t) s)
      end
  end.
Definition parse_parts (s : str) : list (ctype * str) := parts (S (List.length s)) s.

(* rpmvercmp(): the zip_longest loop *)
Definition part_cmp (t : ctype) (p1 p2 : str) : comparison :=
  match t with
  | TOther => Nat.compare (List.length p1) (List.length p2)
  | TDigit => N.compare (int_of_digits p1) (int_of_digits p2)
  | TAlpha => cmp_str p1 p2
  end.
Fixpoint parts_cmp (l1 l2 : list (ctype * str)) : comparison :=
  match l1, l2 with
  | [], [] => Eq
  | [], (t2, _) :: _ => if ctype_eqb t2 TAlpha then Gt else Lt
  | (t1, _) :: _, [] => if ctype_eqb t1 TAlpha then Lt else Gt
  | (t1, p1) :: r1, (t2, p2) :: r2 =>
      if negb (ctype_eqb t1 t2) then
        if ctype_eqb t1 TDigit then Gt
        else if ctype_eqb t2 TDigit then Lt
        else if ctype_eqb t1 TOther then Gt
        else Lt
      else match part_cmp t1 p1 p2 with Eq => parts_cmp r1 r2 | o => o end
  end.
Definition rpmvercmp_a (v1 v2 : str) : comparison := parts_cmp (parse_parts v1) (parse_parts v2).

(* split(): epoch before the first colon (else "0"), pkgrel after the last hyphen (else None) *)
Definition rsplit_dash (s : str) : str * option str :=
  let '(a, f, b) := partition_c "-"%char (rev s) in if f then (rev b, Some (rev a)) else (s, None).
Definition split_evr (v : str) : str * str * option str :=
  let '(e, rest) := if mem_c ":"%char v then (let '(e, _, r) := partition_c ":"%char v in (e, r)) else (["0"%char], v) in
  let '(ver, rel) := rsplit_dash rest in
  (e, ver, rel).

Definition arch_cmp (a b : str) : comparison :=
  let '(e1, v1, r1) := split_evr a in
  let '(e2, v2, r2) := split_evr b in
  match rpmvercmp_a e1 e2 with
  | Eq => match rpmvercmp_a v1 v2 with
          | Eq => match r1, r2 with Some x, Some y => rpmvercmp_a x y | _, _ => Eq end
          | o => o end
  | o => o end.

(* versions.ArchLinuxVersion: value is the normalised text; valid when non-empty *)
Definition arch_valid (n : str) : bool := negb (is_empty n).
Definition arch_ctor (s : str) : res str := let n := normalize s in if arch_valid n then Ok n else Err EInvalidVersion.
Definition arch_ops (a b : str) : ops := ops_of (arch_cmp a b).

(* hash_key: the groups of the epoch and of the version, without the pkgrel *)
Definition part_key (p : ctype * str) : N * (N * str) :=
  match fst p with
  | TDigit => (0%N, (int_of_digits (snd p), []))
  | TAlpha => (1%N, (0%N, snd p))
  | TOther => (2%N, (N.of_nat (List.length (snd p)), []))
  end.
Definition arch_hash_key (v : str) : list (N * (N * str)) * list (N * (N * str)) :=
  let '(e, ver, _) := split_evr v in (map part_key (parse_parts e), map part_key (parse_parts ver)).
Definition key_eqb (x y : N * (N * str)) : bool := N.eqb (fst x) (fst y) && N.eqb (fst (snd x)) (fst (snd y)) && eqs (snd (snd x)) (snd (snd y)).
Definition arch_hasheq (a b : str) : bool :=
  list_eqb key_eqb (fst (arch_hash_key a)) (fst (arch_hash_key b)) && list_eqb key_eqb (snd (arch_hash_key a)) (snd (arch_hash_key b)).
