(* C11 for LegacyOpensslVersion: the printed form of a constructed version constructs the same version again.
   The printer rebuilds the text from the three numbers and the patch; the parser accepts it because the printed base
   is one of the known bases (the test `checked` makes after parsing), whose build is a single digit. *)
From Coq Require Import List Bool Arith Ascii String NArith Lia.
From UV.Base Require Import Order Res.
From UV.Gen Require Import Tables.
From UV.Py Require Import PyStr.
From UV.Schemes Require Import Common Generic LegacyOpenssl NumeralsStr.
Import ListNotations.
Local Open Scope list_scope.

Definition nospace (s : str) : bool := forallb (fun c => negb (is_space c)) s.

Lemma digit_facts c : is_digit c = true -> is_space c = false /\ mem_c c vV = false /\ eqc c_dot c = false.
Proof. destruct c as [[] [] [] [] [] [] [] []]; vm_compute; intros H; try discriminate H; auto. Qed.

Lemma digits_nodot s : all_digits s = true -> mem_c c_dot s = false.
Proof.
  induction s as [|x r IH]; cbn [all_digits forallb mem_c existsb]; [reflexivity|]. intros H. apply andb_true_iff in H as [Hx Hr].
  destruct (digit_facts x Hx) as (_ & _ & Hd). rewrite Hd. apply IH, Hr.
Qed.
Lemma digits_nospace s : all_digits s = true -> nospace s = true.
Proof.
  induction s as [|x r IH]; cbn [all_digits nospace forallb]; [reflexivity|]. intros H. apply andb_true_iff in H as [Hx Hr].
  destruct (digit_facts x Hx) as (Hs & _ & _). rewrite Hs. apply IH, Hr.
Qed.

Lemma lstrip_keeps f cs s : forallb f s = true -> forallb f (lstrip_set cs s) = true.
Proof.
  induction s as [|x r IH]; cbn [lstrip_set]; [reflexivity|]. intros H. destruct (mem_c x cs); [|exact H].
  cbn [forallb] in H. apply andb_true_iff in H as [_ Hr]. apply IH, Hr.
Qed.
Lemma normalize_nospace s : nospace (normalize s) = true.
Proof. unfold normalize, nospace. apply lstrip_keeps, remove_spaces_clean. Qed.

(* every part of a split has no separator and keeps any character-wise property of the whole *)
Lemma split_parts c f : forall s x, In x (split_c c s) -> mem_c c x = false /\ (forallb f s = true -> forallb f x = true).
Proof.
  induction s as [|y r IH]; cbn [split_c]; intros x Hin.
  - destruct Hin as [<-|[]]. split; reflexivity.
  - destruct (eqc y c) eqn:Eyc.
    + destruct Hin as [<-|Hin]; [split; reflexivity|]. destruct (IH x Hin) as [H1 H2]. split; [exact H1|].
      cbn [forallb]. intros H. apply andb_true_iff in H as [_ Hr]. apply H2, Hr.
    + destruct (split_c c r) as [|h t] eqn:Es.
      * destruct Hin as [<-|[]]. exfalso. exact (split_c_nonempty c r Es).
      * destruct Hin as [<-|Hin].
        -- destruct (IH h (or_introl eq_refl)) as [H1 H2]. split.
           ++ cbn [mem_c existsb]. rewrite eqc_sym, Eyc. exact H1.
           ++ cbn [forallb]. intros H. apply andb_true_iff in H as [Hy Hr]. rewrite Hy. apply H2, Hr.
        -- destruct (IH x (or_intror Hin)) as [H1 H2]. split; [exact H1|].
           cbn [forallb]. intros H. apply andb_true_iff in H as [_ Hr]. apply H2, Hr.
Qed.

Lemma mem_c_app c a b : mem_c c (a ++ b) = mem_c c a || mem_c c b.
Proof. unfold mem_c. apply existsb_app. Qed.

(* a known base has a one-digit build *)
Lemma known_base_build v : known_base v = true -> exists c0, str_of_N (l_build v) = [c0].
Proof.
  unfold known_base. intros H. apply existsb_exists in H as (base & Hin & He). apply eqs_eq in He.
  destruct (str_of_N_spec (l_major v)) as (DA & _ & _). destruct (str_of_N_spec (l_minor v)) as (DB & _ & _).
  destruct (str_of_N_spec (l_build v)) as (DC & _ & _).
  remember (str_of_N (l_major v)) as A. remember (str_of_N (l_minor v)) as B. remember (str_of_N (l_build v)) as C.
  assert (Hs : split_c c_dot base = [A; B; C]).
  { rewrite <- He. rewrite split_app_sep by (apply digits_nodot, DA). rewrite split_app_sep by (apply digits_nodot, DB).
    rewrite split_no_sep by (apply digits_nodot, DC). reflexivity. }
  clear He HeqA HeqB HeqC DA DB DC. vm_compute in Hin.
  repeat (destruct Hin as [<-|Hin]; [vm_compute in Hs; injection Hs as _ _ HC; eexists; symmetry; exact HC|]).
  destruct Hin.
Qed.

Theorem leg_print_parse v :
  known_base v = true -> mem_c c_dot (l_patch v) = false -> nospace (l_patch v) = true ->
  match l_patch v with [] => True | p0 :: _ => is_digit p0 = false end ->
  leg_ctor (leg_str v) = Ok v.
Proof.
  intros Hk Hdot Hsp Hp0. destruct (known_base_build v Hk) as [c0 Hc0].
  destruct (str_of_N_spec (l_major v)) as (DA & NA & IA). destruct (str_of_N_spec (l_minor v)) as (DB & NB & IB).
  destruct (str_of_N_spec (l_build v)) as (DC & _ & IC).
  destruct v as [M m b p]. cbn [l_major l_minor l_build l_patch] in *.
  unfold leg_ctor, leg_str. cbn [l_major l_minor l_build l_patch].
  remember (str_of_N M) as A. remember (str_of_N m) as B. rewrite Hc0 in *.
  assert (D0 : is_digit c0 = true) by (cbn [all_digits forallb] in DC; apply andb_true_iff in DC as [D _]; exact D).
  assert (HN : normalize (A ++ c_dot :: B ++ c_dot :: [c0] ++ p) = A ++ c_dot :: B ++ c_dot :: [c0] ++ p).
  { unfold normalize. rewrite remove_spaces_none.
    - apply lstrip_set_none. destruct A as [|a A']; [congruence|]. cbn [app]. cbn [all_digits forallb] in DA.
      apply andb_true_iff in DA as [Da _]. apply (digit_facts a Da).
    - fold (nospace (A ++ c_dot :: B ++ c_dot :: [c0] ++ p)). unfold nospace. rewrite forallb_app. fold (nospace A).
      rewrite (digits_nospace A DA). cbn [forallb andb]. rewrite forallb_app. fold (nospace B). rewrite (digits_nospace B DB).
      cbn [forallb andb app]. destruct (digit_facts c0 D0) as (S0 & _ & _). rewrite S0. exact Hsp. }
  rewrite HN. unfold leg_parse.
  assert (HS : existsb (startswith (A ++ c_dot :: B ++ c_dot :: [c0] ++ p)) bases = true).
  { unfold known_base in Hk. cbn [l_major l_minor l_build] in Hk. rewrite <- HeqA, <- HeqB, Hc0 in Hk.
    apply existsb_exists in Hk as (base & Hin & He). apply eqs_eq in He. apply existsb_exists. exists base. split; [exact Hin|].
    rewrite <- He. replace (A ++ c_dot :: B ++ c_dot :: [c0] ++ p) with ((A ++ c_dot :: B ++ c_dot :: [c0]) ++ p).
    - apply startswith_app.
    - rewrite <- app_assoc. cbn [app]. rewrite <- app_assoc. reflexivity. }
  rewrite HS. cbn [negb].
  rewrite split_app_sep by (apply digits_nodot, DA). rewrite split_app_sep by (apply digits_nodot, DB).
  rewrite split_no_sep.
  2:{ rewrite mem_c_app. cbn [mem_c existsb]. destruct (digit_facts c0 D0) as (_ & _ & E0). rewrite E0. exact Hdot. }
  assert (IdA : isdigit A = true) by (unfold isdigit; rewrite DA; destruct A; [congruence|reflexivity]).
  assert (IdB : isdigit B = true) by (unfold isdigit; rewrite DB; destruct B; [congruence|reflexivity]).
  rewrite IdA, IdB. cbn [andb negb].
  assert (Ic0 : int_of_digits [c0] = digit_val c0) by (unfold int_of_digits; cbn [fold_left]; lia).
  destruct p as [|p0 r].
  - cbn [app]. unfold isdigit at 1. cbn [is_empty negb all_digits forallb andb]. rewrite D0. cbn [andb].
    unfold checked. rewrite IA, IB, IC, Hk. reflexivity.
  - cbn [app]. unfold isdigit at 1. cbn [is_empty negb all_digits forallb andb]. rewrite D0, Hp0. cbn [andb negb].
    unfold checked. rewrite IA, IB, <- Ic0, IC, Hk. reflexivity.
Qed.

(* what parse guarantees about the patch of the value it returns *)
Lemma leg_parse_patch n v : leg_parse n = Ok (Some v) ->
  known_base v = true /\ mem_c c_dot (l_patch v) = false /\ (nospace n = true -> nospace (l_patch v) = true) /\
  match l_patch v with [] => True | p0 :: _ => is_digit p0 = false end.
Proof.
  unfold leg_parse. destruct (negb (existsb (startswith n) bases)); [discriminate|].
  destruct (split_c c_dot n) as [|a [|b [|c [|d t]]]] eqn:Es; try discriminate.
  assert (Hc : In c (split_c c_dot n)) by (rewrite Es; right; right; left; reflexivity).
  destruct (split_parts c_dot (fun c => negb (is_space c)) n c Hc) as [Hcd Hcs].
  destruct (negb (isdigit a && isdigit b)); [discriminate|].
  assert (CK : forall w, checked w = Ok (Some v) -> known_base v = true /\ w = v).
  { unfold checked. intros w. destruct (known_base w) eqn:Ek; [|discriminate]. intros H. injection H as <-. auto. }
  destruct (isdigit c).
  - intros H. apply CK in H as [Hk <-]. cbn [l_patch]. repeat split; auto.
  - destruct c as [|c0 patch]; [discriminate|]. destruct (negb (is_digit c0)); [discriminate|].
    destruct patch as [|p0 r]; [discriminate|]. destruct (is_digit p0) eqn:Ep; [discriminate|].
    intros H. apply CK in H as [Hk <-]. cbn [l_patch]. cbn [mem_c existsb] in Hcd. apply orb_false_iff in Hcd as [_ Hcd].
    repeat split; auto. intros Hn. specialize (Hcs Hn). cbn [forallb] in Hcs. apply andb_true_iff in Hcs as [_ Hr]. exact Hr.
Qed.

Theorem leg_ctor_roundtrip s v : leg_ctor s = Ok v -> leg_ctor (leg_str v) = Ok v.
Proof.
  unfold leg_ctor at 1. destruct (leg_parse (normalize s)) as [[w|]|e] eqn:E; try discriminate. intros H. injection H as <-.
  destruct (leg_parse_patch _ _ E) as (Hk & Hd & Hs & Hp). apply leg_print_parse; auto. apply Hs, normalize_nospace.
Qed.
