(* C11 for rpm: the printed form of a constructed RpmVersion constructs the same version again, except in the case of
   the listed finding (a zero epoch in front of a version that begins with "v" or "V": the epoch is not printed and
   normalize() then strips the letter).  The hypothesis of the theorem is exactly the complement of that case. *)
From Coq Require Import List Bool Arith Ascii String NArith ZArith Lia.
From UV.Base Require Import Order Res.
From UV.Py Require Import PyStr.
From UV.Schemes Require Import Common Generic Numerals NumeralsStr Rpm SemverRoundTrip DebianRoundTrip.
From UV.Ref Require Deb.
Import ListNotations.
Local Open Scope list_scope.

(* int() of a plain digit string *)
Lemma int_body_digits : forall ds acc b, all_digits ds = true -> (ds <> [] \/ b = true) ->
  int_body acc b ds = Some (fold_left (fun a c => a * 10 + digit_val c)%N ds acc).
Proof.
  induction ds as [|c r IH]; intros acc b A H.
  - destruct H as [H|H]; [congruence|]. subst b. reflexivity.
  - unfold all_digits in A. cbn [forallb] in A. apply andb_true_iff in A. destruct A as [Ac Ar].
    cbn [int_body fold_left]. rewrite Ac. apply IH; [exact Ar|right; reflexivity].
Qed.
Lemma digit_not_sign c : is_digit c = true -> eqc c "-"%char = false /\ eqc c "+"%char = false.
Proof.
  assert (T : forallb (fun c => negb (is_digit c) || (negb (eqc c "-"%char) && negb (eqc c "+"%char))) UV.Ref.Deb.all_chars = true) by (vm_compute; reflexivity).
  rewrite forallb_forall in T. specialize (T c (UV.Ref.Deb.all_chars_complete c)). intros Dc. rewrite Dc in T. cbn [negb orb] in T.
  apply andb_true_iff in T. destruct T as [T1 T2]. apply negb_true_iff in T1, T2. auto.
Qed.
Lemma py_int_digits ds : all_digits ds = true -> ds <> [] -> py_int ds = Some (Z.of_N (int_of_digits ds)).
Proof.
  intros A Nn. destruct ds as [|c r]; [congruence|].
  assert (Dc : is_digit c = true) by (unfold all_digits in A; cbn [forallb] in A; apply andb_true_iff in A; apply A).
  destruct (digit_not_sign c Dc) as [N1 N2]. pose proof (int_body_digits (c :: r) 0%N false A (or_introl Nn)) as B.
  unfold py_int. destruct (eqc c "-"%char); [discriminate|]. destruct (eqc c "+"%char); [discriminate|].
  destruct (int_body 0 false (c :: r)) as [m|]; [|discriminate]. inversion B; subst. reflexivity.
Qed.
Lemma py_int_str_of_N n : py_int (str_of_N n) = Some (Z.of_N n).
Proof. destruct (str_of_N_spec n) as [A [Nn V]]. rewrite (py_int_digits _ A Nn), V. reflexivity. Qed.
Lemma py_int_str_of_Z z : py_int (str_of_Z z) = Some z.
Proof.
  destruct z as [|p|p]; unfold str_of_Z.
  - reflexivity.
  - rewrite py_int_str_of_N. reflexivity.
  - destruct (str_of_N_spec (Npos p)) as [A [Nn V]]. pose proof (int_body_digits _ 0%N false A (or_introl Nn)) as B.
    unfold int_of_digits in V. rewrite V in B. unfold py_int. change (eqc "-"%char "-"%char) with true. cbn iota.
    destruct (int_body 0 false (str_of_N (N.pos p))) as [m|]; [|discriminate]. inversion B; subst. reflexivity.
Qed.

Lemma lstrip_first cs : forall s, match lstrip_set cs s with c :: _ => mem_c c cs = false | [] => True end.
Proof. induction s as [|x r IH]; [exact I|]. cbn [lstrip_set]. destruct (mem_c x cs) eqn:E; [exact IH|exact E]. Qed.
Lemma nospace_app a b : forallb (fun c => negb (is_space c)) (a ++ b) = true ->
  forallb (fun c => negb (is_space c)) a = true /\ forallb (fun c => negb (is_space c)) b = true.
Proof. rewrite forallb_app. intros H. apply andb_true_iff in H. exact H. Qed.
Lemma str_of_Z_clean z : z <> 0%Z ->
  mem_c c_colon (str_of_Z z) = false /\ forallb (fun c => negb (is_space c)) (str_of_Z z) = true /\
  match str_of_Z z with c :: _ => mem_c c vV = false | [] => False end.
Proof.
  assert (D : forall n, mem_c c_colon (str_of_N n) = false /\ forallb (fun c => negb (is_space c)) (str_of_N n) = true /\
                        match str_of_N n with c :: _ => mem_c c vV = false | [] => False end).
  { intros n. destruct (str_of_N_spec n) as [A [Nn _]].
    assert (Dg : isdigit (str_of_N n) = true) by (unfold isdigit; rewrite A; destruct (str_of_N n); [congruence|reflexivity]).
    destruct (digits_clean _ Dg) as [M S]. split; [exact M|]. split; [exact S|].
    destruct (str_of_N n) as [|c r]; [congruence|]. apply digit_not_v. unfold all_digits in A. cbn [forallb] in A. apply andb_true_iff in A. apply A. }
  intros NZ. destruct z as [|p|p]; [congruence| |]; unfold str_of_Z.
  - apply D.
  - destruct (D (Npos p)) as [M [S _]]. split; [unfold mem_c in *; cbn [existsb]; rewrite M; reflexivity|]. split; [cbn [forallb]; rewrite S; reflexivity|reflexivity].
Qed.

Definition rpm_vr (v : rpmv) : str := if is_empty (r_release v) then r_version v else r_version v ++ c_dash :: r_release v.

(* what from_evr guarantees about a valid text *)
Lemma from_evr_shape n v : from_evr n = Ok v -> mem_c c_dash (r_version v) = false.
Proof.
  unfold from_evr. destruct (if mem_c c_colon n then let '(e, _, vr) := partition_c c_colon n in (e, vr) else (["0"%char], n)) as [e vr].
  destruct (py_int e) as [ep|]; [|discriminate]. destruct (mem_c c_dash vr) eqn:M.
  - destruct (partition_c c_dash vr) as [[a f] b] eqn:P. intros H. inversion H; subst. cbn [r_version].
    assert (F : f = true) by (pose proof (UV.Schemes.TotalityProofs.partition_found c_dash vr) as PF; rewrite P, M in PF; exact PF). subst f.
    apply (partition_split _ _ _ _ P).
  - intros H. inversion H; subst. exact M.
Qed.
Lemma from_evr_chars n v : from_evr n = Ok v -> forallb (fun c => negb (is_space c)) n = true ->
  forallb (fun c => negb (is_space c)) (r_version v ++ r_release v) = true.
Proof.
  unfold from_evr. intros H S.
  assert (K : forall vr, forallb (fun c => negb (is_space c)) vr = true ->
            forall a b, (if mem_c c_dash vr then let '(a, _, b) := partition_c c_dash vr in (a, b) else (vr, [])) = (a, b) ->
            forallb (fun c => negb (is_space c)) (a ++ b) = true).
  { intros vr Sv a b E. destruct (mem_c c_dash vr) eqn:M.
    - destruct (partition_c c_dash vr) as [[a' f] b'] eqn:P. inversion E; subst.
      destruct (partition_parts (fun c => negb (is_space c)) c_dash vr a f b P Sv) as [A [_ B]]. rewrite forallb_app, A, B. reflexivity.
    - inversion E; subst. rewrite app_nil_r. exact Sv. }
  destruct (mem_c c_colon n) eqn:M.
  - destruct (partition_c c_colon n) as [[e f] vr] eqn:P. destruct (py_int e) as [ep|]; [|discriminate].
    destruct (partition_parts (fun c => negb (is_space c)) c_colon n e f vr P S) as [_ [_ Sv]].
    destruct (if mem_c c_dash vr then let '(a, _, b) := partition_c c_dash vr in (a, b) else (vr, [])) as [a b] eqn:E.
    inversion H; subst. apply (K vr Sv a b E).
  - change (py_int ["0"%char]) with (Some 0%Z) in H.
    destruct (if mem_c c_dash n then let '(a, _, b) := partition_c c_dash n in (a, b) else (n, [])) as [a b] eqn:E.
    inversion H; subst. apply (K n S a b E).
Qed.

(* reading "version[-release]" back *)
Lemma dash_split_printed ver rel : mem_c c_dash ver = false ->
  (if mem_c c_dash (if is_empty rel then ver else ver ++ c_dash :: rel)
   then let '(a, _, b) := partition_c c_dash (if is_empty rel then ver else ver ++ c_dash :: rel) in (a, b)
   else ((if is_empty rel then ver else ver ++ c_dash :: rel), [])) = (ver, rel).
Proof.
  intros M. destruct rel as [|x r]; cbn [is_empty].
  - rewrite M. reflexivity.
  - assert (M2 : mem_c c_dash (ver ++ c_dash :: x :: r) = true) by (unfold mem_c; rewrite existsb_app; cbn [existsb]; rewrite eqc_refl, orb_true_r; reflexivity).
    rewrite M2, (partition_app_sep c_dash ver (x :: r) M). reflexivity.
Qed.

Theorem rpm_ctor_roundtrip s v : rpm_ctor s = Ok v ->
  (r_epoch v = 0%Z -> match r_version v with c :: _ => mem_c c vV = false | [] => True end) ->
  rpm_ctor (rpm_str v) = Ok v.
Proof.
  unfold rpm_ctor at 1. set (n := normalize s). unfold rpm_valid. destruct (from_evr n) as [w|e] eqn:F; [|destruct e; discriminate].
  destruct (negb (is_empty (r_version w)) && negb (mem_c c_colon (r_version w ++ r_release w))) eqn:Val; [|discriminate].
  intros H. inversion H; subst w. intros Hv. clear H.
  apply andb_true_iff in Val. destruct Val as [V1 V2]. apply negb_true_iff in V1, V2.
  pose proof (from_evr_shape n v F) as Mdash.
  assert (Sn : forallb (fun c => negb (is_space c)) n = true) by (unfold n, normalize; apply forallb_forall; intros x Hx;
    assert (In x (remove_spaces s)) by (clear - Hx; induction (remove_spaces s) as [|y t IH]; [exact Hx|]; cbn [lstrip_set] in Hx; destruct (mem_c y vV); [right; apply IH; exact Hx|exact Hx]);
    pose proof (remove_spaces_clean s) as RC; rewrite forallb_forall in RC; apply RC; assumption).
  pose proof (from_evr_chars n v F Sn) as Svr.
  destruct v as [ep ver rel]. cbn [r_epoch r_version r_release] in *.
  destruct (nospace_app _ _ Svr) as [Sver Srel].
  assert (Mc : mem_c c_colon ver = false /\ mem_c c_colon rel = false).
  { unfold mem_c in *. rewrite existsb_app in V2. apply orb_false_iff in V2. exact V2. }
  destruct Mc as [Mcv Mcr].
  set (vr := if is_empty rel then ver else ver ++ c_dash :: rel).
  assert (Svr' : forallb (fun c => negb (is_space c)) vr = true).
  { unfold vr. destruct (is_empty rel); [exact Sver|]. rewrite forallb_app. cbn [forallb]. rewrite Sver, Srel. reflexivity. }
  assert (Mvr : mem_c c_colon vr = false).
  { unfold vr. destruct (is_empty rel); [exact Mcv|]. unfold mem_c in *. rewrite existsb_app. cbn [existsb]. rewrite Mcv, Mcr. reflexivity. }
  assert (EVR : forall e, py_int e = Some ep ->
            (if mem_c c_colon (e ++ c_colon :: vr) then true else true) = true ->
            True) by auto.
  assert (BUILD : forall e rest, py_int e = Some ep -> (if mem_c c_colon rest then let '(e0, _, vr0) := partition_c c_colon rest in (e0, vr0) else (["0"%char], rest)) = (e, vr) ->
                  from_evr rest = Ok {| r_epoch := ep; r_version := ver; r_release := rel |}).
  { intros e rest He Hs. unfold from_evr. rewrite Hs, He. unfold vr. rewrite (dash_split_printed ver rel Mdash). reflexivity. }
  assert (VALID : negb (is_empty ver) && negb (mem_c c_colon (ver ++ rel)) = true) by (rewrite V1, V2; reflexivity).
  unfold rpm_str. cbn [r_epoch r_version r_release]. fold vr.
  destruct (Z.eqb ep 0) eqn:Z.
  - apply Z.eqb_eq in Z. subst ep. specialize (Hv eq_refl).
    assert (N : normalize vr = vr).
    { unfold normalize. rewrite (remove_spaces_none vr Svr'). apply lstrip_set_none. unfold vr. destruct ver as [|c r]; [discriminate|]. destruct (is_empty rel); exact Hv. }
    unfold rpm_ctor, rpm_valid. rewrite N. rewrite (BUILD ["0"%char] vr eq_refl) by (rewrite Mvr; reflexivity). cbn [r_version r_release]. rewrite VALID. reflexivity.
  - apply Z.eqb_neq in Z. destruct (str_of_Z_clean ep Z) as [Me [Se Fe]].
    assert (N : normalize (str_of_Z ep ++ c_colon :: vr) = str_of_Z ep ++ c_colon :: vr).
    { unfold normalize. rewrite remove_spaces_none; [|rewrite forallb_app; cbn [forallb]; rewrite Se, Svr'; reflexivity].
      apply lstrip_set_none. destruct (str_of_Z ep) as [|c r]; [contradiction|exact Fe]. }
    unfold rpm_ctor, rpm_valid. rewrite N.
    assert (M2 : mem_c c_colon (str_of_Z ep ++ c_colon :: vr) = true) by (unfold mem_c; rewrite existsb_app; cbn [existsb]; rewrite eqc_refl, orb_true_r; reflexivity).
    rewrite (BUILD (str_of_Z ep) _ (py_int_str_of_Z ep)) by (rewrite M2, (partition_app_sep c_colon _ _ Me); reflexivity).
    cbn [r_version r_release]. rewrite VALID. reflexivity.
Qed.
