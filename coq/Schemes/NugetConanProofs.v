(* nuget and conan: the six operators of the models are the ones of a three-way comparison (so they agree with one
   another), equal versions hash alike (conan), and the constructors fail only with the invalid-version error. *)
From Coq Require Import List Bool Arith Ascii String NArith ZArith Lia.
From UV.Base Require Import Order Res.
From UV.Py Require Import PyStr.
From UV.Schemes Require Import Common Generic Gentoo Nuget Conan.
Import ListNotations.

Theorem nuget_ops_spec a b : nuget_ops a b = ops_of (nuget_cmp a b) /\ ops_agree (nuget_ops a b) = true.
Proof.
  assert (E : nuget_ops a b = ops_of (nuget_cmp a b)) by (unfold nuget_ops, nuget_cmp; destruct (nuget_eq a b), (nuget_lt a b); reflexivity).
  split; [exact E|rewrite E; apply ops_of_agree].
Qed.
Theorem conan_ops_spec a b : conan_ops a b = ops_of (conan_cmp a b) /\ ops_agree (conan_ops a b) = true.
Proof.
  assert (E : conan_ops a b = ops_of (conan_cmp a b)) by (unfold conan_ops, conan_cmp; destruct (conan_eqb a b), (conan_ltb a b); reflexivity).
  split; [exact E|rewrite E; apply ops_of_agree].
Qed.
Theorem conan_eq_hash a b : o_eq (conan_ops a b) = true -> conan_hasheq a b = true.
Proof. intros H. exact H. Qed.

Theorem nuget_ctor_declared s e : nuget_ctor s = Err e -> e = EInvalidVersion.
Proof.
  unfold nuget_ctor, nuget_valid. destruct (nuget_from_string (normalize s)) as [[v|]|e0] eqn:E.
  - discriminate.
  - intros H. inversion H. reflexivity.
  - assert (X : e0 = EValue).
    { unfold nuget_from_string in E. destruct (is_empty (normalize s)); [discriminate|].
      destruct (negb (existsb is_digit (normalize s))); [inversion E; reflexivity|].
      match type of E with context [take_while is_digit ?t] => destruct (take_while is_digit t); [inversion E; reflexivity|] end.
      repeat match type of E with context [dot_digits ?x] => destruct (dot_digits x) as [[? ?]|] end;
        match type of E with context [parse_tail ?x] => destruct (parse_tail x) as [[? ?]|]; [discriminate|inversion E; reflexivity] end. }
    subst e0. intros H. inversion H. reflexivity.
Qed.
Theorem conan_ctor_total s : exists v, conan_ctor s = Ok v.
Proof. eexists. reflexivity. Qed.
