(* MavenVersion: univers.maven.Version is a port of Maven's ComparableVersion, so the model of its parser and of its
   comparison is the transliteration in Ref/Maven.v (kept in step with maven.py: the repaired normalisation of nested
   lists included); what is specific to the Python class is spelled out here: every text is accepted, the value
   prints as the text it was built from, == / < come from __cmp__ and the others from functools.total_ordering,
   the hash is taken on the parsed items without their empty trailing items. *)
From Coq Require Import List Bool Arith Ascii String NArith Lia.
From UV.Base Require Import Order Res.
From UV.Py Require Import PyStr.
From UV.Schemes Require Import Common Generic.
From UV.Ref Require Import Maven.
Import ListNotations.
Local Open Scope list_scope.

Record mavenv := { m_text : str; m_parsed : list mitem }.

Definition maven_valid (n : str) : bool := true.                 (* maven.Version(string) never raises *)
Definition maven_ctor (s : str) : res mavenv := let n := normalize s in Ok {| m_text := n; m_parsed := maven_parse n |}.
Definition maven_str (v : mavenv) : str := m_text v.

Definition maven_cmp (a b : mavenv) : comparison :=
  let x := MList (m_parsed a) in let y := MList (m_parsed b) in item_cmp (S (size x + size y)) x (Some y).
Definition maven_ops (a b : mavenv) : ops := ops_of (maven_cmp a b).

(* _canonical: drop the empty trailing items (0, "", ()) of every nested tuple *)
Fixpoint canonical (fuel : nat) (i : mitem) : mitem :=
  match fuel with
  | O => i
  | S f => match i with MList l => MList (strip_nulls (map (canonical f) l)) | _ => i end
  end.
Fixpoint mitem_eqb (fuel : nat) (a b : mitem) : bool :=
  match fuel with
  | O => false
  | S f =>
      match a, b with
      | MInt x, MInt y => N.eqb x y
      | MStr x, MStr y => eqs x y
      | MList l1, MList l2 =>
          (fix go (l1 l2 : list mitem) : bool :=
             match l1, l2 with [], [] => true | x :: r1, y :: r2 => mitem_eqb f x y && go r1 r2 | _, _ => false end) l1 l2
      | _, _ => false
      end
  end.
Definition maven_hasheq (a b : mavenv) : bool :=
  let x := MList (m_parsed a) in let y := MList (m_parsed b) in
  mitem_eqb (S (size x + size y)) (canonical (S (size x)) x) (canonical (S (size y)) y).

Theorem maven_ops_spec a b : maven_ops a b = ops_of (maven_cmp a b) /\ ops_agree (maven_ops a b) = true.
Proof. split; [reflexivity|apply ops_of_agree]. Qed.
Theorem maven_matches_reference n1 n2 :
  forall a b, maven_ctor n1 = Ok a -> maven_ctor n2 = Ok b -> maven_cmp a b = ref_maven (normalize n1) (normalize n2).
Proof. intros a b Ha Hb. inversion Ha; inversion Hb; subst. reflexivity. Qed.
Theorem maven_ctor_total s : exists v, maven_ctor s = Ok v.
Proof. eexists. reflexivity. Qed.
