(* C11 for nuget: the printed form of a constructed version constructs the same version again. *)
From Coq Require Import List Bool Arith Ascii String NArith Lia.
From UV.Base Require Import Order Res.
From UV.Py Require Import PyStr.
From UV.Schemes Require Import Common Generic Gentoo Numerals NumeralsStr Nuget NugetConanProofs NugetOrder SemverRoundTrip.
From UV.Ref Require Deb.
Import ListNotations.
Local Open Scope list_scope.

Definition c_pl : ascii := "+"%char.
Definition c_mi : ascii := "-"%char.

Lemma take_drop_app : forall d rest, all_digits d = true -> stops rest ->
  take_while is_digit (d ++ rest) = d /\ drop_while is_digit (d ++ rest) = rest.
Proof.
  induction d as [|x r IH]; intros rest A S.
  - cbn [app]. destruct rest as [|y t]; [split; reflexivity|]. cbn in S. cbn [take_while drop_while]. rewrite S. split; reflexivity.
  - unfold all_digits in A. cbn [forallb] in A. apply andb_true_iff in A. destruct A as [Ax Ar].
    cbn [app take_while drop_while]. rewrite Ax. destruct (IH rest Ar S) as [T D]. rewrite T, D. split; reflexivity.
Qed.
Lemma dot_digits_app d rest : all_digits d = true -> d <> [] -> stops rest -> dot_digits (c_dot :: d ++ rest) = Some (d, rest).
Proof.
  intros A N S. unfold dot_digits. change (eqc c_dot "."%char) with true. cbn iota. destruct (take_drop_app d rest A S) as [T D]. rewrite T, D.
  destruct d; [congruence|reflexivity].
Qed.
Lemma dot_digits_none t : match t with x :: _ => eqc x c_dot = false | [] => True end -> dot_digits t = None.
Proof. destruct t as [|x r]; [reflexivity|]. intros E. unfold dot_digits. unfold c_dot in E. rewrite E. reflexivity. Qed.

(* what the parser guarantees *)
Definition idc_n (c : ascii) : bool := id_char c.
Definition wf_tail (pre build : option str) : Prop :=
  (match pre with Some p => p <> [] /\ forallb pre_id_ok (split_c c_dot p) = true | None => True end) /\
  (match build with Some b => b <> [] /\ forallb build_id_ok (split_c c_dot b) = true | None => True end).

Lemma ids_no_plus (ok : str -> bool) p : (forall t, ok t = true -> forallb id_char t = true) ->
  forallb ok (split_c c_dot p) = true -> mem_c c_pl p = false.
Proof.
  intros R F. rewrite <- (join_split p). apply mem_join; [reflexivity|]. apply Forall_forall. intros i Hi.
  rewrite forallb_forall in F. specialize (R i (F i Hi)). unfold mem_c. destruct (existsb (eqc c_pl) i) eqn:E; [|reflexivity].
  apply existsb_exists in E. destruct E as [x [Hx Ex]]. rewrite forallb_forall in R. specialize (R x Hx). apply eqc_eq in Ex. subst x. vm_compute in R. discriminate.
Qed.
Lemma pre_ok_chars t : pre_id_ok t = true -> forallb id_char t = true.
Proof. unfold pre_id_ok. intros H. apply andb_true_iff in H. destruct H as [H _]. apply andb_true_iff in H. apply H. Qed.
Lemma build_ok_chars t : build_id_ok t = true -> forallb id_char t = true.
Proof. unfold build_id_ok. intros H. apply andb_true_iff in H. apply H. Qed.
Lemma nonempty_split (ok : str -> bool) p : (forall t, ok t = true -> t <> []) -> forallb ok (split_c c_dot p) = true -> p <> [].
Proof. intros R F E. subst p. cbn in F. rewrite andb_true_r in F. apply (R [] F). reflexivity. Qed.

Lemma parse_tail_wf rest pre build : parse_tail rest = Some (pre, build) -> wf_tail pre build.
Proof.
  unfold parse_tail. destruct rest as [|c r]; [intros E; inversion E; split; exact I|]. destruct (eqc c "-"%char).
  - destruct (partition_c "+"%char r) as [[p hb] b] eqn:P.
    destruct (forallb pre_id_ok (split_c "."%char p) && (negb hb || forallb build_id_ok (split_c "."%char b))) eqn:F; [|discriminate].
    intros H. inversion H; subst. apply andb_true_iff in F. destruct F as [F1 F2]. split.
    + split; [|exact F1]. apply (nonempty_split pre_id_ok); [|exact F1]. intros t Ht E. subst t. discriminate.
    + destruct hb; [|exact I]. cbn [negb orb] in F2. split; [|exact F2]. apply (nonempty_split build_id_ok); [|exact F2]. intros t Ht E. subst t. discriminate.
  - destruct (eqc c "+"%char); [|discriminate]. destruct (forallb build_id_ok (split_c "."%char r)) eqn:F; [|discriminate].
    intros H. inversion H; subst. split; [exact I|]. split; [|exact F]. apply (nonempty_split build_id_ok); [|exact F]. intros t Ht E. subst t. discriminate.
Qed.

(* reading a printed tail *)
Definition tail_text (pre build : option str) : str :=
  (match nonempty_opt pre with [] => [] | p => c_mi :: p end) ++ (match nonempty_opt build with [] => [] | b => c_pl :: b end).
Lemma nonempty_match (p : str) c : p <> [] -> (match p with [] => [] | a :: l => c :: a :: l end) = c :: p.
Proof. destruct p; [congruence|reflexivity]. Qed.
Lemma parse_tail_printed pre build : wf_tail pre build -> parse_tail (tail_text pre build) = Some (pre, build).
Proof.
  intros [Wp Wb]. unfold tail_text. destruct pre as [p|], build as [b|]; cbn [nonempty_opt].
  - destruct Wp as [Np Fp], Wb as [Nb Fb]. rewrite (nonempty_match p c_mi Np), (nonempty_match b c_pl Nb). cbn [app].
    unfold parse_tail. change (eqc c_mi "-"%char) with true. cbn iota. unfold c_pl.
    rewrite (partition_app_sep "+"%char p b (ids_no_plus pre_id_ok _ pre_ok_chars Fp)).
    unfold c_dot in Fp, Fb. rewrite Fp, Fb. reflexivity.
  - destruct Wp as [Np Fp]. rewrite (nonempty_match p c_mi Np). cbn [app]. rewrite app_nil_r.
    unfold parse_tail. change (eqc c_mi "-"%char) with true. cbn iota.
    rewrite (partition_none "+"%char p (ids_no_plus pre_id_ok _ pre_ok_chars Fp)). unfold c_dot in Fp. rewrite Fp. reflexivity.
  - destruct Wb as [Nb Fb]. rewrite (nonempty_match b c_pl Nb). cbn [app].
    unfold parse_tail. change (eqc c_pl "-"%char) with false. change (eqc c_pl "+"%char) with true. cbn iota. unfold c_dot in Fb. rewrite Fb. reflexivity.
  - reflexivity.
Qed.

(* ---- lower-casing keeps identifiers well-formed and is idempotent ----------------------------------------------- *)
Lemma lower_c_idem c : lower_c (lower_c c) = lower_c c.
Proof.
  assert (T : forallb (fun c => eqc (lower_c (lower_c c)) (lower_c c)) UV.Ref.Deb.all_chars = true) by (vm_compute; reflexivity).
  rewrite forallb_forall in T. apply eqc_eq. apply T. apply UV.Ref.Deb.all_chars_complete.
Qed.
Lemma lower_lower s : lower (lower s) = lower s.
Proof. unfold lower. rewrite map_map. apply map_ext. apply lower_c_idem. Qed.
Lemma id_char_lower c : id_char c = true -> id_char (lower_c c) = true.
Proof.
  assert (T : forallb (fun c => negb (id_char c) || id_char (lower_c c)) UV.Ref.Deb.all_chars = true) by (vm_compute; reflexivity).
  rewrite forallb_forall in T. specialize (T c (UV.Ref.Deb.all_chars_complete c)). intros H. rewrite H in T. exact T.
Qed.
Lemma pre_id_ok_lower t : pre_id_ok t = true -> pre_id_ok (lower t) = true.
Proof.
  unfold pre_id_ok. intros H. apply andb_true_iff in H. destruct H as [H C]. apply andb_true_iff in H. destruct H as [N I].
  rewrite all_digits_lower. destruct (all_digits t) eqn:D.
  - rewrite (lower_digits t D), N, I. exact C.
  - cbn [negb orb]. rewrite andb_true_r. apply andb_true_iff. split; [destruct t; [discriminate|reflexivity]|].
    rewrite forallb_forall in *. unfold lower. intros x Hx. apply in_map_iff in Hx. destruct Hx as [y [<- Hy]]. apply id_char_lower. apply I. exact Hy.
Qed.

Definition WFn (v : nugetv) : Prop :=
  wf_tail (nu_pre v) (nu_build v) /\ match nu_pre v with Some p => lower p = p | None => True end.

Theorem nuget_parsed_wf s v : nuget_from_string s = Ok (Some v) -> WFn v.
Proof.
  unfold nuget_from_string. destruct (is_empty s); [discriminate|]. destruct (negb (existsb is_digit s)); [discriminate|].
  match goal with |- context [take_while is_digit ?t] => destruct (take_while is_digit t); [discriminate|] end.
  repeat match goal with |- context [dot_digits ?x] => destruct (dot_digits x) as [[? ?]|] end;
    match goal with |- context [parse_tail ?x] => destruct (parse_tail x) as [[pre bld]|] eqn:PT; try discriminate end;
    intros H; inversion H; subst; unfold WFn; cbn [nu_pre nu_build]; destruct (parse_tail_wf _ _ _ PT) as [Wp Wb];
    (destruct pre as [p|]; [|split; [split; [exact I|exact Wb]|exact I]]);
    destruct Wp as [Np Fp]; (split; [split; [|exact Wb]|apply lower_lower]);
    (split; [destruct p; [congruence|discriminate]|]);
    rewrite split_lower; rewrite forallb_forall in *; intros t Ht; apply in_map_iff in Ht; destruct Ht as [u [<- Hu]]; apply pre_id_ok_lower; apply Fp; exact Hu.
Qed.

(* ---- reading the printed text back ------------------------------------------------------------------------------ *)
Lemma tail_stops pre build : wf_tail pre build ->
  stops (tail_text pre build) /\ match tail_text pre build with x :: _ => eqc x c_dot = false | [] => True end.
Proof.
  intros [Wp Wb]. unfold tail_text. destruct pre as [p|], build as [b|]; cbn [nonempty_opt];
    try (destruct Wp as [Np _]; rewrite (nonempty_match p c_mi Np)); try (destruct Wb as [Nb _]; rewrite (nonempty_match b c_pl Nb)); cbn; auto.
Qed.
Lemma digits_first d rest : all_digits d = true -> d <> [] ->
  is_empty (d ++ rest) = false /\ existsb is_digit (d ++ rest) = true /\
  (match d ++ rest with c :: r => if eqc c "v"%char then r else d ++ rest | [] => d ++ rest end) = d ++ rest.
Proof.
  intros A N. destruct d as [|x t]; [congruence|]. unfold all_digits in A. cbn [forallb] in A. apply andb_true_iff in A. destruct A as [Dx _].
  cbn [app is_empty existsb]. rewrite Dx. repeat split.
  assert (T : forallb (fun c => negb (is_digit c) || negb (eqc c "v"%char)) UV.Ref.Deb.all_chars = true) by (vm_compute; reflexivity).
  rewrite forallb_forall in T. specialize (T x (UV.Ref.Deb.all_chars_complete x)). rewrite Dx in T. cbn [negb orb] in T. apply negb_true_iff in T. rewrite T. reflexivity.
Qed.

Theorem nuget_print_parse v : WFn v -> nuget_from_string (nuget_str v) = Ok (Some v).
Proof.
  intros [W L]. destruct v as [a b c pre build rv]. cbn [nu_pre nu_build] in *.
  destruct (tail_stops pre build W) as [St Dt]. pose proof (parse_tail_printed pre build W) as PT.
  set (T := tail_text pre build) in *.
  destruct (str_of_N_spec a) as [Aa [Na Va]], (str_of_N_spec b) as [Ab [Nb Vb]], (str_of_N_spec c) as [Ac [Nc Vc]], (str_of_N_spec rv) as [Ar [Nr Vr]].
  set (R := (if N.eqb rv 0 then [] else c_dot :: str_of_N rv) ++ T).
  assert (SR : stops R). { unfold R. destruct (N.eqb rv 0); [exact St|reflexivity]. }
  assert (EQ : nuget_str {| nu_major := a; nu_minor := b; nu_patch := c; nu_pre := pre; nu_build := build; nu_rev := rv |}
               = str_of_N a ++ c_dot :: str_of_N b ++ c_dot :: str_of_N c ++ R) by reflexivity.
  rewrite EQ. clear EQ. unfold nuget_from_string.
  destruct (take_drop_app (str_of_N a) (c_dot :: str_of_N b ++ c_dot :: str_of_N c ++ R) Aa eq_refl) as [TA DA].
  destruct (str_of_N a) as [|a0 ar] eqn:Ea; [congruence|].
  assert (Dx : is_digit a0 = true) by (unfold all_digits in Aa; cbn [forallb] in Aa; apply andb_true_iff in Aa; apply Aa).
  assert (Ev : eqc a0 "v"%char = false).
  { assert (T' : forallb (fun c => negb (is_digit c) || negb (eqc c "v"%char)) UV.Ref.Deb.all_chars = true) by (vm_compute; reflexivity).
    rewrite forallb_forall in T'. specialize (T' a0 (UV.Ref.Deb.all_chars_complete a0)). rewrite Dx in T'. cbn [negb orb] in T'. apply negb_true_iff in T'. exact T'. }
  cbn [app is_empty existsb]. rewrite Dx. cbn [orb negb]. rewrite Ev.
  change (a0 :: ar ++ c_dot :: str_of_N b ++ c_dot :: str_of_N c ++ R) with ((a0 :: ar) ++ c_dot :: str_of_N b ++ c_dot :: str_of_N c ++ R).
  rewrite TA, DA.
  rewrite (dot_digits_app (str_of_N b) (c_dot :: str_of_N c ++ R) Ab Nb eq_refl).
  rewrite (dot_digits_app (str_of_N c) R Ac Nc SR).
  unfold R. destruct (N.eqb rv 0) eqn:Z.
  - apply N.eqb_eq in Z. subst rv. cbn [app]. rewrite (dot_digits_none T Dt), PT, Va, Vb, Vc. destruct pre as [p|]; [rewrite L|]; reflexivity.
  - cbn [app]. rewrite (dot_digits_app (str_of_N rv) T Ar Nr St), Vr, PT, Va, Vb, Vc. destruct pre as [p|]; [rewrite L|]; reflexivity.
Qed.

Lemma nuget_printed_normal v : WFn v -> normalize (nuget_str v) = nuget_str v.
Proof.
  intros [[Wp Wb] _]. destruct v as [a b c pre build rv]. cbn [nu_pre nu_build] in *. unfold nuget_str. cbn [nu_major nu_minor nu_patch nu_rev nu_pre nu_build].
  set (ok := fun x : ascii => negb (is_space x)).
  assert (D : forall t, all_digits t = true -> forallb ok t = true).
  { intros t. unfold all_digits. rewrite !forallb_forall. intros H x Hx. specialize (H x Hx).
    assert (T' : forallb (fun c => negb (is_digit c) || negb (is_space c)) UV.Ref.Deb.all_chars = true) by (vm_compute; reflexivity).
    rewrite forallb_forall in T'. specialize (T' x (UV.Ref.Deb.all_chars_complete x)). rewrite H in T'. exact T'. }
  assert (P : forall (okid : str -> bool) t, (forall i, okid i = true -> forallb id_char i = true) -> forallb okid (split_c c_dot t) = true -> forallb ok t = true).
  { intros okid t R F. rewrite <- (join_split t). apply forallb_join; [reflexivity|]. apply Forall_forall. intros i Hi.
    rewrite forallb_forall in F. specialize (R i (F i Hi)). rewrite forallb_forall in *. intros x Hx. specialize (R x Hx).
    assert (T' : forallb (fun c => negb (id_char c) || negb (is_space c)) UV.Ref.Deb.all_chars = true) by (vm_compute; reflexivity).
    rewrite forallb_forall in T'. specialize (T' x (UV.Ref.Deb.all_chars_complete x)). rewrite R in T'. exact T'. }
  destruct (str_of_N_spec a) as [Aa [Na _]], (str_of_N_spec b) as [Ab [Nb _]], (str_of_N_spec c) as [Ac [Nc _]], (str_of_N_spec rv) as [Ar [Nr _]].
  unfold normalize. rewrite remove_spaces_none.
  - apply lstrip_set_none. destruct (str_of_N a) as [|x t] eqn:E; [congruence|]. cbn [app].
    unfold all_digits in Aa. cbn [forallb] in Aa. apply andb_true_iff in Aa. destruct Aa as [Dx _].
    assert (T' : forallb (fun c => negb (is_digit c) || negb (mem_c c vV)) UV.Ref.Deb.all_chars = true) by (vm_compute; reflexivity).
    rewrite forallb_forall in T'. specialize (T' x (UV.Ref.Deb.all_chars_complete x)). rewrite Dx in T'. cbn [negb orb] in T'. apply negb_true_iff in T'. exact T'.
  - fold ok. repeat (rewrite ?forallb_app; cbn [forallb]). rewrite (D _ Aa), (D _ Ab), (D _ Ac).
    assert (Hr : forallb ok (if N.eqb rv 0 then [] else "."%char :: str_of_N rv) = true) by (destruct (N.eqb rv 0); [reflexivity|cbn [forallb]; rewrite (D _ Ar); reflexivity]).
    rewrite Hr. destruct pre as [p|], build as [bb|]; cbn [nonempty_opt];
      try (destruct Wp as [Np Fp]; rewrite (nonempty_match p _ Np); cbn [forallb]; rewrite (P pre_id_ok p pre_ok_chars Fp));
      try (destruct Wb as [Nbb Fb]; rewrite (nonempty_match bb _ Nbb); cbn [forallb]; rewrite (P build_id_ok bb build_ok_chars Fb)); reflexivity.
Qed.

Theorem nuget_ctor_roundtrip s v : nuget_ctor s = Ok v -> nuget_ctor (nuget_str v) = Ok v.
Proof.
  intros H. assert (W : WFn v).
  { unfold nuget_ctor in H. destruct (nuget_valid (normalize s)) as [[|]|e]; try discriminate.
    destruct (nuget_from_string (normalize s)) as [[w|]|e] eqn:E; try discriminate. inversion H; subst. apply (nuget_parsed_wf _ _ E). }
  unfold nuget_ctor, nuget_valid. rewrite (nuget_printed_normal v W), (nuget_print_parse v W). reflexivity.
Qed.
