(* The nuget order: nuget.Version.__eq__ / __lt__ compute the lexicographic order of
   (major, minor, patch), then the fourth revision number, then the pre-release labels (a version without labels after
   the same version with labels; labels pairwise: numbers by value before words, words as lower-cased ASCII; a longer
   list after its prefix).  On the versions the parser produces this is a total preorder and the operators are its. *)
From Coq Require Import List Bool Arith Ascii String NArith Lia.
From UV.Base Require Import Order Res.
From UV.Py Require Import PyStr.
From UV.Schemes Require Import Common Generic Gentoo Numerals Nuget NugetConanProofs.
From UV.Ref Require Deb.
Import ListNotations.
Local Open Scope list_scope.

Definition c_dot : ascii := "."%char.

(* ---- split / join ---------------------------------------------------------------------------------------------- *)
Lemma join_split : forall s, join_c c_dot (split_c c_dot s) = s.
Proof.
  induction s as [|x r IH]; [reflexivity|]. cbn [split_c]. destruct (eqc x c_dot) eqn:E.
  - apply eqc_eq in E. subst x. pose proof (split_c_nonempty c_dot r) as N. destruct (split_c c_dot r) as [|y t] eqn:S; [congruence|].
    cbn [join_c app]. f_equal. exact IH.
  - pose proof (split_c_nonempty c_dot r) as N. destruct (split_c c_dot r) as [|h t] eqn:S; [congruence|].
    destruct t as [|y t']; cbn [join_c] in *; [rewrite IH; reflexivity|]. rewrite <- IH. reflexivity.
Qed.
Lemma join_app_len : forall (l1 : list str) x r, l1 <> [] ->
  List.length (join_c c_dot l1) < List.length (join_c c_dot (l1 ++ x :: r)).
Proof.
  induction l1 as [|a t IH]; intros x r N; [congruence|]. destruct t as [|b t'].
  - cbn [app join_c]. rewrite app_length. cbn. lia.
  - change ((a :: b :: t') ++ x :: r) with (a :: ((b :: t') ++ x :: r)).
    assert (E : forall y ys, join_c c_dot (a :: y :: ys) = a ++ c_dot :: join_c c_dot (y :: ys)) by reflexivity.
    rewrite (E b t'). destruct ((b :: t') ++ x :: r) as [|y ys] eqn:Q; [discriminate|]. rewrite (E y ys), <- Q, !app_length.
    cbn [List.length]. specialize (IH x r ltac:(discriminate)). lia.
Qed.

(* ---- labels ------------------------------------------------------------------------------------------------------ *)
Definition tag_key (t : str) : N * (N * str) := if isdigit t then (0%N, (int_of_digits t, [])) else (1%N, (0%N, t)).
Definition tkc := cmp_pair N.compare (cmp_pair N.compare cmp_str).
Lemma tpo_tkc : TPO tkc.
Proof. repeat apply tpo_pair; auto using tpo_N, tpo_str. Qed.
Lemma tag_cmp_key a b : tag_cmp a b = tkc (tag_key a) (tag_key b).
Proof.
  unfold tag_cmp, tag_key, tkc, cmp_pair. destruct (isdigit a), (isdigit b); cbn [fst snd]; try reflexivity.
  change (N.compare 0 0) with Eq. cbn iota. destruct (N.compare (int_of_digits a) (int_of_digits b)); reflexivity.
Qed.
Lemma tpo_tag : TPO tag_cmp.
Proof. apply (tpo_of_key tkc tag_key tag_cmp tpo_tkc). intros a b. apply tag_cmp_key. Qed.

(* a label of the grammar: a canonical number or a word *)
Definition tag_ok (t : str) : bool := negb (all_digits t) || canon_numeral t.
Lemma canon_numeral_canonical t : canon_numeral t = true -> canonical t = true.
Proof.
  unfold canon_numeral, isdigit. intros H. apply andb_true_iff in H. destruct H as [H1 H2]. apply andb_true_iff in H1. destruct H1 as [N D].
  destruct t as [|c r]; [discriminate|]. cbn [all_digits forallb] in D. apply andb_true_iff in D. destruct D as [Dc Dr].
  destruct r as [|d r']; cbn [canonical]; [exact Dc|]. cbn [List.length Nat.eqb orb] in H2. rewrite Dc, H2. cbn [andb all_digits forallb]. rewrite Dc. exact Dr.
Qed.
Lemma tag_cmp_eq a b : tag_ok a = true -> tag_ok b = true -> tag_cmp a b = Eq -> a = b.
Proof.
  unfold tag_cmp, tag_ok, isdigit. intros Ha Hb.
  destruct a as [|ca ra]; destruct b as [|cb rb]; cbn [is_empty negb andb].
  - reflexivity.
  - destruct (all_digits (cb :: rb)); cbn; intros H; discriminate.
  - destruct (all_digits (ca :: ra)); cbn; intros H; discriminate.
  - destruct (all_digits (ca :: ra)) eqn:Da, (all_digits (cb :: rb)) eqn:Db; cbn [negb orb] in *; try discriminate.
    + intros H. apply N.compare_eq in H. apply int_of_digits_inj; [apply canon_numeral_canonical; exact Ha|apply canon_numeral_canonical; exact Hb|exact H].
    + apply cmp_str_eq.
Qed.

(* the zip loop against the lexicographic order *)
Lemma tags_cmp_some : forall l1 l2 o, tags_cmp l1 l2 = Some o -> cmp_lex tag_cmp l1 l2 = o /\ o <> Eq.
Proof.
  induction l1 as [|x r1 IH]; intros [|y r2] o H; cbn in H; try discriminate.
  cbn [cmp_lex]. destruct (tag_cmp x y) eqn:E; [apply IH; exact H| |]; inversion H; subst; split; congruence.
Qed.
Lemma tags_cmp_none : forall l1 l2, Forall (fun t => tag_ok t = true) l1 -> Forall (fun t => tag_ok t = true) l2 ->
  tags_cmp l1 l2 = None -> l1 = l2 \/ (exists x r, l2 = l1 ++ x :: r) \/ (exists x r, l1 = l2 ++ x :: r).
Proof.
  induction l1 as [|x r1 IH]; intros [|y r2] F1 F2 H.
  - left. reflexivity.
  - right. left. exists y, r2. reflexivity.
  - right. right. exists x, r1. reflexivity.
  - cbn in H. inversion F1; inversion F2; subst. destruct (tag_cmp x y) eqn:E; try discriminate.
    apply tag_cmp_eq in E; [|assumption|assumption]. subst y.
    destruct (IH r2 ltac:(assumption) ltac:(assumption) H) as [->|[[a [t ->]]|[a [t ->]]]];
      [left; reflexivity|right; left; exists a, t; reflexivity|right; right; exists a, t; reflexivity].
Qed.
Lemma lex_refl' l : cmp_lex tag_cmp l l = Eq.
Proof. apply (tpo_refl _ (tpo_lex tag_cmp tpo_tag)). Qed.
Lemma lex_prefix : forall l x r, cmp_lex tag_cmp l (l ++ x :: r) = Lt.
Proof. induction l as [|a t IH]; intros x r; [reflexivity|]. cbn [app cmp_lex]. rewrite (tpo_refl _ tpo_tag). apply IH. Qed.
Lemma lex_prefix_r : forall l x r, cmp_lex tag_cmp (l ++ x :: r) l = Gt.
Proof. induction l as [|a t IH]; intros x r; [reflexivity|]. cbn [app cmp_lex]. rewrite (tpo_refl _ tpo_tag). apply IH. Qed.

Definition pre_ok (p : str) : bool := forallb tag_ok (split_c c_dot p).
Theorem nat_cmp_lex a b : pre_ok a = true -> pre_ok b = true ->
  nat_cmp a b = cmp_lex tag_cmp (split_c c_dot a) (split_c c_dot b).
Proof.
  unfold pre_ok, nat_cmp. intros Ha Hb. fold c_dot.
  destruct (tags_cmp (split_c c_dot a) (split_c c_dot b)) as [o|] eqn:T.
  - destruct (tags_cmp_some _ _ _ T) as [E _]. symmetry. exact E.
  - assert (Fa : Forall (fun t => tag_ok t = true) (split_c c_dot a)) by (apply Forall_forall; rewrite forallb_forall in Ha; exact Ha).
    assert (Fb : Forall (fun t => tag_ok t = true) (split_c c_dot b)) by (apply Forall_forall; rewrite forallb_forall in Hb; exact Hb).
    destruct (tags_cmp_none _ _ Fa Fb T) as [E|[[x [r E]]|[x [r E]]]].
    + rewrite E, lex_refl'. rewrite <- (join_split a), <- (join_split b), E. apply Nat.compare_refl.
    + rewrite E, lex_prefix. rewrite <- (join_split a), <- (join_split b), E. apply Nat.compare_lt_iff.
      apply join_app_len. apply split_c_nonempty.
    + rewrite E, lex_prefix_r. rewrite <- (join_split a), <- (join_split b), E. apply Nat.compare_gt_iff.
      apply join_app_len. apply split_c_nonempty.
Qed.

(* ---- the order on versions -------------------------------------------------------------------------------------- *)
(* the labels as a key: None (no labels) is the greatest *)
Definition label_key (v : nugetv) : bool * list str :=
  match nonempty_opt (nu_pre v) with [] => (true, []) | p => (false, split_c c_dot p) end.
Definition label_cmp := cmp_pair cmp_bool (cmp_lex tag_cmp).
Definition nuget_key (v : nugetv) := (nu_major v, (nu_minor v, (nu_patch v, (nu_rev v, label_key v)))).
Definition nuget_kcmp := cmp_pair N.compare (cmp_pair N.compare (cmp_pair N.compare (cmp_pair N.compare label_cmp))).
Definition nuget_order (a b : nugetv) : comparison := nuget_kcmp (nuget_key a) (nuget_key b).
Theorem nuget_order_tpo : TPO nuget_order.
Proof.
  apply (tpo_of_key nuget_kcmp nuget_key nuget_order); [|reflexivity].
  repeat apply tpo_pair; auto using tpo_N, tpo_bool. apply tpo_lex. apply tpo_tag.
Qed.

(* what the parser guarantees about the labels *)
Definition nu_ok (v : nugetv) : bool := match nu_pre v with Some p => negb (is_empty p) && pre_ok p | None => true end.

Theorem nuget_cmp_order a b : nu_ok a = true -> nu_ok b = true -> nuget_cmp a b = nuget_order a b.
Proof.
  intros Ha Hb. unfold nuget_cmp, nuget_eq, nuget_lt, nuget_order, nuget_kcmp, nuget_key, base_cmp, triple_cmp, label_cmp, label_key, cmp_pair.
  cbn [fst snd].
  destruct (N.compare (nu_major a) (nu_major b)) eqn:E1; cbn [andb negb]; try reflexivity.
  destruct (N.compare (nu_minor a) (nu_minor b)) eqn:E2; cbn [andb negb]; try reflexivity.
  destruct (N.compare (nu_patch a) (nu_patch b)) eqn:E3; cbn [andb negb]; try reflexivity.
  destruct (N.compare (nu_rev a) (nu_rev b)) eqn:E4.
  - apply N.compare_eq in E4. rewrite E4, N.eqb_refl. cbn [negb andb].
    unfold nu_ok in Ha, Hb. destruct (nu_pre a) as [pa|], (nu_pre b) as [pb|]; cbn [nonempty_opt].
    + apply andb_true_iff in Ha, Hb. destruct Ha as [Na Oa], Hb as [Nb Ob].
      destruct pa as [|ca ra]; [discriminate|]. destruct pb as [|cb rb]; [discriminate|].
      rewrite (nat_cmp_lex _ _ Oa Ob). cbn [fst snd is_empty]. change (cmp_bool false false) with Eq. cbn iota.
      destruct (cmp_lex tag_cmp (split_c c_dot (ca :: ra)) (split_c c_dot (cb :: rb))); reflexivity.
    + apply andb_true_iff in Ha. destruct Ha as [Na Oa]. destruct pa as [|ca ra]; [discriminate|].
      assert (X : nat_cmp (ca :: ra) [] <> Eq).
      { unfold nat_cmp. destruct (tags_cmp (split_c "."%char (ca :: ra)) (split_c "."%char [])) as [o|] eqn:T.
        - apply (tags_cmp_some _ _ _ T).
        - cbn. discriminate. }
      cbn [fst snd is_empty]. change (cmp_bool false true) with Lt. cbn iota. destruct (nat_cmp (ca :: ra) []); [congruence|reflexivity|reflexivity].
    + apply andb_true_iff in Hb. destruct Hb as [Nb Ob]. destruct pb as [|cb rb]; [discriminate|].
      assert (X : nat_cmp [] (cb :: rb) <> Eq).
      { unfold nat_cmp. destruct (tags_cmp (split_c "."%char []) (split_c "."%char (cb :: rb))) as [o|] eqn:T.
        - apply (tags_cmp_some _ _ _ T).
        - cbn. discriminate. }
      cbn [fst snd is_empty]. change (cmp_bool true false) with Gt. cbn iota. destruct (nat_cmp [] (cb :: rb)); [congruence|reflexivity|reflexivity].
    + reflexivity.
  - assert (Q : N.eqb (nu_rev a) (nu_rev b) = false) by (apply N.eqb_neq; intro Q; rewrite Q, N.compare_refl in E4; discriminate).
    rewrite Q. cbn [negb andb]. rewrite andb_false_r. assert (L : N.ltb (nu_rev a) (nu_rev b) = true) by (apply N.ltb_lt, N.compare_lt_iff; exact E4).
    rewrite L. reflexivity.
  - assert (Q : N.eqb (nu_rev a) (nu_rev b) = false) by (apply N.eqb_neq; intro Q; rewrite Q, N.compare_refl in E4; discriminate).
    rewrite Q. cbn [negb andb]. rewrite andb_false_r. assert (L : N.ltb (nu_rev a) (nu_rev b) = false) by (apply N.ltb_ge; apply N.compare_gt_iff in E4; lia).
    rewrite L. reflexivity.
Qed.

(* ---- every version the parser produces is in the domain of the theorem ------------------------------------------- *)
Lemma lower_c_digit c : is_digit c = true -> lower_c c = c.
Proof.
  intros H. unfold lower_c. assert (U : is_upper c = false).
  { assert (T : forallb (fun c => negb (is_digit c && is_upper c)) UV.Ref.Deb.all_chars = true) by (vm_compute; reflexivity).
    rewrite forallb_forall in T. specialize (T c (UV.Ref.Deb.all_chars_complete c)). rewrite H in T. destruct (is_upper c); [discriminate|reflexivity]. }
  rewrite U. reflexivity.
Qed.
Lemma lower_c_is_digit c : is_digit (lower_c c) = is_digit c.
Proof.
  assert (T : forallb (fun c => Bool.eqb (is_digit (lower_c c)) (is_digit c)) UV.Ref.Deb.all_chars = true) by (vm_compute; reflexivity).
  rewrite forallb_forall in T. apply eqb_prop. apply T. apply UV.Ref.Deb.all_chars_complete.
Qed.
Lemma lower_c_not_dot c : eqc (lower_c c) c_dot = eqc c c_dot.
Proof.
  assert (T : forallb (fun c => Bool.eqb (eqc (lower_c c) c_dot) (eqc c c_dot)) UV.Ref.Deb.all_chars = true) by (vm_compute; reflexivity).
  rewrite forallb_forall in T. apply eqb_prop. apply T. apply UV.Ref.Deb.all_chars_complete.
Qed.
Lemma split_lower : forall s, split_c c_dot (lower s) = map lower (split_c c_dot s).
Proof.
  induction s as [|x r IH]; [reflexivity|]. cbn [lower map split_c]. fold (lower r). rewrite lower_c_not_dot, IH.
  destruct (eqc x c_dot); [reflexivity|]. destruct (split_c c_dot r); reflexivity.
Qed.
Lemma all_digits_lower t : all_digits (lower t) = all_digits t.
Proof. induction t as [|c r IH]; [reflexivity|]. cbn. rewrite lower_c_is_digit. fold (lower r). unfold all_digits in IH. rewrite IH. reflexivity. Qed.
Lemma lower_digits t : all_digits t = true -> lower t = t.
Proof.
  induction t as [|c r IH]; [reflexivity|]. cbn [all_digits forallb]. intros H. apply andb_true_iff in H. destruct H as [Hc Hr].
  cbn [lower map]. rewrite (lower_c_digit c Hc). fold (lower r). rewrite (IH Hr). reflexivity.
Qed.
Lemma tag_ok_lower t : pre_id_ok t = true -> tag_ok (lower t) = true.
Proof.
  unfold pre_id_ok, tag_ok. intros H. apply andb_true_iff in H. destruct H as [_ H]. rewrite all_digits_lower.
  destruct (all_digits t) eqn:D; [|reflexivity]. cbn [negb orb] in *. rewrite (lower_digits t D). exact H.
Qed.

Lemma parse_tail_ok rest pre build : parse_tail rest = Some (Some pre, build) ->
  negb (is_empty (lower pre)) && pre_ok (lower pre) = true.
Proof.
  unfold parse_tail. destruct rest as [|c r]; [discriminate|]. destruct (eqc c "-"%char).
  - destruct (partition_c "+"%char r) as [[p hb] b] eqn:P.
    destruct (forallb pre_id_ok (split_c "."%char p) && (negb hb || forallb build_id_ok (split_c "."%char b))) eqn:F; [|discriminate].
    intros H. inversion H; subst. apply andb_true_iff in F. destruct F as [F _].
    apply andb_true_iff. split.
    + destruct pre as [|x t]; [cbn in F; discriminate|reflexivity].
    + unfold pre_ok. rewrite split_lower. rewrite forallb_forall in *. intros t Ht. apply in_map_iff in Ht. destruct Ht as [u [<- Hu]].
      apply tag_ok_lower. apply F. exact Hu.
  - destruct (eqc c "+"%char); [|discriminate]. destruct (forallb build_id_ok (split_c "."%char r)); discriminate.
Qed.

Theorem nuget_parsed_ok s v : nuget_from_string s = Ok (Some v) -> nu_ok v = true.
Proof.
  unfold nuget_from_string. destruct (is_empty s); [discriminate|]. destruct (negb (existsb is_digit s)); [discriminate|].
  match goal with |- context [take_while is_digit ?t] => destruct (take_while is_digit t); [discriminate|] end.
  repeat match goal with |- context [dot_digits ?x] => destruct (dot_digits x) as [[? ?]|] end;
    match goal with |- context [parse_tail ?x] => destruct (parse_tail x) as [[[p|] bld]|] eqn:PT; try discriminate end;
    intros H; inversion H; subst; unfold nu_ok; cbn [nu_pre]; try reflexivity; apply (parse_tail_ok _ _ _ PT).
Qed.

Theorem nuget_ctor_ok s v : nuget_ctor s = Ok v -> nu_ok v = true.
Proof.
  unfold nuget_ctor. destruct (nuget_valid (normalize s)) as [[|]|e]; try discriminate.
  destruct (nuget_from_string (normalize s)) as [[w|]|e] eqn:E; try discriminate. intros H. inversion H; subst. apply (nuget_parsed_ok _ _ E).
Qed.

(* ---- equal versions hash alike ------------------------------------------------------------------------------------ *)
Lemma lex_tag_eq : forall l1 l2, Forall (fun t => tag_ok t = true) l1 -> Forall (fun t => tag_ok t = true) l2 ->
  cmp_lex tag_cmp l1 l2 = Eq -> l1 = l2.
Proof.
  induction l1 as [|x r1 IH]; intros [|y r2] F1 F2 H; cbn in H; try discriminate; [reflexivity|].
  inversion F1; inversion F2; subst. destruct (tag_cmp x y) eqn:E; try discriminate.
  apply tag_cmp_eq in E; [|assumption|assumption]. subst y. f_equal. apply IH; assumption.
Qed.
Lemma pre_ok_Forall p : pre_ok p = true -> Forall (fun t => tag_ok t = true) (split_c c_dot p).
Proof. unfold pre_ok. intros H. apply Forall_forall. rewrite forallb_forall in H. exact H. Qed.

Theorem nuget_eq_hash a b : nu_ok a = true -> nu_ok b = true -> nuget_eq a b = true -> nuget_hasheq a b = true.
Proof.
  intros Ha Hb E. assert (C : nuget_cmp a b = Eq) by (unfold nuget_cmp; rewrite E; reflexivity).
  rewrite (nuget_cmp_order a b Ha Hb) in C. unfold nuget_order, nuget_kcmp, nuget_key, cmp_pair in C. cbn [fst snd] in C.
  destruct (N.compare (nu_major a) (nu_major b)) eqn:E1; try discriminate.
  destruct (N.compare (nu_minor a) (nu_minor b)) eqn:E2; try discriminate.
  destruct (N.compare (nu_patch a) (nu_patch b)) eqn:E3; try discriminate.
  destruct (N.compare (nu_rev a) (nu_rev b)) eqn:E4; try discriminate.
  apply N.compare_eq in E1, E2, E3, E4. unfold nuget_hasheq. rewrite E1, E2, E3, E4, !N.eqb_refl. cbn [andb].
  unfold label_cmp, label_key, cmp_pair in C. unfold nu_ok in Ha, Hb.
  destruct (nu_pre a) as [pa|], (nu_pre b) as [pb|]; cbn [nonempty_opt opt_str_eqb] in *.
  - apply andb_true_iff in Ha, Hb. destruct Ha as [Na Oa], Hb as [Nb Ob].
    destruct pa as [|ca ra]; [discriminate|]. destruct pb as [|cb rb]; [discriminate|]. cbn [fst snd] in C.
    change (cmp_bool false false) with Eq in C. cbn iota in C.
    apply lex_tag_eq in C; [|apply pre_ok_Forall; exact Oa|apply pre_ok_Forall; exact Ob].
    rewrite andb_true_r. apply eqs_eq. rewrite <- (join_split (ca :: ra)), <- (join_split (cb :: rb)), C. reflexivity.
  - apply andb_true_iff in Ha. destruct Ha as [Na _]. destruct pa; [discriminate|]. cbn in C. discriminate.
  - apply andb_true_iff in Hb. destruct Hb as [Nb _]. destruct pb; [discriminate|]. cbn in C. discriminate.
  - reflexivity.
Qed.
