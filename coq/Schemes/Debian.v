(* DebianVersion: code-shaped model of debian.Version (from_string, is_valid, __str__, compare_strings,
   compare_version_objects, get_parts) and of the operators of the wrapper. *)
From Coq Require Import List Bool Arith Ascii String NArith Lia.
From UV.Base Require Import Order LexPad Res.
From UV.Gen Require Import Tables.
From UV.Py Require Import PyStr.
From UV.Schemes Require Import Common Generic.
Import ListNotations.
Local Open Scope list_scope.

Record deb := { d_epoch : N; d_upstream : str; d_revision : str }.

Definition c_col : ascii := ":"%char.
Definition c_hyp : ascii := "-"%char.
Definition c_0 : ascii := "0"%char.

(* characters allowed after the first digit: letters, digits, full stop, plus, tilde, hyphen *)
Definition deb_char (c : ascii) : bool :=
  is_alpha c || is_digit c || eqc c "."%char || eqc c "+"%char || eqc c "~"%char || eqc c c_hyp.
Definition deb_core (s : str) : bool :=
  match s with c :: r => is_digit c && forallb deb_char r | [] => false end.
(* is_valid_debian_version: an optional "<digits>:" then a digit then allowed characters *)
Definition deb_is_valid (s : str) : bool :=
  deb_core s ||
  (let '(e, found, rest) := partition_c c_col s in found && isdigit e && deb_core rest).

(* s.rpartition(c) *)
Definition rpartition_c (c : ascii) (s : str) : str * bool * str :=
  let '(a, f, b) := partition_c c (rev s) in
  if f then (rev b, true, rev a) else ([], false, s).

(* Version.from_string, after the validity check *)
Definition deb_build (s : str) : res deb :=
  let ev := if mem_c c_col s then (let '(e, _, v) := partition_c c_col s in (e, v)) else ([c_0], s) in
  let epoch := fst ev in
  let version := snd ev in
  if negb (isdigit epoch) then Err EValue          (* int(epoch) *)
  else
    let ur := if mem_c c_hyp version then (let '(u, _, r) := rpartition_c c_hyp version in (u, r)) else (version, [c_0]) in
    Ok {| d_epoch := int_of_digits epoch; d_upstream := fst ur; d_revision := snd ur |}.

Definition deb_ctor (s : str) : res deb :=
  let n := normalize s in
  if deb_is_valid n then deb_build n else Err EInvalidVersion.

(* Version.__str__ *)
Definition deb_str (v : deb) : str :=
  (if N.eqb (d_epoch v) 0 then d_upstream v else str_of_N (d_epoch v) ++ c_col :: d_upstream v)
  ++ (if negb (eqs (d_revision v) [c_0]) || mem_c c_hyp (d_upstream v) then c_hyp :: d_revision v else []).

(* characters_order, transcribed from /repo: rank of a character, None when it is not in the table *)
Definition deb_rank (c : ascii) : option nat :=
  match find (fun p => Nat.eqb (fst p) (N.to_nat (code c))) deb_order with Some p => Some (snd p) | None => None end.

(* get_non_digit_prefix / get_digit_prefix *)
Fixpoint take_nondigits (s : str) : str * str :=
  match s with
  | c :: r => if is_digit c then ([], s) else let '(p, rest) := take_nondigits r in (c :: p, rest)
  | [] => ([], [])
  end.
Fixpoint take_digits (acc : N) (s : str) : N * str :=
  match s with
  | c :: r => if is_digit c then take_digits (acc * 10 + digit_val c)%N r else (acc, s)
  | [] => (acc, [])
  end.

(* the character loop over zip_longest(p1, p2, fillvalue=""): Some c = decided, None = ran to the end.
   A character missing from the table makes `None < None` raise TypeError. *)
Definition rank_step (o1 o2 : option nat) (k : res (option comparison)) : res (option comparison) :=
  match o1, o2 with
  | Some a, Some b => if Nat.ltb a b then Ok (Some Lt) else if Nat.ltb b a then Ok (Some Gt) else k
  | _, _ => Err EType
  end.
Fixpoint prefix_cmp_empty_l (p2 : str) : res (option comparison) :=
  match p2 with
  | [] => Ok None
  | c2 :: r2 => rank_step deb_order_empty (deb_rank c2) (prefix_cmp_empty_l r2)
  end.
Fixpoint prefix_cmp (p1 p2 : str) : res (option comparison) :=
  match p1 with
  | [] => prefix_cmp_empty_l p2
  | c1 :: r1 =>
      match p2 with
      | [] => rank_step (deb_rank c1) deb_order_empty (prefix_cmp r1 [])
      | c2 :: r2 => rank_step (deb_rank c1) (deb_rank c2) (prefix_cmp r1 r2)
      end
  end.

(* compare_strings: `while v1 or v2` with fuel (each round consumes at least one character of a non-empty side) *)
Fixpoint compare_strings (fuel : nat) (v1 v2 : str) : res comparison :=
  match v1, v2 with
  | [], [] => Ok Eq
  | _, _ =>
      match fuel with
      | O => Err EOther
      | S f =>
          let '(p1, r1) := take_nondigits v1 in
          let '(p2, r2) := take_nondigits v2 in
          let pc := if eqs p1 p2 then Ok None else prefix_cmp p1 p2 in
          match pc with
          | Err e => Err e
          | Ok (Some c) => Ok c
          | Ok None =>
              let '(d1, t1) := take_digits 0 r1 in
              let '(d2, t2) := take_digits 0 r2 in
              match N.compare d1 d2 with
              | Eq => compare_strings f t1 t2
              | o => Ok o
              end
          end
      end
  end.
Definition cmp_strings (v1 v2 : str) : res comparison := compare_strings (S (List.length v1 + List.length v2)) v1 v2.

(* compare_version_objects *)
Definition deb_compare (a b : deb) : res comparison :=
  match N.compare (d_epoch a) (d_epoch b) with
  | Eq => match cmp_strings (d_upstream a) (d_upstream b) with
          | Ok Eq => if negb (is_empty (d_revision a)) || negb (is_empty (d_revision b))
                     then cmp_strings (d_revision a) (d_revision b) else Ok Eq
          | o => o
          end
  | o => Ok o
  end.

(* the value operators: __eq__ = compare == 0, __lt__ ... through eval_constraint; the wrapper's
   attrs-generated operators compare the one-element tuples (value,): == first, then the operator *)
Definition deb_ops (a b : deb) : res ops :=
  match deb_compare a b with
  | Ok c =>
      let v := ops_of c in
      Ok {| o_eq := o_eq v; o_ne := negb (o_eq v);
            o_lt := if o_eq v then false else o_lt v;
            o_le := if o_eq v then true else o_le v;
            o_gt := if o_eq v then false else o_gt v;
            o_ge := if o_eq v then true else o_ge v |}
  | Err e => Err e
  end.

(* get_parts: what is hashed, with the epoch *)
Fixpoint get_parts_fuel (fuel : nat) (s : str) : list (str * N) :=
  match s with
  | [] => []
  | _ => match fuel with
         | O => []
         | S f => let '(p, r) := take_nondigits s in
                  let '(d, t) := take_digits 0 r in
                  (p, d) :: get_parts_fuel f t
         end
  end.
Fixpoint drop_trailing_empty (l : list (str * N)) : list (str * N) :=
  match l with
  | [] => []
  | x :: r => match drop_trailing_empty r with
              | [] => if is_empty (fst x) && N.eqb (snd x) 0 then [] else [x]
              | r' => x :: r'
              end
  end.
Definition get_parts (s : str) : list (str * N) := drop_trailing_empty (get_parts_fuel (S (List.length s)) s).

Definition part_eqb (p q : str * N) : bool := eqs (fst p) (fst q) && N.eqb (snd p) (snd q).
Fixpoint parts_eqb (l1 l2 : list (str * N)) : bool :=
  match l1, l2 with [], [] => true | x :: r1, y :: r2 => part_eqb x y && parts_eqb r1 r2 | _, _ => false end.
Definition deb_hasheq (a b : deb) : bool :=
  N.eqb (d_epoch a) (d_epoch b) && parts_eqb (get_parts (d_upstream a)) (get_parts (d_upstream b))
  && parts_eqb (get_parts (d_revision a)) (get_parts (d_revision b)).
