(* NugetVersion: code-shaped model of univers.nuget (coerce, _extract_revision, Version.from_string / __init__ /
   __eq__ / __lt__ / __hash__ / to_string) on top of a model of the third-party semver 2.13 VersionInfo (strict
   parse, compare with _nat_cmp), and of versions.NugetVersion. *)
From Coq Require Import List Bool Arith Ascii String NArith Lia.
From UV.Base Require Import Order Res.
From UV.Py Require Import PyStr.
From UV.Schemes Require Import Common Generic Gentoo.
Import ListNotations.
Local Open Scope list_scope.

Record nugetv := { nu_major : N; nu_minor : N; nu_patch : N; nu_pre : option str; nu_build : option str; nu_rev : N }.

Definition ns (x : string) : str := list_ascii_of_string x.

(* ---- semver.VersionInfo.parse -------------------------------------------------------------------------------- *)
Definition id_char (c : ascii) : bool := is_alpha c || is_digit c || eqc c "-"%char.
Definition canon_numeral (t : str) : bool :=
  isdigit t && (Nat.eqb (List.length t) 1 || negb (match t with c :: _ => eqc c "0"%char | [] => false end)).
Definition pre_id_ok (t : str) : bool := negb (is_empty t) && forallb id_char t && (negb (all_digits t) || canon_numeral t).
Definition build_id_ok (t : str) : bool := negb (is_empty t) && forallb id_char t.

(* the text after "M.m.p": "" | "-pre" | "+build" | "-pre+build" *)
Definition parse_tail (rest : str) : option (option str * option str) :=
  match rest with
  | [] => Some (None, None)
  | c :: r =>
      if eqc c "-"%char then
        let '(pre, has_b, b) := partition_c "+"%char r in
        if forallb pre_id_ok (split_c "."%char pre) && (negb has_b || forallb build_id_ok (split_c "."%char b))
        then Some (Some pre, if has_b then Some b else None) else None
      else if eqc c "+"%char then
        if forallb build_id_ok (split_c "."%char r) then Some (None, Some r) else None
      else None
  end.

(* ---- coerce and _extract_revision ------------------------------------------------------------------------------ *)
(* one group "dot, digits" at the head: the digits and the rest *)
Definition dot_digits (s : str) : option (str * str) :=
  match s with
  | c :: r => if eqc c "."%char then
                match take_while is_digit r with [] => None | d => Some (d, drop_while is_digit r) end
              else None
  | [] => None
  end.

(* from_string on a normalised text (no blanks: strip() and the " " test do nothing); the emptiness test comes first;
   Err EValue stands for InvalidNuGetVersion / ValueError *)
Definition nuget_from_string (s : str) : res (option nugetv) :=
  if is_empty s then Ok None
  else if negb (existsb is_digit s) then Err EValue
  else
    (* coerce: strip one leading "v", then digits, up to two optional groups of a dot and digits, and the rest *)
    let t := match s with c :: r => if eqc c "v"%char then r else s | [] => s end in
    match take_while is_digit t with
    | [] => Err EValue                                  (* no match: parse() of the unchanged text fails *)
    | d1 =>
        let r1 := drop_while is_digit t in
        let '(d2, r2) := match dot_digits r1 with Some (d, r) => (d, r) | None => (["0"%char], r1) end in
        let '(d3, r3) := match dot_digits r2 with Some (d, r) => (d, r) | None => (["0"%char], r2) end in
        (* _extract_revision on the rebuilt text: a fourth group of a dot and digits *)
        let '(rev, r4) := match dot_digits r3 with Some (d, r) => (int_of_digits d, r) | None => (0%N, r3) end in
        match parse_tail r4 with
        | Some (pre, build) =>
            Ok (Some {| nu_major := int_of_digits d1; nu_minor := int_of_digits d2; nu_patch := int_of_digits d3;
                        nu_pre := match pre with Some p => Some (lower p) | None => None end; nu_build := build; nu_rev := rev |})
        | None => Err EValue
        end
    end.

(* versions.NugetVersion *)
Definition nuget_valid (n : str) : res bool :=
  match nuget_from_string n with Ok (Some _) => Ok true | Ok None => Ok false | Err EValue => Ok false | Err e => Err e end.
Definition nuget_ctor (s : str) : res nugetv :=
  let n := normalize s in
  match nuget_valid n with
  | Ok true => match nuget_from_string n with Ok (Some v) => Ok v | Ok None => Err EAttr | Err e => Err e end
  | Ok false => Err EInvalidVersion
  | Err e => Err e
  end.

Definition nonempty_opt (o : option str) : str := match o with Some t => t | None => [] end.
Definition nuget_str (v : nugetv) : str :=
  str_of_N (nu_major v) ++ "."%char :: str_of_N (nu_minor v) ++ "."%char :: str_of_N (nu_patch v)
  ++ (if N.eqb (nu_rev v) 0 then [] else "."%char :: str_of_N (nu_rev v))
  ++ (match nonempty_opt (nu_pre v) with [] => [] | p => "-"%char :: p end)
  ++ (match nonempty_opt (nu_build v) with [] => [] | b => "+"%char :: b end).

(* ---- semver compare: _nat_cmp on the pre-release texts ------------------------------------------------------- *)
Definition tag_cmp (a b : str) : comparison :=
  match isdigit a, isdigit b with
  | true, true => N.compare (int_of_digits a) (int_of_digits b)
  | true, false => Lt
  | false, true => Gt
  | false, false => cmp_str a b
  end.
Fixpoint tags_cmp (l1 l2 : list str) : option comparison :=    (* the zip loop: None when it runs to the end *)
  match l1, l2 with
  | x :: r1, y :: r2 => match tag_cmp x y with Eq => tags_cmp r1 r2 | o => Some o end
  | _, _ => None
  end.
Definition nat_cmp (a b : str) : comparison :=
  match tags_cmp (split_c "."%char a) (split_c "."%char b) with
  | Some o => o
  | None => Nat.compare (List.length a) (List.length b)
  end.
Definition triple_cmp (x y : nugetv) : comparison :=
  match N.compare (nu_major x) (nu_major y) with
  | Eq => match N.compare (nu_minor x) (nu_minor y) with Eq => N.compare (nu_patch x) (nu_patch y) | o => o end
  | o => o end.
Definition base_cmp (x y : nugetv) : comparison :=
  match triple_cmp x y with
  | Eq => let a := nonempty_opt (nu_pre x) in let b := nonempty_opt (nu_pre y) in
          match nat_cmp a b with
          | Eq => Eq
          | rc => if is_empty a then Gt else if is_empty b then Lt else rc
          end
  | o => o
  end.

(* nuget.Version.__eq__ / __lt__ and the operators functools.total_ordering derives; the wrapper compares (value,) *)
Definition nuget_eq (x y : nugetv) : bool := (match base_cmp x y with Eq => true | _ => false end) && N.eqb (nu_rev x) (nu_rev y).
Definition nuget_lt (x y : nugetv) : bool :=
  if (match triple_cmp x y with Eq => true | _ => false end) && negb (N.eqb (nu_rev x) (nu_rev y)) then N.ltb (nu_rev x) (nu_rev y)
  else match base_cmp x y with Lt => true | _ => false end.
Definition nuget_ops (x y : nugetv) : ops :=
  let e := nuget_eq x y in let l := nuget_lt x y in
  {| o_eq := e; o_ne := negb e; o_lt := if e then false else l; o_le := if e then true else l;
     o_gt := if e then false else negb l; o_ge := if e then true else negb l |}.
Definition opt_str_eqb (a b : option str) : bool :=
  match a, b with None, None => true | Some x, Some y => eqs x y | _, _ => false end.
Definition nuget_hasheq (x y : nugetv) : bool :=
  N.eqb (nu_major x) (nu_major y) && N.eqb (nu_minor x) (nu_minor y) && N.eqb (nu_patch x) (nu_patch y)
  && opt_str_eqb (nu_pre x) (nu_pre y) && N.eqb (nu_rev x) (nu_rev y).
Definition nuget_cmp (x y : nugetv) : comparison := if nuget_eq x y then Eq else if nuget_lt x y then Lt else Gt.
