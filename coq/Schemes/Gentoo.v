(* GentooVersion / AlpineLinuxVersion: code-shaped model of gentoo.is_valid, parse_version_and_revision,
   vercmp, canonical_key and of the operators of versions.GentooVersion. *)
From Coq Require Import List Bool Arith Ascii String NArith ZArith Lia.
From UV.Base Require Import Order LexPad Res.
From UV.Gen Require Import Tables.
From UV.Py Require Import PyStr.
From UV.Schemes Require Import Common Generic.
Import ListNotations.
Local Open Scope list_scope.

Definition c_us : ascii := "_"%char.
Definition c_dotg : ascii := "."%char.
Definition c_zero : ascii := "0"%char.

Fixpoint take_while (p : ascii -> bool) (s : str) : str :=
  match s with c :: r => if p c then c :: take_while p r else [] | [] => [] end.
Fixpoint drop_while (p : ascii -> bool) (s : str) : str :=
  match s with c :: r => if p c then drop_while p r else s | [] => [] end.

(* revision_regexp (any prefix, then "-r" and digits), searched: the LAST "-r<digits>" is found;
   whatever follows the digits is ignored *)
Fixpoint scan_rev (pre : str) (s : str) (best : option (str * N)) : option (str * N) :=
  match s with
  | [] => best
  | c :: r =>
      let best' :=
        match c, r with
        | "-"%char, "r"%char :: ((d :: _) as ds) => if is_digit d then Some (rev pre, int_of_digits (take_while is_digit ds)) else best
        | _, _ => best
        end in
      scan_rev (c :: pre) r best'
  end.
Definition parse_version_and_revision (s : str) : str * N :=
  match scan_rev [] s None with Some (v, n) => (v, n) | None => (s, 0%N) end.

(* _is_gentoo_version: digits, dot-separated digit groups, an optional letter, then any number of
   "_" + (p | pre | beta | alpha | rc) + optional digits, up to the end *)
Definition suffix_names : list str := map list_ascii_of_string ["pre"; "p"; "beta"; "alpha"; "rc"]%string.
Fixpoint strip_prefix (p s : str) : option str :=
  match p, s with
  | [], _ => Some s
  | x :: p', y :: s' => if eqc x y then strip_prefix p' s' else None
  | _ :: _, [] => None
  end.
(* one "_name digits*" group: returns the rest *)
Definition match_suffix_group (s : str) : option str :=
  match s with
  | c :: r =>
      if eqc c c_us then
        (fix try (names : list str) : option str :=
           match names with
           | [] => None
           | n :: ns => match strip_prefix n r with
                        | Some rest =>
                            let rest' := drop_while is_digit rest in
                            (* the group must be followed by another group or the end *)
                            match rest' with
                            | [] => Some rest'
                            | c2 :: _ => if eqc c2 c_us then Some rest' else try ns
                            end
                        | None => try ns
                        end
           end) suffix_names
      else None
  | [] => None
  end.
Fixpoint match_suffix_groups (fuel : nat) (s : str) : bool :=
  match s with
  | [] => true
  | _ => match fuel with
         | O => false
         | S f => match match_suffix_group s with Some rest => match_suffix_groups f rest | None => false end
         end
  end.
Fixpoint match_dotted (fuel : nat) (s : str) : option str :=   (* dotted digit groups; returns the rest *)
  match fuel with
  | O => None
  | S f =>
      match take_while is_digit s with
      | [] => None
      | _ => let rest := drop_while is_digit s in
             match rest with
             | c :: ((d :: _) as r2) => if eqc c c_dotg && is_digit d then match_dotted f r2 else Some rest
             | _ => Some rest
             end
      end
  end.
Definition is_gentoo_version (v : str) : bool :=
  match match_dotted (S (List.length v)) v with
  | None => false
  | Some rest =>
      let rest := match rest with c :: r => if is_alpha c then r else rest | [] => rest end in
      match_suffix_groups (S (List.length rest)) rest
  end.

(* gentoo.is_valid(string) *)
Definition gentoo_is_valid (s : str) : bool := is_gentoo_version (fst (parse_version_and_revision (remove_spaces s))).

(* is_valid_alpine_version *)
Definition alpine_first_ok (s : str) : bool :=
  let '(lft, _, _) := partition_c c_dotg s in
  let '(lft2, _, _) := partition_c "-"%char lft in
  if negb (isdigit lft2) then true else eqs (str_of_N (int_of_digits lft2)) lft2.

(* suffix_regexp.match(p): one of alpha, beta, rc, pre, p (tried in this order) followed by digits only;
   the value comes from gentoo.suffix_value *)
Definition suffix_order : list str := map list_ascii_of_string ["alpha"; "beta"; "rc"; "pre"; "p"]%string.
Definition suffix_val (name : str) : option Z :=
  match find (fun p => eqs (list_ascii_of_string (fst p)) name) gentoo_suffix with
  | Some (_, (neg, n)) => Some (if neg then (- Z.of_nat n)%Z else Z.of_nat n)
  | None => None
  end.
Fixpoint parse_suffix_in (names : list str) (p : str) : option (str * str) :=
  match names with
  | [] => None
  | n :: ns => match strip_prefix n p with
               | Some rest => if all_digits rest then Some (n, rest) else parse_suffix_in ns p
               | None => parse_suffix_in ns p
               end
  end.
(* (suffix_value[group1], int("0" + group2)); Err: no match (None.group) or a name missing from the table *)
Definition suffix_key (p : str) : res (Z * N) :=
  match parse_suffix_in suffix_order p with
  | None => Err EAttr
  | Some (n, ds) => match suffix_val n with Some z => Ok (z, int_of_digits ds) | None => Err EKey end
  end.

Definition cmpZ := Z.compare.
Definition sgn (c : comparison) : Z := match c with Lt => (-1)%Z | Eq => 0%Z | Gt => 1%Z end.

Definition last_char (s : str) : option ascii := match rev s with c :: _ => Some c | [] => None end.
Definition but_last (s : str) : str := match rev s with _ :: r => rev r | [] => [] end.
Definition rstrip0 (s : str) : str := rstrip_set [c_zero] s.
Definition zero_led (s : str) : res bool := match s with c :: _ => Ok (eqc c c_zero) | [] => Err EIndex end.

(* one pair of dotted components *)
Definition comp_cmp (v1 v2 : str) : res comparison :=
  if eqs v1 v2 then Ok Eq
  else match zero_led v1, zero_led v2 with
       | Ok z1, Ok z2 =>
           if negb z1 && negb z2 then
             if all_digits v1 && all_digits v2 then Ok (N.compare (int_of_digits v1) (int_of_digits v2)) else Err EValue
           else Ok (cmp_str (rstrip0 v1) (rstrip0 v2))
       | Err e, _ => Err e
       | _, Err e => Err e
       end.
Fixpoint comps_rest (l1 l2 : list str) : res comparison :=   (* the zip loop after the first pair, then the lengths *)
  match l1, l2 with
  | x :: r1, y :: r2 => match comp_cmp x y with
                        | Ok Eq => comps_rest r1 r2
                        | o => o
                        end
  | [], [] => Ok Eq
  | [], _ :: _ => Ok Lt
  | _ :: _, [] => Ok Gt
  end.
(* the first pair of components (i == 0): always compared as integers *)
Definition first_cmp (v1 v2 : str) : res comparison :=
  if eqs v1 v2 then Ok Eq
  else if isdigit v1 && isdigit v2 then Ok (N.compare (int_of_digits v1) (int_of_digits v2)) else Err EValue.
Definition comps_cmp (l1 l2 : list str) : res comparison :=
  match l1, l2 with
  | x :: r1, y :: r2 => match first_cmp x y with
                        | Ok Eq => comps_rest r1 r2
                        | o => o
                        end
  | [], [] => Ok Eq
  | [], _ :: _ => Ok Lt
  | _ :: _, [] => Ok Gt
  end.

(* split the last component's letter *)
Definition split_letter (comps : list str) : res (list str * option ascii) :=
  match rev comps with
  | [] => Err EIndex
  | lastc :: before =>
      match last_char lastc with
      | None => Err EIndex
      | Some c => if is_alpha c then Ok (rev before ++ [but_last lastc], Some c) else Ok (comps, None)
      end
  end.
Definition letter_cmp (a b : option ascii) : comparison :=
  match a, b with
  | None, None => Eq | None, Some _ => Lt | Some _, None => Gt
  | Some x, Some y => cmp_char x y
  end.

(* the suffix loop *)
Fixpoint suffixes_cmp (l1 l2 : list str) : res comparison :=
  match l1, l2 with
  | [], [] => Ok Eq
  | [], y :: _ => match suffix_key y with
                  | Ok (val, n) => if negb (Z.eqb val 0) then Ok (Z.compare 0 val) else Ok (N.compare 0 n)
                  | Err e => Err e end
  | x :: _, [] => match suffix_key x with
                  | Ok (val, n) => if negb (Z.eqb val 0) then Ok (Z.compare val 0) else Ok (N.compare n 0)
                  | Err e => Err e end
  | x :: r1, y :: r2 =>
      if eqs x y then suffixes_cmp r1 r2
      else match suffix_key x, suffix_key y with
           | Ok (v1, n1), Ok (v2, n2) =>
               match Z.compare v1 v2 with
               | Eq => match N.compare n1 n2 with Eq => suffixes_cmp r1 r2 | o => Ok o end
               | o => Ok o
               end
           | Err e, _ => Err e
           | _, Err e => Err e
           end
  end.

(* gentoo.vercmp *)
Definition vercmp (s1 s2 : str) : res comparison :=
  match s1, s2 with
  | [], [] => Ok Eq
  | [], _ => Ok Lt
  | _, [] => Ok Gt
  | _, _ =>
      let '(ver1, rev1) := parse_version_and_revision s1 in
      let '(ver2, rev2) := parse_version_and_revision s2 in
      if eqs ver1 ver2 then Ok (N.compare rev1 rev2)
      else
        let parts1 := split_c c_us ver1 in
        let parts2 := split_c c_us ver2 in
        let d1 := hd [] parts1 in
        let d2 := hd [] parts2 in
        let dotted :=
          if negb (eqs d1 d2) then
            match split_letter (split_c c_dotg d1), split_letter (split_c c_dotg d2) with
            | Ok (c1, l1), Ok (c2, l2) =>
                match comps_cmp c1 c2 with
                | Ok Eq => Ok (letter_cmp l1 l2)
                | o => o
                end
            | Err e, _ => Err e
            | _, Err e => Err e
            end
          else Ok Eq in
        match dotted with
        | Ok Eq => match suffixes_cmp (tl parts1) (tl parts2) with
                   | Ok Eq => Ok (N.compare rev1 rev2)
                   | o => o
                   end
        | o => o
        end
  end.

(* ---- versions.GentooVersion / AlpineLinuxVersion ---- *)
Definition gentoo_ctor (s : str) : res str :=
  let n := normalize s in if gentoo_is_valid n then Ok n else Err EInvalidVersion.
Definition alpine_valid (n : str) : bool := alpine_first_ok n && gentoo_is_valid n.
Definition alpine_ctor (s : str) : res str :=
  let n := normalize s in if alpine_valid n then Ok n else Err EInvalidVersion.

(* __eq__: == 0, __lt__: == -1, __gt__: == 1, __le__: <= 0, __ge__: >= 0, __ne__: not __eq__ *)
Definition gentoo_ops (a b : str) : res ops :=
  match vercmp a b with
  | Ok c => Ok (ops_of c)
  | Err e => Err e
  end.

(* gentoo.canonical_key: what is hashed.  The code keys the components it compares as integers on int(c); on ASCII
   digits that integer is represented here by its canonical numeral (no leading zeros), which is the same key up to
   a bijection; digits of other scripts are outside the models and are exercised on the implementation by C12. *)
Fixpoint mapM_opt {A B} (f : A -> option B) (l : list A) : option (list B) :=
  match l with
  | [] => Some []
  | x :: r => match f x, mapM_opt f r with Some y, Some ys => Some (y :: ys) | _, _ => None end
  end.
Definition canon_comp (c : str) : str := match c with x :: _ => if eqc x c_zero then rstrip0 c else c | [] => c end.
Definition canon_first (c : str) : str := match lstrip_set [c_zero] c with [] => [c_zero] | t => t end.
Record gkey := { k_comps : list str; k_letter : option ascii; k_suffixes : list (str * N); k_rev : N }.
Definition canonical_key (s : str) : res gkey :=
  let '(ver, rv) := parse_version_and_revision s in
  let parts := split_c c_us ver in
  let comps := split_c c_dotg (hd [] parts) in
  let '(comps, letter) :=
    match rev comps with
    | lastc :: before => match last_char lastc with
                         | Some c => if is_alpha c then (rev before ++ [but_last lastc], Some c) else (comps, None)
                         | None => (comps, None)
                         end
    | [] => (comps, None)
    end in
  match mapM_opt (fun p => match parse_suffix_in suffix_order p with Some (n, ds) => Some (n, int_of_digits ds) | None => None end) (tl parts) with
  | Some sfx => Ok {| k_comps := match comps with c0 :: rest => canon_first c0 :: map canon_comp rest | [] => [] end;
                      k_letter := letter; k_suffixes := sfx; k_rev := rv |}
  | None => Err EAttr
  end.

Definition opt_ascii_eqb (a b : option ascii) : bool :=
  match a, b with None, None => true | Some x, Some y => eqc x y | _, _ => false end.
Fixpoint list_eqb {A} (f : A -> A -> bool) (l1 l2 : list A) : bool :=
  match l1, l2 with [], [] => true | x :: r1, y :: r2 => f x y && list_eqb f r1 r2 | _, _ => false end.
Definition gkey_eqb (a b : gkey) : bool :=
  list_eqb eqs (k_comps a) (k_comps b) && opt_ascii_eqb (k_letter a) (k_letter b)
  && list_eqb (fun p q => eqs (fst p) (fst q) && N.eqb (snd p) (snd q)) (k_suffixes a) (k_suffixes b)
  && N.eqb (k_rev a) (k_rev b).
Definition gentoo_hasheq (a b : str) : bool :=
  match canonical_key a, canonical_key b with Ok x, Ok y => gkey_eqb x y | _, _ => false end.
