(* C18 for gem: GemVersion.bump() and release() on the gem model, as canonical segment lists.
   bump: the numeric segments before the first string, without the last one when there are several, the last one
   incremented.  release: the numeric segments before the first string.  Proved for every version whose text starts
   with a number (every valid gem version): the version is strictly below its bump and not above its release. *)
From Coq Require Import List Bool Arith Ascii String NArith Lia.
From UV.Base Require Import Order LexPad Res.
From UV.Py Require Import PyStr.
From UV.Schemes Require Import Common Generic Gentoo Gem GemProofs.
From UV.Ref Require Import Gem.
Import ListNotations.
Local Open Scope list_scope.

Notation gpad := (cmp_pad seg_cmp (SNum 0)).

Definition incr_last (l : list seg) : list seg :=
  match rev l with SNum n :: r => rev (SNum (n + 1) :: r) | _ => l end.
Definition bump_list (segs : list seg) : list seg :=
  let nums := take_nums segs in incr_last (if Nat.ltb 1 (List.length nums) then removelast nums else nums).
Definition release_list (segs : list seg) : list seg := take_nums segs.

(* ---- padding facts -------------------------------------------------------------------------------------------- *)
Lemma gpad_refl l : gpad l l = Eq.
Proof. apply (tpo_refl _ (tpo_pad seg_cmp tpo_seg (SNum 0))). Qed.
Lemma gpad_app_l p : forall a b, gpad (p ++ a) (p ++ b) = gpad a b.
Proof.
  induction p as [|x r IH]; intros a b; [reflexivity|].
  cbn [app cmp_pad]. rewrite (tpo_refl _ tpo_seg). apply IH.
Qed.
Lemma vs_pad_l_zeros : forall l, forallb is_zero l = true -> vs_pad_l seg_cmp (SNum 0) l = Eq.
Proof.
  induction l as [|x r IH]; [reflexivity|]. cbn [forallb]. intros H. apply andb_true_iff in H. destruct H as [Hx Hr].
  apply is_zero_spec in Hx. subst x. cbn. apply IH. exact Hr.
Qed.
Lemma vs_pad_r_zeros : forall l, forallb is_zero l = true -> vs_pad_r seg_cmp (SNum 0) l = Eq.
Proof.
  induction l as [|x r IH]; [reflexivity|]. cbn [forallb]. intros H. apply andb_true_iff in H. destruct H as [Hx Hr].
  apply is_zero_spec in Hx. subst x. cbn. apply IH. exact Hr.
Qed.

(* dropping trailing zeros: l = dtz l ++ zeros *)
Lemma dtz_split l : exists z, l = drop_trailing_zeros l ++ z /\ forallb is_zero z = true.
Proof.
  unfold drop_trailing_zeros.
  assert (G : forall m : list seg, exists z, m = z ++ (fix dz (l : list seg) := match l with x :: r => if is_zero x then dz r else l | [] => [] end) m
                                      /\ forallb is_zero z = true).
  { induction m as [|x r IH]; [exists []; split; reflexivity|]. destruct (is_zero x) eqn:Z.
    - destruct IH as [z [E F]]. exists (x :: z). split; [cbn [app]; rewrite <- E; reflexivity|cbn; rewrite Z, F; reflexivity].
    - exists []. split; reflexivity. }
  destruct (G (rev l)) as [z [E F]]. exists (rev z). split.
  - rewrite <- rev_app_distr, <- E, rev_involutive. reflexivity.
  - rewrite forallb_forall in *. intros x Hx. apply F. apply in_rev. exact Hx.
Qed.

(* a list that starts with a string segment is below any list of numbers (and below nothing at all) *)
Definition starts_str (l : list seg) : bool := match l with SStr _ :: _ => true | _ => false end.
Definition all_num (l : list seg) : bool := forallb is_num l.
Lemma str_below_nums a b : starts_str a = true -> all_num b = true -> gpad a b = Lt.
Proof.
  destruct a as [|[n|s] r]; try discriminate. intros _ Hb. destruct b as [|[m|t] r2]; cbn in *; try discriminate; reflexivity.
Qed.

Lemma take_nums_all l : all_num (take_nums l) = true.
Proof. induction l as [|x r IH]; [reflexivity|]. cbn. destruct (is_num x) eqn:E; [cbn; rewrite E; exact IH|reflexivity]. Qed.
Lemma drop_nums_shape l : drop_nums l = [] \/ starts_str (drop_nums l) = true.
Proof. induction l as [|x r IH]; [left; reflexivity|]. cbn. destruct x as [n|s]; cbn; [exact IH|right; reflexivity]. Qed.
Lemma dtz_starts_str l : starts_str l = true -> starts_str (drop_trailing_zeros l) = true.
Proof.
  intros H. destruct (dtz_split l) as [z [E F]]. destruct (drop_trailing_zeros l) as [|x r] eqn:D.
  - cbn [app] in E. subst l. destruct z as [|[n|s] t]; cbn in *; try discriminate.
  - rewrite E in H. exact H.
Qed.

(* ---- release ---------------------------------------------------------------------------------------------------- *)
Definition canon_of (segs : list seg) : list seg := drop_trailing_zeros (take_nums segs) ++ drop_trailing_zeros (drop_nums segs).

Theorem release_not_below segs : gpad (canon_of segs) (drop_trailing_zeros (release_list segs)) <> Gt.
Proof.
  unfold canon_of, release_list. set (t := drop_trailing_zeros (take_nums segs)).
  rewrite <- (app_nil_r t) at 2. rewrite gpad_app_l.
  destruct (drop_nums_shape segs) as [E|S].
  - rewrite E. cbn. discriminate.
  - pose proof (dtz_starts_str _ S) as S2. rewrite (str_below_nums _ [] S2 eq_refl). discriminate.
Qed.

(* ---- bump -------------------------------------------------------------------------------------------------------- *)
Fixpoint dz (l : list seg) : list seg := match l with x :: r => if is_zero x then dz r else l | [] => [] end.
Lemma dtz_dz l : drop_trailing_zeros l = rev (dz (rev l)).
Proof. reflexivity. Qed.
Lemma dtz_nonzero_last p n : N.eqb n 0 = false -> drop_trailing_zeros (p ++ [SNum n]) = p ++ [SNum n].
Proof.
  intros H. rewrite dtz_dz, rev_app_distr. cbn [rev app dz].
  assert (Z : is_zero (SNum n) = false) by (destruct n; [discriminate|reflexivity]). rewrite Z.
  cbn [rev]. rewrite rev_involutive. reflexivity.
Qed.
Lemma dtz_zero_last p : drop_trailing_zeros (p ++ [SNum 0]) = drop_trailing_zeros p.
Proof. rewrite !dtz_dz, rev_app_distr. reflexivity. Qed.

(* comparing  p ++ x  with  p ++ [n+1]  where x is "at most n, then anything": the three shapes of the proof *)
Lemma below_succ_tail n (rest : list seg) : (rest = [] \/ starts_str rest = true) ->
  gpad (SNum n :: rest) [SNum (n + 1)] = Lt.
Proof.
  intros _. cbn. assert (C : N.compare n (n + 1) = Lt) by (apply N.compare_lt_iff; lia). rewrite C. reflexivity.
Qed.

Theorem bump_above segs : take_nums segs <> [] -> gpad (canon_of segs) (drop_trailing_zeros (bump_list segs)) = Lt.
Proof.
  intros NE. unfold canon_of, bump_list. set (nums := take_nums segs) in *. set (rest := drop_nums segs).
  pose proof (take_nums_all segs) as AN. fold nums in AN.
  assert (RS : drop_trailing_zeros rest = [] \/ starts_str (drop_trailing_zeros rest) = true).
  { destruct (drop_nums_shape segs) as [E|S]; fold rest in E || fold rest in S; [left; rewrite E; reflexivity|right; apply dtz_starts_str; exact S]. }
  (* the last number of nums, and what is before it *)
  destruct (rev nums) as [|lastn rp] eqn:RV; [exfalso; apply NE; apply (f_equal (@rev seg)) in RV; rewrite rev_involutive in RV; exact RV|].
  assert (EN : nums = rev rp ++ [lastn]) by (apply (f_equal (@rev seg)) in RV; rewrite rev_involutive in RV; exact RV).
  assert (LN : exists z, lastn = SNum z).
  { assert (I : In lastn nums) by (rewrite EN; apply in_or_app; right; left; reflexivity).
    unfold all_num in AN. rewrite forallb_forall in AN. specialize (AN lastn I). destruct lastn as [z|s]; [eauto|discriminate]. }
  destruct LN as [z ->].
  destruct (Nat.ltb 1 (List.length nums)) eqn:L1.
  - (* several numbers: the last one is dropped and the one before is incremented *)
    destruct rp as [|prev rp']; [rewrite EN in L1; cbn in L1; discriminate|].
    assert (PN : exists y, prev = SNum y).
    { assert (I : In prev nums) by (rewrite EN; apply in_or_app; left; apply in_rev; rewrite rev_involutive; left; reflexivity).
      unfold all_num in AN. rewrite forallb_forall in AN. specialize (AN prev I). destruct prev as [y|s]; [eauto|discriminate]. }
    destruct PN as [y ->]. set (p := rev rp') in *.
    assert (EN2 : nums = p ++ [SNum y; SNum z]) by (rewrite EN; cbn [rev]; rewrite <- app_assoc; reflexivity).
    assert (RL : removelast nums = p ++ [SNum y]).
    { rewrite EN2. change (p ++ [SNum y; SNum z]) with (p ++ ([SNum y] ++ [SNum z])). rewrite app_assoc. apply removelast_last. }
    rewrite RL. unfold incr_last. rewrite rev_app_distr. cbn [rev app]. rewrite rev_involutive.
    assert (Y1 : N.eqb (y + 1) 0 = false) by (apply N.eqb_neq; lia).
    rewrite (dtz_nonzero_last p (y + 1) Y1).
    (* the left side: trailing zeros of p ++ [y; z] dropped, then the rest *)
    destruct (N.eqb z 0) eqn:Zz.
    + apply N.eqb_eq in Zz. subst z. destruct (N.eqb y 0) eqn:Zy.
      * apply N.eqb_eq in Zy. subst y.
        (* nums = p ++ [0; 0]: everything after dtz p is zeros on the left; the right has p then 1 *)
        destruct (dtz_split nums) as [zs [E F]]. rewrite EN2 in E at 1.
        destruct (dtz_split p) as [zp [Ep Fp]].
        assert (D : drop_trailing_zeros nums = drop_trailing_zeros p).
        { rewrite EN2. change (p ++ [SNum 0; SNum 0]) with (p ++ ([SNum 0] ++ [SNum 0])). rewrite app_assoc, !dtz_zero_last. reflexivity. }
        rewrite D. rewrite Ep at 2. rewrite <- app_assoc, gpad_app_l.
        destruct RS as [R0|R1].
        -- rewrite R0. cbn [cmp_pad]. clear -Fp. induction zp as [|q r IH]; [reflexivity|].
           cbn [forallb] in Fp. apply andb_true_iff in Fp. destruct Fp as [Hq Hr]. apply is_zero_spec in Hq. subst q. cbn. apply IH. exact Hr.
        -- destruct (drop_trailing_zeros rest) as [|[n|s] rr]; try discriminate. destruct zp as [|[[|q]|t] r]; cbn in *; try discriminate; reflexivity.
      * assert (D : drop_trailing_zeros nums = p ++ [SNum y]).
        { rewrite EN2. change (p ++ [SNum y; SNum 0]) with (p ++ ([SNum y] ++ [SNum 0])). rewrite app_assoc, dtz_zero_last. apply dtz_nonzero_last. exact Zy. }
        rewrite D, <- app_assoc, gpad_app_l. cbn [app]. apply below_succ_tail. exact RS.
    + assert (D : drop_trailing_zeros nums = p ++ [SNum y; SNum z]).
      { rewrite EN2. change (p ++ [SNum y; SNum z]) with (p ++ ([SNum y] ++ [SNum z])). rewrite app_assoc. rewrite (dtz_nonzero_last _ z Zz). rewrite <- app_assoc. reflexivity. }
      rewrite D, <- app_assoc, gpad_app_l. cbn [app cmp_pad].
      assert (C : N.compare y (y + 1) = Lt) by (apply N.compare_lt_iff; lia). cbn. rewrite C. reflexivity.
  - (* a single number *)
    destruct rp as [|prev rp']; [|exfalso; apply Nat.ltb_ge in L1; rewrite EN in L1; cbn [rev] in L1; rewrite !app_length in L1; cbn [List.length] in L1; lia].
    cbn [rev app] in EN. rewrite EN. unfold incr_last. cbn [rev app].
    assert (Z1 : N.eqb (z + 1) 0 = false) by (apply N.eqb_neq; lia).
    pose proof (dtz_nonzero_last [] (z + 1) Z1) as Q1. cbn [app] in Q1. rewrite Q1.
    destruct (N.eqb z 0) eqn:Zz.
    + apply N.eqb_eq in Zz. subst z. change (drop_trailing_zeros [SNum 0]) with (@nil seg). cbn [app].
      destruct RS as [R0|R1]; [rewrite R0; reflexivity|]. destruct (drop_trailing_zeros rest) as [|[n|s] rr]; try discriminate. reflexivity.
    + pose proof (dtz_nonzero_last [] z Zz) as Q2. cbn [app] in Q2. rewrite Q2. cbn [app]. apply below_succ_tail. exact RS.
Qed.

(* ---- release() and bump() are made of numbers only ------------------------------------------------------------ *)
Lemma all_num_removelast l : all_num l = true -> all_num (removelast l) = true.
Proof.
  unfold all_num. induction l as [|x r IH]; [reflexivity|]. intros H. cbn [forallb] in H. apply andb_true_iff in H as [Hx Hr].
  destruct r as [|y r']; [reflexivity|]. change (removelast (x :: y :: r')) with (x :: removelast (y :: r')). cbn [forallb].
  rewrite Hx. apply IH, Hr.
Qed.
Lemma all_num_incr_last l : all_num l = true -> all_num (incr_last l) = true.
Proof.
  unfold incr_last, all_num. intros H. destruct (rev l) as [|[n|s] r] eqn:E; try exact H.
  assert (Hr : forallb is_num (rev l) = true).
  { apply forallb_forall. intros x Hx. apply in_rev in Hx. revert x Hx. apply forallb_forall. exact H. }
  rewrite E in Hr. cbn [forallb] in Hr. apply andb_true_iff in Hr as [_ Hr].
  apply forallb_forall. intros x Hx. apply in_rev in Hx. rewrite ?rev_involutive in Hx. destruct Hx as [<-|Hx]; [reflexivity|].
  revert x Hx. apply forallb_forall. exact Hr.
Qed.
Theorem release_and_bump_numeric segs : forallb is_num (release_list segs) = true /\ forallb is_num (bump_list segs) = true.
Proof.
  split; [apply take_nums_all|]. unfold bump_list. apply all_num_incr_last.
  destruct (Nat.ltb 1 (List.length (take_nums segs))); [apply all_num_removelast|]; apply take_nums_all.
Qed.
