(* C16 (constructors): the modelled constructors fail only with the invalid-version error. *)
From Coq Require Import List Bool Arith Ascii String NArith Lia.
From UV.Base Require Import Order Res.
From UV.Gen Require Import Tables.
From UV.Py Require Import PyStr.
From UV.Schemes Require Import Common Generic LegacyOpenssl Gentoo Debian Semver.
Import ListNotations.
Local Open Scope list_scope.

Lemma startswith_split : forall p s, startswith s p = true -> exists t, s = p ++ t.
Proof.
  induction p as [|x r IH]; intros s H; [exists s; reflexivity|].
  destruct s as [|y s']; [discriminate|]. cbn in H. apply andb_true_iff in H. destruct H as [H1 H2].
  apply eqc_eq in H1. subst y. destruct (IH s' H2) as [t E]. exists t. cbn. rewrite E. reflexivity.
Qed.

(* ---- generic, gentoo, alpine, semver family: by construction of the constructor ---------- *)
Theorem gen_ctor_declared s e : gen_ctor s = Err e -> e = EInvalidVersion.
Proof. apply gen_ctor_error. Qed.
Theorem gentoo_ctor_declared s e : gentoo_ctor s = Err e -> e = EInvalidVersion.
Proof. unfold gentoo_ctor. destruct (gentoo_is_valid (normalize s)); [discriminate|]. intros H. inversion H. reflexivity. Qed.
Theorem alpine_ctor_declared s e : alpine_ctor s = Err e -> e = EInvalidVersion.
Proof. unfold alpine_ctor. destruct (alpine_valid (normalize s)); [discriminate|]. intros H. inversion H. reflexivity. Qed.
(* coerce itself only fails with ValueError, which is what is_valid catches *)
Theorem coerce_declared s e : coerce s = Err e -> e = EValue.
Proof.
  unfold coerce. destruct (match_base s) as [[comps rest]|]; [|intros H; inversion H; reflexivity].
  destruct (clean_rest rest) as [|c r]; [discriminate|].
  set (pb := if eqc c c_plus then _ else _). destruct pb as [pre build].
  unfold ids_of.
  destruct (is_empty pre); destruct (is_empty (replace_plus build));
    repeat match goal with |- context [if ?b then _ else _] => destruct b end; try discriminate; intros H; inversion H; reflexivity.
Qed.
Theorem semver_ctor_declared s e : semver_ctor s = Err e -> e = EInvalidVersion.
Proof. unfold semver_ctor. destruct (coerce (normalize s)); [discriminate|]. intros H. inversion H. reflexivity. Qed.

(* ---- deb: after the validity check the builder cannot fail -------------------------------- *)
Lemma partition_found c : forall s, snd (fst (partition_c c s)) = mem_c c s.
Proof.
  induction s as [|x r IH]; [reflexivity|]. cbn [partition_c mem_c existsb].
  rewrite (eqc_sym c x). destruct (eqc x c); [reflexivity|].
  destruct (partition_c c r) as [[a f] b]. cbn in *. exact IH.
Qed.

Lemma deb_core_no_colon s : deb_core s = true -> mem_c c_col s = false.
Proof.
  destruct s as [|c r]; [discriminate|]. cbn [deb_core]. intros H. apply andb_true_iff in H. destruct H as [Hc Hr].
  unfold mem_c. apply not_true_iff_false. intro F. apply existsb_exists in F. destruct F as [y [Hy E]]. apply eqc_eq in E. subst y.
  destruct Hy as [E|Hy].
  - subst c. discriminate.
  - rewrite forallb_forall in Hr. specialize (Hr _ Hy). discriminate.
Qed.

Theorem deb_ctor_declared s e : deb_ctor s = Err e -> e = EInvalidVersion.
Proof.
  unfold deb_ctor. destruct (deb_is_valid (normalize s)) eqn:Hv; [|intros H; inversion H; reflexivity].
  set (n := normalize s) in *. unfold deb_is_valid in Hv. unfold deb_build.
  apply orb_true_iff in Hv. destruct Hv as [Hc|Hp].
  - rewrite (deb_core_no_colon n Hc). cbn [fst snd]. cbn. destruct (mem_c c_hyp n); discriminate.
  - pose proof (partition_found c_col n) as PF. destruct (partition_c c_col n) as [[ep f] rest].
    cbn [fst snd] in PF. apply andb_true_iff in Hp. destruct Hp as [Hp Hcore]. apply andb_true_iff in Hp. destruct Hp as [Hf Hd].
    rewrite <- PF, Hf. cbn [fst snd]. rewrite Hd. cbn [negb]. destruct (mem_c c_hyp rest); discriminate.
Qed.

(* ---- legacy openssl: after the base-prefix test, int() and the indexing steps cannot fail ---- *)
Lemma split_dot_cons c t : eqc c c_dot = false ->
  split_c c_dot (c :: t) = match split_c c_dot t with h :: r => (c :: h) :: r | [] => [[c]] end.
Proof. intros H. cbn [split_c]. rewrite H. reflexivity. Qed.

Ltac eval_ground_isdigit :=
  repeat match goal with
         | |- context [isdigit [?x]] =>
             lazymatch x with Ascii _ _ _ _ _ _ _ _ => let v := eval vm_compute in (isdigit [x]) in change (isdigit [x]) with v end
         end.
Lemma checked_total v : exists o, checked v = Ok o.
Proof. unfold checked. destruct (known_base v); eauto. Qed.
Ltac leg_case t :=
  let h := fresh "h" in let h2 := fresh "h2" in let r2 := fresh "r2" in let D := fresh "D" in
  let p0 := fresh "p0" in let h' := fresh "hh" in
  cbn [app list_ascii_of_string]; cbn [split_c]; cbn -[isdigit int_of_digits checked];
  destruct (split_c c_dot t) as [|h [|h2 r2]]; cbn -[isdigit int_of_digits checked]; eval_ground_isdigit; cbn -[isdigit int_of_digits checked]; try solve [eauto using checked_total];
  match goal with |- context [isdigit ?c] => destruct (isdigit c) eqn:D end; try solve [eauto using checked_total];
  destruct h as [|p0 h']; [cbn in D; discriminate|]; cbn -[isdigit int_of_digits checked]; destruct (is_digit p0); eauto using checked_total.

Theorem leg_parse_total : forall s, exists o, leg_parse s = Ok o.
Proof.
  intros s. unfold leg_parse. destruct (existsb (startswith s) bases) eqn:E; cbn [negb]; [|eauto].
  apply existsb_exists in E. destruct E as [b [Hb Hs]]. destruct (startswith_split b s Hs) as [t Es]. subst s.
  unfold bases in Hb. cbn in Hb.
  repeat (destruct Hb as [Hb|Hb]; [subst b; leg_case t|]).
  destruct Hb.
Qed.

Theorem leg_ctor_declared s e : leg_ctor s = Err e -> e = EInvalidVersion.
Proof.
  unfold leg_ctor. destruct (leg_parse_total (normalize s)) as [o E]. rewrite E.
  destruct o; [discriminate|]. intros H. inversion H. reflexivity.
Qed.
