(* ConanVersion: code-shaped model of the vendored univers.conan.version (_VersionItem, Version.__init__, __eq__,
   __hash__, __lt__ and the operators functools.total_ordering derives) and of versions.ConanVersion. *)
From Coq Require Import List Bool Arith Ascii String NArith ZArith Lia.
From UV.Base Require Import Order Res.
From UV.Py Require Import PyStr.
From UV.Schemes Require Import Common Generic Gentoo Rpm.
Import ListNotations.
Local Open Scope list_scope.

(* _VersionItem: int(item) when Python accepts it, else the text *)
Inductive citem := IInt (z : Z) | IStr (s : str).
Definition mk_item (t : str) : citem := match py_int t with Some z => IInt z | None => IStr t end.
Definition item_text (i : citem) : str := match i with IInt z => str_of_Z z | IStr s => s end.
Definition item_eq (a b : citem) : bool :=
  match a, b with IInt x, IInt y => Z.eqb x y | IStr x, IStr y => eqs x y | _, _ => false end.
(* __lt__: the values, or their texts when one is a number and the other is not (TypeError fallback) *)
Definition item_lt (a b : citem) : bool :=
  match a, b with
  | IInt x, IInt y => Z.ltb x y
  | IStr x, IStr y => match cmp_str x y with Lt => true | _ => false end
  | _, _ => match cmp_str (item_text a) (item_text b) with Lt => true | _ => false end
  end.
Definition item_zero (i : citem) : bool := match i with IInt 0%Z => true | _ => false end.

Inductive cver := CV (text : str) (items : list citem) (nonzero : list citem) (pre : option cver) (build : option cver).
Definition cv_nz (v : cver) := match v with CV _ _ nz _ _ => nz end.
Definition cv_pre (v : cver) := match v with CV _ _ _ p _ => p end.
Definition cv_build (v : cver) := match v with CV _ _ _ _ b => b end.
Definition cv_items (v : cver) := match v with CV _ its _ _ _ => its end.
Definition cv_text (v : cver) := match v with CV t _ _ _ _ => t end.

Definition rsplit_last (c : ascii) (s : str) : str * option str :=
  let '(a, f, b) := partition_c c (rev s) in if f then (rev b, Some (rev a)) else (s, None).
Definition drop_trailing_zero_items (l : list citem) : list citem :=
  rev ((fix dz (l : list citem) := match l with x :: r => if item_zero x then dz r else l | [] => [] end) (rev l)).

Fixpoint conan_parse (fuel : nat) (value : str) : cver :=
  match fuel with
  | O => CV value [] [] None None
  | S f =>
      let '(v1, build) := rsplit_last "+"%char value in
      let '(v2, pre) := rsplit_last "-"%char v1 in
      let items := map mk_item (split_c "."%char v2) in
      CV value items (drop_trailing_zero_items items)
         (match pre with Some p => Some (conan_parse f p) | None => None end)
         (match build with Some b => Some (conan_parse f b) | None => None end)
  end.
Definition conan_version (s : str) : cver := conan_parse (S (List.length s)) s.

(* tuple comparison of Python on item tuples *)
Fixpoint items_eq (l1 l2 : list citem) : bool :=
  match l1, l2 with [], [] => true | x :: r1, y :: r2 => item_eq x y && items_eq r1 r2 | _, _ => false end.
Fixpoint items_lt (l1 l2 : list citem) : bool :=
  match l1, l2 with
  | [], [] => false
  | [], _ :: _ => true
  | _ :: _, [] => false
  | x :: r1, y :: r2 => if item_eq x y then items_lt r1 r2 else item_lt x y
  end.

Fixpoint cver_eq (fuel : nat) (a b : cver) : bool :=
  match fuel with
  | O => false
  | S f =>
      items_eq (cv_nz a) (cv_nz b)
      && match cv_pre a, cv_pre b with None, None => true | Some x, Some y => cver_eq f x y | _, _ => false end
      && match cv_build a, cv_build b with None, None => true | Some x, Some y => cver_eq f x y | _, _ => false end
  end.
(* `x < y` between optional versions inside a tuple: None is below every version *)
Definition opt_lt (lt : cver -> cver -> bool) (a b : option cver) : bool :=
  match a, b with None, None => false | None, Some _ => true | Some _, None => false | Some x, Some y => lt x y end.
Definition opt_eq (eq : cver -> cver -> bool) (a b : option cver) : bool :=
  match a, b with None, None => true | Some x, Some y => eq x y | _, _ => false end.

Fixpoint cver_lt (fuel : nat) (a b : cver) : bool :=
  match fuel with
  | O => false
  | S f =>
      let nz_eq := items_eq (cv_nz a) (cv_nz b) in
      let nz_lt := items_lt (cv_nz a) (cv_nz b) in
      match cv_pre a, cv_pre b with
      | Some pa, Some pb =>
          (* (nonzero, pre, build) < (nonzero, pre, build) *)
          if negb nz_eq then nz_lt
          else if negb (cver_eq f pa pb) then cver_lt f pa pb
          else if negb (opt_eq (cver_eq f) (cv_build a) (cv_build b)) then opt_lt (cver_lt f) (cv_build a) (cv_build b)
          else false
      | Some _, None => if nz_eq then true else nz_lt
      | None, Some _ => if nz_eq then false else nz_lt
      | None, None =>
          if negb nz_eq then nz_lt
          else if negb (opt_eq (cver_eq f) (cv_build a) (cv_build b)) then opt_lt (cver_lt f) (cv_build a) (cv_build b)
          else false
      end
  end.

Definition fuel_of (a b : cver) : nat := S (List.length (cv_text a) + List.length (cv_text b)).
Definition conan_eqb (a b : cver) : bool := cver_eq (fuel_of a b) a b.
Definition conan_ltb (a b : cver) : bool := cver_lt (fuel_of a b) a b.

(* versions.ConanVersion: every text is accepted; the value prints as its text *)
Definition conan_valid (n : str) : bool := true.
Definition conan_ctor (s : str) : res cver := Ok (conan_version (normalize s)).
Definition conan_str (v : cver) : str := cv_text v.
(* total_ordering: > is (not <) and !=, <= is < or ==, >= is not <; the wrapper compares (value,): == first *)
Definition conan_ops (a b : cver) : ops :=
  let e := conan_eqb a b in let l := conan_ltb a b in
  {| o_eq := e; o_ne := negb e; o_lt := if e then false else l; o_le := if e then true else l;
     o_gt := if e then false else negb l; o_ge := if e then true else negb l |}.
Definition conan_hasheq (a b : cver) : bool := conan_eqb a b.
Definition conan_cmp (a b : cver) : comparison := if conan_eqb a b then Eq else if conan_ltb a b then Lt else Gt.
