(* C11, last clause: surrounding or embedded whitespace and a leading "v" do not change the version obtained.
   Every modelled constructor reads its argument through normalize() only; normalize() forgets inserted whitespace
   and one more leading v or V. *)
From Coq Require Import List Bool Arith Ascii String NArith Lia.
From UV.Base Require Import Order Res.
From UV.Py Require Import PyStr.
From UV.Schemes Require Import Common Generic LegacyOpenssl Gentoo Debian Semver Rpm Gem Arch Openssl Pypi Maven Nuget Conan Registry.
Import ListNotations.
Local Open Scope list_scope.

Lemma normalize_ws a b : ws_variant a b -> normalize b = normalize a.
Proof. intros H. unfold normalize. rewrite (remove_spaces_ws a b H). reflexivity. Qed.

Lemma vV_not_space c : mem_c c vV = true -> is_space c = false.
Proof.
  unfold vV. cbn [list_ascii_of_string mem_c existsb]. intros H. apply orb_true_iff in H as [H|H].
  - apply eqc_eq in H. subst c. reflexivity.
  - apply orb_true_iff in H as [H|H]; [|discriminate]. apply eqc_eq in H. subst c. reflexivity.
Qed.
Lemma normalize_leading_v c a : mem_c c vV = true -> normalize (c :: a) = normalize a.
Proof.
  intros H. unfold normalize, remove_spaces. cbn [filter]. rewrite (vV_not_space c H). cbn [negb lstrip_set]. rewrite H. reflexivity.
Qed.

Ltac factor := let a := fresh "a" in let b := fresh "b" in let H := fresh "H" in
  intros a b H; cbn [snd v_ctor sch_generic sch_legacy sch_gentoo sch_alpine sch_deb sch_semver sch_golang sch_rpm sch_gem sch_arch
                     sch_openssl sch_pypi sch_maven sch_nuget sch_conan];
  unfold gen_ctor, leg_ctor, gentoo_ctor, alpine_ctor, deb_ctor, semver_ctor, golang_ctor, rpm_ctor, gem_ctor, arch_ctor, ossl_ctor,
         pypi_ctor, maven_ctor, nuget_ctor, conan_ctor; rewrite H; reflexivity.

Theorem ctor_reads_normalized :
  Forall (fun p => forall a b, normalize a = normalize b -> v_ctor (snd p) a = v_ctor (snd p) b) schemes.
Proof. unfold schemes. repeat (apply Forall_cons; [factor|]). apply Forall_nil. Qed.

Theorem ctor_ignores_whitespace_and_leading_v name sch : find_scheme name = Some sch ->
  (forall a b, ws_variant a b -> v_ctor sch b = v_ctor sch a) /\
  (forall c a, mem_c c vV = true -> v_ctor sch (c :: a) = v_ctor sch a).
Proof.
  unfold find_scheme. destruct (find (fun p => String.eqb (fst p) name) schemes) as [p|] eqn:E; [|discriminate].
  intros H. injection H as <-. apply find_some in E as [Hin _].
  pose proof ctor_reads_normalized as F. rewrite Forall_forall in F. specialize (F p Hin). split.
  - intros a b W. apply F, normalize_ws, W.
  - intros c a Hc. apply F, normalize_leading_v, Hc.
Qed.
