(* C11 for the later scheme models: the validity check says "valid" exactly when construction succeeds, and the
   printed form of a gem or alpm version constructs the same value again. *)
From Coq Require Import List Bool Arith Ascii String NArith ZArith Lia.
From UV.Base Require Import Order Res.
From UV.Py Require Import PyStr.
From UV.Schemes Require Import Common Generic LegacyOpenssl Semver Rpm Gem Arch Openssl TotalityProofs TotalityProofs2.
Import ListNotations.
Local Open Scope list_scope.

Theorem gem_valid_iff_ctor s : gem_valid (normalize s) = true <-> exists v, gem_ctor s = Ok v.
Proof. unfold gem_ctor. destruct (gem_valid (normalize s)); split; eauto; try discriminate. intros [v H]. discriminate. Qed.
Theorem gem_roundtrip s v : gem_ctor s = Ok v -> gem_ctor (gem_str v) = Ok v.
Proof.
  unfold gem_ctor. destruct (gem_valid (normalize s)) eqn:E; [|discriminate]. intros H. inversion H; subst. cbn [gem_str gem_build g_original].
  rewrite normalize_idem, E. reflexivity.
Qed.

Theorem arch_valid_iff_ctor s : arch_valid (normalize s) = true <-> exists v, arch_ctor s = Ok v.
Proof. unfold arch_ctor. destruct (arch_valid (normalize s)); split; eauto; try discriminate. intros [v H]. discriminate. Qed.
Theorem arch_roundtrip s v : arch_ctor s = Ok v -> arch_ctor (gen_str v) = Ok v.
Proof.
  unfold arch_ctor. destruct (arch_valid (normalize s)) eqn:E; [|discriminate]. intros H. inversion H; subst. unfold gen_str.
  rewrite normalize_idem, E. reflexivity.
Qed.

Theorem rpm_valid_iff_ctor s : rpm_valid (normalize s) = Ok true <-> exists v, rpm_ctor s = Ok v.
Proof.
  unfold rpm_ctor. split.
  - intros H. rewrite H. unfold rpm_valid in H. destruct (from_evr (normalize s)) as [v|e]; [eauto|]. destruct e; discriminate.
  - intros [v H]. destruct (rpm_valid (normalize s)) as [[|]|e]; [reflexivity|discriminate|discriminate].
Qed.

Theorem ossl_valid_iff_ctor s : ossl_valid (normalize s) = Ok true <-> exists v, ossl_ctor s = Ok v.
Proof.
  split.
  - intros H. destruct (ossl_ctor s) as [v|e] eqn:E; [eauto|]. exfalso.
    pose proof (ossl_ctor_declared s e E) as D. subst e. unfold ossl_ctor in E. rewrite H in E.
    (* with a valid text, build_value cannot fail: shown inside ossl_ctor_declared; here by the same cases *)
    unfold ossl_build, ossl_valid in *. set (n := normalize s) in *.
    assert (Nn : normalize n = n) by (apply normalize_idem).
    destruct (leg_parse_total n) as [o Lp].
    assert (Lv : leg_valid n = Ok (match o with Some _ => true | None => false end)) by (unfold leg_valid; rewrite Lp; destruct o; reflexivity).
    rewrite Lv in *. destruct o as [v|].
    + unfold leg_ctor in E. rewrite Nn, Lp in E. discriminate.
    + destruct (valid_new n) eqn:Vn; [|discriminate]. unfold valid_new in Vn. unfold semver_ctor in E. rewrite Nn in E. destruct (coerce n); discriminate.
  - intros [v H]. unfold ossl_ctor in H. destruct (ossl_valid (normalize s)) as [[|]|e]; [reflexivity|discriminate|discriminate].
Qed.
