(* SemVer precedence (with the build tie-break) is a total preorder; == is its equivalence;
   the successors bracket the version. *)
From Coq Require Import List Bool Arith Ascii String NArith Lia.
From UV.Base Require Import Order Res.
From UV.Py Require Import PyStr.
From UV.Schemes Require Import Common Generic Numerals Semver.
Import ListNotations.
Local Open Scope list_scope.

(* ---- identifiers ---------------------------------------------------------------------- *)
Definition idkey (a : str) : bool * (N * str) := if all_digits a then (false, (int_of_digits a, [])) else (true, (0%N, a)).
Definition idkcmp := cmp_pair cmp_bool (cmp_pair N.compare cmp_str).
Lemma tpo_idkcmp : TPO idkcmp.
Proof. repeat apply tpo_pair; auto using tpo_bool, tpo_N, tpo_str. Qed.
Lemma id_cmp_key a b : id_cmp a b = idkcmp (idkey a) (idkey b).
Proof.
  unfold id_cmp, idkey, idkcmp, cmp_pair. destruct (all_digits a), (all_digits b); cbn [fst snd cmp_bool]; try reflexivity;
    try (destruct (N.compare (int_of_digits a) (int_of_digits b)); reflexivity);
    try (change (N.compare 0 0) with Eq; cbn iota; destruct (cmp_str a b); reflexivity).
Qed.
Lemma tpo_id_cmp : TPO id_cmp.
Proof. apply (tpo_of_key idkcmp idkey id_cmp tpo_idkcmp id_cmp_key). Qed.

Definition prekey (p : list str) : bool * list str := (match p with [] => true | _ => false end, p).
Definition prekcmp := cmp_pair cmp_bool (cmp_lex id_cmp).
Lemma pre_cmp_key p q : pre_cmp p q = prekcmp (prekey p) (prekey q).
Proof. unfold pre_cmp, prekcmp, prekey, cmp_pair. destruct p, q; cbn [fst snd cmp_bool]; try reflexivity; try (destruct (cmp_lex id_cmp (s :: p) (s0 :: q)); reflexivity). Qed.
Lemma tpo_pre_cmp : TPO pre_cmp.
Proof.
  apply (tpo_of_key prekcmp prekey pre_cmp); [|exact pre_cmp_key].
  apply tpo_pair; [apply tpo_bool|apply tpo_lex; apply tpo_id_cmp].
Qed.

Definition svkey (v : semver) := (sv_major v, (sv_minor v, (sv_patch v, (sv_pre v, sv_build v)))).
Definition svkcmp := cmp_pair N.compare (cmp_pair N.compare (cmp_pair N.compare (cmp_pair pre_cmp (cmp_lex cmp_str)))).
Lemma semver_cmp_key a b : semver_cmp a b = svkcmp (svkey a) (svkey b).
Proof. reflexivity. Qed.
Theorem semver_tpo : TPO semver_cmp.
Proof.
  apply (tpo_of_key svkcmp svkey semver_cmp); [|exact semver_cmp_key].
  repeat apply tpo_pair; auto using tpo_N, tpo_pre_cmp. apply tpo_lex. apply tpo_str.
Qed.

(* ---- == is the equivalence of the order (on parsed versions) ----------------------------- *)
Lemma strs_eqb_eq : forall l1 l2, strs_eqb l1 l2 = true <-> l1 = l2.
Proof.
  induction l1 as [|x r IH]; intros [|y s]; cbn; split; intros H; try discriminate; auto.
  - apply andb_true_iff in H. destruct H as [H1 H2]. apply eqs_eq in H1. apply IH in H2. subst. reflexivity.
  - inversion H; subst. apply andb_true_iff. split; [apply eqs_eq; reflexivity|apply IH; reflexivity].
Qed.

Lemma id_ok_canonical a : id_ok false a = true -> all_digits a = true -> canonical a = true.
Proof.
  unfold id_ok. intros H D. apply andb_true_iff in H. destruct H as [Ne H]. cbn [orb] in H.
  destruct a as [|c t]; [discriminate|]. cbn [canonical].
  cbn [all_digits forallb] in D. apply andb_true_iff in D. destruct D as [Dc Dt].
  destruct t as [|c2 t']; [exact Dc|].
  apply negb_true_iff in H. rewrite Dc. cbn [andb].
  assert (AD : all_digits (c :: c2 :: t') = true) by (cbn [all_digits forallb]; rewrite Dc; exact Dt).
  rewrite AD in *. rewrite andb_true_r in *.
  destruct (eqc c "0"%char) eqn:Ez; [|reflexivity].
  cbn [andb] in H. assert (X : eqs (c :: c2 :: t') ["0"%char] = false) by (cbn; rewrite andb_false_r; reflexivity).
  rewrite X in H. discriminate.
Qed.

Lemma id_cmp_eq a b : id_ok false a = true -> id_ok false b = true -> id_cmp a b = Eq -> a = b.
Proof.
  intros Ha Hb. unfold id_cmp. destruct (all_digits a) eqn:Da, (all_digits b) eqn:Db; try discriminate.
  - intros H. apply N.compare_eq in H. apply int_of_digits_inj; auto using id_ok_canonical.
  - apply cmp_str_eq.
Qed.

Lemma lex_id_eq : forall p q, forallb (id_ok false) p = true -> forallb (id_ok false) q = true ->
  cmp_lex id_cmp p q = Eq -> p = q.
Proof.
  induction p as [|x r IH]; intros [|y s] Hp Hq H; cbn in H; try discriminate; [reflexivity|].
  cbn [forallb] in Hp, Hq. apply andb_true_iff in Hp, Hq. destruct Hp as [Hx Hr], Hq as [Hy Hs].
  destruct (id_cmp x y) eqn:E; try discriminate. rewrite (id_cmp_eq x y Hx Hy E). f_equal. apply IH; assumption.
Qed.

Lemma lex_str_eq : forall p q, cmp_lex cmp_str p q = Eq -> p = q.
Proof.
  induction p as [|x r IH]; intros [|y s] H; cbn in H; try discriminate; [reflexivity|].
  destruct (cmp_str x y) eqn:E; try discriminate. rewrite (cmp_str_eq x y E). f_equal. apply IH. exact H.
Qed.

Theorem semver_eq_iff_cmp a b : sv_ok a = true -> sv_ok b = true ->
  semver_eq a b = true <-> semver_cmp a b = Eq.
Proof.
  intros Ha Hb. unfold sv_ok in *. apply andb_true_iff in Ha, Hb. destruct Ha as [Pa Ba], Hb as [Pb Bb]. split.
  - unfold semver_eq. intros H. repeat (apply andb_true_iff in H; destruct H as [H ?]).
    apply N.eqb_eq in H, H2, H3. apply strs_eqb_eq in H0, H1.
    destruct a, b. cbn in *. subst. apply (tpo_refl _ semver_tpo).
  - unfold semver_cmp, semver_eq.
    destruct (N.compare (sv_major a) (sv_major b)) eqn:E1; try discriminate.
    destruct (N.compare (sv_minor a) (sv_minor b)) eqn:E2; try discriminate.
    destruct (N.compare (sv_patch a) (sv_patch b)) eqn:E3; try discriminate.
    destruct (pre_cmp (sv_pre a) (sv_pre b)) eqn:E4; try discriminate.
    intros E5. apply N.compare_eq in E1, E2, E3. apply lex_str_eq in E5.
    assert (P : sv_pre a = sv_pre b).
    { unfold pre_cmp in E4. destruct (sv_pre a) as [|x r] eqn:Ea, (sv_pre b) as [|y s] eqn:Eb; try discriminate; [reflexivity|].
      apply lex_id_eq; assumption. }
    rewrite E1, E2, E3, P, E5, !N.eqb_refl. cbn.
    assert (R : forall l, strs_eqb l l = true) by (intros l; apply strs_eqb_eq; reflexivity). rewrite !R. reflexivity.
Qed.

Theorem semver_ops_spec a b : sv_ok a = true -> sv_ok b = true -> semver_ops a b = ops_of (semver_cmp a b).
Proof.
  intros Ha Hb. unfold semver_ops. pose proof (semver_eq_iff_cmp a b Ha Hb) as [H1 H2].
  destruct (semver_eq a b) eqn:E.
  - rewrite (H1 eq_refl). reflexivity.
  - destruct (semver_cmp a b) eqn:C; try reflexivity. specialize (H2 eq_refl). discriminate.
Qed.

Theorem semver_eq_hash a b : semver_eq a b = true -> semver_hasheq a b = true.
Proof. auto. Qed.

(* ---- C18: the successors bracket the version ----------------------------------------------- *)
Definition lt_sv (a b : semver) : Prop := semver_cmp a b = Lt.
Definition le_sv (a b : semver) : Prop := semver_cmp a b <> Gt.

Lemma cmpN_succ n : N.compare n (n + 1) = Lt.
Proof. apply N.compare_lt_iff. lia. Qed.

Theorem next_patch_above v : lt_sv v (next_patch v).
Proof.
  unfold lt_sv, next_patch, semver_cmp, has_pre, mk. destruct (sv_pre v) as [|x r] eqn:P; cbn [sv_major sv_minor sv_patch sv_pre sv_build].
  - rewrite !N.compare_refl, cmpN_succ. reflexivity.
  - rewrite !N.compare_refl. reflexivity.
Qed.

Theorem next_patch_le_minor v : le_sv (next_patch v) (next_minor v).
Proof.
  unfold le_sv, next_patch, next_minor, semver_cmp, has_pre, mk.
  destruct (sv_pre v) as [|x r] eqn:P; cbn [andb sv_major sv_minor sv_patch sv_pre sv_build pre_cmp cmp_lex].
  - rewrite !N.compare_refl, cmpN_succ. discriminate.
  - destruct (N.eqb (sv_patch v) 0) eqn:Z; cbn [sv_major sv_minor sv_patch sv_pre sv_build pre_cmp cmp_lex].
    + apply N.eqb_eq in Z. rewrite Z, !N.compare_refl. discriminate.
    + rewrite !N.compare_refl, cmpN_succ. discriminate.
Qed.

Theorem next_minor_le_major v : le_sv (next_minor v) (next_major v).
Proof.
  unfold le_sv, next_minor, next_major, semver_cmp, has_pre, mk.
  destruct (sv_pre v) as [|x r] eqn:P; cbn [andb sv_major sv_minor sv_patch sv_pre sv_build pre_cmp cmp_lex].
  - rewrite cmpN_succ. discriminate.
  - destruct (N.eqb (sv_patch v) 0) eqn:Zp, (N.eqb (sv_minor v) 0) eqn:Zm; cbn [andb sv_major sv_minor sv_patch sv_pre sv_build pre_cmp cmp_lex];
      try (apply N.eqb_eq in Zm; rewrite Zm); rewrite ?N.compare_refl, ?cmpN_succ; discriminate.
Qed.
