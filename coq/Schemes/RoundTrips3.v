(* C11 for the two classes that keep the text they were built from (maven, conan): the printed form is the normalised
   input, and constructing from it gives the same value again. *)
From Coq Require Import List Bool Arith Ascii String NArith ZArith Lia.
From UV.Base Require Import Order Res.
From UV.Py Require Import PyStr.
From UV.Schemes Require Import Common Generic Maven Conan TotalityProofs2.
Import ListNotations.
Local Open Scope list_scope.

Theorem maven_ctor_roundtrip s v :
  maven_ctor s = Ok v -> maven_str v = normalize s /\ maven_ctor (maven_str v) = Ok v.
Proof.
  unfold maven_ctor. intros H. inversion H; subst. cbn [maven_str m_text]. split; [reflexivity|].
  rewrite normalize_idem. reflexivity.
Qed.

Lemma conan_parse_text f s : cv_text (conan_parse (S f) s) = s.
Proof.
  cbn [conan_parse]. destruct (rsplit_last "+"%char s) as [v1 build]. destruct (rsplit_last "-"%char v1) as [v2 pre].
  reflexivity.
Qed.

Theorem conan_ctor_roundtrip s v :
  conan_ctor s = Ok v -> conan_str v = normalize s /\ conan_ctor (conan_str v) = Ok v.
Proof.
  unfold conan_ctor, conan_version, conan_str. intros H.
  assert (E : v = conan_parse (S (List.length (normalize s))) (normalize s)) by congruence.
  rewrite E, conan_parse_text. split; [reflexivity|]. rewrite normalize_idem. reflexivity.
Qed.
