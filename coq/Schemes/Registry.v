(* The modelled schemes behind one interface, for the correspondence check. *)
From Coq Require Import List Bool Arith Ascii String NArith.
From UV.Base Require Import Order Res.
From UV.Py Require Import PyStr.
From UV.Schemes Require Import Common Generic LegacyOpenssl Gentoo GentooProofs Debian DebianProofs Semver Rpm Gem GemProofs Arch Openssl Pypi Maven Nuget Conan.
From UV.Ref Require Pep440.
Import ListNotations.

Record vsch := {
  vT : Type;
  v_valid : str -> res bool;        (* VersionClass.is_valid(normalized string) *)
  v_ctor : str -> res vT;           (* VersionClass(string) *)
  v_str : vT -> str;                (* str(version) *)
  v_ops : vT -> vT -> res ops;      (* == != < <= > >= as Python answers them (Err: raises) *)
  v_hasheq : vT -> vT -> bool;      (* hash(a) == hash(b), through the hashed key *)
  v_cmp : vT -> vT -> comparison;   (* the order the operators are proved to refine to *)
  v_shape : vT -> bool;             (* the domain of the scheme's theorems: must hold of every accepted version *)
}.

Definition eqb_str (a b : str) : bool := eqs a b.

Definition sch_generic : vsch :=
  {| vT := str; v_valid := fun n => Ok (gen_valid n); v_ctor := gen_ctor; v_str := gen_str;
     v_ops := fun a b => Ok (gen_ops a b); v_hasheq := eqb_str; v_cmp := gen_cmp; v_shape := fun _ => true |}.

Definition sch_legacy : vsch :=
  {| vT := legacy; v_valid := leg_valid; v_ctor := leg_ctor; v_str := leg_str;
     v_ops := fun a b => Ok (leg_ops a b);
     v_hasheq := fun a b => N.eqb (l_major a) (l_major b) && N.eqb (l_minor a) (l_minor b) && N.eqb (l_build a) (l_build b) && eqs (l_patch a) (l_patch b);
     v_cmp := leg_cmp; v_shape := fun _ => true |}.

Definition gentoo_cmp_total (a b : str) : comparison := match vercmp a b with Ok c => c | Err _ => Eq end.
Definition sch_gentoo : vsch :=
  {| vT := str; v_valid := fun n => Ok (gentoo_is_valid n); v_ctor := gentoo_ctor; v_str := gen_str;
     v_ops := gentoo_ops; v_hasheq := gentoo_hasheq; v_cmp := gentoo_cmp; v_shape := gok |}.
Definition sch_alpine : vsch :=
  {| vT := str; v_valid := fun n => Ok (alpine_valid n); v_ctor := alpine_ctor; v_str := gen_str;
     v_ops := gentoo_ops; v_hasheq := gentoo_hasheq; v_cmp := gentoo_cmp; v_shape := gok |}.

Definition sch_deb : vsch :=
  {| vT := deb; v_valid := fun n => Ok (deb_is_valid n); v_ctor := deb_ctor; v_str := deb_str;
     v_ops := deb_ops; v_hasheq := deb_hasheq;
     v_cmp := deb_cmp; v_shape := dok |}.

Definition sch_semver : vsch :=
  {| vT := semver; v_valid := fun n => Ok (semver_valid n); v_ctor := semver_ctor; v_str := semver_str;
     v_ops := fun a b => Ok (semver_ops a b); v_hasheq := semver_hasheq; v_cmp := semver_cmp; v_shape := sv_ok |}.
Definition sch_golang : vsch :=
  {| vT := semver; v_valid := fun n => Ok (golang_valid n); v_ctor := golang_ctor; v_str := semver_str;
     v_ops := fun a b => Ok (semver_ops a b); v_hasheq := semver_hasheq; v_cmp := semver_cmp; v_shape := sv_ok |}.

Definition sch_rpm : vsch :=
  {| vT := rpmv; v_valid := rpm_valid; v_ctor := rpm_ctor; v_str := rpm_str;
     v_ops := fun a b => Ok (rpm_ops a b); v_hasheq := rpm_hasheq; v_cmp := rpm_compare; v_shape := fun _ => true |}.

Definition sch_gem : vsch :=
  {| vT := gemv; v_valid := fun n => Ok (gem_valid n); v_ctor := gem_ctor; v_str := gem_str;
     v_ops := fun a b => Ok (gem_ops a b); v_hasheq := gem_hasheq; v_cmp := gem_order; v_shape := fun _ => true |}.

Definition sch_arch : vsch :=
  {| vT := str; v_valid := fun n => Ok (arch_valid n); v_ctor := arch_ctor; v_str := gen_str;
     v_ops := fun a b => Ok (arch_ops a b); v_hasheq := arch_hasheq; v_cmp := arch_cmp; v_shape := fun _ => true |}.

Definition sch_openssl : vsch :=
  {| vT := osslv; v_valid := ossl_valid; v_ctor := ossl_ctor; v_str := ossl_str;
     v_ops := fun a b => Ok (ossl_ops a b); v_hasheq := ossl_hasheq; v_cmp := ossl_cmp; v_shape := ossl_ok |}.

Definition sch_pypi : vsch :=
  {| vT := Pep440.pep; v_valid := fun n => Ok (pypi_valid n); v_ctor := pypi_ctor; v_str := pypi_str;
     v_ops := fun a b => Ok (pypi_ops a b); v_hasheq := pypi_hasheq; v_cmp := Pep440.pep_cmp; v_shape := fun _ => true |}.
Definition sch_maven : vsch :=
  {| vT := mavenv; v_valid := fun n => Ok (maven_valid n); v_ctor := maven_ctor; v_str := maven_str;
     v_ops := fun a b => Ok (maven_ops a b); v_hasheq := maven_hasheq; v_cmp := maven_cmp; v_shape := fun _ => true |}.

Definition sch_nuget : vsch :=
  {| vT := nugetv; v_valid := nuget_valid; v_ctor := nuget_ctor; v_str := nuget_str;
     v_ops := fun a b => Ok (nuget_ops a b); v_hasheq := nuget_hasheq; v_cmp := nuget_cmp; v_shape := fun _ => true |}.
Definition sch_conan : vsch :=
  {| vT := cver; v_valid := fun n => Ok (conan_valid n); v_ctor := conan_ctor; v_str := conan_str;
     v_ops := fun a b => Ok (conan_ops a b); v_hasheq := conan_hasheq; v_cmp := conan_cmp; v_shape := fun _ => true |}.

Definition schemes : list (string * vsch) :=
  [("GenericVersion", sch_generic); ("Version", sch_generic); ("LegacyOpensslVersion", sch_legacy);
   ("SemverVersion", sch_semver); ("NginxVersion", sch_semver); ("GolangVersion", sch_golang); ("ComposerVersion", sch_golang);
   ("GentooVersion", sch_gentoo); ("DebianVersion", sch_deb); ("AlpineLinuxVersion", sch_alpine);
   ("RpmVersion", sch_rpm); ("RubygemsVersion", sch_gem);
   ("ArchLinuxVersion", sch_arch); ("OpensslVersion", sch_openssl);
   ("PypiVersion", sch_pypi); ("MavenVersion", sch_maven);
   ("NugetVersion", sch_nuget); ("ConanVersion", sch_conan)]%string.

Definition find_scheme (name : string) : option vsch :=
  match find (fun p => String.eqb (fst p) name) schemes with Some p => Some (snd p) | None => None end.

(* string-level entry points used by the driver *)
Definition x_valid (s : vsch) (t : str) : res bool := v_valid s (normalize t).   (* is_valid(normalize(string)) *)
Definition x_ctor (s : vsch) (t : str) : res (str * bool) :=
  match v_ctor s t with Ok v => Ok (v_str s v, v_shape s v) | Err e => Err e end.
Definition x_pair (s : vsch) (a b : str) : res (ops * bool * comparison) :=
  match v_ctor s a, v_ctor s b with
  | Ok x, Ok y => match v_ops s x y with
                  | Ok o => Ok (o, v_hasheq s x y, v_cmp s x y)
                  | Err e => Err e
                  end
  | Err e, _ => Err e
  | _, Err e => Err e
  end.
Definition x_scheme_names : list string := map fst schemes.
