(* PypiVersion: the wrapper delegates parsing, printing, comparison and hashing to packaging.version.Version
   (third party).  The model of that library is the PEP 440 reference of Ref/Pep440.v (parse and the ordering key) plus
   the printer of the normalised form; it is tied to the implementation by the scheme correspondence like every other
   scheme model.  Theorems: the order is a total preorder, the operators are the ones of that order. *)
From Coq Require Import List Bool Arith Ascii String NArith Lia.
From UV.Base Require Import Order Res.
From UV.Py Require Import PyStr.
From UV.Schemes Require Import Common Generic Gentoo.
From UV.Ref Require Import Pep440.
Import ListNotations.
Local Open Scope list_scope.

Definition pypi_valid (n : str) : bool := match parse n with Some _ => true | None => false end.
Definition pypi_ctor (s : str) : res pep :=
  match parse (normalize s) with Some v => Ok v | None => Err EInvalidVersion end.

(* packaging's Version.__str__ *)
Definition lseg_str (x : lseg) : str := match x with LNum n => str_of_N n | LStr s => s end.
Definition pre_letter (k : N) : str := if N.eqb k 1 then ps "a" else if N.eqb k 2 then ps "b" else ps "rc".
Definition pypi_str (v : pep) : str :=
  (if N.eqb (p_epoch v) 0 then [] else str_of_N (p_epoch v) ++ ["!"%char])
  ++ join_c "."%char (map str_of_N (p_release v))
  ++ (match p_pre v with Some (k, n) => pre_letter k ++ str_of_N n | None => [] end)
  ++ (match p_post v with Some n => ps ".post" ++ str_of_N n | None => [] end)
  ++ (match p_dev v with Some n => ps ".dev" ++ str_of_N n | None => [] end)
  ++ (match p_local v with Some l => "+"%char :: join_c "."%char (map lseg_str l) | None => [] end).

Definition pypi_ops (a b : pep) : ops := ops_of (pep_cmp a b).
Definition pypi_hasheq (a b : pep) : bool := match pep_cmp a b with Eq => true | _ => false end.

(* ---- the order is a total preorder ------------------------------------------------------------------------- *)
Definition lseg_key (x : lseg) : N * (N * str) := match x with LStr s => (0%N, (0%N, s)) | LNum n => (1%N, (n, [])) end.
Definition lkcmp := cmp_pair N.compare (cmp_pair N.compare cmp_str).
Lemma tpo_lkcmp : TPO lkcmp.
Proof. repeat apply tpo_pair; auto using tpo_N, tpo_str. Qed.
Lemma lseg_cmp_key a b : lseg_cmp a b = lkcmp (lseg_key a) (lseg_key b).
Proof.
  destruct a as [x|x], b as [y|y]; unfold lkcmp, cmp_pair; cbn [lseg_cmp lseg_key fst snd]; try reflexivity.
  change (N.compare 1 1) with Eq. cbn iota. destruct (N.compare x y); reflexivity.
Qed.
Lemma tpo_lseg : TPO lseg_cmp.
Proof. apply (tpo_of_key lkcmp lseg_key lseg_cmp tpo_lkcmp). intros a b. apply lseg_cmp_key. Qed.

Lemma tpo_local : TPO local_cmp.
Proof.
  pose proof (tpo_lex lseg_cmp tpo_lseg) as TL. constructor.
  - intros [x|]; cbn; [apply (tpo_refl _ TL)|reflexivity].
  - intros [x|] [y|]; cbn; try reflexivity. apply (tpo_sym _ TL).
  - intros [x|] [y|] [z|]; cbn; try discriminate; auto. apply (tpo_lt _ TL).
  - intros [x|] [y|] [z|]; cbn; try discriminate; auto. apply (tpo_eq_l _ TL).
Qed.

Definition pep_key (v : pep) :=
  (p_epoch v, (strip_zeros (p_release v), (pre_key v, (post_key v, (dev_key v, p_local v))))).
Definition pep_kcmp :=
  cmp_pair N.compare (cmp_pair (cmp_lex N.compare) (cmp_pair cmpNN (cmp_pair cmpNN (cmp_pair cmpNN local_cmp)))).
Lemma pep_cmp_key a b : pep_cmp a b = pep_kcmp (pep_key a) (pep_key b).
Proof. reflexivity. Qed.
Theorem pypi_tpo : TPO pep_cmp.
Proof.
  apply (tpo_of_key pep_kcmp pep_key pep_cmp); [|intros a b; apply pep_cmp_key].
  assert (TNN : TPO cmpNN) by (apply tpo_pair; apply tpo_N).
  repeat apply tpo_pair; auto using tpo_N, tpo_local. apply tpo_lex. apply tpo_N.
Qed.
Theorem pypi_ops_spec a b : pypi_ops a b = ops_of (pep_cmp a b) /\ ops_agree (pypi_ops a b) = true.
Proof. split; [reflexivity|apply ops_of_agree]. Qed.
Theorem pypi_eq_hash a b : o_eq (pypi_ops a b) = true -> pypi_hasheq a b = true.
Proof. unfold pypi_ops, pypi_hasheq. destruct (pep_cmp a b); cbn; congruence. Qed.
Theorem pypi_ctor_declared s e : pypi_ctor s = Err e -> e = EInvalidVersion.
Proof. unfold pypi_ctor. destruct (parse (normalize s)); [discriminate|]. intros H. inversion H. reflexivity. Qed.
