(* C16 for the later scheme models: the constructors of rpm, gem, alpm and openssl return a value or the
   invalid-version error on every string (no internal error escapes the validity checks). *)
From Coq Require Import List Bool Arith Ascii String NArith ZArith Lia.
From UV.Base Require Import Order Res.
From UV.Py Require Import PyStr.
From UV.Schemes Require Import Common Generic LegacyOpenssl Semver Rpm Gem Arch Openssl TotalityProofs.
Import ListNotations.
Local Open Scope list_scope.

Lemma from_evr_errors s e : from_evr s = Err e -> e = EValue.
Proof.
  unfold from_evr.
  destruct (if mem_c c_colon s then let '(e0, _, vr) := partition_c c_colon s in (e0, vr) else (["0"%char], s)) as [ep vr].
  destruct (py_int ep); [|intros H; inversion H; reflexivity].
  destruct (if mem_c c_dash vr then let '(v, _, r) := partition_c c_dash vr in (v, r) else (vr, [])) as [v r]. discriminate.
Qed.
Theorem rpm_ctor_declared s e : rpm_ctor s = Err e -> e = EInvalidVersion.
Proof.
  unfold rpm_ctor, rpm_valid. destruct (from_evr (normalize s)) as [v|e0] eqn:E.
  - destruct (negb (is_empty (r_version v)) && negb (mem_c c_colon (r_version v ++ r_release v))); [discriminate|].
    intros H. inversion H. reflexivity.
  - rewrite (from_evr_errors _ _ E). intros H. inversion H. reflexivity.
Qed.
Theorem gem_ctor_declared s e : gem_ctor s = Err e -> e = EInvalidVersion.
Proof. unfold gem_ctor. destruct (gem_valid (normalize s)); [discriminate|]. intros H. inversion H. reflexivity. Qed.
Theorem arch_ctor_declared s e : arch_ctor s = Err e -> e = EInvalidVersion.
Proof. unfold arch_ctor. destruct (arch_valid (normalize s)); [discriminate|]. intros H. inversion H. reflexivity. Qed.

Lemma normalize_idem s : normalize (normalize s) = normalize s.
Proof.
  unfold normalize. set (t := remove_spaces s).
  assert (C : forallb (fun c => negb (is_space c)) (lstrip_set vV t) = true) by (apply lstrip_subset; apply remove_spaces_clean).
  rewrite (remove_spaces_none _ C). apply lstrip_idem.
Qed.

Theorem ossl_ctor_declared s e : ossl_ctor s = Err e -> e = EInvalidVersion.
Proof.
  unfold ossl_ctor, ossl_valid, ossl_build. set (n := normalize s).
  assert (Nn : normalize n = n) by (apply normalize_idem).
  destruct (leg_parse_total n) as [o Lp].
  assert (Lv : leg_valid n = Ok (match o with Some _ => true | None => false end)) by (unfold leg_valid; rewrite Lp; destruct o; reflexivity).
  assert (Lc : forall v, o = Some v -> leg_ctor n = Ok v) by (intros v ->; unfold leg_ctor; rewrite Nn, Lp; reflexivity).
  rewrite Lv. destruct (valid_new n) eqn:Vn.
  - destruct o as [v|]; [rewrite (Lc v eq_refl); discriminate|].
    unfold valid_new in Vn. unfold semver_ctor. rewrite Nn. destruct (coerce n); [discriminate|discriminate].
  - destruct o as [v|]; [rewrite (Lc v eq_refl); discriminate|]. intros H. inversion H. reflexivity.
Qed.
