(* The gem order is the padded lexicographic order of the canonical segments (strings before numbers, a missing
   segment counting as 0): a total preorder; == is its equivalence; the operators are the ones of that order; and the
   comparison is the reference's (Ref/Gem.ref_gem) on every accepted text. *)
From Coq Require Import List Bool Arith Ascii String NArith Lia.
From UV.Base Require Import Order LexPad Res.
From UV.Py Require Import PyStr.
From UV.Schemes Require Import Common Generic Gentoo Gem.
From UV.Ref Require Import Gem.
Import ListNotations.
Local Open Scope list_scope.

Definition seg_key (s : seg) : N * (str * N) := match s with SStr t => (0%N, (t, 0%N)) | SNum n => (1%N, ([], n)) end.
Definition seg_kcmp := cmp_pair N.compare (cmp_pair cmp_str N.compare).
Lemma tpo_seg_kcmp : TPO seg_kcmp.
Proof. repeat apply tpo_pair; auto using tpo_N, tpo_str. Qed.
Lemma seg_cmp_key a b : seg_cmp a b = seg_kcmp (seg_key a) (seg_key b).
Proof.
  destruct a as [x|x], b as [y|y]; unfold seg_kcmp, cmp_pair; cbn [seg_cmp seg_key fst snd]; try reflexivity.
  change (N.compare 0 0) with Eq. cbn iota. destruct (cmp_str x y); reflexivity.
Qed.
Lemma tpo_seg : TPO seg_cmp.
Proof. apply (tpo_of_key seg_kcmp seg_key seg_cmp tpo_seg_kcmp). intros a b. apply seg_cmp_key. Qed.

Lemma segs_cmp_pad : forall l1 l2, segs_cmp l1 l2 = cmp_pad seg_cmp (SNum 0) l1 l2.
Proof.
  assert (L : forall l, lhs_left l = vs_pad_l seg_cmp (SNum 0) l) by (induction l as [|x r IH]; cbn; [reflexivity|rewrite IH; reflexivity]).
  assert (R : forall l, rhs_left l = vs_pad_r seg_cmp (SNum 0) l) by (induction l as [|x r IH]; cbn; [reflexivity|rewrite IH; reflexivity]).
  induction l1 as [|x r1 IH]; intros l2.
  - cbn. apply R.
  - destruct l2 as [|y r2]; [apply (L (x :: r1))|]. cbn. rewrite IH. reflexivity.
Qed.

Lemma seg_eqb_eq a b : seg_eqb a b = true <-> a = b.
Proof.
  destruct a as [x|x], b as [y|y]; cbn; split; try discriminate; intros H.
  - apply N.eqb_eq in H. congruence.
  - inversion H. apply N.eqb_refl.
  - apply eqs_eq in H. congruence.
  - inversion H. apply eqs_eq. reflexivity.
Qed.
Lemma list_seg_eqb_eq : forall l1 l2, list_eqb seg_eqb l1 l2 = true <-> l1 = l2.
Proof.
  induction l1 as [|x r IH]; intros [|y s]; cbn; split; try discriminate; try reflexivity; intros H.
  - apply andb_true_iff in H. destruct H as [H1 H2]. apply seg_eqb_eq in H1. apply IH in H2. congruence.
  - inversion H; subst. apply andb_true_iff. split; [apply seg_eqb_eq; reflexivity|apply IH; reflexivity].
Qed.

Definition gem_order (a b : gemv) : comparison := cmp_pad seg_cmp (SNum 0) (canon a) (canon b).
Theorem gem_tpo : TPO gem_order.
Proof. apply (tpo_of_key (cmp_pad seg_cmp (SNum 0)) canon gem_order (tpo_pad seg_cmp tpo_seg (SNum 0))). reflexivity. Qed.

(* the shortcuts of __cmp__ do not change its answer *)
Theorem gem_cmp_order a b : gem_cmp a b = gem_order a b.
Proof.
  unfold gem_cmp, gem_order.
  destruct (eqs (g_version a) (g_version b)) eqn:E.
  - apply eqs_eq in E. unfold canon, segs. rewrite E. symmetry. apply (tpo_refl _ (tpo_pad seg_cmp tpo_seg (SNum 0))).
  - destruct (list_eqb seg_eqb (canon a) (canon b)) eqn:Q.
    + apply list_seg_eqb_eq in Q. rewrite Q. symmetry. apply (tpo_refl _ (tpo_pad seg_cmp tpo_seg (SNum 0))).
    + apply segs_cmp_pad.
Qed.

(* ---- the model's comparison is the reference's on the text the value was built from -------------------------- *)
Lemma gsub_dash_nonempty c r : is_empty (gsub_dash (c :: r)) = false.
Proof. cbn. destruct (eqc c "-"%char); reflexivity. Qed.
Lemma canon_build n : canon (gem_build n) = canonical_segments n.
Proof.
  unfold canon, segs, canonical_segments, gem_segments, gem_build. cbn [g_version].
  destruct n as [|c r]; [reflexivity|]. cbn [is_empty]. rewrite gsub_dash_nonempty. reflexivity.
Qed.
Theorem gem_matches_reference n1 n2 : gem_cmp (gem_build n1) (gem_build n2) = ref_gem n1 n2.
Proof.
  rewrite gem_cmp_order. unfold gem_order, ref_gem. rewrite !canon_build.
  destruct (eqs (gsub_dash n1) (gsub_dash n2)) eqn:E.
  - apply eqs_eq in E. unfold canonical_segments, gem_segments. rewrite E. apply (tpo_refl _ (tpo_pad seg_cmp tpo_seg (SNum 0))).
  - symmetry. apply segs_cmp_pad.
Qed.

(* ---- == is the equivalence of the order ------------------------------------------------------------------------ *)
Definition ends_nonzero (l : list seg) : bool := match rev l with x :: _ => negb (is_zero x) | [] => true end.

Lemma seg_cmp_eq a b : seg_cmp a b = Eq -> a = b.
Proof.
  destruct a as [x|x], b as [y|y]; cbn; try discriminate; intros H.
  - apply N.compare_eq in H. congruence.
  - apply cmp_str_eq in H. congruence.
Qed.
Lemma is_zero_spec x : is_zero x = true <-> x = SNum 0.
Proof. destruct x as [[|p]|t]; cbn; split; congruence. Qed.

Lemma vs_pad_l_all_zero : forall l, vs_pad_l seg_cmp (SNum 0) l = Eq -> forallb is_zero l = true.
Proof.
  induction l as [|x r IH]; cbn [vs_pad_l]; [reflexivity|]. destruct (seg_cmp x (SNum 0)) eqn:E; try discriminate.
  intros H. apply seg_cmp_eq in E. subst x. cbn. apply IH. exact H.
Qed.
Lemma vs_pad_r_all_zero : forall l, vs_pad_r seg_cmp (SNum 0) l = Eq -> forallb is_zero l = true.
Proof.
  induction l as [|x r IH]; cbn [vs_pad_r]; [reflexivity|]. destruct (seg_cmp (SNum 0) x) eqn:E; try discriminate.
  intros H. apply seg_cmp_eq in E. subst x. cbn. apply IH. exact H.
Qed.
Lemma all_zero_ends l : forallb is_zero l = true -> ends_nonzero l = true -> l = [].
Proof.
  intros A E. destruct l as [|x r]; [reflexivity|]. exfalso. unfold ends_nonzero in E.
  destruct (rev (x :: r)) as [|y t] eqn:R; [apply (f_equal (@List.length seg)) in R; rewrite rev_length in R; discriminate|].
  assert (I : In y (x :: r)) by (apply in_rev; rewrite R; left; reflexivity).
  rewrite forallb_forall in A. rewrite (A y I) in E. discriminate.
Qed.
Lemma ends_nonzero_tail x r : r <> [] -> ends_nonzero (x :: r) = ends_nonzero r.
Proof.
  intros N. unfold ends_nonzero. cbn [rev]. destruct (rev r) as [|y t] eqn:R; [|reflexivity].
  exfalso. apply N. apply (f_equal (@rev seg)) in R. rewrite rev_involutive in R. exact R.
Qed.

Lemma cmp_pad_eq_inv : forall l1 l2, ends_nonzero l1 = true -> ends_nonzero l2 = true ->
  cmp_pad seg_cmp (SNum 0) l1 l2 = Eq -> l1 = l2.
Proof.
  induction l1 as [|x r1 IH]; intros l2 E1 E2 H.
  - cbn in H. symmetry. apply all_zero_ends; [apply vs_pad_r_all_zero; exact H|exact E2].
  - destruct l2 as [|y r2].
    + apply all_zero_ends; [apply (vs_pad_l_all_zero (x :: r1)); exact H|exact E1].
    + cbn in H. destruct (seg_cmp x y) eqn:C; try discriminate. apply seg_cmp_eq in C. subst y. f_equal.
      apply IH; [| |exact H].
      * destruct r1 as [|a t]; [reflexivity|]. rewrite <- (ends_nonzero_tail x (a :: t)) by discriminate. exact E1.
      * destruct r2 as [|a t]; [reflexivity|]. rewrite <- (ends_nonzero_tail x (a :: t)) by discriminate. exact E2.
Qed.

(* drop_trailing_zeros leaves no zero at the end; neither does the concatenation of two such lists *)
Lemma dz_head l : match (fix dz (l : list seg) := match l with x :: r => if is_zero x then dz r else l | [] => [] end) l with
                  | x :: _ => is_zero x = false | [] => True end.
Proof. induction l as [|x r IH]; [exact I|]. destruct (is_zero x) eqn:Z; [exact IH|exact Z]. Qed.
Lemma dtz_ends l : ends_nonzero (drop_trailing_zeros l) = true.
Proof.
  unfold ends_nonzero, drop_trailing_zeros. rewrite rev_involutive.
  pose proof (dz_head (rev l)) as H. destruct ((fix dz (l0 : list seg) := match l0 with x :: r => if is_zero x then dz r else l0 | [] => [] end) (rev l)) as [|x t];
    [reflexivity|rewrite H; reflexivity].
Qed.
Lemma ends_app l1 l2 : ends_nonzero l1 = true -> ends_nonzero l2 = true -> ends_nonzero (l1 ++ l2) = true.
Proof.
  unfold ends_nonzero. rewrite rev_app_distr. intros H1 H2. destruct (rev l2) as [|x t]; [exact H1|exact H2].
Qed.
Lemma canon_ends v : ends_nonzero (canon v) = true.
Proof. unfold canon. apply ends_app; apply dtz_ends. Qed.

Theorem gem_eq_iff_order a b : gem_eq a b = true <-> gem_order a b = Eq.
Proof.
  unfold gem_eq, gem_order. split.
  - intros H. apply list_seg_eqb_eq in H. rewrite H. apply (tpo_refl _ (tpo_pad seg_cmp tpo_seg (SNum 0))).
  - intros H. apply list_seg_eqb_eq. apply cmp_pad_eq_inv; auto using canon_ends.
Qed.

(* the six operators are the ones of the order; equal versions hash alike *)
Theorem gem_ops_spec a b : gem_ops a b = ops_of (gem_order a b).
Proof.
  unfold gem_ops. rewrite gem_cmp_order. pose proof (gem_eq_iff_order a b) as Q.
  destruct (gem_eq a b) eqn:E.
  - destruct Q as [Q _]. rewrite (Q eq_refl). reflexivity.
  - destruct (gem_order a b) eqn:O; [destruct Q as [_ Q]; specialize (Q eq_refl); discriminate|reflexivity|reflexivity].
Qed.
Theorem gem_eq_hash a b : gem_eq a b = true -> gem_hasheq a b = true.
Proof. intros H. exact H. Qed.
