(* The Gentoo comparison refines to a lexicographic order on a key, hence is a total preorder. *)
From Coq Require Import List Bool Arith Ascii String NArith ZArith Lia.
From UV.Base Require Import Order LexPad Res.
From UV.Gen Require Import Tables.
From UV.Py Require Import PyStr.
From UV.Schemes Require Import Common Generic Gentoo.
Import ListNotations.
Local Open Scope list_scope.

(* ---- keys ------------------------------------------------------------------------- *)
(* a dotted component: zero-led ones compare as decimal fractions (their text without
   trailing zeros), before every other one; the others as integers *)
Definition ckey (c : str) : N * (str * N) :=
  match c with
  | x :: _ => if eqc x c_zero then (0%N, (rstrip0 c, 0%N)) else (1%N, ([], int_of_digits c))
  | [] => (1%N, ([], 0%N))
  end.
Definition ckcmp := cmp_pair N.compare (cmp_pair cmp_str N.compare).
Lemma tpo_ckcmp : TPO ckcmp.
Proof. repeat apply tpo_pair; auto using tpo_N, tpo_str. Qed.

Lemma tpo_Z : TPO Z.compare.
Proof.
  constructor.
  - apply Z.compare_refl.
  - intros a b. apply Z.compare_antisym.
  - intros a b c H1 H2. rewrite Z.compare_lt_iff in *. lia.
  - intros a b c H. apply Z.compare_eq in H. subst. reflexivity.
Qed.
Definition skcmp := cmp_pair Z.compare N.compare.
Lemma tpo_skcmp : TPO skcmp.
Proof. apply tpo_pair; auto using tpo_Z, tpo_N. Qed.

Definition ocmp (a b : option ascii) : comparison := letter_cmp a b.
Lemma tpo_ocmp : TPO ocmp.
Proof.
  pose proof tpo_char as TC.
  constructor.
  - intros [a|]; cbn; [apply (tpo_refl _ TC)|reflexivity].
  - intros [a|] [b|]; cbn; try reflexivity. apply (tpo_sym _ TC).
  - intros [a|] [b|] [c|]; cbn; try discriminate; auto. apply (tpo_lt _ TC).
  - intros [a|] [b|] [c|]; cbn; try discriminate; auto. apply (tpo_eq_l _ TC).
Qed.

Definition gkeyT := (list (N * (str * N)) * (option ascii * (list (Z * N) * N)))%type.
Definition gkcmp : gkeyT -> gkeyT -> comparison :=
  cmp_pair (cmp_lex ckcmp) (cmp_pair ocmp (cmp_pair (cmp_pad skcmp (0%Z, 0%N)) N.compare)).
Theorem tpo_gkcmp : TPO gkcmp.
Proof.
  repeat apply tpo_pair; auto using tpo_N, tpo_ocmp.
  - apply tpo_lex. apply tpo_ckcmp.
  - apply tpo_pad. apply tpo_skcmp.
Qed.

(* ---- one component ------------------------------------------------------------------ *)
Definition digits_ne (c : str) : bool := negb (is_empty c) && all_digits c.

Lemma rstrip0_zero_led c r : eqc c c_zero = true ->
  match rstrip0 (c :: r) with [] => True | x :: _ => x = c_zero end.
Proof.
  intros H. apply eqc_eq in H. subst c. unfold rstrip0, rstrip_set.
  (* rev (lstrip (rev (0 :: r))): the result is a prefix of 0 :: r *)
  assert (G : forall l : str, exists k, lstrip_set [c_zero] l = k /\ exists pre, l = pre ++ k) .
  { intros l. induction l as [|y l IH]; [exists []; split; [reflexivity|exists []; reflexivity]|].
    cbn [lstrip_set]. destruct (mem_c y [c_zero]).
    - destruct IH as [k [E [pre P]]]. exists k. split; [exact E|]. exists (y :: pre). cbn. rewrite P. reflexivity.
    - exists (y :: l). split; [reflexivity|]. exists []. reflexivity. }
  destruct (G (rev (c_zero :: r))) as [k [E [pre P]]]. rewrite E.
  assert (R : c_zero :: r = rev k ++ rev pre).
  { rewrite <- rev_app_distr, <- P, rev_involutive. reflexivity. }
  destruct (rev k) as [|x t]; [exact I|]. cbn [app] in R. inversion R. reflexivity.
Qed.

Lemma rstrip0_nonzero_led c r : eqc c c_zero = false -> exists t, rstrip0 (c :: r) = c :: t.
Proof.
  intros H. unfold rstrip0, rstrip_set.
  assert (G : forall l, exists k pre, lstrip_set [c_zero] l = k /\ l = pre ++ k /\ forallb (fun x => eqc x c_zero) pre = true).
  { induction l as [|y l IH]; [exists [], []; auto|].
    cbn [lstrip_set]. destruct (mem_c y [c_zero]) eqn:M.
    - destruct IH as [k [pre [E [P F]]]]. exists k, (y :: pre). split; [exact E|]. split; [cbn; rewrite P; reflexivity|].
      cbn [forallb]. rewrite F. unfold mem_c in M. cbn in M. rewrite orb_false_r in M. rewrite M. reflexivity.
    - exists (y :: l), []. auto. }
  destruct (G (rev (c :: r))) as [k [pre [E [P F]]]]. rewrite E.
  assert (R : c :: r = rev k ++ rev pre).
  { rewrite <- rev_app_distr, <- P, rev_involutive. reflexivity. }
  destruct (rev k) as [|x t] eqn:Ek.
  - (* everything stripped: then c itself is a zero *)
    cbn [app] in R. exfalso.
    assert (In c (rev pre)) by (rewrite <- R; left; reflexivity).
    apply in_rev in H0. rewrite forallb_forall in F. rewrite (F c H0) in H. discriminate.
  - cbn [app] in R. inversion R; subst. exists t. reflexivity.
Qed.

Lemma digit_gt_zero c : is_digit c = true -> eqc c c_zero = false -> cmp_char c_zero c = Lt.
Proof.
  unfold is_digit, cmp_char. intros H N. apply andb_true_iff in H. destruct H as [H1 H2].
  apply N.leb_le in H1. apply N.compare_lt_iff.
  assert (code c <> 48%N).
  { intro E. assert (c = c_zero) by (apply code_inj; rewrite E; reflexivity). subst. rewrite eqc_refl in N. discriminate. }
  change (code c_zero) with 48%N. lia.
Qed.

Lemma ckcmp_00 s1 s2 : ckcmp (0%N, (s1, 0%N)) (0%N, (s2, 0%N)) = cmp_str s1 s2.
Proof. unfold ckcmp, cmp_pair. cbn [fst snd]. change (N.compare 0 0) with Eq. cbn iota. destruct (cmp_str s1 s2); reflexivity. Qed.
Lemma ckcmp_01 s1 n : ckcmp (0%N, (s1, 0%N)) (1%N, ([], n)) = Lt.
Proof. reflexivity. Qed.
Lemma ckcmp_10 s1 n : ckcmp (1%N, ([], n)) (0%N, (s1, 0%N)) = Gt.
Proof. reflexivity. Qed.
Lemma ckcmp_11 n m : ckcmp (1%N, ([], n)) (1%N, ([], m)) = N.compare n m.
Proof. unfold ckcmp, cmp_pair. cbn [fst snd]. change (N.compare 1 1) with Eq. cbn iota. change (cmp_str [] []) with Eq. cbn iota. destruct (N.compare n m); reflexivity. Qed.

Theorem comp_cmp_key x y : digits_ne x = true -> digits_ne y = true ->
  comp_cmp x y = Ok (ckcmp (ckey x) (ckey y)).
Proof.
  intros Hx Hy. unfold comp_cmp.
  destruct (eqs x y) eqn:E.
  - apply eqs_eq in E. subst. rewrite (tpo_refl _ tpo_ckcmp). reflexivity.
  - unfold digits_ne in Hx, Hy. apply andb_true_iff in Hx, Hy. destruct Hx as [Nx Dx], Hy as [Ny Dy].
    destruct x as [|a r]; [discriminate|]. destruct y as [|b s]; [discriminate|].
    cbn [zero_led ckey]. rewrite Dx, Dy.
    destruct (eqc a c_zero) eqn:Za, (eqc b c_zero) eqn:Zb; cbn [negb andb].
    + (* both zero-led *) rewrite ckcmp_00. reflexivity.
    + (* x zero-led, y not: x first *)
      rewrite ckcmp_01.
      pose proof (rstrip0_zero_led a r Za) as R1. destruct (rstrip0_nonzero_led b s Zb) as [t R2]. rewrite R2.
      cbn [all_digits forallb] in Dy. apply andb_true_iff in Dy. destruct Dy as [Db _].
      destruct (rstrip0 (a :: r)) as [|z zs]; [reflexivity|]. subst z. unfold cmp_str. cbn [cmp_lex].
      rewrite (digit_gt_zero b Db Zb). reflexivity.
    + rewrite ckcmp_10.
      pose proof (rstrip0_zero_led b s Zb) as R1. destruct (rstrip0_nonzero_led a r Za) as [t R2]. rewrite R2.
      cbn [all_digits forallb] in Dx. apply andb_true_iff in Dx. destruct Dx as [Da _].
      destruct (rstrip0 (b :: s)) as [|z zs]; [reflexivity|]. subst z. unfold cmp_str. cbn [cmp_lex].
      pose proof (digit_gt_zero a Da Za) as G. unfold cmp_char in *. rewrite N.compare_antisym, G. reflexivity.
    + rewrite ckcmp_11. reflexivity.
Qed.

Theorem comps_rest_key : forall l1 l2, forallb digits_ne l1 = true -> forallb digits_ne l2 = true ->
  comps_rest l1 l2 = Ok (cmp_lex ckcmp (map ckey l1) (map ckey l2)).
Proof.
  induction l1 as [|x r1 IH]; intros [|y r2] H1 H2; try reflexivity.
  cbn [forallb] in H1, H2. apply andb_true_iff in H1, H2. destruct H1 as [Hx H1], H2 as [Hy H2].
  cbn [comps_rest map cmp_lex]. rewrite (comp_cmp_key x y Hx Hy).
  destruct (ckcmp (ckey x) (ckey y)); try reflexivity. apply IH; assumption.
Qed.

(* the first component is an integer whatever its leading zeros *)
Definition fkey (c : str) : N * (str * N) := (1%N, ([], int_of_digits c)).
Definition ckeys (l : list str) : list (N * (str * N)) := match l with x :: r => fkey x :: map ckey r | [] => [] end.
Lemma first_cmp_key x y : digits_ne x = true -> digits_ne y = true -> first_cmp x y = Ok (ckcmp (fkey x) (fkey y)).
Proof.
  intros Hx Hy. unfold first_cmp. destruct (eqs x y) eqn:E.
  - apply eqs_eq in E. subst. rewrite (tpo_refl _ tpo_ckcmp). reflexivity.
  - unfold digits_ne in Hx, Hy. unfold isdigit. rewrite Hx, Hy. cbn [andb]. unfold fkey. rewrite ckcmp_11. reflexivity.
Qed.
Theorem comps_cmp_key : forall l1 l2, forallb digits_ne l1 = true -> forallb digits_ne l2 = true ->
  comps_cmp l1 l2 = Ok (cmp_lex ckcmp (ckeys l1) (ckeys l2)).
Proof.
  intros [|x r1] [|y r2] H1 H2; try reflexivity.
  cbn [forallb] in H1, H2. apply andb_true_iff in H1, H2. destruct H1 as [Hx H1], H2 as [Hy H2].
  cbn [comps_cmp ckeys cmp_lex]. rewrite (first_cmp_key x y Hx Hy).
  destruct (ckcmp (fkey x) (fkey y)); try reflexivity. apply comps_rest_key; assumption.
Qed.

(* ---- the suffix loop ------------------------------------------------------------------ *)
Definition suffix_ok (p : str) : bool :=
  match suffix_key p with Ok (v, _) => negb (Z.eqb v 0) | Err _ => false end.
Definition skey (p : str) : Z * N := match suffix_key p with Ok k => k | Err _ => (0%Z, 0%N) end.

Theorem suffixes_cmp_key : forall l1 l2, forallb suffix_ok l1 = true -> forallb suffix_ok l2 = true ->
  suffixes_cmp l1 l2 = Ok (cmp_pad skcmp (0%Z, 0%N) (map skey l1) (map skey l2)).
Proof.
  induction l1 as [|x r1 IH]; intros [|y r2] H1 H2.
  - reflexivity.
  - cbn [forallb] in H2. apply andb_true_iff in H2. destruct H2 as [Hy _].
    cbn [suffixes_cmp map cmp_pad vs_pad_r]. unfold suffix_ok, skey in *.
    destruct (suffix_key y) as [[v n]|e]; [|discriminate]. rewrite Hy. unfold skcmp, cmp_pair. cbn [fst snd].
    apply negb_true_iff in Hy. apply Z.eqb_neq in Hy.
    destruct (Z.compare 0 v) eqn:E; try reflexivity. apply Z.compare_eq in E. congruence.
  - cbn [forallb] in H1. apply andb_true_iff in H1. destruct H1 as [Hx _].
    cbn [suffixes_cmp map cmp_pad vs_pad_l]. unfold suffix_ok, skey in *.
    destruct (suffix_key x) as [[v n]|e]; [|discriminate]. rewrite Hx. unfold skcmp, cmp_pair. cbn [fst snd].
    apply negb_true_iff in Hx. apply Z.eqb_neq in Hx.
    destruct (Z.compare v 0) eqn:E; try reflexivity. apply Z.compare_eq in E. congruence.
  - cbn [forallb] in H1, H2. apply andb_true_iff in H1, H2. destruct H1 as [Hx H1], H2 as [Hy H2].
    cbn [suffixes_cmp map cmp_pad].
    destruct (eqs x y) eqn:E.
    + apply eqs_eq in E. subst. rewrite (tpo_refl _ tpo_skcmp). apply IH; assumption.
    + unfold suffix_ok, skey in *.
      destruct (suffix_key x) as [[v1 n1]|e1]; [|discriminate]. destruct (suffix_key y) as [[v2 n2]|e2]; [|discriminate].
      unfold skcmp, cmp_pair. cbn [fst snd].
      destruct (Z.compare v1 v2); try reflexivity. destruct (N.compare n1 n2); try reflexivity. apply IH; assumption.
Qed.

(* ---- the whole comparison ---------------------------------------------------------------- *)
Definition g_dotted (s : str) : str := hd [] (split_c c_us (fst (parse_version_and_revision s))).
Definition g_suffixes (s : str) : list str := tl (split_c c_us (fst (parse_version_and_revision s))).
Definition g_rev (s : str) : N := snd (parse_version_and_revision s).
Definition g_comps (s : str) : list str * option ascii :=
  match split_letter (split_c c_dotg (g_dotted s)) with Ok p => p | Err _ => ([], None) end.

(* the shape every accepted version has: dotted digit groups, known suffixes *)
Definition gok (s : str) : bool :=
  negb (is_empty s)
  && match split_letter (split_c c_dotg (g_dotted s)) with Ok (comps, _) => forallb digits_ne comps | Err _ => false end
  && forallb suffix_ok (g_suffixes s).

Definition gkey (s : str) : gkeyT :=
  (ckeys (fst (g_comps s)), (snd (g_comps s), (map skey (g_suffixes s), g_rev s))).

Lemma gkcmp_unfold c1 l1 s1 r1 c2 l2 s2 r2 :
  gkcmp (c1, (l1, (s1, r1))) (c2, (l2, (s2, r2))) =
    match cmp_lex ckcmp c1 c2 with
    | Eq => match ocmp l1 l2 with
            | Eq => match cmp_pad skcmp (0%Z, 0%N) s1 s2 with
                    | Eq => N.compare r1 r2
                    | o => o end
            | o => o end
    | o => o end.
Proof. reflexivity. Qed.

Theorem vercmp_key s1 s2 : gok s1 = true -> gok s2 = true -> vercmp s1 s2 = Ok (gkcmp (gkey s1) (gkey s2)).
Proof.
  intros H1 H2. unfold gok in H1, H2.
  apply andb_true_iff in H1. destruct H1 as [H1 S1]. apply andb_true_iff in H1. destruct H1 as [N1 C1].
  apply andb_true_iff in H2. destruct H2 as [H2 S2]. apply andb_true_iff in H2. destruct H2 as [N2 C2].
  unfold vercmp. destruct s1 as [|a1 t1]; [discriminate|]. destruct s2 as [|a2 t2]; [discriminate|].
  set (s1 := a1 :: t1) in *. set (s2 := a2 :: t2) in *.
  unfold gkey, g_comps, g_rev, g_suffixes, g_dotted in *.
  destruct (parse_version_and_revision s1) as [ver1 rev1] eqn:P1.
  destruct (parse_version_and_revision s2) as [ver2 rev2] eqn:P2.
  cbn [fst snd] in *.
  destruct (split_letter (split_c c_dotg (hd [] (split_c c_us ver1)))) as [[comps1 let1]|e1] eqn:L1; [|discriminate].
  destruct (split_letter (split_c c_dotg (hd [] (split_c c_us ver2)))) as [[comps2 let2]|e2] eqn:L2; [|discriminate].
  cbn [fst snd]. rewrite gkcmp_unfold.
  destruct (eqs ver1 ver2) eqn:Ev.
  - (* same version text: the revisions decide *)
    apply eqs_eq in Ev. subst ver2. rewrite L1 in L2. inversion L2; subst.
    rewrite (tpo_refl _ (tpo_lex ckcmp tpo_ckcmp)). unfold ocmp. rewrite (tpo_refl _ tpo_ocmp).
    rewrite (tpo_refl _ (tpo_pad skcmp tpo_skcmp (0%Z, 0%N))). reflexivity.
  - assert (SF : suffixes_cmp (tl (split_c c_us ver1)) (tl (split_c c_us ver2))
                 = Ok (cmp_pad skcmp (0%Z, 0%N) (map skey (tl (split_c c_us ver1))) (map skey (tl (split_c c_us ver2)))))
      by (apply suffixes_cmp_key; assumption).
    destruct (eqs (hd [] (split_c c_us ver1)) (hd [] (split_c c_us ver2))) eqn:Ed; cbn [negb].
    + (* same dotted text: skip to the suffixes *)
      apply eqs_eq in Ed. rewrite Ed in L1. rewrite L1 in L2. inversion L2; subst.
      rewrite (tpo_refl _ (tpo_lex ckcmp tpo_ckcmp)). unfold ocmp. rewrite (tpo_refl _ tpo_ocmp).
      rewrite SF. destruct (cmp_pad skcmp (0%Z, 0%N) _ _); reflexivity.
    + rewrite (comps_cmp_key comps1 comps2 C1 C2).
      destruct (cmp_lex ckcmp (ckeys comps1) (ckeys comps2)); try reflexivity.
      unfold ocmp. destruct (letter_cmp let1 let2); try reflexivity.
      rewrite SF. destruct (cmp_pad skcmp (0%Z, 0%N) _ _); reflexivity.
Qed.

(* the Gentoo order is a total preorder on accepted versions; the operators are the ones of that order *)
Definition gentoo_cmp (a b : str) : comparison := gkcmp (gkey a) (gkey b).
Theorem gentoo_tpo : TPO gentoo_cmp.
Proof. apply (tpo_of_key gkcmp gkey gentoo_cmp tpo_gkcmp). reflexivity. Qed.

Theorem gentoo_ops_spec a b : gok a = true -> gok b = true -> gentoo_ops a b = Ok (ops_of (gentoo_cmp a b)).
Proof. intros Ha Hb. unfold gentoo_ops. rewrite (vercmp_key a b Ha Hb). reflexivity. Qed.
