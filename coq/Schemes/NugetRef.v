(* C03 for nuget: on the values the constructor builds (labels lowercased), the order of NugetOrder is the comparison of
   NuGet.Versioning (Ref/Nuget.v): four numbers, a release after its pre-releases, labels pairwise with numeric labels
   first and the others compared without regard to case. *)
From Coq Require Import List Bool Arith Ascii String NArith Lia.
From UV.Base Require Import Order Res.
From UV.Py Require Import PyStr.
From UV.Schemes Require Import Common Generic Gentoo Numerals Nuget NugetConanProofs NugetOrder.
From UV.Ref Require Deb.
From UV.Ref Require Nuget.
Import ListNotations.
Local Open Scope list_scope.

Definition low_char (c : ascii) : bool := is_lower c || is_digit c || eqc c "-"%char.
Definition low_labels (v : nugetv) : bool :=
  match nu_pre v with Some p => forallb (forallb low_char) (split_c c_dot p) | None => true end.

Definition ref_of (v : nugetv) : UV.Ref.Nuget.nugetv :=
  {| UV.Ref.Nuget.n_nums := [nu_major v; nu_minor v; nu_patch v; nu_rev v];
     UV.Ref.Nuget.n_labels := match nonempty_opt (nu_pre v) with [] => [] | p => split_c c_dot p end |}.
Definition ref_value_cmp (a b : UV.Ref.Nuget.nugetv) : comparison :=
  match UV.Ref.Nuget.nums_cmp (UV.Ref.Nuget.n_nums a) (UV.Ref.Nuget.n_nums b) with
  | Eq => UV.Ref.Nuget.release_cmp (UV.Ref.Nuget.n_labels a) (UV.Ref.Nuget.n_labels b)
  | o => o end.

Lemma upper_monotone x y : low_char x = true -> low_char y = true ->
  cmp_char (UV.Ref.Nuget.upper_c x) (UV.Ref.Nuget.upper_c y) = cmp_char x y.
Proof.
  intros Hx Hy.
  assert (T : forallb (fun a => forallb (fun b => negb (low_char a && low_char b) ||
      match cmp_char (UV.Ref.Nuget.upper_c a) (UV.Ref.Nuget.upper_c b), cmp_char a b with Eq, Eq | Lt, Lt | Gt, Gt => true | _, _ => false end)
      UV.Ref.Deb.all_chars) UV.Ref.Deb.all_chars = true) by (vm_compute; reflexivity).
  rewrite forallb_forall in T. specialize (T x (UV.Ref.Deb.all_chars_complete x)).
  rewrite forallb_forall in T. specialize (T y (UV.Ref.Deb.all_chars_complete y)).
  rewrite Hx, Hy in T. cbn [andb negb orb] in T.
  destruct (cmp_char (UV.Ref.Nuget.upper_c x) (UV.Ref.Nuget.upper_c y)), (cmp_char x y); try discriminate; reflexivity.
Qed.
Lemma upper_str : forall a b, forallb low_char a = true -> forallb low_char b = true ->
  cmp_str (map UV.Ref.Nuget.upper_c a) (map UV.Ref.Nuget.upper_c b) = cmp_str a b.
Proof.
  unfold cmp_str. induction a as [|x r IH]; intros [|y s] Ha Hb; try reflexivity.
  cbn [forallb] in Ha, Hb. apply andb_true_iff in Ha, Hb. destruct Ha as [Hx Hr], Hb as [Hy Hs].
  cbn [map cmp_lex]. rewrite (upper_monotone x y Hx Hy), (IH s Hr Hs). reflexivity.
Qed.
Lemma label_cmp_tag a b : forallb low_char a = true -> forallb low_char b = true -> UV.Ref.Nuget.label_cmp a b = tag_cmp a b.
Proof. intros Ha Hb. unfold UV.Ref.Nuget.label_cmp, tag_cmp. destruct (isdigit a), (isdigit b); try reflexivity. apply upper_str; assumption. Qed.
Lemma labels_cmp_lex : forall l1 l2, forallb (forallb low_char) l1 = true -> forallb (forallb low_char) l2 = true ->
  UV.Ref.Nuget.labels_cmp l1 l2 = cmp_lex tag_cmp l1 l2.
Proof.
  induction l1 as [|x r IH]; intros [|y s] H1 H2; try reflexivity.
  cbn [forallb] in H1, H2. apply andb_true_iff in H1, H2. destruct H1 as [Hx Hr], H2 as [Hy Hs].
  cbn [UV.Ref.Nuget.labels_cmp cmp_lex]. rewrite (label_cmp_tag x y Hx Hy), (IH s Hr Hs). reflexivity.
Qed.
Lemma split_nonempty c s : split_c c s <> [].
Proof. intro E. assert (L := f_equal (@List.length _) E). pose proof (join_split s) as J. unfold c_dot in J. clear J.
  revert E. clear L. induction s as [|x r IH]; cbn; [discriminate|]. destruct (eqc x c); [discriminate|]. destruct (split_c c r); [intros _; apply IH; reflexivity|discriminate]. Qed.

Local Opaque split_c.
Theorem nuget_matches_reference a b : low_labels a = true -> low_labels b = true ->
  nuget_order a b = ref_value_cmp (ref_of a) (ref_of b).
Proof.
  intros La Lb. unfold nuget_order, nuget_kcmp, nuget_key, ref_value_cmp, ref_of, cmp_pair. cbn [fst snd UV.Ref.Nuget.n_nums UV.Ref.Nuget.n_labels UV.Ref.Nuget.nums_cmp].
  destruct (N.compare (nu_major a) (nu_major b)); try reflexivity.
  destruct (N.compare (nu_minor a) (nu_minor b)); try reflexivity.
  destruct (N.compare (nu_patch a) (nu_patch b)); try reflexivity.
  destruct (N.compare (nu_rev a) (nu_rev b)); try reflexivity.
  unfold label_cmp, label_key, cmp_pair, low_labels in *.
  destruct (nu_pre a) as [pa|], (nu_pre b) as [pb|]; cbn [nonempty_opt] in *.
  - destruct pa as [|ca ra], pb as [|cb rb]; cbn [fst snd].
    + reflexivity.
    + cbn. destruct (split_c c_dot (cb :: rb)) eqn:E; [exfalso; exact (split_nonempty _ _ E)|reflexivity].
    + cbn. destruct (split_c c_dot (ca :: ra)) eqn:E; [exfalso; exact (split_nonempty _ _ E)|reflexivity].
    + change (cmp_bool false false) with Eq. cbn iota. rewrite <- (labels_cmp_lex _ _ La Lb).
      destruct (split_c c_dot (ca :: ra)) eqn:E1; [exfalso; exact (split_nonempty _ _ E1)|].
      destruct (split_c c_dot (cb :: rb)) eqn:E2; [exfalso; exact (split_nonempty _ _ E2)|]. reflexivity.
  - destruct pa as [|ca ra]; cbn [fst snd]; [reflexivity|]. cbn. destruct (split_c c_dot (ca :: ra)) eqn:E; [exfalso; exact (split_nonempty _ _ E)|reflexivity].
  - destruct pb as [|cb rb]; cbn [fst snd]; [reflexivity|]. cbn. destruct (split_c c_dot (cb :: rb)) eqn:E; [exfalso; exact (split_nonempty _ _ E)|reflexivity].
  - reflexivity.
Qed.

(* ---- the constructor lowercases the labels, which the grammar restricts to letters, digits and "-" -------------- *)
Lemma lower_id_char c : id_char c = true -> low_char (lower_c c) = true.
Proof.
  assert (T : forallb (fun c => negb (id_char c) || low_char (lower_c c)) UV.Ref.Deb.all_chars = true) by (vm_compute; reflexivity).
  rewrite forallb_forall in T. specialize (T c (UV.Ref.Deb.all_chars_complete c)). intros H. rewrite H in T. exact T.
Qed.
Lemma low_lower t : pre_id_ok t = true -> forallb low_char (lower t) = true.
Proof.
  unfold pre_id_ok. intros H. apply andb_true_iff in H. destruct H as [H _]. apply andb_true_iff in H. destruct H as [_ H].
  induction t as [|c r IH]; [reflexivity|]. cbn [forallb] in H. apply andb_true_iff in H. destruct H as [Hc Hr].
  cbn [lower map forallb]. rewrite (lower_id_char c Hc). fold (lower r). rewrite (IH Hr). reflexivity.
Qed.
Local Transparent split_c.
Lemma parse_tail_low rest pre build : parse_tail rest = Some (Some pre, build) ->
  forallb (forallb low_char) (split_c c_dot (lower pre)) = true.
Proof.
  unfold parse_tail. destruct rest as [|c r]; [discriminate|]. destruct (eqc c "-"%char).
  - destruct (partition_c "+"%char r) as [[p hb] b] eqn:P.
    destruct (forallb pre_id_ok (split_c "."%char p) && (negb hb || forallb build_id_ok (split_c "."%char b))) eqn:F; [|discriminate].
    intros H. inversion H; subst. apply andb_true_iff in F. destruct F as [F _].
    rewrite split_lower. rewrite forallb_forall in *. intros t Ht. apply in_map_iff in Ht. destruct Ht as [u [<- Hu]].
    apply low_lower. apply F. exact Hu.
  - destruct (eqc c "+"%char); [|discriminate]. destruct (forallb build_id_ok (split_c "."%char r)); discriminate.
Qed.
Theorem nuget_parsed_low s v : nuget_from_string s = Ok (Some v) -> low_labels v = true.
Proof.
  unfold nuget_from_string. destruct (is_empty s); [discriminate|]. destruct (negb (existsb is_digit s)); [discriminate|].
  match goal with |- context [take_while is_digit ?t] => destruct (take_while is_digit t); [discriminate|] end.
  repeat match goal with |- context [dot_digits ?x] => destruct (dot_digits x) as [[? ?]|] end;
    match goal with |- context [parse_tail ?x] => destruct (parse_tail x) as [[[p|] bld]|] eqn:PT; try discriminate end;
    intros H; inversion H; subst; unfold low_labels; cbn [nu_pre]; try reflexivity; apply (parse_tail_low _ _ _ PT).
Qed.
Theorem nuget_ctor_low s v : nuget_ctor s = Ok v -> low_labels v = true.
Proof.
  unfold nuget_ctor. destruct (nuget_valid (normalize s)) as [[|]|e]; try discriminate.
  destruct (nuget_from_string (normalize s)) as [[w|]|e] eqn:E; try discriminate. intros H. inversion H; subst. apply (nuget_parsed_low _ _ E).
Qed.

(* the code's comparison, end to end, on constructed versions *)
Theorem nuget_code_matches_reference s1 s2 a b : nuget_ctor s1 = Ok a -> nuget_ctor s2 = Ok b ->
  nuget_cmp a b = ref_value_cmp (ref_of a) (ref_of b).
Proof.
  intros Ha Hb. rewrite (nuget_cmp_order a b (nuget_ctor_ok _ _ Ha) (nuget_ctor_ok _ _ Hb)).
  apply nuget_matches_reference; [apply (nuget_ctor_low _ _ Ha)|apply (nuget_ctor_low _ _ Hb)].
Qed.

(* the text-level reference of Ref/Nuget.v is this comparison after NuGetVersion.Parse *)
Lemma ref_nuget_value s1 s2 a b : UV.Ref.Nuget.nuget_parse s1 = Some a -> UV.Ref.Nuget.nuget_parse s2 = Some b ->
  UV.Ref.Nuget.ref_nuget s1 s2 = Some (ref_value_cmp a b).
Proof. intros Ha Hb. unfold UV.Ref.Nuget.ref_nuget. rewrite Ha, Hb. reflexivity. Qed.
