(* C11 for the dispatch class OpensslVersion, pre-3.0 half: a constructed version that wraps a legacy value prints to a
   text that constructs the same wrapped value again (whatever is_valid_new says about the printed text). *)
From Coq Require Import List Bool Arith Ascii String NArith Lia.
From UV.Base Require Import Order Res.
From UV.Py Require Import PyStr.
From UV.Schemes Require Import Common Generic LegacyOpenssl Semver Openssl TotalityProofs2 LegacyRoundTrip.
Import ListNotations.
Local Open Scope list_scope.

Theorem ossl_legacy_roundtrip s x : ossl_ctor s = Ok (OLeg x) -> ossl_ctor (ossl_str (OLeg x)) = Ok (OLeg x).
Proof.
  unfold ossl_ctor at 1. destruct (ossl_valid (normalize s)) as [[|]|e]; try discriminate.
  unfold ossl_build. destruct (leg_valid (normalize s)) as [[|]|e] eqn:Ev; try discriminate.
  - destruct (leg_ctor (normalize s)) as [v|e] eqn:Ec; [|discriminate]. intros H. assert (v = x) by congruence. subst v.
    pose proof (leg_ctor_roundtrip _ _ Ec) as R. cbn [ossl_str].
    unfold leg_ctor in R. destruct (leg_parse (normalize (leg_str x))) as [[w|]|e] eqn:Ep; try discriminate.
    assert (w = x) by congruence. subst w.
    unfold ossl_ctor, ossl_valid, leg_valid. rewrite Ep.
    assert (V : (if valid_new (normalize (leg_str x)) then Ok true else Ok true) = (Ok true : res bool)) by (destruct (valid_new _); reflexivity).
    rewrite V. unfold ossl_build, leg_valid. rewrite Ep. unfold leg_ctor. rewrite normalize_idem, Ep. reflexivity.
  - destruct (valid_new (normalize s)); [|discriminate]. destruct (semver_ctor (normalize s)); discriminate.
Qed.
