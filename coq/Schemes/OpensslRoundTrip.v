(* C11 for the dispatch class OpensslVersion, pre-3.0 half: a constructed version that wraps a legacy value prints to a
   text that constructs the same wrapped value again (whatever is_valid_new says about the printed text). *)
From Coq Require Import List Bool Arith Ascii String NArith Lia.
From UV.Base Require Import Order Res.
From UV.Py Require Import PyStr.
From UV.Schemes Require Import Common Generic LegacyOpenssl Semver Openssl TotalityProofs2 LegacyRoundTrip.
Import ListNotations.
Local Open Scope list_scope.

Theorem ossl_legacy_roundtrip s x : ossl_ctor s = Ok (OLeg x) -> ossl_ctor (ossl_str (OLeg x)) = Ok (OLeg x).
Proof.
  unfold ossl_ctor at 1. destruct (ossl_valid (normalize s)) as [[|]|e]; try discriminate.
  unfold ossl_build. destruct (leg_valid (normalize s)) as [[|]|e] eqn:Ev; try discriminate.
  - destruct (leg_ctor (normalize s)) as [v|e] eqn:Ec; [|discriminate]. intros H. assert (v = x) by congruence. subst v.
    pose proof (leg_ctor_roundtrip _ _ Ec) as R. cbn [ossl_str].
    unfold leg_ctor in R. destruct (leg_parse (normalize (leg_str x))) as [[w|]|e] eqn:Ep; try discriminate.
    assert (w = x) by congruence. subst w.
    unfold ossl_ctor, ossl_valid, leg_valid. rewrite Ep.
    assert (V : (if valid_new (normalize (leg_str x)) then Ok true else Ok true) = (Ok true : res bool)) by (destruct (valid_new _); reflexivity).
    rewrite V. unfold ossl_build, leg_valid. rewrite Ep. unfold leg_ctor. rewrite normalize_idem, Ep. reflexivity.
  - destruct (valid_new (normalize s)); [|discriminate]. destruct (semver_ctor (normalize s)); discriminate.
Qed.

(* ---- the 3.x half ------------------------------------------------------------------------------------------------ *)
From UV.Schemes Require Import NumeralsStr SemverRoundTrip.

(* a text that begins with a number and a dot and has a known base as a prefix begins with 0. or 1. *)
Lemma base_prefix_small A rest base : all_digits A = true -> A <> [] -> In base bases ->
  startswith (A ++ c_dot :: rest) base = true -> (int_of_digits A < 3)%N.
Proof.
  intros DA NA Hin H. destruct A as [|a [|a2 A']]; [congruence| |].
  - vm_compute in Hin. cbn [app] in H.
    repeat (destruct Hin as [<-|Hin];
            [cbn [startswith] in H; apply andb_true_iff in H as [H1 _]; apply eqc_eq in H1; subst a; vm_compute; reflexivity|]).
    destruct Hin.
  - exfalso. cbn [all_digits forallb] in DA. apply andb_true_iff in DA as [_ DA]. apply andb_true_iff in DA as [D2 _].
    vm_compute in Hin. cbn [app] in H.
    repeat (destruct Hin as [<-|Hin];
            [cbn [startswith] in H; apply andb_true_iff in H as [_ H]; apply andb_true_iff in H as [H2 _]; apply eqc_eq in H2; subst a2;
             vm_compute in D2; discriminate D2|]).
    destruct Hin.
Qed.

Lemma printed_not_legacy x : (3 <= sv_major x)%N -> leg_parse (semver_str x) = Ok None.
Proof.
  intros HM. unfold leg_parse. destruct (existsb (startswith (semver_str x)) bases) eqn:E; [|reflexivity]. exfalso.
  apply existsb_exists in E as (base & Hin & Hs). destruct (str_of_N_spec (sv_major x)) as (DA & NA & IA).
  unfold semver_str in Hs.
  pose proof (base_prefix_small _ _ _ DA NA Hin Hs) as K. rewrite IA in K. lia.
Qed.

Theorem ossl_semver_roundtrip s x : ossl_ctor s = Ok (OSem x) -> ossl_ctor (ossl_str (OSem x)) = Ok (OSem x).
Proof.
  unfold ossl_ctor at 1. destruct (ossl_valid (normalize s)) as [[|]|e]; try discriminate.
  unfold ossl_build. destruct (leg_valid (normalize s)) as [[|]|e]; try discriminate.
  - destruct (leg_ctor (normalize s)); discriminate.
  - destruct (valid_new (normalize s)) eqn:Ev; [|discriminate].
    destruct (semver_ctor (normalize s)) as [v|e] eqn:Ec; [|discriminate]. intros H. assert (v = x) by congruence. subst v.
    unfold semver_ctor in Ec. rewrite normalize_idem in Ec. unfold valid_new in Ev.
    destruct (coerce (normalize s)) as [w|e] eqn:Eco; [|discriminate]. assert (w = x) by congruence. subst w.
    apply N.leb_le in Ev. pose proof (coerce_wf _ _ Eco) as W.
    cbn [ossl_str]. unfold ossl_ctor. rewrite (printed_normal x W).
    assert (Vn : valid_new (semver_str x) = true).
    { unfold valid_new. rewrite (semver_print_parse x W). apply N.leb_le, Ev. }
    unfold ossl_valid. rewrite Vn. unfold ossl_build, leg_valid. rewrite (printed_not_legacy x Ev), Vn.
    unfold semver_ctor. rewrite (printed_normal x W), (semver_print_parse x W). reflexivity.
Qed.

Theorem ossl_ctor_roundtrip s v : ossl_ctor s = Ok v -> ossl_ctor (ossl_str v) = Ok v.
Proof. destruct v as [x|x]; [apply ossl_legacy_roundtrip|apply ossl_semver_roundtrip]. Qed.
