(* The alpm order of univers.arch: rpmvercmp() computes the padded lexicographic order of the part lists where, at one
   position,  letters (ASCII order)  <  end of the text  <  separators (by length)  <  numbers (by value).  Versions
   compare by epoch, then version, then pkgrel when both have one: on versions that all have, or all lack, a pkgrel
   this is a total preorder (the sub-domain C01 keeps).  Versions that compare equal have equal hash keys. *)
From Coq Require Import List Bool Arith Ascii String NArith Lia.
From UV.Base Require Import Order LexPad Res.
From UV.Py Require Import PyStr.
From UV.Schemes Require Import Common Generic Gentoo Arch.
Import ListNotations.
Local Open Scope list_scope.

Definition akeyT := (N * (N * str))%type.
Definition a_end : akeyT := (1%N, (0%N, [])).
Definition akey (p : ctype * str) : akeyT :=
  match fst p with
  | TAlpha => (0%N, (0%N, snd p))
  | TOther => (2%N, (N.of_nat (List.length (snd p)), []))
  | TDigit => (3%N, (int_of_digits (snd p), []))
  end.
Definition akcmp : akeyT -> akeyT -> comparison := cmp_pair N.compare (cmp_pair N.compare cmp_str).
Lemma tpo_akcmp : TPO akcmp.
Proof. repeat apply tpo_pair; auto using tpo_N, tpo_str. Qed.
Definition apad := cmp_pad akcmp a_end.

Lemma nat_N_compare a b : Nat.compare a b = N.compare (N.of_nat a) (N.of_nat b).
Proof. apply Nat2N.inj_compare. Qed.

Theorem parts_cmp_pad : forall l1 l2, parts_cmp l1 l2 = apad (map akey l1) (map akey l2).
Proof.
  unfold apad. induction l1 as [|[t1 p1] r1 IH]; intros [|[t2 p2] r2].
  - reflexivity.
  - destruct t2; reflexivity.
  - destruct t1; reflexivity.
  - cbn [parts_cmp map]. rewrite (IH r2). cbn [cmp_pad]. generalize (cmp_pad akcmp a_end (map akey r1) (map akey r2)). intros X.
    destruct t1, t2; cbn [ctype_eqb negb]; try reflexivity; unfold akey, akcmp, cmp_pair, part_cmp; cbn [fst snd].
    + change (N.compare 3 3) with Eq. cbn iota. destruct (N.compare (int_of_digits p1) (int_of_digits p2)); reflexivity.
    + change (N.compare 2 2) with Eq. cbn iota. rewrite nat_N_compare.
      destruct (N.compare (N.of_nat (List.length p1)) (N.of_nat (List.length p2))); reflexivity.
Qed.

Definition kparts (s : str) : list akeyT := map akey (parse_parts s).
Definition rel_keys (r : option str) : list akeyT := match r with Some x => kparts x | None => [] end.
Definition has_rel (v : str) : bool := match snd (split_evr v) with Some _ => true | None => false end.
Definition arch_key (v : str) : list akeyT * (list akeyT * list akeyT) :=
  let '(e, ver, rel) := split_evr v in (kparts e, (kparts ver, rel_keys rel)).
Definition arch_order (a b : str) : comparison := cmp_pair apad (cmp_pair apad apad) (arch_key a) (arch_key b).
Theorem arch_order_tpo : TPO arch_order.
Proof.
  apply (tpo_of_key (cmp_pair apad (cmp_pair apad apad)) arch_key arch_order); [|reflexivity].
  repeat apply tpo_pair; apply (tpo_pad akcmp tpo_akcmp a_end).
Qed.

(* within one pkgrel class the comparison of the code is that order *)
Theorem arch_cmp_order a b : has_rel a = has_rel b -> arch_cmp a b = arch_order a b.
Proof.
  unfold has_rel, arch_cmp, arch_order, arch_key, cmp_pair, rpmvercmp_a.
  destruct (split_evr a) as [[e1 v1] r1]. destruct (split_evr b) as [[e2 v2] r2]. cbn [fst snd]. intros H.
  rewrite !parts_cmp_pad. fold (kparts e1) (kparts e2) (kparts v1) (kparts v2).
  destruct (apad (kparts e1) (kparts e2)); try reflexivity. destruct (apad (kparts v1) (kparts v2)); try reflexivity.
  destruct r1, r2; try discriminate; cbn [rel_keys]; [apply parts_cmp_pad|reflexivity].
Qed.

Theorem arch_ops_spec a b : arch_ops a b = ops_of (arch_cmp a b) /\ ops_agree (arch_ops a b) = true.
Proof. split; [reflexivity|apply ops_of_agree]. Qed.

(* ---- equal versions have equal hash keys -------------------------------------------------------------------- *)
Definition real_part (k : akeyT) : bool := negb (N.eqb (fst k) 1).
Lemma akey_real p : real_part (akey p) = true.
Proof. destruct p as [[] s]; reflexivity. Qed.
Lemma akcmp_eq x y : akcmp x y = Eq -> x = y.
Proof.
  destruct x as [r1 [n1 s1]], y as [r2 [n2 s2]]. unfold akcmp, cmp_pair. cbn [fst snd].
  destruct (N.compare r1 r2) eqn:E1; try discriminate. destruct (N.compare n1 n2) eqn:E2; try discriminate. intros E3.
  apply N.compare_eq in E1, E2. apply cmp_str_eq in E3. subst. reflexivity.
Qed.
Lemma apad_eq : forall l1 l2, forallb real_part l1 = true -> forallb real_part l2 = true -> apad l1 l2 = Eq -> l1 = l2.
Proof.
  unfold apad. induction l1 as [|x r1 IH]; intros l2 R1 R2 H.
  - destruct l2 as [|y r2]; [reflexivity|]. cbn in H. cbn [forallb] in R2. apply andb_true_iff in R2. destruct R2 as [Ry _].
    destruct (akcmp a_end y) eqn:E; try discriminate. apply akcmp_eq in E. subst y. discriminate.
  - cbn [forallb] in R1. apply andb_true_iff in R1. destruct R1 as [Rx R1]. destruct l2 as [|y r2].
    + cbn in H. destruct (akcmp x a_end) eqn:E; try discriminate. apply akcmp_eq in E. subst x. discriminate.
    + cbn [forallb] in R2. apply andb_true_iff in R2. destruct R2 as [Ry R2]. cbn in H.
      destruct (akcmp x y) eqn:E; try discriminate. apply akcmp_eq in E. subst y. f_equal. apply IH; assumption.
Qed.
Lemma kparts_real s : forallb real_part (kparts s) = true.
Proof. unfold kparts. induction (parse_parts s) as [|p r IH]; [reflexivity|]. cbn. rewrite akey_real. exact IH. Qed.

(* the hashed key of a part is determined by its order key *)
Lemma akey_part_key p q : akey p = akey q -> part_key p = part_key q.
Proof.
  destruct p as [t1 s1], q as [t2 s2]. unfold akey, part_key. cbn [fst snd].
  destruct t1, t2; intros H; inversion H; try reflexivity; congruence.
Qed.
Lemma map_akey_part_key : forall l1 l2, map akey l1 = map akey l2 -> map part_key l1 = map part_key l2.
Proof.
  induction l1 as [|p r IH]; intros [|q s] H; cbn in H; try discriminate; [reflexivity|].
  inversion H. cbn. rewrite (akey_part_key p q), (IH s); auto.
Qed.
Lemma key_list_refl : forall l, list_eqb key_eqb l l = true.
Proof.
  induction l as [|x r IH]; [reflexivity|]. cbn. rewrite IH, andb_true_r. unfold key_eqb. rewrite !N.eqb_refl. cbn. apply eqs_eq. reflexivity.
Qed.

Theorem arch_eq_hash a b : arch_cmp a b = Eq -> arch_hasheq a b = true.
Proof.
  unfold arch_cmp, arch_hasheq, arch_hash_key, rpmvercmp_a.
  destruct (split_evr a) as [[e1 v1] r1]. destruct (split_evr b) as [[e2 v2] r2]. cbn [fst snd].
  rewrite !parts_cmp_pad. fold (kparts e1) (kparts e2) (kparts v1) (kparts v2).
  destruct (apad (kparts e1) (kparts e2)) eqn:E; try discriminate.
  destruct (apad (kparts v1) (kparts v2)) eqn:Vv; try discriminate. intros _.
  apply apad_eq in E; [|apply kparts_real|apply kparts_real]. apply apad_eq in Vv; [|apply kparts_real|apply kparts_real].
  unfold kparts in E, Vv. rewrite (map_akey_part_key _ _ E), (map_akey_part_key _ _ Vv), !key_list_refl. reflexivity.
Qed.
