(* C16 for the whole model registry: the constructor of every registered class (all 18 names) returns a version or
   fails with the invalid-version error, whatever the text. *)
From Coq Require Import List Bool Arith Ascii String NArith Lia.
From UV.Base Require Import Order Res.
From UV.Py Require Import PyStr.
From UV.Schemes Require Import Common Generic LegacyOpenssl Gentoo Debian Semver Rpm Gem Arch Openssl Pypi Maven Nuget Conan
  TotalityProofs TotalityProofs2 NugetConanProofs Registry.
Import ListNotations.
Local Open Scope list_scope.

Lemma golang_ctor_declared s e : golang_ctor s = Err e -> e = EInvalidVersion.
Proof. unfold golang_ctor. destruct (coerce (lstrip_set vV (normalize s))); [discriminate|]. intros H. congruence. Qed.

Theorem registry_ctor_declared :
  Forall (fun p => forall s e, v_ctor (snd p) s = Err e -> e = EInvalidVersion) schemes.
Proof.
  unfold schemes.
  repeat (apply Forall_cons;
          [cbn [snd v_ctor sch_generic sch_legacy sch_gentoo sch_alpine sch_deb sch_semver sch_golang sch_rpm sch_gem sch_arch
                sch_openssl sch_pypi sch_maven sch_nuget sch_conan];
           first [exact gen_ctor_declared | exact leg_ctor_declared | exact gentoo_ctor_declared | exact alpine_ctor_declared
                 | exact deb_ctor_declared | exact semver_ctor_declared | exact golang_ctor_declared | exact rpm_ctor_declared
                 | exact gem_ctor_declared | exact arch_ctor_declared | exact ossl_ctor_declared | exact pypi_ctor_declared
                 | exact nuget_ctor_declared
                 | (intros s e H; destruct (maven_ctor_total s) as [v Hv]; congruence)
                 | (intros s e H; destruct (conan_ctor_total s) as [v Hv]; congruence)]|]).
  apply Forall_nil.
Qed.

Theorem every_registered_ctor_declared name sch s e : find_scheme name = Some sch -> v_ctor sch s = Err e -> e = EInvalidVersion.
Proof.
  unfold find_scheme. destruct (find (fun p => String.eqb (fst p) name) schemes) as [p|] eqn:E; [|discriminate].
  intros H. injection H as <-. apply find_some in E as [Hin _].
  pose proof registry_ctor_declared as F. rewrite Forall_forall in F. exact (F p Hin s e).
Qed.
