(* OpensslVersion: code-shaped model of versions.OpensslVersion: a LegacyOpensslVersion (before 3.0) or a SemverVersion
   (from 3.0 on) behind one class; validity, the choice made by build_value, printing, the six operators with their
   cross-type answers ("by construction legacy version is always behind Semver"), the hash of the wrapped value. *)
From Coq Require Import List Bool Arith Ascii String NArith Lia.
From UV.Base Require Import Order Res.
From UV.Py Require Import PyStr.
From UV.Schemes Require Import Common Generic LegacyOpenssl Semver SemverProofs.
Import ListNotations.
Local Open Scope list_scope.

Inductive osslv := OLeg (v : legacy) | OSem (v : semver).

(* is_valid_new: SemverVersion.is_valid(string) and coerce(string).major >= 3 *)
Definition valid_new (n : str) : bool :=
  match coerce n with Ok v => N.leb 3 (sv_major v) | Err _ => false end.
(* is_valid: is_valid_new(string) or is_valid_legacy(string) *)
Definition ossl_valid (n : str) : res bool := if valid_new n then Ok true else leg_valid n.

(* build_value: legacy first, then 3.x *)
Definition ossl_build (n : str) : res osslv :=
  match leg_valid n with
  | Err e => Err e
  | Ok true => match leg_ctor n with Ok v => Ok (OLeg v) | Err e => Err e end
  | Ok false => if valid_new n then match semver_ctor n with Ok v => Ok (OSem v) | Err e => Err e end
                else Err EAttr       (* build_value returns None: the value is then None; unreachable after is_valid *)
  end.
Definition ossl_ctor (s : str) : res osslv :=
  let n := normalize s in
  match ossl_valid n with
  | Ok true => ossl_build n
  | Ok false => Err EInvalidVersion
  | Err e => Err e
  end.
Definition ossl_str (v : osslv) : str := match v with OLeg x => leg_str x | OSem x => semver_str x end.

Definition ossl_ops (a b : osslv) : ops :=
  match a, b with
  | OLeg x, OLeg y => leg_ops x y
  | OSem x, OSem y => semver_ops x y
  | OLeg _, OSem _ => {| o_eq := false; o_ne := true; o_lt := true; o_le := true; o_gt := false; o_ge := false |}
  | OSem _, OLeg _ => {| o_eq := false; o_ne := true; o_lt := false; o_le := false; o_gt := true; o_ge := true |}
  end.
Definition leg_hasheqb (a b : legacy) : bool :=
  N.eqb (l_major a) (l_major b) && N.eqb (l_minor a) (l_minor b) && N.eqb (l_build a) (l_build b) && eqs (l_patch a) (l_patch b).
Definition ossl_hasheq (a b : osslv) : bool :=
  match a, b with OLeg x, OLeg y => leg_hasheqb x y | OSem x, OSem y => semver_hasheq x y | _, _ => false end.

(* the order: every pre-3.0 version before every 3.x version *)
Definition ossl_cmp (a b : osslv) : comparison :=
  match a, b with
  | OLeg x, OLeg y => leg_cmp x y
  | OSem x, OSem y => semver_cmp x y
  | OLeg _, OSem _ => Lt
  | OSem _, OLeg _ => Gt
  end.
Definition ossl_ok (v : osslv) : bool := match v with OLeg _ => true | OSem x => sv_ok x end.

Theorem ossl_tpo : TPO ossl_cmp.
Proof.
  pose proof leg_tpo as TL. pose proof semver_tpo as TS. constructor.
  - intros [x|x]; cbn; [apply (tpo_refl _ TL)|apply (tpo_refl _ TS)].
  - intros [x|x] [y|y]; cbn; try reflexivity; [apply (tpo_sym _ TL)|apply (tpo_sym _ TS)].
  - intros [x|x] [y|y] [z|z]; cbn; try discriminate; auto; [apply (tpo_lt _ TL)|apply (tpo_lt _ TS)].
  - intros [x|x] [y|y] [z|z]; cbn; try discriminate; auto; [apply (tpo_eq_l _ TL)|apply (tpo_eq_l _ TS)].
Qed.

Theorem ossl_ops_spec a b : ossl_ok a = true -> ossl_ok b = true -> ossl_ops a b = ops_of (ossl_cmp a b).
Proof.
  destruct a as [x|x], b as [y|y]; cbn; intros Ha Hb; try reflexivity; [apply leg_ops_spec|apply semver_ops_spec; assumption].
Qed.

Theorem ossl_eq_hash a b : ossl_ok a = true -> ossl_ok b = true -> o_eq (ossl_ops a b) = true -> ossl_hasheq a b = true.
Proof.
  destruct a as [x|x], b as [y|y]; cbn; intros Ha Hb H; try discriminate.
  - pose proof (leg_eq_hash x y H) as K. unfold leg_hashkey in K. inversion K as [[E1 E2 E3 E4]]. unfold leg_hasheqb.
    rewrite E1, E2, E3, E4, !N.eqb_refl. cbn. apply eqs_eq. reflexivity.
  - apply semver_eq_hash. exact H.
Qed.

(* C03 for the dispatch: a pre-3.0 version is before a 3.x version, whatever they are *)
Theorem legacy_before_3x x y : ossl_cmp (OLeg x) (OSem y) = Lt /\ ossl_cmp (OSem y) (OLeg x) = Gt.
Proof. split; reflexivity. Qed.
