(* Version / GenericVersion: the value is the normalized string, compared as Python compares str. *)
From Coq Require Import List Bool Arith Ascii String NArith.
From UV.Base Require Import Order Res.
From UV.Py Require Import PyStr.
From UV.Schemes Require Import Common.
Import ListNotations.
Local Open Scope list_scope.

Definition vV : str := list_ascii_of_string "vV".
(* Version.normalize: remove_spaces(string).lstrip("vV") *)
Definition normalize (s : str) : str := lstrip_set vV (remove_spaces s).

Definition gen_valid (n : str) : bool := negb (is_empty n).
Definition gen_ctor (s : str) : res str :=
  let n := normalize s in if gen_valid n then Ok n else Err EInvalidVersion.
Definition gen_str (v : str) : str := v.
Definition gen_cmp : str -> str -> comparison := cmp_str.
Definition gen_ops (a b : str) : ops := ops_of (gen_cmp a b).   (* attrs order=True on the value *)
Definition gen_hashkey (v : str) : str := v.

Theorem gen_tpo : TPO gen_cmp.
Proof. exact tpo_str. Qed.
Theorem gen_eq_hash a b : o_eq (gen_ops a b) = true -> gen_hashkey a = gen_hashkey b.
Proof. unfold gen_ops, gen_hashkey. destruct (gen_cmp a b) eqn:E; cbn; try discriminate. intros _. apply cmp_str_eq. exact E. Qed.

(* the text of a version re-constructs to itself when it has no whitespace and no leading v/V *)
Lemma lstrip_idem cs s : lstrip_set cs (lstrip_set cs s) = lstrip_set cs s.
Proof.
  induction s as [|c r IH]; [reflexivity|]. cbn [lstrip_set]. destruct (mem_c c cs) eqn:E; [exact IH|].
  cbn [lstrip_set]. rewrite E. reflexivity.
Qed.
Lemma lstrip_subset (P : ascii -> bool) cs s : forallb P s = true -> forallb P (lstrip_set cs s) = true.
Proof.
  induction s as [|c r IH]; [reflexivity|]. cbn [forallb lstrip_set]. intros H. apply andb_true_iff in H. destruct H as [H1 H2].
  destruct (mem_c c cs); [apply IH; exact H2|]. cbn [forallb]. rewrite H1, H2. reflexivity.
Qed.

Theorem gen_roundtrip s v : gen_ctor s = Ok v -> gen_ctor (gen_str v) = Ok v.
Proof.
  unfold gen_ctor, gen_str, normalize. destruct (gen_valid (lstrip_set vV (remove_spaces s))) eqn:E; [|discriminate].
  intros H. inversion H; subst. clear H.
  assert (Hns : remove_spaces (lstrip_set vV (remove_spaces s)) = lstrip_set vV (remove_spaces s)).
  { apply remove_spaces_none. apply lstrip_subset. apply remove_spaces_clean. }
  rewrite Hns, lstrip_idem, E. reflexivity.
Qed.

(* constructing succeeds exactly when the validity check on the normalized text says so *)
Theorem gen_valid_iff_ctor s : gen_valid (normalize s) = true <-> exists v, gen_ctor s = Ok v.
Proof.
  unfold gen_ctor. destruct (gen_valid (normalize s)); split; intros H; eauto; try discriminate. destruct H; discriminate.
Qed.
Theorem gen_ctor_error s e : gen_ctor s = Err e -> e = EInvalidVersion.
Proof. unfold gen_ctor. destruct (gen_valid (normalize s)); [discriminate|]. intros H. inversion H. reflexivity. Qed.
