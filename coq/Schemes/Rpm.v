(* RpmVersion: code-shaped model of univers.rpm (from_evr, RpmVersion.to_string, compare_rpm_versions,
   Vercmp.compare, Vercmp.segments) and of versions.RpmVersion (is_valid, the attrs operators). *)
From Coq Require Import List Bool Arith Ascii String NArith ZArith Lia.
From UV.Base Require Import Order Res.
From UV.Py Require Import PyStr.
From UV.Schemes Require Import Common Generic Gentoo.
Import ListNotations.
Local Open Scope list_scope.

Record rpmv := { r_epoch : Z; r_version : str; r_release : str }.

Definition c_colon : ascii := ":"%char.
Definition c_dash : ascii := "-"%char.
Definition c_tilde : ascii := "~"%char.
Definition c_caret : ascii := "^"%char.
Definition c_usc : ascii := "_"%char.

(* int(text) on ASCII text without whitespace: an optional sign, digits, single underscores between digits *)
Fixpoint int_body (acc : N) (prev_digit : bool) (s : str) : option N :=
  match s with
  | [] => if prev_digit then Some acc else None
  | c :: r =>
      if is_digit c then int_body (acc * 10 + digit_val c)%N true r
      else if eqc c c_usc && prev_digit then
        match r with d :: _ => if is_digit d then int_body acc false r else None | [] => None end
      else None
  end.
Definition py_int (s : str) : option Z :=
  match s with
  | c :: r =>
      if eqc c "-"%char then match int_body 0 false r with Some n => Some (- Z.of_N n)%Z | None => None end
      else if eqc c "+"%char then match int_body 0 false r with Some n => Some (Z.of_N n) | None => None end
      else match int_body 0 false s with Some n => Some (Z.of_N n) | None => None end
  | [] => None
  end.

(* from_evr *)
Definition from_evr (s : str) : res rpmv :=
  let '(e, vr) := if mem_c c_colon s then (let '(e, _, vr) := partition_c c_colon s in (e, vr)) else (["0"%char], s) in
  match py_int e with
  | None => Err EValue
  | Some ep =>
      let '(v, r) := if mem_c c_dash vr then (let '(v, _, r) := partition_c c_dash vr in (v, r)) else (vr, []) in
      Ok {| r_epoch := ep; r_version := v; r_release := r |}
  end.

(* versions.RpmVersion.is_valid(normalized) and the constructor of the base class *)
Definition rpm_valid (n : str) : res bool :=
  match from_evr n with
  | Ok v => Ok (negb (is_empty (r_version v)) && negb (mem_c c_colon (r_version v ++ r_release v)))
  | Err EValue => Ok false
  | Err e => Err e
  end.
Definition rpm_ctor (s : str) : res rpmv :=
  let n := normalize s in
  match rpm_valid n with
  | Ok true => from_evr n
  | Ok false => Err EInvalidVersion
  | Err e => Err e
  end.

Definition str_of_Z (z : Z) : str :=
  match z with Z0 => ["0"%char] | Zpos p => str_of_N (Npos p) | Zneg p => "-"%char :: str_of_N (Npos p) end.
(* RpmVersion.to_string *)
Definition rpm_str (v : rpmv) : str :=
  let vr := if is_empty (r_release v) then r_version v else r_version v ++ c_dash :: r_release v in
  if Z.eqb (r_epoch v) 0 then vr else str_of_Z (r_epoch v) ++ c_colon :: vr.

(* ---- Vercmp.compare ---------------------------------------------------------------------------------------- *)
Definition is_alnum (c : ascii) : bool := is_alpha c || is_digit c.
(* [^a-zA-Z0-9~^] *)
Definition junk (c : ascii) : bool := negb (is_alnum c || eqc c c_tilde || eqc c c_caret).
Definition starts (c : ascii) (s : str) : bool := match s with x :: _ => eqc x c | [] => false end.
Definition lstrip0 (s : str) : str := drop_while (fun c => eqc c c_zero) s.

(* the tail of compare(): the lengths of what is left *)
Definition leftover (first second : str) : comparison :=
  if is_empty first && is_empty second then Eq else if negb (is_empty first) then Gt else Lt.

Fixpoint vloop (fuel : nat) (first second : str) : comparison :=
  match fuel with
  | O => Eq
  | S f =>
      if is_empty first && is_empty second then leftover first second      (* while first or second *)
      else
        let h1 := take_while junk first in let t1 := drop_while junk first in
        let h2 := take_while junk second in let t2 := drop_while junk second in
        if negb (is_empty h1) || negb (is_empty h2) then vloop f t1 t2      (* ignore junk at the beginning: continue *)
        else
          let first := t1 in let second := t2 in
          if starts c_tilde first then
            if negb (starts c_tilde second) then Lt else vloop f (tl first) (tl second)
          else if starts c_tilde second then Gt
          else if starts c_caret first then
            if is_empty second then Gt
            else if negb (starts c_caret second) then Lt
            else vloop f (tl first) (tl second)
          else if starts c_caret second then (if is_empty first then Lt else Gt)
          else if is_empty first || is_empty second then leftover first second      (* break *)
          else
            let n1 := take_while is_digit first in
            if negb (is_empty n1) then
              (* R_NUM matched first *)
              let n2 := take_while is_digit second in
              if is_empty n2 then Gt
              else
                let a := lstrip0 n1 in let b := lstrip0 n2 in
                if Nat.ltb (List.length a) (List.length b) then Lt
                else if Nat.ltb (List.length b) (List.length a) then Gt
                else match cmp_str a b with
                     | Eq => vloop f (drop_while is_digit first) (drop_while is_digit second)
                     | o => o
                     end
            else
              let a := take_while is_alpha first in
              let b := take_while is_alpha second in
              if is_empty b then Lt
              else match cmp_str a b with
                   | Eq => vloop f (drop_while is_alpha first) (drop_while is_alpha second)
                   | o => o
                   end
  end.

(* encode("ascii", "ignore") *)
Definition ascii_only (s : str) : str := filter is_ascii7 s.
Definition vercmp_rpm (first second : str) : comparison :=
  let a := ascii_only first in let b := ascii_only second in
  if eqs a b then Eq else vloop (S (List.length a + List.length b)) a b.

(* compare_rpm_versions *)
Definition rpm_compare (a b : rpmv) : comparison :=
  match Z.compare (r_epoch a) (r_epoch b) with
  | Eq => if eqs (r_version a) (r_version b) && eqs (r_release a) (r_release b) then Eq
          else match vercmp_rpm (r_version a) (r_version b) with
               | Eq => vercmp_rpm (r_release a) (r_release b)
               | o => o
               end
  | o => o
  end.

(* the wrapper's attrs operators compare the one-element tuples (value,): == first, then the operator *)
Definition rpm_ops (a b : rpmv) : ops :=
  let v := ops_of (rpm_compare a b) in
  {| o_eq := o_eq v; o_ne := negb (o_eq v);
     o_lt := if o_eq v then false else o_lt v;
     o_le := if o_eq v then true else o_le v;
     o_gt := if o_eq v then false else o_gt v;
     o_ge := if o_eq v then true else o_ge v |}.

(* Vercmp.segments: findall [a-zA-Z]+|[0-9]+|~|\^ , numbers without leading zeros *)
Fixpoint segments_fuel (fuel : nat) (s : str) : list str :=
  match fuel with
  | O => []
  | S f =>
      match s with
      | [] => []
      | c :: r =>
          if is_alpha c then take_while is_alpha s :: segments_fuel f (drop_while is_alpha s)
          else if is_digit c then lstrip0 (take_while is_digit s) :: segments_fuel f (drop_while is_digit s)
          else if eqc c c_tilde || eqc c c_caret then [c] :: segments_fuel f r
          else segments_fuel f r
      end
  end.
Definition segments (s : str) : list str := let a := ascii_only s in segments_fuel (S (List.length a)) a.
Definition rpm_hasheq (a b : rpmv) : bool :=
  Z.eqb (r_epoch a) (r_epoch b) && list_eqb eqs (segments (r_version a)) (segments (r_version b))
  && list_eqb eqs (segments (r_release a)) (segments (r_release b)).
