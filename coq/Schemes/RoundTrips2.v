(* C11, second half of the sentence for the remaining classes: the validity predicate accepts exactly the texts the
   constructor accepts (semver family, pypi, nuget; maven and conan accept every text). *)
From Coq Require Import List Bool Arith Ascii String NArith.
From UV.Base Require Import Order Res.
From UV.Py Require Import PyStr.
From UV.Schemes Require Import Common Generic Semver Pypi Maven Nuget Conan NugetConanProofs.
From UV.Ref Require Pep440.
Import ListNotations.

Theorem semver_valid_iff_ctor s : semver_valid (normalize s) = true <-> exists v, semver_ctor s = Ok v.
Proof.
  unfold semver_valid, semver_ctor. destruct (coerce (normalize s)) as [v|e]; split; intros H; try discriminate.
  - exists v. reflexivity. - reflexivity. - destruct H as [v H]. discriminate.
Qed.
Theorem golang_valid_iff_ctor s : golang_valid (normalize s) = true <-> exists v, golang_ctor s = Ok v.
Proof.
  unfold golang_valid, golang_ctor. destruct (coerce (lstrip_set vV (normalize s))) as [v|e]; split; intros H; try discriminate.
  - exists v. reflexivity. - reflexivity. - destruct H as [v H]. discriminate.
Qed.
Theorem pypi_valid_iff_ctor s : pypi_valid (normalize s) = true <-> exists v, pypi_ctor s = Ok v.
Proof.
  unfold pypi_valid, pypi_ctor. destruct (UV.Ref.Pep440.parse (normalize s)) as [v|]; split; intros H; try discriminate.
  - exists v. reflexivity. - reflexivity. - destruct H as [v H]. discriminate.
Qed.
Theorem nuget_valid_iff_ctor s : nuget_valid (normalize s) = Ok true <-> exists v, nuget_ctor s = Ok v.
Proof.
  unfold nuget_ctor, nuget_valid. destruct (nuget_from_string (normalize s)) as [[v|]|[]]; split; intros H; try discriminate;
    try (destruct H as [w H]; discriminate); try reflexivity.
  exists v. reflexivity.
Qed.
Theorem maven_conan_accept_everything s : (maven_valid (normalize s) = true /\ exists v, maven_ctor s = Ok v) /\
                                          (conan_valid (normalize s) = true /\ exists v, conan_ctor s = Ok v).
Proof. split; split; try reflexivity; eexists; reflexivity. Qed.
