(* Shared pieces of the scheme models: numbers in text, string order, option/N orders,
   and what the six Python operators are expected to be with respect to a comparison. *)
From Coq Require Import List Bool Arith Ascii NArith Lia.
From UV.Base Require Import Order Res.
From UV.Py Require Import PyStr.
Import ListNotations.

(* int(s) for a string of ASCII digits (unbounded, like Python) *)
Definition digit_val (c : ascii) : N := code c - 48.
Definition int_of_digits (s : str) : N := fold_left (fun acc c => acc * 10 + digit_val c)%N s 0%N.
Definition all_digits (s : str) : bool := forallb is_digit s.
(* str.isdigit(): non-empty and all digits (ASCII) *)
Definition isdigit (s : str) : bool := negb (is_empty s) && all_digits s.

(* str(n) *)
Fixpoint digits_fuel (fuel : nat) (n : N) (acc : str) : str :=
  match fuel with
  | O => acc
  | S f => let d := ch (48 + N.modulo n 10) in
           if N.ltb n 10 then d :: acc else digits_fuel f (N.div n 10) (d :: acc)
  end.
Definition str_of_N (n : N) : str := digits_fuel (S (N.to_nat (N.log2 n))) n [].

(* Python str comparison: code points, a proper prefix is smaller *)
Definition cmp_char (a b : ascii) : comparison := N.compare (code a) (code b).
Definition cmp_str : str -> str -> comparison := cmp_lex cmp_char.

Lemma code_inj a b : code a = code b -> a = b.
Proof. unfold code. intros H. rewrite <- (ascii_N_embedding a), <- (ascii_N_embedding b). rewrite H. reflexivity. Qed.

Lemma tpo_N : TPO N.compare.
Proof.
  constructor.
  - apply N.compare_refl.
  - intros a b. apply N.compare_antisym.
  - intros a b c H1 H2. rewrite N.compare_lt_iff in *. eapply N.lt_trans; eauto.
  - intros a b c H. apply N.compare_eq in H. subst. reflexivity.
Qed.

Lemma tpo_char : TPO cmp_char.
Proof. apply (tpo_of_key N.compare code cmp_char tpo_N). reflexivity. Qed.
Lemma tpo_str : TPO cmp_str.
Proof. apply tpo_lex. apply tpo_char. Qed.

Lemma cmp_str_eq a : forall b, cmp_str a b = Eq -> a = b.
Proof.
  unfold cmp_str. induction a as [|x r IH]; intros [|y s]; cbn; try discriminate; auto.
  unfold cmp_char at 1. destruct (N.compare (code x) (code y)) eqn:E; try discriminate.
  intros H. apply N.compare_eq in E. apply code_inj in E. subst. f_equal. apply IH. exact H.
Qed.

Definition cmp_bool (a b : bool) : comparison :=
  match a, b with false, true => Lt | true, false => Gt | _, _ => Eq end.
Lemma tpo_bool : TPO cmp_bool.
Proof. constructor; intros; repeat match goal with x : bool |- _ => destruct x end; cbn in *; congruence. Qed.

(* what Python answers for the six operators, when they are all derived from one comparison *)
Record ops := { o_eq : bool; o_ne : bool; o_lt : bool; o_le : bool; o_gt : bool; o_ge : bool }.
Definition ops_of (c : comparison) : ops :=
  match c with
  | Lt => {| o_eq := false; o_ne := true; o_lt := true; o_le := true; o_gt := false; o_ge := false |}
  | Eq => {| o_eq := true; o_ne := false; o_lt := false; o_le := true; o_gt := false; o_ge := true |}
  | Gt => {| o_eq := false; o_ne := true; o_lt := false; o_le := false; o_gt := true; o_ge := true |}
  end.
(* C02 as a predicate on the six answers *)
Definition ops_agree (o : ops) : bool :=
  (* exactly one of <, ==, > *)
  (Nat.eqb ((if o_lt o then 1 else 0) + (if o_eq o then 1 else 0) + (if o_gt o then 1 else 0)) 1)
  && Bool.eqb (o_le o) (o_lt o || o_eq o) && Bool.eqb (o_ge o) (o_gt o || o_eq o) && Bool.eqb (o_ne o) (negb (o_eq o)).
Lemma ops_of_agree c : ops_agree (ops_of c) = true.
Proof. destruct c; reflexivity. Qed.
