(* dpkg-style comparison refines to a padded lexicographic order on (prefix, number) tokens. *)
From Coq Require Import List Bool Arith Ascii String NArith Lia.
From UV.Base Require Import Order LexPad Res.
From UV.Gen Require Import Tables.
From UV.Py Require Import PyStr.
From UV.Schemes Require Import Common Generic Debian.
Import ListNotations.
Local Open Scope list_scope.

Lemma tpo_nat : TPO Nat.compare.
Proof.
  constructor.
  - apply Nat.compare_refl.
  - intros a b. apply Nat.compare_antisym.
  - intros a b c H1 H2. rewrite Nat.compare_lt_iff in *. lia.
  - intros a b c H. apply Nat.compare_eq in H. subst. reflexivity.
Qed.

(* ---- prefixes ------------------------------------------------------------------------ *)
Definition rk (c : ascii) : nat := match deb_rank c with Some n => n | None => 0 end.
Definition er : nat := match deb_order_empty with Some n => n | None => 0 end.
Definition ranked (p : str) : bool := forallb (fun c => match deb_rank c with Some _ => true | None => false end) p.
Definition pref_cmp (p1 p2 : str) : comparison := cmp_pad Nat.compare er (map rk p1) (map rk p2).

Definition dec (c : comparison) : option comparison := match c with Eq => None | o => Some o end.

Lemma empty_ranked : deb_order_empty = Some er.
Proof. reflexivity. Qed.

Lemma rank_step_spec a b k : rank_step (Some a) (Some b) k =
  match Nat.compare a b with Lt => Ok (Some Lt) | Gt => Ok (Some Gt) | Eq => k end.
Proof.
  unfold rank_step. destruct (Nat.compare a b) eqn:E.
  - apply Nat.compare_eq in E. subst. rewrite Nat.ltb_irrefl. reflexivity.
  - apply Nat.compare_lt_iff in E. assert (X : Nat.ltb a b = true) by (apply Nat.ltb_lt; exact E). rewrite X. reflexivity.
  - apply Nat.compare_gt_iff in E. assert (X : Nat.ltb a b = false) by (apply Nat.ltb_ge; lia).
    assert (Y : Nat.ltb b a = true) by (apply Nat.ltb_lt; exact E). rewrite X, Y. reflexivity.
Qed.

Lemma rk_of c n : deb_rank c = Some n -> rk c = n.
Proof. intros H. unfold rk. rewrite H. reflexivity. Qed.

Lemma prefix_cmp_empty_l_spec : forall p2, ranked p2 = true ->
  prefix_cmp_empty_l p2 = Ok (dec (vs_pad_r Nat.compare er (map rk p2))).
Proof.
  induction p2 as [|c r IH]; intros H; [reflexivity|].
  cbn [ranked forallb] in H. apply andb_true_iff in H. destruct H as [Hc Hr].
  cbn [prefix_cmp_empty_l map vs_pad_r]. destruct (deb_rank c) as [n|] eqn:E; [|discriminate].
  rewrite (rk_of c n E), empty_ranked, rank_step_spec. destruct (Nat.compare er n); try reflexivity. apply IH. exact Hr.
Qed.

Lemma prefix_cmp_spec : forall p1 p2, ranked p1 = true -> ranked p2 = true ->
  prefix_cmp p1 p2 = Ok (dec (pref_cmp p1 p2)).
Proof.
  unfold pref_cmp. induction p1 as [|c1 r1 IH]; intros p2 H1 H2.
  - cbn [prefix_cmp map cmp_pad]. apply prefix_cmp_empty_l_spec. exact H2.
  - cbn [ranked forallb] in H1. apply andb_true_iff in H1. destruct H1 as [Hc1 Hr1].
    destruct (deb_rank c1) as [n|] eqn:E1; [|discriminate].
    destruct p2 as [|c2 r2].
    + cbn [prefix_cmp map cmp_pad vs_pad_l]. rewrite E1, (rk_of c1 n E1), empty_ranked, rank_step_spec.
      destruct (Nat.compare n er); try reflexivity.
      rewrite (IH [] Hr1 eq_refl). cbn [map cmp_pad].
      destruct (map rk r1); reflexivity.
    + cbn [ranked forallb] in H2. apply andb_true_iff in H2. destruct H2 as [Hc2 Hr2].
      destruct (deb_rank c2) as [m|] eqn:E2; [|discriminate].
      cbn [prefix_cmp map cmp_pad]. rewrite E1, E2, (rk_of c1 n E1), (rk_of c2 m E2), rank_step_spec.
      destruct (Nat.compare n m); try reflexivity. apply IH; assumption.
Qed.

Lemma pref_cmp_refl p : pref_cmp p p = Eq.
Proof. unfold pref_cmp. apply (tpo_refl _ (tpo_pad Nat.compare tpo_nat er)). Qed.

(* ---- tokens ------------------------------------------------------------------------------ *)
Definition tok := (str * N)%type.
Definition tcmp : tok -> tok -> comparison := cmp_pair pref_cmp N.compare.
Lemma tpo_pref : TPO pref_cmp.
Proof.
  apply (tpo_of_key (cmp_pad Nat.compare er) (map rk) pref_cmp); [apply tpo_pad; apply tpo_nat|reflexivity].
Qed.
Lemma tpo_tcmp : TPO tcmp.
Proof. apply tpo_pair; [apply tpo_pref|apply tpo_N]. Qed.
Definition empty_tok : tok := ([], 0%N).
Definition toks_cmp : list tok -> list tok -> comparison := cmp_pad tcmp empty_tok.
Lemma tpo_toks : TPO toks_cmp.
Proof. apply tpo_pad. apply tpo_tcmp. Qed.

(* lengths *)
Lemma take_nondigits_len : forall s p r, take_nondigits s = (p, r) -> List.length s = List.length p + List.length r.
Proof.
  induction s as [|c t IH]; intros p r H; cbn in H; [inversion H; reflexivity|].
  destruct (is_digit c).
  - inversion H; subst. reflexivity.
  - destruct (take_nondigits t) as [p' r'] eqn:E. inversion H; subst. cbn. rewrite (IH p' r eq_refl). reflexivity.
Qed.
Lemma take_digits_len : forall s acc d t, take_digits acc s = (d, t) -> List.length t <= List.length s.
Proof.
  induction s as [|c r IH]; intros acc d t H; cbn in H; [inversion H; cbn; lia|].
  destruct (is_digit c).
  - apply IH in H. cbn. lia.
  - inversion H; subst. lia.
Qed.
Lemma round_shrinks : forall s p r d t, s <> [] -> take_nondigits s = (p, r) -> take_digits 0 r = (d, t) ->
  List.length t < List.length s.
Proof.
  intros s p r d t Hne H1 H2. destruct s as [|c s']; [congruence|].
  pose proof (take_nondigits_len _ _ _ H1) as L1. pose proof (take_digits_len _ _ _ _ H2) as L2.
  cbn in H1. destruct (is_digit c) eqn:Dc.
  - inversion H1; subst. cbn in H2. rewrite Dc in H2. apply take_digits_len in H2. cbn. lia.
  - destruct (take_nondigits s') as [p' r'] eqn:E. inversion H1; subst. cbn in L1. cbn. lia.
Qed.

(* fuel does not matter once there is enough of it *)
Lemma parts_fuel_irrelevant : forall f1 f2 s, List.length s < f1 -> List.length s < f2 ->
  get_parts_fuel f1 s = get_parts_fuel f2 s.
Proof.
  induction f1 as [|f1 IH]; intros f2 s H1 H2; [lia|].
  destruct f2 as [|f2]; [lia|].
  destruct s as [|c s']; [reflexivity|]. cbn [get_parts_fuel].
  destruct (take_nondigits (c :: s')) as [p r] eqn:E1. destruct (take_digits 0 r) as [d t] eqn:E2.
  pose proof (round_shrinks (c :: s') p r d t ltac:(discriminate) E1 E2) as L.
  f_equal. apply IH; cbn in *; lia.
Qed.

Definition toks (s : str) : list tok := get_parts_fuel (S (List.length s)) s.

Lemma gpf_step f s p r d t : s <> [] -> take_nondigits s = (p, r) -> take_digits 0 r = (d, t) ->
  get_parts_fuel (S f) s = (p, d) :: get_parts_fuel f t.
Proof. intros Hne E1 E2. destruct s as [|c s']; [congruence|]. cbn [get_parts_fuel]. rewrite E1, E2. reflexivity. Qed.

Lemma toks_cons s p r d t : s <> [] -> take_nondigits s = (p, r) -> take_digits 0 r = (d, t) ->
  toks s = (p, d) :: toks t.
Proof.
  intros Hne E1 E2. unfold toks. rewrite (gpf_step (List.length s) s p r d t Hne E1 E2). f_equal.
  pose proof (round_shrinks s p r d t Hne E1 E2) as L.
  apply parts_fuel_irrelevant; lia.
Qed.

Lemma take_nondigits_nil : take_nondigits [] = ([], []).
Proof. reflexivity. Qed.

(* every character of every non-digit prefix is in the table *)
Definition all_ranked (s : str) : bool := forallb (fun c => is_digit c || match deb_rank c with Some _ => true | None => false end) s.

Lemma take_nondigits_ranked : forall s p r, all_ranked s = true -> take_nondigits s = (p, r) -> ranked p = true /\ all_ranked r = true.
Proof.
  induction s as [|c t IH]; intros p r H E; cbn in E; [inversion E; auto|].
  cbn [all_ranked forallb] in H. apply andb_true_iff in H. destruct H as [Hc Ht].
  destruct (is_digit c) eqn:Dc.
  - inversion E; subst. split; [reflexivity|]. cbn [all_ranked forallb]. rewrite Dc, Ht. reflexivity.
  - destruct (take_nondigits t) as [p' r'] eqn:E'. inversion E; subst. destruct (IH p' r Ht eq_refl) as [I1 I2].
    split; [|exact I2]. cbn [ranked forallb]. cbn in Hc. rewrite Hc. exact I1.
Qed.
Lemma take_digits_ranked : forall s acc d t, all_ranked s = true -> take_digits acc s = (d, t) -> all_ranked t = true.
Proof.
  induction s as [|c r IH]; intros acc d t H E; cbn in E; [inversion E; reflexivity|].
  cbn [all_ranked forallb] in H. apply andb_true_iff in H. destruct H as [Hc Hr].
  destruct (is_digit c) eqn:Dc.
  - eapply IH; eauto.
  - inversion E; subst. cbn [all_ranked forallb]. rewrite Dc. cbn. cbn in Hc. rewrite Hc. exact Hr.
Qed.

(* compare_strings computes the padded lexicographic order of the token lists *)
Theorem compare_strings_spec : forall fuel v1 v2,
  List.length v1 + List.length v2 < fuel -> all_ranked v1 = true -> all_ranked v2 = true ->
  compare_strings fuel v1 v2 = Ok (toks_cmp (toks v1) (toks v2)).
Proof.
  induction fuel as [|f IH]; intros v1 v2 Hf R1 R2; [lia|].
  destruct v1 as [|a1 s1], v2 as [|a2 s2].
  - reflexivity.
  - (* v1 exhausted: it counts as an empty prefix and a zero *)
    cbn [compare_strings]. rewrite take_nondigits_nil.
    destruct (take_nondigits (a2 :: s2)) as [p2 r2] eqn:E2. destruct (take_digits 0 r2) as [d2 t2] eqn:F2.
    destruct (take_nondigits_ranked _ _ _ R2 E2) as [Rp2 Rr2]. pose proof (take_digits_ranked _ _ _ _ Rr2 F2) as Rt2.
    pose proof (round_shrinks (a2 :: s2) p2 r2 d2 t2 ltac:(discriminate) E2 F2) as L.
    rewrite (toks_cons (a2 :: s2) p2 r2 d2 t2 ltac:(discriminate) E2 F2).
    change (toks []) with (@nil tok). unfold toks_cmp. cbn [cmp_pad vs_pad_r].
    change (take_digits 0 []) with (0%N, @nil ascii).
    assert (PC : (if eqs [] p2 then Ok None else prefix_cmp [] p2) = Ok (dec (pref_cmp [] p2))).
    { destruct (eqs [] p2) eqn:Ee; [apply eqs_eq in Ee; subst; rewrite pref_cmp_refl; reflexivity|apply prefix_cmp_spec; auto]. }
    rewrite PC. unfold tcmp at 1, cmp_pair, empty_tok. cbn [fst snd].
    destruct (pref_cmp [] p2); cbn [dec]; try reflexivity.
    destruct (N.compare 0 d2); try reflexivity.
    rewrite (IH [] t2 ltac:(cbn in *; lia) eq_refl Rt2). change (toks []) with (@nil tok). unfold toks_cmp. cbn [cmp_pad]. reflexivity.
  - cbn [compare_strings]. rewrite take_nondigits_nil.
    destruct (take_nondigits (a1 :: s1)) as [p1 r1] eqn:E1. destruct (take_digits 0 r1) as [d1 t1] eqn:F1.
    destruct (take_nondigits_ranked _ _ _ R1 E1) as [Rp1 Rr1]. pose proof (take_digits_ranked _ _ _ _ Rr1 F1) as Rt1.
    pose proof (round_shrinks (a1 :: s1) p1 r1 d1 t1 ltac:(discriminate) E1 F1) as L.
    rewrite (toks_cons (a1 :: s1) p1 r1 d1 t1 ltac:(discriminate) E1 F1).
    change (toks []) with (@nil tok). unfold toks_cmp. cbn [cmp_pad vs_pad_l].
    change (take_digits 0 []) with (0%N, @nil ascii).
    assert (PC : (if eqs p1 [] then Ok None else prefix_cmp p1 []) = Ok (dec (pref_cmp p1 []))).
    { destruct (eqs p1 []) eqn:Ee; [apply eqs_eq in Ee; subst; rewrite pref_cmp_refl; reflexivity|apply prefix_cmp_spec; auto]. }
    rewrite PC. unfold tcmp at 1, cmp_pair, empty_tok. cbn [fst snd].
    destruct (pref_cmp p1 []); cbn [dec]; try reflexivity.
    destruct (N.compare d1 0); try reflexivity.
    rewrite (IH t1 [] ltac:(cbn in *; lia) Rt1 eq_refl). change (toks []) with (@nil tok). unfold toks_cmp.
    destruct (toks t1); reflexivity.
  - cbn [compare_strings].
    destruct (take_nondigits (a1 :: s1)) as [p1 r1] eqn:E1. destruct (take_digits 0 r1) as [d1 t1] eqn:F1.
    destruct (take_nondigits (a2 :: s2)) as [p2 r2] eqn:E2. destruct (take_digits 0 r2) as [d2 t2] eqn:F2.
    destruct (take_nondigits_ranked _ _ _ R1 E1) as [Rp1 Rr1]. pose proof (take_digits_ranked _ _ _ _ Rr1 F1) as Rt1.
    destruct (take_nondigits_ranked _ _ _ R2 E2) as [Rp2 Rr2]. pose proof (take_digits_ranked _ _ _ _ Rr2 F2) as Rt2.
    pose proof (round_shrinks (a1 :: s1) p1 r1 d1 t1 ltac:(discriminate) E1 F1) as L1.
    pose proof (round_shrinks (a2 :: s2) p2 r2 d2 t2 ltac:(discriminate) E2 F2) as L2.
    rewrite (toks_cons (a1 :: s1) p1 r1 d1 t1 ltac:(discriminate) E1 F1), (toks_cons (a2 :: s2) p2 r2 d2 t2 ltac:(discriminate) E2 F2).
    unfold toks_cmp. cbn [cmp_pad].
    assert (PC : (if eqs p1 p2 then Ok None else prefix_cmp p1 p2) = Ok (dec (pref_cmp p1 p2))).
    { destruct (eqs p1 p2) eqn:Ee; [apply eqs_eq in Ee; subst; rewrite pref_cmp_refl; reflexivity|apply prefix_cmp_spec; auto]. }
    rewrite PC. unfold tcmp at 1, cmp_pair. cbn [fst snd].
    destruct (pref_cmp p1 p2); cbn [dec]; try reflexivity.
    destruct (N.compare d1 d2); try reflexivity.
    apply IH; [cbn in *; lia|assumption|assumption].
Qed.

(* ---- versions ------------------------------------------------------------------------------- *)
Definition dok (v : deb) : bool := all_ranked (d_upstream v) && all_ranked (d_revision v).
Definition dkey (v : deb) : N * (list tok * list tok) := (d_epoch v, (toks (d_upstream v), toks (d_revision v))).
Definition dkcmp := cmp_pair N.compare (cmp_pair toks_cmp toks_cmp).
Theorem tpo_dkcmp : TPO dkcmp.
Proof. repeat apply tpo_pair; auto using tpo_N, tpo_toks. Qed.
Definition deb_cmp (a b : deb) : comparison := dkcmp (dkey a) (dkey b).
Theorem deb_tpo : TPO deb_cmp.
Proof. apply (tpo_of_key dkcmp dkey deb_cmp tpo_dkcmp). reflexivity. Qed.

Theorem deb_compare_spec a b : dok a = true -> dok b = true -> deb_compare a b = Ok (deb_cmp a b).
Proof.
  intros Ha Hb. unfold dok in *. apply andb_true_iff in Ha, Hb. destruct Ha as [Ua Ra], Hb as [Ub Rb].
  unfold deb_compare, deb_cmp, dkcmp, dkey, cmp_pair, cmp_strings. cbn [fst snd].
  destruct (N.compare (d_epoch a) (d_epoch b)); try reflexivity.
  rewrite (compare_strings_spec _ _ _ (Nat.lt_succ_diag_r _) Ua Ub).
  destruct (toks_cmp (toks (d_upstream a)) (toks (d_upstream b))); try reflexivity.
  destruct (negb (is_empty (d_revision a)) || negb (is_empty (d_revision b))) eqn:E.
  - apply (compare_strings_spec _ _ _ (Nat.lt_succ_diag_r _) Ra Rb).
  - apply orb_false_iff in E. destruct E as [E1 E2]. apply negb_false_iff in E1, E2.
    destruct (d_revision a); [|discriminate]. destruct (d_revision b); [|discriminate]. reflexivity.
Qed.

Theorem deb_ops_spec a b : dok a = true -> dok b = true -> deb_ops a b = Ok (ops_of (deb_cmp a b)).
Proof.
  intros Ha Hb. unfold deb_ops. rewrite (deb_compare_spec a b Ha Hb). destruct (deb_cmp a b); reflexivity.
Qed.
