(* SemverVersion and its family (Golang, Composer, Nginx): code-shaped model of
   semantic_version 2.8.5 Version.coerce / parse / __str__ / comparison / next_* as
   used through EnhancedSemanticVersion (precedence key extended with the build). *)
From Coq Require Import List Bool Arith Ascii String NArith Lia.
From UV.Base Require Import Order Res.
From UV.Py Require Import PyStr.
From UV.Schemes Require Import Common Generic.
Import ListNotations.
Local Open Scope list_scope.

Record semver := { sv_major : N; sv_minor : N; sv_patch : N; sv_pre : list str; sv_build : list str }.

Definition c_dots : ascii := "."%char.
Definition c_plus : ascii := "+"%char.
Definition c_minus : ascii := "-"%char.

Fixpoint span_digits (s : str) : str * str :=
  match s with
  | c :: r => if is_digit c then let '(d, t) := span_digits r in (c :: d, t) else ([], s)
  | [] => ([], [])
  end.

(* base_re: digits, then optionally "." digits, then optionally "." digits *)
Definition match_base (s : str) : option (list str * str) :=
  let '(d1, r1) := span_digits s in
  if is_empty d1 then None
  else match r1 with
       | c :: r1' =>
           if eqc c c_dots then
             let '(d2, r2) := span_digits r1' in
             if is_empty d2 then Some ([d1], r1)
             else match r2 with
                  | c2 :: r2' =>
                      if eqc c2 c_dots then
                        let '(d3, r3) := span_digits r2' in
                        if is_empty d3 then Some ([d1; d2], r2) else Some ([d1; d2; d3], r3)
                      else Some ([d1; d2], r2)
                  | [] => Some ([d1; d2], r2)
                  end
           else Some ([d1], r1)
       | [] => Some ([d1], r1)
       end.

Definition is_alnum (c : ascii) : bool := is_alpha c || is_digit c.
(* re.sub('[^a-zA-Z0-9+.-]', '-', rest) *)
Definition clean_rest (s : str) : str :=
  map (fun c => if is_alnum c || eqc c c_plus || eqc c c_dots || eqc c c_minus then c else c_minus) s.

(* s.split('+', 1) when '+' is in s *)
Definition split_plus (s : str) : option (str * str) :=
  let '(a, f, b) := partition_c c_plus s in if f then Some (a, b) else None.

Definition replace_plus (s : str) : str := map (fun c => if eqc c c_plus then c_dots else c) s.

(* _validate_identifiers *)
Definition id_ok (allow_leading_zeroes : bool) (item : str) : bool :=
  negb (is_empty item)
  && (allow_leading_zeroes
      || negb (match item with c :: _ => eqc c "0"%char | [] => false end && all_digits item && negb (eqs item ["0"%char]))).

Definition ids_of (allow : bool) (text : str) : res (list str) :=
  if is_empty text then Ok []
  else let ids := split_c c_dots text in
       if forallb (id_ok allow) ids then Ok ids else Err EValue.

(* Version.coerce(string) followed by Version.parse of the rebuilt text *)
Definition coerce (s : str) : res semver :=
  match match_base s with
  | None => Err EValue
  | Some (comps, rest) =>
      let nums := map int_of_digits comps in
      let maj := nth 0 nums 0%N in
      let mnr := nth 1 nums 0%N in
      let pat := nth 2 nums 0%N in
      match clean_rest rest with
      | [] => Ok {| sv_major := maj; sv_minor := mnr; sv_patch := pat; sv_pre := []; sv_build := [] |}
      | c :: r =>
          let '(pre, build) :=
            if eqc c c_plus then ([], r)
            else if eqc c c_dots then ([], r)
            else if eqc c c_minus then
              match split_plus r with Some (p, b) => (p, b) | None => (r, []) end
            else match split_plus (c :: r) with Some (p, b) => (p, b) | None => (c :: r, []) end in
          let build := replace_plus build in
          match ids_of false pre, ids_of true build with
          | Ok p, Ok b => Ok {| sv_major := maj; sv_minor := mnr; sv_patch := pat; sv_pre := p; sv_build := b |}
          | Err e, _ => Err e
          | _, Err e => Err e
          end
      end
  end.

(* SemverVersion(string): normalize; is_valid = coerce does not raise ValueError; build_value = coerce *)
Definition semver_ctor (s : str) : res semver :=
  match coerce (normalize s) with Ok v => Ok v | Err _ => Err EInvalidVersion end.
Definition semver_valid (n : str) : bool := match coerce n with Ok _ => true | Err _ => false end.
(* GolangVersion / ComposerVersion: build_value strips "vV" once more *)
Definition golang_ctor (s : str) : res semver :=
  match coerce (lstrip_set vV (normalize s)) with Ok v => Ok v | Err _ => Err EInvalidVersion end.
Definition golang_valid (n : str) : bool := match coerce (lstrip_set vV n) with Ok _ => true | Err _ => false end.

(* Version.__str__ *)
Definition semver_str (v : semver) : str :=
  str_of_N (sv_major v) ++ c_dots :: str_of_N (sv_minor v) ++ c_dots :: str_of_N (sv_patch v)
  ++ (match sv_pre v with [] => [] | _ => c_minus :: join_c c_dots (sv_pre v) end)
  ++ (match sv_build v with [] => [] | _ => c_plus :: join_c c_dots (sv_build v) end).

(* ---- precedence ------------------------------------------------------------------- *)
(* NumericIdentifier < AlphaIdentifier; numeric by value, alphanumeric by bytes *)
Definition id_cmp (a b : str) : comparison :=
  match all_digits a, all_digits b with
  | true, true => N.compare (int_of_digits a) (int_of_digits b)
  | true, false => Lt
  | false, true => Gt
  | false, false => cmp_str a b
  end.
(* the prerelease key: a release (no identifiers) is MaxIdentifier, after every prerelease *)
Definition pre_cmp (p q : list str) : comparison :=
  match p, q with
  | [], [] => Eq
  | [], _ :: _ => Gt
  | _ :: _, [] => Lt
  | _, _ => cmp_lex id_cmp p q
  end.
(* EnhancedSemanticVersion.precedence_key: (major, minor, patch, prerelease key) + build *)
Definition semver_cmp (a b : semver) : comparison :=
  match N.compare (sv_major a) (sv_major b) with
  | Eq => match N.compare (sv_minor a) (sv_minor b) with
          | Eq => match N.compare (sv_patch a) (sv_patch b) with
                  | Eq => match pre_cmp (sv_pre a) (sv_pre b) with
                          | Eq => cmp_lex cmp_str (sv_build a) (sv_build b)
                          | o => o end
                  | o => o end
          | o => o end
  | o => o end.

(* __eq__: field by field, identifiers as strings *)
Fixpoint strs_eqb (l1 l2 : list str) : bool :=
  match l1, l2 with [], [] => true | x :: r1, y :: r2 => eqs x y && strs_eqb r1 r2 | _, _ => false end.
Definition semver_eq (a b : semver) : bool :=
  N.eqb (sv_major a) (sv_major b) && N.eqb (sv_minor a) (sv_minor b) && N.eqb (sv_patch a) (sv_patch b)
  && strs_eqb (sv_pre a) (sv_pre b) && strs_eqb (sv_build a) (sv_build b).

(* value operators: ==/!= structural, the four others through the precedence key;
   wrapper operators: attrs compares the one-element tuples (value,): == first *)
Definition semver_ops (a b : semver) : ops :=
  let c := semver_cmp a b in
  let e := semver_eq a b in
  {| o_eq := e; o_ne := negb e;
     o_lt := if e then false else o_lt (ops_of c);
     o_le := if e then true else o_le (ops_of c);
     o_gt := if e then false else o_gt (ops_of c);
     o_ge := if e then true else o_ge (ops_of c) |}.
Definition semver_hasheq (a b : semver) : bool := semver_eq a b.   (* hash of the five fields *)

(* ---- successors --------------------------------------------------------------------- *)
Definition has_pre (v : semver) : bool := match sv_pre v with [] => false | _ => true end.
Definition mk (a b c : N) : semver := {| sv_major := a; sv_minor := b; sv_patch := c; sv_pre := []; sv_build := [] |}.
Definition next_major (v : semver) : semver :=
  if has_pre v && N.eqb (sv_minor v) 0 && N.eqb (sv_patch v) 0 then mk (sv_major v) 0 0 else mk (sv_major v + 1) 0 0.
Definition next_minor (v : semver) : semver :=
  if has_pre v && N.eqb (sv_patch v) 0 then mk (sv_major v) (sv_minor v) 0 else mk (sv_major v) (sv_minor v + 1) 0.
Definition next_patch (v : semver) : semver :=
  if has_pre v then mk (sv_major v) (sv_minor v) (sv_patch v) else mk (sv_major v) (sv_minor v) (sv_patch v + 1).

(* NginxVersion.is_stable *)
Definition is_stable (v : semver) : bool := N.eqb (N.modulo (sv_minor v) 2) 0.

(* the shape parse() guarantees: non-empty identifiers, numeric prerelease identifiers without leading zeros *)
Definition sv_ok (v : semver) : bool := forallb (id_ok false) (sv_pre v) && forallb (id_ok true) (sv_build v).
