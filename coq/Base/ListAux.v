From Coq Require Import List Bool.
Import ListNotations.

Lemma existsb_ext_in {A} (f g : A -> bool) l :
  (forall a, In a l -> f a = g a) -> existsb f l = existsb g l.
Proof.
  induction l as [|x r IH]; cbn; intros H; [reflexivity|].
  rewrite (H x (or_introl eq_refl)), IH; [reflexivity|]. intros a Ha. apply H. right. exact Ha.
Qed.

Lemma forallb_ext_in {A} (f g : A -> bool) l :
  (forall a, In a l -> f a = g a) -> forallb f l = forallb g l.
Proof.
  induction l as [|x r IH]; cbn; intros H; [reflexivity|].
  rewrite (H x (or_introl eq_refl)), IH; [reflexivity|]. intros a Ha. apply H. right. exact Ha.
Qed.

Lemma filter_ext_in' {A} (f g : A -> bool) l :
  (forall a, In a l -> f a = g a) -> filter f l = filter g l.
Proof.
  induction l as [|x r IH]; cbn; intros H; [reflexivity|].
  rewrite (H x (or_introl eq_refl)), IH; [reflexivity|]. intros a Ha. apply H. right. exact Ha.
Qed.

Lemma filter_all {A} (p : A -> bool) l : forallb p l = true -> filter p l = l.
Proof.
  induction l as [|x r IH]; cbn; intros H; [reflexivity|].
  apply andb_true_iff in H. destruct H as [H1 H2]. rewrite H1, IH; auto.
Qed.
Lemma filter_none {A} (p : A -> bool) l : forallb (fun x => negb (p x)) l = true -> filter p l = [].
Proof.
  induction l as [|x r IH]; cbn; intros H; [reflexivity|].
  apply andb_true_iff in H. destruct H as [H1 H2]. apply negb_true_iff in H1. rewrite H1, IH; auto.
Qed.

