From Coq Require Import List Bool.
Import ListNotations.

Lemma existsb_ext_in {A} (f g : A -> bool) l :
  (forall a, In a l -> f a = g a) -> existsb f l = existsb g l.
Proof.
  induction l as [|x r IH]; cbn; intros H; [reflexivity|].
  rewrite (H x (or_introl eq_refl)), IH; [reflexivity|]. intros a Ha. apply H. right. exact Ha.
Qed.

Lemma forallb_ext_in {A} (f g : A -> bool) l :
  (forall a, In a l -> f a = g a) -> forallb f l = forallb g l.
Proof.
  induction l as [|x r IH]; cbn; intros H; [reflexivity|].
  rewrite (H x (or_introl eq_refl)), IH; [reflexivity|]. intros a Ha. apply H. right. exact Ha.
Qed.

Lemma filter_ext_in' {A} (f g : A -> bool) l :
  (forall a, In a l -> f a = g a) -> filter f l = filter g l.
Proof.
  induction l as [|x r IH]; cbn; intros H; [reflexivity|].
  rewrite (H x (or_introl eq_refl)), IH; [reflexivity|]. intros a Ha. apply H. right. exact Ha.
Qed.
