(* The seven vers comparators.  Constructor order is irrelevant; the order of
   the COMPARATORS dict and the Python string order of the comparator texts
   are transcribed from /repo into Gen/Tables.v on every run. *)
From Coq Require Import List Bool.
Import ListNotations.

Inductive cop := GE | LE | NE | LT | GT | EQ.
Inductive cop7 := Op (o : cop) | STAR.

Definition cop_eqb (a b : cop) : bool :=
  match a, b with
  | GE, GE | LE, LE | NE, NE | LT, LT | GT, GT | EQ, EQ => true
  | _, _ => false
  end.
Lemma cop_eqb_eq a b : cop_eqb a b = true <-> a = b.
Proof. destruct a, b; cbn; split; congruence. Qed.

Definition all_cops : list cop := [GE; LE; NE; LT; GT; EQ].
Lemma all_cops_complete o : In o all_cops.
Proof. destruct o; cbn; tauto. Qed.

(* classification used by the hand-written Python code:
   cur_comp in (">", ">=")  /  cur_comp in ("<", "<=")  /  "=" in comparator *)
Definition lower (o : cop) : bool := match o with GT | GE => true | _ => false end.
Definition upper (o : cop) : bool := match o with LT | LE => true | _ => false end.
Definition is_bound (o : cop) : bool := lower o || upper o.
Definition has_eq_char (o : cop) : bool := match o with GE | LE | NE | EQ => true | _ => false end.
Definition has_ne_substr (o : cop) : bool := match o with NE => true | _ => false end.
Definition incl (o : cop) : bool := match o with GE | LE => true | _ => false end.
