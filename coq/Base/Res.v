(* Errors are values: what Python would raise, as a small enumeration. *)
Inductive err :=
| EInvalidVersion      (* univers.versions.InvalidVersion (a ValueError) *)
| EValue               (* ValueError *)
| EInvalidRange        (* univers.version_range.InvalidVersionRange *)
| EInvalidConstraints  (* version_constraint.InvalidConstraintsError *)
| EType                (* TypeError *)
| EIndex | EKey | EAttr | EUnbound | EAssert | ERecursion
| EOther.

Inductive res (A : Type) := Ok (a : A) | Err (e : err).
Arguments Ok {A} _.
Arguments Err {A} _.

Definition bind {A B} (r : res A) (f : A -> res B) : res B :=
  match r with Ok a => f a | Err e => Err e end.
Notation "'do' x <- r ;; k" := (bind r (fun x => k)) (at level 200, x name, r at level 100, k at level 200).

Definition is_ok {A} (r : res A) : bool := match r with Ok _ => true | Err _ => false end.
