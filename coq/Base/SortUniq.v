From Coq Require Import List Bool Lia Arith PeanoNat Permutation Sorted.
Import ListNotations.
From UV.Base Require Import Order.

Section SortUniq.
Context {A} (cmp : A -> A -> comparison) (T : TPO cmp).

Definition leb (a b : A) : bool := match cmp a b with Gt => false | _ => true end.
Definition le (a b : A) : Prop := leb a b = true.
Definition equiv (a b : A) : Prop := cmp a b = Eq.

Fixpoint count_le (x : A) (l : list A) : nat :=
  match l with [] => 0 | y :: r => (if leb y x then 1 else 0) + count_le x r end.

Lemma leb_refl a : leb a a = true.
Proof. unfold leb. rewrite (tpo_refl _ T). reflexivity. Qed.

Lemma count_le_perm x : forall l l', Permutation l l' -> count_le x l = count_le x l'.
Proof. induction 1; cbn; lia. Qed.

Lemma leb_equiv_l a b x : equiv a b -> leb a x = leb b x.
Proof. unfold leb, equiv. intro H. rewrite (tpo_eq_l _ T _ _ _ H). reflexivity. Qed.

(* all elements of a sorted tail are >= the head *)
Lemma sorted_head_le a r : StronglySorted le (a :: r) -> Forall (le a) r.
Proof. inversion 1; assumption. Qed.

Lemma count_le_zero x l : Forall (fun y => cmp x y = Lt) l -> count_le x l = 0.
Proof.
  induction 1 as [|y r Hy _ IH]; cbn; auto. unfold leb.
  apply (tpo_gt_lt _ T) in Hy. rewrite Hy. cbn. exact IH.
Qed.

Lemma lt_le_lt a b y : cmp a b = Lt -> le b y -> cmp a y = Lt.
Proof.
  unfold le, leb. intros H1 H2. destruct (cmp b y) eqn:E; try discriminate.
  - rewrite <- (tpo_eq_r _ T a _ _ E). exact H1.
  - eapply (tpo_lt _ T); eauto.
Qed.

Theorem sorted_unique_upto : forall l1 l2,
  StronglySorted le l1 -> StronglySorted le l2 -> length l1 = length l2 ->
  (forall x, count_le x l1 = count_le x l2) -> Forall2 equiv l1 l2.
Proof.
  induction l1 as [|a r1 IH]; intros [|b r2] S1 S2 HL HC; cbn in HL; try discriminate; [constructor|].
  assert (Hab : equiv a b).
  { unfold equiv. destruct (cmp a b) eqn:E; auto.
    - (* a < b : a counted in l1 but nothing of l2 is <= a *)
      exfalso. specialize (HC a). cbn in HC. rewrite leb_refl in HC.
      assert (Z : count_le a (b :: r2) = 0).
      { apply count_le_zero. constructor; auto.
        pose proof (sorted_head_le _ _ S2) as F. rewrite Forall_forall in *. intros y Hy.
        eapply lt_le_lt; eauto. }
      cbn in Z. lia.
    - exfalso. apply (tpo_gt_lt _ T) in E. specialize (HC b). cbn in HC. rewrite leb_refl in HC.
      assert (Z : count_le b (a :: r1) = 0).
      { apply count_le_zero. constructor; auto.
        pose proof (sorted_head_le _ _ S1) as F. rewrite Forall_forall in *. intros y Hy.
        eapply lt_le_lt; eauto. }
      cbn in Z. lia. }
  constructor; auto. apply IH.
  - inversion S1; assumption.
  - inversion S2; assumption.
  - lia.
  - intro x. specialize (HC x). cbn in HC. rewrite (leb_equiv_l a b x Hab) in HC. lia.
Qed.

Corollary sorted_perm_unique_upto l1 l2 :
  StronglySorted le l1 -> StronglySorted le l2 -> Permutation l1 l2 -> Forall2 equiv l1 l2.
Proof.
  intros S1 S2 P. apply sorted_unique_upto; auto.
  - apply Permutation_length; assumption.
  - intro x. apply count_le_perm; assumption.
Qed.
End SortUniq.

(* Two strictly sorted lists that are permutations of one another are equal. *)
Section StrictUniq.
Context {A} (R : A -> A -> Prop).
Hypothesis R_irrefl : forall a, ~ R a a.
Hypothesis R_trans : forall a b c, R a b -> R b c -> R a c.

Theorem strict_sorted_perm_eq : forall l1 l2,
  StronglySorted R l1 -> StronglySorted R l2 -> Permutation l1 l2 -> l1 = l2.
Proof.
  induction l1 as [|a r1 IH]; intros l2 S1 S2 P.
  - apply Permutation_nil in P. subst. reflexivity.
  - destruct l2 as [|b r2]; [apply Permutation_sym, Permutation_nil in P; discriminate|].
    inversion S1 as [|? ? S1' F1]; subst. inversion S2 as [|? ? S2' F2]; subst.
    assert (Hab : a = b).
    { assert (Ia : In a (b :: r2)) by (eapply Permutation_in; [exact P|left; reflexivity]).
      assert (Ib : In b (a :: r1)) by (eapply Permutation_in; [apply Permutation_sym; exact P|left; reflexivity]).
      destruct Ia as [E|Ia]; [auto|]. destruct Ib as [E|Ib]; [auto|].
      rewrite Forall_forall in F1, F2. exfalso. apply (R_irrefl a). eapply R_trans; [apply F1; exact Ib|apply F2; exact Ia]. }
    subst b. f_equal. apply IH; auto. eapply Permutation_cons_inv; eauto.
Qed.
End StrictUniq.
