From Coq Require Import List Bool Lia Permutation Sorted.
Import ListNotations.

(* A comparison is a total preorder *)
Record TPO {A} (cmp : A -> A -> comparison) : Prop := {
  tpo_refl   : forall a, cmp a a = Eq;
  tpo_sym    : forall a b, cmp b a = CompOpp (cmp a b);
  tpo_lt     : forall a b c, cmp a b = Lt -> cmp b c = Lt -> cmp a c = Lt;
  tpo_eq_l   : forall a b c, cmp a b = Eq -> cmp a c = cmp b c
}.

Section Derived.
Context {A} (cmp : A -> A -> comparison) (T : TPO cmp).

Lemma tpo_gt_lt a b : cmp a b = Gt <-> cmp b a = Lt.
Proof. rewrite (tpo_sym _ T a b). destruct (cmp a b); cbn; split; congruence. Qed.
Lemma tpo_eq_sym a b : cmp a b = Eq -> cmp b a = Eq.
Proof. intro H. rewrite (tpo_sym _ T a b), H. reflexivity. Qed.
Lemma tpo_eq_r a b c : cmp b c = Eq -> cmp a b = cmp a c.
Proof.
  intro H. rewrite (tpo_sym _ T b a), (tpo_sym _ T c a).
  f_equal. apply (tpo_eq_l _ T). exact H.
Qed.
Lemma tpo_eq_trans a b c : cmp a b = Eq -> cmp b c = Eq -> cmp a c = Eq.
Proof. intros H1 H2. rewrite (tpo_eq_l _ T _ _ _ H1). exact H2. Qed.
Lemma tpo_irrefl a : cmp a a <> Lt.
Proof. rewrite (tpo_refl _ T). discriminate. Qed.
Lemma tpo_asym a b : cmp a b = Lt -> cmp b a <> Lt.
Proof. intros H. rewrite (tpo_sym _ T a b), H. discriminate. Qed.
(* incomparability (neither < nor >) is cmp = Eq, hence transitive *)
Lemma tpo_incomp a b : (cmp a b <> Lt /\ cmp b a <> Lt) <-> cmp a b = Eq.
Proof.
  rewrite (tpo_sym _ T a b). destruct (cmp a b); cbn; split; intros; try tauto; try discriminate;
  try (split; discriminate); destruct H; congruence.
Qed.
Lemma tpo_le_trans a b c : cmp a b <> Gt -> cmp b c <> Gt -> cmp a c <> Gt.
Proof.
  intros H1 H2 H3.
  destruct (cmp a b) eqn:E1; try congruence.
  - assert (E : cmp a c = cmp b c) by (apply (tpo_eq_l _ T); exact E1). congruence.
  - destruct (cmp b c) eqn:E2; try congruence.
    + assert (E : cmp a b = cmp a c) by (apply tpo_eq_r; exact E2). congruence.
    + pose proof (tpo_lt _ T _ _ _ E1 E2). congruence.
Qed.
End Derived.

(* transfer along a key *)
Lemma tpo_of_key {A K} (kcmp : K -> K -> comparison) (key : A -> K) (cmp : A -> A -> comparison) :
  TPO kcmp -> (forall a b, cmp a b = kcmp (key a) (key b)) -> TPO cmp.
Proof.
  intros T H. constructor; intros; rewrite ?H in *.
  - apply (tpo_refl _ T).
  - apply (tpo_sym _ T).
  - eapply (tpo_lt _ T); eauto.
  - apply (tpo_eq_l _ T); assumption.
Qed.

(* product, lexicographic *)
Definition cmp_pair {A B} (ca : A -> A -> comparison) (cb : B -> B -> comparison) (x y : A * B) :=
  match ca (fst x) (fst y) with Eq => cb (snd x) (snd y) | o => o end.
Lemma tpo_pair {A B} ca cb : TPO ca -> TPO cb -> TPO (@cmp_pair A B ca cb).
Proof.
  intros Ta Tb. constructor; unfold cmp_pair.
  - intros [a b]; cbn. rewrite (tpo_refl _ Ta). apply (tpo_refl _ Tb).
  - intros [a b] [a' b']; cbn. rewrite (tpo_sym _ Ta a a'). destruct (ca a a'); cbn; auto. apply (tpo_sym _ Tb).
  - intros [a1 b1] [a2 b2] [a3 b3]; cbn.
    destruct (ca a1 a2) eqn:E12; try discriminate.
    + rewrite (tpo_eq_l _ Ta _ _ _ E12). destruct (ca a2 a3); try discriminate; auto. apply (tpo_lt _ Tb).
    + destruct (ca a2 a3) eqn:E23; try discriminate; intros _ H.
      * rewrite (tpo_eq_r _ Ta a1 _ _ E23) in E12. rewrite E12. reflexivity.
      * rewrite (tpo_lt _ Ta _ _ _ E12 E23). reflexivity.
  - intros [a1 b1] [a2 b2] [a3 b3]; cbn.
    destruct (ca a1 a2) eqn:E12; try discriminate. intro H.
    rewrite (tpo_eq_l _ Ta _ _ _ E12). destruct (ca a2 a3); auto. apply (tpo_eq_l _ Tb). exact H.
Qed.

(* lexicographic on lists, prefix is smaller (Python tuple / str order) *)
Fixpoint cmp_lex {A} (c : A -> A -> comparison) (l1 l2 : list A) : comparison :=
  match l1, l2 with
  | [], [] => Eq | [], _ :: _ => Lt | _ :: _, [] => Gt
  | x :: r1, y :: r2 => match c x y with Eq => cmp_lex c r1 r2 | o => o end
  end.
Lemma tpo_lex {A} (c : A -> A -> comparison) : TPO c -> TPO (cmp_lex c).
Proof.
  intros T. constructor.
  - induction a as [|x r IH]; cbn; auto. rewrite (tpo_refl _ T). exact IH.
  - induction a as [|x r IH]; intros [|y s]; cbn; auto.
    rewrite (tpo_sym _ T x y). destruct (c x y); cbn; auto.
  - induction a as [|x r IH]; intros [|y s] [|z t]; cbn; try discriminate; auto.
    destruct (c x y) eqn:E12; try discriminate.
    + rewrite (tpo_eq_l _ T _ _ _ E12). destruct (c y z); try discriminate; auto. apply IH.
    + destruct (c y z) eqn:E23; try discriminate; intros _ H.
      * rewrite (tpo_eq_r _ T x _ _ E23) in E12. rewrite E12. reflexivity.
      * rewrite (tpo_lt _ T _ _ _ E12 E23). reflexivity.
  - induction a as [|x r IH]; intros [|y s] l3; cbn; try discriminate; auto.
    destruct (c x y) eqn:E12; try discriminate. intro H.
    destruct l3 as [|z t]; cbn; auto.
    rewrite (tpo_eq_l _ T _ _ _ E12). destruct (c y z); auto.
Qed.
