From Coq Require Import List Bool Lia Arith PeanoNat.
Import ListNotations.
From UV.Base Require Import Order.

Section Pad.
Context {A} (c : A -> A -> comparison) (T : TPO c) (d : A).

Fixpoint vs_pad_l (l : list A) : comparison :=
  match l with [] => Eq | x :: r => match c x d with Eq => vs_pad_l r | o => o end end.
Fixpoint vs_pad_r (l : list A) : comparison :=
  match l with [] => Eq | y :: r => match c d y with Eq => vs_pad_r r | o => o end end.
Fixpoint cmp_pad (l1 l2 : list A) : comparison :=
  match l1, l2 with
  | [], _ => vs_pad_r l2
  | _, [] => vs_pad_l l1
  | x :: r1, y :: r2 => match c x y with Eq => cmp_pad r1 r2 | o => o end
  end.

Definition pad (n : nat) (l : list A) := l ++ repeat d (n - length l).

Lemma lex_repeat n : cmp_lex c (repeat d n) (repeat d n) = Eq.
Proof. induction n; cbn; auto. rewrite (tpo_refl _ T). exact IHn. Qed.

Lemma vs_pad_r_lex : forall l n, length l <= n -> vs_pad_r l = cmp_lex c (repeat d n) (pad n l).
Proof.
  induction l as [|y r IH]; intros n Hn; unfold pad; cbn [length app].
  - rewrite Nat.sub_0_r. cbn. symmetry. apply lex_repeat.
  - destruct n as [|n]; cbn in Hn; [lia|]. cbn [repeat cmp_lex vs_pad_r Nat.sub].
    destruct (c d y); auto. apply IH. lia.
Qed.
Lemma vs_pad_l_lex : forall l n, length l <= n -> vs_pad_l l = cmp_lex c (pad n l) (repeat d n).
Proof.
  induction l as [|y r IH]; intros n Hn; unfold pad; cbn [length app].
  - rewrite Nat.sub_0_r. cbn. symmetry. apply lex_repeat.
  - destruct n as [|n]; cbn in Hn; [lia|]. cbn [repeat cmp_lex vs_pad_l Nat.sub].
    destruct (c y d); auto. apply IH. lia.
Qed.

Lemma cmp_pad_lex : forall l1 l2 n, length l1 <= n -> length l2 <= n ->
  cmp_pad l1 l2 = cmp_lex c (pad n l1) (pad n l2).
Proof.
  induction l1 as [|x r1 IH]; intros l2 n H1 H2.
  - cbn [cmp_pad]. rewrite (vs_pad_r_lex l2 n H2). unfold pad at 1. cbn. rewrite Nat.sub_0_r. reflexivity.
  - destruct l2 as [|y r2].
    + cbn [cmp_pad]. rewrite (vs_pad_l_lex (x :: r1) n H1). unfold pad at 2. cbn. rewrite Nat.sub_0_r. reflexivity.
    + destruct n as [|n]; cbn in H1, H2; [lia|]. unfold pad. cbn [cmp_pad length app Nat.sub cmp_lex].
      destruct (c x y); auto. apply IH; lia.
Qed.

Theorem tpo_pad : TPO cmp_pad.
Proof.
  pose proof (tpo_lex c T) as TL.
  constructor.
  - intros a. rewrite (cmp_pad_lex a a (length a)) by lia. apply (tpo_refl _ TL).
  - intros a b. set (n := max (length a) (length b)).
    rewrite (cmp_pad_lex b a n), (cmp_pad_lex a b n) by lia. apply (tpo_sym _ TL).
  - intros a b e. set (n := max (length a) (max (length b) (length e))).
    rewrite (cmp_pad_lex a b n), (cmp_pad_lex b e n), (cmp_pad_lex a e n) by lia. apply (tpo_lt _ TL).
  - intros a b e. set (n := max (length a) (max (length b) (length e))).
    rewrite (cmp_pad_lex a b n), (cmp_pad_lex b e n), (cmp_pad_lex a e n) by lia. apply (tpo_eq_l _ TL).
Qed.
End Pad.
