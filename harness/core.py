"""Pipeline shared by every check: translate -> build -> proofs status -> driver ->
decision -> evidence.  See DESIGN.md section 2.2."""
import fcntl
import json
import os
import re
import shutil
import subprocess
import sys
import time

from harness import common
from harness.common import BUILD, COQ, EVID, REPLAY, VERIF

ALLOWED_AXIOMS = set()  # target: none; anything listed here must be named in DESIGN.md section 8

TRUSTED_BASE = [
    "Coq 8.16.1 kernel incl. vm_compute (no native_compute)",
    "harness/translator.py (regenerates coq/Gen/Tables.v from /repo on every run)",
    "extraction: ExtrOcamlBasic only, Z kept as the Coq datatype; OCaml 4.13.1; ocaml/driver.ml",
    "correspondence harness (generators, canonicalisation, differ) and CPython 3.12 / attrs / third-party libs as modelled",
    "hand-written specifications in coq/Vers/Spec.v and coq/Schemes/*Spec*.v (read from the property text)",
]


class Ctx:
    def __init__(self, pid, tier, seed):
        self.pid = pid
        self.tier = tier
        self.seed = seed
        self.t0 = time.time()
        self.log = []
        self.tables = None
        self.tables_hash = None
        self.build_ok = False
        self.build_msg = ""
        self.driver = os.path.join(BUILD, "ocaml", "driver")

    def say(self, *a):
        msg = " ".join(str(x) for x in a)
        self.log.append(msg)
        print(msg, flush=True)


# ---------------------------------------------------------------------------- build
def _make(ctx, keep_going=False):
    args = ["make", "-C", COQ, "-j16"]
    if keep_going:
        args.append("-k")
    rc, out, err, dt = common.run(["timeout", "1500"] + args, timeout=1600)
    return rc, out + err, dt


def ensure_makefile():
    mk = os.path.join(COQ, "Makefile")
    cp = os.path.join(COQ, "_CoqProject")
    if not os.path.exists(mk) or os.path.getmtime(mk) < os.path.getmtime(cp):
        subprocess.run(["coq_makefile", "-f", "_CoqProject", "-o", "Makefile"], cwd=COQ, check=True,
                       stdout=subprocess.DEVNULL, stderr=subprocess.DEVNULL)


def build_driver(ctx):
    od = os.path.join(BUILD, "ocaml")
    src = os.path.join(VERIF, "ocaml", "driver.ml")
    model = os.path.join(od, "model.ml")
    exe = os.path.join(od, "driver")
    if not os.path.exists(model):
        return False, "model.ml missing (extraction did not run)"
    stamp = os.path.join(od, ".stamp")
    key = common.sha(open(model).read() + open(src).read())
    if os.path.exists(exe) and os.path.exists(stamp) and open(stamp).read() == key:
        return True, "driver up to date"
    shutil.copy(src, os.path.join(od, "driver.ml"))
    rc, out, err, dt = common.run(
        ["timeout", "300", "ocamlfind", "ocamlopt", "-w", "-a", "model.mli", "model.ml", "driver.ml", "-o", "driver"],
        cwd=od, timeout=320)
    if rc != 0:
        return False, "ocamlopt failed: " + (out + err)[-2000:]
    with open(stamp, "w") as f:
        f.write(key)
    return True, "driver rebuilt in %.1fs" % dt


def translate_and_build(ctx):
    """Regenerate Tables.v from /repo and rebuild what depends on it (under a lock)."""
    from harness import translator

    os.makedirs(BUILD, exist_ok=True)
    os.makedirs(os.path.join(BUILD, "ocaml"), exist_ok=True)
    with open(os.path.join(BUILD, ".lock"), "w") as lk:
        fcntl.flock(lk, fcntl.LOCK_EX)
        try:
            T, changed, h = translator.regenerate()
        except translator.TranslatorError as e:
            ctx.translator_error = str(e)
            ctx.say("translator: FAILED (fail-closed):", e)
            return False
        except Exception as e:  # noqa
            ctx.translator_error = repr(e)
            ctx.say("translator: FAILED with unexpected exception:", repr(e))
            return False
        ctx.translator_error = None
        ctx.tables, ctx.tables_hash = T, h
        ctx.say(f"translator: Gen/Tables.v {'regenerated (content changed)' if changed else 'unchanged'} sha={h}")
        ensure_makefile()
        rc, out, dt = _make(ctx)
        if rc != 0:
            ctx.say("build: make failed, retrying with -k to build everything that still builds")
            rc2, out2, dt2 = _make(ctx, keep_going=True)
            ctx.build_msg = out[-3000:]
            ctx.build_ok = False
        else:
            ctx.build_ok = True
            ctx.build_msg = "make ok in %.1fs" % dt
        ok, msg = build_driver(ctx)
        ctx.driver_ok = ok
        ctx.say("build:", "coq " + ("ok" if ctx.build_ok else "FAILED") + ";", msg)
        if not ctx.build_ok:
            m = re.findall(r'File "([^"]+)", line (\d+).*?\n(Error:.*?)(?:\n\n|\Z)', out, re.S)
            for f, ln, e in m[:5]:
                ctx.say(f"  coq error in {f}:{ln}: {e[:300]}")
    return True


# ---------------------------------------------------------------------------- proofs
def check_props_file(ctx, pid=None):
    """Compile coq/Props/<pid>.v on its own and read what Print Assumptions says.
    Returns dict(obligations, discharged, theorems=[{name, status, axioms}], ok, error)."""
    pid = pid or ctx.pid
    path = os.path.join(COQ, "Props", pid + ".v")
    if not os.path.exists(path):
        return dict(obligations=0, discharged=0, theorems=[], ok=False, error="no Props file")
    src = open(path).read()
    theorems = re.findall(r"^(?:Theorem|Corollary)\s+([A-Za-z0-9_']+)", src, re.M)
    printed = re.findall(r"^Print Assumptions\s+([A-Za-z0-9_'.]+)\s*\.", src, re.M)
    # forbidden vernacular anywhere in the development
    rc, out, err, dt = common.run(
        ["timeout", "600", "coqc", "-Q", ".", "UV", "-w", "-notation-overridden", "Props/%s.v" % pid], cwd=COQ, timeout=620)
    res = dict(obligations=len(theorems), discharged=0, theorems=[], ok=False, error=None, wall_s=dt,
               checker_cmd="make -C coq (coqc 8.16.1, full .vo build) && coqc -Q . UV Props/%s.v" % pid)
    if rc != 0:
        res["error"] = (out + err)[-1500:]
        res["theorems"] = [dict(name=t, status="unchecked") for t in theorems]
        return res
    # split the output into one block per Print Assumptions
    blocks = re.split(r"(?=Closed under the global context|Axioms:)", out)
    blocks = [b for b in blocks if b.startswith("Closed") or b.startswith("Axioms:")]
    status = {}
    for name, b in zip(printed, blocks):
        if b.startswith("Closed"):
            status[name] = ("closed", [])
        else:
            ax = re.findall(r"^([A-Za-z0-9_'.]+)\s*:", b[len("Axioms:"):], re.M)
            status[name] = ("axioms", ax)
    ok = True
    for t in theorems:
        st = status.get(t)
        if st is None:
            res["theorems"].append(dict(name=t, status="no Print Assumptions"))
            ok = False
        elif st[0] == "closed":
            res["theorems"].append(dict(name=t, status="closed under the global context"))
            res["discharged"] += 1
        else:
            bad = [a for a in st[1] if a not in ALLOWED_AXIOMS]
            res["theorems"].append(dict(name=t, status="axioms", axioms=st[1]))
            if bad:
                ok = False
            else:
                res["discharged"] += 1
    res["ok"] = ok and res["discharged"] == res["obligations"] and res["obligations"] > 0
    return res


def forbidden_vernacular():
    """grep the whole development for constructs the brief forbids."""
    pat = re.compile(r"\b(Admitted|admit|Axiom|Axioms|Parameter|Parameters|Conjecture|Admit Obligations|Unset Guard Checking|"
                     r"Unset Positivity Checking|Unset Universe Checking|bypass_check|native_compute)\b")
    hits = []
    for root, _, files in os.walk(COQ):
        for f in files:
            if f.endswith(".v"):
                p = os.path.join(root, f)
                txt = open(p).read()
                txt = re.sub(r"\(\*.*?\*\)", "", txt, flags=re.S)
                for m in pat.finditer(txt):
                    hits.append(f"{os.path.relpath(p, COQ)}: {m.group(0)}")
    return hits


# ---------------------------------------------------------------------------- driver
def run_driver(ctx, lines):
    """Feed request lines to the extracted model; return the list of answers."""
    if not lines:
        return []
    p = subprocess.run([ctx.driver], input="\n".join(lines) + "\n", capture_output=True, text=True, timeout=3600)
    if p.returncode != 0:
        raise RuntimeError("driver failed: " + p.stderr[-500:])
    out = p.stdout.split("\n")
    if out and out[-1] == "":
        out.pop()
    if len(out) != len(lines):
        raise RuntimeError(f"driver answered {len(out)} lines for {len(lines)} requests")
    return out


def run_coq_eval(ctx, name, defs_and_evals, timeout=600):
    """Evaluate terms inside Coq (vm_compute); used to cross-check extraction + driver."""
    d = os.path.join(BUILD, "cases")
    os.makedirs(d, exist_ok=True)
    path = os.path.join(d, name + ".v")
    with open(path, "w") as f:
        f.write(defs_and_evals)
    rc, out, err, dt = common.run(["timeout", str(timeout), "coqc", "-Q", COQ, "UV", "-w", "-notation-overridden", path],
                                  cwd=d, timeout=timeout + 20)
    return rc, out, err


# ---------------------------------------------------------------------------- findings
def load_findings(pid):
    p = os.path.join(VERIF, "known_findings.json")
    if not os.path.exists(p):
        return []
    data = json.load(open(p))
    return [e for e in data.get("entries", []) if e.get("property") == pid]


# ---------------------------------------------------------------------------- verdict
def write_replay(ctx, n, obj):
    os.makedirs(REPLAY, exist_ok=True)
    path = os.path.join(REPLAY, f"{ctx.pid}-{n}.json")
    obj = dict(obj)
    obj.setdefault("property", ctx.pid)
    obj.setdefault("seed", ctx.seed)
    obj.setdefault("command", f"./check {ctx.pid} --replay {path}")
    common.jdump(path, obj)
    return path


def finish(ctx, proofs, coverage, violations, known_seen, assumptions=None, extra=None):
    """Write evidence, print the verdict lines, return the exit code.
    `violations` is a list of dicts(kind, stage, what, inputs, observed, expected)."""
    cov = dict(coverage)
    cov["obligations"] = proofs.get("obligations", 0)
    cov["discharged"] = proofs.get("discharged", 0)
    cov["checker_cmd"] = proofs.get("checker_cmd", "make -C coq")
    cov["trusted_base"] = TRUSTED_BASE + ["axioms reported by Print Assumptions: " + (
        "none (every theorem closed under the global context)" if all(
            t.get("status", "").startswith("closed") for t in proofs.get("theorems", [])) and proofs.get("theorems") else
        json.dumps([t for t in proofs.get("theorems", []) if not t.get("status", "").startswith("closed")]))]
    cov["theorems"] = proofs.get("theorems", [])
    cov["tables_sha"] = ctx.tables_hash
    cov["known_findings_seen"] = known_seen
    if extra:
        cov.update(extra)
    ev = dict(property_id=ctx.pid, tier=ctx.tier, seed=ctx.seed, level="proof", coverage=cov,
              assumptions=assumptions or [], wall_s=round(time.time() - ctx.t0, 2), violations=len(violations))
    common.jdump(os.path.join(EVID, ctx.pid + ".json"), ev)
    for k in known_seen:
        print(f"KNOWN-FINDING: property={ctx.pid} {k}", flush=True)
    if not violations:
        print(f"OK property={ctx.pid} tier={ctx.tier} theorems={cov['discharged']}/{cov['obligations']} "
              f"evaluations={cov.get('evaluations', 0)} wall={ev['wall_s']}s", flush=True)
        return 0
    for i, v in enumerate(violations[:5]):
        path = write_replay(ctx, i, v)
        tail = "" if v.get("kind") == "counterexample" else " no-failing-input-found"
        print(f"VIOLATION property={ctx.pid} replay={path}{tail}", flush=True)
        print("  " + str(v.get("what", ""))[:400], flush=True)
    return 1
