"""C18 — successor and bound helpers bracket the version they start from."""
import random

from harness import common, core, dense, gens, schemes, text, vers


def run(ctx):
    proofs = core.check_props_file(ctx)
    ctx.say(f"proofs: {proofs['discharged']}/{proofs['obligations']} discharged" + ("" if proofs["ok"] else " -- NOT OK: " + str(proofs.get("error"))[-600:]))
    vc, vr, vs = vers.impl()
    from univers import gem, univers_semver
    r = random.Random(ctx.seed)
    n = 400 if ctx.tier == "quick" else 8000
    evals = 0
    diffs, violations, samples = [], [], []
    nontrivial = set()

    def viol(what, **kw):
        if len(violations) < 40:
            violations.append(dict(kind="counterexample", stage="search", what=what, **kw))

    # ---- semver family: successors, against the laws and against the model
    reqs, wants = [], []
    for cname in ("SemverVersion", "NginxVersion", "GolangVersion", "ComposerVersion"):
        cls = getattr(vs, cname)
        pool = gens.near_pool(r, cls, n) + gens.valid_pool(r, cls, n // 2)
        seen_txt = {v.string for v in pool}
        for fam in dense.families(r, cls, 2 if ctx.tier == "quick" else 20):      # same base, every suffix and decoration
            for v in fam:
                if v.string not in seen_txt:
                    seen_txt.add(v.string)
                    pool.append(v)
        for v in pool:
            evals += 1
            try:
                p, m, M = v.next_patch(), v.next_minor(), v.next_major()
                ok = (v < p) and (p <= m) and (m <= M) and (v < m) and (v < M) and not (p < v)
            except Exception as e:  # noqa
                viol(f"{cname}({v.string!r}): successors raised {e!r}", inputs=dict(version_class=cname, version=v.string))
                continue
            nontrivial.add((cname, v.string))
            if not ok:
                viol(f"{cname}({v.string!r}): next_patch/minor/major = {p}, {m}, {M} do not satisfy v < patch <= minor <= major",
                     inputs=dict(version_class=cname, version=v.string), observed=[str(p), str(m), str(M)])
            if cname in ("SemverVersion", "NginxVersion") and all(ord(c) < 128 for c in v.string):
                for k, x in enumerate((p, m, M)):
                    reqs.append(f"svnext {k} {text.hx(v.string)}")
                    wants.append(("OK " + text.hx(str(x)), v.string))
                if cname == "NginxVersion":
                    reqs.append(f"svstable {text.hx(v.string)}")
                    wants.append(("OK " + ("true" if v.is_stable else "false"), v.string))
        if pool and len(samples) < 6:
            v = pool[0]
            samples.append(dict(version_class=cname, version=v.string, next=[str(v.next_patch()), str(v.next_minor()), str(v.next_major())]))
    # ---- caret / tilde / pessimistic shorthand over fully specified versions
    shorthand = [(v, str(v)) for v in gens.near_pool(r, vs.SemverVersion, n)]
    # short and long segment counts as they are written (a fourth and later segment is kept as build metadata): every
    # spelling of one to three segments over a few numbers, and a sample of the four- to six-segment ones
    import itertools
    dotted = [".".join(c) for k in (1, 2, 3) for c in itertools.product(["0", "1", "9", "10"], repeat=k)]
    for k in (4, 5, 6):
        dotted += [".".join(r.choice(["0", "1", "2", "9", "10", "99"]) for _ in range(k)) for _ in range(40 if ctx.tier == "quick" else 600)]
    for s_ in dotted:
        try:
            shorthand.append((vs.SemverVersion(s_), s_))
        except Exception:  # noqa
            pass
    for v, t in shorthand:
        for prefix, f in (("^", univers_semver.get_caret_constraints), ("~", univers_semver.get_tilde_constraints), ("~>", univers_semver.get_pessimistic_constraints)):
            evals += 1
            try:
                lo, hi = f(prefix + t)
                ok = (lo.version < hi.version) and (v in lo) and (v in hi) and lo.comparator == ">=" and hi.comparator == "<"
            except Exception as e:  # noqa
                viol(f"{f.__name__}({prefix + t!r}) raised {e!r}", inputs=dict(expression=prefix + t))
                continue
            if not ok:
                viol(f"{f.__name__}({prefix + t!r}) = {lo}, {hi}: lower < upper and the version satisfying both do not hold",
                     inputs=dict(expression=prefix + t), observed=[str(lo), str(hi)])
    # ---- gem: bump, release, pessimistic constraint
    gem_reqs, gem_wants = [], []
    for v in gens.near_pool(r, vs.RubygemsVersion, n) + gens.valid_pool(r, vs.RubygemsVersion, n // 2):
        g = v.value
        evals += 1
        try:
            b, rel = g.bump(), g.release()
            ok = (g < b) and not (g > rel) and not rel.prerelease() and not (rel < g)
        except Exception as e:  # noqa
            viol(f"GemVersion({v.string!r}): bump/release raised {e!r}", inputs=dict(version=v.string))
            continue
        nontrivial.add(("gem", v.string))
        # the model the gem theorem is about: canonical segments of bump() and release()
        if all(ord(ch) < 127 for ch in v.string):
            seg = lambda gv: ".".join(str(x) for x in gv.canonical_segments)
            gem_reqs.append(f"gemhelpers {text.hx(v.string)}")
            gem_wants.append((v.string, "OK " + " ".join(text.hx(t) for t in (seg(b), seg(rel), seg(g)))))
        if not ok:
            viol(f"GemVersion({v.string!r}): bump = {b}, release = {rel}: expected v < bump, v <= release, release without pre-release part",
                 inputs=dict(version=v.string), observed=[str(b), str(rel)])
        try:
            lo, hi = gem.get_tilde_constraints(gem.GemConstraint("~>", g))
            ok2 = (lo.version < hi.version) and (g >= lo.version) and (g < hi.version) and lo.op == ">=" and hi.op == "<"
        except Exception as e:  # noqa
            viol(f"gem.get_tilde_constraints(~> {v.string}) raised {e!r}", inputs=dict(version=v.string))
            continue
        evals += 1
        if not ok2:
            viol(f"gem '~> {v.string}' gives {lo}, {hi}: lower < upper and the version satisfying both do not hold", inputs=dict(version=v.string), observed=[str(lo), str(hi)])
    if len(samples) < 8:
        g = gem.GemVersion("1.2.3.a4")
        samples.append(dict(gem="1.2.3.a4", bump=str(g.bump()), release=str(g.release())))
    # ---- conan: upper_bound and bump at every valid index
    for v in gens.valid_pool(r, vs.ConanVersion, n, gen=gens.conan_num) + gens.near_pool(r, vs.ConanVersion, n // 2, gen=gens.conan_num):
        items = v.value.main
        for i in range(len(items)):
            if not isinstance(items[i].value, int):
                continue
            evals += 1
            try:
                ub, bp = v.upper_bound(i), v.bump(i)
                ok = (v.value < ub) and (ub < bp)
            except Exception as e:  # noqa
                viol(f"ConanVersion({v.string!r}).upper_bound/bump({i}) raised {e!r}", inputs=dict(version=v.string, index=i))
                continue
            if gens.conan_mixed(v.value._value, ub._value) or gens.conan_mixed(ub._value, bp._value):
                continue  # number-vs-word in one position: the order is excluded there (C01), e.g. a main part with a dash
            nontrivial.add(("conan", v.string, i))
            if not ok:
                viol(f"ConanVersion({v.string!r}): upper_bound({i}) = {ub}, bump({i}) = {bp}: expected v < upper_bound < bump",
                     inputs=dict(version=v.string, index=i), observed=[str(ub), str(bp)])
    for q, g, (sv, w) in zip(gem_reqs, core.run_driver(ctx, gem_reqs), gem_wants):
        evals += 1
        if g != w:
            diffs.append(dict(request=q, version=sv, model=g, impl=w))
    got = core.run_driver(ctx, reqs)
    evals += len(reqs)
    for q, g, (w, s) in zip(reqs, got, wants):
        if g != w:
            diffs.append(dict(request=q, version=s, model=g, impl=w))
    if not violations and (diffs or not proofs["ok"]):
        what = ("theorems of Props/C18.v no longer check: " + str(proofs.get("error"))[-400:]) if not proofs["ok"] else \
            ("model and implementation differ: " + str(diffs[0]))
        violations.append(dict(kind="no-failing-input-found", stage="proof" if not proofs["ok"] else "correspondence",
                               theorem_or_stream="Props/C18.v" if not proofs["ok"] else "semver successors vs Schemes/Semver.v", what=what, diffs=diffs[:10]))
    cov = dict(evaluations=evals, distinct_nontrivial=len(nontrivial),
               rule="near-pair and grammar pools of the four semver-family classes (successors: laws and model correspondence; nginx stability), caret/tilde/pessimistic helpers over "
                    "printed semver versions, gem bump/release/~> and conan upper_bound/bump at every numeric index; non-trivial = distinct versions (and indices) evaluated",
               samples=samples, model_impl_differences=len(diffs))
    return core.finish(ctx, proofs, cov, violations, [],
                       assumptions=["theorems cover the semver family; gem and conan helpers are evaluated on the implementation only"])
