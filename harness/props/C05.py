"""C05 — vers text and range objects round-trip losslessly and canonically."""
import random

from harness import common, core, dense, gens, text, vers


def run(ctx):
    proofs = core.check_props_file(ctx)
    ctx.say(f"proofs: {proofs['discharged']}/{proofs['obligations']} discharged" + ("" if proofs["ok"] else " -- NOT OK: " + str(proofs.get("error"))[-600:]))
    vc, vr, vs = vers.impl()
    r = random.Random(ctx.seed)
    nper = 60 if ctx.tier == "quick" else 1500
    evals = 0
    diffs, violations, samples = [], [], []
    nontrivial = set()

    def viol(what, **kw):
        violations.append(dict(kind="counterexample", stage="search", what=what, **kw))

    # ---- registry: every range class that prints a scheme is the registry's entry for it
    T = ctx.tables
    for R in (T["rclasses"] if T else []):
        evals += 1
        if R.scheme is not None and vr.RANGE_CLASS_BY_SCHEMES.get(R.scheme) is not R:
            viol(f"{R.__name__} prints 'vers:{R.scheme}/' but the registry maps {R.scheme!r} to {vr.RANGE_CLASS_BY_SCHEMES.get(R.scheme)!r}",
                 inputs=dict(range_class=R.__name__, scheme=R.scheme))
    for name, R in vr.RANGE_CLASS_BY_SCHEMES.items():
        evals += 1
        if R.scheme != name:
            viol(f"registry maps {name!r} to {R.__name__} which prints {R.scheme!r}", inputs=dict(scheme=name))
    # ---- print -> parse -> print on every registered scheme
    classes = list(vr.RANGE_CLASS_BY_SCHEMES.values())
    for R in classes:
        s = vers.Scheme(r, R.version_class, 14)
        if not s.ok():
            ctx.say("no ladder for", R.scheme)
            continue
        # only versions whose printed text is delimiter-free are in the property's domain
        lad = [v for v in s.lad if text.version_ok(v)]
        if len(lad) < 4:
            continue
        s.lad = lad
        for k in range(nper):
            n = r.randint(1, 8)
            cons = text.random_range(r, s, n, distinct=(k % 4 != 0))
            if k % 25 == 0:
                cons = [vc.VersionConstraint(comparator="*", version_class=R.version_class)]
            try:
                rng = R(constraints=cons)
                t = str(rng)
                back = vr.VersionRange.from_string(t)
                t2 = str(back)
            except Exception as e:  # noqa
                viol(f"{R.scheme}: printing/parsing {[str(c) for c in cons]} raised {e!r}", inputs=dict(scheme=R.scheme, constraints=[str(c) for c in cons]))
                continue
            evals += 1
            if len(cons) >= 2:
                nontrivial.add(t)
            if not (back == rng) or type(back) is not R or back.scheme != R.scheme:
                viol(f"{R.scheme}: from_string({t!r}) is not equal to the printed range (got {back!r} of {type(back).__name__})", inputs=dict(scheme=R.scheme, text=t))
            if t2 != t:
                viol(f"{R.scheme}: printing again gives {t2!r} instead of {t!r}", inputs=dict(scheme=R.scheme, text=t), observed=t2, expected=t)
            # the same range built from a tuple in another order (reversed, rotated): it too is read back from its text
            if len(cons) >= 2:
                for alt in (tuple(reversed(cons)), tuple(cons[1:] + cons[:1])):
                    evals += 1
                    try:
                        ralt = R(constraints=alt)
                        ok_alt = (vr.VersionRange.from_string(str(ralt)) == ralt) and str(ralt) == t and ralt.to_dict() == rng.to_dict()
                    except Exception as e:  # noqa
                        ok_alt = False
                    if not ok_alt:
                        viol(f"{R.scheme}: the range built from the tuple {[str(c) for c in alt]} is not read back from its text {t!r}", inputs=dict(scheme=R.scheme, constraints=[str(c) for c in alt]))
                        break
            # canonical form: version order, "=" implicit
            body = t.split("/", 1)[1]
            want = "|".join(("" if c.comparator == "=" else c.comparator) + str(c.version) if c.comparator != "*" else "*" for c in sorted(cons))
            if body != want or not t.startswith(f"vers:{R.scheme}/"):
                viol(f"{R.scheme}: printed form {t!r} is not the version-ordered list {want!r}", inputs=dict(scheme=R.scheme, constraints=[str(c) for c in cons]), observed=body, expected=want)
            d = rng.to_dict()
            wd = dict(scheme=R.scheme, constraints=[dict(comparator=c.comparator, version=str(c.version)) for c in rng.constraints])
            if d != wd or back.to_dict() != d:
                viol(f"{R.scheme}: to_dict() {d!r} does not carry the scheme, comparators and version texts of {t!r}", inputs=dict(scheme=R.scheme, text=t), observed=d, expected=wd)
            if k % 29 == 0 and len(samples) < 10:
                samples.append(dict(scheme=R.scheme, text=t))
    # ---- model correspondence on the generic scheme (the whole text layer is executable there)
    G = text.ensure_generic_scheme()
    alph = "0123456789.abAB-+~_"
    reqs, wants, descr = [], [], []
    for _ in range(300 if ctx.tier == "quick" else 6000):
        n = r.randint(1, 6)
        cons = []
        for _ in range(n):
            vt = "".join(r.choice(alph) for _ in range(r.randint(1, 5)))
            cons.append(vc.VersionConstraint(comparator=vers.TEXT[r.choice(vers.OPS)], version=vs.GenericVersion(vt)))
        try:
            rng = G(constraints=cons)
            t = str(rng)
            body = t.split("/", 1)[1]
            w1 = "OK " + text.hx(body)
        except Exception as e:  # noqa
            w1 = "ERR " + vers.err_name(e)
            body = None
        reqs.append("gprint " + text.gclist_text(cons)); wants.append(w1); descr.append([str(c) for c in cons])
        if body is not None:
            try:
                back = vr.VersionRange.from_string("vers:zzgen/" + body)
                w2 = "OK " + text.gclist_text(back.constraints)
            except Exception as e:  # noqa
                w2 = "ERR " + vers.err_name(e)
            reqs.append(f"gparse {text.hx(body)} 0 0"); wants.append(w2); descr.append(body)
    got = core.run_driver(ctx, reqs)
    evals += len(reqs)
    for q, g, w, d in zip(reqs, got, wants, descr):
        if g != w:
            diffs.append(dict(request=q, what=d, model=g, impl=w))
    # ---- the same statement on dense families of versions (one edit apart, equal under another spelling): harness/dense.py
    dense_ev, dense_per = dense.run(ctx, "C05", r, lambda what, **kw: violations.append(dict(kind="counterexample", stage="search", what=what, **kw)))
    evals += dense_ev
    if not violations and (diffs or not proofs["ok"]):
        what = ("theorems of Props/C05.v no longer check: " + str(proofs.get("error"))[-400:]) if not proofs["ok"] else \
            ("model and implementation differ: " + str(diffs[0]))
        violations.append(dict(kind="no-failing-input-found", stage="proof" if not proofs["ok"] else "correspondence",
                               theorem_or_stream="Props/C05.v" if not proofs["ok"] else "text layer on the generic scheme", what=what, diffs=diffs[:10]))
    cov = dict(evaluations=evals, dense_pairs=dense_per, distinct_nontrivial=len(nontrivial),
               rule=f"{nper} random ranges (1-8 constraints, any comparators, shuffled construction order, one in four with repeated versions, '*') for each of the "
                    f"{len(classes)} registered schemes with versions from the scheme grammar whose printed text is delimiter-free: print, parse, compare, print again, printed "
                    "form vs the version-ordered list, to_dict; registry vs every range class; print/parse of the model vs the implementation on the generic scheme; "
                    "non-trivial = distinct printed texts with >=2 constraints",
               samples=samples, schemes=[R.scheme for R in classes], model_impl_differences=len(diffs))
    return core.finish(ctx, proofs, cov, violations, [],
                       assumptions=["C11 of the scheme (printed version text re-constructs to an equal version)", "round trip is proved for ranges with pairwise inequivalent versions; others are covered by the correspondence"])
