"""C17 — meaning is stable under any sequence of presentation-level operations."""
import random

from harness import common, core, dense, text, vers

OPS = ["printparse", "permute", "simplify", "validate", "invert2", "parse_s", "parse_v", "parse_sv"]


def run(ctx):
    proofs = core.check_props_file(ctx)
    ctx.say(f"proofs: {proofs['discharged']}/{proofs['obligations']} discharged" + ("" if proofs["ok"] else " -- NOT OK: " + str(proofs.get("error"))[-600:]))
    vc, vr, vs = vers.impl()
    r = random.Random(ctx.seed)
    nwalks = 250 if ctx.tier == "quick" else 5000
    maxsteps = 12 if ctx.tier == "quick" else 40
    maxlen = 8
    L = 2 * maxlen + 2
    # schemes that are registered (print+parse needs the vers text)
    cands = [c for c in vr.RANGE_CLASS_BY_SCHEMES.values()]
    r.shuffle(cands)
    schemes = []
    seen = set()
    for rc in [vr.RANGE_CLASS_BY_SCHEMES["npm"], vr.RANGE_CLASS_BY_SCHEMES["pypi"]] + cands:
        if rc.version_class.__name__ in seen:
            continue
        s = vers.Scheme(r, rc.version_class, L)
        if s.ok():
            s.rcls = rc
            schemes.append(s)
            seen.add(rc.version_class.__name__)
        if len(schemes) >= (4 if ctx.tier == "quick" else 12):
            break
    ctx.say("schemes:", [s.rcls.scheme for s in schemes])
    evals = 0
    diffs, violations, samples = [], [], []
    nontrivial = set()
    op_hist = {o: 0 for o in OPS}

    def viol(what, **kw):
        violations.append(dict(kind="counterexample", stage="search", what=what, **kw))

    # generate walks first so the model can be run in one batch per step layer
    walks = []
    for w in range(nwalks):
        s = schemes[w % len(schemes)]
        n = r.randint(1, maxlen)
        pat = vers.random_wf_pattern(r, n)
        if r.random() < 0.05:
            pat = [("*", None)]
        ops = [r.choice(OPS) for _ in range(r.randint(1, maxsteps))]
        walks.append((s, pat, ops))
    # every comparator pattern of length <= 3 (the well-formed ones are kept below) as a start, with a short history
    small = [p for n in (1, 2, 3) for p in vers.all_patterns(n)]
    for i, pat in enumerate(small):
        walks.append((schemes[i % len(schemes)], list(pat), [r.choice(OPS) for _ in range(r.randint(1, 3))]))
    wf = dict(zip([vers.clist_text(p) for _, p, _ in walks], core.run_driver(ctx, ["wf " + vers.clist_text(p) for _, p, _ in walks])))
    for wi, (s, pat, ops) in enumerate(walks):
        t0 = vers.clist_text(pat)
        if wf[t0] != "OK true":
            continue
        star = pat == [("*", None)]
        rng = s.rcls(constraints=s.constraints(pat))
        # half of the walks start from text whose constraints are written in a shuffled order (a registered scheme only)
        if not star and len(pat) > 1 and wi % 2 == 0 and s.rcls.scheme in vr.RANGE_CLASS_BY_SCHEMES and vr.RANGE_CLASS_BY_SCHEMES[s.rcls.scheme] is s.rcls:
            parts = str(rng).split("/", 1)[1].split("|")
            r.shuffle(parts)
            start_text = f"vers:{s.rcls.scheme}/" + "|".join(parts)
            if all(text.version_ok(c.version) for c in rng.constraints):
                fs0 = ops and ops[0] == "simplify"
                try:
                    rng2 = vr.VersionRange.from_string(start_text, simplify=False, validate=False)
                    if not (rng2 == rng):
                        viol(f"{s.rcls.scheme}: {start_text!r} does not parse to the range {rng}", inputs=dict(start=start_text))
                    # the first operation of the history applied through the text parser on the shuffled text
                    if fs0:
                        simp_text = vr.VersionRange.from_string(start_text, simplify=True)
                        simp_obj = type(rng)(constraints=vc.VersionConstraint.simplify(list(rng.constraints)))
                        if not (simp_text == simp_obj) or str(simp_text) != str(simp_obj):
                            viol(f"{s.rcls.scheme}: parsing {start_text!r} with simplify gives {simp_text}, simplifying the same range gives {simp_obj}",
                                 inputs=dict(start=start_text, history=["parse_s"]), observed=str(simp_text), expected=str(simp_obj))
                except Exception as e:  # noqa
                    viol(f"{s.rcls.scheme}: parsing {start_text!r} raised {e!r}", inputs=dict(start=start_text))
        nprobe = 2 * len(pat) + 1 if not star else 3
        probes = [s.version(p) for p in range(1, nprobe + 1)]
        base = [vers.res_bool(lambda: v in rng) for v in probes]
        mbase = core.run_driver(ctx, [f"contains {t0} {p}" for p in range(1, nprobe + 1)])
        if base != mbase:
            diffs.append(dict(scheme=s.rcls.scheme, range=str(rng), what="initial membership vector", model=mbase, impl=base))
        state_model = t0
        settled_text = None
        hist = []
        for op in ops:
            if star and op == "invert2":
                continue
            hist.append(op)
            op_hist[op] += 1
            before = str(rng)
            try:
                if op == "printparse":
                    rng = vr.VersionRange.from_string(str(rng))
                    mreq = [f"sort {state_model}"]
                elif op == "permute":
                    cs = list(rng.constraints)
                    r.shuffle(cs)
                    pm = vers.parse_clist(state_model)
                    r.shuffle(pm)
                    rng = type(rng)(constraints=tuple(cs) if r.random() < 0.5 else cs)
                    mreq = [f"sort {vers.clist_text(pm)}"]
                elif op == "simplify":
                    rng = type(rng)(constraints=vc.VersionConstraint.simplify(list(rng.constraints)))
                    mreq = [f"simplify {state_model}"]
                elif op == "validate":
                    ok = vc.VersionConstraint.validate(list(rng.constraints))
                    if ok is not True:
                        viol(f"validate({rng}) returned {ok!r} after {hist}", inputs=dict(start=str(s.rcls(constraints=s.constraints(pat))), history=hist))
                    mreq = [f"validate {state_model}"]
                elif op == "invert2":
                    rng = rng.invert().invert()
                    mreq = [f"invert {state_model}"]
                else:
                    fs, fv = "s" in op[6:], "v" in op[6:]
                    rng = vr.VersionRange.from_string(str(rng), simplify=fs, validate=fv)
                    mreq = [f"sort {state_model}"] + ([f"simplify {state_model}"] if fs else []) + ([f"validate {state_model}"] if fv else [])
            except Exception as e:  # noqa
                viol(f"{s.rcls.scheme}: operation {op} on {before} raised {e!r} after history {hist}",
                     inputs=dict(start=str(s.rcls(constraints=s.constraints(pat))), history=hist))
                break
            evals += 1
            # model step
            ans = core.run_driver(ctx, mreq)
            if op == "invert2":
                a1 = ans[0]
                if a1.startswith("OK "):
                    a2 = core.run_driver(ctx, [f"invert {a1[3:]}"])[0]
                    state_model = a2[3:] if a2.startswith("OK ") else state_model
                    if not a2.startswith("OK "):
                        diffs.append(dict(what="model invert failed", state=state_model, ans=a2))
                else:
                    diffs.append(dict(what="model invert failed", state=state_model, ans=a1))
            elif op == "validate":
                if ans[0] != "OK true":
                    diffs.append(dict(what="model validate", state=state_model, ans=ans[0]))
            elif op.startswith("parse_"):
                for q, a in zip(mreq, ans):
                    if q.startswith("simplify") and a.startswith("OK "):
                        state_model = a[3:]
                    elif q.startswith("validate") and a != "OK true":
                        diffs.append(dict(what="model validate", state=state_model, ans=a))
                if "s" in op[6:]:
                    # validate is applied to the simplified list
                    pass
            else:
                if ans[0].startswith("OK "):
                    state_model = ans[0][3:]
                else:
                    diffs.append(dict(what="model step failed", op=op, state=state_model, ans=ans[0]))
            # observe: membership vector and canonical constraints
            now = [vers.res_bool(lambda: v in rng) for v in probes]
            evals += len(probes)
            if now != base:
                i = next(i for i in range(len(now)) if now[i] != base[i])
                viol(f"{s.rcls.scheme}: after {hist} starting from {s.rcls(constraints=s.constraints(pat))} the range is {rng} and membership of {probes[i].string!r} changed {base[i]} -> {now[i]}",
                     inputs=dict(start=str(s.rcls(constraints=s.constraints(pat))), history=hist, version=probes[i].string), observed=now[i], expected=base[i])
                break
            back = vers.clist_text(s.back(rng.constraints))
            if back != state_model:
                diffs.append(dict(scheme=s.rcls.scheme, what="constraints after step", op=op, history=list(hist), model=state_model, impl=back))
                state_model = back
            if settled_text is not None and str(rng) != settled_text:
                viol(f"{s.rcls.scheme}: canonical text changed after the first simplification: {settled_text} -> {rng} (history {hist})",
                     inputs=dict(start=str(s.rcls(constraints=s.constraints(pat))), history=hist), observed=str(rng), expected=settled_text)
                break
            if settled_text is None and (op == "simplify" or (op.startswith("parse_") and "s" in op[6:])):
                settled_text = str(rng)
        if len(hist) >= 3:
            nontrivial.add((s.rcls.scheme, t0, tuple(hist)))
        if wi % 61 == 0 and len(samples) < 8:
            samples.append(dict(scheme=s.rcls.scheme, start=str(s.rcls(constraints=s.constraints(pat))), history=hist, end=str(rng)))
    # ---- short histories on ranges over dense families of versions (case variants, zero padding, empty parts): harness/dense.py
    dense_ev, dense_per = dense.run(ctx, "C17", r, viol)
    evals += dense_ev
    if not violations and (diffs or not proofs["ok"]):
        what = ("theorems of Props/C17.v no longer check: " + str(proofs.get("error"))[-400:]) if not proofs["ok"] else \
            ("model and implementation differ: " + str(diffs[0]))
        violations.append(dict(kind="no-failing-input-found", stage="proof" if not proofs["ok"] else "correspondence",
                               theorem_or_stream="Props/C17.v" if not proofs["ok"] else "history walk vs model steps", what=what, diffs=diffs[:10]))
    cov = dict(evaluations=evals, dense_pairs=dense_per, distinct_nontrivial=len(nontrivial),
               rule=f"{nwalks} random walks of up to {maxsteps} operations over the alphabet {OPS} from random well-formed ranges (1..{maxlen} constraints, vacuous ones included, 5% '*') "
                    "of registered schemes; after every step the full membership vector over all probe positions (at/between/around) is compared with the initial one, the constraints with "
                    "the model's state, and the canonical text must be constant after the first simplification; non-trivial = distinct (scheme, range, history with >=3 operations)",
               samples=samples, operation_histogram=op_hist, schemes=[s.rcls.scheme for s in schemes], model_impl_differences=len(diffs))
    return core.finish(ctx, proofs, cov, violations, [], assumptions=["C01/C02/C12 and the text round trip C05/C11 of the scheme (print+parse = rebuild)"])
