"""C04 — range membership equals the interval-set meaning of the vers constraints."""
import random

from harness import common, core, dense, vers


def run(ctx):
    proofs = core.check_props_file(ctx)
    ctx.say(f"proofs: {proofs['discharged']}/{proofs['obligations']} discharged" + ("" if proofs["ok"] else " -- NOT OK: " + str(proofs.get("error"))[-600:]))
    vc, vr, vs = vers.impl()
    r = random.Random(ctx.seed)
    N = 4 if ctx.tier == "quick" else 6
    nrand = 300 if ctx.tier == "quick" else 6000
    maxlen = 12
    L = 2 * maxlen + 2
    schemes = vers.pick_schemes(r, L, want=4 if ctx.tier == "quick" else 7, always=("SemverVersion", "PypiVersion", "MavenVersion"))
    ctx.say("schemes:", [s.name for s in schemes])
    # ---- cases: (pattern, probes)
    cases = []
    for n in range(0, N + 1):
        for pat in vers.all_patterns(n):
            cases.append((pat, list(range(1, 2 * n + 2))))
    cases.append(([("*", None)], [1, 2, 3]))
    n_exh = len(cases)
    for _ in range(nrand):
        n = r.randint(N + 1, maxlen)
        pat = vers.random_wf_pattern(r, n)
        if r.random() < 0.3:  # mutate one comparator: mostly ill-formed neighbours
            i = r.randrange(n)
            pat[i] = (r.choice(vers.OPS), pat[i][1])
        cases.append((pat, list(range(1, 2 * n + 2))))
    # ---- model
    reqs = []
    for pat, probes in cases:
        t = vers.clist_text(pat)
        reqs.append(f"wf {t}")
        for p in probes:
            reqs.append(f"contains {t} {p}")
            reqs.append(f"den {t} {p}")
    ans = core.run_driver(ctx, reqs)
    model = dict(zip(reqs, ans))
    # ---- implementation on each scheme
    evals = 0
    diffs, violations = [], []
    nontrivial = set()
    samples = []
    aliases = {s.name: {p: vers.alias(s.version(p)) for p in range(len(s.lad))} for s in schemes}
    ctx.say("alias spellings available:", {k: sum(1 for x in v.values() if x is not None) for k, v in aliases.items()})
    for s in schemes:
        rc = vers.range_class_for(s.cls)
        for ci, (pat, probes) in enumerate(cases):
            t = vers.clist_text(pat)
            cons = s.constraints(pat)
            wf = model[f"wf {t}"] == "OK true"
            rng = None
            if wf:
                shuffled = list(cons)
                r.shuffle(shuffled)
                try:
                    rng = rc(constraints=tuple(shuffled) if ci % 2 else shuffled)
                except Exception as e:  # noqa
                    violations.append(dict(kind="counterexample", stage="search", what=f"building a well-formed range raised {e!r}",
                                           inputs=dict(scheme=s.name, constraints=[str(c) for c in shuffled])))
            for p0 in probes + [-q for q in probes if q % 2 == 0]:
                # a negative probe is the same position under a different spelling (an equal version)
                p = abs(p0)
                v = s.version(p)
                if p0 < 0:
                    v = aliases[s.name].get(p)
                    if v is None:
                        continue
                got = vers.res_bool(lambda: vc.contains_version(v, cons))
                evals += 1
                m = model[f"contains {t} {p}"]
                if got != m:
                    diffs.append(dict(scheme=s.name, pattern=t, probe=p, constraints=[str(c) for c in cons], version=v.string, model=m, impl=got))
                if wf:
                    d = model[f"den {t} {p}"]
                    if len(pat) >= 2:
                        nontrivial.add((t, p))
                    obs = [got]
                    if rng is not None:
                        obs.append(vers.res_bool(lambda: v in rng))
                        obs.append(vers.res_bool(lambda: rng.contains(v)))
                        evals += 2
                    for o in obs:
                        if o != d:
                            violations.append(dict(kind="counterexample", stage="search",
                                                   what=f"{s.name}: {v.string!r} in {'|'.join(str(c) for c in cons)} -> {o}, the constraints denote {d}",
                                                   inputs=dict(scheme=s.name, constraints=[str(c) for c in cons], version=v.string, pattern=t, probe=p),
                                                   observed=o, expected=d))
                            break
            if ci % 997 == 0 and len(samples) < 8:
                samples.append(dict(scheme=s.name, range="|".join(str(c) for c in cons), wf=wf,
                                    probes={s.version(p).string: model[f"contains {t} {p}"] for p in probes[:5]}))
    # ---- in-Coq slice: the first cases are also evaluated by vm_compute (extraction/driver cross-check)
    slice_cases = cases[:: max(1, len(cases) // 300)][:300]
    coqsrc = ["From Coq Require Import List ZArith String.", "From UV.Base Require Import Cop Res.", "From UV.Vers Require Import Model.",
              "From UV.Extract Require Import Inst.", "Import ListNotations.", "Open Scope Z_scope.",
              "Definition enc (r : res bool) : nat := match r with Ok true => 1 | Ok false => 0 | Err _ => 2 end%nat.",
              "Definition cases : list (list zconstr * list Z) := ["]
    items = []
    for pat, probes in slice_cases:
        cl = "; ".join("Star" if o == "*" else f"C {o} {p}" for o, p in pat)
        items.append(f"([{cl}], [{'; '.join(str(p) for p in probes)}])")
    coqsrc.append(";\n".join(items) + "].")
    coqsrc.append("Eval vm_compute in (map (fun c => map (fun p => enc (z_contains (fst c) p)) (snd c)) cases).")
    rc_, out, err = core.run_coq_eval(ctx, "c04_slice", "\n".join(coqsrc))
    vm_ok = False
    if rc_ == 0:
        import re
        digits = re.findall(r"\b[012]\b", out.split("=", 1)[1].rsplit(":", 1)[0])
        want = []
        for pat, probes in slice_cases:
            t = vers.clist_text(pat)
            for p in probes:
                m = model[f"contains {t} {p}"]
                want.append("1" if m == "OK true" else "0" if m == "OK false" else "2")
        vm_ok = digits == want
        if not vm_ok:
            diffs.append(dict(what="vm_compute and extracted driver disagree", n_vm=len(digits), n_driver=len(want)))
    else:
        diffs.append(dict(what="in-Coq evaluation failed", err=(out + err)[-400:]))
    # ---- the same statement on dense families of versions (one edit apart, equal under another spelling): harness/dense.py
    dense_ev, dense_per = dense.run(ctx, "C04", r, lambda what, **kw: violations.append(dict(kind="counterexample", stage="search", what=what, **kw)))
    evals += dense_ev
    if not violations and (diffs or not proofs["ok"]):
        what = ("theorems of Props/C04.v no longer check: " + str(proofs.get("error"))[-400:]) if not proofs["ok"] else \
            ("model and implementation differ (only outside well-formed ranges, or the spec agrees with both): " + str(diffs[0]))
        violations.append(dict(kind="no-failing-input-found", stage="proof" if not proofs["ok"] else "correspondence",
                               theorem_or_stream="Props/C04.v" if not proofs["ok"] else "contains_version vs Model.contains",
                               what=what, diffs=diffs[:10]))
    cov = dict(evaluations=evals, dense_pairs=dense_per, distinct_nontrivial=len(nontrivial),
               rule=f"all 6^n comparator patterns n<={N} (plus '*') x all 2n+1 probe positions (at/between/around every constraint version), "
                    f"{nrand} random longer patterns (n<={maxlen}, mostly well-formed, 30% with one mutated comparator), each instantiated on "
                    f"{len(schemes)} schemes with versions drawn from the scheme grammar and sorted by the implementation; "
                    "non-trivial = distinct (well-formed pattern with >=2 constraints, probe position)",
               samples=samples, exhaustive=True, exhaustive_scope=f"patterns of length <= {N}", patterns=len(cases), exhaustive_patterns=n_exh,
               schemes=[s.name for s in schemes], model_impl_differences=len(diffs), vm_compute_slice_agrees=vm_ok)
    return core.finish(ctx, proofs, cov, violations, [],
                       assumptions=["the scheme's comparison is a total preorder and its operators agree with it (C01, C02 of the scheme)"])
